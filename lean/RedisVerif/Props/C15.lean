import RedisVerif.Model.Resp
import RedisVerif.Lemmas.Resp
import RedisVerif.Lemmas.Conn
import RedisVerif.Lemmas.RespProxy

/-
  C15 — RESP decoding is total, bounded, prefix-stable; replies re-decode to themselves.

  All theorems are about the byte-exact models of `Model/Resp.lean`: `parse1` (= `RespCodec::parse`,
  codec 1) and `parse2` (= `RespParser::parse`, codec 2) AFTER the fix commits, for EVERY byte
  string (no bound on length, nesting or values) and every machine environment `env` (stack
  frames available, largest uncapped allocation request granted).  `Small bs` (fewer than 2^56
  bytes) says that the input is a buffer that can exist.

  The decoders as they were BEFORE the fixes are the instances `codec1Pinned` / `codec2Pinned` (and
  `encode2Pinned`) of the same generic transcription; the `…_pinned_counterexample` theorems keep
  the refutations of the full statements for the pinned behaviour as kernel-checked facts, so the
  reason for every fix stays visible next to the theorem it made true.
-/
namespace RedisVerif.C15
open RedisVerif.Resp

/-! ### concrete inputs used by counterexamples and non-vacuity examples -/

/-- `$-2\r\n` -/
def bulkMinus2 : Bytes := [36, 45, 50, 13, 10]
/-- `*-5\r\n` -/
def arrayMinus5 : Bytes := [42, 45, 53, 13, 10]
/-- `*1000000000\r\n` -/
def arrayBillion : Bytes := [42, 49, 48, 48, 48, 48, 48, 48, 48, 48, 48, 13, 10]
/-- `+\ra` : a simple string line with a CR that is not followed by LF -/
def loneCr : Bytes := [43, 13, 97]
/-- `*2\r\n$3\r\nGET\r\n$1\r\nk\r\n` -/
def getK : Bytes := [42, 50, 13, 10, 36, 51, 13, 10, 71, 69, 84, 13, 10, 36, 49, 13, 10, 107, 13, 10]
/-- `*1\r\n` × depth, then `:1\r\n` -/
def nested : Nat → Bytes
  | 0 => [58, 49, 13, 10]
  | d + 1 => 42 :: 49 :: 13 :: 10 :: nested d

/-- a roomy machine: 64 frames of stack, 1 GiB per allocation request -/
def env0 : Env := { depth := 64, mem := 1073741824 }

theorem good_of (c : Codec) (h : c = codec1 ∨ c = codec2) : c.Good ∧ c.Fixed maxNesting ∧ c.CapSane ∧
    (c.prealloc = true → c.capPrealloc = true) := by
  cases h with
  | inl h => subst h; exact ⟨codec1_good, codec1_fixed, fun _ => rfl, fun _ => rfl⟩
  | inr h => subst h; exact ⟨codec2_good, codec2_fixed, fun h => by simp [codec2] at h, fun h => by simp [codec2] at h⟩

/-! ## 1. never panics, never aborts, never overflows the stack -/

/-- full statement: there is a machine on which the decoder never crashes, whatever the input -/
def C15_no_crash (c : Codec) : Prop :=
  ∃ env : Env, ∀ bs : Bytes, Small bs → (parseG c env bs).out.isCrash = false

/-- NO CRASH for ALL byte strings: on every machine with at least 33 decoder frames of stack both
    repaired decoders answer value / incomplete / protocol error -/
theorem no_crash (c : Codec) (h : c = codec1 ∨ c = codec2) (env : Env) (hd : maxNesting + 1 ≤ env.depth)
    (bs : Bytes) (hs : Small bs) : (parseG c env bs).out.isCrash = false := by
  obtain ⟨hg, hf, _, _⟩ := good_of c h
  exact parseD_no_crash c hg maxNesting hf env.mem env.depth 0 bs (Nat.zero_le _) (by omega) hs

theorem no_crash_codec1 : C15_no_crash codec1 :=
  ⟨env0, fun bs hs => no_crash codec1 (Or.inl rfl) env0 (by decide) bs hs⟩

theorem no_crash_codec2 : C15_no_crash codec2 :=
  ⟨env0, fun bs hs => no_crash codec2 (Or.inr rfl) env0 (by decide) bs hs⟩

/-- the inputs that crashed the pinned decoders are protocol errors now -/
example : (parse1 env0 bulkMinus2).out = .error .badLen ∧ (parse2 env0 bulkMinus2).out = .error .badLen ∧
    (parse1 env0 arrayMinus5).out = .error .badLen ∧ (parse1 env0 arrayBillion).out = .incomplete .elems ∧
    (parse1 env0 arrayBillion).allocs = [] := ⟨rfl, rfl, rfl, rfl, rfl⟩
set_option maxRecDepth 8000 in
example : (parse1 env0 (nested 33)).out.errKind = some .tooDeep ∧ (parse2 env0 (nested 33)).out.errKind = some .tooDeep ∧
    (parse1 env0 (nested 32)).out.isOk = true := by decide

theorem bulk_negative_len_crashes_pinned (c : Codec) (h : c = codec1Pinned ∨ c = codec2Pinned) (env : Env) :
    (parseG c env bulkMinus2).out.isCrash = true := by
  unfold parseG
  cases hd : env.depth with
  | zero => simp [parseD, Outcome.isCrash]
  | succ d =>
    have hb : parseD c env.mem (d + 1) 0 bulkMinus2 = parseBulk c bulkMinus2 := by
      simp [parseD, bulkMinus2]
    rw [hb]
    cases h with
    | inl h => subst h; decide
    | inr h => subst h; decide

/-- PINNED behaviour (before fix 8e8c60e): `$-2\r\n` panicked both decoders on every machine -/
theorem no_crash_pinned_counterexample (c : Codec) (h : c = codec1Pinned ∨ c = codec2Pinned) : ¬ C15_no_crash c := by
  intro ⟨env, hall⟩
  have h1 := hall bulkMinus2 (by decide)
  rw [bulk_negative_len_crashes_pinned c h env] at h1
  exact absurd h1 (by decide)

/-- PINNED behaviour (before fix e863343): `*-5\r\n` "capacity overflow", a huge positive length the
    same, `*1000000000\r\n` a 40 GB request -/
theorem array_len_pinned_counterexample :
    (parseG codec1Pinned env0 arrayMinus5).out = .crash .capacityOverflow ∧
    (parseG codec1Pinned env0 [42, 50, 51, 48, 53, 56, 52, 51, 48, 48, 57, 50, 49, 51, 54, 57, 51, 57, 54, 13, 10]).out =
      .crash .capacityOverflow ∧
    (parseG codec1Pinned env0 arrayBillion).out = .crash .allocAbort ∧
    (parseG codec1Pinned env0 arrayBillion).allocs = [40000000000] := ⟨rfl, rfl, rfl, rfl⟩

/-- a first byte that is none of the five RESP2 type bytes `+ - : $ *` — every RESP3 type byte
    (`_ # , ( ! = % ~ > |`), every letter of an inline command (`PING\r\n`), every control byte — is a
    protocol error decided at that byte, whatever follows, in both decoders: neither RESP3 nor inline
    commands are accepted anywhere in the tree -/
theorem non_resp2_type_byte_is_error (c : Codec) (env : Env) (hd : 1 ≤ env.depth) (t : Nat) (rest : Bytes)
    (ht : t ≠ 43 ∧ t ≠ 45 ∧ t ≠ 58 ∧ t ≠ 36 ∧ t ≠ 42) :
    parseG c env (t :: rest) = ⟨.error .unknownType, []⟩ := by
  unfold parseG
  cases h : env.depth with
  | zero => omega
  | succ d =>
    unfold parseD
    simp only [ht.1, ht.2.1, ht.2.2.1, ht.2.2.2.1, ht.2.2.2.2, if_false]

example : (parse1 env0 [80, 73, 78, 71, 13, 10]).out = .error .unknownType ∧
    (parse2 env0 [95, 13, 10]).out = .error .unknownType ∧ (parse1 env0 [35, 116, 13, 10]).out = .error .unknownType :=
  ⟨rfl, rfl, rfl⟩

/-! ## 2. recursion depth -/

/-- full statement: some stack depth is enough for every input, of whatever size -/
def C15_depth_bounded (c : Codec) : Prop :=
  ∃ D : Nat, ∀ (mem : Nat) (bs : Bytes), 40 < mem → (parseD c mem D 0 bs).out ≠ .crash .stackOverflow

/-- 33 frames are enough: arrays nested deeper than `MAX_NESTING_DEPTH` = 32 are a protocol error -/
theorem depth_bounded (c : Codec) (h : c = codec1 ∨ c = codec2) : C15_depth_bounded c := by
  obtain ⟨_, hf, _, _⟩ := good_of c h
  exact ⟨maxNesting + 1, fun mem bs _ => parseD_noSO c maxNesting hf.nest mem (maxNesting + 1) 0 bs (Nat.zero_le _) (by omega)⟩

/-- THE BOUND AS A THEOREM OVER THE DEPTH PARAMETER: for ANY decoder of the family and ANY value `m` of
    its `MAX_NESTING_DEPTH`, `m + 1` stack frames are enough for every input (the constant of the
    source, 32, is read from resp.rs by ./check and compared with the value the other theorems assume) -/
theorem depth_bounded_param (c : Codec) (m : Nat) (hm : c.maxNest = some m) (mem : Nat) (bs : Bytes) :
    (parseD c mem (m + 1) 0 bs).out ≠ .crash .stackOverflow :=
  parseD_noSO c m hm mem (m + 1) 0 bs (Nat.zero_le _) (by omega)

/-- … and no panic / abort of any kind with that many frames, for every value of the parameter -/
theorem no_crash_param (c : Codec) (hg : c.Good) (m : Nat) (hf : c.Fixed m) (env : Env) (hd : m + 1 ≤ env.depth)
    (bs : Bytes) (hs : Small bs) : (parseG c env bs).out.isCrash = false :=
  parseD_no_crash c hg m hf env.mem env.depth 0 bs (Nat.zero_le _) (by omega) hs

/-- non-vacuity: both repaired decoders are members of the family with `m = 32`, and so is a
    hypothetical decoder with another limit -/
example : codec1.maxNest = some 32 ∧ codec2.maxNest = some 32 ∧ codec1.Good ∧ codec1.Fixed 32 ∧ codec2.Fixed 32 ∧
    ({ codec1 with maxNest := some 7 } : Codec).Fixed 7 ∧ codec1.CapSane ∧ codec2.CapSane :=
  ⟨rfl, rfl, codec1_good, codec1_fixed, codec2_fixed, ⟨rfl, fun _ => ⟨rfl, rfl⟩, rfl⟩, fun _ => rfl,
    fun h => by simp [codec2] at h⟩

set_option maxRecDepth 8000 in
/-- the limit is tight for the constant of the source: 32 nested arrays need the 33rd frame -/
example : (parseD codec1 41 32 0 (nested 32)).out.crashKind = some .stackOverflow ∧
    (parseD codec2 41 32 0 (nested 32)).out.crashKind = some .stackOverflow ∧
    (parseD codec1 41 33 0 (nested 32)).out.isOk = true := by decide

/-- PINNED behaviour (before fix 468f0b7): whatever the stack size, `depth` nested arrays overflow it -/
theorem stack_overflow_pinned (c : Codec) (h : c = codec1Pinned ∨ c = codec2Pinned) (mem : Nat) (hm : 40 < mem) :
    ∀ d nest : Nat, (parseD c mem d nest (nested d)).out = .crash .stackOverflow := by
  intro d
  induction d with
  | zero => intro nest; simp [parseD]
  | succ d ih =>
    intro nest
    have hpre : ∀ r, ¬ (¬ c.capPrealloc = true ∧ preReq c 1 r ≥ mem ∧ preReq c 1 r ≠ 0) := by
      intro r
      cases h with
      | inl h => subst h; simp [preReq, codec1Pinned, asUsize, W, elemSize]; omega
      | inr h => subst h; simp [preReq, codec2Pinned]
    have hpre2 : ∀ r, ¬ (preReq c 1 r > isizeMax) := by
      intro r
      cases h with
      | inl h => subst h; simp [preReq, codec1Pinned, asUsize, W, elemSize, isizeMax]
      | inr h => subst h; simp [preReq, codec2Pinned]
    have hneg : ¬ (c.arrayNegCheck = true ∧ (1 : Int) < 0) := by omega
    have hfind : c.findCrlf (42 :: 49 :: 13 :: 10 :: nested d) = some 2 := by
      cases h with
      | inl h => subst h; simp [codec1Pinned, findCrlf1]
      | inr h => subst h; simp [codec2Pinned, findCrlf2]
    have htd : tooDeep c nest = false := by
      cases h with
      | inl h => subst h; rfl
      | inr h => subst h; rfl
    have hne : nested d ≠ [] := by cases d <;> simp [nested]
    simp only [nested, parseD]
    simp only [show ¬ (42 : Nat) = 43 by decide, show ¬ (42 : Nat) = 45 by decide,
      show ¬ (42 : Nat) = 58 by decide, show ¬ (42 : Nat) = 36 by decide, if_false, if_true, htd,
      Bool.false_eq_true]
    unfold parseArray
    rw [hfind]
    have hf : field (42 :: 49 :: 13 :: 10 :: nested d) 2 = some [49] := by simp [field]
    have hp : parseI64 [49] = some 1 := by decide
    simp only [hf, hp, show ¬ ((1 : Int) = -1) by decide, hneg, hpre, hpre2, if_false]
    have hdrop : (42 :: 49 :: 13 :: 10 :: nested d).drop (2 + 2) = nested d := by simp
    rw [hdrop]
    have : (1 : Int).toNat = 1 := by decide
    rw [this]
    unfold elems
    simp only [hne, and_false, if_false, ih (nest + 1)]

theorem depth_bounded_pinned_counterexample (c : Codec) (h : c = codec1Pinned ∨ c = codec2Pinned) :
    ¬ C15_depth_bounded c := by
  intro ⟨D, hall⟩
  exact hall 41 (nested D) (by decide) (stack_overflow_pinned c h 41 (by decide) D 0)

/-! ## 3. never over-reads: consumed ≤ length (and ≥ 1) -/

def C15_consumed_le_length (c : Codec) : Prop :=
  ∀ (env : Env) (bs : Bytes), Small bs → ∀ v k, (parseG c env bs).out = .ok v k → 1 ≤ k ∧ k ≤ bs.length

theorem consumed_le_length_codec1 : C15_consumed_le_length codec1 :=
  fun env bs hs => parseD_consumed codec1 codec1_good env.mem env.depth 0 bs hs

theorem consumed_le_length_codec2 : C15_consumed_le_length codec2 :=
  fun env bs hs => parseD_consumed codec2 codec2_good env.mem env.depth 0 bs hs

example : (parse1 env0 getK).out = .ok (.array [.bulk [71, 69, 84], .bulk [107]]) 20 := rfl

/-! ## 4. allocation is not driven by an unvalidated length field -/

/-- full statement: whatever the input and the outcome, the decoder's allocation requests sum to at
    most 3 + 40·32 = 1283 bytes per input byte (3 for copies, 40 per array level: the
    pre-allocation is capped by the bytes that follow the header, 14 bytes per remaining byte) -/
def C15_alloc_bounded (c : Codec) : Prop :=
  ∀ (env : Env) (bs : Bytes), Small bs → (parseG c env bs).alloc ≤ 1283 * bs.length

theorem alloc_bounded (c : Codec) (h : c = codec1 ∨ c = codec2) : C15_alloc_bounded c := by
  obtain ⟨hg, hf, hcs, hcap⟩ := good_of c h
  intro env bs hs
  have := parseD_alloc_lenN c hg hcs hcap maxNesting hf.nest env.mem env.depth 0 bs (Nat.zero_le _) hs
  unfold KN maxNesting at this
  unfold Res.alloc parseG
  simpa using this

/-- every COMPLETE frame: at most 43 bytes per consumed byte, whatever the nesting -/
theorem alloc_ok_bounded (c : Codec) (h : c = codec1 ∨ c = codec2) (env : Env) (bs : Bytes) (hs : Small bs)
    (v : Val) (k : Nat) (hok : (parseG c env bs).out = .ok v k) : (parseG c env bs).alloc ≤ 43 * k := by
  obtain ⟨hg, _, hcs, _⟩ := good_of c h
  have := parseD_alloc_ok2 c hg hcs env.mem env.depth 0 bs hs v k hok
  have hpf : pf c ≤ 40 := pf_le c
  have : (3 + pf c) * k ≤ 43 * k := Nat.mul_le_mul_right _ (by omega)
  unfold Res.alloc parseG
  omega

/-- THE ALLOCATION BOUND IN TERMS OF THE INPUT LENGTH, for every decoder of the family and every value
    `m` of the nesting limit: at most `3 + 40·m` bytes requested per input byte, whatever the outcome
    (the pre-allocation must be capped by the input — `capPrealloc` — wherever there is one) -/
theorem alloc_bounded_param (c : Codec) (hg : c.Good) (hcs : c.CapSane) (hcap : c.prealloc = true → c.capPrealloc = true)
    (m : Nat) (hm : c.maxNest = some m) (env : Env) (bs : Bytes) (hs : Small bs) :
    (parseG c env bs).alloc ≤ (3 + 40 * m) * bs.length := by
  have := parseD_alloc_lenN c hg hcs hcap m hm env.mem env.depth 0 bs (Nat.zero_le _) hs
  unfold KN at this
  unfold Res.alloc parseG
  simpa using this

/-- PINNED behaviour (before fix e863343): 13 bytes `*1000000000\r\n` requested 40 GB -/
theorem alloc_pinned_counterexample : ¬ C15_alloc_bounded codec1Pinned := by
  intro h
  have := h { depth := 8, mem := 1099511627776 } arrayBillion (by decide)
  exact absurd this (by decide)

example : (parse1 env0 getK).alloc = 84 ∧ (parse1 env0 [42, 57, 57, 57, 57, 13, 10]).alloc = 0 := by decide

/-! ## 5. prefix stability -/

/-- full statement: a decided outcome (value and consumed count, protocol error) never changes when
    more bytes arrive -/
def C15_prefix_stable (c : Codec) : Prop :=
  ∀ (env : Env) (a b : Bytes), Small (a ++ b) → (parseG c env a).out.isIncomplete = false →
    (parseG c env (a ++ b)).out = (parseG c env a).out

theorem prefix_stable_codec1 : C15_prefix_stable codec1 :=
  fun env a b hs hd => parseD_stable codec1 codec1_good env.mem env.depth 0 a b hs hd

theorem prefix_stable_codec2 : C15_prefix_stable codec2 :=
  fun env a b hs hd => parseD_stable codec2 codec2_good env.mem env.depth 0 a b hs hd

/-- consequently "more bytes needed" is never contradicted by an earlier decision -/
theorem incomplete_prefix (c : Codec) (h : c = codec1 ∨ c = codec2) (env : Env) (a b : Bytes)
    (hs : Small (a ++ b)) (hi : (parseG c env (a ++ b)).out.isIncomplete = true) :
    (parseG c env a).out.isIncomplete = true := by
  obtain ⟨hg, _, _, _⟩ := good_of c h
  cases hd : (parseG c env a).out.isIncomplete with
  | true => rfl
  | false =>
    have := parseD_stable c hg env.mem env.depth 0 a b hs hd
    unfold parseG at hi hd
    rw [this, hd] at hi
    exact absurd hi (by decide)

example : (parse1 env0 (getK ++ [1, 2, 3])).out = (parse1 env0 getK).out := rfl

/-! ## 6. "more bytes needed" is honest for lines -/

/-- full statement: a `+` / `-` / `:` line is decided as soon as a CR LF has arrived, whatever
    precedes it (in particular a CR that is not followed by LF) -/
def C15_line_completable (c : Codec) : Prop :=
  ∀ (env : Env) (t : Nat) (s : Bytes), 1 ≤ env.depth → (t = 43 ∨ t = 45 ∨ t = 58) →
    (parseG c env (t :: (s ++ [13, 10]))).out.isIncomplete = false

theorem findCrlf2_some : ∀ (s : Bytes), ∃ p, findCrlf2 (s ++ [13, 10]) = some p := by
  intro s
  induction s with
  | nil => exact ⟨0, by simp [findCrlf2]⟩
  | cons x xs ih =>
    obtain ⟨p, hp⟩ := ih
    cases hxs : xs ++ [13, 10] with
    | nil => simp at hxs
    | cons y ys =>
      simp only [List.cons_append, hxs]
      unfold findCrlf2
      split
      · exact ⟨0, rfl⟩
      · rw [← hxs, hp]; exact ⟨p + 1, rfl⟩

theorem line_completable (c : Codec) (h : c = codec1 ∨ c = codec2) : C15_line_completable c := by
  intro env t s hd ht
  have hfc : c.findCrlf = findCrlf2 := by
    cases h with
    | inl h => subst h; rfl
    | inr h => subst h; rfl
  obtain ⟨p, hp⟩ := findCrlf2_some (t :: s)
  simp only [List.cons_append] at hp
  unfold parseG
  cases hdep : env.depth with
  | zero => omega
  | succ d =>
    unfold parseD
    rcases ht with ht | ht | ht
    · subst ht
      simp only [if_true]
      unfold parseLine
      rw [hfc, hp]
      simp only []
      split <;> rfl
    · subst ht
      simp only [show ¬ (45 : Nat) = 43 by decide, if_false, if_true]
      unfold parseLine
      rw [hfc, hp]
      simp only []
      split <;> rfl
    · subst ht
      simp only [show ¬ (58 : Nat) = 43 by decide, show ¬ (58 : Nat) = 45 by decide, if_false, if_true]
      unfold parseInt
      rw [hfc, hp]
      simp only []
      split
      · rfl
      · split <;> rfl

/-- PINNED behaviour (before fix c5a1b33): after `+\ra` NO continuation was ever accepted or rejected -/
theorem lone_cr_stalls_pinned (env : Env) (hd : 1 ≤ env.depth) (ext : Bytes) :
    (parseG codec1Pinned env (loneCr ++ ext)).out = .incomplete .noCrlf := by
  unfold parseG
  cases h : env.depth with
  | zero => omega
  | succ d => simp [loneCr, parseD, parseLine, codec1Pinned, findCrlf1]

theorem line_completable_pinned_counterexample : ¬ C15_line_completable codec1Pinned := by
  intro h
  have h1 := h env0 43 [13, 97] (by decide) (Or.inl rfl)
  have h2 := lone_cr_stalls_pinned env0 (by decide) [13, 10]
  simp only [loneCr, List.cons_append, List.nil_append] at h2
  simp only [List.cons_append, List.nil_append] at h1
  rw [h2] at h1
  exact absurd h1 (by decide)

example : (parse1 env0 (loneCr ++ [13, 10])).out = .ok (.simple [13, 97]) 5 := rfl

/-! ## 7. fragmentation invariance of the buffer loop -/

def C15_fragmentation_invariant (c : Codec) : Prop :=
  ∀ (env : Env) (chunks : List Bytes), 1 ≤ env.depth → Small chunks.flatten →
    feedAll (fun b => (parseG c env b).out) FeedSt.init chunks =
      feedAll (fun b => (parseG c env b).out) FeedSt.init [chunks.flatten]

theorem parserSpec (c : Codec) (hc : c.Good) (env : Env) (hd : 1 ≤ env.depth) :
    ParserSpec (fun b => (parseG c env b).out) where
  empty := by
    unfold parseG
    cases h : env.depth with
    | zero => omega
    | succ d => simp [parseD, Outcome.isIncomplete]
  consumed := fun bs hs => parseD_consumed c hc env.mem env.depth 0 bs hs
  stable := fun a b hs hdec => parseD_stable c hc env.mem env.depth 0 a b hs hdec

/-- every fragmentation of every byte stream (valid or not) yields the frames, left-over bytes and
    liveness of the unfragmented feed -/
theorem fragmentation_invariant_codec1 : C15_fragmentation_invariant codec1 :=
  fun env chunks hd hs => feedAll_fragmentation _ (parserSpec codec1 codec1_good env hd) chunks hs

theorem fragmentation_invariant_codec2 : C15_fragmentation_invariant codec2 :=
  fun env chunks hd hs => feedAll_fragmentation _ (parserSpec codec2 codec2_good env hd) chunks hs

example : (feedAll (fun b => (parse1 env0 b).out) FeedSt.init [[43, 79], [75, 13], [10, 58, 49, 13, 10, 43]]).frames.length = 2 := by
  decide

/-! ## 8. decode ∘ encode for each encoder -/

/-- full statement: every value of the server's reply type (`Val.wf`: integers are i64s, line texts
    are strings of the decoder's string type) with at most 32 nested arrays is written as ONE frame
    that decodes to the value with its reply lines as written on the wire (`Val.san`: CR / LF inside
    a `+` / `-` line are a space); any bytes may follow -/
def C15_encode_decode (enc : Val → Bytes) (c : Codec) : Prop :=
  ∀ (env : Env) (v : Val) (rest : Bytes), v.wf c = true → v.depth ≤ env.depth → v.arr ≤ maxNesting →
    Small (enc v ++ rest) → (parseG c env (enc v ++ rest)).out = .ok v.san (enc v).length

theorem encode2_decode (c : Codec) (h : c = codec1 ∨ c = codec2) : C15_encode_decode encode2 c := by
  obtain ⟨hg, hf, _, _⟩ := good_of c h
  intro env v rest hw hd ha hs
  exact parseD_encode c hg maxNesting hf env.mem env.depth 0 v hd (by omega) hw rest hs

theorem encode1_decode (c : Codec) (h : c = codec1 ∨ c = codec2) : C15_encode_decode encode1 c := by
  intro env v rest hw hd ha hs
  rw [encode1_eq] at hs ⊢
  exact encode2_decode c h env v rest hw hd ha hs

theorem encode3_decode (c : Codec) (h : c = codec1 ∨ c = codec2) : C15_encode_decode encode3 c := by
  intro env v rest hw hd ha hs
  rw [encode3_eq] at hs ⊢
  exact encode2_decode c h env v rest hw hd ha hs

/-- … and a value whose lines contain neither CR nor LF decodes back to ITSELF -/
theorem encode_decode_plain (c : Codec) (h : c = codec1 ∨ c = codec2) (env : Env) (v : Val) (rest : Bytes)
    (hw : v.wf c = true) (hp : v.plain = true) (hd : v.depth ≤ env.depth) (ha : v.arr ≤ maxNesting)
    (hs : Small (encode2 v ++ rest)) :
    (parseG c env (encode2 v ++ rest)).out = .ok v (encode2 v).length := by
  have := encode2_decode c h env v rest hw hd ha hs
  rw [san_plain v hp] at this
  exact this

theorem encode4_decode (c : Codec) (h : c = codec1 ∨ c = codec2) : C15_encode_decode encode4 c := by
  intro env v rest hw hd ha hs
  rw [encode4_eq] at hs ⊢
  exact encode2_decode c h env v rest hw hd ha hs

/-- all the server's encoders produce the same bytes: `RespCodec::encode` (1), `RespParser::encode`
    (2), the connection handler's private `encode_resp_into` (3, its own transcription
    `encodeConnS`), the simulated connection's `encode_resp` (4) -/
theorem encoders_agree (v : Val) : encode1 v = encode2 v ∧ encode3 v = encode2 v ∧ encode4 v = encode2 v ∧
    encode5 v = encode2 v :=
  ⟨encode1_eq v, encode3_eq v, encode4_eq v, encode5_eq v⟩

/-- encoder 5 (`encode_resp_into` of the binary server_persistent.rs) -/
theorem encode5_decode (c : Codec) (h : c = codec1 ∨ c = codec2) : C15_encode_decode encode5 c := by
  intro env v rest hw hd ha hs
  rw [encode5_eq] at hs ⊢
  exact encode2_decode c h env v rest hw hd ha hs

/-- `encode_error_into` of server_persistent.rs: one error frame `ERR ` ++ text -/
theorem encode_error5_decode (c : Codec) (h : c = codec1 ∨ c = codec2) (env : Env) (msg rest : Bytes)
    (hw : (Val.error ([69, 82, 82, 32] ++ msg)).wf c = true) (hd : 1 ≤ env.depth) (hs : Small (encodeErr5 msg ++ rest)) :
    (parseG c env (encodeErr5 msg ++ rest)).out = .ok (Val.error ([69, 82, 82, 32] ++ msg)).san (encodeErr5 msg).length := by
  rw [encodeErr5_eq] at hs ⊢
  exact encode2_decode c h env _ rest hw (by simpa [Val.depth] using hd) (by simp [Val.arr]) hs

example : (Val.error ([69, 82, 82, 32] ++ [120, 13, 10, 121])).wf codec2 = true ∧
    (parse2 env0 (encodeErr5 [120, 13, 10, 121])).out = .ok (.error [69, 82, 82, 32, 120, 32, 32, 121]) 11 := ⟨by decide, rfl⟩

/-- encoder 6, the CLIENT side (`SimulatedReadBuffer::encode_command`, and every client that writes a
    command as an array of bulk strings): the frame `encCmd args` decodes — under RespCodec, on a
    machine with two decoder frames, whatever follows — to exactly the array of its arguments, any
    bytes in them (CR LF, NUL, non-UTF-8), consuming exactly its own length -/
theorem command_frame_decodes (env : Env) (args : List Bytes) (rest : Bytes) (hd : 2 ≤ env.depth)
    (hs : Small (Conn.encCmd args ++ rest)) :
    (parse1 env (Conn.encCmd args ++ rest)).out = .ok (.array (args.map Val.bulk)) (Conn.encCmd args).length :=
  Conn.parse1_frame env args rest hd hs

example : Conn.encCmd [[71, 69, 84], [107]] = getK := by decide
example : (parse1 env0 (Conn.encCmd [[83, 69, 84], [13, 10, 0, 255], []])).out =
      .ok (.array [.bulk [83, 69, 84], .bulk [13, 10, 0, 255], .bulk []]) 29 := rfl

/-- `encode_error_into(msg)` (protocol errors, command-parse errors) is ONE error frame that decodes
    to the error text `errText msg` as written on the wire -/
theorem encode_error_decode (c : Codec) (h : c = codec1 ∨ c = codec2) (env : Env) (msg rest : Bytes)
    (hw : (Val.error (errText msg)).wf c = true) (hd : 1 ≤ env.depth) (hs : Small (encodeErr msg ++ rest)) :
    (parseG c env (encodeErr msg ++ rest)).out = .ok (Val.error (errText msg)).san (encodeErr msg).length := by
  rw [encodeErr_eq] at hs ⊢
  exact encode2_decode c h env _ rest hw (by simpa [Val.depth] using hd) (by simp [Val.arr]) hs

/-- COUNTEREXAMPLE for the variant of the connection encoder whose two null arms are merged
    (`BulkString(None) | Array(None) => "$-1\r\n"`): the null array — the reply of an aborted EXEC —
    is written as a null bulk string and decodes to a different value, also inside an array -/
theorem null_array_as_null_bulk_counterexample :
    encode3Merged .nullArray = [36, 45, 49, 13, 10] ∧ encode3 .nullArray = [42, 45, 49, 13, 10] ∧
    (parse1 env0 (encode3Merged .nullArray)).out = .ok .nullBulk 5 ∧
    (parse2 env0 (encode3Merged (.array [.int 1, .nullArray]))).out = .ok (.array [.int 1, .nullBulk]) 13 ∧
    (parse1 env0 (encode3 .nullArray)).out = .ok .nullArray 5 :=
  ⟨by decide, by decide, rfl, rfl, rfl⟩

theorem merged_nulls_encode_decode_counterexample : ¬ C15_encode_decode encode3Merged codec1 := by
  intro h
  have h1 := h env0 .nullArray [] (by decide) (by decide) (by decide) (by decide)
  have h2 : (parseG codec1 env0 (encode3Merged .nullArray ++ [])).out = .ok .nullBulk 5 := rfl
  rw [h2] at h1
  injection h1 with hv _
  cases hv

/-- `-ERR unknown command 'FOO\r\n+INJECTED'`: an error whose text contains CR LF (the server
    builds such replies from client bytes) -/
def injected : Val := .error [70, 79, 79, 13, 10, 43, 73, 78, 74]

/-- the reply is ONE frame now -/
example : (parse1 env0 (encode2 injected)).out = .ok (.error [70, 79, 79, 32, 32, 43, 73, 78, 74]) 12 ∧
    (parse2 env0 (encode3 injected)).out = .ok (.error [70, 79, 79, 32, 32, 43, 73, 78, 74]) 12 := ⟨rfl, rfl⟩

/-- PINNED behaviour (before fix c46fb96): the line ended at the embedded CR LF, the rest of the reply
    was read as further frames -/
theorem crlf_in_error_pinned_counterexample :
    (parse1 env0 (encode2Pinned injected)).out = .ok (.error [70, 79, 79]) 6 ∧
    (parse2 env0 (encode2Pinned injected)).out = .ok (.error [70, 79, 79]) 6 ∧
    encode1Pinned injected = encode2Pinned injected ∧ (encode2Pinned injected).length = 12 :=
  ⟨rfl, rfl, by decide, by decide⟩

/-- non-vacuity: a nested reply with a UTF-8 simple string, a binary bulk string containing CR LF,
    i64::MIN, nulls, an error with CR LF — a value of the reply type for both decoders -/
def reply : Val := .array [.simple [79, 75, 195, 169], .bulk [13, 10, 255, 0], .int (-9223372036854775808),
  .nullBulk, .array [.nullArray, .error [69, 82, 82, 13, 10, 120]]]

example : reply.wf codec1 = true ∧ reply.wf codec2 = true ∧ reply.depth ≤ env0.depth ∧ reply.arr ≤ maxNesting ∧
    reply.plain = false ∧ (Val.simple [255]).wf codec2 = false := by decide

/-! ## 9. the decoders against an independent statement of the RESP grammar

`firstCrlf bs` (Model/Resp.lean) is the index of the first adjacent pair (13, 10) of `bs`, defined
through `List.zip` / `List.findIdx?`, independently of the decoders' search loops.  A RESP line is
the bytes before the FIRST CR LF. -/

theorem grammar_of (c : Codec) (h : c = codec1 ∨ c = codec2) : c.Grammar := by
  cases h with
  | inl h => subst h; rfl
  | inr h => subst h; rfl

/-- (a) a decoded simple string / error ends at the FIRST CR LF after the type byte: the consumed
    count is that index + 3 (type byte, line, CR LF), the text is the decoder's string conversion
    of exactly the bytes before it, and those bytes contain no CR LF -/
theorem line_ends_at_first_crlf_string (c : Codec) (h : c = codec1 ∨ c = codec2) (env : Env) (hd : 1 ≤ env.depth)
    (t : Nat) (ht : t = 43 ∨ t = 45) (rest : Bytes) (v : Val) (k : Nat)
    (hok : (parseG c env (t :: rest)).out = .ok v k) :
    ∃ p, firstCrlf rest = some p ∧ k = p + 3 ∧ firstCrlf (rest.take p) = none ∧
      v = (if t = 43 then Val.simple else Val.error) (c.str (rest.take p)) := by
  unfold parseG at hok
  cases hdep : env.depth with
  | zero => omega
  | succ d =>
    rw [hdep] at hok
    unfold parseD at hok
    rcases ht with ht | ht
    · subst ht
      simp only [if_true] at hok
      rcases parseLine_grammar c (grammar_of c h) Val.simple 43 (by decide) rest with ⟨_, h2⟩ | ⟨p, h1, h2, h3⟩
      · rw [h2] at hok; cases hok
      · rw [h3] at hok
        injection hok with hv hk
        exact ⟨p, h1, hk.symm, h2, by simp [← hv]⟩
    · subst ht
      simp only [show ¬ (45 : Nat) = 43 by decide, if_false, if_true] at hok
      rcases parseLine_grammar c (grammar_of c h) Val.error 45 (by decide) rest with ⟨_, h2⟩ | ⟨p, h1, h2, h3⟩
      · rw [h2] at hok; cases hok
      · rw [h3] at hok
        injection hok with hv hk
        exact ⟨p, h1, hk.symm, h2, by simp [← hv]⟩

/-- (a) … and an integer frame likewise: the digits are exactly the bytes before the first CR LF -/
theorem line_ends_at_first_crlf_int (c : Codec) (h : c = codec1 ∨ c = codec2) (env : Env) (hd : 1 ≤ env.depth)
    (rest : Bytes) (v : Val) (k : Nat) (hok : (parseG c env (58 :: rest)).out = .ok v k) :
    ∃ p n, firstCrlf rest = some p ∧ k = p + 3 ∧ firstCrlf (rest.take p) = none ∧
      parseI64 (rest.take p) = some n ∧ v = .int n := by
  unfold parseG at hok
  cases hdep : env.depth with
  | zero => omega
  | succ d =>
    rw [hdep] at hok
    unfold parseD at hok
    simp only [show ¬ (58 : Nat) = 43 by decide, show ¬ (58 : Nat) = 45 by decide, if_false, if_true] at hok
    rcases parseInt_grammar c (grammar_of c h) rest with ⟨_, h2⟩ | ⟨p, h1, h2, h3⟩
    · rw [h2] at hok; cases hok
    · cases hn : parseI64 (rest.take p) with
      | none => rw [hn] at h3; simp only at h3; rw [h3] at hok; cases hok
      | some n =>
        rw [hn] at h3
        simp only at h3
        rw [h3] at hok
        injection hok with hv hk
        exact ⟨p, n, h1, hk.symm, h2, hn, hv.symm⟩

/-- (b) once a CR LF has arrived after the type byte, a `+` / `-` / `:` frame is never reported
    incomplete: it is a value or a protocol error -/
theorem complete_line_not_incomplete (c : Codec) (h : c = codec1 ∨ c = codec2) (env : Env) (hd : 1 ≤ env.depth)
    (t : Nat) (ht : t = 43 ∨ t = 45 ∨ t = 58) (rest : Bytes) (p : Nat) (hp : firstCrlf rest = some p) :
    (parseG c env (t :: rest)).out.isIncomplete = false := by
  unfold parseG
  cases hdep : env.depth with
  | zero => omega
  | succ d =>
    unfold parseD
    rcases ht with ht | ht | ht
    · subst ht
      simp only [if_true]
      rcases parseLine_grammar c (grammar_of c h) Val.simple 43 (by decide) rest with ⟨h1, _⟩ | ⟨q, _, _, h3⟩
      · rw [h1] at hp; cases hp
      · rw [h3]; rfl
    · subst ht
      simp only [show ¬ (45 : Nat) = 43 by decide, if_false, if_true]
      rcases parseLine_grammar c (grammar_of c h) Val.error 45 (by decide) rest with ⟨h1, _⟩ | ⟨q, _, _, h3⟩
      · rw [h1] at hp; cases hp
      · rw [h3]; rfl
    · subst ht
      simp only [show ¬ (58 : Nat) = 43 by decide, show ¬ (58 : Nat) = 45 by decide, if_false, if_true]
      rcases parseInt_grammar c (grammar_of c h) rest with ⟨h1, _⟩ | ⟨q, _, _, h3⟩
      · rw [h1] at hp; cases hp
      · cases hn : parseI64 (rest.take q) with
        | none => rw [hn] at h3; simp only at h3; rw [h3]; rfl
        | some n => rw [hn] at h3; simp only at h3; rw [h3]; rfl

/-- PINNED behaviour: the old `find_crlf` violated (b) -/
theorem complete_line_pinned_counterexample :
    firstCrlf [97, 13, 98, 13, 10] = some 3 ∧
    (parseG codec1Pinned env0 (43 :: [97, 13, 98, 13, 10])).out.isIncomplete = true := by decide

/-- (c) full statement: RespCodec and RespParser agree on every input — the same value (up to the
    lossy UTF-8 conversion the simulation decoder applies to line texts) with the same consumed
    count, both "more bytes needed", or the same protocol error -/
def C15_decoders_agree : Prop :=
  ∀ (env : Env) (bs : Bytes), maxNesting + 1 ≤ env.depth → Small bs →
    (parse1 env bs).out.Agrees (parse2 env bs).out

/-- (c) they genuinely differ in ONE place on the unchanged tree: `*-5\r\n` is "Invalid array
    length" for RespCodec and the empty array for RespParser -/
theorem decoders_agree_counterexample : ¬ C15_decoders_agree := by
  intro h
  have := h env0 arrayMinus5 (by decide) (by decide)
  have h1 : (parse1 env0 arrayMinus5).out = .error .badLen := rfl
  have h2 : (parse2 env0 arrayMinus5).out = .ok (.array []) 5 := rfl
  rw [h1, h2] at this
  exact this

/-- (c) PARTIAL, and that is the only place: on every input the decoders agree, or RespCodec
    reports "Invalid … length" (a negative array length somewhere in the frame) -/
theorem decoders_agree_partial (env : Env) (bs : Bytes) (hd : maxNesting + 1 ≤ env.depth) (hs : Small bs) :
    (parse1 env bs).out.Agrees (parse2 env bs).out ∨ (parse1 env bs).out = .error .badLen :=
  parseD_agree env.mem env.depth 0 bs (Nat.zero_le _) (by omega) hs

example : (parse1 env0 [43, 255, 13, 10]).out = .ok (.simple [255]) 4 ∧
    (parse2 env0 [43, 255, 13, 10]).out = .ok (.simple [239, 191, 189]) 4 ∧
    (Val.simple [255]).lossy = .simple [239, 191, 189] := ⟨rfl, rfl, rfl⟩

/-- (d) frames do not overlap: decoding the concatenation of two complete frames yields the first
    frame with exactly its own length, and what is left decodes to the second frame -/
theorem frames_do_not_overlap (c : Codec) (h : c = codec1 ∨ c = codec2) (env : Env) (f1 f2 : Bytes)
    (v1 v2 : Val) (hs : Small (f1 ++ f2))
    (h1 : (parseG c env f1).out = .ok v1 f1.length) (h2 : (parseG c env f2).out = .ok v2 f2.length) :
    (parseG c env (f1 ++ f2)).out = .ok v1 f1.length ∧
    (parseG c env ((f1 ++ f2).drop f1.length)).out = .ok v2 f2.length := by
  obtain ⟨hg, _, _, _⟩ := good_of c h
  refine ⟨?_, by simpa using h2⟩
  have := parseD_stable c hg env.mem env.depth 0 f1 f2 hs (by
    unfold parseG at h1; unfold Decided; rw [h1]; rfl)
  unfold parseG at h1 ⊢
  rw [this, h1]

example : (parse1 env0 ([43, 97, 13, 13, 10] ++ [58, 49, 13, 10])).out = .ok (.simple [97, 13]) 5 ∧
    (parse1 env0 [58, 55, 13, 13, 10]).out = .error .badInt := ⟨rfl, rfl⟩


/-! ## the third reader of client frames: the shadow proxy's command-name extractor

`src/bin/shadow_proxy.rs::parse_resp_command` (a bin target; its source text is compiled into the
harness) takes the NAME of a command out of a client frame for the proxy's logs and statistics — by
splitting the buffer at CR LF, not by decoding it. -/

/-- full statement: on every frame the server's decoder accepts the proxy names the command the
    server executes (the upper-cased first element) -/
def C15_proxy_name_agrees : Prop :=
  ∀ (env : Env) (data : Bytes) (v : Val) (k : Nat), 2 ≤ env.depth → Small data →
    (parse1 env data).out = .ok v k → proxyName data = Conn.cmdName v

/-- PARTIAL: for every well-formed command (an array of bulk strings, any arguments) whose NAME contains
    no CR and whose buffer is valid UTF-8 altogether — decidable — followed by anything -/
theorem proxy_name_agrees_partial (env : Env) (name : Bytes) (args : List Bytes) (rest : Bytes) (hd : 2 ≤ env.depth)
    (hs : Small (Conn.encCmd (name :: args) ++ rest)) (hcr : 13 ∉ name)
    (hu : validUtf8 (Conn.encCmd (name :: args) ++ rest) = true) :
    (parse1 env (Conn.encCmd (name :: args) ++ rest)).out =
      .ok (Conn.cmdFrame (name :: args)) (Conn.encCmd (name :: args)).length ∧
    proxyName (Conn.encCmd (name :: args) ++ rest) = Conn.cmdName (Conn.cmdFrame (name :: args)) := by
  refine ⟨Conn.parse1_frame env (name :: args) rest hd hs, ?_⟩
  rw [proxyName_frame name args rest hcr hu]
  rfl

/-- COUNTEREXAMPLE: `*1\r\n$2\r\n\r\n\r\n` — a command whose name is CR LF: the server reads the two bytes the
    length announces, the proxy stops at the first CR LF and logs the empty name (an observation about
    the proxy's statistics; no reply depends on it) -/
theorem proxy_name_counterexample : ¬ C15_proxy_name_agrees := by
  intro h
  have := h env0 [42, 49, 13, 10, 36, 50, 13, 10, 13, 10, 13, 10] (.array [.bulk [13, 10]]) 12 (by decide) (by decide) rfl
  exact absurd this (by decide)

/-- non-vacuity: `*2\r\n$3\r\nget\r\n$1\r\nk\r\n` → `GET`; a buffer that is not UTF-8 altogether (a binary value) → nothing -/
example : proxyName (Conn.encCmd [[103, 101, 116], [107]]) = some [71, 69, 84] ∧
    proxyName (Conn.encCmd [[83, 69, 84], [107], [255]]) = none ∧ proxyName [36, 49, 13, 10, 120, 13, 10] = none := by decide

end RedisVerif.C15
