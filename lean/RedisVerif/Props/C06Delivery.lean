import RedisVerif.Props.C06Msg
import RedisVerif.Lemmas.GossipAcc

/-!
# C06, message level: when does every delta reach every peer?

`Props/C06Msg.lean` shows five ways a delta is lost for good (outbox overflow, outbound-queue
overflow, a failed send, a target without address, an oversized frame).  This file proves that
these are ALL the ways, for broadcast gossip (no selective router — what
`ReplicatedShardedState::new` builds and `server_persistent` runs):

* `copy_accounted` — in every reachable state, every delta a node issued is, for every peer the
  node is configured with, still in the node's outbound queue, or on the wire to that peer, or
  recorded lost (`lost` is the model's ghost ledger of the five causes).
* `delivered_of_no_loss` — hence: nothing of key `k` lost, no delta of `k` left in a queue
  (the loops have ticked), the network has handed over every frame it was given ⇒ every delta of
  `k` has been applied at every configured peer of its origin; with complete peer lists that is
  `DeliveredTo` all nodes.
* `converges_of_no_loss` — … and then (one CRDT kind) all nodes agree: the layer-1 theorem applied
  to the message-level execution, with the delivery hypothesis DISCHARGED from "no loss".

The condition is exact in this sense: each clause is needed (`C06Msg`: one witness per cause, plus
`send_failure_loses_delta` for "the network hands over what it was given" read as "the send
succeeded"), and together they suffice.
-/
namespace RedisVerif
namespace C06

open Gossip

def isSetRouter : MEv → Bool
  | .setRouter _ _ => true
  | _ => false

/-- broadcast gossip: no selective router, replication enabled -/
def BroadcastCfg (cfg : NodeCfg) : Prop :=
  cfg.enabled = true ∧ (cfg.router.map (·.selective)).getD false = false

instance (cfg : NodeCfg) : Decidable (BroadcastCfg cfg) := by unfold BroadcastCfg; infer_instance

theorem routedFor_broadcast (g : GState) (order : List Nat) (ds : List Msg) (h : g.isSelective = false) :
    g.routedFor order ds = if ds.isEmpty then [] else [⟨none, .deltaBatch g.me ds g.epoch⟩] := by
  unfold GState.routedFor GState.isSelective at *
  split
  · rfl
  · cases hr : g.router with
    | none => rfl
    | some r => simp only [hr] at h; simp [h]

theorem routedFor_targets (g : GState) (order : List Nat) (ds : List Msg) (h : g.isSelective = false) :
    ∀ r ∈ g.routedFor order ds, r.target = none := by
  rw [routedFor_broadcast g order ds h]
  split
  · intro r hr; cases hr
  · intro r hr; simp only [List.mem_singleton] at hr; rw [hr]

theorem queueDeltas_router (cap : Nat) (g : GState) (order : List Nat) (ds : List Msg) :
    (g.queueDeltas cap order ds).router = g.router := by
  unfold GState.queueDeltas; split <;> rfl

theorem isSelective_of_router {g g' : GState} (h : g'.router = g.router) : g'.isSelective = g.isSelective := by
  unfold GState.isSelective; rw [h]

structure Acc (c : MCluster) : Prop where
  org : ∀ m ∈ c.issued, ∃ nd, c.nodes[m.origin]? = some nd
  bc : ∀ nd ∈ c.nodes, nd.g.isSelective = false ∧ nd.cfg.enabled = true ∧ ∀ r ∈ nd.g.outbound, r.target = none
  acc : ∀ m ∈ c.issued, ∀ nd, c.nodes[m.origin]? = some nd → ∀ a ∈ nd.cfg.peers,
    m ∈ MCluster.deltasOf nd.g.outbound ∨ (∃ pk ∈ c.wire, pk.to = a ∧ m ∈ pk.msg.payload) ∨ (∃ l ∈ c.lost, l.1 = m)

theorem mem_set_cases {l : List MNode} {i : Nat} {x y : MNode} (h : y ∈ l.set i x) : y = x ∨ y ∈ l := by
  rcases List.mem_or_eq_of_mem_set h with h | h
  · exact Or.inr h
  · exact Or.inl h

/-- pushing broadcast messages: targets stay `none` -/
theorem push_targets (cap : Nat) (g : GState) (ms : List Routed) (h1 : ∀ r ∈ g.outbound, r.target = none)
    (h2 : ∀ r ∈ ms, r.target = none) : ∀ r ∈ (g.push cap ms).outbound, r.target = none := by
  intro r hr
  simp only [GState.push] at hr
  have := mem_enforceCap hr
  rcases List.mem_append.mp this with h | h
  · exact h1 r h
  · exact h2 r h

/-- after a push every delta of the old queue and of the pushed messages is kept or in the overflow -/
theorem push_split (cap : Nat) (g : GState) (ms : List Routed) (m : Msg)
    (h : m ∈ MCluster.deltasOf g.outbound ∨ m ∈ MCluster.deltasOf ms) :
    m ∈ MCluster.deltasOf (g.push cap ms).outbound ∨ m ∈ MCluster.deltasOf (overflow cap (g.outbound ++ ms)) := by
  have hm : m ∈ MCluster.deltasOf (g.outbound ++ ms) := by
    rw [deltasOf_append, List.mem_append]; exact h
  rcases mem_deltasOf_split cap _ m hm with h | h
  · exact Or.inr h
  · exact Or.inl h

theorem queueDeltas_split (cap : Nat) (g : GState) (order : List Nat) (ds : List Msg) (m : Msg)
    (h : m ∈ MCluster.deltasOf g.outbound) :
    m ∈ MCluster.deltasOf (g.queueDeltas cap order ds).outbound ∨
    m ∈ MCluster.deltasOf (overflow cap (g.outbound ++ g.routedFor order ds)) := by
  unfold GState.queueDeltas
  split
  · exact Or.inl h
  · exact push_split cap g _ m (Or.inl h)

theorem lost_of_overflow {c : List (Msg × Loss × Option Nat)} {q : List Routed} {m : Msg}
    (h : m ∈ MCluster.deltasOf q) :
    ∃ l ∈ c ++ (MCluster.deltasOf q).map (fun x => (x, Loss.outboundOverflow, (none : Option Nat))), l.1 = m :=
  ⟨(m, Loss.outboundOverflow, none), List.mem_append_right _ (List.mem_map.mpr ⟨m, h, rfl⟩), rfl⟩

theorem acc_step (cp : Caps) (c : MCluster) (ha : Acc c) (e : MEv) (hne : isSetRouter e = false) :
    Acc (c.step cp e) := by
  cases e with
  | setRouter i r => simp [isSetRouter] at hne
  | loc i op order =>
    cases hn : c.nodes[i]? with
    | none => simp only [MCluster.step, hn]; exact ha
    | some nd =>
      have hbc := ha.bc nd (List.mem_of_getElem? hn)
      have hilt : i < c.nodes.length := (List.getElem?_eq_some_iff.mp hn).1
      cases hd : (Shard.step nd.ps.sh op.toOp).2 with
      | none =>
        have hlo : nd.ps.localOp cp.pending i op = ({ nd.ps with sh := (Shard.step nd.ps.sh op.toOp).1 }, none) := by
          simp only [PShard.localOp, hd]
        simp only [MCluster.step, hn, hlo]
        refine ⟨?_, ?_, ?_⟩
        · intro m hm
          obtain ⟨nd', h'⟩ := ha.org m hm
          by_cases ho : m.origin = i
          · exact ⟨_, by rw [ho]; exact List.getElem?_set_self hilt⟩
          · exact ⟨nd', by rw [List.getElem?_set_ne (Ne.symm ho)]; exact h'⟩
        · intro x hx
          rcases mem_set_cases hx with hx | hx
          · subst hx; exact hbc
          · exact ha.bc x hx
        · intro m hm nd' hnd' a hpa
          by_cases ho : m.origin = i
          · rw [ho, List.getElem?_set_self hilt] at hnd'
            cases hnd'
            exact ha.acc m hm nd (ho ▸ hn) a hpa
          · rw [List.getElem?_set_ne (Ne.symm ho)] at hnd'
            exact ha.acc m hm nd' hnd' a hpa
      | some d =>
        have hlo : nd.ps.localOp cp.pending i op =
            ({ sh := (Shard.step nd.ps.sh op.toOp).1,
               pending := enforceCap cp.pending (nd.ps.pending ++ [⟨i, op.key, d⟩]) }, some d) := by
          simp only [PShard.localOp, hd]
        simp only [MCluster.step, hn, hlo, hbc.2.1, if_true]
        have hq : nd.g.queueDeltas cp.outbound order [⟨i, op.key, d⟩] =
            nd.g.push cp.outbound (nd.g.routedFor order [⟨i, op.key, d⟩]) := by
          simp [GState.queueDeltas]
        rw [hq]
        have hrt := routedFor_targets nd.g order [⟨i, op.key, d⟩] hbc.1
        have hnew : (⟨i, op.key, d⟩ : Msg) ∈ MCluster.deltasOf (nd.g.routedFor order [⟨i, op.key, d⟩]) := by
          rw [routedFor_broadcast nd.g order _ hbc.1]
          simp [MCluster.deltasOf, GMsg.payload, GMsg.intoDeltas]
        refine ⟨?_, ?_, ?_⟩
        · intro m hm
          rcases List.mem_append.mp hm with hm | hm
          · obtain ⟨nd', h'⟩ := ha.org m hm
            by_cases ho : m.origin = i
            · exact ⟨_, by rw [ho]; exact List.getElem?_set_self hilt⟩
            · exact ⟨nd', by rw [List.getElem?_set_ne (Ne.symm ho)]; exact h'⟩
          · simp only [List.mem_singleton] at hm
            subst hm
            exact ⟨_, List.getElem?_set_self hilt⟩
        · intro x hx
          rcases mem_set_cases hx with hx | hx
          · subst hx
            refine ⟨?_, hbc.2.1, push_targets _ _ _ hbc.2.2 hrt⟩
            simpa [GState.push, GState.isSelective] using hbc.1
          · exact ha.bc x hx
        · intro m hm nd' hnd' a hpa
          by_cases ho : m.origin = i
          · rw [ho, List.getElem?_set_self hilt] at hnd'
            cases hnd'
            -- m was queued before, is the new delta, or was already elsewhere
            have hcase : m ∈ MCluster.deltasOf nd.g.outbound ∨ m ∈ MCluster.deltasOf (nd.g.routedFor order [⟨i, op.key, d⟩]) ∨
                (∃ pk ∈ c.wire, pk.to = a ∧ m ∈ pk.msg.payload) ∨ (∃ l ∈ c.lost, l.1 = m) := by
              rcases List.mem_append.mp hm with hm | hm
              · rcases ha.acc m hm nd (ho ▸ hn) a hpa with h | h | h
                · exact Or.inl h
                · exact Or.inr (Or.inr (Or.inl h))
                · exact Or.inr (Or.inr (Or.inr h))
              · simp only [List.mem_singleton] at hm
                subst hm; exact Or.inr (Or.inl hnew)
            rcases hcase with h | h | h | ⟨l, hl, hlm⟩
            · rcases push_split cp.outbound nd.g _ m (Or.inl h) with h | h
              · exact Or.inl h
              · refine Or.inr (Or.inr ?_)
                obtain ⟨l, hl, hlm⟩ := lost_of_overflow (c := c.lost ++ _) h
                exact ⟨l, hl, hlm⟩
            · rcases push_split cp.outbound nd.g _ m (Or.inr h) with h | h
              · exact Or.inl h
              · refine Or.inr (Or.inr ?_)
                obtain ⟨l, hl, hlm⟩ := lost_of_overflow (c := c.lost ++ _) h
                exact ⟨l, hl, hlm⟩
            · exact Or.inr (Or.inl h)
            · exact Or.inr (Or.inr ⟨l, List.mem_append_left _ (List.mem_append_left _ hl), hlm⟩)
          · rw [List.getElem?_set_ne (Ne.symm ho)] at hnd'
            have hm' : m ∈ c.issued := by
              rcases List.mem_append.mp hm with hm | hm
              · exact hm
              · simp only [List.mem_singleton] at hm; subst hm; exact absurd rfl ho
            rcases ha.acc m hm' nd' hnd' a hpa with h | h | ⟨l, hl, hlm⟩
            · exact Or.inl h
            · exact Or.inr (Or.inl h)
            · exact Or.inr (Or.inr ⟨l, List.mem_append_left _ (List.mem_append_left _ hl), hlm⟩)
  | tick i order oks =>
    cases hn : c.nodes[i]? with
    | none => simp only [MCluster.step, hn]; exact ha
    | some nd =>
      have hbc := ha.bc nd (List.mem_of_getElem? hn)
      have hilt : i < c.nodes.length := (List.getElem?_eq_some_iff.mp hn).1
      simp only [MCluster.step, hn]
      -- the queue just before it is drained
      have hsel1 : nd.g.advanceEpoch.isSelective = false := by
        simpa [GState.advanceEpoch, GState.isSelective] using hbc.1
      have hq1t : ∀ r ∈ nd.g.advanceEpoch.outbound, r.target = none := by
        simpa [GState.advanceEpoch] using hbc.2.2
      have hqt : ∀ (ds : List Msg), ∀ r ∈ (nd.g.advanceEpoch.queueDeltas cp.outbound order ds).outbound, r.target = none := by
        intro ds
        unfold GState.queueDeltas
        split
        · exact hq1t
        · exact push_targets _ _ _ hq1t (routedFor_targets _ order ds hsel1)
      refine ⟨?_, ?_, ?_⟩
      · intro m hm
        obtain ⟨nd', h'⟩ := ha.org m hm
        by_cases ho : m.origin = i
        · exact ⟨_, by rw [ho]; exact List.getElem?_set_self hilt⟩
        · exact ⟨nd', by rw [List.getElem?_set_ne (Ne.symm ho)]; exact h'⟩
      · intro x hx
        rcases mem_set_cases hx with hx | hx
        · subst hx
          refine ⟨?_, hbc.2.1, ?_⟩
          · have : ((nd.g.advanceEpoch.queueDeltas cp.outbound order
                (if nd.cfg.collect then nd.ps.drain else (nd.ps, [])).2).drainOutbound.1).router = nd.g.router := by
              simp only [GState.drainOutbound, queueDeltas_router]; rfl
            rw [isSelective_of_router this]; exact hbc.1
          · intro r hr; simp [GState.drainOutbound] at hr
        · exact ha.bc x hx
      · intro m hm nd' hnd' a hpa
        by_cases ho : m.origin = i
        · rw [ho, List.getElem?_set_self hilt] at hnd'
          cases hnd'
          simp only at hpa
          rcases ha.acc m hm nd (ho ▸ hn) a hpa with h | ⟨pk, hpk, hto, hpay⟩ | ⟨l, hl, hlm⟩
          · -- queued: after queue_deltas it is kept or overflowed; what is kept is sent or send-failed
            have hq1 : m ∈ MCluster.deltasOf nd.g.advanceEpoch.outbound := by simpa [GState.advanceEpoch] using h
            have hkept := queueDeltas_split cp.outbound nd.g.advanceEpoch order
              (if nd.cfg.collect then nd.ps.drain else (nd.ps, [])).2 m hq1
            rcases hkept with hk | hk
            · -- find the routed message, use completeness of sendAll
              simp only [MCluster.deltasOf, List.mem_flatMap] at hk
              obtain ⟨r, hr, hmr⟩ := hk
              have hcomp := sendAll_broadcast_complete nd.cfg _ oks (hqt _) r
                (by simpa [GState.drainOutbound] using hr) a hpa
              rcases hcomp with hp | hl
              · exact Or.inr (Or.inl ⟨⟨a, r.msg⟩, List.mem_append_right _ (by simpa [GState.drainOutbound] using hp), rfl, hmr⟩)
              · refine Or.inr (Or.inr ⟨(m, Loss.sendFailed, some a), ?_, rfl⟩)
                exact List.mem_append_right _ (by simpa [GState.drainOutbound] using hl m hmr)
            · refine Or.inr (Or.inr ⟨(m, Loss.outboundOverflow, none), ?_, rfl⟩)
              exact List.mem_append_left _ (List.mem_append_right _ (List.mem_map.mpr ⟨m, hk, rfl⟩))
          · exact Or.inr (Or.inl ⟨pk, List.mem_append_left _ hpk, hto, hpay⟩)
          · exact Or.inr (Or.inr ⟨l, List.mem_append_left _ (List.mem_append_left _ hl), hlm⟩)
        · rw [List.getElem?_set_ne (Ne.symm ho)] at hnd'
          rcases ha.acc m hm nd' hnd' a hpa with h | ⟨pk, hpk, hto, hpay⟩ | ⟨l, hl, hlm⟩
          · exact Or.inl h
          · exact Or.inr (Or.inl ⟨pk, List.mem_append_left _ hpk, hto, hpay⟩)
          · exact Or.inr (Or.inr ⟨l, List.mem_append_left _ (List.mem_append_left _ hl), hlm⟩)
  | heartbeat i =>
    cases hn : c.nodes[i]? with
    | none => simp only [MCluster.step, hn]; exact ha
    | some nd =>
      have hbc := ha.bc nd (List.mem_of_getElem? hn)
      have hilt : i < c.nodes.length := (List.getElem?_eq_some_iff.mp hn).1
      simp only [MCluster.step, hn]
      refine ⟨?_, ?_, ?_⟩
      · intro m hm
        obtain ⟨nd', h'⟩ := ha.org m hm
        by_cases ho : m.origin = i
        · exact ⟨_, by rw [ho]; exact List.getElem?_set_self hilt⟩
        · exact ⟨nd', by rw [List.getElem?_set_ne (Ne.symm ho)]; exact h'⟩
      · intro x hx
        rcases mem_set_cases hx with hx | hx
        · subst hx
          refine ⟨?_, hbc.2.1, ?_⟩
          · simpa [GState.queueHeartbeat, GState.push, GState.isSelective] using hbc.1
          · exact push_targets _ _ _ hbc.2.2 (fun r hr => by simp only [List.mem_singleton] at hr; rw [hr])
        · exact ha.bc x hx
      · intro m hm nd' hnd' a hpa
        by_cases ho : m.origin = i
        · rw [ho, List.getElem?_set_self hilt] at hnd'
          cases hnd'
          rcases ha.acc m hm nd (ho ▸ hn) a hpa with h | h | ⟨l, hl, hlm⟩
          · rcases push_split cp.outbound nd.g [⟨none, .heartbeat nd.g.me nd.g.epoch⟩] m (Or.inl h) with h | h
            · exact Or.inl h
            · exact Or.inr (Or.inr ⟨(m, Loss.outboundOverflow, none),
                List.mem_append_right _ (List.mem_map.mpr ⟨m, h, rfl⟩), rfl⟩)
          · exact Or.inr (Or.inl h)
          · exact Or.inr (Or.inr ⟨l, List.mem_append_left _ hl, hlm⟩)
        · rw [List.getElem?_set_ne (Ne.symm ho)] at hnd'
          rcases ha.acc m hm nd' hnd' a hpa with h | h | ⟨l, hl, hlm⟩
          · exact Or.inl h
          · exact Or.inr (Or.inl h)
          · exact Or.inr (Or.inr ⟨l, List.mem_append_left _ hl, hlm⟩)
  | recv p tooLarge =>
    cases hw : c.wire[p]? with
    | none => simp only [MCluster.step, hw]; exact ha
    | some pk =>
      cases hn : c.nodes[pk.to]? with
      | none => simp only [MCluster.step, hw, hn]; exact ha
      | some nd =>
        simp only [MCluster.step, hw, hn]
        cases tooLarge with
        | true =>
          simp only [if_true]
          refine ⟨ha.org, ha.bc, ?_⟩
          intro m hm nd' hnd' a hpa
          rcases ha.acc m hm nd' hnd' a hpa with h | h | ⟨l, hl, hlm⟩
          · exact Or.inl h
          · exact Or.inr (Or.inl h)
          · exact Or.inr (Or.inr ⟨l, List.mem_append_left _ hl, hlm⟩)
        | false =>
          simp only [Bool.false_eq_true, if_false]
          have hlt : pk.to < c.nodes.length := (List.getElem?_eq_some_iff.mp hn).1
          refine ⟨?_, ?_, ?_⟩
          · intro m hm
            obtain ⟨nd', h'⟩ := ha.org m hm
            by_cases ho : m.origin = pk.to
            · exact ⟨_, by rw [ho]; exact List.getElem?_set_self hlt⟩
            · exact ⟨nd', by rw [List.getElem?_set_ne (Ne.symm ho)]; exact h'⟩
          · intro x hx
            rcases mem_set_cases hx with hx | hx
            · subst hx; exact ha.bc nd (List.mem_of_getElem? hn)
            · exact ha.bc x hx
          · intro m hm nd' hnd' a hpa
            by_cases ho : m.origin = pk.to
            · rw [ho, List.getElem?_set_self hlt] at hnd'
              cases hnd'
              exact ha.acc m hm nd (ho ▸ hn) a hpa
            · rw [List.getElem?_set_ne (Ne.symm ho)] at hnd'
              exact ha.acc m hm nd' hnd' a hpa

theorem acc_init (causal : Bool) (cfgs : List NodeCfg) (hb : ∀ cfg ∈ cfgs, BroadcastCfg cfg) :
    Acc (MCluster.init causal cfgs) := by
  refine ⟨?_, ?_, ?_⟩
  · intro m hm; simp [MCluster.init] at hm
  rotate_left
  · intro m hm; simp [MCluster.init] at hm
  intro nd hnd
  obtain ⟨i, hi⟩ := List.getElem?_of_mem hnd
  obtain ⟨cfg, hc, rfl⟩ := init_nodes_get causal cfgs i nd hi
  have := hb cfg (List.mem_of_getElem? hc)
  refine ⟨?_, this.1, fun r hr => by simp [MCluster.initNode, GState.init] at hr⟩
  simp only [MCluster.initNode, GState.isSelective, GState.init]
  cases hr : cfg.router with
  | none => rfl
  | some r => have := this.2; simp only [hr, Option.map_some, Option.getD_some] at this; exact this

theorem acc_run (cp : Caps) (evs : List MEv) : ∀ (c : MCluster), Acc c →
    (∀ e ∈ evs, isSetRouter e = false) → Acc (c.run cp evs) := by
  induction evs with
  | nil => intro c h _; exact h
  | cons e evs ih =>
    intro c h hne
    exact ih (c.step cp e) (acc_step cp c h e (hne e List.mem_cons_self))
      (fun e' he' => hne e' (List.mem_cons_of_mem _ he'))

/-- **every copy is accounted for** (broadcast gossip, any capacities, any send failures, any
    network behaviour): queued at the origin, on the wire to the peer, or in the ledger of losses -/
theorem copy_accounted (cp : Caps) (causal : Bool) (cfgs : List NodeCfg) (evs : List MEv)
    (hb : ∀ cfg ∈ cfgs, BroadcastCfg cfg) (hr : ∀ e ∈ evs, isSetRouter e = false) :
    Acc ((MCluster.init causal cfgs).run cp evs) :=
  acc_run cp evs _ (acc_init causal cfgs hb) hr

/-- the node configuration never changes -/
theorem cfg_step (cp : Caps) (c : MCluster) (e : MEv) (i : Nat) :
    ((c.step cp e).nodes[i]?).map (·.cfg) = (c.nodes[i]?).map (·.cfg) := by
  have hset : ∀ (j : Nat) (nd nd' : MNode), c.nodes[j]? = some nd → nd'.cfg = nd.cfg →
      ((c.nodes.set j nd')[i]?).map (·.cfg) = (c.nodes[i]?).map (·.cfg) := by
    intro j nd nd' hj hc
    by_cases hij : j = i
    · subst hij
      rw [List.getElem?_set_self (List.getElem?_eq_some_iff.mp hj).1, hj]; simp [hc]
    · rw [List.getElem?_set_ne hij]
  cases e with
  | loc j op order =>
    simp only [MCluster.step]
    cases hn : c.nodes[j]? with
    | none => rfl
    | some nd =>
      simp only
      split <;> exact hset j nd _ hn rfl
  | tick j order oks =>
    simp only [MCluster.step]
    cases hn : c.nodes[j]? with
    | none => rfl
    | some nd => exact hset j nd _ hn rfl
  | heartbeat j =>
    simp only [MCluster.step]
    cases hn : c.nodes[j]? with
    | none => rfl
    | some nd => exact hset j nd _ hn rfl
  | setRouter j r =>
    simp only [MCluster.step]
    cases hn : c.nodes[j]? with
    | none => rfl
    | some nd => exact hset j nd _ hn rfl
  | recv p tl =>
    cases hw : c.wire[p]? with
    | none => simp [MCluster.step, hw]
    | some pk =>
      cases hn : c.nodes[pk.to]? with
      | none => simp [MCluster.step, hw, hn]
      | some nd =>
        simp only [MCluster.step, hw, hn]
        split
        · rfl
        · exact hset pk.to nd _ hn rfl

theorem cfg_run (cp : Caps) (evs : List MEv) : ∀ (c : MCluster) (i : Nat),
    ((c.run cp evs).nodes[i]?).map (·.cfg) = (c.nodes[i]?).map (·.cfg) := by
  induction evs with
  | nil => intro c i; rfl
  | cons e evs ih =>
    intro c i
    simp only [MCluster.run, List.foldl_cons] at ih ⊢
    rw [ih (c.step cp e) i, cfg_step]

/-- **the delivery condition**: nothing of key `k` in the ledger of losses, no delta of `k` left in
    an outbound queue, every frame on the wire handed over ⇒ every delta of `k` has been applied
    at every peer its origin is configured with -/
theorem delivered_of_no_loss (cp : Caps) (causal : Bool) (cfgs : List NodeCfg) (evs : List MEv) (k : Nat)
    (hb : ∀ cfg ∈ cfgs, BroadcastCfg cfg) (hr : ∀ e ∈ evs, isSetRouter e = false)
    (hlost : ∀ l ∈ ((MCluster.init causal cfgs).run cp evs).lost, l.1.key ≠ k)
    (hq : ∀ nd ∈ ((MCluster.init causal cfgs).run cp evs).nodes, ∀ m ∈ MCluster.deltasOf nd.g.outbound, m.key ≠ k)
    (hw : ∀ pk ∈ ((MCluster.init causal cfgs).run cp evs).wire, ∀ m ∈ pk.msg.payload, m.key = k →
      (⟨pk.to, k, m.val⟩ : Absorbed) ∈ ((MCluster.init causal cfgs).run cp evs).log) :
    ∀ m ∈ ((MCluster.init causal cfgs).run cp evs).issued, m.key = k →
      ∀ cfg, cfgs[m.origin]? = some cfg → ∀ a ∈ cfg.peers,
        (⟨a, k, m.val⟩ : Absorbed) ∈ ((MCluster.init causal cfgs).run cp evs).log := by
  intro m hm hk cfg hcfg a hpa
  have hacc := copy_accounted cp causal cfgs evs hb hr
  obtain ⟨nd, hnd⟩ := hacc.org m hm
  -- the node's configuration is the initial one
  have hc : nd.cfg = cfg := by
    have h1 := cfg_run cp evs (MCluster.init causal cfgs) m.origin
    rw [hnd] at h1
    cases hi : (MCluster.init causal cfgs).nodes[m.origin]? with
    | none => rw [hi] at h1; simp at h1
    | some nd0 =>
      rw [hi] at h1
      obtain ⟨cfg0, hc0, rfl⟩ := init_nodes_get causal cfgs m.origin nd0 hi
      simp only [Option.map_some, Option.some.injEq, MCluster.initNode] at h1
      rw [hcfg] at hc0; cases hc0; exact h1
  rcases hacc.acc m hm nd hnd a (hc ▸ hpa) with h | ⟨pk, hpk, hto, hpay⟩ | ⟨l, hl, hlm⟩
  · exact absurd hk (hq nd (List.mem_of_getElem? hnd) m h)
  · have := hw pk hpk m hpay hk
    rw [hto] at this; exact this
  · exact absurd (hlm ▸ hk) (hlost l hl)

/-- complete peer lists: every node is configured with every other node -/
def FullMesh (cfgs : List NodeCfg) : Prop :=
  ∀ p ∈ (List.range cfgs.length).zip cfgs, ∀ j, j < cfgs.length → j ≠ p.1 → j ∈ p.2.peers

instance (cfgs : List NodeCfg) : Decidable (FullMesh cfgs) := by
  unfold FullMesh; infer_instance

/-- **convergence from "no loss"**: broadcast gossip over a full mesh, one CRDT kind for the key,
    nothing of the key lost, queues empty, the network delivered what it was given ⇒ all nodes
    hold the same content and stamp for the key -/
theorem converges_of_no_loss (cp : Caps) (causal : Bool) (cfgs : List NodeCfg) (evs : List MEv) (k K : Nat)
    (hb : ∀ cfg ∈ cfgs, BroadcastCfg cfg) (hmesh : FullMesh cfgs) (hr : ∀ e ∈ evs, isSetRouter e = false)
    (hk : KindStable ((MCluster.init causal cfgs).run cp evs).abs k K)
    (hlost : ∀ l ∈ ((MCluster.init causal cfgs).run cp evs).lost, l.1.key ≠ k)
    (hq : ∀ nd ∈ ((MCluster.init causal cfgs).run cp evs).nodes, ∀ m ∈ MCluster.deltasOf nd.g.outbound, m.key ≠ k)
    (hw : ∀ pk ∈ ((MCluster.init causal cfgs).run cp evs).wire, ∀ m ∈ pk.msg.payload, m.key = k →
      (⟨pk.to, k, m.val⟩ : Absorbed) ∈ ((MCluster.init causal cfgs).run cp evs).log) :
    AgreeAmong ((MCluster.init causal cfgs).run cp evs).abs (List.range cfgs.length) k := by
  apply msg_level_converges_among cp causal cfgs evs k K _ hk
  intro m hm hmk j hj ho
  have hjlt : j < cfgs.length := List.mem_range.mp hj
  have hacc := copy_accounted cp causal cfgs evs hb hr
  obtain ⟨nd, hnd⟩ := hacc.org m hm
  -- the origin's configuration
  have h1 := cfg_run cp evs (MCluster.init causal cfgs) m.origin
  rw [hnd] at h1
  cases hi : (MCluster.init causal cfgs).nodes[m.origin]? with
  | none => rw [hi] at h1; simp at h1
  | some nd0 =>
    obtain ⟨cfg0, hc0, rfl⟩ := init_nodes_get causal cfgs m.origin nd0 hi
    have holt : m.origin < cfgs.length := (List.getElem?_eq_some_iff.mp hc0).1
    have hin : (m.origin, cfg0) ∈ (List.range cfgs.length).zip cfgs := by
      apply List.mem_of_getElem? (i := m.origin)
      rw [List.getElem?_zip_eq_some]
      exact ⟨List.getElem?_range holt, hc0⟩
    exact delivered_of_no_loss cp causal cfgs evs k hb hr hlost hq hw m hm hmk cfg0 hc0 j
      (hmesh _ hin j hjlt ho)

/-- non-vacuity: three nodes, full mesh, concurrent writers, everything ticked and handed over -/
def noLossRun : List MEv :=
  [ .loc 0 (.write kX [1] none) [], .loc 1 (.write kX [2] none) [], .loc 2 (.write kX [3] none) [],
    .tick 0 [] [], .tick 1 [] [], .tick 2 [] [], .heartbeat 1, .tick 1 [] [] ] ++ recvAll 8

example :
    let cfgs := [bcast 3 1 false, bcast 3 2 false, bcast 3 3 false]
    let c := (MCluster.init false cfgs).run caps noLossRun
    (∀ cfg ∈ cfgs, BroadcastCfg cfg) ∧ FullMesh cfgs ∧ c.lost = [] ∧ c.wire.length = 8 ∧
    KindStable c.abs kX 0 ∧ (c.nodes.all (fun nd => nd.g.outbound.isEmpty)) ∧
    valueAt c 0 kX = some (some [3]) ∧ valueAt c 1 kX = some (some [3]) ∧ valueAt c 2 kX = some (some [3]) := by
  decide

end C06
end RedisVerif
