import RedisVerif.Model.Adaptive
import RedisVerif.Props.C19

/-!
# C19 — adaptive replication (`AdaptiveReplicationManager` + `HotKeyDetector`), session 4

Model: `RedisVerif.Adaptive` (`Model/Adaptive.lean`): the access table with its capacity
(`max_tracked_keys`), the sliding-window clean-up, the hot test (the one float comparison, in
exact integer arithmetic on the domain stated there), promotion / demotion, `clear`.  Theorems
quantify over every state reachable from `new` by ANY sequence of `observe` / `force_recalculate`
/ `clear` (`Mgr.run`), any configuration, any clock values (also going backwards).

* `adaptive_rf_is_base_or_hot` — `get_rf_for_key` answers `hot_key_rf` for a key with an override
  and `base_rf` otherwise; every override equals `hot_key_rf` (the code's debug invariant 2).
* `recalculate_overrides_exactly_hot` — after a recalculation the overridden keys are EXACTLY the
  keys the detector reports hot at that instant.
* `tracked_within_capacity`, `untracked_key_stays_at_base` — the access table never exceeds
  `max_tracked_keys`; a key that is not in the table is never hot, so a key crowded out by the
  capacity limit keeps `base_rf` (it loses the promotion, never an owner).
* `adaptive_rf_ge_base_partial` / `adaptive_keeps_base_owners_partial` — for `base_rf ≤ hot_key_rf`:
  a key's replication factor never drops below `base_rf`, and every node that owns the key under
  `base_rf` still owns it under the adaptive factor (with `replicas_rf_prefix`: in the same
  order) — an adaptive change never starves an owner.  The hypothesis is NOT established by the
  code (`AdaptiveConfig` has public fields and `new` checks nothing; the debug invariant 3 says
  what is meant): `adaptive_hot_below_base_counterexample` — with `base_rf 3, hot_key_rf 1` a key
  that becomes hot LOSES two of its three owners (known finding
  `C19:adaptive:config:hot_key_rf<base_rf:hot-key-loses-owners`).
-/
namespace RedisVerif
namespace C19

open Adaptive

/-! ## association-list facts -/

theorem get_filter_key {ν : Type} (q : Nat → Bool) (m : NMap ν) (k : Nat) :
    NMap.get (m.filter fun p => q p.1) k = if q k then NMap.get m k else none := by
  induction m with
  | nil => simp [NMap.get]
  | cons p ps ih =>
    obtain ⟨k', v⟩ := p
    by_cases hq : q k' = true
    · simp only [List.filter_cons, hq, if_true, NMap.get]
      by_cases hk : k = k'
      · subst hk; simp [hq]
      · simp only [hk, if_false]; exact ih
    · have hq' : q k' = false := by simpa using hq
      simp only [List.filter_cons, hq', Bool.false_eq_true, if_false, NMap.get]
      rw [ih]
      by_cases hk : k = k'
      · subst hk; simp [hq']
      · simp [hk]

theorem get_foldl_insert {ν : Type} (v : ν) (ks : List Nat) (m : NMap ν) (k : Nat) :
    NMap.get (ks.foldl (fun o x => NMap.insert x v o) m) k = if k ∈ ks then some v else NMap.get m k := by
  induction ks generalizing m with
  | nil => simp
  | cons x xs ih =>
    simp only [List.foldl_cons]
    rw [ih, NMap.get_insert]
    by_cases h1 : k ∈ xs
    · simp [h1]
    · by_cases h2 : k = x
      · simp [h2]
      · simp [h1, h2]

theorem wf_foldl_insert {ν : Type} (v : ν) (ks : List Nat) (m : NMap ν) (h : NMap.WF m) :
    NMap.WF (ks.foldl (fun o x => NMap.insert x v o) m) := by
  induction ks generalizing m with
  | nil => exact h
  | cons x xs ih => exact ih _ (NMap.wf_insert h)

theorem mem_hotKeys {d : Detector} {now k : Nat} :
    k ∈ d.hotKeys now ↔ ∃ m, (k, m) ∈ d.counts ∧ m.isHot d.cfg.threshold now = true := by
  unfold Detector.hotKeys
  simp only [List.mem_map, List.mem_filter]
  constructor
  · rintro ⟨p, ⟨hp, hh⟩, rfl⟩; exact ⟨p.2, hp, hh⟩
  · rintro ⟨m, hm, hh⟩; exact ⟨(k, m), ⟨hm, hh⟩, rfl⟩

/-! ## the invariants -/

/-- what every reachable manager satisfies -/
structure Inv (m : Mgr) : Prop where
  ovWF : NMap.WF m.overrides
  ovHot : ∀ k v, NMap.get m.overrides k = some v → v = m.hotRf
  cntWF : NMap.WF m.det.counts
  cap : m.det.counts.length ≤ m.det.cfg.maxTracked

theorem inv_new (c : Bool) (b h r : Nat) (cfg : HotCfg) : Inv (Mgr.newWith c b h r cfg) :=
  ⟨NMap.wf_nil, by intro k v hv; simp [Mgr.newWith, NMap.get] at hv, NMap.wf_nil, by simp [Mgr.newWith, Detector.new]⟩

/-- the configuration never changes -/
def SameCfg (m m' : Mgr) : Prop :=
  m'.baseRf = m.baseRf ∧ m'.hotRf = m.hotRf ∧ m'.recalcInterval = m.recalcInterval ∧ m'.det.cfg = m.det.cfg

theorem length_insert_le {ν : Type} (k : Nat) (v : ν) (m : NMap ν) :
    (NMap.insert k v m).length ≤ m.length + 1 := by
  induction m with
  | nil => simp [NMap.insert]
  | cons p ps ih =>
    obtain ⟨k', v'⟩ := p
    simp only [NMap.insert]
    split
    · simp
    · split
      · simp
      · simp only [List.length_cons]; omega

theorem length_insert_of_get {ν : Type} {k : Nat} {v w : ν} {m : NMap ν} (hw : NMap.WF m)
    (h : NMap.get m k = some w) : (NMap.insert k v m).length = m.length := by
  induction m with
  | nil => simp [NMap.get] at h
  | cons p ps ih =>
    obtain ⟨k', v'⟩ := p
    have ⟨hlb, hw'⟩ := NMap.wf_cons.mp hw
    simp only [NMap.insert]
    simp only [NMap.get] at h
    split
    · rename_i hlt
      have hk : k ≠ k' := by omega
      simp only [hk, if_false] at h
      have := NMap.get_eq_none_of_LB (k := k') (k' := k) hlb (by omega)
      rw [this] at h; cases h
    · split
      · simp
      · rename_i hne
        simp only [hne, if_false] at h
        simp only [List.length_cons, ih hw' h]

theorem recordAccess_inv {d : Detector} (hw : NMap.WF d.counts) (hc : d.counts.length ≤ d.cfg.maxTracked)
    (key : Nat) (w : Bool) (now : Nat) :
    NMap.WF (d.recordAccess key w now).counts
    ∧ (d.recordAccess key w now).counts.length ≤ (d.recordAccess key w now).cfg.maxTracked
    ∧ (d.recordAccess key w now).cfg = d.cfg := by
  -- the optional clean-up keeps both facts
  have hclean : ∀ d' : Detector, d' = (if d.cfg.cleanupInterval ≤ now - d.lastCleanup then { d.cleanupStale now with lastCleanup := now } else d) →
      NMap.WF d'.counts ∧ d'.counts.length ≤ d'.cfg.maxTracked ∧ d'.cfg = d.cfg := by
    intro d' hd'
    subst hd'
    split
    · refine ⟨List.Pairwise.filter _ hw, ?_, rfl⟩
      exact Nat.le_trans (List.length_filter_le _ _) hc
    · exact ⟨hw, hc, rfl⟩
  obtain ⟨h1, h2, h3⟩ := hclean _ rfl
  unfold Detector.recordAccess
  simp only []
  generalize (if d.cfg.cleanupInterval ≤ now - d.lastCleanup then { d.cleanupStale now with lastCleanup := now } else d) = d' at h1 h2 h3
  cases hg : NMap.get d'.counts key with
  | some m =>
    simp only []
    exact ⟨NMap.wf_insert h1, by rw [length_insert_of_get h1 hg]; exact h2, h3⟩
  | none =>
    simp only []
    split
    · rename_i hlt
      exact ⟨NMap.wf_insert h1, Nat.le_trans (length_insert_le _ _ _) hlt, h3⟩
    · exact ⟨h1, h2, h3⟩

theorem recalculate_inv {m : Mgr} (hi : Inv m) (now : Nat) : Inv (m.recalculate now) ∧ SameCfg m (m.recalculate now) := by
  refine ⟨⟨?_, ?_, hi.cntWF, hi.cap⟩, rfl, rfl, rfl, rfl⟩
  · exact List.Pairwise.filter _ (wf_foldl_insert _ _ _ hi.ovWF)
  · intro k v hv
    simp only [Mgr.recalculate] at hv
    rw [get_filter_key (fun k => (m.det.hotKeys now).contains k)] at hv
    split at hv
    · rw [get_foldl_insert] at hv
      split at hv
      · injection hv with hv; exact hv.symm
      · exact hi.ovHot k v hv
    · cases hv

theorem observe_inv {m : Mgr} (hi : Inv m) (key : Nat) (w : Bool) (now : Nat) :
    Inv (m.observe key w now) ∧ SameCfg m (m.observe key w now) := by
  have hr := recordAccess_inv hi.cntWF hi.cap key w now
  have h1 : Inv { m with det := m.det.recordAccess key w now } := ⟨hi.ovWF, hi.ovHot, hr.1, hr.2.1⟩
  unfold Mgr.observe
  simp only []
  split
  · have h2 := recalculate_inv h1 now
    exact ⟨⟨h2.1.ovWF, h2.1.ovHot, h2.1.cntWF, h2.1.cap⟩, h2.2.1, h2.2.2.1, h2.2.2.2.1, h2.2.2.2.2.trans hr.2.2⟩
  · exact ⟨h1, rfl, rfl, rfl, hr.2.2⟩

theorem clear_inv {m : Mgr} (_hi : Inv m) : Inv m.clear ∧ SameCfg m m.clear :=
  ⟨⟨NMap.wf_nil, by intro k v hv; simp [Mgr.clear, NMap.get] at hv, NMap.wf_nil, by simp [Mgr.clear]⟩, rfl, rfl, rfl, rfl⟩

theorem step_inv {m : Mgr} (hi : Inv m) (op : Op) : Inv (m.step op) ∧ SameCfg m (m.step op) := by
  cases op with
  | observe k w now => exact observe_inv hi k w now
  | recalc now => exact recalculate_inv hi now
  | clear => exact clear_inv hi

theorem run_inv {m : Mgr} (hi : Inv m) (ops : List Op) : Inv (m.run ops) ∧ SameCfg m (m.run ops) := by
  induction ops generalizing m with
  | nil => exact ⟨hi, rfl, rfl, rfl, rfl⟩
  | cons op ops ih =>
    have h1 := step_inv hi op
    have h2 := ih h1.1
    exact ⟨h2.1, h2.2.1.trans h1.2.1, h2.2.2.1.trans h1.2.2.1, h2.2.2.2.1.trans h1.2.2.2.1, h2.2.2.2.2.trans h1.2.2.2.2⟩

/-! ## the theorems -/

/-- **C19 (adaptive RF is `base_rf` or `hot_key_rf`)**: in every state reachable from `new` by any
    sequence of `observe` / `force_recalculate` / `clear`, `get_rf_for_key` answers the hot-key
    factor in effect for a key with an override and `base_rf` for every other key — the configured
    values, whatever happened in between. -/
theorem adaptive_rf_is_base_or_hot (c : Bool) (b h r : Nat) (cfg : HotCfg) (ops : List Op) (key : Nat) :
    let m := (Mgr.newWith c b h r cfg).run ops
    m.rfForKey key = (if (NMap.get m.overrides key).isSome then effHot c b h else b) := by
  intro m
  have hr := run_inv (inv_new c b h r cfg) ops
  have hb : m.baseRf = b := hr.2.1
  have hh : m.hotRf = effHot c b h := hr.2.2.1
  unfold Mgr.rfForKey
  cases hg : NMap.get m.overrides key with
  | none => simp [hb]
  | some v =>
    have hv : v = m.hotRf := hr.1.ovHot key v hg
    simp [hv, hh]

/-- **C19 (the overrides are exactly the hot keys)**: right after a recalculation (forced, or the
    periodic one inside `observe`) a key has an override iff the detector reports it hot at that
    instant. -/
theorem recalculate_overrides_exactly_hot (m : Mgr) (now key : Nat) :
    (NMap.get (m.recalculate now).overrides key).isSome = true ↔ key ∈ m.det.hotKeys now := by
  simp only [Mgr.recalculate]
  rw [get_filter_key (fun k => (m.det.hotKeys now).contains k), get_foldl_insert]
  by_cases hk : key ∈ m.det.hotKeys now
  · have hc : (m.det.hotKeys now).contains key = true := List.contains_iff_mem.mpr hk
    simp only [hc, if_true, hk, iff_true]
    by_cases hp : (NMap.get m.overrides key).isNone = true
    · simp [List.mem_filter, hk, hp]
    · have : ¬ key ∈ List.filter (fun k => (NMap.get m.overrides k).isNone) (m.det.hotKeys now) := by
        simp [List.mem_filter, hp]
      simp only [this, if_false]
      cases hg : NMap.get m.overrides key with
      | none => simp [hg] at hp
      | some v => rfl
  · have hc : (m.det.hotKeys now).contains key = false := by
      cases h : (m.det.hotKeys now).contains key with
      | false => rfl
      | true => exact absurd (List.contains_iff_mem.mp h) hk
    simp [hc, hk]

/-- **C19 (capacity)**: the access table never holds more than `max_tracked_keys` entries -/
theorem tracked_within_capacity (c : Bool) (b h r : Nat) (cfg : HotCfg) (ops : List Op) :
    ((Mgr.newWith c b h r cfg).run ops).det.counts.length ≤ cfg.maxTracked := by
  have hr := run_inv (inv_new c b h r cfg) ops
  have := hr.1.cap
  rw [hr.2.2.2.2] at this
  exact this

/-- **C19 (a key outside the table keeps `base_rf`)**: a key that is not tracked — never accessed,
    cleaned up, or refused because the table was full — is not hot, and a recalculation leaves it at
    `base_rf`: the capacity limit can cost a key its promotion, never an owner. -/
theorem untracked_key_stays_at_base (m : Mgr) (now key : Nat) (hn : NMap.get m.det.counts key = none) :
    m.det.isHot key now = false ∧ (m.recalculate now).rfForKey key = m.baseRf := by
  have hnot : ¬ key ∈ m.det.hotKeys now := by
    intro hk
    obtain ⟨x, hx, _⟩ := mem_hotKeys.mp hk
    -- `(key, x) ∈ counts` but `get counts key = none`
    have : ∀ (l : NMap Metrics), (key, x) ∈ l → NMap.get l key ≠ none := by
      intro l
      induction l with
      | nil => intro h; cases h
      | cons p ps ih =>
        obtain ⟨k', v'⟩ := p
        intro hmem
        simp only [NMap.get]
        by_cases hkk : key = k'
        · simp [hkk]
        · simp only [hkk, if_false]
          rcases List.mem_cons.mp hmem with h | h
          · injection h with h1 _; exact absurd h1 hkk
          · exact ih h
    exact this _ hx hn
  refine ⟨by simp [Detector.isHot, hn], ?_⟩
  have h0 : ¬ (NMap.get (m.recalculate now).overrides key).isSome = true :=
    fun h => hnot ((recalculate_overrides_exactly_hot m now key).mp h)
  unfold Mgr.rfForKey
  cases hg : NMap.get (m.recalculate now).overrides key with
  | none => rfl
  | some v => rw [hg] at h0; simp at h0

/-- the full statement: the adaptive factor of a key is never below the configured base factor
    (`c` = whether `new` clamps `hot_key_rf`: `false` is the code as it is) -/
def C19_adaptive_rf_ge_base (c : Bool) : Prop :=
  ∀ (b h r : Nat) (cfg : HotCfg) (ops : List Op) (key : Nat), b ≤ ((Mgr.newWith c b h r cfg).run ops).rfForKey key

/-- **C19 (never below the configured RF), partial**: for `base_rf ≤ hot_key_rf`.  Missing for the
    full statement: configurations with `hot_key_rf < base_rf`, which `AdaptiveConfig` accepts —
    `adaptive_hot_below_base_counterexample`. -/
theorem adaptive_rf_ge_base_partial (c : Bool) (b h r : Nat) (cfg : HotCfg) (ops : List Op) (key : Nat) (hbh : b ≤ h) :
    b ≤ ((Mgr.newWith c b h r cfg).run ops).rfForKey key := by
  have := adaptive_rf_is_base_or_hot c b h r cfg ops key
  simp only [] at this
  rw [this]
  split
  · unfold effHot; split <;> omega
  · exact Nat.le_refl b

/-- **C19 (never below the configured RF), FULL statement, for the patched constructor** (`new`
    raises `hot_key_rf` to at least `base_rf`): every configuration, every history, every key -/
theorem adaptive_rf_ge_base_clamped : C19_adaptive_rf_ge_base true := by
  intro b h r cfg ops key
  have := adaptive_rf_is_base_or_hot true b h r cfg ops key
  simp only [] at this
  rw [this]
  split
  · unfold effHot; simp only [if_true]; omega
  · exact Nat.le_refl b

/-- **C19 (an adaptive change never starves an owner), partial** (`base_rf ≤ hot_key_rf`, or the
    patched constructor): on every reachable ring, every node that owns the key under `base_rf`
    owns it under the adaptive factor, in the same position of the list (the base list is a prefix). -/
theorem adaptive_keeps_base_owners_partial (hashV : Nat → Nat → Nat) (ring : Ring.HashRing) (hr : Ring.Reachable hashV ring)
    (c : Bool) (b h r : Nat) (cfg : HotCfg) (ops : List Op) (key keyPos : Nat) (hbh : c = true ∨ b ≤ h) :
    Ring.getReplicasWithRf ring keyPos b
      <+: Ring.getReplicasWithRf ring keyPos (((Mgr.newWith c b h r cfg).run ops).rfForKey key) := by
  apply replicas_rf_prefix hashV ring keyPos b _ hr
  rcases hbh with hc | hbh
  · subst hc; exact adaptive_rf_ge_base_clamped b h r cfg ops key
  · exact adaptive_rf_ge_base_partial c b h r cfg ops key hbh

/-- a three-node ring (one virtual node each, positions 10 / 20 / 30) -/
def adHash : Nat → Nat → Nat := fun n _ => n * 10

/-- 21 reads of key 7 within 100 ms, threshold 100 / s: hot -/
def exOps : List Op := (List.range 21).map (fun i => Op.observe 7 false (1000 + i * 5)) ++ [Op.recalc 1100]

set_option maxRecDepth 16000 in
/-- **the configuration `base_rf = 3, hot_key_rf = 1`** (accepted by `AdaptiveConfig`, checked only by
    a debug assertion): the key that becomes hot is left with ONE owner of its three — the adaptive
    change shrinks the replica set below the configured factor and two owners stop being
    responsible for the key. -/
theorem adaptive_hot_below_base_counterexample :
    let m := (Mgr.newWith false 3 1 1000000 ⟨10000, 100, 5000, 10000⟩).run exOps
    m.rfForKey 7 = 1 ∧ m.rfForKey 8 = 3
    ∧ Ring.getReplicasWithRf (Ring.newTB .joinOrder adHash [1, 2, 3] 1 3) 15 3 = [2, 3, 1]
    ∧ Ring.getReplicasWithRf (Ring.newTB .joinOrder adHash [1, 2, 3] 1 3) 15 (m.rfForKey 7) = [2] := by
  decide

theorem C19_adaptive_rf_ge_base_false : ¬ C19_adaptive_rf_ge_base false := by
  intro h
  have := h 3 1 1000000 ⟨10000, 100, 5000, 10000⟩ exOps 7
  rw [adaptive_hot_below_base_counterexample.1] at this
  omega

-- non-vacuity: `base_rf ≤ hot_key_rf` with a key that really is promoted, and one that is refused
-- by a full table
set_option maxRecDepth 16000 in
example :
    let m := (Mgr.newWith false 3 5 1000000 ⟨10000, 100, 5000, 1⟩).run (exOps ++ [Op.observe 8 true 1100, Op.recalc 1101])
    m.rfForKey 7 = 5 ∧ m.rfForKey 8 = 3 ∧ m.det.counts.length = 1 ∧ m.promotions = 1 := by
  decide

end C19
end RedisVerif
