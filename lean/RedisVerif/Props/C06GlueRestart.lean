import RedisVerif.Props.C06Glue
import RedisVerif.Props.C06Restart

/-!
# C06, layer 2 with crashes: a restarted actor serves what its replication state says, and
  replicas that got everything back answer reads alike

`GCluster.restart` (`Model/Glue.lean`): the actor of node `i` is spawned again — empty executor,
empty replication state, Lamport clock 0 — and is fed deltas again (its own among them).

* `served_equals_replicated_with_restarts` — the node invariant (`GInv`: every key's served value
  and TTL = `materialise` of the replication state) holds after every history of supported client
  commands, deliveries and restarts.
* `converged_reads_equal_with_restarts` — layer 1 with restarts
  (`rs_converges_with_restarts`) ∘ layer 2: compatible deltas, applied at every node since its
  last restart ⇒ every two nodes answer GET / HGETALL / EXISTS identically.
-/
namespace RedisVerif
namespace C06

open Glue Redis Cluster

/-- events of a glue-cluster execution with crashes -/
inductive GREv where
  | ev (e : GEv)
  | restart (i : Nat)
  deriving Repr

def gstepR (g : GCluster) : GREv → GCluster
  | .ev e => g.step e
  | .restart i => g.restart i

def grunR (g : GCluster) (evs : List GREv) : GCluster := evs.foldl gstepR g

/-- the supported fragment, step by step (a restart is always inside) -/
def GSupportedR (g : GCluster) : List GREv → Prop
  | [] => True
  | .ev e :: es => gunsupported g e = none ∧ GSupportedR (g.step e) es
  | .restart i :: es => GSupportedR (g.restart i) es

instance : (g : GCluster) → (evs : List GREv) → Decidable (GSupportedR g evs)
  | _, [] => isTrue trivial
  | g, .ev e :: es =>
    have : Decidable (GSupportedR (g.step e) es) := instDecidableGSupportedR (g.step e) es
    by unfold GSupportedR; infer_instance
  | g, .restart i :: es =>
    have : Decidable (GSupportedR (g.restart i) es) := instDecidableGSupportedR (g.restart i) es
    by unfold GSupportedR; infer_instance

theorem run_eq_runR (c : Cluster) (evs : List Ev) : c.run evs = c.runR (evs.map REv.ev) := by
  induction evs generalizing c with
  | nil => rfl
  | cons x xs ih =>
    simp only [Cluster.run, Cluster.runR, List.map_cons, List.foldl_cons, Cluster.stepR] at ih ⊢
    exact ih (c.step x)

theorem runR_append (c : Cluster) (a b : List REv) : c.runR (a ++ b) = (c.runR a).runR b := by
  simp [Cluster.runR, List.foldl_append]

theorem grunR_proj (hist : List GREv) : ∀ (g : GCluster), AllInv g → GSupportedR g hist →
    AllInv (grunR g hist) ∧ ∃ evs : List REv, (grunR g hist).proj = g.proj.runR evs := by
  induction hist with
  | nil => intro g h _; exact ⟨h, [], rfl⟩
  | cons e hist ih =>
    intro g h hs
    cases e with
    | ev e =>
      obtain ⟨h1, evs1, hp1⟩ := step_ok h e hs.1
      obtain ⟨hall, evs2, h2⟩ := ih (g.step e) h1 hs.2
      refine ⟨hall, evs1.map REv.ev ++ evs2, ?_⟩
      simp only [grunR, List.foldl_cons, gstepR] at h2 ⊢
      rw [h2, hp1, runR_append, run_eq_runR]
    | restart i =>
      obtain ⟨h1, hp1⟩ := restart_ok h i
      obtain ⟨hall, evs2, h2⟩ := ih (g.restart i) h1 hs
      refine ⟨hall, REv.restart i :: evs2, ?_⟩
      simp only [grunR, List.foldl_cons, gstepR] at h2 ⊢
      rw [h2, hp1]
      rfl

/-- **served = replicated, with restarts** -/
theorem served_equals_replicated_with_restarts (n : Nat) (causal : Bool) (hist : List GREv)
    (hs : GSupportedR (GCluster.init n causal) hist) :
    ∀ nd ∈ (grunR (GCluster.init n causal) hist).nodes, ∀ k, served nd k = materialise (NMap.get nd.rs.keys k) := by
  obtain ⟨hall, _⟩ := grunR_proj hist _ (allinv_init n causal) hs
  intro nd hnd k
  exact (hall nd hnd).srv k

/-- **all replicas answer reads alike, with restarts** -/
theorem converged_reads_equal_with_restarts (n : Nat) (causal : Bool) (hist : List GREv) (k K : Nat)
    (hs : GSupportedR (GCluster.init n causal) hist)
    (hc : Compat (grunR (GCluster.init n causal) hist).proj.sent k K)
    (hd : DeliveredAll (grunR (GCluster.init n causal) hist).proj k)
    (i j : Nat) (ni nj : Node)
    (hi : (grunR (GCluster.init n causal) hist).nodes[i]? = some ni)
    (hj : (grunR (GCluster.init n causal) hist).nodes[j]? = some nj) : ReadsEqual ni nj k := by
  obtain ⟨hall, evs, hproj⟩ := grunR_proj hist _ (allinv_init n causal) hs
  rw [proj_init] at hproj
  have hagree : Agree (grunR (GCluster.init n causal) hist).proj k := by
    rw [hproj] at hc hd ⊢
    exact (rs_converges_with_restarts n causal evs k K hc hd).1
  have hpi : (grunR (GCluster.init n causal) hist).proj.nodes[i]? = some ni.rs := by
    rw [proj_nodes_get, hi]; rfl
  have hpj : (grunR (GCluster.init n causal) hist).proj.nodes[j]? = some nj.rs := by
    rw [proj_nodes_get, hj]; rfl
  have hstrip := hagree i j ni.rs nj.rs hpi hpj
  apply reads_of_servedVal
  simp only [servedVal]
  rw [(hall ni (List.mem_of_getElem? hi)).srv k, (hall nj (List.mem_of_getElem? hj)).srv k]
  exact materialise_val_of_strip hstrip

/-- non-vacuity: node 0 SETs twice, restarts, gets both deltas back, SETs again; all delivered -/
def glueRestartRun : List GREv :=
  [ .ev (.client 0 (.set kA [49] .always .none false)), .ev (.client 0 (.set kA [50] .always .none false)),
    .ev (.deliver 1 0), .ev (.deliver 1 1), .restart 0, .ev (.deliver 0 1), .ev (.deliver 0 0),
    .ev (.client 0 (.get kA)), .ev (.client 0 (.set kA [51] .always .none false)), .ev (.deliver 1 2) ]

example :
    let g := grunR (GCluster.init 2 false) glueRestartRun
    GSupportedR (GCluster.init 2 false) glueRestartRun ∧ Compat g.proj.sent kA 0 ∧ DeliveredAll g.proj kA ∧
    g.sent.map (·.val.ts.time) = [1, 2, 5] ∧
    (∀ ni ∈ g.nodes, ∀ nj ∈ g.nodes, ReadsEqual ni nj kA) := by
  decide

end C06
end RedisVerif
