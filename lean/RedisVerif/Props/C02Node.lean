import RedisVerif.Model.Node7
import RedisVerif.Props.Server

/-!
# C02 over the composed node: every entry path, every command type, Lua scripts, time

`Props/C02M7.lean` (`linearizable_m7_single_store`) is about requests that take the GENERIC path.
The property says "whichever internal path (fast GET/SET path, batched path, generic path) carries
a command".  Here the path is part of the request (`ReqV.via cls now c`, `Model/Node7.lean`): the
message is built by the entry point the frame class selects (`Shards.dispatch`: `execute`,
`pooled_fast_get/set`, an item of `fast_batch_get/set_pipeline`, an EXEC replay), the shard adopts
the message's time and runs it (`Server.execVia`).

* `replay_sim_gen` / `linearizable_of_refinement`: the log-level simulation of `Props/C02M7.lean`,
  for ANY pair of step functions related by a timed refinement (`Rel a b t`, requests with a time).
* `reqV_refines`: one request of either kind, by whichever path (from `Server.execVia_refines` and
  `C02.script_refines`).
* `linearizable_node_entry_paths`: every execution of the actor system — every interleaving, any
  number of shards / clients / pooled slots, abandoned requests — whose requests are one-message
  commands of any M7 type BY ANY ENTRY PATH and scripts, and whose operations take effect at
  non-decreasing virtual times, is linearizable w.r.t. ONE M7 store on which every command and every
  whole script is one atomic step — the specification does not mention the path.
* `entry_path_reach`: non-vacuity (a pooled-fast SET, a batched GET item, a generic APPEND and a
  script on the same key, overlapping).
-/
namespace RedisVerif
namespace C02
open Actors Shards NMap Shards.M7 C03
open Redis (Entry cmdKeys Prog runProg ProgKeys)

section gen
variable {σA σB Req Resp : Type} [DecidableEq Resp]
  (stepA : σA → Req → σA × Resp) (stepB : σB → Req → σB × Resp) (time : Req → Nat)
  (Ok : Req → Prop) (Rel : σA → σB → Nat → Prop)

/-- the log-level simulation: if every OK request at a time `≥ t` is answered alike by `stepA` and
    `stepB` on `Rel`-related states and keeps them related, a log that replays on `stepA` replays on
    `stepB` -/
theorem replay_sim_gen
    (href : ∀ a b t req, Rel a b t → t ≤ time req → Ok req →
      (stepA a req).2 = (stepB b req).2 ∧ Rel (stepA a req).1 (stepB b req).1 (time req))
    (log : List (Ev Req Resp)) (t : Nat) (tm : NMap Nat)
    (rA rA' : RState σA Req Resp) (rB : RState σB Req Resp)
    (hrel : Rel rA.s rB.s t) (hp : rA.pend = rB.pend) (hd : rA.done = rB.done) (hn : rA.next = rB.next)
    (hwf : WF rA.pend)
    (hok : ∀ id req, get rA.pend id = some req → Ok req ∧ get tm id = some (time req))
    (hlog : ∀ id req, (.inv id req) ∈ log → Ok req)
    (hmono : LinMonoG time tm t log)
    (h : replay stepA rA log = some rA') :
    ∃ rB', replay stepB rB log = some rB' := by
  induction log generalizing rA rB t tm with
  | nil => exact ⟨rB, rfl⟩
  | cons e es ih =>
    simp only [replay] at h ⊢
    cases he : stepEv stepA rA e with
    | none => rw [he] at h; cases h
    | some rA1 =>
      rw [he] at h
      cases e with
      | inv id req =>
        simp only [stepEv] at he ⊢
        by_cases hle : rA.next ≤ id
        · rw [if_pos hle] at he
          rw [if_pos (by rw [← hn]; exact hle)]
          injection he with he
          subst he
          apply ih (t := t) (tm := NMap.insert id (time req) tm)
            (rA := { rA with pend := NMap.insert id req rA.pend, next := id + 1 })
            (rB := { rB with pend := NMap.insert id req rB.pend, next := id + 1 })
          · exact hrel
          · show NMap.insert id req rA.pend = NMap.insert id req rB.pend; rw [hp]
          · exact hd
          · rfl
          · exact wf_insert hwf
          · intro id' req' hg
            rw [get_insert] at hg ⊢
            by_cases e1 : id' = id
            · rw [if_pos e1] at hg ⊢
              injection hg with hg; rw [← hg]
              exact ⟨hlog id req (by simp), rfl⟩
            · rw [if_neg e1] at hg ⊢
              exact hok id' req' hg
          · intro id' req' hm; exact hlog id' req' (by simp [hm])
          · exact hmono
          · exact h
        · rw [if_neg hle] at he; cases he
      | lin id resp =>
        simp only [stepEv] at he ⊢
        rw [← hp]
        cases hg : get rA.pend id with
        | none => rw [hg] at he; cases he
        | some req =>
          rw [hg] at he
          simp only at he ⊢
          obtain ⟨hokr, htm⟩ := hok id req hg
          have hm2 : t ≤ time req ∧ LinMonoG time tm (time req) es := by
            have := hmono
            simp only [LinMonoG, htm] at this
            exact this
          obtain ⟨s2, s1⟩ := href _ _ _ req hrel hm2.1 hokr
          by_cases hr : (stepA rA.s req).2 = resp
          · rw [if_pos hr] at he
            rw [if_pos (by rw [← s2]; exact hr)]
            injection he with he
            subst he
            apply ih (t := time req) (tm := tm)
              (rA := { rA with s := (stepA rA.s req).1, pend := NMap.erase id rA.pend, done := NMap.insert id resp rA.done })
              (rB := { rB with s := (stepB rB.s req).1, pend := NMap.erase id rA.pend, done := NMap.insert id resp rB.done })
            · exact s1
            · rfl
            · show NMap.insert id resp rA.done = NMap.insert id resp rB.done; rw [hd]
            · exact hn
            · exact wf_erase hwf
            · intro id' req' hg'
              rw [get_erase hwf] at hg'
              by_cases e1 : id' = id
              · rw [if_pos e1] at hg'; cases hg'
              · rw [if_neg e1] at hg'; exact hok id' req' hg'
            · intro id' req' hm; exact hlog id' req' (by simp [hm])
            · exact hm2.2
            · exact h
          · rw [if_neg hr] at he; cases he
      | res id resp =>
        simp only [stepEv] at he ⊢
        rw [← hd]
        by_cases hg : get rA.done id = some resp
        · rw [if_pos hg] at he
          rw [if_pos hg]
          injection he with he
          subst he
          exact ih (t := t) (tm := tm) { rA with done := NMap.erase id rA.done } { rB with done := NMap.erase id rA.done }
            hrel hp rfl hn hwf hok
            (fun id' req' hm => hlog id' req' (by simp [hm])) hmono h
        · rw [if_neg hg] at he; cases he

/-- actor-level linearizability w.r.t. `stepA` ∘ timed refinement of `stepA` by `stepB` =
    linearizability w.r.t. `stepB` -/
theorem linearizable_of_refinement (route : Req → Nat) (a0 : σA) (b0 : σB) (h0 : Rel a0 b0 0)
    (href : ∀ a b t req, Rel a b t → t ≤ time req → Ok req →
      (stepA a req).2 = (stepB b req).2 ∧ Rel (stepA a req).1 (stepB b req).1 (time req))
    {pool : Nat} {s : Sys σA Req Resp} (hr : Reach stepA route a0 pool s)
    (hok : ∀ id req, (.inv id req) ∈ s.log → Ok req)
    (hmono : LinMonoG time [] 0 s.log) :
    ValidLog stepB b0 s.log ∧ Linearizable stepB b0 (history s.log) := by
  obtain ⟨hvl, _⟩ := linearizable stepA route a0 hr
  have hv2 : ValidLog stepB b0 s.log := by
    unfold ValidLog at hvl ⊢
    cases hrep : replay stepA (initR a0) s.log with
    | none => rw [hrep] at hvl; cases hvl
    | some rA =>
      obtain ⟨rB, hb⟩ := replay_sim_gen stepA stepB time Ok Rel href s.log 0 [] (initR a0) rA (initR b0)
        h0 rfl rfl rfl wf_nil (by intro id req hg; cases hg) hok hmono hrep
      rw [hb]; rfl
  exact ⟨hv2, s.log, rfl, hv2⟩

end gen

/-- the requests the claim is about: commands that name their keys and travel as ONE message
    (`CmdOk`: single-key commands of every type, two-key commands / MSETNX with their keys on one shard,
    one-key MGET / MSET / DEL / EXISTS), by ANY entry path; scripts whose keys live on the shard of `KEYS[1]` -/
def ReqVOk (R : Routes) : ReqV → Prop
  | .via _ _ c => CmdOk R c = true
  | .script _ k p => ∃ K, k ∈ K ∧ ProgKeys K p ∧ ∀ x ∈ K, R.bytes x = R.bytes k

theorem cmdOk_not_keys {R : Routes} {c : Redis.Cmd} (h : CmdOk R c = true) : c ≠ .keys := by
  intro e; subst e; simp [CmdOk, cmdKeys] at h

/-- **one request, by whichever path**: the N-shard node answers like ONE store and stays
    indistinguishable from it -/
theorem reqV_refines {R : Routes} (hv : R.Valid) (hN : 0 < R.N) {st : Shards Entry} {s1 : Redis.State}
    {t : Nat} (h : Rel7 R st s1 t) (req : ReqV) (ht : t ≤ req.time) (hok : ReqVOk R req) :
    (stepV R st req).2 = (specV s1 req).2 ∧ Rel7 R (stepV R st req).1 (specV s1 req).1 req.time := by
  cases req with
  | via cls now c =>
    obtain ⟨hr, _⟩ := cmdOk_keys hok
    exact Server.execVia_refines hv hN h ht cls c hr (cmdOk_not_keys hok)
  | script now k p =>
    obtain ⟨K, _, hpk, hK⟩ := hok
    obtain ⟨e1, e2⟩ := script_refines hv h ht k p K hpk hK
    refine ⟨?_, e2⟩
    have e1' : (execScript7 R now st k p).2 = (spec7 s1 (.script now k p)).2 := e1
    show toM7 (execScript7 R now st k p).2 = some (runProg (Redis.purge s1 now) now p).2
    rw [e1']; rfl

/-- **C02 over the composed node — every entry path**: every execution of the actor system whose
    shard actors run the N-shard M7 node and whose requests reach it through ANY of the entry points
    the connection handler dispatches into (generic `execute`, pooled fast GET / SET, items of the
    batch pipelines, EXEC replay) or are Lua scripts — every interleaving, any number of shards,
    clients, pooled slots, abandoned requests — in which operations take effect at non-decreasing
    virtual times is linearizable w.r.t. ONE M7 store on which every command and every whole script
    is one atomic step.  The specification `specV` ignores the path. -/
theorem linearizable_node_entry_paths (R : Routes) (hv : R.Valid) (hN : 0 < R.N) {pool : Nat}
    {s : Sys (Shards Entry) ReqV (Option Redis.Reply)}
    (hr : Reach (stepV R) (routeV R) (Shards.init Entry R.N) pool s)
    (hok : ∀ id req, (.inv id req) ∈ s.log → ReqVOk R req)
    (hmono : LinMonoG ReqV.time [] 0 s.log) :
    ValidLog specV Redis.init s.log ∧ Linearizable specV Redis.init (history s.log) :=
  linearizable_of_refinement (stepV R) specV ReqV.time (ReqVOk R) (Rel7 R) (routeV R) _ _ (rel7_init R)
    (fun _ _ _ req hrel ht hokr => reqV_refines hv hN hrel req ht hokr) hr hok hmono

/-- the specification does not depend on the path: two requests that differ only in the entry path
    are the same operation of the one-store specification -/
theorem specV_path_irrelevant (s : Redis.State) (cls cls' : FrameClass) (now : Nat) (c : Redis.Cmd) :
    specV s (.via cls now c) = specV s (.via cls' now c) := rfl

/-! ### decidability, non-vacuity -/

def decLinMonoG {Req Resp : Type} (time : Req → Nat) :
    (pend : NMap Nat) → (t : Nat) → (l : List (Ev Req Resp)) → Decidable (LinMonoG time pend t l)
  | _, _, [] => isTrue trivial
  | pend, t, .inv id req :: es => decLinMonoG time (NMap.insert id (time req) pend) t es
  | pend, t, .lin id _ :: es =>
    match h : NMap.get pend id with
    | some tr =>
      match Nat.decLe t tr, decLinMonoG time pend tr es with
      | isTrue h1, isTrue h2 => isTrue (by simp only [LinMonoG, h]; exact ⟨h1, h2⟩)
      | isFalse h1, _ => isFalse (by simp only [LinMonoG, h]; exact fun x => h1 x.1)
      | _, isFalse h2 => isFalse (by simp only [LinMonoG, h]; exact fun x => h2 x.2)
    | none =>
      match decLinMonoG time pend t es with
      | isTrue h2 => isTrue (by simp only [LinMonoG, h]; exact h2)
      | isFalse h2 => isFalse (by simp only [LinMonoG, h]; exact h2)
  | pend, t, .res _ _ :: es => decLinMonoG time pend t es

instance {Req Resp : Type} (time : Req → Nat) (pend : NMap Nat) (t : Nat) (l : List (Ev Req Resp)) :
    Decidable (LinMonoG time pend t l) := decLinMonoG time pend t l

def rSetFast : ReqV := .via .setFast 5 (.set 1 [119] .always .none false)
def rAppend : ReqV := .via .generic 6 (.append 1 [120])
def rGetBatch : ReqV := .via .getBatch 7 (.get 1)
def rScript : ReqV := .script 8 1 (swapProg 1 [121])
def rGetFast : ReqV := .via .getFast 9 (.get 1)

/-- non-vacuity: a POOLED fast SET (the one pooled slot), a generic APPEND, an item of a BATCHED GET
    and a script on the same key are all in flight at the key's shard at once; the shard runs them in
    mailbox order; the pooled slot is released and reused by a pooled fast GET.  The hypotheses of
    `linearizable_node_entry_paths` hold. -/
theorem entry_path_reach : ∃ s, Reach (stepV routes7) (routeV routes7) (Shards.init Entry 2) 1 s ∧
    history s.log = [.inv 0 rSetFast, .inv 1 rAppend, .inv 2 rGetBatch, .inv 3 rScript,
      .res 0 (some .ok), .res 2 (some (.bulk [119, 120])), .res 1 (some (.int 2)), .res 3 (some (.bulk [119, 120])),
      .inv 4 rGetFast, .res 4 (some (.bulk [121]))] ∧
    (∀ id req, (.inv id req) ∈ s.log → ReqVOk routes7 req) ∧ LinMonoG ReqV.time [] 0 s.log := by
  have r0 : Reach (stepV routes7) (routeV routes7) (Shards.init Entry 2) 1 (Sys.init _ 1) := Reach.init
  have r1 := Reach.step r0 (Step.invokePooled _ 0 rSetFast 0 [] rfl rfl)
  have r2 := Reach.step r1 (Step.invokeFresh _ 1 rAppend rfl)
  have r3 := Reach.step r2 (Step.invokeBatch _ [(2, rGetBatch)] (by intro p hp; simp at hp; subst hp; rfl) (by simp))
  have r4 := Reach.step r3 (Step.invokeFresh _ 3 rScript rfl)
  have r5 := Reach.step r4 (Step.exec _ 0 ⟨0, 0, rSetFast⟩ [⟨1, 1, rAppend⟩, ⟨2, 2, rGetBatch⟩, ⟨3, 3, rScript⟩] rfl)
  have r6 := Reach.step r5 (Step.exec _ 0 ⟨1, 1, rAppend⟩ [⟨2, 2, rGetBatch⟩, ⟨3, 3, rScript⟩] rfl)
  have r7 := Reach.step r6 (Step.exec _ 0 ⟨2, 2, rGetBatch⟩ [⟨3, 3, rScript⟩] rfl)
  have r8 := Reach.step r7 (Step.exec _ 0 ⟨3, 3, rScript⟩ [] rfl)
  have r9 := Reach.step r8 (Step.retRelease _ 0 0 rSetFast 0 (some .ok) rfl rfl)
  have r10 := Reach.step r9 (Step.retDrop _ 2 2 rGetBatch 2 (some (.bulk [119, 120])) rfl rfl)
  have r11 := Reach.step r10 (Step.retDrop _ 1 1 rAppend 1 (some (.int 2)) rfl rfl)
  have r12 := Reach.step r11 (Step.retDrop _ 3 3 rScript 3 (some (.bulk [119, 120])) rfl rfl)
  have r13 := Reach.step r12 (Step.invokePooled _ 0 rGetFast 0 [] rfl rfl)
  have r14 := Reach.step r13 (Step.exec _ 0 ⟨4, 0, rGetFast⟩ [] rfl)
  have r15 := Reach.step r14 (Step.retRelease _ 0 4 rGetFast 0 (some (.bulk [121])) rfl rfl)
  refine ⟨_, r15, rfl, ?_, by decide⟩
  intro id req hm
  simp only [List.mem_append, List.mem_cons, List.not_mem_nil, or_false, reduceCtorEq,
    Ev.inv.injEq, List.foldl_cons, List.foldl_nil, postFresh] at hm
  rcases hm with ((((hm | ⟨_, rfl⟩) | ⟨_, rfl⟩) | ⟨_, rfl⟩) | ⟨_, rfl⟩) | ⟨_, rfl⟩
  · cases hm
  · show CmdOk routes7 _ = true; decide
  · show CmdOk routes7 _ = true; decide
  · show CmdOk routes7 _ = true; decide
  · exact ⟨[1], by simp, swapProg_keys 1 [121], by simp⟩
  · show CmdOk routes7 _ = true; decide

/-- … and its conclusion follows: the history of the four overlapping operations by four different
    paths, then the pooled read, is linearizable w.r.t. ONE store -/
example : Linearizable specV Redis.init
    ([.inv 0 rSetFast, .inv 1 rAppend, .inv 2 rGetBatch, .inv 3 rScript,
      .res 0 (some .ok), .res 2 (some (.bulk [119, 120])), .res 1 (some (.int 2)), .res 3 (some (.bulk [119, 120])),
      .inv 4 rGetFast, .res 4 (some (.bulk [121]))] : List (Ev ReqV (Option Redis.Reply))) := by
  obtain ⟨s, hr, hh, hok, hm⟩ := entry_path_reach
  rw [← hh]
  exact (linearizable_node_entry_paths routes7 routes7_valid (by decide) hr hok hm).2

end C02
end RedisVerif
