import RedisVerif.Props.C13
import RedisVerif.Props.C13Hist

/-!
# C13 — tombstone GC where the code DOES establish `GcSafe`: the full pass

`tombstone_gc_safe_partial` (Props/C13.lean) needs the hypothesis `GcSafe`: every tombstone the
pass drops belongs to a key that occurs in no listed segment outside the pass.  The code does not
establish it in general (known findings C13:tombstone-gc:*).  It does establish it when its own
selection rule takes EVERY listed segment — every segment is a candidate (`size <
target_segment_size`) and the pass is not cut by `max_segments_per_compaction` — and the manifest
holds no checkpoint (the stores of the workloads never do: `StoreInv`): then nothing is outside
the pass.  `FullPass` is that condition, a decidable predicate on the manifest and the
configuration alone (no look into the segments).

* `gcSafe_of_fullPass` — `FullPass → GcSafe`.
* `tombstone_gc_safe_full_pass` — `tombstone_gc_safe_partial` without the `GcSafe` hypothesis.
* `compaction_preserves_visible_full_pass` — the FULL first sentence of C13 for such passes, at
  EVERY cutoff (tombstone GC included, the production clock's "every tombstone is expired"
  included), every fault oracle without read corruption: what a reader sees after recovery
  (tombstones read as absent) is unchanged by the compaction.
* `full_pass_needed_counterexample` — dropping either conjunct of `FullPass` loses it (the known
  findings, restated against this hypothesis).
-/
namespace RedisVerif
namespace C13

open _root_.RedisVerif.Stream FoldACI

/-- the pass takes every listed segment: all are candidates, and there are no more than
    `max_segments_per_compaction` of them -/
def FullPass (st : Store) (cfg : CompactCfg) : Prop :=
  (∀ s ∈ (manifestOf st 0).segments, s.size < cfg.target) ∧ (manifestOf st 0).segments.length ≤ cfg.maxPer

instance (st : Store) (cfg : CompactCfg) : Decidable (FullPass st cfg) := by
  unfold FullPass; infer_instance

theorem selectSegments_full {cfg : CompactCfg} {m : Manifest}
    (h1 : ∀ s ∈ m.segments, s.size < cfg.target) (h2 : m.segments.length ≤ cfg.maxPer) (s : SegInfo) :
    s ∈ selectSegments cfg m ↔ s ∈ m.segments := by
  unfold selectSegments
  have hf : m.segments.filter (fun s => decide (s.size < cfg.target)) = m.segments :=
    List.filter_eq_self.mpr (fun a ha => by simpa using h1 a ha)
  rw [hf, List.take_of_length_le (by rw [length_sortBy]; exact h2), mem_sortBy]

theorem removeIds_full {cfg : CompactCfg} {m : Manifest}
    (h1 : ∀ s ∈ m.segments, s.size < cfg.target) (h2 : m.segments.length ≤ cfg.maxPer) :
    removeIds m ((selectSegments cfg m).map (·.id)) = [] := by
  unfold removeIds
  apply List.filter_eq_nil_iff.mpr
  intro s hs
  have : s.id ∈ (selectSegments cfg m).map (·.id) :=
    List.mem_map.mpr ⟨s, (selectSegments_full h1 h2 s).mpr hs, rfl⟩
  simpa using this

/-- **the code's selection rule establishes `GcSafe` for a full pass** -/
theorem gcSafe_of_fullPass {st : Store} {cfg : CompactCfg} (h : FullPass st cfg) : GcSafe st cfg := by
  unfold GcSafe
  intro p _ _ q hq
  rw [removeIds_full h.1 h.2] at hq
  simp [segDeltas] at hq

/-- **tombstone_gc_safe for full passes** — no `GcSafe` hypothesis: current compactor, every
    cutoff, every fault oracle without read corruption: key by key the recovered content is
    unchanged, except that a key whose merged value was a tombstone below the cutoff may be gone -/
theorem tombstone_gc_safe_full_pass (F : Oracle) (hF : NoReadCorruption F) (cfg : CompactCfg) (sz : Nat) (w : World)
    (hinv : StoreInv w.store) (hc : Coherent (content w.store)) (hfull : FullPass w.store cfg) (k : Nat) :
    NMap.get (foldState (content (compactWith repairedCompact F cfg sz w).1.store)) k
        = NMap.get (foldState (content w.store)) k ∨
    (NMap.get (foldState (content (compactWith repairedCompact F cfg sz w).1.store)) k = none ∧
      ∃ T, NMap.get (foldState (content w.store)) k = some T ∧ T.isTombstone = true ∧ T.ts.time < cfg.cutoff) :=
  tombstone_gc_safe_partial F hF cfg sz w hinv hc (gcSafe_of_fullPass hfull) k

/-! ## what a reader sees -/

theorem wf_filterV {m : NMap RV} (p : Nat × RV → Bool) (h : NMap.WF m) : NMap.WF (m.filter p) :=
  List.Pairwise.filter p h

theorem get_filterV {m : NMap RV} (p : RV → Bool) (h : NMap.WF m) (k : Nat) :
    NMap.get (m.filter (fun e => p e.2)) k = (NMap.get m k).filter p := by
  induction m with
  | nil => rfl
  | cons q m ih =>
    obtain ⟨hlb, hwf⟩ := NMap.wf_cons.mp h
    have ih' := ih hwf
    rw [List.filter_cons, NMap.get_cons]
    by_cases hp : p q.2 = true
    · rw [if_pos hp, NMap.get_cons]
      by_cases hk : k = q.1
      · simp [hk, Option.filter, hp]
      · rw [if_neg hk, if_neg hk]; exact ih'
    · rw [if_neg hp]
      by_cases hk : k = q.1
      · have hlb' : NMap.LB q.1 (m.filter (fun e => p e.2)) := fun x hx => hlb x (List.mem_filter.mp hx).1
        rw [if_pos hk, hk, NMap.get_eq_none_of_LB hlb' (Nat.le_refl _)]
        simp [Option.filter, hp]
      · rw [if_neg hk]; exact ih'

/-- after a compaction of the merging compactor (GC or not) the listed content still lives in the
    carrier of the content before: the survivors are per-key merges of listed deltas -/
theorem compact_inCar (c : Carrier) (F : Oracle) (cfg : CompactCfg) (sz : Nat) (w : World)
    (hinv : StoreInv w.store) (hcar : InCar c (content w.store)) :
    InCar c (content (compactWith repairedCompact F cfg sz w).1.store) := by
  rcases (compact_spec repairedCompact F cfg sz w hinv).2 with h | ⟨w1, m, hl, hnfail, hcont⟩
  · rw [h]; exact hcar
  · have hst1 : w1.store = w.store := by
      have := loadOrCreate_store F w 0
      rw [hl] at this
      exact this
    have hback := backed_of_load hinv hl
    have hsegs := segments_of_load hl
    have hselp : ∀ s ∈ selectSegments cfg m, ∃ ds, NMap.get w1.store (segName s.id) = some (.segment ds) := by
      intro s hs
      rw [hst1]
      exact (hback.1 s (mem_selectSegments hs)).2
    rcases loadLoop_repaired repairedCompact rfl F w1 LoadAcc.init (selectSegments cfg m) hselp with h | ⟨sub, hsub, _, h1, h2⟩
    · rw [h] at hnfail; cases hnfail
    · have hcw : content w.store = segDeltas w.store m.segments := by
        unfold content; rw [hsegs]
      have hktd : (loadLoop repairedCompact F w1 LoadAcc.init (selectSegments cfg m)).2.ktd =
          foldState (segDeltas w.store sub) := by
        rw [h2, hst1]
        show List.foldl (keepStep true) LoadAcc.init.ktd (segDeltas w.store sub) = _
        rw [foldl_keepStep_merge]
        rfl
      have hBsub : ∀ d ∈ segDeltas w.store sub, d ∈ content w.store := by
        intro d hd
        rw [hcw]
        obtain ⟨s, hs, r⟩ := mem_segDeltas.mp hd
        exact mem_segDeltas.mpr ⟨s, mem_selectSegments (hsub.subset hs), r⟩
      have hcarB : InCar c (segDeltas w.store sub) := fun p hp => hcar p (hBsub p hp)
      intro p hp
      rcases (hcont p).mp hp with h | h
      · have hm := (mem_keptOf.mp h).1
        rw [hktd] at hm
        obtain ⟨k, v⟩ := p
        have hf := mem_foldState_iff.mp hm
        exact fold1_closed (c.aci k) (inCar_vals hcarB k) hf
      · apply hcar
        rw [hcw]
        obtain ⟨s, hs, r⟩ := mem_segDeltas.mp h
        exact mem_segDeltas.mpr ⟨s, (mem_removeIds.mp hs).1, r⟩

/-- **compaction_preserves_recovery for full passes, tombstone GC included** — the first sentence
    of C13 at full strength for every pass that takes all listed segments: current compactor,
    EVERY cutoff (hence every clock, every TTL), every fault oracle without read corruption
    (failed calls, torn puts, the death of the process at any call), every coherent layout: what
    a reader sees after recovery — tombstones read as absent — is the same before and after -/
theorem compaction_preserves_visible_full_pass (F : Oracle) (hF : NoReadCorruption F) (cfg : CompactCfg) (sz : Nat)
    (w : World) (rid : Nat) (hinv : StoreInv w.store) (hc : Coherent (content w.store))
    (hfull : FullPass w.store cfg) :
    (recState (compactWith repairedCompact F cfg sz w).1.store rid).map visible =
      (recState w.store rid).map visible := by
  let c := carrierOf (content w.store) hc
  have hcar := inCar_of_coherent hc
  have hinv' := (compact_spec repairedCompact F cfg sz w hinv).1
  have hcar' := compact_inCar c F cfg sz w hinv hcar
  rw [recState_of_inv c hinv' hcar' rid, recState_of_inv c hinv hcar rid]
  simp only [Option.map_some, Option.some.injEq]
  unfold visible
  apply NMap.ext (wf_filterV _ (wf_foldState _)) (wf_filterV _ (wf_foldState _))
  intro k
  rw [get_filterV (fun v => !v.isTombstone) (wf_foldState _), get_filterV (fun v => !v.isTombstone) (wf_foldState _)]
  rcases tombstone_gc_safe_full_pass F hF cfg sz w hinv hc hfull k with h | ⟨h1, T, h2, h3, _⟩
  · rw [h]
  · rw [h1, h2]
    simp [Option.filter, h3]

/-- the same for the current tree -/
theorem compaction_preserves_visible_full_pass_current (F : Oracle) (hF : NoReadCorruption F) (cfg : CompactCfg)
    (sz : Nat) (w : World) (rid : Nat) (hinv : StoreInv w.store) (hc : Coherent (content w.store))
    (hfull : FullPass w.store cfg) :
    (recState (compact F cfg sz w).1.store rid).map visible = (recState w.store rid).map visible := by
  unfold compact
  rw [current_compact_is_repaired]
  exact compaction_preserves_visible_full_pass F hF cfg sz w rid hinv hc hfull

/-- the entry point of the compaction worker (`compact_if_needed`: the `max_segments` threshold, then
    `compact`) — every threshold, every cutoff, a pass that takes every listed segment -/
theorem compact_if_needed_preserves_visible_full_pass (F : Oracle) (hF : NoReadCorruption F) (cfg : CompactCfg)
    (maxSegs sz : Nat) (w : World) (rid : Nat) (hinv : StoreInv w.store) (hc : Coherent (content w.store))
    (hfull : FullPass w.store cfg) :
    (recState (compactIfNeeded F cfg maxSegs sz w).1.store rid).map visible = (recState w.store rid).map visible := by
  unfold compactIfNeeded compactIfNeededWith
  have hs := needsCompaction_store F maxSegs w
  cases h : needsCompaction F maxSegs w with
  | mk w1 ob =>
    rw [h] at hs
    simp only at hs
    cases ob with
    | none => simp only [hs]
    | some b =>
      cases b with
      | false => simp only [hs]
      | true =>
        simp only
        have := compaction_preserves_visible_full_pass_current F hF cfg sz w1 rid (by rw [hs]; exact hinv)
          (by rw [hs]; exact hc) (by unfold FullPass at hfull ⊢; rw [hs]; exact hfull)
        unfold compact at this
        rw [this, hs]

/-! ## both conjuncts of `FullPass` are needed; non-vacuity -/

/-- a late-arriving older value: the delete of key 116 (time 5) is flushed first, the older value
    (time 3, from another replica) last -/
def lateOps : List Op :=
  [.push (116, tomb 5 1), .flush 100, .push (117, lww 1 6 1), .flush 100, .push (116, lww 120 3 2), .flush 100]

/-- **both conjuncts of `FullPass` are needed** (current compactor, cutoff 100 in Lamport units).
    First conjunct: the layout of the known finding C13:tombstone-gc:older-value-resurfaces — the
    older value sits in a segment over the size target.  Second conjunct: all three segments are
    candidates but `max_segments_per_compaction = 2` cuts the newest one off, which holds the
    late-arriving older value.  In both the deleted key is readable again after the compaction. -/
theorem full_pass_needed_counterexample :
    (¬ FullPass (after gcOps).store { cfgAll with now := 100, ttlMs := 0 } ∧
     (manifestOf (after gcOps).store 0).segments.length ≤ cfgAll.maxPer ∧
     (recState (compactWith repairedCompact allOk { cfgAll with now := 100, ttlMs := 0 } 100 (after gcOps)).1.store 1).map visible
       ≠ (recState (after gcOps).store 1).map visible) ∧
    (¬ FullPass (after lateOps).store { cfgAll with maxPer := 2, now := 100, ttlMs := 0 } ∧
     (∀ s ∈ (manifestOf (after lateOps).store 0).segments, s.size < cfgAll.target) ∧
     (recState (compactWith repairedCompact allOk { cfgAll with maxPer := 2, now := 100, ttlMs := 0 } 100 (after lateOps)).1.store 1).map visible
       ≠ (recState (after lateOps).store 1).map visible) := by
  decide

/-- non-vacuity: a full pass that DOES drop a tombstone (cutoff 100, tombstone at 5): the recovered
    state changes (the tombstone is gone), what a reader sees does not -/
example :
    FullPass (after gcSafeOps).store { cfgAll with target := 10000, now := 100, ttlMs := 0 } ∧
    Coherent (content (after gcSafeOps).store) ∧
    (compactWith repairedCompact allOk { cfgAll with target := 10000, now := 100, ttlMs := 0 } 150 (after gcSafeOps)).2
      = .compacted [0, 1, 2] 3 1 1 ∧
    (recState (compactWith repairedCompact allOk { cfgAll with target := 10000, now := 100, ttlMs := 0 } 150 (after gcSafeOps)).1.store 1).map visible
      = (recState (after gcSafeOps).store 1).map visible ∧
    recState (compactWith repairedCompact allOk { cfgAll with target := 10000, now := 100, ttlMs := 0 } 150 (after gcSafeOps)).1.store 1
      ≠ recState (after gcSafeOps).store 1 := by
  decide

end C13
end RedisVerif
