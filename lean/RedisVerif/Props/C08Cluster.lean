import RedisVerif.Lemmas.ReachRestart

/-!
# C08 at cluster level: a stamp identifies one write — crashes included

The shard-level theorems (`Props/C08.lean`) say that one node's stamps only grow.  What the other
properties USE is the cluster-level consequence (C06: convergence, C07: commutativity over
reachable values): anywhere in a cluster — in any node's state or in any delta ever shipped —

* `stamp_identifies_one_write`: two registers of the same key and slot (the string's register, a
  hash field) with the same stamp are THE SAME register (value, tombstone flag);
* `outer_stamp_identifies_kind`: two deltas of one key with the same outer stamp have the same CRDT kind;
* `own_stamps_below_clock`: a node that holds all the deltas it ever issued has its clock at or above
  every stamp that carries its replica id, wherever that stamp is stored — so its next write is new;

for clusters of any size after ANY history of local writes, deliveries (any delta to any node, any
order, duplicated, echoed) and CRASHES (a node restarts empty, clock 0), provided no node writes
between a crash and having re-absorbed every delta it issued before (`RecoversFirst`, decidable;
`C07.restart_early_write_breaks_tie` / `C06.write_before_own_recovery_counterexample`: without it
stamp (1, r1) is issued twice — the limitation C08 states for unsynced writes).
-/
namespace RedisVerif
namespace C08

open Cluster

theorem stamp_identifies_one_write (n : Nat) (causal : Bool) (evs : List REv)
    (hv : RecoversFirst (init n causal) evs) (a b : Reg3)
    (ha : InCluster ((init n causal).runR evs) a) (hb : InCluster ((init n causal).runR evs) b)
    (hk : a.1 = b.1) (hs : a.2.1 = b.2.1) (hts : a.2.2.ts = b.2.2.ts) : a.2.2 = b.2.2 :=
  (XInv_runR _ evs (XInv_init n causal) hv).uniq a b ha hb hk hs hts

theorem outer_stamp_identifies_kind (n : Nat) (causal : Bool) (evs : List REv)
    (hv : RecoversFirst (init n causal) evs) (m1 m2 : Msg)
    (h1 : m1 ∈ ((init n causal).runR evs).sent) (h2 : m2 ∈ ((init n causal).runR evs).sent)
    (hk : m1.key = m2.key) (hts : m1.val.ts = m2.val.ts) : m1.val.crdt.kind = m2.val.crdt.kind :=
  (XInv_runR _ evs (XInv_init n causal) hv).func m2.key (m1.val.ts, m1.val.crdt.kind)
    (m2.val.ts, m2.val.crdt.kind) ⟨m1, h1, hk, rfl⟩ ⟨m2, h2, rfl, rfl⟩ hts

theorem own_stamps_below_clock (n : Nat) (causal : Bool) (evs : List REv)
    (hv : RecoversFirst (init n causal) evs) (i : Nat) (s : Shard)
    (hs : ((init n causal).runR evs).nodes[i]? = some s)
    (hrec : Recovered ((init n causal).runR evs) i) (a : Reg3)
    (ha : InCluster ((init n causal).runR evs) a) (hrid : a.2.2.ts.rid = s.rid) :
    a.2.2.ts.time ≤ s.clock.time :=
  (XInv_runR _ evs (XInv_init n causal) hv).own_reg hs hrec ha hrid

/-- non-vacuity: three writes, a crash, the three deltas back, a fourth write, another node's crash -/
example :
    let evs : List REv :=
      [ .ev (.loc 0 (.write 107 [1] none)), .ev (.loc 0 (.write 107 [2] none)), .ev (.deliver 1 0),
        .restart 0, .ev (.deliver 0 1), .ev (.deliver 0 0), .ev (.loc 0 (.write 107 [3] none)),
        .restart 1, .ev (.deliver 1 2) ]
    RecoversFirst (init 2 false) evs ∧ Recovered ((init 2 false).runR evs) 0 ∧
      ((init 2 false).runR evs).sent.map (·.val.ts) = [⟨1, 1⟩, ⟨2, 1⟩, ⟨5, 1⟩] := by
  decide

end C08
end RedisVerif
