import RedisVerif.Props.C05Ext
import RedisVerif.Lemmas.Txn7

/-!
# C05 over the M7 reference executor: every command type, deadlines and the clock inside the model

`Props/C05.lean` / `Props/C05Ext.lean` prove the transaction theorems for EVERY executor
(`Txn.Backend`) and discharge the executor-specific hypotheses (GET-reply faithfulness,
independence of clients that work on other keys, the dispatcher contract) on the small store `KV`
(about twenty commands, no deadlines).  This file instantiates the machines with the M7 reference
executor (`Model/Redis.lean`: the model C01 ties to the real `CommandExecutor` — ~95 commands of all
five value types, multi-key and expiry commands, the clock) and discharges the same hypotheses
there, so that the C05 claims are about transactions over the WHOLE command set, with time:

* `m7_exec_equals_redis_run` — EXEC (nobody interferes, snapshots still match) returns exactly
  `Redis.run` of the queued commands at the node's instant, one result per command, and leaves
  `Redis.run`'s keyspace; `m7_exec_timed` — the same when TIME PASSES during EXEC (a tick before
  every replayed command, non-decreasing): the results are `Redis.run` of the commands at the
  instants they are replayed at.  `m7_exec_equals_outside` — per queued input what it answers
  outside MULTI (connection-level commands included).
* `m7_watch_detects_iff` — the connection-level snapshot (reply of GET at the node's instant) sees a
  change of a watched key's VALUE iff the key is not a live non-string at both moments; this now
  covers deadlines: `m7_watch_detects_deadline` — a watched key of ANY type whose deadline is
  reached before EXEC aborts it.  `m7_watch_nonstring_counterexample` refutes the full statement on
  M7 (known finding), `m7_getFaithful` gives the simulation of the executor-level machine by the
  connection-level one on M7 (`m7_conn_simulates_executor`).
* `m7_indep` / `m7_exec_serializable_other_keys` — under EVERY schedule EXEC is atomic w.r.t. clients
  whose commands (any command of the model that names its keys: single-key commands of all types,
  RENAME / LMOVE / SORT … STORE, MGET / MSET / MSETNX / DEL / EXISTS, expiry commands) name keys the
  transaction neither queues nor watches.  `m7_exec_not_isolated_counterexample`: on a shared key it
  is not (known finding).
* executor level: `m7_x_exec_equals_redis_run`, `m7_x_watch_detects_iff` (value of any type;
  a deadline that is reached IS a change, a TTL-only change is not).
-/
namespace RedisVerif
namespace C05
open Txn Txn7 NMap
open Redis (State Cmd Entry purge cmdKeys)

/-! ## EXEC = the reference model's consecutive run -/

/-- **EXEC over M7 equals `Redis.run`**: nobody interferes, every snapshot still matches — EXEC
    returns M7's replies to the queued commands run consecutively at the node's instant, one per
    command, and the node holds M7's resulting keyspace -/
theorem m7_exec_equals_redis_run (sched : List (List Cmd7)) (t : ConnTxn Nat Cmd7 Rep7) (n : Node)
    (cs : List Cmd) (hin : t.inTxn = true) (herr : t.errors = false) (hq : t.queue = cs.map .data)
    (hs : NoInterleaving sched) (hw : ∀ p ∈ t.watched, backend7.getReply n p.1 = p.2) (hn : NodeOk n) :
    step backend7 sched t n .exec =
      (ConnTxn.idle,
       { s := purge (Redis.run n.s (cs.map (fun c => (n.now, c)))).1 n.now, now := n.now },
       .results ((Redis.run n.s (cs.map (fun c => (n.now, c)))).2.map .data)) ∧
    (Redis.run n.s (cs.map (fun c => (n.now, c)))).2.length = cs.length := by
  obtain ⟨e, l⟩ := exec_equals_sequential_partial backend7 sched t n hin herr hs hw
  obtain ⟨r1, r2⟩ := runSeq7_eq_run cs n hn
  rw [hq] at e l
  rw [e, r1, r2]
  refine ⟨rfl, ?_⟩
  rw [r1] at l
  simpa using l

/-- a schedule in which nothing happens but the clock: it reads `ts[i]` when EXEC replays its
    (i+1)-th command -/
def tickSched (ts : List Nat) : List (List Cmd7) := ts.map (fun t => [.tick t])

/-- non-decreasing instants, none before `a` -/
def MonoFrom : Nat → List Nat → Prop
  | _, [] => True
  | a, t :: ts => a ≤ t ∧ MonoFrom t ts

instance : ∀ (a : Nat) (ts : List Nat), Decidable (MonoFrom a ts)
  | _, [] => isTrue trivial
  | a, t :: ts => by
    unfold MonoFrom
    have := instDecidableMonoFrom t ts
    infer_instance

theorem step_purge_le (s : State) {a b : Nat} (h : a ≤ b) (c : Cmd) :
    Redis.step (purge s a) b c = Redis.step s b c := by
  simp only [Redis.step, Redis.purge_purge_le s h]

theorem runQueue_ticks (cs : List Cmd) : ∀ (ts : List Nat) (n : Node) (r : State),
    ts.length = cs.length → MonoFrom n.now ts → n.s = purge r n.now →
    (runQueue backend7 (tickSched ts) n (cs.map .data)).2.2 = (Redis.run r (ts.zip cs)).2.map .data := by
  induction cs with
  | nil => intro ts n r hl _ _; cases ts <;> simp_all [runQueue, Redis.run]
  | cons c rest ih =>
    intro ts n r hl hm hr
    cases ts with
    | nil => simp at hl
    | cons t ts' =>
      obtain ⟨h1, h2⟩ := hm
      have hl' : ts'.length = rest.length := by simpa using hl
      simp only [tickSched, List.map_cons, runQueue, List.headD_cons, List.tail_cons, List.zip_cons_cons,
        Redis.run]
      have hs1 : foreign backend7 n [Cmd7.tick t] = { s := purge r t, now := t } := by
        show ({ s := purge n.s t, now := t } : Node) = _
        rw [hr, Redis.purge_purge_le r h1]
      rw [hs1]
      have hstep : Redis.step (purge r t) t c = Redis.step r t c := step_purge_le r (Nat.le_refl t) c
      have hx : backend7.exec { s := purge r t, now := t } (.data c) =
          ({ s := purge (Redis.step r t c).1 t, now := t }, .data (Redis.step r t c).2) := by
        show exec7 { s := purge r t, now := t } (.data c) = _
        simp only [exec7, hstep]
      rw [hx]
      simp only [List.map_cons]
      congr 1
      exact ih ts' { s := purge (Redis.step r t c).1 t, now := t } (Redis.step r t c).1 hl' h2 rfl

/-- **time may pass during EXEC**: no watched keys, nobody interferes, but the clock reads `ts[i]`
    (non-decreasing, not before the node's instant) when the (i+1)-th queued command is replayed —
    EXEC's results are `Redis.run` of the commands AT THOSE INSTANTS: a key whose deadline is reached
    between two queued commands is gone for the second, exactly as in the consecutive run -/
theorem m7_exec_timed (t : ConnTxn Nat Cmd7 Rep7) (n : Node) (cs : List Cmd) (ts : List Nat)
    (hin : t.inTxn = true) (herr : t.errors = false) (hw : t.watched = []) (hq : t.queue = cs.map .data)
    (hl : ts.length = cs.length) (hm : MonoFrom n.now ts) (hn : NodeOk n) :
    (step backend7 (tickSched ts) t n .exec).2.2 = .results ((Redis.run n.s (ts.zip cs)).2.map .data) := by
  simp only [step, hin, herr, hw, checkWatch, if_true, Bool.false_eq_true, if_false]
  rw [hq, runQueue_ticks cs ts n n.s hl hm hn.2.symm]

theorem monoFrom_append_left {a : Nat} {l1 l2 : List Nat} (h : MonoFrom a (l1 ++ l2)) : MonoFrom a l1 := by
  induction l1 generalizing a with
  | nil => trivial
  | cons x l ih => exact ⟨h.1, ih h.2⟩

theorem monoFrom_append_right {a : Nat} {l1 l2 : List Nat} (h : MonoFrom a (l1 ++ l2)) :
    MonoFrom (l1.getLastD a) l2 := by
  induction l1 generalizing a with
  | nil => exact h
  | cons x l ih =>
    have := ih h.2
    cases l with
    | nil => exact h.2
    | cons y l' => simpa [List.getLastD] using this

/-- the verdict of the watch comparison when only time passes: the (i+1)-th snapshot is compared
    with the reply of GET at the instant `ts[i]` -/
def timedWatchFails (r : State) : List Nat → List (Nat × Rep7) → Bool
  | t :: ts, (k, old) :: ws =>
    if Rep7.data (Redis.step r t (.get k)).2 = old then timedWatchFails r ts ws else true
  | _, _ => false

theorem checkWatch_ticks (ws : List (Nat × Rep7)) : ∀ (ts rest : List Nat) (n : Node) (r : State),
    ts.length = ws.length → MonoFrom n.now ts → n.s = purge r n.now →
    (checkWatch backend7 (tickSched (ts ++ rest)) n ws).2.2 = timedWatchFails r ts ws ∧
    (timedWatchFails r ts ws = false →
      (checkWatch backend7 (tickSched (ts ++ rest)) n ws).1 = tickSched rest ∧
      (checkWatch backend7 (tickSched (ts ++ rest)) n ws).2.1 =
        { s := purge r (ts.getLastD n.now), now := ts.getLastD n.now }) := by
  induction ws with
  | nil =>
    intro ts rest n r hl _ hr
    cases ts with
    | nil =>
      refine ⟨rfl, fun _ => ⟨rfl, ?_⟩⟩
      show n = { s := purge r n.now, now := n.now }
      rw [← hr]
    | cons _ _ => simp at hl
  | cons p ws ih =>
    intro ts rest n r hl hm hr
    obtain ⟨k, old⟩ := p
    cases ts with
    | nil => simp at hl
    | cons t ts' =>
      obtain ⟨h1, h2⟩ := hm
      have hl' : ts'.length = ws.length := by simpa using hl
      have hs1 : foreign backend7 n [Cmd7.tick t] = { s := purge r t, now := t } := by
        show ({ s := purge n.s t, now := t } : Node) = _
        rw [hr, Redis.purge_purge_le r h1]
      have hget : backend7.getReply { s := purge r t, now := t } k = .data (Redis.step r t (.get k)).2 := by
        show Rep7.data (Redis.step (purge r t) t (.get k)).2 = _
        rw [step_purge_le r (Nat.le_refl t)]
      rw [show tickSched ((t :: ts') ++ rest) = [Cmd7.tick t] :: tickSched (ts' ++ rest) from rfl]
      simp only [checkWatch, List.headD_cons, List.tail_cons, timedWatchFails, hs1, hget]
      by_cases he : Rep7.data (Redis.step r t (.get k)).2 = old
      · rw [if_pos he, if_pos he]
        obtain ⟨a, b⟩ := ih ts' rest { s := purge r t, now := t } r hl' h2 rfl
        refine ⟨a, fun hf => ?_⟩
        obtain ⟨b1, b2⟩ := b hf
        refine ⟨b1, ?_⟩
        rw [b2]
        cases ts' with
        | nil => rfl
        | cons x xs => simp [List.getLastD]
      · rw [if_neg he, if_neg he]
        exact ⟨rfl, fun hf => by cases hf⟩

/-- **EXEC when only time passes, watch comparison included**: the clock reads `tw[i]` when the
    (i+1)-th snapshot is compared and `tq[j]` when the (j+1)-th queued command is replayed
    (non-decreasing).  EXEC answers nil iff some snapshot differs from the reply of GET AT THE INSTANT
    OF ITS COMPARISON (a watched key whose deadline is reached while EXEC is comparing is a change);
    otherwise its results are `Redis.run` of the queue at the instants of replay. -/
theorem m7_exec_timed_watch (t : ConnTxn Nat Cmd7 Rep7) (n : Node) (cs : List Cmd) (tw tq : List Nat)
    (hin : t.inTxn = true) (herr : t.errors = false) (hq : t.queue = cs.map .data)
    (hlw : tw.length = t.watched.length) (hlq : tq.length = cs.length)
    (hm : MonoFrom n.now (tw ++ tq)) (hn : NodeOk n) :
    (step backend7 (tickSched (tw ++ tq)) t n .exec).2.2 =
      if timedWatchFails n.s tw t.watched then .nil
      else .results ((Redis.run n.s (tq.zip cs)).2.map .data) := by
  have hmw : MonoFrom n.now tw := monoFrom_append_left hm
  obtain ⟨v, rest⟩ := checkWatch_ticks t.watched tw tq n n.s hlw hmw hn.2.symm
  simp only [step, hin, herr, if_true, Bool.false_eq_true, if_false]
  rw [v]
  cases hf : timedWatchFails n.s tw t.watched
  · obtain ⟨r1, r2⟩ := rest hf
    simp only [Bool.false_eq_true, if_false]
    rw [r1, r2, hq]
    have hmq : MonoFrom (tw.getLastD n.now) tq := monoFrom_append_right hm
    rw [runQueue_ticks cs tq { s := purge n.s (tw.getLastD n.now), now := tw.getLastD n.now } n.s hlq hmq rfl]
  · simp

/-- non-vacuity of `m7_exec_timed_watch`: a watched key with deadline 1100; the comparison happens
    at 1100: nil.  At 1099: the queue runs, and its second GET (at 1100) finds the key gone. -/
example :
    let n : Node := { s := [(1, { val := .str [118], dl := some 1100 })], now := 1000 }
    let t : ConnTxn Nat Cmd7 Rep7 :=
      { inTxn := true, queue := [.data (.get 1), .data (.get 1)], errors := false,
        watched := [(1, .data (.bulk [118]))] }
    (step backend7 (tickSched ([1100] ++ [1100, 1100])) t n .exec).2.2 = .nil ∧
    (step backend7 (tickSched ([1099] ++ [1099, 1100])) t n .exec).2.2 =
      .results [.data (.bulk [118]), .data .nil] := by
  decide

/-- non-vacuity of `m7_exec_timed`: `SET k v PX 100` at 1000, then `MULTI; GET k; GET k; EXEC` with
    the clock at 1099 for the first GET and at 1100 for the second: `[v, nil]` -/
example :
    let n : Node := { s := [(1, { val := .str [118], dl := some 1100 })], now := 1000 }
    let t : ConnTxn Nat Cmd7 Rep7 :=
      { inTxn := true, queue := [.data (.get 1), .data (.get 1)], errors := false, watched := [] }
    NodeOk n ∧ MonoFrom n.now [1099, 1100] ∧
    (step backend7 (tickSched [1099, 1100]) t n .exec).2.2 = .results [.data (.bulk [118]), .data .nil] := by
  decide

/-! ## EXEC answers, per queued input, what the input answers outside MULTI -/

theorem m7_local_faithful (body : List (Input Nat Cmd7))
    (h : ∀ c, Input.connLocal c ∈ body → ∃ l, c = .loc l) : LocalFaithfulOn backend7 body := by
  intro c hc s
  obtain ⟨l, rfl⟩ := h c hc
  rfl

/-- `MULTI; body; EXEC` over M7 (data commands of every type and connection-level commands):
    the store and the results are those of the body sent outside MULTI -/
theorem m7_exec_equals_outside (t : ConnTxn Nat Cmd7 Rep7) (n : Node)
    (body : List (Input Nat Cmd7)) (sc sched : List (List Cmd7))
    (hout : t.inTxn = false) (hw : t.watched = []) (hb : body.all isCmdOrLocal = true)
    (hl : ∀ c, Input.connLocal c ∈ body → ∃ l, c = .loc l) (hq : NoInterleaving sched) :
    ExecEqualsOutside backend7 t n body sc sched :=
  exec_equals_outside _ _ _ _ backend7 t n body sc sched hout hw hb hq (m7_local_faithful body hl)

/-! ## WATCH over M7: what the GET-reply snapshot sees, deadlines included -/

/-- the key holds a live NON-STRING value (list, set, hash, sorted set) at the node's instant -/
def nonString7 (n : Node) (k : Nat) : Bool :=
  match value7 n k with
  | some (.str _) => false
  | none => false
  | some _ => true

theorem getReply7_eq (n : Node) (k : Nat) :
    backend7.getReply n k = .data (Redis.execGet (purge n.s n.now) k).2 := rfl

/-- **exact characterisation of the connection-level snapshot over M7**: between the node at WATCH
    (`n0`) and the node at EXEC (`n`) — any commands of any type, any passing of time in between —
    the GET reply differs iff the VALUE of the key (what is live of it) differs and the key is not a
    live non-string at BOTH moments -/
theorem m7_watch_detects_iff (n0 n : Node) (k : Nat) :
    backend7.getReply n k ≠ backend7.getReply n0 k ↔
      (value7 n k ≠ value7 n0 k ∧ ¬ (nonString7 n0 k = true ∧ nonString7 n k = true)) := by
  simp only [getReply7_eq, nonString7, value7, vis, Redis.execGet, Redis.lookupStr]
  cases h0 : NMap.get (purge n0.s n0.now) k with
  | none =>
    cases h1 : NMap.get (purge n.s n.now) k with
    | none => simp
    | some e1 => obtain ⟨v1, d1⟩ := e1; cases v1 <;> simp
  | some e0 =>
    obtain ⟨v0, d0⟩ := e0
    cases h1 : NMap.get (purge n.s n.now) k with
    | none => cases v0 <;> simp
    | some e1 => obtain ⟨v1, d1⟩ := e1; cases v0 <;> cases v1 <;> simp

/-- every change of the value of a watched key that is a string or missing (or expired) before or
    after makes EXEC return nil and apply nothing -/
theorem m7_watch_detects_change_strings (t : ConnTxn Nat Cmd7 Rep7) (n0 n : Node) (k : Nat)
    (hin : t.inTxn = true) (herr : t.errors = false)
    (hm : (k, backend7.getReply n0 k) ∈ t.watched) (hv : value7 n k ≠ value7 n0 k)
    (hs : nonString7 n0 k = false ∨ nonString7 n k = false) :
    step backend7 [] t n .exec = (ConnTxn.idle, n, .nil) :=
  watch_detects_change_partial backend7 [] t n k _ hin herr noInterleaving_nil hm
    ((m7_watch_detects_iff n0 n k).mpr ⟨hv, by
      rintro ⟨a, b⟩
      rcases hs with h | h
      · rw [h] at a; cases a
      · rw [h] at b; cases b⟩)

/-- **a deadline that is reached is a change the snapshot sees, whatever the type**: a key that is
    live at WATCH and whose deadline has been reached at EXEC (nothing else touched it) makes EXEC
    return nil -/
theorem m7_watch_detects_deadline (t : ConnTxn Nat Cmd7 Rep7) (n0 n : Node) (k : Nat) (e : Entry) (d : Nat)
    (hin : t.inTxn = true) (herr : t.errors = false)
    (hm : (k, backend7.getReply n0 k) ∈ t.watched) (h0 : vis n0 k = some e)
    (hkeep : NMap.get n.s k = some e) (hd : e.dl = some d) (hpast : d ≤ n.now) (hwf : NMap.WF n.s) :
    step backend7 [] t n .exec = (ConnTxn.idle, n, .nil) := by
  have hgone : vis n k = none := by
    simp only [vis, Redis.get_purge hwf, hkeep, Option.filter, Redis.live, hd]
    simp [Nat.not_lt.mpr hpast]
  apply m7_watch_detects_change_strings t n0 n k hin herr hm
  · simp [value7, h0, hgone]
  · right; simp [nonString7, value7, hgone]

/-- non-vacuity: a LIST with a deadline, watched at 1000, EXEC at its deadline -/
example :
    let n0 : Node := { s := [(1, { val := .list [[97]], dl := some 1100 })], now := 1000 }
    let n : Node := { s := n0.s, now := 1100 }
    let t : ConnTxn Nat Cmd7 Rep7 :=
      { inTxn := true, queue := [.data (.llen 1)], errors := false, watched := [(1, backend7.getReply n0 1)] }
    (step backend7 [] t n .exec).2 = (n, .nil) := by
  decide

/-- the full statement over M7: every change of the VALUE of a watched key, of whatever type,
    between WATCH (`n0`) and EXEC (`n`) makes EXEC return nil -/
def C05_m7_watch_detects_change : Prop :=
  ∀ (t : ConnTxn Nat Cmd7 Rep7) (n0 n : Node) (k : Nat),
    t.inTxn = true → t.errors = false → (k, backend7.getReply n0 k) ∈ t.watched →
    value7 n k ≠ value7 n0 k → (step backend7 [] t n .exec).2.2 = .nil

/-- refuted on M7 by the same witness as on the small store: `RPUSH w 1; WATCH w; RPUSH w 2;
    MULTI; SET x 1; EXEC` proceeds (known finding `C05:watch:non-string-key-change-undetected`) -/
theorem m7_watch_nonstring_counterexample : ¬ C05_m7_watch_detects_change := by
  intro h
  have := h
    { inTxn := true, queue := [.data (.set 9 [49] .always .none false)], errors := false,
      watched := [(4, .data (.err .wrongType))] }
    { s := [(4, { val := .list [[49]], dl := none })], now := 1000 }
    { s := [(4, { val := .list [[49], [50]], dl := none })], now := 1000 } 4 rfl rfl (by decide) (by decide)
  revert this
  decide

/-- GET-reply faithfulness on M7: the snapshot of a key that is a string or missing (or expired) at
    WATCH tells exactly as much as its value -/
theorem m7_getFaithful (n0 : Node) (k : Nat) (h : nonString7 n0 k = false) :
    GetFaithfulAt backend7 value7 n0 k := by
  intro n
  have := m7_watch_detects_iff n0 n k
  constructor
  · intro hr
    false_or_by_contra
    rename_i hne
    exact (this.mpr ⟨hne, by simp [h]⟩) hr
  · intro hv
    false_or_by_contra
    rename_i hne
    exact (this.mp hne).1 hv

/-- **the connection-level machine simulates the executor-level machine over M7** on guarded
    traces (each WATCH names fresh keys that are strings or missing at that moment): same node, same
    replies up to the shape of nil -/
theorem m7_conn_simulates_executor (is : List (XInput Nat Cmd7)) (t : ConnTxn Nat Cmd7 Rep7)
    (x : ExTxn Nat Cmd7 Redis.Value) (n : Node) (hS : Sim backend7 value7 t x)
    (hG : Guarded backend7 value7 t n is) :
    (run backend7 t n (is.map (fun i => (toConn i, [])))).2.1 =
      (xrun (xOf backend7 value7) (.other (.simple .ok)) x n is).2.1 ∧
    (run backend7 t n (is.map (fun i => (toConn i, [])))).2.2.map toX =
      (xrun (xOf backend7 value7) (.other (.simple .ok)) x n is).2.2.map some :=
  let r := conn_simulates_executor_partial backend7 value7 (.other (.simple .ok)) (fun _ => rfl) is t x n hS hG
  ⟨r.1, r.2.1⟩

/-! ## isolation over M7: clients that work on other keys -/

/-- a foreign command that names its keys (`keysOf f = some Kf`: any data command of the model that
    is not KEYS / DBSIZE / FLUSH* / RANDOMKEY, or a key-less command; NOT a tick) is independent of
    every transaction whose queued commands name keys outside `Kf` and whose watched keys are
    outside `Kf` -/
theorem m7_indep (f : Cmd7) (Kf : List Nat) (hf : keysOf f = some Kf) (q : List Cmd7) (ws : List Nat)
    (hq : ∀ c ∈ q, ∃ Kc, keysOf c = some Kc ∧ ∀ k ∈ Kf, k ∉ Kc) (hw : ∀ k ∈ ws, k ∉ Kf) :
    Indep backend7 NodeOk q ws f := by
  -- a command that is not a data command and not a tick leaves the node alone
  have keyless_node : ∀ (c : Cmd7) (K : List Nat), keysOf c = some K → (∀ d, c ≠ .data d) →
      ∀ n, (exec7 n c).1 = n := by
    intro c K hk hd n
    cases c with
    | data d => exact absurd rfl (hd d)
    | tick t => simp [keysOf] at hk
    | ping => rfl
    | unwatch => rfl
    | unknown => rfl
    | loc l => rfl
  have keyless_reply : ∀ (c : Cmd7) (K : List Nat), keysOf c = some K → (∀ d, c ≠ .data d) →
      ∀ n n', (exec7 n c).2 = (exec7 n' c).2 := by
    intro c K hk hd n n'
    cases c with
    | data d => exact absurd rfl (hd d)
    | tick t => simp [keysOf] at hk
    | ping => rfl
    | unwatch => rfl
    | unknown => rfl
    | loc l => rfl
  cases f with
  | data fd =>
    have hfd : cmdKeys fd = some Kf := hf
    refine ⟨?_, ?_, ?_⟩
    · intro c hc n hn
      obtain ⟨Kc, hkc, hdis⟩ := hq c hc
      show (exec7 (exec7 n (.data fd)).1 c).1 = (exec7 (exec7 n c).1 (.data fd)).1
      cases c with
      | data cd => exact (exec7_commute hn fd cd Kf Kc hfd hkc hdis).1
      | tick t => simp [keysOf] at hkc
      | ping => rfl
      | unwatch => rfl
      | unknown => rfl
      | loc l => rfl
    · intro c hc n hn
      obtain ⟨Kc, hkc, hdis⟩ := hq c hc
      show (exec7 (exec7 n (.data fd)).1 c).2 = (exec7 n c).2
      cases c with
      | data cd => exact (exec7_commute hn fd cd Kf Kc hfd hkc hdis).2.1
      | tick t => simp [keysOf] at hkc
      | ping => rfl
      | unwatch => rfl
      | unknown => rfl
      | loc l => rfl
    · intro k hk n hn
      exact getReply7_congr (exec7_ok hn _) hn rfl k (exec7_frame hn fd Kf hfd k (hw k hk))
  | tick t => simp [keysOf] at hf
  | ping => exact ⟨fun _ _ _ _ => rfl, fun _ _ _ _ => rfl, fun _ _ _ _ => rfl⟩
  | unwatch => exact ⟨fun _ _ _ _ => rfl, fun _ _ _ _ => rfl, fun _ _ _ _ => rfl⟩
  | unknown => exact ⟨fun _ _ _ _ => rfl, fun _ _ _ _ => rfl, fun _ _ _ _ => rfl⟩
  | loc l => exact ⟨fun _ _ _ _ => rfl, fun _ _ _ _ => rfl, fun _ _ _ _ => rfl⟩

/-- **EXEC over M7 is atomic with respect to clients that work on other keys**, under EVERY
    schedule: if every command served to the other clients while EXEC runs names its keys, and
    those keys are named by no queued command and are not watched, the outcome (node, reply, watch
    verdict) is the serial outcome "EXEC in one piece, then the others".  All command types of the
    reference model: single-key commands of the five value types, two-key and multi-key commands,
    expiry commands. -/
theorem m7_exec_serializable_other_keys (sched : List (List Cmd7)) (t : ConnTxn Nat Cmd7 Rep7)
    (n : Node) (hin : t.inTxn = true) (herr : t.errors = false) (hn : NodeOk n)
    (hf : ∀ f ∈ sched.flatten, ∃ Kf, keysOf f = some Kf ∧
      (∀ c ∈ t.queue, ∃ Kc, keysOf c = some Kc ∧ ∀ k ∈ Kf, k ∉ Kc) ∧
      ∀ k ∈ t.watched.map (·.1), k ∉ Kf) :
    ((step backend7 sched t n .exec).2.1, (step backend7 sched t n .exec).2.2) =
      serialExec backend7 t n [] sched.flatten :=
  exec_serializable_of_independent backend7 NodeOk (fun s c h => exec7_ok h c) sched t n hin herr hn
    (fun f hm => by
      obtain ⟨Kf, h1, h2, h3⟩ := hf f hm
      exact m7_indep f Kf h1 t.queue (t.watched.map (·.1)) h2 h3)

/-- a READ-ONLY command of another client (any read of the reference model, on ANY keys — the
    transaction's own keys included — and the keyspace-wide reads KEYS / DBSIZE / RANDOMKEY) leaves a
    node as it is, hence is independent of every transaction -/
theorem m7_indep_readonly (f : Cmd) (hro : Redis.isReadOnly f = true) (q : List Cmd7) (ws : List Nat) :
    Indep backend7 NodeOk q ws (.data f) := by
  have hnode : ∀ n, NodeOk n → (exec7 n (.data f)).1 = n := by
    intro n hn
    rw [exec7_data hn, Redis.exec_ro hro, hn.2]
  refine ⟨?_, ?_, ?_⟩
  · intro c _ n hn
    show (exec7 (exec7 n (.data f)).1 c).1 = (exec7 (exec7 n c).1 (.data f)).1
    rw [hnode n hn, hnode _ (exec7_ok hn c)]
  · intro c _ n hn
    show (exec7 (exec7 n (.data f)).1 c).2 = (exec7 n c).2
    rw [hnode n hn]
  · intro k _ n hn
    show backend7.getReply (exec7 n (.data f)).1 k = backend7.getReply n k
    rw [hnode n hn]

/-- **EXEC over M7 is atomic with respect to readers and to clients on other keys**, under EVERY
    schedule: every command served to the other clients while EXEC runs is either READ-ONLY (on any
    keys) or names keys the transaction neither queues nor watches — the outcome of the transaction
    (node, reply, watch verdict) is the serial one.  (What a concurrent READER sees in between is
    the reader's matter: it may see half of the transaction — per-command atomicity only.) -/
theorem m7_exec_serializable (sched : List (List Cmd7)) (t : ConnTxn Nat Cmd7 Rep7)
    (n : Node) (hin : t.inTxn = true) (herr : t.errors = false) (hn : NodeOk n)
    (hf : ∀ f ∈ sched.flatten,
      (∃ d, f = .data d ∧ Redis.isReadOnly d = true) ∨
      ∃ Kf, keysOf f = some Kf ∧
        (∀ c ∈ t.queue, ∃ Kc, keysOf c = some Kc ∧ ∀ k ∈ Kf, k ∉ Kc) ∧
        ∀ k ∈ t.watched.map (·.1), k ∉ Kf) :
    ((step backend7 sched t n .exec).2.1, (step backend7 sched t n .exec).2.2) =
      serialExec backend7 t n [] sched.flatten :=
  exec_serializable_of_independent backend7 NodeOk (fun s c h => exec7_ok h c) sched t n hin herr hn
    (fun f hm => by
      rcases hf f hm with ⟨d, rfl, hro⟩ | ⟨Kf, h1, h2, h3⟩
      · exact m7_indep_readonly d hro t.queue (t.watched.map (·.1))
      · exact m7_indep f Kf h1 t.queue (t.watched.map (·.1)) h2 h3)

/-- non-vacuity of the reader case: `MULTI; INCR 1; INCR 1; EXEC` with another client's `GET 1`,
    `KEYS`, `DBSIZE` served between the replayed commands: the transaction's outcome is the serial one -/
example :
    let t : ConnTxn Nat Cmd7 Rep7 :=
      { inTxn := true, queue := [.data (.incr 1), .data (.incr 1)], errors := false, watched := [(1, .data .nil)] }
    let sched : List (List Cmd7) := [[], [.data (.get 1)], [.data .keys, .data .dbsize], [.data (.lrange 1 0 (-1))]]
    (∀ f ∈ sched.flatten, ∃ d, f = .data d ∧ Redis.isReadOnly d = true) ∧
    (step backend7 sched t (Node.init 1000) .exec).2.2 = .results [.data (.int 1), .data (.int 2)] := by
  refine ⟨?_, by decide⟩
  intro f hf
  simp only [List.flatten_cons, List.flatten_nil, List.nil_append, List.append_nil, List.cons_append,
    List.mem_cons, List.not_mem_nil, or_false] at hf
  rcases hf with rfl | rfl | rfl | rfl <;> exact ⟨_, rfl, rfl⟩

/-- non-vacuity: a transaction on keys 1 and 2 (key 1 watched; a list command, an expiry command)
    with the other clients running a two-key RENAME 3→4, an MSET on 5 and 6, and a ZADD on 7 between
    its store accesses: the hypotheses hold -/
example :
    let t : ConnTxn Nat Cmd7 Rep7 :=
      { inTxn := true,
        queue := [.data (.rpush 2 [[97]]), .data (.get 1), .data (.pexpire 2 50 ⟨false, false, false, false⟩), .ping],
        errors := false, watched := [(1, .data (.bulk [48]))] }
    let sched : List (List Cmd7) :=
      [[], [.data (.rename 3 4)], [.data (.mset [(5, [49]), (6, [50])])], [], [.data (.zadd 7 ⟨false, false, false, false, false⟩ [([109], .fin 3)])]]
    ∀ f ∈ sched.flatten, ∃ Kf, keysOf f = some Kf ∧
      (∀ c ∈ t.queue, ∃ Kc, keysOf c = some Kc ∧ ∀ k ∈ Kf, k ∉ Kc) ∧
      ∀ k ∈ t.watched.map (·.1), k ∉ Kf := by
  intro t sched f hf
  simp only [sched, List.flatten_cons, List.flatten_nil, List.nil_append, List.append_nil, List.cons_append,
    List.mem_cons, List.not_mem_nil, or_false] at hf
  have hq : ∀ (Kf : List Nat), (∀ k ∈ Kf, k ≠ 1 ∧ k ≠ 2) →
      ∀ c ∈ t.queue, ∃ Kc, keysOf c = some Kc ∧ ∀ k ∈ Kf, k ∉ Kc := by
    intro Kf hk c hc
    simp only [t, List.mem_cons, List.not_mem_nil, or_false] at hc
    rcases hc with rfl | rfl | rfl | rfl
    · exact ⟨[2], rfl, fun k h => by simp [(hk k h).2]⟩
    · exact ⟨[1], rfl, fun k h => by simp [(hk k h).1]⟩
    · exact ⟨[2], rfl, fun k h => by simp [(hk k h).2]⟩
    · exact ⟨[], rfl, fun k _ => by simp⟩
  rcases hf with rfl | rfl | rfl
  · exact ⟨[3, 4], rfl, hq _ (by decide), by decide⟩
  · exact ⟨[5, 6], rfl, hq _ (by decide), by decide⟩
  · exact ⟨[7], rfl, hq _ (by decide), by decide⟩

/-- the atomicity statement for the M7 instance -/
def C05_m7_exec_atomic : Prop :=
  ∀ (t : ConnTxn Nat Cmd7 Rep7) (n : Node) (sched : List (List Cmd7)),
    t.inTxn = true → t.errors = false → NodeOk n →
    ((step backend7 sched t n .exec).2.1, (step backend7 sched t n .exec).2.2) ∈
      (splits sched.flatten).map (fun p => serialExec backend7 t n p.1 p.2)

/-- refuted on M7: `MULTI; INCR k; INCR k; EXEC` with the other client's `SET k 10` served between
    the two replayed commands answers `[1, 11]` — no atomic EXEC before or after the SET gives that
    (known finding `C05:exec:not-isolated`) -/
theorem m7_exec_not_isolated_counterexample : ¬ C05_m7_exec_atomic := by
  intro h
  have := h
    { inTxn := true, queue := [.data (.incr 1), .data (.incr 1)], errors := false, watched := [] }
    (Node.init 1000) [[], [.data (.set 1 [49, 48] .always .none false)]] rfl rfl (by decide)
  revert this
  decide

/-! ## the executor-level machine over M7 -/

theorem xrunQueue7_eq_run (cs : List Cmd) (n : Node) (hn : NodeOk n) :
    xrunQueue xbackend7 (.other (.simple .ok)) n (cs.map (fun c => XQ.cmd (.data c))) =
      ({ s := purge (Redis.run n.s (cs.map (fun c => (n.now, c)))).1 n.now, now := n.now },
       (Redis.run n.s (cs.map (fun c => (n.now, c)))).2.map .data) := by
  obtain ⟨r1, r2⟩ := runSeq7_eq_run cs n hn
  rw [← r1, ← r2]
  clear r1 r2 hn
  induction cs generalizing n with
  | nil => rfl
  | cons c rest ih =>
    simp only [List.map_cons, xrunQueue, runSeq]
    rw [show xbackend7.exec n (.data c) = backend7.exec n (.data c) from rfl, ih]

/-- executor-level EXEC over M7 (`transaction_ops.rs`: one `&mut self`, one instant): the watched
    values are unchanged — M7's consecutive run of the queue -/
theorem m7_x_exec_equals_redis_run (t : ExTxn Nat Cmd7 Redis.Value) (n : Node) (cs : List Cmd)
    (hin : t.inTxn = true) (hq : t.queue = cs.map (fun c => XQ.cmd (.data c)))
    (hw : ∀ p ∈ t.watched, value7 n p.1 = p.2) (hn : NodeOk n) :
    xstep xbackend7 (.other (.simple .ok)) t n .exec =
      (ExTxn.idle,
       { s := purge (Redis.run n.s (cs.map (fun c => (n.now, c)))).1 n.now, now := n.now },
       .results ((Redis.run n.s (cs.map (fun c => (n.now, c)))).2.map .data)) := by
  have hany : (t.watched.any fun p => decide (xbackend7.value n p.1 ≠ p.2)) = false := by
    simp only [List.any_eq_false]
    intro p hp
    simp [show xbackend7.value n p.1 = value7 n p.1 from rfl, hw p hp]
  rw [xstep_exec xbackend7 _ t n hin, hany, hq, xrunQueue7_eq_run cs n hn]
  rfl

/-- executor level over M7, exact boundary: nil ⇔ the live VALUE (type and content, any of the
    five types) of some watched key differs from its snapshot.  A deadline that has been reached is
    such a change (the value is gone); a TTL-only change (EXPIRE / PERSIST) is not. -/
theorem m7_x_watch_detects_iff (t : ExTxn Nat Cmd7 Redis.Value) (n : Node) (hin : t.inTxn = true) :
    (xstep xbackend7 (.other (.simple .ok)) t n .exec).2.2 = .nil ↔ ∃ p ∈ t.watched, value7 n p.1 ≠ p.2 :=
  x_watch_detects_iff xbackend7 _ t n hin

/-- a TTL-only change of a watched key is no change of its value: both machines proceed
    (`WATCH k; PEXPIRE k 500; MULTI; GET k; EXEC`) — within the property, which is value-based -/
example :
    let n0 : Node := { s := [(1, { val := .str [118], dl := none })], now := 1000 }
    let n := (exec7 n0 (.data (.pexpire 1 500 ⟨false, false, false, false⟩))).1
    n.s = [(1, { val := .str [118], dl := some 1500 })] ∧
    value7 n 1 = value7 n0 1 ∧ backend7.getReply n 1 = backend7.getReply n0 1 := by
  decide

end C05
end RedisVerif
