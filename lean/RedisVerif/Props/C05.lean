import RedisVerif.Model.Txn
import RedisVerif.Lemmas.Txn

/-!
# C05 — MULTI/EXEC is all-or-nothing and equals the sequential run; WATCH aborts on change

Model: `RedisVerif.Txn` (`Model/Txn.lean`): `Txn.step`, the connection-level state machine of
`production/connection_optimized.rs` over an abstract executor `Backend`, with the other clients
as a schedule of foreign commands at every await point of EXEC; `Txn.xstep`, the executor-level
machine of `redis/executor/transaction_ops.rs`; `KV`, a tiny concrete store for the driver and
for the kernel-checked counterexamples.

Connection level (what production runs):
* `queued_has_no_effect` — **full**: between MULTI and EXEC/DISCARD, whatever is sent (commands,
  unknown commands, arity errors, nested MULTI, WATCH, UNWATCH, connection-level commands), the
  store is untouched, every reply is QUEUED or an error, the watch list is untouched.
* `exec_result_count` — **full**: EXEC answers with exactly one result per queued command, under
  every schedule of the other clients.
* `exec_equals_sequential_partial` / `txn_equals_sequential_partial` / `exec_atomic_partial` —
  under `NoInterleaving`: EXEC = the consecutive run.  The full statement `C05_exec_atomic` is
  REFUTED for the code as it is: `exec_not_isolated_counterexample`,
  `watched_key_changed_after_check_counterexample`.
* `exec_equals_outside` — **full** (`C05_exec_equals_outside`): per queued input (data commands
  and connection-level commands AUTH / ACL … / HELLO / RESET / CLIENT …) EXEC returns what the
  same input returns outside MULTI, given the dispatcher contract `LocalFaithfulOn`, which the
  concrete store meets (`kv_local_faithful`, `kv_exec_equals_outside`) since the `fix:` commit;
  the pinned commit did not: `connection_level_command_pinned_counterexample`.
* `discard_leaves_store`, `execabort_leaves_store`, `watchfail_leaves_store` — **full**, under
  every schedule: the store after = the store with the other clients' commands only.
* `watch_detects_change_partial` — if the GET-visible value of a watched key differs from the
  snapshot, EXEC answers nil and applies nothing (any backend); `watch_txn_detects_change_partial`
  — the same as a trace `WATCH … MULTI … EXEC` with other clients' commands between the inputs;
  `watch_detects_change_strings_partial` — on the concrete store that covers every change in which
  the key is a string or missing before or after.  The full statement
  `C05_watch_detects_change` (all key types) is REFUTED: `watch_nonstring_counterexample`.
* boundary theorems (finding-absorption audit): `exec_isolated_of_no_foreign_step`,
  `exec_head_slot`, `exec_isolated_of_foreign_before_first_access`,
  `not_isolated_only_through_foreign_step` (EXEC can only fail to be atomic through a foreign
  command served after its first store access); `exec_aborts_iff_partial` (nil ⇔ some GET-reply
  snapshot differs: no spurious abort, no missed GET-visible change); `watch_detects_iff` /
  `exec_proceeds_on_list_change` (the snapshot misses a change ⇔ list at WATCH time and a
  different list at EXEC time).
* decision table `table_*`.

Executor level (`CommandExecutor::execute`, simulation path) — all **full**:
`x_queued_has_no_effect`, `x_exec_equals_sequential`, `x_watch_detects_change` (the snapshot is
the whole `Value`), `x_watch_snapshot` + `x_rewatch_keeps_first` (a repeated WATCH keeps the first
snapshot since the `fix:` commit; pinned commit: `x_rewatch_forgets_change_pinned_counterexample`),
`x_discard_leaves_store`, `x_watchfail_leaves_store`, `x_table_*`; exact boundary
`x_watch_detects_iff` (nil ⇔ the stored value of a watched key differs — any type),
`x_watch_detects_iff_kv` / `x_detects_every_change` on the concrete store with all five value
types (sorted-set scores included); an equality that ignores scores is refuted:
`x_score_blind_equality_counterexample`.
-/
namespace RedisVerif
namespace C05

open Txn

/-- inputs that end a transaction -/
def endsTxn {κ γ : Type} : Input κ γ → Bool
  | .exec => true
  | .discard => true
  | _ => false

def isQueuedOrErr {ρ : Type} : Reply ρ → Bool
  | .queued => true
  | .err _ => true
  | _ => false

def isCmd {κ γ : Type} : Input κ γ → Bool
  | .cmd _ => true
  | _ => false

def isCmdOrLocal {κ γ : Type} : Input κ γ → Bool
  | .cmd _ => true
  | .connLocal _ => true
  | _ => false

/-- every input of the body is a plain data command -/
def AllCmd {κ γ : Type} (body : List (Input κ γ)) : Prop := body.all isCmd = true

instance {κ γ : Type} (body : List (Input κ γ)) : Decidable (AllCmd body) := by
  unfold AllCmd; infer_instance

def unplain {ρ : Type} : Reply ρ → Option ρ
  | .plain r => some r
  | _ => none

/-! ## full-strength statements -/

/-- Commands sent between MULTI and EXEC have no effect and no result. -/
def C05_queued_has_no_effect : Prop :=
  ∀ (σ κ γ ρ : Type) [DecidableEq ρ] (B : Backend σ κ γ ρ) (t : ConnTxn κ γ ρ) (s : σ)
    (body : List (Input κ γ × List (List γ))),
    t.inTxn = true → (∀ e ∈ body, endsTxn e.1 = false) →
    (run B t s body).2.1 = s ∧ (run B t s body).1.inTxn = true ∧
    (run B t s body).1.watched = t.watched ∧
    ∀ r ∈ (run B t s body).2.2, isQueuedOrErr r = true

/-- EXEC is atomic with respect to the other clients: whatever they do while it runs, the outcome
    (store, reply) is that of an EXEC executed in one piece at some point of their command
    sequence. -/
def C05_exec_atomic : Prop :=
  ∀ (σ κ γ ρ : Type) [DecidableEq ρ] [DecidableEq σ] (B : Backend σ κ γ ρ) (t : ConnTxn κ γ ρ) (s : σ)
    (sched : List (List γ)),
    t.inTxn = true → t.errors = false →
    ((step B sched t s .exec).2.1, (step B sched t s .exec).2.2) ∈
      (splits sched.flatten).map (fun p => serialExec B t s p.1 p.2)

/-- the contract of the EXEC loop's dispatcher for the connection-level commands of a body: it
    answers them as the connection does outside MULTI and does not touch the store
    (`execute_connection_level`, since the `fix:` commit) -/
def LocalFaithfulOn {σ κ γ ρ : Type} (B : Backend σ κ γ ρ) (body : List (Input κ γ)) : Prop :=
  ∀ c, Input.connLocal c ∈ body → ∀ s, B.exec s c = (s, B.localReply c)

/-- the conclusion of `C05_exec_equals_outside` for one backend and one body -/
def ExecEqualsOutside {σ κ γ ρ : Type} [DecidableEq ρ] (B : Backend σ κ γ ρ) (t : ConnTxn κ γ ρ)
    (s : σ) (body : List (Input κ γ)) (sc sched : List (List γ)) : Prop :=
  (run B t s ((.multi, sc) :: body.map (fun i => (i, sc)) ++ [(.exec, sched)])).2.1 =
    (run B t s (body.map (fun i => (i, sc)))).2.1 ∧
  (run B t s ((.multi, sc) :: body.map (fun i => (i, sc)) ++ [(.exec, sched)])).2.2.getLast? =
    some (.results ((run B t s (body.map (fun i => (i, sc)))).2.2.filterMap unplain))

/-- EXEC returns, per queued command, the result the same command gets when the body is sent
    outside MULTI (bodies of data commands and connection-level commands; nobody interferes). -/
def C05_exec_equals_outside : Prop :=
  ∀ (σ κ γ ρ : Type) [DecidableEq ρ] (B : Backend σ κ γ ρ) (t : ConnTxn κ γ ρ) (s : σ)
    (body : List (Input κ γ)) (sc sched : List (List γ)),
    t.inTxn = false → t.watched = [] → body.all isCmdOrLocal = true → NoInterleaving sched →
    LocalFaithfulOn B body → ExecEqualsOutside B t s body sc sched

/-- If the value (of whatever type) of a watched key at EXEC differs from its value when WATCH
    was issued (store `s0`), EXEC returns nil and applies nothing.  Concrete store, nobody
    interferes during EXEC. -/
def C05_watch_detects_change : Prop :=
  ∀ (t : ConnTxn Nat KV.Cmd KV.Rep) (s0 s : KV.Store) (k : Nat),
    t.inTxn = true → t.errors = false → (k, KV.backend.getReply s0 k) ∈ t.watched →
    NMap.get s k ≠ NMap.get s0 k →
    step KV.backend [] t s .exec = (ConnTxn.idle, s, .nil)

/-- executor level, trace form with a repeated WATCH: `WATCH k` (store `s0`), … `WATCH k` again
    (store `s1`), `MULTI`, `EXEC` (store `s`): if the value of `k` at EXEC differs from its value
    at the FIRST watch, EXEC returns nil (re-watching a watched key must not forget the change —
    in Redis it is a no-op).  `keepFirst` selects the tree: `false` = pinned commit. -/
def C05_x_rewatch_keeps_first_of (keepFirst : Bool) : Prop :=
  ∀ (s0 s1 s : KV.Store) (k : Nat),
    let t1 := (xstepWith keepFirst KV.xbackend (.simple .ok) ExTxn.idle s0 (.watch [k])).1
    let t2 := (xstepWith keepFirst KV.xbackend (.simple .ok) t1 s1 (.watch [k])).1
    let t3 := (xstepWith keepFirst KV.xbackend (.simple .ok) t2 s1 .multi).1
    NMap.get s k ≠ NMap.get s0 k →
    (xstepWith keepFirst KV.xbackend (.simple .ok) t3 s .exec).2.2 = .nil

/-- … for the current tree -/
def C05_x_rewatch_keeps_first : Prop := C05_x_rewatch_keeps_first_of true

/-! ## between MULTI and EXEC -/

section
variable {σ κ γ ρ : Type} [DecidableEq ρ]

theorem step_body (B : Backend σ κ γ ρ) (sc : List (List γ)) (t : ConnTxn κ γ ρ) (s : σ)
    (i : Input κ γ) (hin : t.inTxn = true) (hi : endsTxn i = false) :
    (step B sc t s i).2.1 = s ∧ (step B sc t s i).1.inTxn = true ∧
    (step B sc t s i).1.watched = t.watched ∧ isQueuedOrErr (step B sc t s i).2.2 = true ∧
    (t.errors = true → (step B sc t s i).1.errors = true) := by
  cases i <;> simp_all [step, endsTxn, isQueuedOrErr]

theorem run_body (B : Backend σ κ γ ρ) (body : List (Input κ γ × List (List γ))) :
    ∀ (t : ConnTxn κ γ ρ) (s : σ), t.inTxn = true → (∀ e ∈ body, endsTxn e.1 = false) →
    (run B t s body).2.1 = s ∧ (run B t s body).1.inTxn = true ∧
    (run B t s body).1.watched = t.watched ∧
    (∀ r ∈ (run B t s body).2.2, isQueuedOrErr r = true) ∧
    (t.errors = true → (run B t s body).1.errors = true) := by
  induction body with
  | nil => intro t s h _; simp [run, h]
  | cons e rest ih =>
    intro t s hin hb
    have he := hb e (by simp)
    obtain ⟨h1, h2, h3, h4, h5⟩ := step_body B e.2 t s e.1 hin he
    have := ih (step B e.2 t s e.1).1 (step B e.2 t s e.1).2.1 h2 (fun x hx => hb x (by simp [hx]))
    obtain ⟨i1, i2, i3, i4, i5⟩ := this
    simp only [run]
    refine ⟨by rw [i1, h1], i2, by rw [i3, h3], ?_, fun h => i5 (h5 h)⟩
    intro r hr
    simp at hr
    rcases hr with hr | hr
    · rw [hr]; exact h4
    · exact i4 r hr

theorem queued_has_no_effect : C05_queued_has_no_effect := by
  intro σ κ γ ρ _ B t s body hin hb
  obtain ⟨a, b, c, d, _⟩ := run_body B body t s hin hb
  exact ⟨a, b, c, d⟩

/-! ## EXEC -/

/-- one result per queued command, under every schedule -/
theorem exec_result_count (B : Backend σ κ γ ρ) (sched : List (List γ)) (t : ConnTxn κ γ ρ) (s : σ)
    (rs : List ρ) (hin : t.inTxn = true) (h : (step B sched t s .exec).2.2 = .results rs) :
    rs.length = t.queue.length := by
  simp only [step, hin, if_true] at h
  split at h
  · simp at h
  · split at h
    · simp at h
    · simp at h
      rw [← h]; exact runQueue_length B t.queue _ _

/-- EXEC when nobody interferes and the watched keys read as they did at WATCH: the consecutive
    run of the queue — store and results — with one result per queued command -/
theorem exec_equals_sequential_partial (B : Backend σ κ γ ρ) (sched : List (List γ))
    (t : ConnTxn κ γ ρ) (s : σ) (hin : t.inTxn = true) (herr : t.errors = false)
    (hq : NoInterleaving sched) (hw : ∀ p ∈ t.watched, B.getReply s p.1 = p.2) :
    step B sched t s .exec =
      (ConnTxn.idle, (runSeq B s t.queue).1, .results (runSeq B s t.queue).2) ∧
    (runSeq B s t.queue).2.length = t.queue.length := by
  obtain ⟨c1, c2, c3⟩ := checkWatch_quiet B t.watched sched s hq
  have hany : (t.watched.any fun p => decide (B.getReply s p.1 ≠ p.2)) = false := by
    simp only [List.any_eq_false]
    intro p hp; simp [hw p hp]
  obtain ⟨r1, r2, r3⟩ := runQueue_quiet B t.queue (checkWatch B sched s t.watched).1 s c1
  refine ⟨?_, runSeq_length B t.queue s⟩
  simp only [step, hin, herr, if_true]
  rw [c3, hany, c2]
  simp only [Bool.false_eq_true, if_false]
  rw [noInterleaving_flatten r1, r2, r3]
  rfl

theorem serialExec_nil (B : Backend σ κ γ ρ) (t : ConnTxn κ γ ρ) (s : σ) :
    serialExec B t s [] [] =
      if t.watched.any (fun p => decide (B.getReply s p.1 ≠ p.2)) then (s, .nil)
      else ((runSeq B s t.queue).1, .results (runSeq B s t.queue).2) := rfl

/-- the same as membership in the serial outcomes: with no interleaving EXEC is (trivially)
    atomic, watch check included -/
theorem exec_atomic_partial [DecidableEq σ] (B : Backend σ κ γ ρ) (sched : List (List γ))
    (t : ConnTxn κ γ ρ) (s : σ) (hin : t.inTxn = true) (herr : t.errors = false)
    (hq : NoInterleaving sched) :
    ((step B sched t s .exec).2.1, (step B sched t s .exec).2.2) ∈
      (splits sched.flatten).map (fun p => serialExec B t s p.1 p.2) := by
  obtain ⟨c1, c2, c3⟩ := checkWatch_quiet B t.watched sched s hq
  obtain ⟨r1, r2, r3⟩ := runQueue_quiet B t.queue (checkWatch B sched s t.watched).1 s c1
  rw [noInterleaving_flatten hq]
  simp only [splits, List.length_nil, Nat.zero_add, List.range_one, List.map_cons, List.map_nil,
    List.take_nil, List.drop_nil, List.mem_singleton]
  rw [serialExec_nil]
  simp only [step, hin, herr, if_true]
  rw [c3, c2]
  cases hany : (t.watched.any fun p => decide (B.getReply s p.1 ≠ p.2))
  · simp only [Bool.false_eq_true, if_false]
    rw [noInterleaving_flatten r1, r2, r3]; rfl
  · simp only [if_true]
    rw [noInterleaving_flatten c1]; rfl

/-! ### the boundary of isolation: where a foreign command must sit to be visible -/

/-- `exec_atomic_partial` under the name the audit uses: no foreign command scheduled inside (or
    around) the EXEC ⇒ the outcome is the single serial outcome `serialExec [] []` (watch check and
    consecutive run in one piece) -/
theorem exec_isolated_of_no_foreign_step [DecidableEq σ] (B : Backend σ κ γ ρ)
    (sched : List (List γ)) (t : ConnTxn κ γ ρ) (s : σ) (hin : t.inTxn = true)
    (herr : t.errors = false) (hq : NoInterleaving sched) :
    ((step B sched t s .exec).2.1, (step B sched t s .exec).2.2) = serialExec B t s [] [] := by
  have h := exec_atomic_partial B sched t s hin herr hq
  rw [noInterleaving_flatten hq] at h
  simpa [splits] using h

/-- foreign commands served BEFORE EXEC's first store access are the same as foreign commands
    served before the EXEC -/
theorem exec_head_slot (B : Backend σ κ γ ρ) (a : List γ) (tl : List (List γ))
    (t : ConnTxn κ γ ρ) (s : σ) (hin : t.inTxn = true) (herr : t.errors = false) :
    step B (a :: tl) t s .exec = step B ([] :: tl) t (foreign B s a) .exec := by
  simp only [step, hin, herr, if_true, Bool.false_eq_true, if_false]
  cases hw : t.watched with
  | cons p rest => obtain ⟨k, old⟩ := p; simp [checkWatch, foreign_nil]
  | nil =>
    cases hqq : t.queue with
    | cons c cs => simp [checkWatch, runQueue, foreign_nil]
    | nil => simp [checkWatch, runQueue, foreign_append]

theorem mem_splits_full {α : Type} (l : List α) : (l, []) ∈ splits l := by
  simp only [splits, List.mem_map, List.mem_range]
  exact ⟨l.length, by omega, by simp⟩

/-- **boundary of `C05_exec_atomic`**: if every foreign command of the schedule is served before
    EXEC's first store access (slot 0), EXEC is atomic — the outcome is the serial outcome "all
    foreign commands first" -/
theorem exec_isolated_of_foreign_before_first_access [DecidableEq σ] (B : Backend σ κ γ ρ)
    (sched : List (List γ)) (t : ConnTxn κ γ ρ) (s : σ) (hin : t.inTxn = true)
    (herr : t.errors = false) (hq : NoInterleaving sched.tail) :
    ((step B sched t s .exec).2.1, (step B sched t s .exec).2.2) ∈
      (splits sched.flatten).map (fun p => serialExec B t s p.1 p.2) := by
  cases sched with
  | nil => exact exec_atomic_partial B [] t s hin herr noInterleaving_nil
  | cons a tl =>
    have htl : NoInterleaving tl := hq
    have hq' : NoInterleaving ([] :: tl) := by
      simp only [NoInterleaving, List.all_cons, List.isEmpty_nil, Bool.true_and]; exact htl
    rw [exec_head_slot B a tl t s hin herr,
      exec_isolated_of_no_foreign_step B ([] :: tl) t (foreign B s a) hin herr hq']
    have hf : (a :: tl).flatten = a := by simp [noInterleaving_flatten htl]
    rw [hf]
    refine List.mem_map.mpr ⟨(a, []), mem_splits_full a, ?_⟩
    rfl

/-- **EXEC can only fail to be atomic through a foreign command served after its first store
    access**: a non-serializable outcome implies that some slot ≥ 1 of the schedule is non-empty -/
theorem not_isolated_only_through_foreign_step [DecidableEq σ] (B : Backend σ κ γ ρ)
    (sched : List (List γ)) (t : ConnTxn κ γ ρ) (s : σ) (hin : t.inTxn = true)
    (herr : t.errors = false)
    (hns : ((step B sched t s .exec).2.1, (step B sched t s .exec).2.2) ∉
      (splits sched.flatten).map (fun p => serialExec B t s p.1 p.2)) :
    ¬ NoInterleaving sched.tail :=
  fun hq => hns (exec_isolated_of_foreign_before_first_access B sched t s hin herr hq)

theorem run_append (B : Backend σ κ γ ρ) (a b : List (Input κ γ × List (List γ))) :
    ∀ (t : ConnTxn κ γ ρ) (s : σ),
      run B t s (a ++ b) =
        ((run B (run B t s a).1 (run B t s a).2.1 b).1,
         (run B (run B t s a).1 (run B t s a).2.1 b).2.1,
         (run B t s a).2.2 ++ (run B (run B t s a).1 (run B t s a).2.1 b).2.2) := by
  induction a with
  | nil => intro t s; rfl
  | cons e rest ih => intro t s; simp [run, ih]

/-- queueing data commands: all QUEUED, appended to the queue, nothing else changes -/
theorem run_queue_cmds (B : Backend σ κ γ ρ) (sc : List (List γ)) (cs : List γ) :
    ∀ (t : ConnTxn κ γ ρ) (s : σ), t.inTxn = true →
      run B t s (cs.map (fun c => (Input.cmd c, sc))) =
        ({ t with queue := t.queue ++ cs }, s, List.replicate cs.length .queued) := by
  induction cs with
  | nil => intro t s _; simp [run]
  | cons c rest ih =>
    intro t s hin
    simp only [List.map_cons, run, step, hin, if_true]
    rw [ih _ _ rfl]
    simp [List.replicate_succ]

/-- the same commands outside MULTI: the consecutive run, replies passed through -/
theorem run_outside_cmds (B : Backend σ κ γ ρ) (sc : List (List γ)) (cs : List γ) :
    ∀ (t : ConnTxn κ γ ρ) (s : σ), t.inTxn = false →
      run B t s (cs.map (fun c => (Input.cmd c, sc))) =
        (t, (runSeq B s cs).1, (runSeq B s cs).2.map .plain) := by
  induction cs with
  | nil => intro t s _; simp [run, runSeq]
  | cons c rest ih =>
    intro t s hout
    simp only [List.map_cons, run, step, hout, Bool.false_eq_true, if_false, runSeq]
    rw [ih _ _ hout]

/-- a whole transaction `MULTI c₁ … cₙ EXEC` with nobody interfering during EXEC: replies
    `OK, QUEUED × n, [r₁ … rₙ]`, and `(store, r₁ … rₙ)` is exactly what the same connection gets
    by sending `c₁ … cₙ` outside MULTI -/
theorem txn_equals_sequential_partial (B : Backend σ κ γ ρ) (t : ConnTxn κ γ ρ) (s : σ)
    (cs : List γ) (sc sched : List (List γ)) (hout : t.inTxn = false) (hw : t.watched = [])
    (hq : NoInterleaving sched) :
    run B t s ((.multi, sc) :: cs.map (fun c => (Input.cmd c, sc)) ++ [(.exec, sched)]) =
      (ConnTxn.idle, (runSeq B s cs).1,
       .ok :: (List.replicate cs.length .queued ++ [.results (runSeq B s cs).2])) ∧
    run B t s (cs.map (fun c => (Input.cmd c, sc))) =
      (t, (runSeq B s cs).1, (runSeq B s cs).2.map .plain) ∧
    (runSeq B s cs).2.length = cs.length := by
  refine ⟨?_, run_outside_cmds B sc cs t s hout, runSeq_length B cs s⟩
  rw [List.cons_append]
  simp only [run]
  have hm : step B sc t s .multi = ({ t with inTxn := true, queue := [], errors := false }, s, .ok) := by
    simp [step, hout]
  rw [hm, run_append, run_queue_cmds B sc cs _ s rfl]
  simp only [run, List.nil_append]
  have := (exec_equals_sequential_partial B sched
    { inTxn := true, queue := cs, errors := false, watched := t.watched } s rfl rfl hq
    (by rw [hw]; intro p hp; simp at hp)).1
  rw [this]

/-- the commands a body of data / connection-level inputs puts on the queue -/
def under {κ γ : Type} : List (Input κ γ) → List γ
  | [] => []
  | .cmd c :: rest => c :: under rest
  | .connLocal c :: rest => c :: under rest
  | _ :: rest => under rest

theorem run_queue_mixed (B : Backend σ κ γ ρ) (sc : List (List γ)) (body : List (Input κ γ)) :
    ∀ (t : ConnTxn κ γ ρ) (s : σ), t.inTxn = true → body.all isCmdOrLocal = true →
      run B t s (body.map (fun i => (i, sc))) =
        ({ t with queue := t.queue ++ under body }, s, List.replicate body.length .queued) := by
  induction body with
  | nil => intro t s _ _; simp [run, under]
  | cons i rest ih =>
    intro t s hin hb
    have h' : isCmdOrLocal i = true ∧ rest.all isCmdOrLocal = true := by simpa using hb
    cases i
    case cmd c =>
      simp only [List.map_cons, run, step, hin, if_true]
      rw [ih _ _ rfl h'.2]
      simp [List.replicate_succ, under]
    case connLocal c =>
      simp only [List.map_cons, run, step, hin, if_true]
      rw [ih _ _ rfl h'.2]
      simp [List.replicate_succ, under]
    all_goals (simp [isCmdOrLocal] at h')

theorem run_outside_mixed (B : Backend σ κ γ ρ) (sc : List (List γ)) (body : List (Input κ γ)) :
    ∀ (t : ConnTxn κ γ ρ) (s : σ), t.inTxn = false → body.all isCmdOrLocal = true →
      LocalFaithfulOn B body →
      run B t s (body.map (fun i => (i, sc))) =
        (t, (runSeq B s (under body)).1, (runSeq B s (under body)).2.map .plain) := by
  induction body with
  | nil => intro t s _ _ _; simp [run, runSeq, under]
  | cons i rest ih =>
    intro t s hout hb hl
    have h' : isCmdOrLocal i = true ∧ rest.all isCmdOrLocal = true := by simpa using hb
    have hl' : LocalFaithfulOn B rest := fun c hc => hl c (List.mem_cons_of_mem _ hc)
    cases i
    case cmd c =>
      simp only [List.map_cons, run, step, hout, Bool.false_eq_true, if_false, runSeq, under]
      rw [ih _ _ hout h'.2 hl']
    case connLocal c =>
      have hc := hl c (by simp)
      simp only [List.map_cons, run, step, hout, Bool.false_eq_true, if_false, runSeq, under]
      rw [ih _ _ hout h'.2 hl', hc s]
    all_goals (simp [isCmdOrLocal] at h')

/-- **full** (`C05_exec_equals_outside`): for bodies of data commands AND connection-level
    commands, EXEC returns per queued command what the same input returns outside MULTI, and
    leaves the same store — given the dispatcher contract `LocalFaithfulOn` (which the pinned
    commit's EXEC loop did not meet: `connection_level_command_pinned_counterexample`) -/
theorem exec_equals_outside : C05_exec_equals_outside := by
  intro σ κ γ ρ _ B t s body sc sched hout hw hb hq hl
  unfold ExecEqualsOutside
  rw [run_outside_mixed B sc body t s hout hb hl]
  rw [List.cons_append]
  simp only [run]
  have hm : step B sc t s .multi = ({ t with inTxn := true, queue := [], errors := false }, s, .ok) := by
    simp [step, hout]
  rw [hm, run_append, run_queue_mixed B sc body _ s rfl hb]
  simp only [run, List.nil_append]
  have := (exec_equals_sequential_partial B sched
    { inTxn := true, queue := under body, errors := false, watched := t.watched } s rfl rfl hq
    (by rw [hw]; intro p hp; simp at hp)).1
  rw [this]
  refine ⟨rfl, ?_⟩
  have hl2 : ∀ (a : Reply ρ) (l : List (Reply ρ)) (x : Reply ρ), (a :: (l ++ [x])).getLast? = some x := by
    intro a l x
    rw [← List.cons_append, List.getLast?_concat]
  rw [hl2]
  simp [List.filterMap_map, Function.comp_def, unplain]

/-- bodies of data commands only need no contract at all -/
theorem exec_equals_outside_partial (B : Backend σ κ γ ρ) (t : ConnTxn κ γ ρ) (s : σ)
    (body : List (Input κ γ)) (sc sched : List (List γ))
    (hout : t.inTxn = false) (hw : t.watched = []) (hb : AllCmd body) (hq : NoInterleaving sched) :
    ExecEqualsOutside B t s body sc sched := by
  have hb' : body.all isCmdOrLocal = true := by
    simp only [AllCmd, List.all_eq_true] at hb ⊢
    intro i hi
    have := hb i hi
    cases i <;> simp_all [isCmd, isCmdOrLocal]
  have hl : LocalFaithfulOn B body := by
    intro c hc
    simp only [AllCmd, List.all_eq_true] at hb
    have := hb _ hc
    simp [isCmd] at this
  exact exec_equals_outside σ κ γ ρ B t s body sc sched hout hw hb' hq hl

/-! ## DISCARD, EXECABORT, failed WATCH: nothing of the transaction reaches the store -/

theorem discard_leaves_store (B : Backend σ κ γ ρ) (sched : List (List γ)) (t : ConnTxn κ γ ρ)
    (s : σ) (hin : t.inTxn = true) :
    step B sched t s .discard = (ConnTxn.idle, s, .ok) := by
  simp [step, hin]

/-- `MULTI body DISCARD`, for every body: store untouched, state reset (watches dropped) -/
theorem discard_txn_leaves_store (B : Backend σ κ γ ρ) (t : ConnTxn κ γ ρ) (s : σ)
    (body : List (Input κ γ × List (List γ))) (sc sched : List (List γ))
    (hout : t.inTxn = false) (hb : ∀ e ∈ body, endsTxn e.1 = false) :
    (run B t s ((.multi, sc) :: body ++ [(.discard, sched)])).1 = ConnTxn.idle ∧
    (run B t s ((.multi, sc) :: body ++ [(.discard, sched)])).2.1 = s := by
  rw [List.cons_append]
  simp only [run]
  have hm : step B sc t s .multi = ({ t with inTxn := true, queue := [], errors := false }, s, .ok) := by
    simp [step, hout]
  rw [hm, run_append]
  obtain ⟨a, b, _⟩ := run_body B body { t with inTxn := true, queue := [], errors := false } s rfl hb
  simp only [run]
  rw [discard_leaves_store B sched _ _ b]
  exact ⟨rfl, a⟩

/-- EXEC after a queue-time error, under every schedule: EXECABORT, and the store holds the other
    clients' commands only -/
theorem execabort_leaves_store (B : Backend σ κ γ ρ) (sched : List (List γ)) (t : ConnTxn κ γ ρ)
    (s : σ) (hin : t.inTxn = true) (herr : t.errors = true) :
    step B sched t s .exec = (ConnTxn.idle, foreign B s sched.flatten, .err .execAbort) := by
  simp [step, hin, herr]

/-- the inputs that are refused at queue time -/
def queueTimeError {κ γ : Type} : Input κ γ → Bool
  | .unknown _ => true
  | .chanStub _ => true
  | .parseErr => true
  | _ => false

theorem queue_time_error_flags (B : Backend σ κ γ ρ) (sc : List (List γ)) (t : ConnTxn κ γ ρ)
    (s : σ) (i : Input κ γ) (hin : t.inTxn = true) (hi : queueTimeError i = true) :
    (step B sc t s i).1.errors = true ∧ (step B sc t s i).1.inTxn = true ∧
    (step B sc t s i).2.1 = s ∧ ∃ e, (step B sc t s i).2.2 = .err e := by
  cases i <;> simp_all [step, queueTimeError]

/-- `MULTI b₁ bad b₂ EXEC`: whatever else is in the body, one refused input makes EXEC answer
    EXECABORT and the store holds the other clients' commands only -/
theorem execabort_txn_leaves_store (B : Backend σ κ γ ρ) (t : ConnTxn κ γ ρ) (s : σ)
    (b1 b2 : List (Input κ γ × List (List γ))) (bad : Input κ γ) (sc sc' sched : List (List γ))
    (hout : t.inTxn = false) (h1 : ∀ e ∈ b1, endsTxn e.1 = false)
    (h2 : ∀ e ∈ b2, endsTxn e.1 = false) (hbad : queueTimeError bad = true) :
    (run B t s ((.multi, sc) :: (b1 ++ (bad, sc') :: b2) ++ [(.exec, sched)])).2.1 =
      foreign B s sched.flatten ∧
    (run B t s ((.multi, sc) :: (b1 ++ (bad, sc') :: b2) ++ [(.exec, sched)])).2.2.getLast? =
      some (.err .execAbort) := by
  rw [List.cons_append]
  simp only [run]
  have hm : step B sc t s .multi = ({ t with inTxn := true, queue := [], errors := false }, s, .ok) := by
    simp [step, hout]
  rw [hm, run_append, run_append]
  obtain ⟨a1, a2, _, _, _⟩ :=
    run_body B b1 { t with inTxn := true, queue := [], errors := false } s rfl h1
  generalize run B { t with inTxn := true, queue := [], errors := false } s b1 = r1 at a1 a2 ⊢
  simp only [run]
  obtain ⟨f1, f2, f3, _⟩ := queue_time_error_flags B sc' r1.1 r1.2.1 bad a2 hbad
  generalize step B sc' r1.1 r1.2.1 bad = r2 at f1 f2 f3 ⊢
  obtain ⟨g1, g2, _, _, g5⟩ := run_body B b2 r2.1 r2.2.1 f2 h2
  generalize run B r2.1 r2.2.1 b2 = r3 at g1 g2 g5 ⊢
  rw [execabort_leaves_store B sched r3.1 r3.2.1 g2 (g5 f1)]
  refine ⟨by rw [g1, f3, a1], ?_⟩
  have hl : ∀ (a : Reply ρ) (l1 : List (Reply ρ)) (b : Reply ρ) (l2 : List (Reply ρ)) (x : Reply ρ),
      (a :: (l1 ++ b :: l2 ++ [x])).getLast? = some x := by
    intro a l1 b l2 x
    have : a :: (l1 ++ b :: l2 ++ [x]) = (a :: (l1 ++ b :: l2)) ++ [x] := by simp
    rw [this, List.getLast?_concat]
  exact hl _ _ _ _ _

/-- EXEC whose watch check fails, under every schedule: nil, and the store holds the other
    clients' commands only -/
theorem watchfail_leaves_store (B : Backend σ κ γ ρ) (sched : List (List γ)) (t : ConnTxn κ γ ρ)
    (s : σ) (hin : t.inTxn = true) (herr : t.errors = false)
    (hf : (checkWatch B sched s t.watched).2.2 = true) :
    step B sched t s .exec = (ConnTxn.idle, foreign B s sched.flatten, .nil) := by
  simp only [step, hin, herr, if_true, Bool.false_eq_true, if_false, hf]
  rw [checkWatch_foreign]

/-! ## WATCH -/

/-- WATCH stores, per key, the reply of GET at that moment (appended; earlier snapshots stay) -/
theorem watch_snapshot_is_get (B : Backend σ κ γ ρ) (sc : List (List γ)) (t : ConnTxn κ γ ρ)
    (s : σ) (ks : List κ) (hout : t.inTxn = false) :
    step B sc t s (.watch ks) =
      ({ t with watched := t.watched ++ ks.map (fun k => (k, B.getReply s k)) }, s, .ok) := by
  simp [step, hout]

/-- a repeated WATCH of the same key keeps the earlier snapshot (connection level): both are
    compared at EXEC -/
theorem rewatch_keeps_first_snapshot (B : Backend σ κ γ ρ) (sc : List (List γ)) (t : ConnTxn κ γ ρ)
    (s : σ) (ks : List κ) (p : κ × ρ) (hout : t.inTxn = false) (hp : p ∈ t.watched) :
    p ∈ (step B sc t s (.watch ks)).1.watched := by
  rw [watch_snapshot_is_get B sc t s ks hout]
  simp [hp]

/-- if the GET-visible value of a watched key at EXEC differs from its snapshot, EXEC returns nil
    and applies nothing -/
theorem watch_detects_change_partial (B : Backend σ κ γ ρ) (sched : List (List γ))
    (t : ConnTxn κ γ ρ) (s : σ) (k : κ) (old : ρ) (hin : t.inTxn = true) (herr : t.errors = false)
    (hq : NoInterleaving sched) (hm : (k, old) ∈ t.watched) (hd : B.getReply s k ≠ old) :
    step B sched t s .exec = (ConnTxn.idle, s, .nil) := by
  obtain ⟨_, _, c3⟩ := checkWatch_quiet B t.watched sched s hq
  have hf : (checkWatch B sched s t.watched).2.2 = true := by
    rw [c3, List.any_eq_true]
    exact ⟨(k, old), hm, by simp [hd]⟩
  rw [watchfail_leaves_store B sched t s hin herr hf, noInterleaving_flatten hq]
  rfl


/-- **exact boundary of the WATCH abort** (nobody interferes during EXEC): EXEC answers nil iff
    the GET reply of some watched key differs from its snapshot — no spurious abort, no missed
    GET-visible change -/
theorem exec_aborts_iff_partial (B : Backend σ κ γ ρ) (sched : List (List γ)) (t : ConnTxn κ γ ρ)
    (s : σ) (hin : t.inTxn = true) (herr : t.errors = false) (hq : NoInterleaving sched) :
    (step B sched t s .exec).2.2 = .nil ↔ ∃ p ∈ t.watched, B.getReply s p.1 ≠ p.2 := by
  constructor
  · intro h
    false_or_by_contra
    rename_i hno
    have hw : ∀ p ∈ t.watched, B.getReply s p.1 = p.2 := by
      intro p hp
      false_or_by_contra
      rename_i hne
      exact hno ⟨p, hp, hne⟩
    rw [(exec_equals_sequential_partial B sched t s hin herr hq hw).1] at h
    simp at h
  · rintro ⟨⟨k, old⟩, hm, hd⟩
    rw [watch_detects_change_partial B sched t s k old hin herr hq hm hd]

/-! ### WATCH … MULTI … EXEC as a trace, with the other clients' commands between the inputs -/

/-- an event seen by the store: an input of the modelled connection (with the other clients'
    schedule during it) or a command of another client between two inputs -/
inductive Event (κ γ : Type) where
  | inp (i : Input κ γ) (sc : List (List γ))
  | other (c : γ)

def runE (B : Backend σ κ γ ρ) :
    ConnTxn κ γ ρ → σ → List (Event κ γ) → ConnTxn κ γ ρ × σ
  | t, s, [] => (t, s)
  | t, s, .inp i sc :: rest => runE B (step B sc t s i).1 (step B sc t s i).2.1 rest
  | t, s, .other c :: rest => runE B t (B.exec s c).1 rest

/-- events that keep the watch list while the connection is outside MULTI: anything but MULTI
    and UNWATCH (EXEC / DISCARD outside MULTI are errors and change nothing) -/
def keepsOutside : Event κ γ → Bool
  | .inp .multi _ => false
  | .inp .unwatch _ => false
  | _ => true

/-- events that keep the transaction open: anything but EXEC and DISCARD -/
def keepsInside : Event κ γ → Bool
  | .inp i _ => !endsTxn i
  | .other _ => true

theorem runE_outside (B : Backend σ κ γ ρ) (p : κ × ρ) (evs : List (Event κ γ)) :
    ∀ (t : ConnTxn κ γ ρ) (s : σ), t.inTxn = false → p ∈ t.watched →
      (∀ e ∈ evs, keepsOutside e = true) →
      (runE B t s evs).1.inTxn = false ∧ p ∈ (runE B t s evs).1.watched := by
  induction evs with
  | nil => intro t s h hp _; exact ⟨h, hp⟩
  | cons e rest ih =>
    intro t s hout hp hall
    have he := hall e (by simp)
    have hr := fun x hx => hall x (List.mem_cons_of_mem e hx)
    cases e with
    | other c => exact ih t _ hout hp hr
    | inp i sc =>
      simp only [runE]
      apply ih _ _ _ _ hr
      · cases i <;> simp_all [step, keepsOutside]
      · cases i <;> simp_all [step, keepsOutside]

theorem runE_inside (B : Backend σ κ γ ρ) (p : κ × ρ) (evs : List (Event κ γ)) :
    ∀ (t : ConnTxn κ γ ρ) (s : σ), t.inTxn = true → p ∈ t.watched →
      (∀ e ∈ evs, keepsInside e = true) →
      (runE B t s evs).1.inTxn = true ∧ p ∈ (runE B t s evs).1.watched := by
  induction evs with
  | nil => intro t s h hp _; exact ⟨h, hp⟩
  | cons e rest ih =>
    intro t s hin hp hall
    have he := hall e (by simp)
    have hr := fun x hx => hall x (List.mem_cons_of_mem e hx)
    cases e with
    | other c => exact ih t _ hin hp hr
    | inp i sc =>
      simp only [runE]
      have hi : endsTxn i = false := by simpa [keepsInside] using he
      obtain ⟨_, h2, h3, _⟩ := step_body B sc t s i hin hi
      exact ih _ _ h2 (by rw [h3]; exact hp) hr

theorem runE_append (B : Backend σ κ γ ρ) (a b : List (Event κ γ)) :
    ∀ (t : ConnTxn κ γ ρ) (s : σ),
      runE B t s (a ++ b) = runE B (runE B t s a).1 (runE B t s a).2 b := by
  induction a with
  | nil => intro t s; rfl
  | cons e rest ih => intro t s; cases e <;> simp [runE, ih]

/-- `WATCH … k …` at store `s0`; then anything but MULTI/UNWATCH, interleaved with any commands of
    other clients; `MULTI`; then any body, again interleaved with other clients; `EXEC` with
    nobody interfering during it: if GET of `k` now answers differently than at WATCH time, EXEC
    applies nothing and answers nil (or EXECABORT when the body contained a refused input) -/
theorem watch_txn_detects_change_partial (B : Backend σ κ γ ρ) (t : ConnTxn κ γ ρ) (s0 : σ)
    (ks : List κ) (k : κ) (mid body : List (Event κ γ)) (sc sc' sched : List (List γ))
    (hout : t.inTxn = false) (hk : k ∈ ks)
    (hmid : ∀ e ∈ mid, keepsOutside e = true) (hbody : ∀ e ∈ body, keepsInside e = true)
    (hq : NoInterleaving sched) :
    let r := runE B t s0 (.inp (.watch ks) sc :: mid ++ [.inp .multi sc'] ++ body)
    B.getReply r.2 k ≠ B.getReply s0 k →
    (step B sched r.1 r.2 .exec).2.1 = r.2 ∧
    ((step B sched r.1 r.2 .exec).2.2 = .nil ∨ (step B sched r.1 r.2 .exec).2.2 = .err .execAbort) := by
  intro r hd
  have hr : r = runE B t s0 (.inp (.watch ks) sc :: mid ++ [.inp .multi sc'] ++ body) := rfl
  rw [List.cons_append, List.cons_append] at hr
  simp only [runE] at hr
  rw [watch_snapshot_is_get B sc t s0 ks hout, List.append_assoc, runE_append] at hr
  have hp0 : (k, B.getReply s0 k) ∈
      ({ t with watched := t.watched ++ ks.map (fun k => (k, B.getReply s0 k)) } : ConnTxn κ γ ρ).watched := by
    simp only [List.mem_append, List.mem_map]
    exact Or.inr ⟨k, hk, rfl⟩
  obtain ⟨m1, m2⟩ := runE_outside B (k, B.getReply s0 k) mid
    { t with watched := t.watched ++ ks.map (fun k => (k, B.getReply s0 k)) } s0 hout hp0 hmid
  generalize runE B { t with watched := t.watched ++ ks.map (fun k => (k, B.getReply s0 k)) } s0 mid = rm at hr m1 m2
  simp only [List.cons_append, List.nil_append, runE] at hr
  have hm : step B sc' rm.1 rm.2 .multi =
      ({ rm.1 with inTxn := true, queue := [], errors := false }, rm.2, .ok) := by simp [step, m1]
  rw [hm] at hr
  obtain ⟨b1, b2⟩ := runE_inside B (k, B.getReply s0 k) body
    { rm.1 with inTxn := true, queue := [], errors := false } rm.2 rfl m2 hbody
  rw [← hr] at b1 b2
  cases herr : r.1.errors with
  | true =>
    rw [execabort_leaves_store B sched r.1 r.2 b1 herr, noInterleaving_flatten hq]
    exact ⟨rfl, Or.inr rfl⟩
  | false =>
    rw [watch_detects_change_partial B sched r.1 r.2 k _ b1 herr hq b2 hd]
    exact ⟨rfl, Or.inl rfl⟩

end

/-- the key is a string or missing -/
def strOrMissing (s : KV.Store) (k : Nat) : Bool :=
  match NMap.get s k with
  | some (.str _) => true
  | none => true
  | _ => false

theorem get_reply_faithful (s0 s : KV.Store) (k : Nat) (hv : NMap.get s k ≠ NMap.get s0 k)
    (hs : strOrMissing s0 k = true ∨ strOrMissing s k = true) :
    KV.backend.getReply s k ≠ KV.backend.getReply s0 k := by
  simp only [KV.backend, KV.backendWith, KV.execWith, strOrMissing] at *
  cases h0 : NMap.get s0 k with
  | none =>
    cases h1 : NMap.get s k with
    | none => simp [h0, h1] at hv
    | some v1 => cases v1 <;> simp
  | some v0 =>
    cases h1 : NMap.get s k with
    | none => cases v0 <;> simp
    | some v1 =>
      cases v0 <;> cases v1 <;> simp_all

/-- the key holds a non-string value (list, hash, set or sorted set) -/
def nonString (s : KV.Store) (k : Nat) : Bool := !strOrMissing s k

/-- **exact characterisation of what the connection-level GET-reply snapshot sees** (concrete
    store): the snapshot comparison detects a change of the value of `k` between `s0` (WATCH) and
    `s` (EXEC) iff the value differs and the key is not a NON-STRING value (list, hash, set, sorted
    set) at BOTH moments.  Invisible transitions are exactly non-string → different non-string
    (element added / removed / replaced, field value, score, type change among list / hash / set /
    zset: the GET reply is the constant WRONGTYPE error at both moments); every transition that
    involves a string or a missing key on either side is detected. -/
theorem watch_detects_iff (s0 s : KV.Store) (k : Nat) :
    KV.backend.getReply s k ≠ KV.backend.getReply s0 k ↔
      (NMap.get s k ≠ NMap.get s0 k ∧ ¬ (nonString s0 k = true ∧ nonString s k = true)) := by
  simp only [KV.backend, KV.backendWith, KV.execWith, nonString, strOrMissing]
  cases h0 : NMap.get s0 k with
  | none =>
    cases h1 : NMap.get s k with
    | none => simp
    | some v1 => cases v1 <;> simp
  | some v0 =>
    cases h1 : NMap.get s k with
    | none => cases v0 <;> simp
    | some v1 => cases v0 <;> cases v1 <;> simp

/-- hence, with nobody interfering during EXEC, a watched key whose value changed is missed
    exactly when it was a list at WATCH time and is a (different) list at EXEC time — and all
    other snapshots still match -/
theorem exec_proceeds_on_list_change (t : ConnTxn Nat KV.Cmd KV.Rep) (s0 s : KV.Store) (k : Nat)
    (hin : t.inTxn = true) (herr : t.errors = false)
    (hw : t.watched = [(k, KV.backend.getReply s0 k)]) :
    (step KV.backend [] t s .exec).2.2 ≠ .nil ↔
      (NMap.get s k = NMap.get s0 k ∨ (nonString s0 k = true ∧ nonString s k = true)) := by
  rw [Ne, exec_aborts_iff_partial KV.backend [] t s hin herr noInterleaving_nil, hw]
  simp only [List.mem_singleton, exists_eq_left]
  rw [watch_detects_iff]
  by_cases h1 : NMap.get s k = NMap.get s0 k <;> simp [h1]

/-- concrete store: every change of a watched key that is a string or missing before or after
    (set, overwritten, appended, incremented, deleted, created, replaced by a list, a list replaced
    by a string) makes EXEC return nil and apply nothing -/
theorem watch_detects_change_strings_partial (t : ConnTxn Nat KV.Cmd KV.Rep) (s0 s : KV.Store)
    (k : Nat) (hin : t.inTxn = true) (herr : t.errors = false)
    (hm : (k, KV.backend.getReply s0 k) ∈ t.watched) (hv : NMap.get s k ≠ NMap.get s0 k)
    (hs : strOrMissing s0 k = true ∨ strOrMissing s k = true) :
    step KV.backend [] t s .exec = (ConnTxn.idle, s, .nil) :=
  watch_detects_change_partial KV.backend [] t s k _ hin herr noInterleaving_nil hm
    (get_reply_faithful s0 s k hv hs)

/-! ## decision table (connection level) -/

section
variable {σ κ γ ρ : Type} [DecidableEq ρ]
variable (B : Backend σ κ γ ρ) (sc : List (List γ)) (t : ConnTxn κ γ ρ) (s : σ)

/-- MULTI outside: enters the transaction with an empty queue; the watch list is kept -/
theorem table_multi (h : t.inTxn = false) :
    step B sc t s .multi = ({ t with inTxn := true, queue := [], errors := false }, s, .ok) := by
  simp [step, h]

/-- nested MULTI: error, nothing changes (the transaction goes on and is NOT flagged) -/
theorem table_nested_multi (h : t.inTxn = true) :
    step B sc t s .multi = (t, s, .err .nestedMulti) := by
  simp [step, h]

/-- WATCH inside MULTI: error, nothing changes (not flagged, nothing watched) -/
theorem table_watch_in_multi (ks : List κ) (h : t.inTxn = true) :
    step B sc t s (.watch ks) = (t, s, .err .watchInMulti) := by
  simp [step, h]

theorem table_exec_without_multi (h : t.inTxn = false) :
    step B sc t s .exec = (t, s, .err .execWithoutMulti) := by
  simp [step, h]

/-- DISCARD outside: error; in particular the watch list is kept -/
theorem table_discard_without_multi (h : t.inTxn = false) :
    step B sc t s .discard = (t, s, .err .discardWithoutMulti) := by
  simp [step, h]

/-- unknown command at queue time: error reply, transaction flagged, nothing queued -/
theorem table_unknown_in_multi (c : γ) (h : t.inTxn = true) :
    step B sc t s (.unknown c) = ({ t with errors := true }, s, .err .unknownInMulti) := by
  simp [step, h]

/-- arity / syntax error at queue time: error reply, transaction flagged, nothing queued -/
theorem table_parse_error_in_multi (h : t.inTxn = true) :
    step B sc t s .parseErr = ({ t with errors := true }, s, .err .parse) := by
  simp [step, h]

/-- arity / syntax error outside: error reply, nothing else -/
theorem table_parse_error_outside (h : t.inTxn = false) :
    step B sc t s .parseErr = (t, s, .err .parse) := by
  simp [step, h]

/-- unknown command outside: the executor answers (with its own error) -/
theorem table_unknown_outside (c : γ) (h : t.inTxn = false) :
    step B sc t s (.unknown c) = (t, (B.exec s c).1, .plain (B.exec s c).2) := by
  simp [step, h]

/-- UNWATCH outside drops every snapshot; inside MULTI it is queued like a data command -/
theorem table_unwatch (h : t.inTxn = false) :
    step B sc t s .unwatch = ({ t with watched := [] }, s, .ok) := by
  simp [step, h]

theorem table_unwatch_in_multi (h : t.inTxn = true) :
    step B sc t s .unwatch = ({ t with queue := t.queue ++ [B.unwatchCmd] }, s, .queued) := by
  simp [step, h]

/-- connection-level commands: answered by the connection outside MULTI, queued inside (and
    answered by the EXEC loop's dispatcher `B.exec` — see `exec_equals_outside`) -/
theorem table_conn_local (c : γ) :
    step B sc t s (.connLocal c) =
      if t.inTxn then ({ t with queue := t.queue ++ [c] }, s, .queued)
      else (t, s, .plain (B.localReply c)) := by
  cases h : t.inTxn <;> simp [step, h]

/-- after EXEC (every branch) and DISCARD the state is idle: queue, flag and watch list cleared -/
theorem table_exec_resets (h : t.inTxn = true) : (step B sc t s .exec).1 = ConnTxn.idle := by
  simp only [step, h, if_true]
  split
  · rfl
  · split <;> rfl

end

/-! ## counterexamples: what the code as it is violates (each replayed on the real code by the
harness as a fixed corpus case) -/

/-- a list key `w = [1]` is watched (its snapshot is the WRONGTYPE error), another client pushes
    `2`, then `MULTI; SET x 1; EXEC` succeeds: `*1 +OK` instead of nil -/
theorem watch_nonstring_counterexample : ¬ C05_watch_detects_change := by
  intro h
  have := h { inTxn := true, queue := [.set 2 [49]], errors := false,
              watched := [(1, .err .wrongType)] }
    [(1, .list [[49]])] [(1, .list [[49], [50]])] 1 rfl rfl (by decide) (by decide)
  revert this
  decide

/-- the same run, spelled out as a trace: WATCH w; (other client: RPUSH w 2); MULTI; SET x 1; EXEC -/
example :
    let s0 : KV.Store := [(1, .list [[49]])]
    let r1 := run KV.backend ConnTxn.idle s0 [(.watch [1], [])]
    let s1 := foreign KV.backend r1.2.1 [.rpush 1 [[50]]]
    (run KV.backend r1.1 s1 [(.multi, []), (.cmd (.set 2 [49]), []), (.exec, [])]).2.2 =
      [.ok, .queued, .results [.simple .ok]] := by decide

/-- `MULTI; SET k 1; GET k; EXEC` while another client's `SET k 2` is served between the two
    queued commands: EXEC answers `[OK, "2"]` — no atomic EXEC before or after the foreign write
    produces that -/
theorem exec_not_isolated_counterexample : ¬ C05_exec_atomic := by
  intro h
  have := h KV.Store Nat KV.Cmd KV.Rep KV.backend
    { inTxn := true, queue := [.set 1 [49], .get 1], errors := false, watched := [] }
    [] [[], [.set 1 [50]]] rfl rfl
  revert this
  decide

/-- `WATCH k` (k = "0"); `MULTI; GET k; EXEC` while another client's `SET k F` is served between
    the watch comparison and the first queued command: EXEC succeeds and returns the foreign
    value although the watched key no longer has its WATCH-time value when the queue runs -/
theorem watched_key_changed_after_check_counterexample : ¬ C05_exec_atomic := by
  intro h
  have := h KV.Store Nat KV.Cmd KV.Rep KV.backend
    { inTxn := true, queue := [.get 1], errors := false, watched := [(1, .bulk (some [48]))] }
    [(1, .str [48])] [[], [.set 1 [70]]] rfl rfl
  revert this
  decide

/-- the concrete store's dispatcher (current tree) meets the contract for every connection-level
    command it knows -/
theorem kv_local_faithful (body : List (Input Nat KV.Cmd))
    (h : ∀ c, Input.connLocal c ∈ body → ∃ l, c = .loc l) : LocalFaithfulOn KV.backend body := by
  intro c hc s
  obtain ⟨l, rfl⟩ := h c hc
  cases l <;> rfl

/-- hence on the concrete store (current tree) `MULTI; …; AUTH x; …; EXEC` answers what the same
    inputs answer outside MULTI — in particular `MULTI; AUTH x; EXEC` = `[+OK]` -/
theorem kv_exec_equals_outside (t : ConnTxn Nat KV.Cmd KV.Rep) (s : KV.Store)
    (body : List (Input Nat KV.Cmd)) (sc sched : List (List KV.Cmd))
    (hout : t.inTxn = false) (hw : t.watched = []) (hb : body.all isCmdOrLocal = true)
    (hl : ∀ c, Input.connLocal c ∈ body → ∃ l, c = .loc l) (hq : NoInterleaving sched) :
    ExecEqualsOutside KV.backend t s body sc sched :=
  exec_equals_outside _ _ _ _ KV.backend t s body sc sched hout hw hb hq (kv_local_faithful body hl)

/-- PINNED commit (before the `fix:` commit; `KV.backendWith false` = every queued command goes to
    the shard executor): `MULTI; AUTH x; EXEC` answered `[-ERR AUTH is handled at connection
    level …]` whereas `AUTH x` outside MULTI answers `+OK` -/
theorem connection_level_command_pinned_counterexample :
    ¬ ExecEqualsOutside (KV.backendWith false) ConnTxn.idle [] [.connLocal (.loc .auth)] [] [] := by
  unfold ExecEqualsOutside
  decide

/-! ## executor level (`transaction_ops.rs`): everything holds at full strength -/

section
variable {σ κ γ ρ ν : Type} [DecidableEq κ] [DecidableEq ν]

def xendsTxn : XInput κ γ → Bool
  | .exec => true
  | .discard => true
  | _ => false

def xisQueuedOrErr : XReply ρ → Bool
  | .queued => true
  | .err _ => true
  | _ => false

theorem x_step_body (X : XBackend σ κ γ ρ ν) (okR : ρ) (t : ExTxn κ γ ν) (s : σ) (i : XInput κ γ)
    (hin : t.inTxn = true) (hi : xendsTxn i = false) :
    (xstep X okR t s i).2.1 = s ∧ (xstep X okR t s i).1.inTxn = true ∧
    (xstep X okR t s i).1.watched = t.watched ∧ xisQueuedOrErr (xstep X okR t s i).2.2 = true := by
  cases i <;> simp_all [xstep, xstepWith, xendsTxn, xisQueuedOrErr]

/-- executor level: between MULTI and EXEC/DISCARD every input leaves the store alone and is
    answered QUEUED or with an error -/
theorem x_queued_has_no_effect (X : XBackend σ κ γ ρ ν) (okR : ρ) (body : List (XInput κ γ)) :
    ∀ (t : ExTxn κ γ ν) (s : σ), t.inTxn = true → (∀ e ∈ body, xendsTxn e = false) →
    (xrun X okR t s body).2.1 = s ∧ (xrun X okR t s body).1.inTxn = true ∧
    (xrun X okR t s body).1.watched = t.watched ∧
    ∀ r ∈ (xrun X okR t s body).2.2, xisQueuedOrErr r = true := by
  induction body with
  | nil => intro t s h _; simp [xrun, h]
  | cons e rest ih =>
    intro t s hin hb
    obtain ⟨h1, h2, h3, h4⟩ := x_step_body X okR t s e hin (hb e (by simp))
    obtain ⟨i1, i2, i3, i4⟩ :=
      ih (xstep X okR t s e).1 (xstep X okR t s e).2.1 h2 (fun x hx => hb x (by simp [hx]))
    simp only [xrun]
    refine ⟨by rw [i1, h1], i2, by rw [i3, h3], ?_⟩
    intro r hr
    simp at hr
    rcases hr with hr | hr
    · rw [hr]; exact h4
    · exact i4 r hr

omit [DecidableEq κ] [DecidableEq ν] in
theorem xrunQueue_length (X : XBackend σ κ γ ρ ν) (okR : ρ) (q : List (XQ γ)) :
    ∀ (s : σ), (xrunQueue X okR s q).2.length = q.length := by
  induction q with
  | nil => intro s; rfl
  | cons c cs ih => intro s; cases c <;> simp [xrunQueue, ih]

theorem xstep_exec (X : XBackend σ κ γ ρ ν) (okR : ρ) (t : ExTxn κ γ ν) (s : σ)
    (hin : t.inTxn = true) :
    xstep X okR t s .exec =
      if t.watched.any (fun p => decide (X.value s p.1 ≠ p.2)) then (ExTxn.idle, s, .nil)
      else (ExTxn.idle, (xrunQueue X okR s t.queue).1, .results (xrunQueue X okR s t.queue).2) := by
  simp only [xstep, xstepWith, hin, if_true]

/-- executor level EXEC with unchanged watched keys: the consecutive run of the queue (there is
    no await: nothing can interleave), one result per queued command -/
theorem x_exec_equals_sequential (X : XBackend σ κ γ ρ ν) (okR : ρ) (t : ExTxn κ γ ν) (s : σ)
    (hin : t.inTxn = true) (hw : ∀ p ∈ t.watched, X.value s p.1 = p.2) :
    xstep X okR t s .exec =
      (ExTxn.idle, (xrunQueue X okR s t.queue).1, .results (xrunQueue X okR s t.queue).2) ∧
    (xrunQueue X okR s t.queue).2.length = t.queue.length := by
  have hany : (t.watched.any fun p => decide (X.value s p.1 ≠ p.2)) = false := by
    simp only [List.any_eq_false]
    intro p hp; simp [hw p hp]
  refine ⟨?_, xrunQueue_length X okR t.queue s⟩
  rw [xstep_exec X okR t s hin, hany]
  rfl

/-- executor level: ANY change of the value of a watched key (any type) aborts EXEC, which
    applies nothing -/
theorem x_watch_detects_change (X : XBackend σ κ γ ρ ν) (okR : ρ) (t : ExTxn κ γ ν) (s : σ)
    (k : κ) (v0 : Option ν) (hin : t.inTxn = true) (hm : (k, v0) ∈ t.watched)
    (hd : X.value s k ≠ v0) :
    xstep X okR t s .exec = (ExTxn.idle, s, .nil) := by
  have hany : (t.watched.any fun p => decide (X.value s p.1 ≠ p.2)) = true := by
    rw [List.any_eq_true]; exact ⟨(k, v0), hm, by simp [hd]⟩
  rw [xstep_exec X okR t s hin, hany]
  rfl

/-- **executor level, exact boundary** (any backend, any value type): EXEC answers nil ⇔ the
    stored value of some watched key differs from its snapshot — the snapshot is the whole value
    (`Option<Value>` compared with `!=`), nothing of it is invisible -/
theorem x_watch_detects_iff (X : XBackend σ κ γ ρ ν) (okR : ρ) (t : ExTxn κ γ ν) (s : σ)
    (hin : t.inTxn = true) :
    (xstep X okR t s .exec).2.2 = .nil ↔ ∃ p ∈ t.watched, X.value s p.1 ≠ p.2 := by
  rw [xstep_exec X okR t s hin]
  cases hany : (t.watched.any fun p => decide (X.value s p.1 ≠ p.2))
  · simp only [Bool.false_eq_true, if_false]
    constructor
    · intro h; simp at h
    · rintro ⟨p, hp, hd⟩
      have := List.any_eq_false.mp hany p hp
      simp [hd] at this
  · simp only [if_true, true_iff]
    obtain ⟨p, hp, hd⟩ := List.any_eq_true.mp hany
    exact ⟨p, hp, by simpa using hd⟩

theorem x_watchfail_leaves_store (X : XBackend σ κ γ ρ ν) (okR : ρ) (t : ExTxn κ γ ν) (s : σ)
    (hin : t.inTxn = true) (h : (xstep X okR t s .exec).2.2 = .nil) :
    (xstep X okR t s .exec).2.1 = s := by
  rw [xstep_exec X okR t s hin] at h ⊢
  revert h
  cases (t.watched.any fun p => decide (X.value s p.1 ≠ p.2)) <;> simp

theorem x_discard_leaves_store (X : XBackend σ κ γ ρ ν) (okR : ρ) (t : ExTxn κ γ ν) (s : σ)
    (hin : t.inTxn = true) : xstep X okR t s .discard = (ExTxn.idle, s, .ok) := by
  simp [xstep, xstepWith, hin]

omit [DecidableEq ν] in
theorem mem_putIfAbsent_of_mem (k : κ) (v : Option ν) (m : List (κ × Option ν)) (p : κ × Option ν)
    (h : p ∈ m) : p ∈ putIfAbsent k v m := by
  induction m with
  | nil => simp at h
  | cons q rest ih =>
    obtain ⟨k', v'⟩ := q
    by_cases hk : k = k'
    · simpa [putIfAbsent, hk] using h
    · simp only [putIfAbsent, hk, if_false]
      simp at h ⊢
      rcases h with h | h
      · exact Or.inl h
      · exact Or.inr (ih h)

omit [DecidableEq ν] in
theorem putIfAbsent_covers (k : κ) (v : Option ν) (m : List (κ × Option ν)) :
    (∃ v', (k, v') ∈ m) ∨ (k, v) ∈ putIfAbsent k v m := by
  induction m with
  | nil => right; simp [putIfAbsent]
  | cons q rest ih =>
    obtain ⟨k', v'⟩ := q
    by_cases hk : k = k'
    · left; exact ⟨v', by simp [hk]⟩
    · rcases ih with ⟨w, hw⟩ | h
      · left; exact ⟨w, by simp [hw]⟩
      · right; simp [putIfAbsent, hk, h]

omit [DecidableEq ν] in
theorem mem_of_mem_putIfAbsent_ne (k k' : κ) (v v' : Option ν) (m : List (κ × Option ν))
    (hne : k' ≠ k) (h : (k', v') ∈ putIfAbsent k v m) : (k', v') ∈ m := by
  induction m with
  | nil => simp [putIfAbsent] at h; exact absurd h.1 hne
  | cons q rest ih =>
    obtain ⟨k2, v2⟩ := q
    by_cases hk : k = k2
    · simpa [putIfAbsent, hk] using h
    · simp only [putIfAbsent, hk, if_false] at h
      simp at h ⊢
      rcases h with h | h
      · exact Or.inl h
      · exact Or.inr (ih h)

/-- executor level WATCH (current tree): the store is untouched, every snapshot taken by an
    earlier WATCH stands, and every named key is watched — with its current value unless it
    already was watched -/
theorem x_watch_snapshot (X : XBackend σ κ γ ρ ν) (okR : ρ) (t : ExTxn κ γ ν) (s : σ)
    (ks : List κ) (hout : t.inTxn = false) :
    (xstep X okR t s (.watch ks)).2.1 = s ∧
    (∀ p ∈ t.watched, p ∈ (xstep X okR t s (.watch ks)).1.watched) ∧
    ∀ k ∈ ks, (∃ v, (k, v) ∈ t.watched) ∨
      (k, X.value s k) ∈ (xstep X okR t s (.watch ks)).1.watched := by
  simp only [xstep, xstepWith, hout, Bool.false_eq_true, if_false, true_and, watchPut, if_true]
  have hA : ∀ (ks : List κ) (w : List (κ × Option ν)) (p : κ × Option ν), p ∈ w →
      p ∈ ks.foldl (fun w k => putIfAbsent k (X.value s k) w) w := by
    intro ks
    induction ks with
    | nil => intro w p h; simpa using h
    | cons a rest ih =>
      intro w p h
      simp only [List.foldl_cons]
      exact ih _ p (mem_putIfAbsent_of_mem a _ w p h)
  refine ⟨fun p hp => hA ks t.watched p hp, ?_⟩
  intro k hk
  suffices h : ∀ (ks : List κ) (w : List (κ × Option ν)), k ∈ ks →
      (∃ v, (k, v) ∈ w) ∨ (k, X.value s k) ∈ ks.foldl (fun w k => putIfAbsent k (X.value s k) w) w from
    h ks t.watched hk
  intro ks
  induction ks with
  | nil => intro w h; simp at h
  | cons a rest ih =>
    intro w h
    simp only [List.foldl_cons]
    by_cases ha : k = a
    · subst ha
      rcases putIfAbsent_covers k (X.value s k) w with h1 | h1
      · exact Or.inl h1
      · exact Or.inr (hA rest _ _ h1)
    · have hr : k ∈ rest := by simpa [ha] using h
      rcases ih (putIfAbsent a (X.value s a) w) hr with ⟨v, hv⟩ | h1
      · exact Or.inl ⟨v, mem_of_mem_putIfAbsent_ne a k _ v w ha hv⟩
      · exact Or.inr h1

/-- decision table, executor level -/
theorem x_table_nested_multi (X : XBackend σ κ γ ρ ν) (okR : ρ) (t : ExTxn κ γ ν) (s : σ)
    (h : t.inTxn = true) : xstep X okR t s .multi = (t, s, .err .nestedMulti) := by
  simp [xstep, xstepWith, h]

theorem x_table_watch_in_multi (X : XBackend σ κ γ ρ ν) (okR : ρ) (t : ExTxn κ γ ν) (s : σ)
    (ks : List κ) (h : t.inTxn = true) :
    xstep X okR t s (.watch ks) = (t, s, .err .watchInMulti) := by
  simp [xstep, xstepWith, h]

theorem x_table_without_multi (X : XBackend σ κ γ ρ ν) (okR : ρ) (t : ExTxn κ γ ν) (s : σ)
    (h : t.inTxn = false) :
    xstep X okR t s .exec = (t, s, .err .execWithoutMulti) ∧
    xstep X okR t s .discard = (t, s, .err .discardWithoutMulti) := by
  simp [xstep, xstepWith, h]

/-- at the executor level there is no queue-time rejection: every command, unknown ones
    included, is queued (no EXECABORT on this path) -/
theorem x_table_everything_is_queued (X : XBackend σ κ γ ρ ν) (okR : ρ) (t : ExTxn κ γ ν) (s : σ)
    (c : γ) (h : t.inTxn = true) :
    xstep X okR t s (.cmd c) = ({ t with queue := t.queue ++ [.cmd c] }, s, .queued) := by
  simp [xstep, xstepWith, h]

end

/-- **full** (`C05_x_rewatch_keeps_first`, current tree): `WATCH k; …; WATCH k; MULTI; EXEC` —
    a change of `k` since the FIRST watch aborts EXEC -/
theorem x_rewatch_keeps_first : C05_x_rewatch_keeps_first := by
  intro s0 s1 s k
  simp [xstepWith, watchPut, putIfAbsent, ExTxn.idle, KV.xbackend]
  intro h
  simp [h]

/-- PINNED commit (before the `fix:` commit): `SET k 0; WATCH k; SET k 1; WATCH k; MULTI; …;
    EXEC` succeeded — the second WATCH overwrote the snapshot (`HashMap::insert`) -/
theorem x_rewatch_forgets_change_pinned_counterexample : ¬ C05_x_rewatch_keeps_first_of false := by
  intro h
  have := h [(1, .str [48])] [(1, .str [49])] [(1, .str [49])] 1 (by decide)
  revert this
  decide

/-! ### executor level on the concrete store: every type, scores included -/

/-- the executor-level WATCH of a backend that compares snapshots through `proj` detects EVERY
    change of the stored value of a watched key (string, list, hash, set, sorted set incl. its
    scores, creation, deletion, type change) -/
def C05_x_detects_every_change (proj : KV.Val → KV.Val) : Prop :=
  ∀ (t : ExTxn Nat KV.Cmd KV.Val) (s0 s : KV.Store) (k : Nat),
    t.inTxn = true → (k, (NMap.get s0 k).map proj) ∈ t.watched →
    NMap.get s k ≠ NMap.get s0 k →
    xstep (KV.xbackendProj proj) (.simple .ok) t s .exec = (ExTxn.idle, s, .nil)

/-- **full**: the current code compares the whole `Value` (`proj = id`) -/
theorem x_detects_every_change : C05_x_detects_every_change id := by
  intro t s0 s k hin hm hne
  apply x_watch_detects_change (KV.xbackendProj id) (.simple .ok) t s k _ hin hm
  simpa [KV.xbackendProj] using hne

/-- on the concrete store, with `k` watched at `s0`: EXEC aborts ⇔ the value of `k` differs —
    for ALL five types, scores of a sorted set included (contrast `watch_detects_iff` for the
    connection level, where every non-string → non-string change is invisible) -/
theorem x_watch_detects_iff_kv (t : ExTxn Nat KV.Cmd KV.Val) (s0 s : KV.Store) (k : Nat)
    (hin : t.inTxn = true) (hw : t.watched = [(k, NMap.get s0 k)]) :
    (xstep KV.xbackend (.simple .ok) t s .exec).2.2 = .nil ↔ NMap.get s k ≠ NMap.get s0 k := by
  rw [x_watch_detects_iff KV.xbackend (.simple .ok) t s hin, hw]
  simp [KV.xbackend]

/-- an equality on sorted sets that ignores the scores (same cardinality, same members in the
    same rank order) breaks it: `ZADD board 10 alice 20 bob; WATCH board; ZADD board 15 alice;
    MULTI; SET winner bob; EXEC` runs the queue although the value of `board` changed -/
theorem x_score_blind_equality_counterexample : ¬ C05_x_detects_every_change KV.blindScores := by
  intro h
  have := h { inTxn := true, queue := [.cmd (.set 9 [98])],
              watched := [(1, (some (KV.Val.zset [(5, 10), (6, 20)])).map KV.blindScores)] }
    [(1, .zset [(5, 10), (6, 20)])] [(1, .zset [(5, 15), (6, 20)])] 1 rfl (by decide) (by decide)
  revert this
  decide

/-- the same input on the current model: detected; and one witness per type of a change the
    executor level sees although the connection level (GET-reply snapshot) does not -/
example :
    let w (v : KV.Val) : ExTxn Nat KV.Cmd KV.Val :=
      { inTxn := true, queue := [.cmd (.set 9 [98])], watched := [(1, some v)] }
    let nil (v v' : KV.Val) : Bool :=
      decide ((xstep KV.xbackend (.simple .ok) (w v) [(1, v')] .exec).2.2 = .nil)
    -- sorted set: score-only change keeping the rank order; with reorder; one-member set
    nil (.zset [(5, 10), (6, 20)]) (.zset [(5, 15), (6, 20)]) = true ∧
    nil (.zset [(5, 10), (6, 20)]) (.zset [(5, 25), (6, 20)]) = true ∧
    nil (.zset [(5, 10)]) (.zset [(5, 11)]) = true ∧
    -- hash: field value change; set: member replaced (same cardinality); list: same-length
    nil (.hash [(7, [1])]) (.hash [(7, [2])]) = true ∧
    nil (.set [3]) (.set [4]) = true ∧
    nil (.list [[1], [2]]) (.list [[9], [2]]) = true ∧
    -- type change, and the unchanged value
    nil (.list [[1]]) (.set [1]) = true ∧
    nil (.zset [(5, 10)]) (.zset [(5, 10)]) = false := by decide

/-! ## non-vacuity: concrete, non-trivial instances of the hypotheses -/

/-- `queued_has_no_effect`: a body with data commands, an unknown command, an arity error, a
    nested MULTI, a WATCH, an UNWATCH and a connection-level command -/
example :
    let body : List (Input Nat KV.Cmd × List (List KV.Cmd)) :=
      [(.cmd (.set 1 [49]), []), (.unknown .unknown, []), (.parseErr, []), (.multi, []),
       (.watch [1], []), (.unwatch, []), (.connLocal (.loc .auth), []), (.cmd (.rpush 2 [[1]]), [])]
    (∀ e ∈ body, endsTxn e.1 = false) ∧
    run KV.backend { inTxn := true, queue := [], errors := false, watched := [] } [(1, .str [48])] body
      = ({ inTxn := true, queue := [.set 1 [49], .unwatch, .loc .auth, .rpush 2 [[1]]],
           errors := true, watched := [] }, [(1, .str [48])],
         [.queued, .err .unknownInMulti, .err .parse, .err .nestedMulti, .err .watchInMulti,
          .queued, .queued, .queued]) := by decide

/-- `txn_equals_sequential_partial` / `exec_equals_outside_partial`: a body that includes a
    command failing at run time (LLEN on a string) and a type change -/
example :
    run KV.backend ConnTxn.idle [(1, .str [48])]
      [(.multi, []), (.cmd (.append 1 [49]), []), (.cmd (.llen 1), []), (.cmd (.del 1), []),
       (.cmd (.rpush 1 [[7]]), []), (.cmd (.lrange 1), []), (.exec, [[], []])]
    = (ConnTxn.idle, [(1, .list [[7]])],
       [.ok, .queued, .queued, .queued, .queued, .queued,
        .results [.int 2, .err .wrongType, .int 1, .int 1, .arr [[7]]]]) ∧
    NoInterleaving ([[], []] : List (List KV.Cmd)) := by decide

/-- `exec_equals_sequential_partial` with a satisfied watch -/
example :
    let t : ConnTxn Nat KV.Cmd KV.Rep :=
      { inTxn := true, queue := [.set 1 [50]], errors := false, watched := [(1, .bulk (some [48]))] }
    (∀ p ∈ t.watched, KV.backend.getReply [(1, .str [48])] p.1 = p.2) ∧
    step KV.backend [] t [(1, .str [48])] .exec = (ConnTxn.idle, [(1, .str [50])], .results [.simple .ok]) := by
  decide

/-- `watch_detects_change_partial` / `_strings_partial`: string overwritten; key deleted; string
    replaced by a list -/
example :
    let t : ConnTxn Nat KV.Cmd KV.Rep :=
      { inTxn := true, queue := [.set 2 [50]], errors := false, watched := [(1, .bulk (some [48]))] }
    step KV.backend [] t [(1, .str [49])] .exec = (ConnTxn.idle, [(1, .str [49])], .nil) ∧
    step KV.backend [] t [] .exec = (ConnTxn.idle, [], .nil) ∧
    step KV.backend [] t [(1, .list [[48]])] .exec = (ConnTxn.idle, [(1, .list [[48]])], .nil) ∧
    strOrMissing [(1, .str [48])] 1 = true := by decide

/-- `watch_txn_detects_change_partial`: WATCH k; other client SET k; own GET; MULTI; SET x;
    other client APPEND k; EXEC → nil, nothing applied -/
example :
    let mid : List (Event Nat KV.Cmd) := [.other (.set 1 [49]), .inp (.cmd (.get 1)) []]
    let body : List (Event Nat KV.Cmd) := [.inp (.cmd (.set 2 [50])) [], .other (.append 1 [50])]
    let r := runE KV.backend ConnTxn.idle [(1, .str [48])]
      (.inp (.watch [1]) [] :: mid ++ [.inp .multi []] ++ body)
    (∀ e ∈ mid, keepsOutside e = true) ∧ (∀ e ∈ body, keepsInside e = true) ∧
    KV.backend.getReply r.2 1 ≠ KV.backend.getReply [(1, .str [48])] 1 ∧
    step KV.backend [] r.1 r.2 .exec = (ConnTxn.idle, [(1, .str [49, 50])], .nil) := by decide

/-- `execabort_leaves_store` / `watchfail_leaves_store` under a NON-empty schedule: the other
    client's write is there, the transaction's is not -/
example :
    step KV.backend [[.set 3 [7]]]
      { inTxn := true, queue := [.set 1 [50]], errors := true, watched := [] } [] .exec
      = (ConnTxn.idle, [(3, .str [7])], .err .execAbort) ∧
    step KV.backend [[.set 1 [7]]]
      { inTxn := true, queue := [.set 2 [50]], errors := false, watched := [(1, .bulk none)] } [] .exec
      = (ConnTxn.idle, [(1, .str [7])], .nil) := by decide

/-- executor level: a watched LIST key that another command pushes to IS detected there -/
example :
    let t : ExTxn Nat KV.Cmd KV.Val :=
      { inTxn := true, queue := [.cmd (.set 2 [49])], watched := [(1, some (.list [[49]]))] }
    xstep KV.xbackend (.simple .ok) t [(1, .list [[49], [50]])] .exec
      = (ExTxn.idle, [(1, .list [[49], [50]])], .nil) ∧
    xstep KV.xbackend (.simple .ok) t [(1, .list [[49]])] .exec
      = (ExTxn.idle, [(1, .list [[49]]), (2, .str [49])], .results [.simple .ok]) := by decide

end C05
end RedisVerif
