import RedisVerif.Model.Conn
import RedisVerif.Lemmas.Conn
import RedisVerif.Lemmas.ConnWrite
import RedisVerif.Lemmas.ConnSim
import RedisVerif.Lemmas.ConnJunk
import RedisVerif.Lemmas.ConnFix

/-
  C04 — pipelining: exactly one reply per command, in order, however the bytes arrive.

  Theorems about `Conn.run` (Model/Conn.lean), the transcription of the read loop of
  `OptimizedConnectionHandler` with its batching gate, the two collectors, the fast path and the
  generic decoder.

  THE CODE AS IT IS (fix de38a13 of the GET/SET recognisers landed: HEADER_LEN = 13, LF / UTF-8 tests, an
  incomplete frame is left to the generic parser, collected commands are always executed, the gate
  asks the ACL) is `Config.repaired = true ∧ headerLen = 13` — `cfgR`, `Repaired13`: SECTION 6.  Its
  theorems are obtained from sections 1–5 through `repaired_transparent` (for every byte stream the
  repaired connection does what it does with the recognisers off, up to the path label).

  Sections 1–5 are about `DeadCfg` configurations — the reference loop (repaired code, user without
  unrestricted keys: the recognisers are never entered) and the PINNED code (`repaired = false`,
  HEADER_LEN = 14 as it was written: off by one, dead for well-formed frames; `cfg14`, `cfgG`,
  `cfgPinned`), kept so that the counterexamples about the behaviour before the fixes (look-alike
  frames accepted / dropped / stalled, the one-character "fix" HEADER_LEN = 13 alone losing replies:
  `cfg13`, wrapping length arithmetic, the white-space-only command name, the pinned decoder) stay
  kernel-checked statements about the same model.

  A pipeline is `cmds : List Cmd` (`Cmd` = the list of its bulk-string arguments); its byte stream is
  `stream cmds`; a segmentation is any `segs : List Bytes` with `segs.flatten = stream cmds`; the
  handler cuts every segment further into reads of `readSize` bytes.  No bound on the number of
  commands, their sizes, the number or position of the cuts.
-/
namespace RedisVerif.C04
open RedisVerif.Resp RedisVerif.Conn

/-- actions that produce exactly one reply -/
def replyCount : List Action → Nat
  | [] => 0
  | .exec _ _ :: rest => 1 + replyCount rest
  | .protoErr :: rest => 1 + replyCount rest
  | .overflow :: rest => 1 + replyCount rest
  | .dropped _ :: rest => replyCount rest
  | .crash :: _ => 0

def hasDropped : List Action → Bool
  | [] => false
  | .dropped _ :: _ => true
  | _ :: rest => hasDropped rest

/-- `GET k`, `PING`, `SET k v` -/
def cmdSetKV : Cmd := [[83, 69, 84], [107], [118]]
def cmdGetK : Cmd := [[71, 69, 84], [107]]
def cmdPing : Cmd := [[80, 73, 78, 71]]

/-- default thresholds (`min_pipeline_buffer` 60, `batch_threshold` 2) with the constant as written -/
def cfg14 : Config := { minPipeline := 60, batchThreshold := 2, headerLen := 14, readSize := 8192,
                        maxBuffer := 1000000, checked := true, nameGuard := false, codec := codec1,
                        env := { depth := 64, mem := 1073741824 } }
/-- the pinned recognisers (HEADER_LEN = 14) with the guarded `check_acl_permission` of fix 5f3bab5
    (`parts.first()`); `cfg14` keeps the pinned `parts[0]` (`nameGuard := false`) for the counterexamples
    about the behaviour before that fix (for pipelines without an empty / white-space-only command name the
    two behave alike: `CmdOK`).  The code as it is: `cfgR` (section 6) -/
def cfgG : Config := { cfg14 with nameGuard := true }
/-- the code before the fix commits: wrapping length arithmetic, the pinned decoder -/
def cfgPinned : Config := { cfg14 with checked := false, codec := codec1Pinned }
/-- the same with the constant "fixed" to the real header length -/
def cfg13 : Config := { cfg14 with headerLen := 13, nameGuard := true }
/-- `*1\r\n$0\r\n\r\n`: a command whose name is the empty string; `*1\r\n$2\r\n\r\n\r\n`: CR LF as a name -/
def cmdEmptyName : Cmd := [[]]
def cmdCrlfName : Cmd := [[13, 10]]

/-! ## 1. segmentation independence / one reply per command / path irrelevance -/

/-- full statement, for a value `h` of the recognisers' `HEADER_LEN` and a value `guard` of
    "`check_acl_permission` tolerates a command name without a non-white-space character": every
    segmentation of every well-formed pipeline — ANY command names and arguments —, under every
    batching configuration, executes every command exactly once, in order (on the generic path) -/
def C04_segmentation_independent (h : Nat) (guard : Bool) : Prop :=
  ∀ (cfg : Config), cfg.headerLen = h → cfg.repaired = false → cfg.nameGuard = guard → cfg.codec = codec1 → 2 ≤ cfg.env.depth →
  ∀ (cmds : List Cmd) (segs : List Bytes), segs.flatten = stream cmds →
    Small (stream cmds) → (stream cmds).length ≤ cfg.maxBuffer →
    run cfg segs = execAll cmds

/-- the general form: `CmdOK cfg c` = two decoder frames of stack, and the name guard is on OR the
    name of `c` is not empty / white space only -/
theorem segmentation_independent_cmdok (cfg : Config) (h14 : DeadCfg cfg) (hc : cfg.codec = codec1)
    (hd : 1 ≤ cfg.env.depth) (cmds : List Cmd) (segs : List Bytes) (h : segs.flatten = stream cmds)
    (hs : Small (stream cmds)) (hmax : (stream cmds).length ≤ cfg.maxBuffer) (hok : ∀ c ∈ cmds, CmdOK cfg c) :
    run cfg segs = execAll cmds :=
  run_wf cfg h14 hc hd cmds segs h hs hmax hok

/-- HEADER_LEN = 14 (the recognisers before fix de38a13) and the guarded `check_acl_permission` (fix 5f3bab5);
    for the code as it is: `segmentation_independent_repaired` -/
theorem segmentation_independent : C04_segmentation_independent 14 true :=
  fun cfg h14 hr hg hc hd cmds segs h hs hmax =>
    run_wf cfg (DeadCfg.of14 hr h14) hc (by omega) cmds segs h hs hmax (fun _ _ => ⟨hd, Or.inl hg⟩)

/-- PARTIAL, the PINNED code before fix 5f3bab5 (`parts[0]`): for pipelines in which no command NAME is empty or white
    space only (`nameWs`, decidable) -/
theorem segmentation_independent_partial (cfg : Config) (h14 : DeadCfg cfg) (hc : cfg.codec = codec1)
    (hd : 2 ≤ cfg.env.depth) (cmds : List Cmd) (segs : List Bytes) (h : segs.flatten = stream cmds)
    (hs : Small (stream cmds)) (hmax : (stream cmds).length ≤ cfg.maxBuffer)
    (hname : ∀ c ∈ cmds, nameWs c = false) :
    run cfg segs = execAll cmds :=
  run_wf cfg h14 hc (by omega) cmds segs h hs hmax (fun c hcm => ⟨hd, Or.inr (hname c hcm)⟩)

/-- COUNTEREXAMPLE, PINNED behaviour (before fix 5f3bab5): `PING`, then the well-formed frame `*1\r\n$0\r\n\r\n` (a command
    whose name is the empty string), then `PING`: `check_acl_permission` indexes `parts[0]` of
    `"".split_whitespace()` and panics — ONE reply, then the task (release: the server) is gone
    (fixed: known_findings.json 5f3bab5; the witness is a corpus case that must pass now) -/
theorem empty_name_counterexample : ¬ C04_segmentation_independent 14 false := by
  intro h
  have := h cfg14 rfl rfl rfl rfl (by decide) [cmdPing, cmdEmptyName, cmdPing]
    [stream [cmdPing, cmdEmptyName, cmdPing]] (by simp) (by decide) (by decide)
  have hc : hasCrash (run cfg14 [stream [cmdPing, cmdEmptyName, cmdPing]]) = true := by decide
  rw [this] at hc
  exact absurd hc (by decide)

/-- the same for a name of CR LF, a tab and U+00A0, arriving byte by byte; not inside MULTI (there the
    unknown command is answered with an error and the transaction is marked) -/
example : hasCrash (run cfg14 ((stream [[[13, 10, 9, 194, 160], [120]]]).map (fun b => [b]))) = true ∧
    replyCount (run cfg14 [stream [cmdPing, cmdCrlfName]]) = 1 ∧
    hasCrash (run cfg14 [stream [[[77, 85, 76, 84, 73]], cmdEmptyName, [[69, 88, 69, 67]]]]) = false ∧
    hasCrash (run cfgG [stream [cmdPing, cmdEmptyName, cmdPing]]) = false ∧
    nameWs cmdGetK = false ∧ nameWs [[32, 97]] = false ∧ nameWs [[226, 128, 139]] = false := by decide

/-- with HEADER_LEN = 13 the collectors come alive: six pipelined `GET k` in one segment are
    executed as a batch, but ONE `GET k` in a 60-byte buffer (here: followed by three PINGs) is
    consumed by `collect_get_keys`, found to be fewer than `batch_threshold`, and never answered -/
theorem header13_counterexample : ¬ C04_segmentation_independent 13 true := by
  intro h
  have := h cfg13 rfl rfl rfl rfl (by decide) [cmdGetK, cmdPing, cmdPing, cmdPing]
    [stream [cmdGetK, cmdPing, cmdPing, cmdPing]] (by simp) (by decide) (by decide)
  have hc : replyCount (run cfg13 [stream [cmdGetK, cmdPing, cmdPing, cmdPing]]) = 3 := by decide
  rw [this] at hc
  exact absurd hc (by decide)

theorem replies_execAll_length : ∀ (s : ExSt) (cmds : List Cmd), (replies s (execAll cmds)).length = cmds.length := by
  intro s cmds
  induction cmds generalizing s with
  | nil => simp [execAll, replies]
  | cons c cs ih =>
    simp only [execAll, List.map_cons, replies, List.length_cons]
    have := ih (execFrame s (cmdFrame c)).1
    simp only [execAll] at this
    rw [this]

/-- exactly one reply per command -/
theorem one_reply_per_command (cfg : Config) (h14 : DeadCfg cfg) (hc : cfg.codec = codec1) (hd : 1 ≤ cfg.env.depth)
    (cmds : List Cmd) (segs : List Bytes) (h : segs.flatten = stream cmds)
    (hs : Small (stream cmds)) (hmax : (stream cmds).length ≤ cfg.maxBuffer) (hok : ∀ c ∈ cmds, CmdOK cfg c) :
    (replies ExSt.init (run cfg segs)).length = cmds.length := by
  rw [segmentation_independent_cmdok cfg h14 hc hd cmds segs h hs hmax hok]
  exact replies_execAll_length _ _

/-- … each equal to the reply the command gets when every command arrives alone, in its own
    segment, under any other configuration -/
theorem replies_as_sent_alone (cfg cfg' : Config) (h14 : DeadCfg cfg) (h14' : DeadCfg cfg')
    (hc : cfg.codec = codec1) (hc' : cfg'.codec = codec1)
    (hd : 1 ≤ cfg.env.depth) (hd' : 1 ≤ cfg'.env.depth)
    (cmds : List Cmd) (segs : List Bytes) (h : segs.flatten = stream cmds)
    (hs : Small (stream cmds)) (hmax : (stream cmds).length ≤ cfg.maxBuffer) (hmax' : (stream cmds).length ≤ cfg'.maxBuffer)
    (hok : ∀ c ∈ cmds, CmdOK cfg c) (hok' : ∀ c ∈ cmds, CmdOK cfg' c) (s : ExSt) :
    replies s (run cfg segs) = replies s (run cfg' (cmds.map encCmd)) := by
  rw [segmentation_independent_cmdok cfg h14 hc hd cmds segs h hs hmax hok,
    segmentation_independent_cmdok cfg' h14' hc' hd' cmds (cmds.map encCmd) rfl hs hmax' hok']

/-- which path carried a command cannot matter: on well-formed input the batch collectors and the
    fast path never carry one (they are dead code for well-formed frames because of HEADER_LEN = 14) -/
theorem path_irrelevant (cfg : Config) (h14 : DeadCfg cfg) (hc : cfg.codec = codec1) (hd : 1 ≤ cfg.env.depth)
    (cmds : List Cmd) (segs : List Bytes) (h : segs.flatten = stream cmds)
    (hs : Small (stream cmds)) (hmax : (stream cmds).length ≤ cfg.maxBuffer) (hok : ∀ c ∈ cmds, CmdOK cfg c) :
    ∀ a ∈ run cfg segs, ∃ f, a = .exec f .generic := by
  rw [segmentation_independent_cmdok cfg h14 hc hd cmds segs h hs hmax hok]
  intro a ha
  simp only [execAll, List.mem_map] at ha
  obtain ⟨c, _, hc⟩ := ha
  exact ⟨_, hc.symm⟩

/-- non-vacuity: a real pipeline satisfies the hypotheses, cut inside a header and inside a payload -/
example : CmdOK cfg14 cmdGetK ∧ Small (stream [cmdGetK, cmdPing]) ∧
    replyCount (run cfg14 [(stream [cmdGetK, cmdPing]).take 6, ((stream [cmdGetK, cmdPing]).drop 6).take 11,
      (stream [cmdGetK, cmdPing]).drop 17]) = 2 := by decide

/-! ## 1b. the overflow guard (`buffer.len() + n > max_buffer_size`) -/

def hasOverflow : List Action → Bool
  | [] => false
  | .overflow :: _ => true
  | _ :: rest => hasOverflow rest

/-- full statement: under every legal configuration (`1 ≤ read_size`) a pipeline — of ANY length —
    whose every frame leaves `read_size - 1` bytes of room below `max_buffer_size` never gets
    `-ERR buffer overflow`: every command is executed once, in order, for every segmentation.
    (The slack is what the code as it is really needs: before a read the buffer holds at most
    `|frame| - 1` bytes of an incomplete frame, and the read brings at most `read_size` more; with
    `|frame| + read_size > max + 1` a segmentation exists that trips the guard.  For a stream that
    fits into `max_buffer_size` altogether no slack is needed: `segmentation_independent`.) -/
def C04_no_overflow_below_limit (onR : Config → St → Bytes → St × List Action) : Prop :=
  ∀ (cfg : Config), DeadCfg cfg → cfg.codec = codec1 → 1 ≤ cfg.env.depth → 1 ≤ cfg.readSize →
  ∀ (cmds : List Cmd) (segs : List Bytes), segs.flatten = stream cmds → Small (stream cmds) →
    (∀ c ∈ cmds, (encCmd c).length + cfg.readSize ≤ cfg.maxBuffer + 1) → (∀ c ∈ cmds, CmdOK cfg c) →
    ((segs.flatMap (fun s => splitReads cfg.readSize s.length s)).foldl
      (fun (acc : St × List Action) c => let (s', a) := onR cfg acc.1 c; (s', acc.2 ++ a)) (St.init, [])).2
      = execAll cmds

theorem no_overflow_below_limit : C04_no_overflow_below_limit onRead :=
  fun cfg h14 hc hd hrs cmds segs h hs hfr hok => run_wf_frames cfg h14 hc hd hrs cmds segs h hs hfr hok

/-- the slack is tight: `max_buffer_size = read_size = 32`, two 14-byte PINGs and one more byte
    of a third — 14 bytes of incomplete frame left, a read of 32 … the guard fires in the code as it
    is as soon as `|frame| + read_size > max + 1` and the reads fall badly -/
example : hasOverflow (run { cfg14 with readSize := 32, maxBuffer := 32 }
    [(stream [cmdPing, cmdPing, cmdPing, cmdPing, cmdPing]).take 32, (stream [cmdPing, cmdPing, cmdPing, cmdPing, cmdPing]).drop 32]) = true := by
  decide

/-- full statement: a pipeline that fits into `max_buffer_size` ALTOGETHER never gets the overflow
    error, whatever the read size and the segmentation (no slack needed: the buffer never holds
    more than what was sent) -/
def C04_no_overflow_when_stream_fits (onR : Config → St → Bytes → St × List Action) : Prop :=
  ∀ (cfg : Config), DeadCfg cfg → cfg.codec = codec1 → 1 ≤ cfg.env.depth →
  ∀ (cmds : List Cmd) (segs : List Bytes), segs.flatten = stream cmds → Small (stream cmds) →
    (stream cmds).length ≤ cfg.maxBuffer → (∀ c ∈ cmds, CmdOK cfg c) →
    ((segs.flatMap (fun s => splitReads cfg.readSize s.length s)).foldl
      (fun (acc : St × List Action) c => let (s', a) := onR cfg acc.1 c; (s', acc.2 ++ a)) (St.init, [])).2
      = execAll cmds

theorem no_overflow_when_stream_fits : C04_no_overflow_when_stream_fits onRead :=
  fun cfg h14 hc hd cmds segs h hs hmax hok => run_wf cfg h14 hc hd cmds segs h hs hmax hok

/-- COUNTEREXAMPLE for the guard that adds the CAPACITY of the read buffer instead of the bytes read
    (`onReadCap`: `buffer.len() + read_buf.len() > max`): with `max_buffer_size = read_size = 64`
    (accepted by PerformanceConfig::validate) a 28-byte pipeline cut in two — 36 bytes of room to
    spare — is answered `-ERR buffer overflow` -/
theorem overflow_guard_capacity_counterexample : ¬ C04_no_overflow_when_stream_fits onReadCap := by
  intro h
  have := h { cfg14 with readSize := 64, maxBuffer := 64 } (by decide) rfl (by decide)
    [cmdPing, cmdPing] [(stream [cmdPing, cmdPing]).take 5, (stream [cmdPing, cmdPing]).drop 5]
    (by decide) (by decide) (by decide) (by decide)
  have hov : hasOverflow (runCap { cfg14 with readSize := 64, maxBuffer := 64 }
      [(stream [cmdPing, cmdPing]).take 5, (stream [cmdPing, cmdPing]).drop 5]) = true := by decide
  unfold runCap at hov
  rw [this] at hov
  exact absurd hov (by decide)

example : hasOverflow (run { cfg14 with readSize := 64, maxBuffer := 64 }
    [(stream [cmdPing, cmdPing]).take 5, (stream [cmdPing, cmdPing]).drop 5]) = false := by decide

/-! ## 2. malformed input -/

/-- full statement: arbitrary bytes after a well-formed pipeline never crash the connection, never
    make it swallow a frame, and leave the actions for the pipeline untouched -/
def C04_malformed_is_error (cfg : Config) : Prop :=
  ∀ (cmds : List Cmd) (junk : Bytes) (segs : List Bytes), segs.flatten = stream cmds ++ junk →
    Small (stream cmds ++ junk) → (stream cmds ++ junk).length ≤ cfg.maxBuffer → (∀ c ∈ cmds, CmdOK cfg c) →
    hasCrash (run cfg segs) = false ∧ hasDropped (run cfg segs) = false ∧
      (run cfg segs).take cmds.length = execAll cmds

/-- `*2\r\n$3\r\nGET\r\nX$1\r\nk\r\n`: a byte of garbage where the `$` of the key should be -/
def getLookalike : Bytes := [42, 50, 13, 10, 36, 51, 13, 10, 71, 69, 84, 13, 10, 88, 36, 49, 13, 10, 107, 13, 10]
/-- `*2\r\n$3\r\nGET\r\nX$18446744073709551615\r\nab` -/
def getHugeLen : Bytes := [42, 50, 13, 10, 36, 51, 13, 10, 71, 69, 84, 13, 10, 88, 36,
  49, 56, 52, 52, 54, 55, 52, 52, 48, 55, 51, 55, 48, 57, 53, 53, 49, 54, 49, 53, 13, 10, 97, 98]

/-- PART 1, full statement for a value `guard` of the name guard: neither the recognisers, nor the
    decoder, nor the command step panic — for ALL bytes in ALL segmentations (no well-formedness, no
    size hypothesis beyond `max_buffer_size < 2^56`) -/
def C04_malformed_no_crash (guard : Bool) : Prop :=
  ∀ (cfg : Config), cfg.checked = true → cfg.nameGuard = guard → cfg.codec = codec1 →
    maxNesting + 1 ≤ cfg.env.depth → cfg.maxBuffer < 72057594037927936 →
    ∀ (segs : List Bytes), hasCrash (run cfg segs) = false

/-- holds for the code as it is (guarded `check_acl_permission`, fix 5f3bab5) -/
theorem malformed_no_crash : C04_malformed_no_crash true :=
  fun cfg hck hng hc hd hmax segs => run_no_crash cfg hck hng hc hd hmax segs

/-- COUNTEREXAMPLE, PINNED behaviour (before fix 5f3bab5): 11 bytes `*1\r\n$0\r\n\r\n` -/
theorem malformed_no_crash_counterexample : ¬ C04_malformed_no_crash false := by
  intro h
  have := h cfg14 rfl rfl rfl (by decide) (by decide) [stream [cmdEmptyName]]
  have hc : hasCrash (run cfg14 [stream [cmdEmptyName]]) = true := by decide
  rw [this] at hc
  exact absurd hc (by decide)

/-- PARTIAL, the PINNED code: no panic on any segmentation of a well-formed pipeline in which no
    command name is empty / white space only -/
theorem no_crash_wellformed_partial (cfg : Config) (h14 : DeadCfg cfg) (hc : cfg.codec = codec1)
    (hd : 2 ≤ cfg.env.depth) (cmds : List Cmd) (segs : List Bytes) (h : segs.flatten = stream cmds)
    (hs : Small (stream cmds)) (hmax : (stream cmds).length ≤ cfg.maxBuffer)
    (hname : ∀ c ∈ cmds, nameWs c = false) :
    hasCrash (run cfg segs) = false := by
  rw [segmentation_independent_partial cfg h14 hc hd cmds segs h hs hmax hname, ← ConnW.anyCrash_eq]
  exact ConnW.anyCrash_execAll cmds

/-- PART 3 (earlier replies untouched) holds for all bytes that may follow a well-formed pipeline
    and all segmentations: the commands of the pipeline are executed exactly once, in order, before
    anything else happens -/
theorem malformed_keeps_earlier (cfg : Config) (h14 : DeadCfg cfg) (hc : cfg.codec = codec1)
    (cmds : List Cmd) (junk : Bytes) (segs : List Bytes) (h : segs.flatten = stream cmds ++ junk)
    (hs : Small (stream cmds ++ junk)) (hmax : (stream cmds ++ junk).length ≤ cfg.maxBuffer)
    (hok : ∀ c ∈ cmds, CmdOK cfg c) :
    (run cfg segs).take cmds.length = execAll cmds := by
  obtain ⟨tail, ht⟩ := run_junk cfg h14 hc cmds junk segs h hs hmax hok
  rw [ht]
  have : (execAll cmds).length = cmds.length := by simp [execAll]
  rw [← this, List.take_left']
  rfl

theorem replyCount_execAll_append (cmds : List Cmd) (rest : List Action) :
    replyCount (execAll cmds ++ rest) = cmds.length + replyCount rest := by
  induction cmds with
  | nil => simp [execAll]
  | cons c cs ih =>
    simp only [execAll, List.map_cons, List.cons_append, replyCount, List.length_cons] at ih ⊢
    rw [ih]; omega

/-- PART 2 (never silence), PARTIAL: a malformed frame that does NOT begin like an array (its first
    byte is not `*` — so it is no member and no prefix of the look-alike class, whose members all
    begin `*2\r\n$3\r\nGET` / `*3\r\n$3\r\nSET`) and that the decoder rejects (`parse1 junk` is a protocol
    error: decidable) is answered with `-ERR protocol error` RIGHT AFTER the replies to the
    well-formed commands before it — for every segmentation (the frame may share reads with the
    commands, be cut anywhere, arrive byte by byte), every configuration.  With
    `malformed_keeps_earlier` and `malformed_no_crash`: error reply, never silence, a hang or a crash,
    earlier replies untouched.  (For frames beginning with `*` the statement is refuted by the
    look-alikes: `malformed_is_error_counterexample`.) -/
theorem malformed_gets_error_partial (cfg : Config) (h14 : DeadCfg cfg) (hc : cfg.codec = codec1)
    (hd : 1 ≤ cfg.env.depth) (cmds : List Cmd) (junk : Bytes) (segs : List Bytes)
    (h : segs.flatten = stream cmds ++ junk) (hstar : junk.head? ≠ some 42) (e : Err)
    (hrej : (parse1 cfg.env junk).out = .error e)
    (hs : Small (stream cmds ++ junk)) (hmax : (stream cmds ++ junk).length ≤ cfg.maxBuffer)
    (hok : ∀ c ∈ cmds, CmdOK cfg c) :
    (∃ tail, run cfg segs = execAll cmds ++ Action.protoErr :: tail) ∧ cmds.length + 1 ≤ replyCount (run cfg segs) := by
  obtain ⟨tail, ht⟩ := run_junk_error cfg h14 hc hd cmds junk segs h (Or.inl hstar) e hrej hs hmax hok
  refine ⟨⟨tail, ht⟩, ?_⟩
  rw [ht, replyCount_execAll_append]
  simp only [replyCount]
  omega

/-- non-vacuity: `?x\r\n`, `$-2\r\n`, `:x\r\n` satisfy the hypotheses; cut inside the last command and
    byte by byte through the malformed frame, PING and GET are answered, then the protocol error -/
example : ([63, 120, 13, 10] : Bytes).head? ≠ some 42 ∧ (parse1 cfg14.env [63, 120, 13, 10]).out.errKind = some .unknownType ∧
    (parse1 cfg14.env [36, 45, 50, 13, 10]).out.errKind = some .badLen ∧ (parse1 cfg14.env [58, 120, 13, 10]).out.errKind = some .badInt ∧
    replyCount (run cfg14 ([(stream [cmdPing, cmdGetK]).take 20, (stream [cmdPing, cmdGetK]).drop 20 ++ [36]] ++
      [[45], [50], [13], [10]])) = 3 := by decide

/-- the frames that crashed the pinned code get a protocol error now, after the reply to PING -/
example : hasCrash (run cfg14 [stream [cmdPing] ++ getHugeLen.take 20, getHugeLen.drop 20]) = false ∧
    replyCount (run cfg14 [stream [cmdPing] ++ getHugeLen.take 20, getHugeLen.drop 20]) = 2 ∧
    replyCount (run cfg14 [stream [cmdPing], [36, 45, 50, 13, 10]]) = 2 := by decide

/-- PART 2 (no silence) FAILED before fix de38a13 (PINNED behaviour; for the code as it is:
    `malformed_is_error_repaired`): the recognisers indexed with 14 into a 13-byte header, so the malformed look-alike is executed as `GET k` by the fast path (a data
    reply, not an error) … -/
theorem malformed_accepted_counterexample :
    replyCount (run cfg14 [getLookalike]) = 1 ∧ hasCrash (run cfg14 [getLookalike]) = false ∧
    (parse1 cfg14.env getLookalike).out = .error .unknownType := ⟨by decide, by decide, rfl⟩

/-- … and in a buffer of at least `min_pipeline_buffer` bytes it is consumed by `collect_get_keys`
    and, being alone (1 < batch_threshold), dropped: three replies for four frames -/
theorem malformed_silence_counterexample :
    hasDropped (run cfg14 [getLookalike ++ stream [cmdPing, cmdPing, cmdPing]]) = true ∧
    replyCount (run cfg14 [getLookalike ++ stream [cmdPing, cmdPing, cmdPing]]) = 3 := by decide

theorem malformed_is_error_counterexample : ¬ C04_malformed_is_error cfg14 := by
  intro h
  have := (h [] (getLookalike ++ stream [cmdPing, cmdPing, cmdPing]) [getLookalike ++ stream [cmdPing, cmdPing, cmdPing]]
    (by simp [stream]) (by decide) (by decide) (by intro c hc; cases hc)).2.1
  rw [malformed_silence_counterexample.1] at this
  exact absurd this (by decide)

/-- PINNED behaviour (before fix 7196080): `key_start + key_len + 2` wrapped for a declared length of
    2^64-1, the bounds test passed, the slice panicked: 39 bytes crashed the server -/
theorem recogniser_overflow_pinned_counterexample : hasCrash (run cfgPinned [getHugeLen]) = true := by decide

/-- PINNED behaviour (before fix 8e8c60e): the decoder's `$-2\r\n` panic reached the connection -/
theorem codec_crash_pinned_counterexample :
    hasCrash (run cfgPinned [stream [cmdPing], [36, 45, 50, 13, 10]]) = true ∧
    replyCount (run cfgPinned [stream [cmdPing], [36, 45, 50, 13, 10]]) = 1 := by decide

/-! ## 2b. the look-alike class, exactly (the CAUSE of the known findings `C04:malformed-*:*-lookalike*`) -/

/-- with HEADER_LEN = 14 the GET recognisers (`collect_get_keys`, `try_fast_get`) accept EXACTLY the
    byte strings of the class `GetLookalike`: 13-byte header, one arbitrary byte, `$`, a usize
    without CR, CR, one arbitrary byte, the key, two arbitrary bytes, anything -/
theorem lookalike_accepted_iff (buf key : Bytes) (total : Nat) :
    recogGet 14 true buf = .get key total ↔ GetLookalike buf key total :=
  ⟨getLookalike_of_accepted buf key total, getLookalike_accepted buf key total⟩

/-- no well-formed RESP command ever takes the fast path or is taken by a collector: for every
    buffer that is a prefix of a stream of well-formed command frames the fast path declines or
    waits, and both collectors return the buffer untouched (HEADER_LEN = 14 makes them dead code
    for well-formed input — a PERFORMANCE defect, the replies are those of the generic path) -/
theorem fast_path_dead_for_wellformed (ck inTx : Bool) (fuel : Nat) (buf rest : Bytes) (cmds : List Cmd)
    (h : buf ++ rest = stream cmds) :
    (fastPath 14 ck inTx buf = .notFast ∨ fastPath 14 ck inTx buf = .needMore) ∧
    collectGet 14 ck fuel buf = some ([], buf) ∧ collectSet 14 ck fuel buf = some ([], buf) := by
  refine ⟨?_, collectGet_dead ck fuel buf rest cmds h, collectSet_dead ck fuel buf rest cmds h⟩
  cases cmds with
  | nil =>
    simp [stream] at h
    rw [h.1]
    left
    unfold fastPath
    cases inTx <;> simp
  | cons c cs =>
    rw [stream_cons] at h
    cases fastPath_dead ck inTx buf rest (stream cs) c h with
    | inl hh => exact Or.inl hh
    | inr hh => exact Or.inr hh.1

/-- consequently no member of the look-alike class is (a prefix of) a well-formed pipeline: the
    known findings concern malformed input only -/
theorem lookalike_is_malformed (buf key : Bytes) (total : Nat) (hl : GetLookalike buf key total)
    (rest : Bytes) (cmds : List Cmd) : buf ++ rest ≠ stream cmds := by
  intro h
  have hacc := (lookalike_accepted_iff buf key total).2 hl
  cases cmds with
  | nil =>
    simp [stream] at h
    rw [h.1, recogGet_nil] at hacc
    cases hacc
  | cons c cs =>
    rw [stream_cons] at h
    cases recogGet_dead true buf rest (stream cs) c h with
    | inl hh => rw [hh] at hacc; cases hacc
    | inr hh => rw [hh.1] at hacc; cases hacc

example : GetLookalike getLookalike [107] 21 :=
  ⟨getHdrU, 88, [49], 10, [13, 10], Or.inl rfl, rfl, by decide, by decide, by decide, rfl, by decide⟩

/-- `PING`, then `*2\r\n$3\r\nGET\r\nX$4\r\nab` — a proper PREFIX of a look-alike: the RESP grammar
    already rejects it (byte X where a type byte belongs), but `try_fast_get` answers "need more
    data" and the error reply is withheld (known finding `C04:malformed-stall:get-lookalike-prefix`) -/
theorem lookalike_prefix_stalls_counterexample :
    replyCount (run cfg14 [stream [cmdPing], getLookalike.take 15 ++ [52, 13, 10, 97, 98]]) = 1 ∧
    hasCrash (run cfg14 [stream [cmdPing], getLookalike.take 15 ++ [52, 13, 10, 97, 98]]) = false ∧
    (parse1 cfg14.env (getLookalike.take 15 ++ [52, 13, 10, 97, 98])).out.errKind = some .unknownType := by
  decide

/-! ## 3. connections do not leak into each other through the shared buffer pool -/

/-- full statement: whatever the earlier (or concurrent) connections of the server did — EOF in the
    middle of a frame, replies that could not be written, a buffer overflow — and in whatever order
    connections are accepted and finish, every connection starts from an empty read buffer and an
    empty write buffer: its client receives exactly what it receives from a server that never had
    another client (`pool.clears` = `buf.clear()` in `BufferPoolAsync::release`) -/
def C04_fresh_connection_state (clears : Bool) : Prop :=
  ∀ (cfg : Config) (poolSize : Nat) (specs : List ConnSpec) (evs : List Ev),
    let srv := serve cfg (Pool.init poolSize clears) specs evs
    srv.pool.AllEmpty ∧ ∀ o ∈ srv.outs, ∃ spec, specs[o.1]? = some spec ∧ o.2 = solo cfg spec

theorem fresh_connection_state : C04_fresh_connection_state true := by
  intro cfg n specs evs
  have := serve_ok cfg specs evs ⟨Pool.init n true, [], []⟩
    ⟨Pool.init_allEmpty n true, rfl, by intro o ho; cases ho⟩
  exact ⟨this.1, this.2.2⟩

/-- a connection over the shared pool is answered as the same connection alone on the server -/
theorem connections_independent (cfg : Config) (poolSize : Nat) (specs : List ConnSpec) (evs : List Ev)
    (i : Nat) (out : List Action') (h : (i, out) ∈ (serve cfg (Pool.init poolSize true) specs evs).outs) :
    ∃ spec, specs[i]? = some spec ∧
      (serve cfg (Pool.init poolSize true) [spec] [Ev.start 0]).outs = [(0, out)] := by
  obtain ⟨spec, hs, ho⟩ := (fresh_connection_state cfg poolSize specs evs).2 (i, out) h
  refine ⟨spec, hs, ?_⟩
  have h1 := Pool.acquire_empty (Pool.init poolSize true) (Pool.init_allEmpty _ _)
  have h2 := Pool.acquire_empty _ h1.2.1
  simp only [serve, List.foldl_cons, List.foldl_nil, srvStep, List.getElem?_cons_zero, List.nil_append]
  simp only at ho
  rw [ho, solo, h1.1, h2.1]

/-- composed with `segmentation_independent`: on a server with a shared buffer pool, whatever its
    other connections did, a connection that sends a well-formed pipeline (in any segmentation, and
    whose replies can be written) gets every command executed exactly once, in order -/
theorem pooled_one_reply_per_command (cfg : Config) (h14 : DeadCfg cfg) (hc : cfg.codec = codec1)
    (hd : 1 ≤ cfg.env.depth) (poolSize : Nat) (specs : List ConnSpec) (evs : List Ev)
    (i : Nat) (out : List Action') (h : (i, out) ∈ (serve cfg (Pool.init poolSize true) specs evs).outs)
    (cmds : List Cmd) (segs : List Bytes) (hspec : specs[i]? = some ⟨segs, none⟩)
    (hseg : segs.flatten = stream cmds) (hs : Small (stream cmds)) (hmax : (stream cmds).length ≤ cfg.maxBuffer)
    (hok : ∀ c ∈ cmds, CmdOK cfg c) :
    out = (execAll cmds).map Action'.act := by
  obtain ⟨spec, hs1, ho⟩ := (fresh_connection_state cfg poolSize specs evs).2 (i, out) h
  simp only at hs1 ho
  rw [hspec] at hs1
  cases hs1
  rw [ho, solo, runConn_eq_run, segmentation_independent_cmdok cfg h14 hc hd cmds segs hseg hs hmax hok]
  congr 1
  unfold execAll
  induction cmds with
  | nil => rfl
  | cons c cs ih => simp [Action.isDropped]

/-- `*2\r\n$3\r\nGET\r\n$5\r\nab` — a client that disconnects in the middle of a frame -/
def midFrame : Bytes := [42, 50, 13, 10, 36, 51, 13, 10, 71, 69, 84, 13, 10, 36, 53, 13, 10, 97, 98]

/-- non-vacuity: after that client, a pipeline `PING`, `GET k` on the same one-buffer pool -/
example : ((serve cfg14 (Pool.init 1 true) [⟨[midFrame], none⟩, ⟨[stream [cmdPing, cmdGetK]], none⟩] (seqEvents 2)).outs.map
    (fun o => o.2.length)) = [0, 2] := by decide

/-- WITHOUT the `buf.clear()` in `release` the statement fails: the stale half frame is parsed in
    front of the next client's pipeline (its PING is swallowed as the rest of a bulk string) -/
theorem release_without_clear_counterexample : ¬ C04_fresh_connection_state false := by
  intro h
  have := (h cfg14 1 [⟨[midFrame], none⟩] (seqEvents 1)).1
  have hne : ((serve cfg14 (Pool.init 1 false) [⟨[midFrame], none⟩] (seqEvents 1)).pool.q.all Buf.isEmpty) = false := by
    decide
  have hall : ((serve cfg14 (Pool.init 1 false) [⟨[midFrame], none⟩] (seqEvents 1)).pool.q.all Buf.isEmpty) = true := by
    rw [List.all_eq_true]
    intro b hb
    rw [this b hb]
    rfl
  rw [hall] at hne
  exact absurd hne (by decide)

def anyProtoErr : List Action' → Bool
  | [] => false
  | .act .protoErr :: _ => true
  | _ :: rest => anyProtoErr rest

/-- … and the next client is answered wrongly: `PING`, `GET k` are answered with the reply to
    `GET "ab*1\r"` and a protocol error -/
example : ((serve cfg14 (Pool.init 1 false) [⟨[midFrame], none⟩, ⟨[stream [cmdPing, cmdGetK]], none⟩] (seqEvents 2)).outs.map
    (fun o => anyProtoErr o.2)) = [false, true] ∧
  ((serve cfg14 (Pool.init 1 true) [⟨[midFrame], none⟩, ⟨[stream [cmdPing, cmdGetK]], none⟩] (seqEvents 2)).outs.map
    (fun o => anyProtoErr o.2)) = [false, false] := by decide

/-! ## 4. the WRITE side: the bytes on the wire (Model/ConnWrite.lean)

Sections 1–3 are about WHICH frames are executed (`Action`s).  Here the replies are encoded into
the write buffer (`encode_resp_into` / `encode_error_into`), flushed at the end of every read by
`write_all` + `flush`, and the peer's socket answers every `poll_write` as it likes: it takes any
number `≥ 1` of the remaining bytes (partial writes), or returns `Ok(0)`, or fails; `poll_flush`
may fail; a `read()` may fail.  The executor is ANY function `Exec σ` over ANY state type. -/

open RedisVerif.ConnW

/-- full statement, for a value `h` of `HEADER_LEN`: for every executor, every well-formed pipeline,
    every segmentation of the READS and every segmentation of the WRITES (a peer that takes any
    number ≥ 1 of bytes per `poll_write` and never fails), under every configuration, the byte
    stream the client receives is exactly the concatenation of the encoded replies of the
    commands, executed once each, in command order -/
def C04_bytes_written (h : Nat) (guard : Bool) : Prop :=
  ∀ (σ : Type) (ex : Exec σ) (s0 : σ) (cfg : Config), cfg.headerLen = h → cfg.repaired = false → cfg.nameGuard = guard →
    cfg.codec = codec1 → 2 ≤ cfg.env.depth →
  ∀ (cmds : List Cmd) (segs : List Bytes) (script : List WEv), segs.flatten = stream cmds →
    Small (stream cmds) → (stream cmds).length ≤ cfg.maxBuffer → NoFail script = true →
    (runW cfg ex s0 script segs none).out = replyBytes ex s0 (cmds.map cmdFrame)

/-- the general form (`CmdOK`: name guard on, or no command name empty / white space only) -/
theorem bytes_written_cmdok (σ : Type) (ex : Exec σ) (s0 : σ) (cfg : Config) (h14 : DeadCfg cfg)
    (hc : cfg.codec = codec1) (hd : 1 ≤ cfg.env.depth) (cmds : List Cmd) (segs : List Bytes) (script : List WEv)
    (h : segs.flatten = stream cmds) (hs : Small (stream cmds)) (hmax : (stream cmds).length ≤ cfg.maxBuffer)
    (hok : ∀ c ∈ cmds, CmdOK cfg c) (hnf : NoFail script = true) :
    (runW cfg ex s0 script segs none).out = replyBytes ex s0 (cmds.map cmdFrame) := by
  have hrun := segmentation_independent_cmdok cfg h14 hc hd cmds segs h hs hmax hok
  have hnc : hasCrash (run cfg segs) = false := by
    rw [hrun, ← anyCrash_eq]; exact anyCrash_execAll cmds
  rw [runW_eq cfg ex s0 script segs hnf hnc, hrun, encActs_execAll]

theorem bytes_written : C04_bytes_written 14 true :=
  fun σ ex s0 cfg h14 hr hg hc hd cmds segs script h hs hmax hnf =>
    bytes_written_cmdok σ ex s0 cfg (DeadCfg.of14 hr h14) hc (by omega) cmds segs script h hs hmax (fun _ _ => ⟨hd, Or.inl hg⟩) hnf

/-- with HEADER_LEN = 13 the byte stream lacks the reply of a consumed-and-dropped GET -/
theorem bytes_written_header13_counterexample : ¬ C04_bytes_written 13 true := by
  intro h
  have := h ExSt refExec ExSt.init cfg13 rfl rfl rfl rfl (by decide) [cmdGetK, cmdPing, cmdPing, cmdPing]
    [stream [cmdGetK, cmdPing, cmdPing, cmdPing]] [] (by simp) (by decide) (by decide) rfl
  have hl : (runW cfg13 refExec ExSt.init [] [stream [cmdGetK, cmdPing, cmdPing, cmdPing]] none).out.length = 21 := by
    decide
  rw [this] at hl
  exact absurd hl (by decide)

/-- PINNED behaviour (before fix 5f3bab5): after `PING` and the empty-named command the peer has the reply to PING only
    if the two arrive in different reads — in ONE read the panic takes the unflushed `+PONG` with it -/
theorem bytes_written_empty_name_counterexample : ¬ C04_bytes_written 14 false := by
  intro h
  have := h ExSt refExec ExSt.init cfg14 rfl rfl rfl rfl (by decide) [cmdPing, cmdEmptyName]
    [stream [cmdPing, cmdEmptyName]] [] (by simp) (by decide) (by decide) rfl
  have hl : (runW cfg14 refExec ExSt.init [] [stream [cmdPing, cmdEmptyName]] none).out.length = 0 := by decide
  rw [this] at hl
  exact absurd hl (by decide)

/-- … hence equal to what the client receives when every command arrives alone, in its own
    segment, under any other configuration, from a peer that takes every write whole -/
theorem bytes_as_sent_alone (σ : Type) (ex : Exec σ) (s0 : σ) (cfg cfg' : Config)
    (h14 : DeadCfg cfg) (h14' : DeadCfg cfg') (hc : cfg.codec = codec1) (hc' : cfg'.codec = codec1)
    (hd : 1 ≤ cfg.env.depth) (hd' : 1 ≤ cfg'.env.depth)
    (cmds : List Cmd) (segs : List Bytes) (script : List WEv) (h : segs.flatten = stream cmds)
    (hs : Small (stream cmds)) (hmax : (stream cmds).length ≤ cfg.maxBuffer) (hmax' : (stream cmds).length ≤ cfg'.maxBuffer)
    (hok : ∀ c ∈ cmds, CmdOK cfg c) (hok' : ∀ c ∈ cmds, CmdOK cfg' c) (hnf : NoFail script = true) :
    (runW cfg ex s0 script segs none).out = (runW cfg' ex s0 [] (cmds.map encCmd) none).out := by
  rw [bytes_written_cmdok σ ex s0 cfg h14 hc hd cmds segs script h hs hmax hok hnf,
    bytes_written_cmdok σ ex s0 cfg' h14' hc' hd' cmds (cmds.map encCmd) [] rfl hs hmax' hok' rfl]

/-- a peer that fails, closes or stops at ANY point (a failed `poll_write` after any number of
    partial writes, `Ok(0)`, a failed flush), a `read()` that fails after any number of reads: the
    client has received a PREFIX of the correct reply stream — never a reply out of order, never a
    reply to another command, never bytes that are not replies -/
theorem written_is_prefix (σ : Type) (ex : Exec σ) (s0 : σ) (cfg : Config) (h14 : DeadCfg cfg)
    (hc : cfg.codec = codec1) (hd : 1 ≤ cfg.env.depth)
    (cmds : List Cmd) (segs : List Bytes) (script : List WEv) (stopAfter : Option Nat) (h : segs.flatten = stream cmds)
    (hs : Small (stream cmds)) (hmax : (stream cmds).length ≤ cfg.maxBuffer) (hok : ∀ c ∈ cmds, CmdOK cfg c) :
    (runW cfg ex s0 script segs stopAfter).out <+: replyBytes ex s0 (cmds.map cmdFrame) := by
  have hrun := segmentation_independent_cmdok cfg h14 hc hd cmds segs h hs hmax hok
  have hnc : hasCrash (run cfg segs) = false := by
    rw [hrun, ← anyCrash_eq]; exact anyCrash_execAll cmds
  have := runW_prefix cfg ex s0 script segs stopAfter hnc
  rwa [hrun, encActs_execAll] at this

/-- NOTHING IS WITHHELD WHILE THE CLIENT WAITS.  The client has sent ANY PREFIX of a well-formed
    pipeline (`rest` is what it has not sent yet: the cut may fall at any byte), in any segmentation,
    and now waits.  Then exactly the commands `done` that are complete in what it sent have been
    executed, the bytes it has received are exactly the replies to `done` — all of them, none
    stranded in the write buffer until more input arrives — and what the handler still holds (`pre`)
    is a proper prefix of the next frame. -/
theorem nothing_withheld (σ : Type) (ex : Exec σ) (s0 : σ) (cfg : Config) (h14 : DeadCfg cfg)
    (hc : cfg.codec = codec1) (hd : 1 ≤ cfg.env.depth)
    (cmds : List Cmd) (segs : List Bytes) (rest : Bytes) (script : List WEv) (h : segs.flatten ++ rest = stream cmds)
    (hs : Small (stream cmds)) (hmax : (stream cmds).length ≤ cfg.maxBuffer) (hok : ∀ c ∈ cmds, CmdOK cfg c)
    (hnf : NoFail script = true) :
    ∃ (done left : List Cmd) (pre : Bytes), cmds = done ++ left ∧ segs.flatten = stream done ++ pre ∧
      (∀ c cs, left = c :: cs → pre.length < (encCmd c).length) ∧
      run cfg segs = execAll done ∧
      (runW cfg ex s0 script segs none).out = replyBytes ex s0 (done.map cmdFrame) := by
  obtain ⟨done, left, pre, tx', e1, e2, e3, e4⟩ :=
    reads_wf_prefix cfg h14 hc hd (chunksOf cfg segs) cmds [] rest false []
      (by simp [chunksOf, flatMap_splitReads_flatten, h]) hs hmax hok
      (by intro c cs _; have := encCmd_len_pos c; simp; omega)
  have hrun : run cfg segs = execAll done := by
    have := congrArg Prod.snd e4
    simpa [run, feedSegs, St.init, chunksOf] using this
  have hnc : hasCrash (run cfg segs) = false := by
    rw [hrun, ← anyCrash_eq]; exact anyCrash_execAll done
  refine ⟨done, left, pre, e1, ?_, e3, hrun, ?_⟩
  · have : segs.flatten ++ rest = (stream done ++ pre) ++ rest := by
      rw [h, e1, stream_append, List.append_assoc, e2]
    exact List.append_cancel_right this
  · rw [runW_eq cfg ex s0 script segs hnf hnc, hrun, encActs_execAll]

/-- non-vacuity: `SET k v`, `GET k` and 13 of the 14 bytes of a third command have arrived (in two segments, the
    peer takes 4 bytes at a time): both replies are on the wire -/
example : (runW cfg14 refExec ExSt.init [.accept 4, .accept 4, .accept 4, .accept 4]
    [(stream [cmdSetKV, cmdGetK, cmdPing]).take 30, ((stream [cmdSetKV, cmdGetK, cmdPing]).drop 30).take 30] none).out =
    [43, 79, 75, 13, 10, 36, 49, 13, 10, 118, 13, 10] ∧ (stream [cmdSetKV, cmdGetK]).length = 47 ∧ (stream [cmdSetKV, cmdGetK, cmdPing]).length = 61 := by decide

/-- REFINEMENT for ARBITRARY input bytes (well-formed or not): what the peer receives is (a prefix
    of, and with a peer that never refuses exactly) the encoding of the actions of `Conn.run` —
    every action-level theorem of sections 1–3 is a theorem about the bytes on the wire -/
theorem written_refines_actions (σ : Type) (ex : Exec σ) (s0 : σ) (cfg : Config) (hck : cfg.checked = true)
    (hng : cfg.nameGuard = true) (hc : cfg.codec = codec1) (hd : maxNesting + 1 ≤ cfg.env.depth) (hmax : cfg.maxBuffer < 72057594037927936)
    (segs : List Bytes) (script : List WEv) (stopAfter : Option Nat) :
    (runW cfg ex s0 script segs stopAfter).out <+: (encActs ex s0 (run cfg segs)).2 ∧
    (NoFail script = true → (runW cfg ex s0 script segs none).out = (encActs ex s0 (run cfg segs)).2) := by
  have hnc := run_no_crash cfg hck hng hc hd hmax segs
  exact ⟨runW_prefix cfg ex s0 script segs stopAfter hnc, fun hnf => runW_eq cfg ex s0 script segs hnf hnc⟩

/-- END TO END (with C15's `decode ∘ encode`): a client that feeds what it receives — cut into ANY
    fragments — to the buffer loop around either decoder obtains exactly one frame per command, in
    command order, the i-th being the reply of the i-th command (as written on the wire), with no
    byte left over.  `ValOK`: the executor's replies are values of the reply type that fit the
    client's stack and nest at most 32 arrays. -/
theorem client_decodes_one_reply_per_command (σ : Type) (ex : Exec σ) (s0 : σ) (cfg : Config)
    (h14 : DeadCfg cfg) (hc : cfg.codec = codec1) (hd : 1 ≤ cfg.env.depth)
    (cmds : List Cmd) (segs : List Bytes) (script : List WEv) (h : segs.flatten = stream cmds)
    (hs : Small (stream cmds)) (hmax : (stream cmds).length ≤ cfg.maxBuffer) (hok : ∀ c ∈ cmds, CmdOK cfg c)
    (hnf : NoFail script = true)
    (c : Codec) (hcc : c = codec1 ∨ c = codec2) (cenv : Env) (hcd : 1 ≤ cenv.depth)
    (hex : ∀ s f p, ValOK c cenv (ex s f p).2)
    (chunks : List Bytes) (hch : chunks.flatten = (runW cfg ex s0 script segs none).out)
    (hsm : Small (runW cfg ex s0 script segs none).out) :
    feedAll (fun b => (parseG c cenv b).out) FeedSt.init chunks =
      ⟨(replyVals ex s0 (cmds.map cmdFrame)).map (fun v => Frame.val v.san), [], false⟩ ∧
    (replyVals ex s0 (cmds.map cmdFrame)).length = cmds.length := by
  have hb := bytes_written_cmdok σ ex s0 cfg h14 hc hd cmds segs script h hs hmax hok hnf
  rw [hb, replyBytes_eq] at hch hsm
  refine ⟨feedAll_encoded c hcc cenv hcd _ (replyVals_ok ex _ hex _ _) chunks hch hsm, ?_⟩
  rw [replyVals_length, List.length_map]

/-- non-vacuity of the hypotheses: an executor whose every reply is `+OK` satisfies `ValOK` for both
    decoders; the guarded default configuration satisfies the hypotheses of `written_refines_actions`
    and `malformed_no_crash` -/
example : (∀ (s : Unit) (f : Val) (p : Path), ValOK codec2 cfg14.env ((fun (u : Unit) (_ : Val) (_ : Path) => (u, Val.simple [79, 75])) s f p).2) ∧
    cfgG.checked = true ∧ cfgG.nameGuard = true ∧ cfgG.codec = codec1 ∧ maxNesting + 1 ≤ cfgG.env.depth ∧
    cfgG.maxBuffer < 72057594037927936 :=
  ⟨fun _ _ _ => (by decide : ValOK codec2 cfg14.env (Val.simple [79, 75])), rfl, rfl, rfl, by decide, by decide⟩

/-- non-vacuity: `SET k v`, `GET k`, `PING` cut inside a header; the peer takes 1, 7, 2 bytes, then
    everything; the client gets `+OK\r\n$1\r\nv\r\n+PONG\r\n` and decodes three replies from 3-byte pieces -/
example : NoFail [.accept 1, .accept 7, .accept 2] = true ∧
    (runW cfg14 refExec ExSt.init [.accept 1, .accept 7, .accept 2]
      [(stream [cmdSetKV, cmdGetK, cmdPing]).take 9, (stream [cmdSetKV, cmdGetK, cmdPing]).drop 9] none).out =
      [43, 79, 75, 13, 10, 36, 49, 13, 10, 118, 13, 10, 43, 80, 79, 78, 71, 13, 10] := by decide

/-- … and a peer that fails after 6 bytes has received the first reply and one byte of the second -/
example : (runW cfg14 refExec ExSt.init [.accept 6, .fail] [stream [cmdSetKV, cmdGetK, cmdPing]] none).out =
    [43, 79, 75, 13, 10, 36] ∧
    (runW cfg14 refExec ExSt.init [.accept 6, .accept 0] [stream [cmdSetKV, cmdGetK, cmdPing]] none).ended = true := by
  decide

/-! ## 6. THE CODE AS IT IS: the repaired recognisers (fix de38a13, prepared as 32f1749 on `fixes-conn-s4`: HEADER_LEN = 13, LF and UTF-8 tests, an
incomplete frame is left to the generic parser, collected commands are always executed, the gate
asks the ACL) — `Config.repaired = true`, `headerLen = 13`

The six findings `C04:malformed-{accepted,silence}:*-lookalike`, `C04:malformed-stall:*-lookalike-prefix` (fixed)
had ONE cause (the recognisers index a 13-byte header with 14); changing the constant alone is
refuted above (`header13_counterexample`).  What follows is proved about the model of the repaired
code (the model follows the source through `VERIF_C04_INCOMPLETE` / `VERIF_C04_HEADER_LEN`; `./check`
reports a broken proof obligation when the source reads anything but 13 / `NotFastPath`). -/

/-- the repaired code with the default thresholds -/
def cfgR : Config := { cfg14 with headerLen := 13, nameGuard := true, repaired := true }

example : Repaired13 cfgR := ⟨rfl, rfl, rfl, by decide⟩

/-- THE LOOK-ALIKE CLASS IS EMPTY: whatever a repaired recogniser takes — in any buffer that can
    exist — is a frame that the generic decoder decodes to the very same command (name as written,
    key, value), consuming the very same bytes; and a repaired recogniser never answers "need more
    data" (the cause of the stalls), it takes a frame or leaves it to the decoder -/
theorem repaired_recognisers_sound (env : Env) (hd : 2 ≤ env.depth) (buf : Bytes) (hs : Small buf) :
    (∀ key total, recogGetR 13 buf = .get key total →
      (parse1 env buf).out = .ok (getFrameN buf key) total ∧ validUtf8 key = true) ∧
    (∀ key val total, recogSetR 13 buf = .set key val total →
      (parse1 env buf).out = .ok (setFrameN buf key val) total ∧ validUtf8 key = true) ∧
    ((∃ k t, recogGetR 13 buf = .get k t) ∨ recogGetR 13 buf = .notFast) ∧
    ((∃ k v t, recogSetR 13 buf = .set k v t) ∨ recogSetR 13 buf = .notFast) :=
  ⟨fun key total h => let r := recogGetR_sound env hd buf key total hs h; ⟨r.1, r.2.2.2⟩,
   fun key val total h => let r := recogSetR_sound env hd buf key val total hs h; ⟨r.1, r.2.2.2⟩,
   recogGetR_cases 13 buf, recogSetR_cases 13 buf⟩

/-- bytes a recogniser takes (0 = it declines / waits) -/
def took : Recog → Nat
  | .get _ t => t
  | .set _ _ t => t
  | _ => 0

/-- non-vacuity: a well-formed `GET k` / `get k` / `SET k v` IS taken (the paths are alive), a key that is
    not UTF-8 is left to the generic path, the old look-alike and a lone CR in the length line are declined -/
example : took (recogGetR 13 (encCmd cmdGetK)) = 20 ∧ took (recogGetR 13 (encCmd [[103, 101, 116], [107]])) = 20 ∧
    took (recogSetR 13 (encCmd cmdSetKV)) = 27 ∧ took (recogGetR 13 (encCmd [[71, 69, 84], [255]])) = 0 ∧
    took (recogGetR 13 getLookalike) = 0 ∧
    took (recogGetR 13 [42, 50, 13, 10, 36, 51, 13, 10, 71, 69, 84, 13, 10, 36, 49, 13, 88, 107, 13, 10]) = 0 := by decide

/-- TRANSPARENCY: for EVERY byte stream (well-formed or not) in EVERY segmentation, under every
    batching configuration, the repaired connection does exactly what it does with the recognisers
    switched off (`cfg.off`: a user without unrestricted keys — the generic decoder carries
    everything): the same frames in the same order, the same protocol errors, the same end — only
    the label of the path that carried a frame differs.  Every statement about the generic loop is
    a statement about the repaired connection. -/
theorem repaired_transparent (cfg : Config) (hR : Repaired13 cfg) (hmax : cfg.maxBuffer < 72057594037927936)
    (segs : List Bytes) :
    (run cfg segs).map Action.noPath = (run cfg.off segs).map Action.noPath :=
  run_transparent cfg hR hmax segs

/-- full statement for the repaired code: every segmentation of every well-formed pipeline, under
    every batching configuration, executes every command exactly once, in order — on whichever path -/
def C04_segmentation_independent_repaired (h : Nat) : Prop :=
  ∀ (cfg : Config), cfg.headerLen = h → cfg.repaired = true → cfg.nameGuard = true → cfg.codec = codec1 → 2 ≤ cfg.env.depth →
  cfg.maxBuffer < 72057594037927936 →
  ∀ (cmds : List Cmd) (segs : List Bytes), segs.flatten = stream cmds →
    Small (stream cmds) → (stream cmds).length ≤ cfg.maxBuffer →
    (run cfg segs).map Action.noPath = execAll cmds

theorem segmentation_independent_repaired : C04_segmentation_independent_repaired 13 := by
  intro cfg h13 hrep hg hc hd hmb cmds segs h hs hmax
  rw [run_transparent cfg ⟨hrep, h13, hc, hd⟩ hmb segs,
    run_wf cfg.off (DeadCfg.off cfg hrep) hc (by have : cfg.off.env = cfg.env := rfl; rw [this]; omega) cmds segs h hs hmax
      (fun _ _ => ⟨hd, Or.inl hg⟩), noPath_execAll]

/-- exactly one reply per command, each equal to the reply the command gets when every command
    arrives alone, in its own segment, under any other repaired configuration -/
theorem one_reply_per_command_repaired (cfg cfg' : Config) (hR : Repaired13 cfg) (hR' : Repaired13 cfg')
    (hg : cfg.nameGuard = true) (hg' : cfg'.nameGuard = true)
    (hmb : cfg.maxBuffer < 72057594037927936) (hmb' : cfg'.maxBuffer < 72057594037927936)
    (cmds : List Cmd) (segs : List Bytes) (h : segs.flatten = stream cmds)
    (hs : Small (stream cmds)) (hmax : (stream cmds).length ≤ cfg.maxBuffer) (hmax' : (stream cmds).length ≤ cfg'.maxBuffer)
    (s : ExSt) :
    (replies ExSt.init (run cfg segs)).length = cmds.length ∧
    replies s (run cfg segs) = replies s (run cfg' (cmds.map encCmd)) := by
  have e1 := segmentation_independent_repaired cfg hR.2.1 hR.1 hg hR.2.2.1 hR.2.2.2 hmb cmds segs h hs hmax
  have e2 := segmentation_independent_repaired cfg' hR'.2.1 hR'.1 hg' hR'.2.2.1 hR'.2.2.2 hmb' cmds (cmds.map encCmd) rfl hs hmax'
  refine ⟨?_, ?_⟩
  · rw [← replies_noPath, e1]; exact replies_execAll_length _ _
  · rw [← replies_noPath (run cfg segs), ← replies_noPath (run cfg' _), e1, e2]

/-- FULL statement of the second sentence of the property for the repaired code — no restriction to
    frames that do not begin with `*` any more: ANY bytes after a well-formed pipeline, in any
    segmentation: no panic, no frame consumed without a reply, the replies to the pipeline
    untouched; and when the decoder rejects the trailing frame it is answered with
    `-ERR protocol error` right after the replies to the commands before it -/
def C04_malformed_is_error_repaired (cfg : Config) : Prop :=
  ∀ (cmds : List Cmd) (junk : Bytes) (segs : List Bytes), segs.flatten = stream cmds ++ junk →
    Small (stream cmds ++ junk) → (stream cmds ++ junk).length ≤ cfg.maxBuffer → (∀ c ∈ cmds, CmdOK cfg c) →
    hasCrash (run cfg segs) = false ∧ hasDropped (run cfg segs) = false ∧
    ((run cfg segs).map Action.noPath).take cmds.length = execAll cmds ∧
    (∀ e, (parse1 cfg.env junk).out = .error e →
      ∃ tail, (run cfg segs).map Action.noPath = execAll cmds ++ Action.protoErr :: tail)

theorem hasDropped_of_noDropped : ∀ (acts : List Action), (∀ a ∈ acts, a.isDropped = false) → hasDropped acts = false := by
  intro acts
  induction acts with
  | nil => intro _; rfl
  | cons a as ih =>
    intro h
    have ha := h a (by simp)
    have := ih (fun x hx => h x (by simp [hx]))
    cases a <;> simp_all [hasDropped, Action.isDropped]

theorem malformed_is_error_repaired (cfg : Config) (hR : Repaired13 cfg) (hck : cfg.checked = true)
    (hg : cfg.nameGuard = true) (hd : maxNesting + 1 ≤ cfg.env.depth) (hmb : cfg.maxBuffer < 72057594037927936) :
    C04_malformed_is_error_repaired cfg := by
  intro cmds junk segs h hs hmax hok
  have htr := run_transparent cfg hR hmb segs
  have hokoff : ∀ c ∈ cmds, CmdOK cfg.off c := hok
  obtain ⟨tail, ht⟩ := run_junk cfg.off (DeadCfg.off cfg hR.1) hR.2.2.1 cmds junk segs h hs hmax hokoff
  refine ⟨run_no_crash cfg hck hg hR.2.2.1 hd hmb segs,
    hasDropped_of_noDropped _ (run_noDropped cfg hR.1 segs), ?_, ?_⟩
  · rw [htr, ht, List.map_append, noPath_execAll]
    have : (execAll cmds).length = cmds.length := by simp [execAll]
    rw [← this, List.take_left']
    rfl
  · intro e hrej
    obtain ⟨tail', ht'⟩ := run_junk_error cfg.off (DeadCfg.off cfg hR.1) hR.2.2.1
      (by have : cfg.off.env = cfg.env := rfl; rw [this]; unfold maxNesting at hd; omega)
      cmds junk segs h (Or.inr ⟨hR.1, rfl⟩) e hrej hs hmax hokoff
    refine ⟨tail'.map Action.noPath, ?_⟩
    rw [htr, ht', List.map_append, noPath_execAll]
    rfl

def firstIsProtoErr : List Action → Bool
  | .protoErr :: _ => true
  | _ => false

/-- non-vacuity, on the witnesses of the six known findings: under the repaired configuration the
    look-alike is answered with a protocol error — alone, in a buffer above `min_pipeline_buffer`
    with three PINGs behind it (four replies for four frames, nothing dropped; the handler clears
    its buffer at a protocol error, so the PINGs of the same read go with it: one reply),
    and as a prefix after a PING (no stall) — and the well-formed `GET k` that `HEADER_LEN = 13`
    alone would drop below `batch_threshold` (`header13_counterexample`) is answered -/
example : firstIsProtoErr (run cfgR [getLookalike]) = true ∧ replyCount (run cfgR [getLookalike]) = 1 ∧
    hasDropped (run cfgR [getLookalike ++ stream [cmdPing, cmdPing, cmdPing]]) = false ∧
    firstIsProtoErr (run cfgR [getLookalike ++ stream [cmdPing, cmdPing, cmdPing]]) = true ∧
    replyCount (run cfgR [stream [cmdPing], getLookalike.take 15 ++ [52, 13, 10, 97, 98]]) = 2 ∧
    replyCount (run cfgR [stream [cmdGetK, cmdPing, cmdPing, cmdPing]]) = 4 ∧
    hasDropped (run cfgR [stream [cmdGetK, cmdPing, cmdPing, cmdPing]]) = false := by decide

/-- an executor that answers a frame the same on every path does not see the path labels -/
theorem encActs_noPath {σ : Type} (ex : Exec σ) (hex : ∀ s f p, ex s f p = ex s f .generic) :
    ∀ (acts : List Action) (s : σ), encActs ex s (acts.map Action.noPath) = encActs ex s acts := by
  intro acts
  induction acts with
  | nil => intro s; rfl
  | cons a as ih =>
    intro s
    cases a with
    | exec f p => simp only [List.map_cons, Action.noPath, encActs, ih, hex s f p]
    | dropped f => simp only [List.map_cons, Action.noPath, encActs, ih]
    | protoErr => simp only [List.map_cons, Action.noPath, encActs, ih]
    | overflow => simp only [List.map_cons, Action.noPath, encActs, ih]
    | crash => simp only [List.map_cons, Action.noPath, encActs]

/-- the bytes on the wire, repaired code: for every executor that answers a frame the same on every
    path (`get_direct` IS GET, `set_direct` IS plain SET: C03's `execVia_refines`), every well-formed
    pipeline, every segmentation of the reads and of the writes, the client receives exactly the
    concatenation of the encoded replies, in command order -/
theorem bytes_written_repaired (σ : Type) (ex : Exec σ) (s0 : σ) (hex : ∀ s f p, ex s f p = ex s f .generic)
    (cfg : Config) (hR : Repaired13 cfg) (hck : cfg.checked = true) (hg : cfg.nameGuard = true)
    (hd : maxNesting + 1 ≤ cfg.env.depth) (hmb : cfg.maxBuffer < 72057594037927936)
    (cmds : List Cmd) (segs : List Bytes) (script : List WEv) (h : segs.flatten = stream cmds)
    (hs : Small (stream cmds)) (hmax : (stream cmds).length ≤ cfg.maxBuffer) (hnf : NoFail script = true) :
    (runW cfg ex s0 script segs none).out = replyBytes ex s0 (cmds.map cmdFrame) := by
  have hrun := segmentation_independent_repaired cfg hR.2.1 hR.1 hg hR.2.2.1 hR.2.2.2 hmb cmds segs h hs hmax
  have hnc := run_no_crash cfg hck hg hR.2.2.1 hd hmb segs
  rw [runW_eq cfg ex s0 script segs hnf hnc, ← encActs_noPath ex hex, hrun, encActs_execAll]

example : ∀ (s : ExSt) (f : Val) (p : Path), refExec s f p = refExec s f .generic := fun _ _ _ => rfl

/-- NOTHING IS WITHHELD WHILE THE CLIENT WAITS, the code as it is: the client has sent ANY PREFIX of a
    well-formed pipeline (cut at any byte), in any segmentation, and waits — exactly the commands complete
    in what it sent have been executed (on whichever path) and the bytes it has received are exactly
    their replies: no reply is stranded until more input arrives, no recogniser waits for bytes the
    decoder does not need -/
theorem nothing_withheld_repaired (σ : Type) (ex : Exec σ) (s0 : σ) (hex : ∀ s f p, ex s f p = ex s f .generic)
    (cfg : Config) (hR : Repaired13 cfg) (hck : cfg.checked = true) (hg : cfg.nameGuard = true)
    (hd : maxNesting + 1 ≤ cfg.env.depth) (hmb : cfg.maxBuffer < 72057594037927936)
    (cmds : List Cmd) (segs : List Bytes) (rest : Bytes) (script : List WEv) (h : segs.flatten ++ rest = stream cmds)
    (hs : Small (stream cmds)) (hmax : (stream cmds).length ≤ cfg.maxBuffer) (hnf : NoFail script = true) :
    ∃ (done left : List Cmd) (pre : Bytes), cmds = done ++ left ∧ segs.flatten = stream done ++ pre ∧
      (∀ c cs, left = c :: cs → pre.length < (encCmd c).length) ∧
      (run cfg segs).map Action.noPath = execAll done ∧
      (runW cfg ex s0 script segs none).out = replyBytes ex s0 (done.map cmdFrame) := by
  obtain ⟨done, left, pre, e1, e2, e3, e4, _⟩ :=
    nothing_withheld σ ex s0 cfg.off (DeadCfg.off cfg hR.1) hR.2.2.1
      (by have : cfg.off.env = cfg.env := rfl; rw [this]; unfold maxNesting at hd; omega)
      cmds segs rest script h hs hmax (fun _ _ => ⟨hR.2.2.2, Or.inl hg⟩) hnf
  have htr := run_transparent cfg hR hmb segs
  have hrun : (run cfg segs).map Action.noPath = execAll done := by rw [htr, e4, noPath_execAll]
  have hnc := run_no_crash cfg hck hg hR.2.2.1 hd hmb segs
  refine ⟨done, left, pre, e1, e2, e3, hrun, ?_⟩
  rw [runW_eq cfg ex s0 script segs hnf hnc, ← encActs_noPath ex hex, hrun, encActs_execAll]

/-- a peer that fails, closes or stops at ANY point, a `read()` that fails: the client of the code as
    it is has received a PREFIX of the correct reply stream -/
theorem written_is_prefix_repaired (σ : Type) (ex : Exec σ) (s0 : σ) (hex : ∀ s f p, ex s f p = ex s f .generic)
    (cfg : Config) (hR : Repaired13 cfg) (hck : cfg.checked = true) (hg : cfg.nameGuard = true)
    (hd : maxNesting + 1 ≤ cfg.env.depth) (hmb : cfg.maxBuffer < 72057594037927936)
    (cmds : List Cmd) (segs : List Bytes) (script : List WEv) (stopAfter : Option Nat) (h : segs.flatten = stream cmds)
    (hs : Small (stream cmds)) (hmax : (stream cmds).length ≤ cfg.maxBuffer) :
    (runW cfg ex s0 script segs stopAfter).out <+: replyBytes ex s0 (cmds.map cmdFrame) := by
  have hrun := segmentation_independent_repaired cfg hR.2.1 hR.1 hg hR.2.2.1 hR.2.2.2 hmb cmds segs h hs hmax
  have hnc := run_no_crash cfg hck hg hR.2.2.1 hd hmb segs
  have := runW_prefix cfg ex s0 script segs stopAfter hnc
  rwa [← encActs_noPath ex hex, hrun, encActs_execAll] at this

/-- END TO END with C15, the code as it is: a client that feeds what it receives — cut into ANY
    fragments — to the buffer loop around either decoder obtains exactly one frame per command, in
    command order, nothing left over -/
theorem client_decodes_one_reply_per_command_repaired (σ : Type) (ex : Exec σ) (s0 : σ)
    (hex : ∀ s f p, ex s f p = ex s f .generic)
    (cfg : Config) (hR : Repaired13 cfg) (hck : cfg.checked = true) (hg : cfg.nameGuard = true)
    (hd : maxNesting + 1 ≤ cfg.env.depth) (hmb : cfg.maxBuffer < 72057594037927936)
    (cmds : List Cmd) (segs : List Bytes) (script : List WEv) (h : segs.flatten = stream cmds)
    (hs : Small (stream cmds)) (hmax : (stream cmds).length ≤ cfg.maxBuffer) (hnf : NoFail script = true)
    (c : Codec) (hcc : c = codec1 ∨ c = codec2) (cenv : Env) (hcd : 1 ≤ cenv.depth)
    (hval : ∀ s f p, ValOK c cenv (ex s f p).2)
    (chunks : List Bytes) (hch : chunks.flatten = (runW cfg ex s0 script segs none).out)
    (hsm : Small (runW cfg ex s0 script segs none).out) :
    feedAll (fun b => (parseG c cenv b).out) FeedSt.init chunks =
      ⟨(replyVals ex s0 (cmds.map cmdFrame)).map (fun v => Frame.val v.san), [], false⟩ ∧
    (replyVals ex s0 (cmds.map cmdFrame)).length = cmds.length := by
  have hb := bytes_written_repaired σ ex s0 hex cfg hR hck hg hd hmb cmds segs script h hs hmax hnf
  rw [hb, replyBytes_eq] at hch hsm
  refine ⟨feedAll_encoded c hcc cenv hcd _ (replyVals_ok ex _ hval _ _) chunks hch hsm, ?_⟩
  rw [replyVals_length, List.length_map]

/-! ## 5. the MIRROR the repository's own connection tests use (Model/ConnSim.lean)

`SimulatedConnection::process` (src/simulator/connection.rs) is a second, hand-written implementation
of the read loop ("This mirrors `OptimizedConnectionHandler::run()`"): the repository's pipelining
tests run IT, not the production handler.  What does a test through the mirror say about the
production loop? -/

open RedisVerif.ConnSim

/-- full statement: on every input, in every segmentation, the mirror answers as many frames as the
    production handler (with the guarded `check_acl_permission`) does -/
def C04_mirror_faithful (cmdErr : Val → Bool) : Prop :=
  ∀ (chunks : List Bytes), Small chunks.flatten →
    (simRun cfgG.env cmdErr chunks).done.length = replyCount (run cfgG chunks)

/-- PARTIAL — and stronger on its domain: on every WELL-FORMED pipeline of commands the command
    parser accepts, for any two segmentations (the mirror's random partial reads, the network's
    segments and the handler's read size), under every configuration, the mirror executes exactly the
    frames the production handler executes, in the same order, each once -/
theorem mirror_agrees_on_wellformed_partial (cfg : Config) (h14 : DeadCfg cfg) (hc : cfg.codec = codec1)
    (cmdErr : Val → Bool) (cmds : List Cmd) (chunks segs : List Bytes)
    (hch : chunks.flatten = stream cmds) (hseg : segs.flatten = stream cmds)
    (hs : Small (stream cmds)) (hmax : (stream cmds).length ≤ cfg.maxBuffer) (hok : ∀ c ∈ cmds, CmdOK cfg c)
    (hd : 2 ≤ cfg.env.depth) (hce : ∀ c ∈ cmds, cmdErr (cmdFrame c) = false) :
    (simRun cfg.env cmdErr chunks).done = execFrames (run cfg segs) ∧
    (simRun cfg.env cmdErr chunks).buf = [] ∧ (simRun cfg.env cmdErr chunks).crashed = false := by
  rw [simRun_wf cfg.env cmdErr hd cmds chunks hch hs hce,
    segmentation_independent_cmdok cfg h14 hc (by omega) cmds segs hseg hs hmax hok, execFrames_execAll]
  exact ⟨rfl, rfl, rfl⟩

/-- `GET` without a key: a well-formed frame that `Command::from_resp_zero_copy` rejects -/
def isGetNoKey : Val → Bool
  | .array [.bulk [71, 69, 84]] => true
  | _ => false

/-- COUNTEREXAMPLE 1: a frame the RESP grammar rejects (`?x\r\n`) — the production handler answers
    `-ERR protocol error`, the mirror clears its buffer and answers NOTHING -/
theorem mirror_silent_on_protocol_error_counterexample : ¬ C04_mirror_faithful (fun _ => false) := by
  intro h
  have := h [[63, 120, 13, 10]] (by decide)
  exact absurd this (by decide)

/-- COUNTEREXAMPLE 2: `GET` (no key), then `PING`, in one read — the production handler answers both
    (an error, then PONG); the mirror `break`s at the rejected command without a reply and leaves
    PING unexecuted in its buffer until more bytes arrive -/
theorem mirror_stalls_after_rejected_command_counterexample : ¬ C04_mirror_faithful isGetNoKey := by
  intro h
  have := h [stream [[[71, 69, 84]], cmdPing]] (by decide)
  exact absurd this (by decide)

example : replyCount (run cfgG [stream [[[71, 69, 84]], cmdPing]]) = 2 ∧
    (simRun cfgG.env isGetNoKey [stream [[[71, 69, 84]], cmdPing]]).done.length = 0 ∧
    (simRun cfgG.env isGetNoKey [stream [[[71, 69, 84]], cmdPing]]).buf = stream [cmdPing] ∧
    (simRun cfgG.env isGetNoKey [(stream [cmdGetK, cmdPing]).take 7, (stream [cmdGetK, cmdPing]).drop 7]).done.length = 2 := by
  decide

end RedisVerif.C04
