import RedisVerif.Lemmas.OuterUnique
import RedisVerif.Lemmas.ReachRestart
import RedisVerif.Model.Lattice

/-!
# C07 over the values a cluster can produce — the hypotheses of `rv_merge_comm` /
# `rv_merge_assoc_partial` discharged

`Props/C07.lean` proves commutativity of `ReplicatedValue::merge` under the decidable hypothesis
`TieConsistent a b` and associativity for `SameKind` triples.  The property text quantifies over
"all values replicas can produce".  Here that set is made explicit — `Reach c k`: what any node of
a cluster STORES for key `k`, what any node has SHIPPED for `k`, closed under `merge` (a peer
applying a delta, anti-entropy, recovery folding segments, any nesting) — for a cluster
`(init n causal).run evs` of any size after ANY history of local writes (SET / DEL / HSET / HDEL
on any keys, any values, expiries) and deliveries (any delta to any node, any order, duplicated,
echoed to its origin), and the hypotheses are THEOREMS about it:

* `reachable_tie_consistent` — any two reachable values of one key are tie-consistent (same
  (slot, stamp) ⇒ same register — C08's "a stamp identifies one write", `RInv.uniq` —, and values
  of different kinds never share an outer stamp — `OInv.func`);
* `reachable_merge_comm` — hence `merge a b = merge b a` with NO tie hypothesis, all kinds the
  actors produce incl. cross-kind pairs, tombstones, equal times from different replicas;
* `reachable_merge_assoc` — associativity for every key that is used as one Redis type
  (decidable on the issued deltas); `reachable_assoc_cross_kind_counterexample`: for a key used
  as a string AND as a hash the three deltas of ONE node (HSET, SET, HSET) already violate it —
  the known finding `C07:assoc:cross-kind:crdt`, now as a statement about an execution;
* the only hypothesis on the history is the code's own precondition of `record_hash_write`
  (`debug_assert!(!fields.is_empty())`); `empty_hwrite_breaks_tie` shows what it protects.
-/
namespace RedisVerif
namespace C07

open Cluster

/-- the values of key `k` that the cluster `c` can produce -/
inductive Reach (c : Cluster) (k : Nat) : RV → Prop
  | stored (i : Nat) (s : Shard) (v : RV) :
      c.nodes[i]? = some s → NMap.get s.keys k = some v → Reach c k v
  | sent (m : Msg) : m ∈ c.sent → m.key = k → Reach c k m.val
  | merge (a b : RV) : Reach c k a → Reach c k b → Reach c k (RV.merge a b)

/-- what the two cluster invariants say about one value of key `k` -/
def GCar (c : Cluster) (k : Nat) (v : RV) : Prop :=
  v.WF ∧ (∀ p ∈ v.crdt.slots, InCluster c (k, p.1, p.2)) ∧ SentPair c k (v.ts, v.crdt.kind)

/-- the part of the cluster invariants the tie argument needs (common to executions without
    crashes — `RInv` + `OInv` — and with crashes — `XInv`) -/
structure TieInv (c : Cluster) : Prop where
  wf : ∀ s ∈ c.nodes, s.NodeWF ∧ s.Inv
  sent_wf : ∀ m ∈ c.sent, m.val.WF ∧ m.val.Dominated
  uniq : ∀ a b, InCluster c a → InCluster c b → a.1 = b.1 → a.2.1 = b.2.1 →
    a.2.2.ts = b.2.2.ts → a.2.2 = b.2.2
  stored : ∀ (i : Nat) (s : Shard), c.nodes[i]? = some s → ∀ k v, NMap.get s.keys k = some v →
    SentPair c k (v.ts, v.crdt.kind)
  func : ∀ k p q, SentPair c k p → SentPair c k q → p.1 = q.1 → p.2 = q.2

theorem TieInv.of_run {c : Cluster} (hr : RInv c) (ho : OInv c) : TieInv c :=
  ⟨hr.wf, hr.sent_wf, hr.uniq, ho.stored, ho.func⟩

theorem TieInv.of_restarts {c : Cluster} (h : XInv c) : TieInv c :=
  ⟨h.wf, h.sent_wf, h.uniq, h.stored, h.func⟩

theorem gcar_of_reach_gen {c : Cluster} (hr : TieInv c) {k : Nat} {v : RV}
    (h : Reach c k v) : GCar c k v := by
  have ho := hr
  induction h with
  | stored i s v hs hg =>
    have hsmem : s ∈ c.nodes := List.mem_of_getElem? hs
    have hmem := NMap.mem_of_get hg
    refine ⟨(hr.wf s hsmem).1.2 _ hmem, ?_, ho.stored i s hs k v hg⟩
    intro p hp
    exact Or.inl ⟨s, hsmem, mem_shardRegs.mpr ⟨v, hmem, hp⟩⟩
  | sent m hm hk =>
    refine ⟨(hr.sent_wf m hm).1, ?_, ⟨m, hm, hk, rfl⟩⟩
    intro p hp
    right
    simp only [sentRegs, List.mem_flatMap]
    exact ⟨m, hm, mem_valRegs.mpr ⟨hk.symm, hp⟩⟩
  | merge a b _ _ iha ihb =>
    refine ⟨rv_merge_wf iha.1 ihb.1, ?_, ?_⟩
    · intro p hp
      rcases slots_merge iha.1 ihb.1 p hp with h1 | h1
      · exact iha.2.1 p h1
      · exact ihb.2.1 p h1
    · rcases RV.merge_pair a b with h1 | h1
      · rw [h1]; exact iha.2.2
      · rw [h1]; exact ihb.2.2

theorem tieOk_of_kind_ne {a b : Crdt} {sa sb : Stamp} (hk : a.kind ≠ b.kind) (hs : sa ≠ sb) :
    tieOk a b sa sb = true := by
  cases a <;> cases b <;> simp [tieOk, Crdt.kind] at * <;> exact hs

theorem gcar_of_reach {c : Cluster} (hr : RInv c) (ho : OInv c) {k : Nat} {v : RV}
    (h : Reach c k v) : GCar c k v := gcar_of_reach_gen (TieInv.of_run hr ho) h

theorem tie_of_gcar_gen {c : Cluster} (hr : TieInv c) {k : Nat} {a b : RV}
    (ha : GCar c k a) (hb : GCar c k b) : TieConsistent a b := by
  have ho := hr
  unfold TieConsistent
  by_cases hk : a.crdt.kind = b.crdt.kind
  · have hsa := ha.2.1
    have hsb := hb.2.1
    cases hca : a.crdt <;> cases hcb : b.crdt <;> rw [hca, hcb] at hk <;>
      simp [Crdt.kind] at hk <;> simp only [tieOk, Crdt.kind] <;> try (simp; done)
    · rename_i x y
      rw [hca] at hsa; rw [hcb] at hsb
      simp only [Crdt.slots] at hsa hsb
      by_cases hts : x.ts = y.ts
      · have := hr.uniq (k, 0, x) (k, 0, y) (hsa (0, x) (by simp)) (hsb (0, y) (by simp))
          rfl rfl hts
        simp only at this
        simp [this]
      · simp [hts]
    · rename_i x y
      rw [hca] at hsa; rw [hcb] at hsb
      simp only [Crdt.slots] at hsa hsb
      rw [List.all_eq_true]
      intro p hp
      rw [List.all_eq_true]
      intro q hq
      by_cases hf : p.1 = q.1
      · by_cases hts : p.2.ts = q.2.ts
        · have := hr.uniq (k, p.1, p.2) (k, q.1, q.2) (hsa p hp) (hsb q hq) rfl hf hts
          simp only at this
          simp [this]
        · simp [hts]
      · simp [hf]
  · apply tieOk_of_kind_ne hk
    intro hts
    exact hk (ho.func k (a.ts, a.crdt.kind) (b.ts, b.crdt.kind) ha.2.2 hb.2.2 hts)

theorem tie_of_gcar {c : Cluster} (hr : RInv c) (ho : OInv c) {k : Nat} {a b : RV}
    (ha : GCar c k a) (hb : GCar c k b) : TieConsistent a b :=
  tie_of_gcar_gen (TieInv.of_run hr ho) ha hb

/-! ## the theorems over executions -/

/-- the cluster after a history -/
abbrev exec (n : Nat) (causal : Bool) (evs : List Ev) : Cluster := (init n causal).run evs

theorem exec_inv (n : Nat) (causal : Bool) (evs : List Ev) (hv : ∀ e ∈ evs, e.Valid = true) :
    RInv (exec n causal evs) ∧ OInv (exec n causal evs) :=
  ROInv_run _ evs (RInv_init n causal) (OInv_init n causal) hv

/-- every value a cluster can produce is canonical -/
theorem reachable_wf (n : Nat) (causal : Bool) (evs : List Ev) (hv : ∀ e ∈ evs, e.Valid = true)
    (k : Nat) (a : RV) (ha : Reach (exec n causal evs) k a) : a.WF :=
  (gcar_of_reach (exec_inv n causal evs hv).1 (exec_inv n causal evs hv).2 ha).1

/-- **`TieConsistent` is an invariant of everything a cluster can produce.** -/
theorem reachable_tie_consistent (n : Nat) (causal : Bool) (evs : List Ev)
    (hv : ∀ e ∈ evs, e.Valid = true) (k : Nat) (a b : RV)
    (ha : Reach (exec n causal evs) k a) (hb : Reach (exec n causal evs) k b) :
    TieConsistent a b :=
  have h := exec_inv n causal evs hv
  tie_of_gcar h.1 h.2 (gcar_of_reach h.1 h.2 ha) (gcar_of_reach h.1 h.2 hb)

/-- **C07 (commutativity) over reachable values — no tie hypothesis.** -/
theorem reachable_merge_comm (n : Nat) (causal : Bool) (evs : List Ev)
    (hv : ∀ e ∈ evs, e.Valid = true) (k : Nat) (a b : RV)
    (ha : Reach (exec n causal evs) k a) (hb : Reach (exec n causal evs) k b) :
    RV.merge a b = RV.merge b a :=
  rv_merge_comm a b (reachable_wf n causal evs hv k a ha) (reachable_wf n causal evs hv k b hb)
    (reachable_tie_consistent n causal evs hv k a b ha hb)

/-- **C07 (idempotence) over reachable values.** -/
theorem reachable_merge_idem (n : Nat) (causal : Bool) (evs : List Ev)
    (hv : ∀ e ∈ evs, e.Valid = true) (k : Nat) (a : RV)
    (ha : Reach (exec n causal evs) k a) : RV.merge a a = a :=
  rv_merge_idem a (reachable_wf n causal evs hv k a ha)

/-- the key is used as ONE Redis type: every delta issued for it has kind `K` (decidable on the
    finite list of issued deltas) -/
def OneKind (c : Cluster) (k K : Nat) : Prop := ∀ m ∈ c.sent, m.key = k → m.val.crdt.kind = K

instance (c : Cluster) (k K : Nat) : Decidable (OneKind c k K) := by unfold OneKind; infer_instance

theorem reach_kind {c : Cluster} (ho : OInv c) {k K : Nat} (hK : OneKind c k K) {v : RV}
    (hr : RInv c) (h : Reach c k v) : v.crdt.kind = K := by
  obtain ⟨m, hm, hk, hp⟩ := (gcar_of_reach hr ho h).2.2
  have := hK m hm hk
  have h2 : m.val.crdt.kind = v.crdt.kind := congrArg Prod.snd hp
  rw [← h2]; exact this

/-- **C07 (associativity) over reachable values of a key used as one type.**  (For a key used as
    two types the law fails: `reachable_assoc_cross_kind_counterexample`.) -/
theorem reachable_merge_assoc (n : Nat) (causal : Bool) (evs : List Ev)
    (hv : ∀ e ∈ evs, e.Valid = true) (k K : Nat) (hK : OneKind (exec n causal evs) k K)
    (a b c : RV) (ha : Reach (exec n causal evs) k a) (hb : Reach (exec n causal evs) k b)
    (hc : Reach (exec n causal evs) k c) :
    RV.merge a (RV.merge b c) = RV.merge (RV.merge a b) c := by
  have h := exec_inv n causal evs hv
  have ka := reach_kind h.2 hK h.1 ha
  have kb := reach_kind h.2 hK h.1 hb
  have kc := reach_kind h.2 hK h.1 hc
  exact rv_merge_assoc_partial a b c (reachable_wf n causal evs hv k a ha)
    (reachable_wf n causal evs hv k b hb) (reachable_wf n causal evs hv k c hc)
    ⟨by rw [ka, kb], by rw [kb, kc]⟩

/-- all three laws in everything observable, for any three reachable values of a one-type key -/
theorem reachable_obs_laws (n : Nat) (causal : Bool) (evs : List Ev)
    (hv : ∀ e ∈ evs, e.Valid = true) (k K : Nat) (hK : OneKind (exec n causal evs) k K)
    (a b c : RV) (ha : Reach (exec n causal evs) k a) (hb : Reach (exec n causal evs) k b)
    (hc : Reach (exec n causal evs) k c) :
    obs (RV.merge a a) = obs a ∧ obs (RV.merge a b) = obs (RV.merge b a) ∧
    obs (RV.merge a (RV.merge b c)) = obs (RV.merge (RV.merge a b) c) := by
  exact ⟨by rw [reachable_merge_idem n causal evs hv k a ha],
    by rw [reachable_merge_comm n causal evs hv k a b ha hb],
    by rw [reachable_merge_assoc n causal evs hv k K hK a b c ha hb hc]⟩

/-! ## executions with crashes

A node may crash at any point and come back EMPTY (`Cluster.restart`: Lamport clock 0); what it
gets back — its own old deltas from WAL / segments through `apply_recovered_state(None, ..)`, from
peers, from anti-entropy — are ordinary deliveries.  The hypothesis `RecoversFirst` (decidable on
the history) is C08's limitation made explicit: a node does not write between a crash and having
re-absorbed every delta it issued before (recovery precedes serving; C09 / C11 / C12 supply it for
acknowledged-durable writes).  `restart_early_write_breaks_tie`: without it a stamp is re-used. -/

/-- the cluster after a history with crashes -/
abbrev execR (n : Nat) (causal : Bool) (evs : List REv) : Cluster := (init n causal).runR evs

theorem execR_inv (n : Nat) (causal : Bool) (evs : List REv)
    (hv : RecoversFirst (init n causal) evs) : TieInv (execR n causal evs) :=
  TieInv.of_restarts (XInv_runR _ evs (XInv_init n causal) hv)

/-- **`TieConsistent` is an invariant of everything a cluster can produce, crashes included.** -/
theorem reachableR_tie_consistent (n : Nat) (causal : Bool) (evs : List REv)
    (hv : RecoversFirst (init n causal) evs) (k : Nat) (a b : RV)
    (ha : Reach (execR n causal evs) k a) (hb : Reach (execR n causal evs) k b) :
    TieConsistent a b :=
  have h := execR_inv n causal evs hv
  tie_of_gcar_gen h (gcar_of_reach_gen h ha) (gcar_of_reach_gen h hb)

theorem reachableR_wf (n : Nat) (causal : Bool) (evs : List REv)
    (hv : RecoversFirst (init n causal) evs) (k : Nat) (a : RV)
    (ha : Reach (execR n causal evs) k a) : a.WF :=
  (gcar_of_reach_gen (execR_inv n causal evs hv) ha).1

/-- **C07 (commutativity) over reachable values, crashes included — no tie hypothesis.** -/
theorem reachableR_merge_comm (n : Nat) (causal : Bool) (evs : List REv)
    (hv : RecoversFirst (init n causal) evs) (k : Nat) (a b : RV)
    (ha : Reach (execR n causal evs) k a) (hb : Reach (execR n causal evs) k b) :
    RV.merge a b = RV.merge b a :=
  rv_merge_comm a b (reachableR_wf n causal evs hv k a ha) (reachableR_wf n causal evs hv k b hb)
    (reachableR_tie_consistent n causal evs hv k a b ha hb)

theorem reachR_kind {c : Cluster} (h : TieInv c) {k K : Nat} (hK : OneKind c k K) {v : RV}
    (hr : Reach c k v) : v.crdt.kind = K := by
  obtain ⟨m, hm, hk, hp⟩ := (gcar_of_reach_gen h hr).2.2
  have := hK m hm hk
  have h2 : m.val.crdt.kind = v.crdt.kind := congrArg Prod.snd hp
  rw [← h2]; exact this

/-- **C07 (associativity) over reachable values of a one-type key, crashes included.** -/
theorem reachableR_merge_assoc (n : Nat) (causal : Bool) (evs : List REv)
    (hv : RecoversFirst (init n causal) evs) (k K : Nat) (hK : OneKind (execR n causal evs) k K)
    (a b c : RV) (ha : Reach (execR n causal evs) k a) (hb : Reach (execR n causal evs) k b)
    (hc : Reach (execR n causal evs) k c) :
    RV.merge a (RV.merge b c) = RV.merge (RV.merge a b) c := by
  have h := execR_inv n causal evs hv
  have ka := reachR_kind h hK ha
  have kb := reachR_kind h hK hb
  have kc := reachR_kind h hK hc
  exact rv_merge_assoc_partial a b c (reachableR_wf n causal evs hv k a ha)
    (reachableR_wf n causal evs hv k b hb) (reachableR_wf n causal evs hv k c hc)
    ⟨by rw [ka, kb], by rw [kb, kc]⟩

/-- r1 writes k three times and ships; crashes; gets its three deltas back; writes again -/
def recoverThenWrite : List REv :=
  [ .ev (.loc 0 (.write 107 [1] none)), .ev (.loc 0 (.write 107 [2] none)),
    .ev (.loc 0 (.hwrite 108 [(5, [3])])), .ev (.deliver 1 0), .ev (.deliver 1 2),
    .restart 0,
    .ev (.deliver 0 2), .ev (.deliver 0 0), .ev (.deliver 0 1),
    .ev (.loc 0 (.write 107 [4] none)), .ev (.loc 0 (.hdelete 108 [5])),
    .restart 1, .ev (.deliver 1 3) ]

/-- r1 writes k, crashes, and writes again BEFORE it has its own delta back -/
def earlyWrite : List REv :=
  [ .ev (.loc 0 (.write 107 [1] none)), .ev (.deliver 1 0), .restart 0,
    .ev (.loc 0 (.write 107 [9] none)) ]

/-- non-vacuity of `RecoversFirst`, and its necessity: the early write re-uses stamp (1, r1) for
    another value; the two deltas are tie-inconsistent and merge order-dependently -/
theorem restart_early_write_breaks_tie :
    RecoversFirst (init 2 false) recoverThenWrite ∧
    (execR 2 false recoverThenWrite).sent.map (·.val.ts) = [⟨1, 1⟩, ⟨2, 1⟩, ⟨3, 1⟩, ⟨7, 1⟩, ⟨8, 1⟩] ∧
    ¬ RecoversFirst (init 2 false) earlyWrite ∧
    (∃ a b, (execR 2 false earlyWrite).sent.map (·.val) = [a, b] ∧ a.ts = b.ts ∧
      ¬ TieConsistent a b ∧ obs (RV.merge a b) ≠ obs (RV.merge b a)) := by
  refine ⟨by decide, by decide, by decide, _, _, rfl, ?_⟩
  decide

/-! ## what the hypotheses protect -/

/-- one node: `HSET h f 1`, `SET h v`, `HSET h g 2` -/
def crossKindRun : List Ev :=
  [.loc 0 (.hwrite 104 [(102, [49])]), .loc 0 (.write 104 [118] none),
   .loc 0 (.hwrite 104 [(103, [50])])]

/-- **Known finding C07:assoc:cross-kind as an execution**: the three deltas ONE node issues for a
    key it uses first as a hash, then as a string, then as a hash again are exactly the triple of
    `assoc_cross_kind_counterexample`; a peer that folds them as `a ⊔ (b ⊔ c)` keeps field `f`, one
    that folds them as `(a ⊔ b) ⊔ c` does not. -/
theorem reachable_assoc_cross_kind_counterexample :
    (∀ e ∈ crossKindRun, e.Valid = true) ∧
    (exec 1 false crossKindRun).sent.map (·.val) = [hashA, lwwB, hashC] ∧
    obs (RV.merge hashA (RV.merge lwwB hashC)) ≠ obs (RV.merge (RV.merge hashA lwwB) hashC) := by
  decide

theorem crossKind_reachable :
    Reach (exec 1 false crossKindRun) 104 hashA ∧ Reach (exec 1 false crossKindRun) 104 lwwB ∧
    Reach (exec 1 false crossKindRun) 104 hashC := by
  refine ⟨?_, ?_, ?_⟩
  · exact Reach.sent ⟨0, 104, hashA⟩ (by decide) rfl
  · exact Reach.sent ⟨0, 104, lwwB⟩ (by decide) rfl
  · exact Reach.sent ⟨0, 104, hashC⟩ (by decide) rfl

/-- `SET k v` then `record_hash_write(k, [])` — outside the function's precondition -/
def emptyHwriteRun : List Ev := [.loc 0 (.write 107 [118] none), .loc 0 (.hwrite 107 [])]

/-- the validity hypothesis is necessary: an empty field list re-labels the stored string as an
    (empty) hash under its OLD outer stamp; the two deltas then merge order-dependently -/
theorem empty_hwrite_breaks_tie :
    ¬ (∀ e ∈ emptyHwriteRun, e.Valid = true) ∧
    (∃ a b, (exec 1 false emptyHwriteRun).sent.map (·.val) = [a, b] ∧ a.ts = b.ts ∧
      ¬ TieConsistent a b ∧ obs (RV.merge a b) ≠ obs (RV.merge b a)) := by
  refine ⟨by decide, _, _, rfl, ?_⟩
  decide

/-- the counter / set kinds are NOT produced by any actor (no command maps to them; `Reach`
    contains only strings and hashes), only by the public constructor
    `ReplicatedValue::with_crdt(crdt, replica)`, which stamps EVERY value `(0, replica)`: two values
    of different kinds built by one replica through it are tie-inconsistent and merge
    order-dependently.  Not a violation of C07 (no replica produces them) — it is why the
    `reachable_*` theorems are stated over `Reach` and not over "everything the API can build". -/
theorem with_crdt_cross_kind_not_comm :
    let a := RV.withCrdt (.gcounter [(1, 2)]) 1
    let b := RV.withCrdt (.gset [7]) 1
    a.WF ∧ b.WF ∧ ¬ TieConsistent a b ∧ obs (RV.merge a b) ≠ obs (RV.merge b a) := by
  decide

/-! ## non-vacuity: a history with every op kind, a tie in time across replicas and a cross-kind
    pair satisfies the hypotheses; its reachable values are not trivial -/

def demoRun : List Ev :=
  [.loc 0 (.write 107 [1] none), .loc 1 (.hwrite 107 [(5, [2])]), .deliver 0 1, .deliver 1 0,
   .loc 0 (.delete 107), .loc 1 (.hdelete 107 [9]), .deliver 1 2]

example : (∀ e ∈ demoRun, e.Valid = true) ∧
    (exec 2 false demoRun).sent.map (fun m => (m.val.ts, m.val.crdt.kind)) =
      [(⟨1, 1⟩, 0), (⟨1, 2⟩, 5), (⟨3, 1⟩, 5), (⟨2, 2⟩, 5)] ∧
    OneKind (exec 2 false [.loc 0 (.write 107 [1] none), .loc 1 (.write 107 [2] (some 9))]) 107 0 := by
  decide

end C07
end RedisVerif

/-! ## `OneKind` from the history: a key that is only ever WRITTEN as one Redis type -/

namespace RedisVerif
namespace C07

open Cluster

/-- key `k` is written as strings only (`K = 0`: no `HSET k`) or as hashes only (`K = 5`: no
    `SET k`) along the history — decidable on the event list; DEL / HDEL do not choose a type -/
def UsedAs (K : Nat) (k : Nat) : List Ev → Prop
  | [] => True
  | .loc _ (.write k' _ _) :: evs => (k' = k → K = 0) ∧ UsedAs K k evs
  | .loc _ (.hwrite k' _) :: evs => (k' = k → K = 5) ∧ UsedAs K k evs
  | _ :: evs => UsedAs K k evs

instance decUsedAs (K k : Nat) : (evs : List Ev) → Decidable (UsedAs K k evs)
  | [] => isTrue trivial
  | .loc _ (.write _ _ _) :: evs => by
      have := decUsedAs K k evs; unfold UsedAs; exact inferInstance
  | .loc _ (.hwrite _ _) :: evs => by
      have := decUsedAs K k evs; unfold UsedAs; exact inferInstance
  | .loc _ (.delete _) :: evs => by
      have := decUsedAs K k evs; unfold UsedAs; exact this
  | .loc _ (.hdelete _ _) :: evs => by
      have := decUsedAs K k evs; unfold UsedAs; exact this
  | .deliver _ _ :: evs => by
      have := decUsedAs K k evs; unfold UsedAs; exact this

/-- every value of key `k` anywhere in the cluster has kind `K` -/
def AllKind (c : Cluster) (k K : Nat) : Prop :=
  (∀ (i : Nat) (s : Shard), c.nodes[i]? = some s → ∀ v, NMap.get s.keys k = some v → v.crdt.kind = K) ∧
  (∀ m ∈ c.sent, m.key = k → m.val.crdt.kind = K)

/-- the kind of the delta of a local step: chosen by SET / HSET, inherited by DEL / HDEL -/
theorem local_kind (s : Shard) (op : LOp) (d : RV) (hd : (Shard.step s op.toOp).2 = some d) :
    (∃ k v e, op = .write k v e ∧ d.crdt.kind = 0) ∨ (∃ k fs, op = .hwrite k fs ∧ d.crdt.kind = 5) ∨
    (∃ old, NMap.get s.keys op.key = some old ∧ old.crdt.kind = d.crdt.kind) := by
  cases op with
  | write k v e =>
    left
    simp only [LOp.toOp, Shard.step] at hd
    have := Option.some.inj hd
    subst this
    exact ⟨k, v, e, rfl, rfl⟩
  | hwrite k fs =>
    right; left
    simp only [LOp.toOp, Shard.step] at hd
    have := Option.some.inj hd
    subst this
    exact ⟨k, fs, rfl, rfl⟩
  | delete k =>
    right; right
    simp only [LOp.toOp, Shard.step, LOp.key] at hd ⊢
    cases hg : NMap.get s.keys k with
    | none => rw [Shard.recordDelete_none hg] at hd; simp at hd
    | some rv =>
      refine ⟨rv, rfl, ?_⟩
      by_cases hc0 : rv.crdt.kind = 0
      · obtain ⟨r, hr⟩ := Shard.kind_lww hc0
        rw [Shard.recordDelete_lww hg hr] at hd
        have := Option.some.inj hd
        subst this
        rw [hc0]; rfl
      · by_cases hc5 : rv.crdt.kind = 5
        · obtain ⟨m, hm⟩ := Shard.kind_hash hc5
          rw [Shard.recordDelete_hash hg hm] at hd
          have := Option.some.inj hd
          subst this
          rw [hc5]; rfl
        · rw [Shard.recordDelete_other hg hc0 hc5] at hd
          have := Option.some.inj hd
          subst this
          rfl
  | hdelete k fs =>
    right; right
    simp only [LOp.toOp, Shard.step, LOp.key] at hd ⊢
    cases hg : NMap.get s.keys k with
    | none => rw [Shard.recordHashDelete_none hg] at hd; simp at hd
    | some rv =>
      refine ⟨rv, rfl, ?_⟩
      by_cases hc5 : rv.crdt.kind = 5
      · obtain ⟨m, hm⟩ := Shard.kind_hash hc5
        rw [Shard.recordHashDelete_hash hg hm] at hd
        have := Option.some.inj hd
        subst this
        rw [hc5]; rfl
      · rw [Shard.recordHashDelete_other hg hc5] at hd; simp at hd

theorem allKind_step {c : Cluster} {k K : Nat} (h : AllKind c k K) (e : Ev)
    (he : UsedAs K k [e]) : AllKind (c.step e) k K := by
  cases e with
  | deliver j idx =>
    cases hs : c.nodes[j]? with
    | none => simp only [step, hs]; exact h
    | some s =>
      cases hm : c.sent[idx]? with
      | none => simp only [step, hs, hm]; exact h
      | some m =>
        simp only [step, hs, hm]
        have hjlt : j < c.nodes.length := (List.getElem?_eq_some_iff.mp hs).1
        have hmmem : m ∈ c.sent := List.mem_of_getElem? hm
        refine ⟨?_, h.2⟩
        intro i s' hs' v hg
        by_cases hij : i = j
        · subst hij
          rw [List.getElem?_set_self hjlt] at hs'
          cases hs'
          simp only [Shard.applyRemote] at hg
          rw [NMap.get_insert] at hg
          by_cases hk : k = m.key
          · simp only [hk, if_true] at hg
            have hv := Option.some.inj hg
            subst hv
            cases hl : NMap.get s.keys m.key with
            | none => exact h.2 m hmmem hk.symm
            | some l =>
              simp only
              have hlk := h.1 i s hs l (by rw [hk]; exact hl)
              have hmk := h.2 m hmmem hk.symm
              rcases RV.merge_pair l m.val with h1 | h1
              · have := congrArg Prod.snd h1; simp only at this; rw [this]; exact hlk
              · have := congrArg Prod.snd h1; simp only at this; rw [this]; exact hmk
          · simp only [hk, if_false] at hg
            exact h.1 i s hs v hg
        · rw [List.getElem?_set_ne (Ne.symm hij)] at hs'
          exact h.1 i s' hs' v hg
  | loc i op =>
    cases hs : c.nodes[i]? with
    | none => simp only [step, hs]; exact h
    | some s =>
      have hilt : i < c.nodes.length := (List.getElem?_eq_some_iff.mp hs).1
      cases hd : (Shard.step s op.toOp).2 with
      | none =>
        simp only [step, hs, hd]
        rw [Shard.local_none s op hd]
        have : c.nodes.set i s = c.nodes := by
          apply List.ext_getElem?
          intro n
          by_cases hn : n = i
          · subst hn; rw [List.getElem?_set_self hilt, hs]
          · rw [List.getElem?_set_ne (Ne.symm hn)]
        rw [this]
        exact h
      | some d =>
        simp only [step, hs, hd]
        have hget := Shard.local_get s op d hd
        -- the delta has kind K when it is a delta of key k
        have hdk : op.key = k → d.crdt.kind = K := by
          intro hkey
          rcases local_kind s op d hd with ⟨k', v, e', rfl, hk0⟩ | ⟨k', fs, rfl, hk5⟩ | ⟨old, ho, hok⟩
          · simp only [UsedAs, LOp.key] at he hkey
            rw [hk0, he.1 hkey]
          · simp only [UsedAs, LOp.key] at he hkey
            rw [hk5, he.1 hkey]
          · rw [← hok]
            exact h.1 i s hs old (by rw [← hkey]; exact ho)
        refine ⟨?_, ?_⟩
        · intro i' s' hs' v hg
          by_cases hii : i' = i
          · subst hii
            rw [List.getElem?_set_self hilt] at hs'
            cases hs'
            by_cases hk : k = op.key
            · rw [hk, hget] at hg
              cases hg
              exact hdk hk.symm
            · rw [Shard.keys_step_other s op k hk] at hg
              exact h.1 i' s hs v hg
          · rw [List.getElem?_set_ne (Ne.symm hii)] at hs'
            exact h.1 i' s' hs' v hg
        · intro m hm hmk
          rcases List.mem_append.mp hm with h1 | h1
          · exact h.2 m h1 hmk
          · simp only [List.mem_singleton] at h1
            subst h1
            exact hdk hmk

theorem usedAs_cons {K k : Nat} {e : Ev} {evs : List Ev} (h : UsedAs K k (e :: evs)) :
    UsedAs K k [e] ∧ UsedAs K k evs := by
  cases e with
  | deliver j idx => exact ⟨trivial, h⟩
  | loc i op =>
    cases op with
    | write k' v e' => exact ⟨⟨h.1, trivial⟩, h.2⟩
    | hwrite k' fs => exact ⟨⟨h.1, trivial⟩, h.2⟩
    | delete k' => exact ⟨trivial, h⟩
    | hdelete k' fs => exact ⟨trivial, h⟩

theorem allKind_run (c : Cluster) (evs : List Ev) {k K : Nat} (h : AllKind c k K)
    (hu : UsedAs K k evs) : AllKind (c.run evs) k K := by
  induction evs generalizing c with
  | nil => exact h
  | cons e evs ih =>
    obtain ⟨h1, h2⟩ := usedAs_cons hu
    exact ih (c.step e) (allKind_step h e h1) h2

/-- a key that the history writes as one Redis type only is `OneKind` -/
theorem oneKind_of_usage (n : Nat) (causal : Bool) (evs : List Ev) (k K : Nat)
    (hu : UsedAs K k evs) : OneKind (exec n causal evs) k K := by
  have h0 : AllKind (init n causal) k K := by
    refine ⟨?_, by intro m hm; simp [init] at hm⟩
    intro i s hs v hg
    simp only [init, List.getElem?_map] at hs
    cases hr : (List.range n)[i]? with
    | none => simp [hr] at hs
    | some x =>
      simp [hr] at hs
      subst hs
      simp [Shard.init] at hg
  exact (allKind_run _ evs h0 hu).2

/-- **C07 (associativity) for every key the history uses as ONE Redis type** — the hypothesis is
    on the history (no `SET k` and `HSET k` both), the conclusion about everything reachable -/
theorem reachable_merge_assoc_of_usage (n : Nat) (causal : Bool) (evs : List Ev)
    (hv : ∀ e ∈ evs, e.Valid = true) (k K : Nat) (hu : UsedAs K k evs)
    (a b c : RV) (ha : Reach (exec n causal evs) k a) (hb : Reach (exec n causal evs) k b)
    (hc : Reach (exec n causal evs) k c) :
    RV.merge a (RV.merge b c) = RV.merge (RV.merge a b) c :=
  reachable_merge_assoc n causal evs hv k K (oneKind_of_usage n causal evs k K hu) a b c ha hb hc

/-- non-vacuity, and the cross-kind run is used as neither type -/
example :
    UsedAs 0 107 [.loc 0 (.write 107 [1] none), .loc 1 (.delete 107), .loc 1 (.hwrite 108 [(1, [2])]),
      .deliver 1 0, .loc 1 (.write 107 [3] (some 5))] ∧
    ¬ UsedAs 0 104 crossKindRun ∧ ¬ UsedAs 5 104 crossKindRun := by
  decide

end C07
end RedisVerif
