import RedisVerif.Lemmas.Bincode
import RedisVerif.Lemmas.Crc32
import RedisVerif.Lemmas.Codec
import RedisVerif.Lemmas.Wal

/-
  Glue between the concrete parameters (`crc := Driver.crc32`, `ser/de :=` the bincode model) and
  the abstract framing lemmas: the width hypotheses on checksums (`… < 2^32`) hold because CRC-32 of
  a byte string is a 32-bit value, and what the writers hash are byte strings.
-/
namespace RedisVerif
namespace Concrete

open Wal Codec Bincode Driver Crc

theorem bytes_of_allBytes {bs : Bytes} (h : allBytes bs = true) : ∀ b ∈ bs, b < 256 := (allBytes_iff bs).mp h

theorem allBytes_of_bytes {bs : Bytes} (h : ∀ b ∈ bs, b < 256) : allBytes bs = true := (allBytes_iff bs).mpr h

theorem allBytes_records (ps : List Bytes) (h : ∀ p ∈ ps, allBytes p = true) : allBytes (records ps) = true := by
  unfold records
  apply allBytes_flatMap
  intro p hp
  unfold record
  rw [allBytes_append, allBytes_le, h p hp]; rfl

theorem allBytes_segCovered (n a b : Nat) : allBytes (segCovered n a b) = true := by
  unfold segCovered segMagic
  rw [allBytes_append, allBytes_append, allBytes_append, allBytes_append, allBytes_le, allBytes_le, allBytes_le]; rfl

theorem allBytes_covered (fmt : Format) (len ts : Nat) (d : Bytes) (h : allBytes d = true) :
    allBytes (covered fmt len ts d) = true := by
  cases fmt with
  | v1 => exact h
  | v2 => simp only [covered]; rw [allBytes_append, allBytes_append, allBytes_le, allBytes_le, h]; rfl

/-- the crc conditions of `SegFits` hold for CRC-32 whenever the payloads are byte strings -/
theorem segFits_crc32 (ps : List Bytes) (ts : List Nat) (hn : ps.length < 2 ^ 32)
    (hp : ∀ p ∈ ps, p.length < 2 ^ 32) (hb : ∀ p ∈ ps, allBytes p = true) : SegFits crc32 ps ts :=
  ⟨hn, hp, crc32_lt _ (bytes_of_allBytes (allBytes_segCovered _ _ _)),
    crc32_lt _ (bytes_of_allBytes (allBytes_records ps hb))⟩

theorem allBytes_chkCovered (k t l : Nat) : allBytes (chkCoveredA ++ chkCoveredB k t l) = true := by
  unfold chkCoveredA chkCoveredB chkMagic
  rw [allBytes_append, allBytes_append, allBytes_append, allBytes_append, allBytes_le, allBytes_le, allBytes_le]; rfl

theorem chkFits_crc32 (k t l : Nat) (payload : Bytes) (hl : payload.length < 2 ^ 32) (hb : allBytes payload = true) :
    ChkFits crc32 k t l payload :=
  ⟨hl, crc32_lt _ (bytes_of_allBytes (allBytes_chkCovered k t l)), crc32_lt _ (bytes_of_allBytes hb),
    crc32_lt _ (bytes_of_allBytes (by rw [allBytes_append, allBytes_le, allBytes_le]; rfl))⟩

/-- an encoding is never empty -/
theorem enc_ne_nil {α : Type} {c : Codec α} (hc : Lawful c) (a : α) : (c.enc a).length ≠ 0 := by
  have := hc.cells_lt a
  omega

/-- `de (ser d) = some d` for the bincode codec of deltas -/
theorem deDelta_enc (d : WDelta) (hd : delta.ok d) : deDelta (delta.enc d) = some d := by
  unfold deDelta
  have := lawful_delta.rt d [] hd
  rw [List.append_nil] at this
  rw [this]; rfl

theorem deState_enc (s : WState) (hs : state.ok s) : deState (state.enc s) = some s := by
  unfold deState
  have := lawful_state.rt s [] hs
  rw [List.append_nil] at this
  rw [this]; rfl

theorem set_append_right (a b : Bytes) (i v : Nat) : (a ++ b).set (a.length + i) v = a ++ b.set i v := by
  rw [List.set_append, if_neg (by omega)]
  congr 2
  omega

theorem set_append_left (a b : Bytes) (i v : Nat) (h : i < a.length) : (a ++ b).set i v = a.set i v ++ b := by
  rw [List.set_append, if_pos h]

theorem getElem_append_right' (a b : Bytes) (i : Nat) (h : i < b.length) :
    (a ++ b)[a.length + i]'(by simp; omega) = b[i] := by
  rw [List.getElem_append_right (by omega)]
  congr 1
  omega

/-- the checksummed bytes of a v2 entry: 12 bytes of length and stamp, then the payload -/
theorem covered_v2_eq (n ts : Nat) (d : Bytes) : covered .v2 n ts d = (le 4 n ++ le 8 ts) ++ d := by
  simp [covered]

theorem covered_v2_prefix_length (n ts : Nat) : (le 4 n ++ le 8 ts).length = 12 := by simp [le_length]

theorem covered_set_data (n ts : Nat) (d : Bytes) (i v : Nat) :
    covered .v2 n ts (d.set i v) = (covered .v2 n ts d).set (12 + i) v := by
  rw [covered_v2_eq, covered_v2_eq, ← covered_v2_prefix_length n ts, set_append_right]

theorem covered_getElem_data (n ts : Nat) (d : Bytes) (i : Nat) (h : i < d.length) :
    (covered .v2 n ts d)[12 + i]'(by rw [covered_v2_eq]; simp [le_length]; omega) = d[i] := by
  have := getElem_append_right' (le 4 n ++ le 8 ts) d i h
  simp only [covered_v2_prefix_length] at this
  simp only [covered_v2_eq]
  exact this

/-- a changed stamp byte: `covered` with stamp bytes `(le 8 ts).set j v` -/
theorem covered_set_stamp (n ts : Nat) (d : Bytes) (j v : Nat) (hj : j < 8) (ts' : Nat)
    (hle : le 8 ts' = (le 8 ts).set j v) :
    covered .v2 n ts' d = (covered .v2 n ts d).set (4 + j) v := by
  simp only [covered]
  rw [hle]
  have h := set_append_right (le 4 n) (le 8 ts ++ d) j v
  rw [le_length] at h
  rw [h, set_append_left _ _ _ _ (by simp [le_length]; exact hj)]

theorem covered_getElem_stamp (n ts : Nat) (d : Bytes) (j : Nat) (hj : j < 8) :
    (covered .v2 n ts d)[4 + j]'(by simp [covered, le_length]; omega) = (le 8 ts)[j]'(by simp [le_length]; exact hj) := by
  have h := getElem_append_right' (le 4 n) (le 8 ts ++ d) j (by simp [le_length]; omega)
  simp only [le_length] at h
  simp only [covered]
  rw [h, List.getElem_append_left (by simp [le_length]; exact hj)]

end Concrete
end RedisVerif
