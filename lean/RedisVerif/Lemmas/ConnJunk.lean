import RedisVerif.Lemmas.Conn

/-
  A malformed frame gets an error reply: the read loop on `stream cmds ++ junk` where `junk` does not
  start like an array (`*`) and the decoder rejects it.
-/
namespace RedisVerif.Conn
open RedisVerif.Resp

theorem startsWith_notStar (p hdr : Bytes) (hp : p.head? ≠ some 42) (hh : hdr.head? = some 42) :
    startsWith p hdr = false := by
  unfold startsWith
  cases hdr with
  | nil => simp at hh
  | cons a as =>
    simp only [List.head?_cons, Option.some.injEq] at hh
    subst hh
    cases p with
    | nil => rfl
    | cons b bs =>
      simp only [List.head?_cons, ne_eq, Option.some.injEq] at hp
      simp [List.isPrefixOf, hp]
      intro h; exact absurd h.symm hp

theorem recogGet_notStar (h : Nat) (ck : Bool) (p : Bytes) (hp : p.head? ≠ some 42) : recogGet h ck p = .notFast := by
  unfold recogGet
  rw [startsWith_notStar p getHdrU hp rfl, startsWith_notStar p getHdrL hp rfl]
  simp

theorem recogSet_notStar (h : Nat) (ck : Bool) (p : Bytes) (hp : p.head? ≠ some 42) : recogSet h ck p = .notFast := by
  unfold recogSet
  rw [startsWith_notStar p setHdrU hp rfl, startsWith_notStar p setHdrL hp rfl]
  simp

theorem fastPath_notStar (h : Nat) (ck inTx : Bool) (p : Bytes) (hp : p.head? ≠ some 42) : fastPath h ck inTx p = .notFast := by
  unfold fastPath
  split
  · rfl
  · split
    · rfl
    · rw [recogGet_notStar h ck p hp, recogSet_notStar h ck p hp]

theorem collectGet_notStar (h : Nat) (ck : Bool) (fuel : Nat) (p : Bytes) (hp : p.head? ≠ some 42) :
    collectGet h ck fuel p = some ([], p) := by
  cases fuel with
  | zero => rfl
  | succ f => unfold collectGet; rw [recogGet_notStar h ck p hp]

theorem collectSet_notStar (h : Nat) (ck : Bool) (fuel : Nat) (p : Bytes) (hp : p.head? ≠ some 42) :
    collectSet h ck fuel p = some ([], p) := by
  cases fuel with
  | zero => rfl
  | succ f => unfold collectSet; rw [recogSet_notStar h ck p hp]

theorem recogGetR_notStar (h : Nat) (p : Bytes) (hp : p.head? ≠ some 42) : recogGetR h p = .notFast := by
  unfold recogGetR
  rw [startsWith_notStar p getHdrU hp rfl, startsWith_notStar p getHdrL hp rfl]
  simp

theorem recogSetR_notStar (h : Nat) (p : Bytes) (hp : p.head? ≠ some 42) : recogSetR h p = .notFast := by
  unfold recogSetR
  rw [startsWith_notStar p setHdrU hp rfl, startsWith_notStar p setHdrL hp rfl]
  simp

theorem fastPathR_notStar (h : Nat) (inTx : Bool) (p : Bytes) (hp : p.head? ≠ some 42) : fastPathR h inTx p = .notFast := by
  unfold fastPathR
  split
  · rfl
  · split
    · rfl
    · rw [recogGetR_notStar h p hp, recogSetR_notStar h p hp]

theorem collectGetR_notStar (h : Nat) (fuel : Nat) (p : Bytes) (hp : p.head? ≠ some 42) :
    collectGetR h fuel p = some ([], p) := by
  cases fuel with
  | zero => rfl
  | succ f => unfold collectGetR; rw [recogGetR_notStar h p hp]

theorem collectSetR_notStar (h : Nat) (fuel : Nat) (p : Bytes) (hp : p.head? ≠ some 42) :
    collectSetR h fuel p = some ([], p) := by
  cases fuel with
  | zero => rfl
  | succ f => unfold collectSetR; rw [recogSetR_notStar h p hp]

/-- the recognisers are switched off altogether: repaired code, user without unrestricted keys -/
def RecogOff (cfg : Config) : Prop := cfg.repaired = true ∧ cfg.unrestricted = false

theorem DeadCfg.ofOff {cfg : Config} (h : RecogOff cfg) : DeadCfg cfg := Or.inr h

/-- bytes no recogniser looks at twice: they do not begin like an array, or the recognisers are off -/
def JunkOK (cfg : Config) (junk : Bytes) : Prop := junk.head? ≠ some 42 ∨ RecogOff cfg

theorem fastPathC_junk (cfg : Config) (inTx : Bool) (p : Bytes) (hp : JunkOK cfg p) : fastPathC cfg inTx p = .notFast := by
  unfold fastPathC
  cases hp with
  | inl hp =>
    split
    · split
      · exact fastPathR_notStar _ _ p hp
      · exact fastPath_notStar _ _ _ p hp
    · rfl
  | inr hp => simp [hp.2]

theorem collectGetC_notStar (cfg : Config) (fuel : Nat) (p : Bytes) (hp : p.head? ≠ some 42) :
    collectGetC cfg fuel p = some ([], p) := by
  unfold collectGetC
  split
  · exact collectGetR_notStar _ _ p hp
  · exact collectGet_notStar _ _ _ p hp

theorem collectSetC_notStar (cfg : Config) (fuel : Nat) (p : Bytes) (hp : p.head? ≠ some 42) :
    collectSetC cfg fuel p = some ([], p) := by
  unfold collectSetC
  split
  · exact collectSetR_notStar _ _ p hp
  · exact collectSet_notStar _ _ _ p hp

theorem batchGate_junk (cfg : Config) (inTx : Bool) (fuel : Nat) (p : Bytes) (hp : JunkOK cfg p) :
    batchGate cfg inTx fuel p = some ([], p) := by
  unfold batchGate
  cases hp with
  | inl hp =>
    rw [collectGetC_notStar cfg fuel p hp]
    simp only []
    rw [collectSetC_notStar cfg fuel p hp]
    split
    · split
      · simp [batchActs]
      · simp [batchActs]
    · rfl
  | inr hp => simp [hp.1, hp.2]

/-- what the loop does with a buffer that holds (a prefix of) the malformed frame only -/
def junkStep (env : Env) (p : Bytes) : List Action × Bytes :=
  if (parse1 env p).out.isIncomplete then ([], p) else ([.protoErr], [])

/-- a prefix of a frame the decoder rejects is either still undecided or rejected the same way -/
theorem parse_junkPrefix (env : Env) (p q junk : Bytes) (h : p ++ q = junk) (hs : Small junk) (e : Err)
    (hj : (parse1 env junk).out = .error e) :
    (parse1 env p).out.isIncomplete = true ∨ (parse1 env p).out = .error e := by
  cases hd : (parse1 env p).out.isIncomplete with
  | true => exact Or.inl rfl
  | false =>
    right
    have := parseD_stable codec1 codec1_good env.mem env.depth 0 p q (by rw [h]; exact hs) hd
    unfold parse1 parseG at hj ⊢
    rw [h] at this
    rw [← this, hj]

theorem head_prefix (p q junk : Bytes) (h : p ++ q = junk) (hj : junk.head? ≠ some 42) : p.head? ≠ some 42 := by
  cases p with
  | nil => simp
  | cons b bs =>
    rw [← h] at hj
    simpa using hj

theorem JunkOK.pre {cfg : Config} (p q junk : Bytes) (h : p ++ q = junk) (hj : JunkOK cfg junk) : JunkOK cfg p := by
  cases hj with
  | inl hj => exact Or.inl (head_prefix p q junk h hj)
  | inr hj => exact Or.inr hj

/-- the sequential loop on a junk prefix -/
theorem seqLoop_junkPrefix (cfg : Config) (hcodec : cfg.codec = codec1) (p q junk : Bytes) (h : p ++ q = junk)
    (hh : JunkOK cfg junk) (hs : Small junk) (e : Err) (hj : (parse1 cfg.env junk).out = .error e)
    (f : Nat) (inTx : Bool) :
    seqLoop cfg (f + 1) p inTx = ((junkStep cfg.env p).1, (junkStep cfg.env p).2, inTx, false) := by
  unfold seqLoop
  rw [fastPathC_junk cfg _ p (hh.pre p q junk h), hcodec]
  simp only []
  unfold junkStep
  cases parse_junkPrefix cfg.env p q junk h hs e hj with
  | inl hi =>
    cases hout : (parseG codec1 cfg.env p).out with
    | incomplete k => simp [parse1, hout, Outcome.isIncomplete]
    | ok v k => simp [parse1, hout, Outcome.isIncomplete] at hi
    | error k => simp [parse1, hout, Outcome.isIncomplete] at hi
    | crash k => simp [parse1, hout, Outcome.isIncomplete] at hi
  | inr he =>
    have : (parseG codec1 cfg.env p).out = .error e := he
    simp [parse1, this, Outcome.isIncomplete]

/-- LEMMA S: complete command frames, then a junk prefix, in one buffer -/
theorem seqLoop_cmds_then_junk (cfg : Config) (h14 : DeadCfg cfg) (hcodec : cfg.codec = codec1)
    (p q junk : Bytes) (hpq : p ++ q = junk) (hh : JunkOK cfg junk) (hsj : Small junk) (e : Err)
    (hj : (parse1 cfg.env junk).out = .error e) :
    ∀ (left : List Cmd) (fuel : Nat) (inTx : Bool), (stream left).length < fuel → Small (stream left ++ p) →
      (∀ c ∈ left, CmdOK cfg c) →
      ∃ tx', seqLoop cfg fuel (stream left ++ p) inTx =
        (execAll left ++ (junkStep cfg.env p).1, (junkStep cfg.env p).2, tx', false) := by
  intro left
  induction left with
  | nil =>
    intro fuel inTx hf _ _
    cases fuel with
    | zero => simp at hf
    | succ f =>
      refine ⟨inTx, ?_⟩
      simp only [stream, List.map_nil, List.flatten_nil, List.nil_append, execAll]
      exact seqLoop_junkPrefix cfg hcodec p q junk hpq hh hsj e hj f inTx
  | cons c cs ih =>
    intro fuel inTx hf hs hok
    rw [stream_cons] at hf hs ⊢
    cases fuel with
    | zero => simp at hf
    | succ f =>
      have hokc := hok c (by simp)
      have hfp : fastPathC cfg inTx (encCmd c ++ stream cs ++ p) = .notFast := by
        cases fastPathC_dead cfg h14 inTx (encCmd c ++ stream cs ++ p) [] (stream cs ++ p) c (by simp) with
        | inl hh' => exact hh'
        | inr hh' => have := hh'.2; simp at this; omega
      have hsb : Small (encCmd c ++ (stream cs ++ p)) := by simpa [List.append_assoc] using hs
      have hp : (parseG codec1 cfg.env (encCmd c ++ (stream cs ++ p))).out = .ok (cmdFrame c) (encCmd c).length :=
        parse1_frame cfg.env c (stream cs ++ p) hokc.1 hsb
      have hscs : Small (stream cs ++ p) := by
        unfold Small at *; simp at hs ⊢; omega
      have hk1 := encCmd_len_pos c
      obtain ⟨tx', hrec⟩ := ih f (txAfter inTx (cmdFrame c)) (by simp at hf; omega) hscs (fun x hx => hok x (by simp [hx]))
      refine ⟨tx', ?_⟩
      unfold seqLoop
      rw [hcodec, hfp]
      simp only []
      rw [List.append_assoc, hp]
      simp only [namePanics_cmdFrame cfg inTx c hokc, Bool.false_eq_true, if_false,
        List.drop_append_of_le_length (Nat.le_refl _), List.drop_length, List.nil_append]
      rw [hrec]
      simp [execAll]

/-- one `read()` after which the buffer is `stream left ++ p`: all remaining commands are complete
    and `p` is a prefix of the malformed frame -/
theorem onRead_cmds_then_junk (cfg : Config) (h14 : DeadCfg cfg) (hcodec : cfg.codec = codec1)
    (left : List Cmd) (b0 chunk p q junk : Bytes) (tx : Bool)
    (h : b0 ++ chunk = stream left ++ p) (hpq : p ++ q = junk) (hh : JunkOK cfg junk) (hsj : Small junk) (e : Err)
    (hj : (parse1 cfg.env junk).out = .error e)
    (hs : Small (stream left ++ p)) (hmax : (stream left ++ p).length ≤ cfg.maxBuffer) (hok : ∀ c ∈ left, CmdOK cfg c) :
    ∃ tx', onRead cfg ⟨b0, tx, false⟩ chunk =
      (⟨(junkStep cfg.env p).2, tx', false⟩, execAll left ++ (junkStep cfg.env p).1) := by
  have hlen : b0.length + chunk.length = (stream left ++ p).length := by
    rw [← h]; simp
  obtain ⟨tx', hseq⟩ := seqLoop_cmds_then_junk cfg h14 hcodec p q junk hpq hh hsj e hj left
    ((stream left ++ p).length + 1) tx (by simp; omega) hs hok
  refine ⟨tx', ?_⟩
  unfold onRead
  have hmx : ¬ (b0.length + chunk.length > cfg.maxBuffer) := by omega
  simp only [Bool.false_eq_true, if_false, hmx, h]
  have hgate : batchGate cfg tx ((stream left ++ p).length + 1) (stream left ++ p) = some ([], stream left ++ p) := by
    cases left with
    | nil =>
      simp only [stream, List.map_nil, List.flatten_nil, List.nil_append]
      exact batchGate_junk cfg tx _ p (hh.pre p q junk hpq)
    | cons c cs =>
      have hb : (stream (c :: cs) ++ p) ++ [] = encCmd c ++ (stream cs ++ p) := by
        rw [stream_cons]; simp
      exact batchGate_dead' cfg h14 tx _ _ [] (stream cs ++ p) c hb
  rw [hgate]
  simp only []
  rw [hseq]
  simp

/-- where the read loop stands between two reads of `stream left ++ junk` -/
def JInv (env : Env) (junk : Bytes) (left : List Cmd) (b0 : Bytes) : Prop :=
  match left with
  | c :: _ => b0.length < (encCmd c).length
  | [] => (∃ q, b0 ++ q = junk) ∧ (parse1 env b0).out.isIncomplete = true

theorem junkStep_incomplete (env : Env) (p : Bytes) (h : (parse1 env p).out.isIncomplete = true) : junkStep env p = ([], p) := by
  simp [junkStep, h]

theorem junkStep_decided (env : Env) (p : Bytes) (h : (parse1 env p).out.isIncomplete = false) : junkStep env p = ([.protoErr], []) := by
  simp [junkStep, h]

/-- A MALFORMED FRAME GETS AN ERROR REPLY: every read of every segmentation of `stream left ++ junk` -/
theorem reads_junk_error (cfg : Config) (h14 : DeadCfg cfg) (hcodec : cfg.codec = codec1) (hdepth : 1 ≤ cfg.env.depth)
    (junk : Bytes) (hh : JunkOK cfg junk) (e : Err) (hj : (parse1 cfg.env junk).out = .error e) :
    ∀ (chunks : List Bytes) (left : List Cmd) (b0 : Bytes) (tx : Bool) (acts : List Action),
      b0 ++ chunks.flatten = stream left ++ junk → JInv cfg.env junk left b0 →
      Small (stream left ++ junk) → (stream left ++ junk).length ≤ cfg.maxBuffer → (∀ c ∈ left, CmdOK cfg c) →
      ∃ tail, (chunks.foldl (fun (acc : St × List Action) c =>
          let (s', a) := onRead cfg acc.1 c; (s', acc.2 ++ a)) (⟨b0, tx, false⟩, acts)).2
        = acts ++ execAll left ++ Action.protoErr :: tail := by
  intro chunks
  induction chunks with
  | nil =>
    intro left b0 tx acts h hinv _ _ _
    simp only [List.flatten_nil, List.append_nil] at h
    exfalso
    cases left with
    | cons c cs =>
      simp only [JInv] at hinv
      rw [h, stream_cons] at hinv
      simp at hinv
      omega
    | nil =>
      simp only [JInv] at hinv
      simp only [stream, List.map_nil, List.flatten_nil, List.nil_append] at h
      rw [h] at hinv
      have := hinv.2
      simp [hj, Outcome.isIncomplete] at this
  | cons ch chunks ih =>
    intro left b0 tx acts h hinv hs hmax hok
    simp only [List.flatten_cons] at h
    have hsj : Small junk := by
      unfold Small at *; simp at hs ⊢; omega
    simp only [List.foldl_cons]
    -- a decided junk prefix: one protocol error, then whatever follows
    have finish : ∀ (st' : St) (acts' : List Action),
        ∃ tail, (chunks.foldl (fun (acc : St × List Action) c =>
          let (s', a) := onRead cfg acc.1 c; (s', acc.2 ++ a)) (st', acts' ++ [Action.protoErr])).2
          = acts' ++ Action.protoErr :: tail := by
      intro st' acts'
      obtain ⟨t, ht⟩ := reads_append cfg chunks st' (acts' ++ [Action.protoErr])
      exact ⟨t, by rw [ht]; simp⟩
    cases left with
    | nil =>
      simp only [stream, List.map_nil, List.flatten_nil, List.nil_append, execAll, List.append_nil] at h hs hmax ⊢
      have hp : (b0 ++ ch) ++ chunks.flatten = junk := by rw [List.append_assoc]; exact h
      have hsp : Small (stream [] ++ (b0 ++ ch)) := by
        unfold Small at *; rw [← hp] at hsj; simp [stream] at hsj ⊢; omega
      have hmp : (stream [] ++ (b0 ++ ch)).length ≤ cfg.maxBuffer := by
        rw [← hp] at hmax; simp [stream] at hmax ⊢; omega
      obtain ⟨tx', hon⟩ := onRead_cmds_then_junk cfg h14 hcodec [] b0 ch (b0 ++ ch) chunks.flatten junk tx
        (by simp [stream]) hp hh hsj e hj hsp hmp (by intro c hc; cases hc)
      rw [hon]
      simp only [execAll, List.map_nil, List.nil_append]
      cases hi : (parse1 cfg.env (b0 ++ ch)).out.isIncomplete with
      | true =>
        rw [junkStep_incomplete _ _ hi]
        simp only [List.append_nil]
        have := ih [] (b0 ++ ch) tx' acts (by simpa [stream] using hp) ⟨⟨chunks.flatten, hp⟩, hi⟩
          (by simpa [stream] using hsj) (by simpa [stream] using hmax) (by intro c hc; cases hc)
        simpa [execAll] using this
      | false =>
        rw [junkStep_decided _ _ hi]
        exact finish _ acts
    | cons c cs =>
      by_cases hlt : (b0 ++ ch).length < (stream (c :: cs)).length
      · -- still inside the commands
        obtain ⟨t, ht⟩ := append_split' (b0 ++ ch) chunks.flatten (stream (c :: cs)) junk
          (by rw [List.append_assoc]; exact h) hlt
        have hsl : Small (stream (c :: cs)) := by
          unfold Small at *; simp at hs ⊢; omega
        obtain ⟨done, left', buf', tx', e1, e3, e4, e5⟩ :=
          onRead_wf cfg h14 hcodec hdepth (c :: cs) b0 ch t tx ht hsl
            (by have := congrArg List.length ht; simp at this hmax; omega) hok
        rw [e5]
        simp only []
        have hrest : chunks.flatten = t ++ junk := by
          have h2 : (b0 ++ ch) ++ chunks.flatten = (b0 ++ ch) ++ (t ++ junk) := by
            rw [← List.append_assoc, ht, List.append_assoc]; exact h
          exact List.append_cancel_left h2
        have hne : left' ≠ [] := by
          intro hnil
          rw [hnil] at e3
          simp [stream] at e3
          rw [e3.2] at ht
          simp at ht
          rw [ht] at hlt
          omega
        have hlen' : (stream left').length ≤ (stream (c :: cs)).length := by
          have := stream_len_le done left'
          rw [← e1] at this
          exact this
        obtain ⟨tail, htail⟩ := ih left' buf' tx' (acts ++ execAll done)
          (by rw [hrest, ← List.append_assoc, e3])
          (by
            cases left' with
            | nil => exact absurd rfl hne
            | cons c' cs' => exact e4 c' cs' rfl)
          (by unfold Small at *; simp only [List.length_append] at hs ⊢; omega)
          (by simp only [List.length_append] at hmax ⊢; omega)
          (fun x hx => hok x (by rw [e1]; simp [hx]))
        refine ⟨tail, ?_⟩
        rw [htail, e1]
        simp [execAll]
      · -- this read completes every command and reaches the malformed frame
        obtain ⟨p, hp1, hp2⟩ := append_split (b0 ++ ch) chunks.flatten (stream (c :: cs)) junk
          (by rw [List.append_assoc]; exact h) (by omega)
        have hsp : Small (stream (c :: cs) ++ p) := by
          unfold Small at *; rw [hp2] at hs; simp at hs ⊢; omega
        have hmp : (stream (c :: cs) ++ p).length ≤ cfg.maxBuffer := by
          rw [hp2] at hmax; simp at hmax ⊢; omega
        obtain ⟨tx', hon⟩ := onRead_cmds_then_junk cfg h14 hcodec (c :: cs) b0 ch p chunks.flatten junk tx
          hp1 hp2.symm hh hsj e hj hsp hmp hok
        rw [hon]
        simp only []
        cases hi : (parse1 cfg.env p).out.isIncomplete with
        | true =>
          rw [junkStep_incomplete _ _ hi]
          simp only [List.append_nil]
          obtain ⟨tail, htail⟩ := ih [] p tx' (acts ++ execAll (c :: cs)) (by simpa [stream] using hp2.symm)
            ⟨⟨chunks.flatten, hp2.symm⟩, hi⟩ (by simpa [stream] using hsj)
            (by unfold Small at *; simp [stream] at hmax ⊢; omega) (by intro x hx; cases hx)
          exact ⟨tail, by rw [htail]; simp [execAll]⟩
        | false =>
          rw [junkStep_decided _ _ hi]
          obtain ⟨tail, htail⟩ := finish ⟨[], tx', false⟩ (acts ++ execAll (c :: cs))
          exact ⟨tail, by rw [← List.append_assoc, htail]⟩

/-- … for the whole connection -/
theorem run_junk_error (cfg : Config) (h14 : DeadCfg cfg) (hcodec : cfg.codec = codec1) (hdepth : 1 ≤ cfg.env.depth)
    (cmds : List Cmd) (junk : Bytes) (segs : List Bytes) (h : segs.flatten = stream cmds ++ junk)
    (hh : JunkOK cfg junk) (e : Err) (hj : (parse1 cfg.env junk).out = .error e)
    (hs : Small (stream cmds ++ junk)) (hmax : (stream cmds ++ junk).length ≤ cfg.maxBuffer)
    (hok : ∀ c ∈ cmds, CmdOK cfg c) :
    ∃ tail, run cfg segs = execAll cmds ++ Action.protoErr :: tail := by
  have hinv : JInv cfg.env junk cmds [] := by
    cases cmds with
    | cons c cs => simp only [JInv]; have := encCmd_len_pos c; simp; omega
    | nil =>
      refine ⟨⟨junk, by simp⟩, ?_⟩
      unfold parse1 parseG
      cases hd : cfg.env.depth with
      | zero => omega
      | succ d => simp [parseD, Outcome.isIncomplete]
  obtain ⟨tail, ht⟩ := reads_junk_error cfg h14 hcodec hdepth junk hh e hj
    (segs.flatMap (fun s => splitReads cfg.readSize s.length s)) cmds [] false []
    (by simp [flatMap_splitReads_flatten, h]) hinv hs hmax hok
  exact ⟨tail, by simpa [run, feedSegs, St.init] using ht⟩

end RedisVerif.Conn
