import RedisVerif.Model.ConnWrite
import RedisVerif.Lemmas.Conn

/-
  Lemmas for the write side of the connection (Model/ConnWrite.lean):
  `write_all` under partial writes, the encoding of action lists, and the refinement
  "bytes on the wire = encoding of the actions of `Conn.run`".
-/
namespace RedisVerif.ConnW
open RedisVerif.Resp RedisVerif.Conn

theorem anyCrash_eq (a : List Action) : anyCrash a = hasCrash a := by
  induction a with
  | nil => rfl
  | cons x xs ih => cases x <;> simp [anyCrash, hasCrash, ih]

/-! ### `write_all` -/

/-- whatever the peer does, what it receives is a prefix of the buffer -/
theorem writeAll_prefix : ∀ (sc : List WEv) (buf : Bytes), (writeAll sc buf).1 <+: buf := by
  intro sc
  induction sc with
  | nil => intro buf; cases buf <;> simp [writeAll]
  | cons e sc ih =>
    intro buf
    cases buf with
    | nil => simp [writeAll]
    | cons b bs =>
      cases e with
      | fail => simp [writeAll]
      | accept k =>
        unfold writeAll
        split
        · simp
        · have := ih ((b :: bs).drop k)
          obtain ⟨t, ht⟩ := this
          refine ⟨t, ?_⟩
          dsimp only
          rw [List.append_assoc, ht, List.take_append_drop]

/-- `write_all` returned `Ok`: the peer has received the whole buffer -/
theorem writeAll_ok : ∀ (sc : List WEv) (buf : Bytes), (writeAll sc buf).2.2 = true → (writeAll sc buf).1 = buf := by
  intro sc
  induction sc with
  | nil => intro buf _; cases buf <;> simp [writeAll]
  | cons e sc ih =>
    intro buf h
    cases buf with
    | nil => simp [writeAll]
    | cons b bs =>
      cases e with
      | fail => simp [writeAll] at h
      | accept k =>
        unfold writeAll at h ⊢
        split
        · rename_i hk; simp [hk] at h
        · rename_i hk
          simp only [hk, if_false] at h
          dsimp only at h ⊢
          rw [ih _ h, List.take_append_drop]

/-- a peer that never refuses receives everything, in however many pieces -/
theorem writeAll_noFail : ∀ (sc : List WEv) (buf : Bytes), NoFail sc = true →
    (writeAll sc buf).1 = buf ∧ (writeAll sc buf).2.2 = true ∧ NoFail (writeAll sc buf).2.1 = true := by
  intro sc
  induction sc with
  | nil => intro buf _; cases buf <;> simp [writeAll, NoFail]
  | cons e sc ih =>
    intro buf h
    cases buf with
    | nil => exact ⟨by simp [writeAll], by simp [writeAll], by simpa [writeAll] using h⟩
    | cons b bs =>
      cases e with
      | fail => simp [NoFail] at h
      | accept k =>
        simp only [NoFail, Bool.and_eq_true, decide_eq_true_eq] at h
        obtain ⟨r1, r2, r3⟩ := ih ((b :: bs).drop k) h.2
        unfold writeAll
        simp only [h.1, if_false]
        exact ⟨by rw [r1, List.take_append_drop], r2, r3⟩

/-! ### encoding of action lists -/

theorem encActs_append {σ : Type} (ex : Exec σ) : ∀ (a b : List Action) (s : σ), anyCrash a = false →
    encActs ex s (a ++ b) =
      ((encActs ex (encActs ex s a).1 b).1, (encActs ex s a).2 ++ (encActs ex (encActs ex s a).1 b).2) := by
  intro a
  induction a with
  | nil => intro b s _; simp [encActs]
  | cons x xs ih =>
    intro b s h
    cases x with
    | exec f p =>
      simp only [anyCrash] at h
      simp only [List.cons_append, encActs, ih b _ h, List.append_assoc]
    | dropped f =>
      simp only [anyCrash] at h
      simp only [List.cons_append, encActs, ih b _ h]
    | protoErr =>
      simp only [anyCrash] at h
      simp only [List.cons_append, encActs, ih b _ h, List.append_assoc]
    | overflow =>
      simp only [anyCrash] at h
      simp only [List.cons_append, encActs, ih b _ h, List.append_assoc]
    | crash => simp [anyCrash] at h

theorem anyCrash_append (a b : List Action) : anyCrash (a ++ b) = (anyCrash a || anyCrash b) := by
  rw [anyCrash_eq, anyCrash_eq, anyCrash_eq, hasCrash_append]

/-- the encoding of a prefix of the actions is a prefix of the encoding -/
theorem encActs_prefix {σ : Type} (ex : Exec σ) (a b : List Action) (s : σ) (h : anyCrash a = false) :
    (encActs ex s a).2 <+: (encActs ex s (a ++ b)).2 := by
  rw [encActs_append ex a b s h]
  exact ⟨_, rfl⟩

/-- the actions of a well-formed pipeline encode to the replies of its frames -/
theorem encActs_execAll {σ : Type} (ex : Exec σ) : ∀ (cmds : List Cmd) (s : σ),
    (encActs ex s (execAll cmds)).2 = replyBytes ex s (cmds.map cmdFrame) := by
  intro cmds
  induction cmds with
  | nil => intro s; rfl
  | cons c cs ih =>
    intro s
    simp only [execAll, List.map_cons, encActs, replyBytes]
    have := ih (ex s (cmdFrame c) Path.generic).1
    simp only [execAll] at this
    rw [this]

theorem anyCrash_execAll (cmds : List Cmd) : anyCrash (execAll cmds) = false := by
  induction cmds with
  | nil => rfl
  | cons c cs ih => simpa [execAll, anyCrash] using ih

/-! ### the read side as a fold (the shape of `Conn.feedSegs`) -/

/-- the pure fold of `Conn.feedSegs` over the reads -/
def pureFold (cfg : Config) (acc : St × List Action) (chunks : List Bytes) : St × List Action :=
  chunks.foldl (fun (acc : St × List Action) c => let (s', a) := onRead cfg acc.1 c; (s', acc.2 ++ a)) acc

theorem run_eq_pureFold (cfg : Config) (segs : List Bytes) :
    run cfg segs = (pureFold cfg (St.init, []) (chunksOf cfg segs)).2 := rfl

theorem pureFold_cons (cfg : Config) (acc : St × List Action) (c : Bytes) (cs : List Bytes) :
    pureFold cfg acc (c :: cs) = pureFold cfg ((onRead cfg acc.1 c).1, acc.2 ++ (onRead cfg acc.1 c).2) cs := rfl

theorem pureFold_actions (cfg : Config) (chunks : List Bytes) (acc : St × List Action) :
    ∃ tail, (pureFold cfg acc chunks).2 = acc.2 ++ tail := by
  obtain ⟨t, ht⟩ := reads_append cfg chunks acc.1 acc.2
  exact ⟨t, ht⟩

/-- reads of a prefix of the chunks produce a prefix of the actions -/
theorem pureFold_take (cfg : Config) : ∀ (chunks : List Bytes) (n : Nat) (acc : St × List Action),
    ∃ tail, (pureFold cfg acc chunks).2 = (pureFold cfg acc (chunks.take n)).2 ++ tail := by
  intro chunks
  induction chunks with
  | nil => intro n acc; exact ⟨[], by simp [pureFold]⟩
  | cons c cs ih =>
    intro n acc
    cases n with
    | zero =>
      obtain ⟨t, ht⟩ := pureFold_actions cfg (c :: cs) acc
      exact ⟨t, by simpa [pureFold] using ht⟩
    | succ n =>
      simp only [List.take_succ_cons, pureFold_cons]
      exact ih n _

theorem onRead_closed (cfg : Config) (st : St) (c : Bytes) (h : st.closed = true) : onRead cfg st c = (st, []) := by
  simp [onRead, h]

/-! ### the refinement: bytes on the wire = encoding of the actions -/

/-- relation between the byte-level state and the action-level fold after the same reads -/
structure Rel {σ : Type} (ex : Exec σ) (s0 : σ) (s : WSt σ) (acc : St × List Action) : Prop where
  nocrash : anyCrash acc.2 = false
  /-- nothing but (a prefix of) the encoding of the actions ever reaches the peer -/
  out : s.out <+: (encActs ex s0 acc.2).2
  /-- while the loop runs: same read-side state, same executor state, the write buffer is empty
      between reads and everything encoded so far has been delivered -/
  live : s.ended = false →
    s.st = acc.1 ∧ s.ex = (encActs ex s0 acc.2).1 ∧ s.wbuf = [] ∧ s.out = (encActs ex s0 acc.2).2

/-- … and when the peer never refuses: everything is delivered, and the loop is only ever left
    through the overflow guard -/
structure RelNF {σ : Type} (ex : Exec σ) (s0 : σ) (s : WSt σ) (acc : St × List Action) : Prop
    extends Rel ex s0 s acc where
  script : NoFail s.script = true
  all : s.out = (encActs ex s0 acc.2).2
  ended : s.ended = true → acc.1.closed = true

theorem prefix_append_right' {α : Type} {a b : List α} (c : List α) (h : a <+: b) : a <+: b ++ c := by
  obtain ⟨t, ht⟩ := h
  exact ⟨t ++ c, by rw [← ht, List.append_assoc]⟩

theorem prefix_append_both {α : Type} (a : List α) {b c : List α} (h : b <+: c) : a ++ b <+: a ++ c := by
  obtain ⟨t, ht⟩ := h
  exact ⟨t, by rw [← ht, List.append_assoc]⟩

theorem ioStep_rel {σ : Type} (cfg : Config) (ex : Exec σ) (s0 : σ) (s : WSt σ) (acc : St × List Action) (c : Bytes)
    (h : Rel ex s0 s acc) (hnc : anyCrash (acc.2 ++ (onRead cfg acc.1 c).2) = false) :
    Rel ex s0 (ioStep cfg ex s c) ((onRead cfg acc.1 c).1, acc.2 ++ (onRead cfg acc.1 c).2) := by
  have hA := encActs_append ex acc.2 (onRead cfg acc.1 c).2 s0 h.nocrash
  have hnc2 : anyCrash (onRead cfg acc.1 c).2 = false := by
    rw [anyCrash_append] at hnc
    simp only [Bool.or_eq_false_iff] at hnc
    exact hnc.2
  unfold ioStep
  cases he : s.ended with
  | true =>
    simp only [if_true]
    refine ⟨hnc, ?_, ?_⟩
    · dsimp only
      rw [hA]
      exact prefix_append_right' _ h.out
    · intro h'; rw [he] at h'; exact Bool.noConfusion h'
  | false =>
    obtain ⟨l1, l2, l3, l4⟩ := h.live he
    have hB : (encActs ex s0 (acc.2 ++ (onRead cfg acc.1 c).2)).2 =
        (encActs ex s0 acc.2).2 ++ (encActs ex (encActs ex s0 acc.2).1 (onRead cfg acc.1 c).2).2 := by rw [hA]
    have hS : (encActs ex s0 (acc.2 ++ (onRead cfg acc.1 c).2)).1 =
        (encActs ex (encActs ex s0 acc.2).1 (onRead cfg acc.1 c).2).1 := by rw [hA]
    simp only [Bool.false_eq_true, if_false, l1, hnc2, l2, l3, List.nil_append]
    split
    · -- overflow guard
      refine ⟨hnc, ?_, ?_⟩
      · dsimp only
        rw [l4, hB]
        exact prefix_append_both _ (writeAll_prefix _ _)
      · intro h'; exact Bool.noConfusion h'
    · split
      · rename_i hw
        refine ⟨hnc, ?_, ?_⟩
        · dsimp only
          rw [l4, hB, hw, List.append_nil]
          exact List.prefix_refl _
        · intro _
          dsimp only
          exact ⟨rfl, hS.symm, rfl, by rw [l4, hB, hw, List.append_nil]⟩
      · split
        · refine ⟨hnc, ?_, ?_⟩
          · dsimp only
            rw [l4, hB]
            exact prefix_append_both _ (writeAll_prefix _ _)
          · intro h'; exact Bool.noConfusion h'
        · rename_i hok
          have hok' : (writeAll s.script (encActs ex (encActs ex s0 acc.2).1 (onRead cfg acc.1 c).2).2).2.2 = true := by
            simpa using hok
          have hd := writeAll_ok _ _ hok'
          split
          · refine ⟨hnc, ?_, ?_⟩
            · dsimp only
              rw [l4, hB, hd]
              exact List.prefix_refl _
            · intro h'; exact Bool.noConfusion h'
          · refine ⟨hnc, ?_, ?_⟩
            · dsimp only
              rw [l4, hB, hd]
              exact List.prefix_refl _
            · intro _
              dsimp only
              exact ⟨rfl, hS.symm, rfl, by rw [l4, hB, hd]⟩
          · refine ⟨hnc, ?_, ?_⟩
            · dsimp only
              rw [l4, hB, hd]
              exact List.prefix_refl _
            · intro _
              dsimp only
              exact ⟨rfl, hS.symm, rfl, by rw [l4, hB, hd]⟩

theorem noFail_tail (e : WEv) (sc : List WEv) (h : NoFail (e :: sc) = true) : NoFail sc = true ∧ e ≠ .fail := by
  cases e with
  | fail => simp [NoFail] at h
  | accept k =>
    simp only [NoFail, Bool.and_eq_true] at h
    exact ⟨h.2, by intro hh; cases hh⟩

theorem ioStep_relNF {σ : Type} (cfg : Config) (ex : Exec σ) (s0 : σ) (s : WSt σ) (acc : St × List Action) (c : Bytes)
    (h : RelNF ex s0 s acc) (hnc : anyCrash (acc.2 ++ (onRead cfg acc.1 c).2) = false) :
    RelNF ex s0 (ioStep cfg ex s c) ((onRead cfg acc.1 c).1, acc.2 ++ (onRead cfg acc.1 c).2) := by
  have hrel := ioStep_rel cfg ex s0 s acc c h.toRel hnc
  have hA := encActs_append ex acc.2 (onRead cfg acc.1 c).2 s0 h.nocrash
  have hnc2 : anyCrash (onRead cfg acc.1 c).2 = false := by
    rw [anyCrash_append] at hnc
    simp only [Bool.or_eq_false_iff] at hnc
    exact hnc.2
  have hB : (encActs ex s0 (acc.2 ++ (onRead cfg acc.1 c).2)).2 =
      (encActs ex s0 acc.2).2 ++ (encActs ex (encActs ex s0 acc.2).1 (onRead cfg acc.1 c).2).2 := by rw [hA]
  refine { toRel := hrel, script := ?_, all := ?_, ended := ?_ }
  all_goals unfold ioStep
  all_goals cases he : s.ended with
  | true =>
    have hcl := h.ended he
    have hon := onRead_closed cfg acc.1 c hcl
    simp only [if_true]
    first
      | exact h.script
      | (rw [hon]; simpa using h.all)
      | (intro _; rw [hon]; exact hcl)
  | false =>
    obtain ⟨l1, l2, l3, l4⟩ := h.live he
    have hnf := writeAll_noFail s.script (encActs ex (encActs ex s0 acc.2).1 (onRead cfg acc.1 c).2).2 h.script
    simp only [Bool.false_eq_true, if_false, l1, hnc2, l2, l3, List.nil_append]
    split
    · rename_i hcl
      first
        | exact hnf.2.2
        | (dsimp only; rw [l4, hB, hnf.1])
        | (intro _; exact hcl)
    · split
      · rename_i hw
        first
          | exact h.script
          | (dsimp only; rw [l4, hB, hw, List.append_nil])
          | (intro h'; exact Bool.noConfusion h')
      · split
        · rename_i hok
          rw [hnf.2.1] at hok
          exact absurd hok (by decide)
        · split
          · rename_i sc hsc
            have := hnf.2.2
            rw [hsc] at this
            simp [NoFail] at this
          · rename_i e sc hne hsc
            have := hnf.2.2
            rw [hsc] at this
            first
              | exact (noFail_tail _ _ this).1
              | (dsimp only; rw [l4, hB, hnf.1])
              | (intro h'; exact Bool.noConfusion h')
          · first
              | rfl
              | (dsimp only; rw [l4, hB, hnf.1])
              | (intro h'; exact Bool.noConfusion h')

/-- the byte-level run, read by read, against the action-level fold -/
theorem fold_rel {σ : Type} (cfg : Config) (ex : Exec σ) (s0 : σ) : ∀ (chunks : List Bytes) (s : WSt σ) (acc : St × List Action),
    Rel ex s0 s acc → anyCrash (pureFold cfg acc chunks).2 = false →
    Rel ex s0 (chunks.foldl (ioStep cfg ex) s) (pureFold cfg acc chunks) := by
  intro chunks
  induction chunks with
  | nil => intro s acc h _; exact h
  | cons c cs ih =>
    intro s acc h hnc
    rw [pureFold_cons] at hnc ⊢
    obtain ⟨tail, ht⟩ := pureFold_actions cfg cs ((onRead cfg acc.1 c).1, acc.2 ++ (onRead cfg acc.1 c).2)
    have hnc1 : anyCrash (acc.2 ++ (onRead cfg acc.1 c).2) = false := by
      rw [ht, anyCrash_append] at hnc
      simp only [Bool.or_eq_false_iff] at hnc
      exact hnc.1
    exact ih _ _ (ioStep_rel cfg ex s0 s acc c h hnc1) hnc

theorem fold_relNF {σ : Type} (cfg : Config) (ex : Exec σ) (s0 : σ) : ∀ (chunks : List Bytes) (s : WSt σ) (acc : St × List Action),
    RelNF ex s0 s acc → anyCrash (pureFold cfg acc chunks).2 = false →
    RelNF ex s0 (chunks.foldl (ioStep cfg ex) s) (pureFold cfg acc chunks) := by
  intro chunks
  induction chunks with
  | nil => intro s acc h _; exact h
  | cons c cs ih =>
    intro s acc h hnc
    rw [pureFold_cons] at hnc ⊢
    obtain ⟨tail, ht⟩ := pureFold_actions cfg cs ((onRead cfg acc.1 c).1, acc.2 ++ (onRead cfg acc.1 c).2)
    have hnc1 : anyCrash (acc.2 ++ (onRead cfg acc.1 c).2) = false := by
      rw [ht, anyCrash_append] at hnc
      simp only [Bool.or_eq_false_iff] at hnc
      exact hnc.1
    exact ih _ _ (ioStep_relNF cfg ex s0 s acc c h hnc1) hnc

theorem rel_init {σ : Type} (ex : Exec σ) (s0 : σ) (script : List WEv) :
    Rel ex s0 (WSt.init s0 script) (St.init, []) :=
  ⟨rfl, by simp [WSt.init, encActs], fun _ => ⟨rfl, rfl, rfl, rfl⟩⟩

theorem relNF_init {σ : Type} (ex : Exec σ) (s0 : σ) (script : List WEv) (h : NoFail script = true) :
    RelNF ex s0 (WSt.init s0 script) (St.init, []) :=
  { toRel := rel_init ex s0 script, script := h, all := rfl, ended := fun h' => Bool.noConfusion h' }

/-- REFINEMENT (any peer, any read error): the bytes the peer receives are a prefix of the encoding
    of the actions of `Conn.run` -/
theorem runW_prefix {σ : Type} (cfg : Config) (ex : Exec σ) (s0 : σ) (script : List WEv) (segs : List Bytes)
    (stopAfter : Option Nat) (hnc : hasCrash (run cfg segs) = false) :
    (runW cfg ex s0 script segs stopAfter).out <+: (encActs ex s0 (run cfg segs)).2 := by
  rw [← anyCrash_eq, run_eq_pureFold] at hnc
  rw [run_eq_pureFold]
  unfold runW
  cases stopAfter with
  | none => exact (fold_rel cfg ex s0 _ _ _ (rel_init ex s0 script) hnc).out
  | some n =>
    obtain ⟨tail, ht⟩ := pureFold_take cfg (chunksOf cfg segs) n (St.init, [])
    have hnc' : anyCrash (pureFold cfg (St.init, []) ((chunksOf cfg segs).take n)).2 = false := by
      rw [ht, anyCrash_append] at hnc
      simp only [Bool.or_eq_false_iff] at hnc
      exact hnc.1
    have := (fold_rel cfg ex s0 _ _ _ (rel_init ex s0 script) hnc').out
    rw [ht]
    exact List.IsPrefix.trans this (encActs_prefix ex _ tail s0 hnc')

/-- REFINEMENT (a peer that never refuses, no read error): the bytes the peer receives ARE the
    encoding of the actions of `Conn.run`, whatever the sizes of the partial writes -/
theorem runW_eq {σ : Type} (cfg : Config) (ex : Exec σ) (s0 : σ) (script : List WEv) (segs : List Bytes)
    (hnf : NoFail script = true) (hnc : hasCrash (run cfg segs) = false) :
    (runW cfg ex s0 script segs none).out = (encActs ex s0 (run cfg segs)).2 := by
  rw [← anyCrash_eq, run_eq_pureFold] at hnc
  rw [run_eq_pureFold]
  exact (fold_relNF cfg ex s0 _ _ _ (relNF_init ex s0 script hnf) hnc).all

/-! ### the client's side: decoding the reply stream -/

/-- values the server may put on the wire so that decoder `c` on a machine `env` gives them back:
    of the reply type, within the stack, at most 32 nested arrays -/
def ValOK (c : Codec) (env : Env) (v : Val) : Prop :=
  v.wf c = true ∧ v.depth ≤ env.depth ∧ v.arr ≤ maxNesting

instance (c : Codec) (env : Env) (v : Val) : Decidable (ValOK c env v) := by unfold ValOK; infer_instance

theorem codec_good_fixed (c : Codec) (h : c = codec1 ∨ c = codec2) : c.Good ∧ c.Fixed maxNesting := by
  cases h with
  | inl h => subst h; exact ⟨codec1_good, codec1_fixed⟩
  | inr h => subst h; exact ⟨codec2_good, codec2_fixed⟩

theorem parserSpecOf (c : Codec) (hc : c.Good) (env : Env) (hd : 1 ≤ env.depth) :
    ParserSpec (fun b => (parseG c env b).out) where
  empty := by
    unfold parseG
    cases h : env.depth with
    | zero => omega
    | succ d => simp [parseD, Outcome.isIncomplete]
  consumed := fun bs hs => parseD_consumed c hc env.mem env.depth 0 bs hs
  stable := fun a b hs hdec => parseD_stable c hc env.mem env.depth 0 a b hs hdec

/-- the concatenation of encoded values drains to exactly those values (as written on the wire),
    nothing left over, decoder alive -/
theorem drain_encoded (c : Codec) (hc : c = codec1 ∨ c = codec2) (env : Env) (hd : 1 ≤ env.depth) :
    ∀ (vs : List Val) (f : Nat), vs.length < f → (∀ v ∈ vs, ValOK c env v) →
      Small (vs.map encode2).flatten →
      drain (fun b => (parseG c env b).out) f (vs.map encode2).flatten =
        (vs.map (fun v => Frame.val v.san), [], false) := by
  obtain ⟨hg, hf⟩ := codec_good_fixed c hc
  intro vs
  induction vs with
  | nil =>
    intro f hf' _ _
    cases f with
    | zero => simp at hf'
    | succ f =>
      simp only [List.map_nil, List.flatten_nil, drain]
      have : (parseG c env []).out = .incomplete .empty := by
        unfold parseG
        cases h : env.depth with
        | zero => omega
        | succ d => simp [parseD]
      rw [this]
  | cons v vs ih =>
    intro f hf' hok hs
    cases f with
    | zero => simp at hf'
    | succ f =>
      simp only [List.map_cons, List.flatten_cons] at hs ⊢
      obtain ⟨h1, h2, h3⟩ := hok v (by simp)
      have hp : (parseG c env (encode2 v ++ (vs.map encode2).flatten)).out = .ok v.san (encode2 v).length :=
        parseD_encode c hg maxNesting hf env.mem env.depth 0 v h2 (by omega) h1 _ hs
      unfold drain
      simp only [hp, List.drop_left]
      have hs' : Small (vs.map encode2).flatten := by
        unfold Small at *; simp at hs ⊢; omega
      rw [ih f (by simp at hf'; omega) (fun w hw => hok w (by simp [hw])) hs']

/-- a client that feeds the reply stream — in ANY fragmentation — to the buffer loop around
    decoder `c` obtains exactly the values, in order, with nothing left over -/
theorem feedAll_encoded (c : Codec) (hc : c = codec1 ∨ c = codec2) (env : Env) (hd : 1 ≤ env.depth)
    (vs : List Val) (hok : ∀ v ∈ vs, ValOK c env v) (chunks : List Bytes)
    (hch : chunks.flatten = (vs.map encode2).flatten) (hs : Small (vs.map encode2).flatten) :
    feedAll (fun b => (parseG c env b).out) FeedSt.init chunks =
      ⟨vs.map (fun v => Frame.val v.san), [], false⟩ := by
  obtain ⟨hg, _⟩ := codec_good_fixed c hc
  have hp := parserSpecOf c hg env hd
  rw [feedAll_fragmentation _ hp chunks (by rw [hch]; exact hs), hch]
  rw [← drainAll_nil _ hp, feedAll_ofDrain _ hp _ [] (by simpa using hs)]
  simp only [List.nil_append, List.flatten_cons, List.flatten_nil, List.append_nil]
  unfold drainAll
  have hlen : vs.length < (vs.map encode2).flatten.length + 1 := by
    have : ∀ (l : List Val), l.length ≤ (l.map encode2).flatten.length := by
      intro l
      induction l with
      | nil => simp
      | cons x xs ih =>
        have hx : encode2 x ≠ [] := encode2S_ne_nil true x
        have : 1 ≤ (encode2 x).length := by
          cases hh : encode2 x with
          | nil => exact absurd hh hx
          | cons _ _ => simp
        simp only [List.map_cons, List.flatten_cons, List.length_append, List.length_cons]
        omega
    have := this vs
    omega
  rw [drain_encoded c hc env hd vs _ hlen hok hs]
  rfl

theorem replyBytes_eq {σ : Type} (ex : Exec σ) : ∀ (fs : List Val) (s : σ),
    replyBytes ex s fs = ((replyVals ex s fs).map encode2).flatten := by
  intro fs
  induction fs with
  | nil => intro s; rfl
  | cons f rest ih =>
    intro s
    simp only [replyBytes, replyVals, List.map_cons, List.flatten_cons, ih, encode3_eq]

theorem replyVals_length {σ : Type} (ex : Exec σ) : ∀ (fs : List Val) (s : σ),
    (replyVals ex s fs).length = fs.length := by
  intro fs
  induction fs with
  | nil => intro s; rfl
  | cons f rest ih => intro s; simp [replyVals, ih]

theorem replyVals_ok {σ : Type} (ex : Exec σ) (P : Val → Prop) (h : ∀ s f p, P (ex s f p).2) :
    ∀ (fs : List Val) (s : σ), ∀ v ∈ replyVals ex s fs, P v := by
  intro fs
  induction fs with
  | nil => intro s v hv; simp [replyVals] at hv
  | cons f rest ih =>
    intro s v hv
    simp only [replyVals, List.mem_cons] at hv
    cases hv with
    | inl h1 => rw [h1]; exact h _ _ _
    | inr h1 => exact ih _ v h1

end RedisVerif.ConnW
