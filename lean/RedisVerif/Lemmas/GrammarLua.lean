import RedisVerif.Model.GrammarTable
import RedisVerif.Lemmas.GrammarOpts

/-
  The redis.call translator against the RESP grammar: where a translator entry accepts a frame,
  the RESP grammar's entry of the same name builds the same command (slot kinds are the same,
  only the error texts differ; the translator's arity rule is at most as permissive).
-/
namespace RedisVerif.Grammar

theorem extract_ok_kind {a b : Arg} (hk : a.kind = b.kind) {v : Bytes} {t : Tok}
    (h : a.extract v = .ok t) : b.extract v = .ok t := by
  unfold Arg.extract at h ⊢
  rw [← hk]
  cases hkind : a.kind <;> rw [hkind] at h <;> simp only at h ⊢
  · exact h
  · exact h
  · cases hp : parseI64 v <;> rw [hp] at h <;> simp_all
  · cases hp : parseUnsigned u64Max v <;> rw [hp] at h <;> simp_all
  · cases hp : parseF64 v <;> rw [hp] at h <;> simp_all
  · cases hp : parseUnsigned u64Max v <;> rw [hp] at h <;> simp_all
  · exact h
  · cases hp : parseUnsigned u32Max (lossy v) <;> rw [hp] at h <;> simp_all
  · cases hp : parseI64 v with
    | none => rw [hp] at h; simp_all
    | some i => rw [hp] at h; simp only at h ⊢; exact h

def sameKinds : List Arg → List Arg → Bool
  | [], [] => true
  | a :: as, b :: bs => a.kind == b.kind && sameKinds as bs
  | _, _ => false

theorem extractFixed_ok_kind : ∀ (as bs : List Arg), sameKinds as bs = true → ∀ (vs : List Bytes) (ts : List Tok),
    extractFixed as vs = .ok ts → extractFixed bs vs = .ok ts := by
  intro as
  induction as with
  | nil =>
    intro bs hs vs ts h
    match bs, vs with
    | [], [] => exact h
    | [], _ :: _ => simp [extractFixed] at h
    | _ :: _, _ => simp [sameKinds] at hs
  | cons a as ih =>
    intro bs hs vs ts h
    match bs, vs with
    | [], _ => simp [sameKinds] at hs
    | b :: bs', [] => simp [extractFixed] at h
    | b :: bs', v :: vs' =>
      simp only [sameKinds, Bool.and_eq_true, beq_iff_eq] at hs
      simp only [extractFixed, bind, Except.bind] at h ⊢
      cases hx : a.extract v with
      | error e => rw [hx] at h; simp at h
      | ok t =>
        rw [hx] at h
        rw [extract_ok_kind hs.1 hx]
        simp only at h ⊢
        cases hy : extractFixed as vs' with
        | error e => rw [hy] at h; simp at h
        | ok us =>
          rw [hy] at h
          rw [ih bs' hs.2 vs' us hy]
          exact h

theorem extractAll_ok_kind {a b : Arg} (hk : a.kind = b.kind) : ∀ (vs : List Bytes) (ts : List Tok),
    extractAll a vs = .ok ts → extractAll b vs = .ok ts := by
  intro vs
  induction vs with
  | nil => intro ts h; exact h
  | cons v vs ih =>
    intro ts h
    simp only [extractAll, bind, Except.bind] at h ⊢
    cases hx : a.extract v with
    | error e => rw [hx] at h; simp at h
    | ok t =>
      rw [hx] at h
      rw [extract_ok_kind hk hx]
      simp only at h ⊢
      cases hy : extractAll a vs with
      | error e => rw [hy] at h; simp at h
      | ok us => rw [hy] at h; rw [ih us hy]; exact h

theorem extractPairs_ok_kind {a b a' b' : Arg} (hk : a.kind = a'.kind) (hk' : b.kind = b'.kind) :
    ∀ (n : Nat) (vs : List Bytes) (ts : List Tok), vs.length ≤ n →
      extractPairs a b vs = .ok ts → extractPairs a' b' vs = .ok ts := by
  intro n
  induction n with
  | zero =>
    intro vs ts hl h
    match vs with
    | [] => exact h
    | _ :: _ => simp at hl
  | succ n ih =>
    intro vs ts hl h
    match vs with
    | [] => exact h
    | [_] => simp [extractPairs] at h
    | x :: y :: vs' =>
      simp only [extractPairs, bind, Except.bind] at h ⊢
      cases hx : a.extract x with
      | error e => rw [hx] at h; simp at h
      | ok t =>
        rw [hx] at h
        rw [extract_ok_kind hk hx]
        simp only at h ⊢
        cases hy : b.extract y with
        | error e => rw [hy] at h; simp at h
        | ok u =>
          rw [hy] at h
          rw [extract_ok_kind hk' hy]
          simp only at h ⊢
          cases hz : extractPairs a b vs' with
          | error e => rw [hz] at h; simp at h
          | ok us =>
            rw [hz] at h
            rw [ih vs' us (by simp at hl; omega) hz]
            exact h

/-- two DSL bodies that build the same command from the same slot kinds -/
def bodyOkSub : Body → Body → Bool
  | .const c, .const c' => c == c'
  | .fixed c sl, .fixed c' sl' => c == c' && sameKinds sl sl'
  | .many c p e, .many c' p' e' => c == c' && sameKinds p p' && e.kind == e'.kind
  | .pairs c p a b, .pairs c' p' a' b' => c == c' && sameKinds p p' && a.kind == a'.kind && b.kind == b'.kind
  | _, _ => false

theorem sameKinds_length : ∀ (as bs : List Arg), sameKinds as bs = true → as.length = bs.length := by
  intro as
  induction as with
  | nil => intro bs h; match bs with
    | [] => rfl
    | _ :: _ => simp [sameKinds] at h
  | cons a as ih => intro bs h; match bs with
    | [] => simp [sameKinds] at h
    | b :: bs' =>
      simp only [sameKinds, Bool.and_eq_true] at h
      simp [ih bs' h.2]

theorem body_ok_sub {l m : Body} (h : bodyOkSub l m = true) (args : List Bytes) (c : Cmd)
    (hr : l.run args = .ok c) : m.run args = .ok c := by
  match l, m with
  | .const x, .const y =>
    simp only [bodyOkSub, beq_iff_eq] at h; subst h; exact hr
  | .fixed x sl, .fixed y sl' =>
    simp only [bodyOkSub, Bool.and_eq_true, beq_iff_eq] at h
    obtain ⟨hc, hs⟩ := h; subst hc
    simp only [Body.run, bind, Except.bind] at hr ⊢
    cases hx : extractFixed sl args with
    | error e => rw [hx] at hr; simp at hr
    | ok ts => rw [hx] at hr; rw [extractFixed_ok_kind sl sl' hs args ts hx]; exact hr
  | .many x p e, .many y p' e' =>
    simp only [bodyOkSub, Bool.and_eq_true, beq_iff_eq] at h
    obtain ⟨⟨hc, hs⟩, he⟩ := h; subst hc
    have hlen := sameKinds_length p p' hs
    simp only [Body.run, bind, Except.bind] at hr ⊢
    rw [← hlen]
    cases hx : extractFixed p (args.take p.length) with
    | error e => rw [hx] at hr; simp at hr
    | ok ts =>
      rw [hx] at hr
      rw [extractFixed_ok_kind p p' hs _ ts hx]
      simp only at hr ⊢
      cases hy : extractAll e (args.drop p.length) with
      | error e => rw [hy] at hr; simp at hr
      | ok us => rw [hy] at hr; rw [extractAll_ok_kind he _ us hy]; exact hr
  | .pairs x p a b, .pairs y p' a' b' =>
    simp only [bodyOkSub, Bool.and_eq_true, beq_iff_eq] at h
    obtain ⟨⟨⟨hc, hs⟩, ha⟩, hb⟩ := h; subst hc
    have hlen := sameKinds_length p p' hs
    simp only [Body.run, bind, Except.bind] at hr ⊢
    rw [← hlen]
    cases hx : extractFixed p (args.take p.length) with
    | error e => rw [hx] at hr; simp at hr
    | ok ts =>
      rw [hx] at hr
      rw [extractFixed_ok_kind p p' hs _ ts hx]
      simp only at hr ⊢
      cases hy : extractPairs a b (args.drop p.length) with
      | error e => rw [hy] at hr; simp at hr
      | ok us => rw [hy] at hr; rw [extractPairs_ok_kind ha hb _ _ us (Nat.le_refl _) hy]; exact hr
  | .custom _, _ => simp [bodyOkSub] at h
  | .const _, .fixed _ _ => simp [bodyOkSub] at h
  | .const _, .many _ _ _ => simp [bodyOkSub] at h
  | .const _, .pairs _ _ _ _ => simp [bodyOkSub] at h
  | .const _, .custom _ => simp [bodyOkSub] at h
  | .fixed _ _, .const _ => simp [bodyOkSub] at h
  | .fixed _ _, .many _ _ _ => simp [bodyOkSub] at h
  | .fixed _ _, .pairs _ _ _ _ => simp [bodyOkSub] at h
  | .fixed _ _, .custom _ => simp [bodyOkSub] at h
  | .many _ _ _, .const _ => simp [bodyOkSub] at h
  | .many _ _ _, .fixed _ _ => simp [bodyOkSub] at h
  | .many _ _ _, .pairs _ _ _ _ => simp [bodyOkSub] at h
  | .many _ _ _, .custom _ => simp [bodyOkSub] at h
  | .pairs _ _ _ _, .const _ => simp [bodyOkSub] at h
  | .pairs _ _ _ _, .fixed _ _ => simp [bodyOkSub] at h
  | .pairs _ _ _ _, .many _ _ _ => simp [bodyOkSub] at h
  | .pairs _ _ _ _, .custom _ => simp [bodyOkSub] at h

/-- a decidable sufficient test for "every count the first rule accepts, the second accepts" -/
def aritySub : Arity → Arity → Bool
  | _, .any => true
  | .exact n, .exact m => n == m
  | .exact n, .atLeast m => m ≤ n
  | .exact n, .between lo hi => lo ≤ n && n ≤ hi
  | .atLeast n, .atLeast m => m ≤ n
  | .oddAtLeast n, .oddAtLeast m => m ≤ n
  | .evenAtLeast n, .evenAtLeast m => m ≤ n
  | .between lo hi, .between lo' hi' => lo' ≤ lo && hi ≤ hi'
  | _, _ => false

theorem arity_sub {a b : Arity} (h : aritySub a b = true) (k : Nat) (hk : a.ok k = true) : b.ok k = true := by
  cases a <;> cases b <;> simp_all [aritySub, Arity.ok] <;> omega


theorem findOpt_bound : ∀ (T : List OptSpec) (k : Bytes) (n i : Nat) (o : OptSpec),
    findOpt T k n = some (i, o) → n ≤ i ∧ i < n + T.length := by
  intro T
  induction T with
  | nil => intro k n i o h; simp [findOpt] at h
  | cons x xs ih =>
    intro k n i o h
    simp only [findOpt] at h
    split at h
    · simp only [Option.some.injEq, Prod.mk.injEq] at h
      simp only [List.length_cons]; omega
    · have := ih k (n + 1) i o h
      simp only [List.length_cons]; omega

/-- every option of `T` is an option of `T'` at the same index, with the same value kinds -/
def OptSub (T T' : List OptSpec) : Prop :=
  ∀ k i o, findOpt T k 0 = some (i, o) →
    o.reject = none ∧ o.missing ≠ .ignore ∧
    ∃ o', findOpt T' k 0 = some (i, o') ∧ o'.reject = none ∧ sameKinds o.vals o'.vals = true

theorem scan_sub (T T' : List OptSpec) (unk unk' : Bytes → Option BErr) (hsub : OptSub T T')
    (hunk : ∀ k, (unk k).isSome = true) :
    ∀ (n : Nat) (opts : List Bytes) (s : Seen), opts.length ≤ n → scanOpts T unk opts = .ok s →
      scanOpts T' unk' opts = .ok s ∧ ∀ p ∈ s, p.1 < T.length := by
  intro n
  induction n with
  | zero =>
    intro opts s hl h
    match opts with
    | [] => simp only [scanOpts, Except.ok.injEq] at h; subst h; simp [scanOpts]
    | _ :: _ => simp at hl
  | succ n ih =>
    intro opts s hl h
    match opts with
    | [] => simp only [scanOpts, Except.ok.injEq] at h; subst h; simp [scanOpts]
    | a :: r =>
      have hr : r.length ≤ n := by simp at hl; omega
      rw [scanOpts] at h ⊢
      cases hf : findOpt T (kw a) 0 with
      | none =>
        rw [hf] at h
        simp only at h
        have := hunk (kw a)
        cases hu : unk (kw a) with
        | none => rw [hu] at this; simp at this
        | some e => rw [hu] at h; simp at h
      | some io =>
        obtain ⟨idx, o⟩ := io
        rw [hf] at h
        obtain ⟨hrej, hmiss, o', hf', hrej', hk⟩ := hsub (kw a) idx o hf
        have hidx : idx < T.length := by have := findOpt_bound T (kw a) 0 idx o hf; omega
        rw [hf']
        simp only [hrej, hrej'] at h ⊢
        match hv : o.vals, hv' : o'.vals with
        | [], [] =>
          rw [hv] at h
          simp only [bind, Except.bind] at h ⊢
          cases hs : scanOpts T unk r with
          | error e => rw [hs] at h; simp at h
          | ok s' =>
            rw [hs] at h
            obtain ⟨h1, h2⟩ := ih r s' hr hs
            rw [h1]
            simp only [pure, Except.pure, Except.ok.injEq] at h ⊢
            subst h
            refine ⟨rfl, ?_⟩
            intro p hp
            simp only [List.mem_cons] at hp
            rcases hp with rfl | hp
            · exact hidx
            · exact h2 p hp
        | [k1], [k1'] =>
          rw [hv, hv'] at hk
          simp only [sameKinds, Bool.and_eq_true, beq_iff_eq, and_true] at hk
          rw [hv] at h
          simp only at h ⊢
          match r with
          | [] =>
            simp only at h
            cases hm : o.missing with
            | err l => rw [hm] at h; simp [Missing.result] at h
            | crash => rw [hm] at h; simp [Missing.result] at h
            | ignore => exact absurd hm hmiss
          | v1 :: rest' =>
            simp only [bind, Except.bind] at h ⊢
            cases hx : k1.extract v1 with
            | error e => rw [hx] at h; simp at h
            | ok t1 =>
              rw [hx] at h
              rw [extract_ok_kind hk hx]
              simp only at h ⊢
              cases hs : scanOpts T unk rest' with
              | error e => rw [hs] at h; simp at h
              | ok s' =>
                rw [hs] at h
                obtain ⟨h1, h2⟩ := ih rest' s' (by simp at hr; omega) hs
                rw [h1]
                simp only [pure, Except.pure, Except.ok.injEq] at h ⊢
                subst h
                refine ⟨rfl, ?_⟩
                intro p hp
                simp only [List.mem_cons] at hp
                rcases hp with rfl | hp
                · exact hidx
                · exact h2 p hp
        | [k1, k2], [k1', k2'] =>
          rw [hv, hv'] at hk
          simp only [sameKinds, Bool.and_eq_true, beq_iff_eq, and_true] at hk
          rw [hv] at h
          simp only at h ⊢
          match r with
          | [] =>
            simp only at h
            cases hm : o.missing with
            | err l => rw [hm] at h; simp [Missing.result] at h
            | crash => rw [hm] at h; simp [Missing.result] at h
            | ignore => exact absurd hm hmiss
          | [_] =>
            simp only at h
            cases hm : o.missing with
            | err l => rw [hm] at h; simp [Missing.result] at h
            | crash => rw [hm] at h; simp [Missing.result] at h
            | ignore => exact absurd hm hmiss
          | v1 :: v2 :: rest' =>
            simp only [bind, Except.bind] at h ⊢
            cases hx : k1.extract v1 with
            | error e => rw [hx] at h; simp at h
            | ok t1 =>
              rw [hx] at h
              rw [extract_ok_kind hk.1 hx]
              simp only at h ⊢
              cases hy : k2.extract v2 with
              | error e => rw [hy] at h; simp at h
              | ok t2 =>
                rw [hy] at h
                rw [extract_ok_kind hk.2 hy]
                simp only at h ⊢
                cases hs : scanOpts T unk rest' with
                | error e => rw [hs] at h; simp at h
                | ok s' =>
                  rw [hs] at h
                  obtain ⟨h1, h2⟩ := ih rest' s' (by simp at hr; omega) hs
                  rw [h1]
                  simp only [pure, Except.pure, Except.ok.injEq] at h ⊢
                  subst h
                  refine ⟨rfl, ?_⟩
                  intro p hp
                  simp only [List.mem_cons] at hp
                  rcases hp with rfl | hp
                  · exact hidx
                  · exact h2 p hp
        | _ :: _ :: _ :: _, _ => rw [hv] at h; simp at h
        | [], _ :: _ => rw [hv, hv'] at hk; simp [sameKinds] at hk
        | [_], [] => rw [hv, hv'] at hk; simp [sameKinds] at hk
        | [_], _ :: _ :: _ => rw [hv, hv'] at hk; simp [sameKinds] at hk
        | [_, _], [] => rw [hv, hv'] at hk; simp [sameKinds] at hk
        | [_, _], [_] => rw [hv, hv'] at hk; simp [sameKinds] at hk
        | [_, _], _ :: _ :: _ :: _ => rw [hv, hv'] at hk; simp [sameKinds] at hk

/-- `T'` (the RESP grammar's option table) against `T` (the translator's): every option of `T'`
    that is not refused is an option of `T` at the same index with the same value kinds, or is one
    of the `extra` words `T` does not have -/
def OptSuper (T' T : List OptSpec) (extra : List Bytes) : Prop :=
  ∀ k i o', findOpt T' k 0 = some (i, o') → o'.reject = none →
    o'.missing ≠ .ignore ∧
    ((∃ o, findOpt T k 0 = some (i, o) ∧ o.reject = none ∧ sameKinds o'.vals o.vals = true) ∨
     (findOpt T k 0 = none ∧ k ∈ extra))

/-- if the RESP grammar's scan succeeds, the translator's scan succeeds with the same result, or
    stops with its unknown-option error at one of the `extra` words -/
theorem scan_super (T' T : List OptSpec) (unk' : Bytes → Option BErr) (mk : Bytes → BErr) (extra : List Bytes)
    (hsup : OptSuper T' T extra) (hunk' : ∀ k, (unk' k).isSome = true) :
    ∀ (n : Nat) (opts : List Bytes) (s : Seen), opts.length ≤ n → scanOpts T' unk' opts = .ok s →
      scanOpts T (fun w => some (mk w)) opts = .ok s ∨
      ∃ w ∈ extra, scanOpts T (fun w => some (mk w)) opts = .error (mk w) := by
  intro n
  induction n with
  | zero =>
    intro opts s hl h
    match opts with
    | [] => left; simpa [scanOpts] using h
    | _ :: _ => simp at hl
  | succ n ih =>
    intro opts s hl h
    match opts with
    | [] => left; simpa [scanOpts] using h
    | a :: r =>
      have hr : r.length ≤ n := by simp at hl; omega
      rw [scanOpts] at h
      cases hf' : findOpt T' (kw a) 0 with
      | none =>
        rw [hf'] at h
        simp only at h
        have := hunk' (kw a)
        cases hu : unk' (kw a) with
        | none => rw [hu] at this; simp at this
        | some e => rw [hu] at h; simp at h
      | some io =>
        obtain ⟨idx, o'⟩ := io
        rw [hf'] at h
        simp only at h
        cases hrej' : o'.reject with
        | some f => rw [hrej'] at h; simp at h
        | none =>
          rw [hrej'] at h
          simp only at h
          obtain ⟨hmiss, hcase⟩ := hsup (kw a) idx o' hf' hrej'
          rcases hcase with ⟨o, hf, hrej, hk⟩ | ⟨hf, hex⟩
          · -- the translator knows the option: same step, then the rest
            have step : ∀ (rest : List Bytes) (ts : List Tok) (s' : Seen), rest.length ≤ n →
                scanOpts T' unk' rest = .ok s' →
                ((do let s ← scanOpts T (fun w => some (mk w)) rest; pure ((idx, ts) :: s) : Except BErr Seen) = .ok ((idx, ts) :: s') ∨
                 ∃ w ∈ extra, (do let s ← scanOpts T (fun w => some (mk w)) rest; pure ((idx, ts) :: s) : Except BErr Seen) = .error (mk w)) := by
              intro rest ts s' hrl hs
              rcases ih rest s' hrl hs with h1 | ⟨w, hw, h1⟩
              · left; simp [h1, bind, Except.bind, pure, Except.pure]
              · right; exact ⟨w, hw, by simp [h1, bind, Except.bind]⟩
            rw [scanOpts, hf]
            simp only [hrej]
            match hv' : o'.vals, hv : o.vals with
            | [], [] =>
              rw [hv'] at h
              simp only [bind, Except.bind] at h
              cases hs : scanOpts T' unk' r with
              | error e => rw [hs] at h; simp at h
              | ok s' =>
                rw [hs] at h
                simp only [pure, Except.pure, Except.ok.injEq] at h
                subst h
                exact step r [] s' hr hs
            | [k1'], [k1] =>
              rw [hv', hv] at hk
              simp only [sameKinds, Bool.and_eq_true, beq_iff_eq, and_true] at hk
              rw [hv'] at h
              simp only at h ⊢
              match r with
              | [] =>
                simp only at h
                cases hm : o'.missing with
                | err l => rw [hm] at h; simp [Missing.result] at h
                | crash => rw [hm] at h; simp [Missing.result] at h
                | ignore => exact absurd hm hmiss
              | v1 :: rest' =>
                simp only [bind, Except.bind] at h
                cases hx : k1'.extract v1 with
                | error e => rw [hx] at h; simp at h
                | ok t1 =>
                  rw [hx] at h
                  simp only at h
                  cases hs : scanOpts T' unk' rest' with
                  | error e => rw [hs] at h; simp at h
                  | ok s' =>
                    rw [hs] at h
                    simp only [pure, Except.pure, Except.ok.injEq] at h
                    subst h
                    have := step rest' [t1] s' (by simp at hr; omega) hs
                    simp only [bind, Except.bind, extract_ok_kind hk hx] at this ⊢
                    exact this
            | [k1', k2'], [k1, k2] =>
              rw [hv', hv] at hk
              simp only [sameKinds, Bool.and_eq_true, beq_iff_eq, and_true] at hk
              rw [hv'] at h
              simp only at h ⊢
              match r with
              | [] =>
                simp only at h
                cases hm : o'.missing with
                | err l => rw [hm] at h; simp [Missing.result] at h
                | crash => rw [hm] at h; simp [Missing.result] at h
                | ignore => exact absurd hm hmiss
              | [_] =>
                simp only at h
                cases hm : o'.missing with
                | err l => rw [hm] at h; simp [Missing.result] at h
                | crash => rw [hm] at h; simp [Missing.result] at h
                | ignore => exact absurd hm hmiss
              | v1 :: v2 :: rest' =>
                simp only [bind, Except.bind] at h
                cases hx : k1'.extract v1 with
                | error e => rw [hx] at h; simp at h
                | ok t1 =>
                  rw [hx] at h
                  simp only at h
                  cases hy : k2'.extract v2 with
                  | error e => rw [hy] at h; simp at h
                  | ok t2 =>
                    rw [hy] at h
                    simp only at h
                    cases hs : scanOpts T' unk' rest' with
                    | error e => rw [hs] at h; simp at h
                    | ok s' =>
                      rw [hs] at h
                      simp only [pure, Except.pure, Except.ok.injEq] at h
                      subst h
                      have := step rest' [t1, t2] s' (by simp at hr; omega) hs
                      simp only [bind, Except.bind, extract_ok_kind hk.1 hx, extract_ok_kind hk.2 hy] at this ⊢
                      exact this
            | _ :: _ :: _ :: _, _ => rw [hv'] at h; simp at h
            | [], _ :: _ => rw [hv', hv] at hk; simp [sameKinds] at hk
            | [_], [] => rw [hv', hv] at hk; simp [sameKinds] at hk
            | [_], _ :: _ :: _ => rw [hv', hv] at hk; simp [sameKinds] at hk
            | [_, _], [] => rw [hv', hv] at hk; simp [sameKinds] at hk
            | [_, _], [_] => rw [hv', hv] at hk; simp [sameKinds] at hk
            | [_, _], _ :: _ :: _ :: _ => rw [hv', hv] at hk; simp [sameKinds] at hk
          · -- a word only the RESP grammar knows: the translator stops here
            right
            refine ⟨kw a, hex, ?_⟩
            rw [scanOpts, hf]

theorem has_false_of_bound {s : Seen} {n i : Nat} (h : ∀ p ∈ s, p.1 < n) (hi : n ≤ i) : s.has i = false := by
  unfold Seen.has
  rw [List.any_eq_false]
  intro p hp
  have := h p hp
  simp; omega

theorem opt1_none_of_bound {s : Seen} {n i : Nat} (h : ∀ p ∈ s, p.1 < n) (hi : n ≤ i) : s.opt1 i = .none := by
  have hl : s.last i = none := by
    cases hx : s.last i with
    | none => rfl
    | some v =>
      exfalso
      unfold Seen.last at hx
      have : ∀ (l : Seen) (acc : Option (List Tok)), (∀ p ∈ l, p.1 < n) →
          l.foldl (fun acc p => if p.1 == i then some p.2 else acc) acc = some v → acc = some v := by
        intro l
        induction l with
        | nil => intro acc _ h; exact h
        | cons p l ih =>
          intro acc hb h
          simp only [List.foldl_cons] at h
          have hp := hb p (by simp)
          have : (p.1 == i) = false := by simp; omega
          rw [this] at h
          exact ih acc (fun q hq => hb q (by simp [hq])) h
      have := this s none h hx
      simp at this
  unfold Seen.opt1
  rw [hl]


/-! ### the translator's custom bodies against the RESP grammar's -/

theorem optSub_luaSet : OptSub Bodies.luaSetOpts Bodies.setOpts := by
  intro k i o h
  simp only [Bodies.luaSetOpts, findOpt] at h
  repeat' split at h
  all_goals first
    | (simp at h; done)
    | (simp only [Option.some.injEq, Prod.mk.injEq] at h
       obtain ⟨hi, ho⟩ := h
       subst hi; subst ho
       rename_i hk
       subst hk
       exact ⟨rfl, by simp, _, rfl, rfl, rfl⟩)

theorem luaSet_ok (args : List Bytes) (c : Cmd) (h : Bodies.luaSet args = .ok c) :
    Bodies.set args = .ok c := by
  match args with
  | [] => simp [Bodies.luaSet] at h
  | [_] => simp [Bodies.luaSet] at h
  | k :: v :: opts =>
    simp only [Bodies.luaSet, bind, Except.bind] at h
    cases hs : scanOpts Bodies.luaSetOpts (fun w => some (.fmt .luaUnknownSet w)) opts with
    | error e => rw [hs] at h; simp at h
    | ok s =>
      rw [hs] at h
      obtain ⟨h1, hb⟩ := scan_sub Bodies.luaSetOpts Bodies.setOpts _ (fun _ => some (.lit .syntax))
        optSub_luaSet (fun _ => rfl) opts.length opts s (Nat.le_refl _) hs
      have hlen : Bodies.luaSetOpts.length = 5 := rfl
      rw [hlen] at hb
      simp only [Bodies.set, h1, bind, Except.bind]
      by_cases hc : (s.has 0 && s.has 1) = true
      · simp [hc] at h
      · simp only [Bool.not_eq_true] at hc
        simp only [hc, Bool.false_eq_true, if_false] at h
        simp only [hc, Bool.false_eq_true, if_false, has_false_of_bound hb (i := 7) (by omega), Bool.false_and,
          opt1_none_of_bound hb (i := 5) (by omega), opt1_none_of_bound hb (i := 6) (by omega)]
        exact h

theorem optSub_zrbs (off cnt off' cnt' : Arg) (m m' : Lit) (ho : off.kind = off'.kind) (hc : cnt.kind = cnt'.kind) :
    OptSub (Bodies.zrbsOpts off cnt m) (Bodies.zrbsOpts off' cnt' m') := by
  intro k i o h
  simp only [Bodies.zrbsOpts, findOpt] at h
  repeat' split at h
  all_goals first
    | (simp at h; done)
    | (simp only [Option.some.injEq, Prod.mk.injEq] at h
       obtain ⟨hi, ho'⟩ := h
       subst hi; subst ho'
       rename_i hk
       subst hk
       refine ⟨rfl, by simp, _, rfl, rfl, ?_⟩
       simp [sameKinds, ho, hc])

theorem zrangebyscore_ok (off cnt off' cnt' : Arg) (m m' : Lit) (u u' : Fmt)
    (ho : off.kind = off'.kind) (hc : cnt.kind = cnt'.kind) (args : List Bytes) (c : Cmd)
    (h : Bodies.zrangebyscore off cnt m u args = .ok c) : Bodies.zrangebyscore off' cnt' m' u' args = .ok c := by
  match args with
  | [] => simp [Bodies.zrangebyscore] at h
  | [_] => simp [Bodies.zrangebyscore] at h
  | [_, _] => simp [Bodies.zrangebyscore] at h
  | k :: mn :: mx :: opts =>
    simp only [Bodies.zrangebyscore, bind, Except.bind] at h ⊢
    cases hs : scanOpts (Bodies.zrbsOpts off cnt m) (fun w => some (.fmt u w)) opts with
    | error e => rw [hs] at h; simp at h
    | ok s =>
      rw [hs] at h
      obtain ⟨h1, _⟩ := scan_sub _ (Bodies.zrbsOpts off' cnt' m') _ (fun w => some (.fmt u' w))
        (optSub_zrbs off cnt off' cnt' m m' ho hc) (fun _ => rfl) opts.length opts s (Nat.le_refl _) hs
      rw [h1]
      exact h

theorem zadd_ok {a b : Arg} (hk : a.kind = b.kind) (args : List Bytes) (c : Cmd)
    (h : Bodies.zadd a args = .ok c) : Bodies.zadd b args = .ok c := by
  match args with
  | [] => simp [Bodies.zadd] at h
  | k :: rest =>
    simp only [Bodies.zadd] at h ⊢
    split at h
    · simp at h
    · rename_i hc
      simp only [hc, if_false, bind, Except.bind] at h ⊢
      cases hx : extractPairs a aSds (takeFlags Bodies.zaddFlags rest).2 with
      | error e => rw [hx] at h; simp at h
      | ok us =>
        rw [hx] at h
        rw [extractPairs_ok_kind hk rfl _ _ us (Nat.le_refl _) hx]
        exact h

theorem luaZrange_ok (args : List Bytes) (c : Cmd) (hl : args.length = 3) (h : Bodies.luaZrange args = .ok c) :
    Bodies.zrange (s2b "ZRange") args = .ok c := by
  match args, hl with
  | [k, a, b], _ =>
    simp only [Bodies.luaZrange, Bodies.zrange, bind, Except.bind] at h ⊢
    cases hx : extractFixed [aIntE .luaZrangeStart, aIntE .luaZrangeStop] [a, b] with
    | error e => rw [hx] at h; simp at h
    | ok ts =>
      rw [hx] at h
      rw [extractFixed_ok_kind _ [aInt, aInt] (by decide) _ ts hx]
      exact h

theorem luaExpire_ok (args : List Bytes) (c : Cmd) (hl : args.length = 2) (h : Bodies.luaExpire args = .ok c) :
    Bodies.expire (s2b "Expire") args = .ok c := by
  match args, hl with
  | [k, n], _ =>
    simp only [Bodies.luaExpire, Bodies.expire, bind, Except.bind] at h ⊢
    cases hx : (aIntE .luaExpireInt).extract n with
    | error e => rw [hx] at h; simp at h
    | ok t =>
      rw [hx] at h
      rw [extract_ok_kind (a := aIntE .luaExpireInt) (b := aInt) rfl hx]
      simp only [scanOpts, Seen.has, List.any_nil, Bool.false_and, Bool.and_false, Bool.false_eq_true, if_false] at h ⊢
      exact h


/-! ### the other direction: what the RESP grammar accepts and the translator refuses -/

def setExtra : List Bytes := [s2b "EXAT", s2b "PXAT", s2b "KEEPTTL"]

theorem optSuper_set : OptSuper Bodies.setOpts Bodies.luaSetOpts setExtra := by
  intro k i o' h hrej
  simp only [Bodies.setOpts, findOpt] at h
  repeat' split at h
  all_goals first
    | (simp at h; done)
    | (simp only [Option.some.injEq, Prod.mk.injEq] at h
       obtain ⟨hi, ho⟩ := h
       subst hi; subst ho
       rename_i hk
       subst hk
       first
         | (simp at hrej; done)
         | exact ⟨by simp, Or.inl ⟨_, rfl, rfl, rfl⟩⟩
         | exact ⟨by simp, Or.inr ⟨rfl, by decide⟩⟩)

theorem set_ok_lua (args : List Bytes) (c : Cmd) (h : Bodies.set args = .ok c) :
    Bodies.luaSet args = .ok c ∨ ∃ w ∈ setExtra, Bodies.luaSet args = .error (.fmt .luaUnknownSet w) := by
  match args with
  | [] => simp [Bodies.set] at h
  | [_] => simp [Bodies.set] at h
  | k :: v :: opts =>
    simp only [Bodies.set, bind, Except.bind] at h
    cases hs : scanOpts Bodies.setOpts (fun _ => some (.lit .syntax)) opts with
    | error e => rw [hs] at h; simp at h
    | ok s =>
      rw [hs] at h
      simp only at h
      rcases scan_super Bodies.setOpts Bodies.luaSetOpts _ (fun w => .fmt .luaUnknownSet w) setExtra optSuper_set
          (fun _ => rfl) opts.length opts s (Nat.le_refl _) hs with h1 | ⟨w, hw, h1⟩
      · left
        obtain ⟨_, hb⟩ := scan_sub Bodies.luaSetOpts Bodies.setOpts _ (fun _ => some (.lit .syntax))
          optSub_luaSet (fun _ => rfl) opts.length opts s (Nat.le_refl _) h1
        have hlen : Bodies.luaSetOpts.length = 5 := rfl
        rw [hlen] at hb
        simp only [Bodies.luaSet, h1, bind, Except.bind]
        by_cases hc : (s.has 0 && s.has 1) = true
        · simp [hc] at h
        · simp only [Bool.not_eq_true] at hc
          simp only [hc, Bool.false_eq_true, if_false, has_false_of_bound hb (i := 7) (by omega), Bool.false_and,
            opt1_none_of_bound hb (i := 5) (by omega), opt1_none_of_bound hb (i := 6) (by omega)] at h ⊢
          exact h
      · right
        exact ⟨w, hw, by simp only [Bodies.luaSet, h1, bind, Except.bind]⟩

theorem expire_ok_lua (args : List Bytes) (c : Cmd) (hl : args.length = 2)
    (h : Bodies.expire (s2b "Expire") args = .ok c) : Bodies.luaExpire args = .ok c := by
  match args, hl with
  | [k, n], _ =>
    simp only [Bodies.luaExpire, Bodies.expire, bind, Except.bind] at h ⊢
    cases hx : aInt.extract n with
    | error e => rw [hx] at h; simp at h
    | ok t =>
      rw [hx] at h
      rw [extract_ok_kind (a := aInt) (b := aIntE .luaExpireInt) rfl hx]
      simp only [scanOpts, Seen.has, List.any_nil, Bool.false_and, Bool.and_false, Bool.false_eq_true, if_false] at h ⊢
      exact h

theorem zrange_ok_lua (args : List Bytes) (c : Cmd) (hl : args.length = 3)
    (h : Bodies.zrange (s2b "ZRange") args = .ok c) : Bodies.luaZrange args = .ok c := by
  match args, hl with
  | [k, a, b], _ =>
    simp only [Bodies.luaZrange, Bodies.zrange, bind, Except.bind] at h ⊢
    cases hx : extractFixed [aInt, aInt] [a, b] with
    | error e => rw [hx] at h; simp at h
    | ok ts =>
      rw [hx] at h
      rw [extractFixed_ok_kind _ [aIntE .luaZrangeStart, aIntE .luaZrangeStop] (by decide) _ ts hx]
      exact h

end RedisVerif.Grammar
