import RedisVerif.Props.C07
import RedisVerif.Lemmas.Lub
import RedisVerif.Lemmas.Replica

/-!
`RV.merge` is an ACI operation on the carrier "well-formed values of one CRDT kind whose
registers all come from a consistent register universe" — the fragment on which replicas
converge (C06), recovery is order-independent (C11) and compaction could be safe (C13).
-/
namespace RedisVerif

/-- the registers of a value with the slot they occupy (0 for a plain LWW value, the field code
    for a hash field) -/
def Crdt.slots : Crdt → List (Nat × Lww)
  | .lww r => [(0, r)]
  | .hash h => h
  | _ => []

/-- registers with the same slot and the same stamp are the same register (what "a stamp
    identifies one write" gives) -/
def RegsConsistent (R : List (Nat × Lww)) : Prop :=
  ∀ p ∈ R, ∀ q ∈ R, p.1 = q.1 → p.2.ts = q.2.ts → p.2 = q.2

instance (R : List (Nat × Lww)) : Decidable (RegsConsistent R) := by
  unfold RegsConsistent; infer_instance

/-- the carrier -/
def InCarrier (K : Nat) (R : List (Nat × Lww)) (v : RV) : Prop :=
  v.WF ∧ v.crdt.kind = K ∧ ∀ p ∈ v.crdt.slots, p ∈ R

instance (K : Nat) (R : List (Nat × Lww)) (v : RV) : Decidable (InCarrier K R v) := by
  unfold InCarrier; infer_instance

theorem kind_tryMerge {a b m : Crdt} (h : Crdt.tryMerge a b = some m) :
    a.kind = b.kind ∧ m.kind = a.kind := by
  cases a <;> cases b <;> simp [Crdt.tryMerge] at h <;> subst h <;> simp [Crdt.kind]

theorem tryMerge_some_of_kind {a b : Crdt} (h : a.kind = b.kind) :
    ∃ m, Crdt.tryMerge a b = some m := by
  cases a <;> cases b <;> simp [Crdt.kind] at h <;> simp [Crdt.tryMerge]

theorem slots_tryMerge {a b m : Crdt} (ha : a.WF) (hb : b.WF) (h : Crdt.tryMerge a b = some m) :
    ∀ p ∈ m.slots, p ∈ a.slots ∨ p ∈ b.slots := by
  cases a <;> cases b <;> simp [Crdt.tryMerge] at h <;> subst h <;> intro p hp <;>
    simp only [Crdt.slots] at hp ⊢ <;> try (simp at hp)
  · rename_i x y
    simp only [Lww.merge] at hp
    split at hp
    · right; simp [hp]
    · left; simp [hp]
  · rename_i x y
    simp only [Crdt.WF] at ha hb
    rcases NMap.mem_merge ha hb hp with h1 | h1 | ⟨u, v, hu, hv, he⟩
    · exact Or.inl h1.1
    · exact Or.inr h1.1
    · simp only [Lww.merge] at he
      split at he
      · right
        have : p = (p.1, v) := by rw [← he]
        rw [this]; exact hv
      · left
        have : p = (p.1, u) := by rw [← he]
        rw [this]; exact hu

theorem merge_kind_of_same {a b : RV} (h : a.crdt.kind = b.crdt.kind) :
    (RV.merge a b).crdt.kind = a.crdt.kind := by
  obtain ⟨m, hm⟩ := tryMerge_some_of_kind h
  simp only [RV.merge, RV.mergeWith, Crdt.mergeWithTimestamps, hm]
  exact (kind_tryMerge hm).2

theorem merge_slots_of_same {a b : RV} (ha : a.WF) (hb : b.WF) (h : a.crdt.kind = b.crdt.kind) :
    ∀ p ∈ (RV.merge a b).crdt.slots, p ∈ a.crdt.slots ∨ p ∈ b.crdt.slots := by
  obtain ⟨m, hm⟩ := tryMerge_some_of_kind h
  simp only [RV.merge, RV.mergeWith, Crdt.mergeWithTimestamps, hm]
  exact slots_tryMerge ha.1 hb.1 hm

theorem tie_of_carrier {K : Nat} {R : List (Nat × Lww)} (hR : RegsConsistent R) {a b : RV}
    (ha : InCarrier K R a) (hb : InCarrier K R b) : C07.TieConsistent a b := by
  unfold C07.TieConsistent
  have hk : a.crdt.kind = b.crdt.kind := by rw [ha.2.1, hb.2.1]
  have hsa := ha.2.2
  have hsb := hb.2.2
  cases hca : a.crdt <;> cases hcb : b.crdt <;> rw [hca, hcb] at hk <;>
    simp [Crdt.kind] at hk <;> simp only [C07.tieOk, Crdt.kind] <;> try (simp; done)
  · rename_i x y
    rw [hca] at hsa; rw [hcb] at hsb
    simp only [Crdt.slots] at hsa hsb
    by_cases hts : x.ts = y.ts
    · have := hR (0, x) (hsa _ (by simp)) (0, y) (hsb _ (by simp)) rfl hts
      simp at this
      simp [this]
    · simp [hts]
  · rename_i x y
    rw [hca] at hsa; rw [hcb] at hsb
    simp only [Crdt.slots] at hsa hsb
    rw [List.all_eq_true]
    intro p hp
    rw [List.all_eq_true]
    intro q hq
    by_cases hf : p.1 = q.1
    · by_cases hts : p.2.ts = q.2.ts
      · have := hR p (hsa p hp) q (hsb q hq) hf hts
        simp [this]
      · simp [hts]
    · simp [hf]

/-- **`RV.merge` is ACI on the carrier** -/
theorem aci_rv (K : Nat) (R : List (Nat × Lww)) (hR : RegsConsistent R) :
    ACI RV.merge (InCarrier K R) where
  closed := by
    intro a b ha hb
    have hk : a.crdt.kind = b.crdt.kind := by rw [ha.2.1, hb.2.1]
    refine ⟨C07.rv_merge_wf ha.1 hb.1, ?_, ?_⟩
    · rw [merge_kind_of_same hk]; exact ha.2.1
    · intro p hp
      rcases merge_slots_of_same ha.1 hb.1 hk p hp with h | h
      · exact ha.2.2 p h
      · exact hb.2.2 p h
  comm := by
    intro a b ha hb
    exact C07.rv_merge_comm a b ha.1 hb.1 (tie_of_carrier hR ha hb)
  assoc := by
    intro a b c ha hb hc
    exact C07.rv_merge_assoc_partial a b c ha.1 hb.1 hc.1
      ⟨by rw [ha.2.1, hb.2.1], by rw [hb.2.1, hc.2.1]⟩
  idem := by
    intro a ha
    exact C07.rv_merge_idem a ha.1

/-! ### what replicas converge on: the value without the fields a local write overwrites -/

/-- drop vector clock, expiry and replication-factor override (kept: CRDT content and stamp) -/
def RV.strip (v : RV) : RV := { v with vc := none, expiry := none, rf := none }

theorem strip_merge (a b : RV) : (RV.merge a b).strip = RV.merge a.strip b.strip := by
  simp [RV.strip, RV.merge, RV.mergeWith, optMerge]

theorem strip_carrier {K : Nat} {R : List (Nat × Lww)} {v : RV} (h : InCarrier K R v) :
    InCarrier K R v.strip :=
  ⟨⟨h.1.1, by simp [RV.strip, RV.vcWF]⟩, h.2.1, h.2.2⟩

theorem strip_strip (v : RV) : v.strip.strip = v.strip := rfl

end RedisVerif
