import RedisVerif.Lemmas.SkipListDelete
namespace RedisVerif.SkipList
open RedisVerif RedisVerif.Redis

/-- the spans after `delete_node`'s loop, with the node at index `c` unlinked, are the distances -/
theorem spans_after_delete {sl0 sl1 : SL} {L c : Nat} {us : Nat → Nat}
    (hs : Spans sl0 L) (hc : c < sl0.towers.length)
    (hus : ∀ j, j < L → IsUpd sl0.towers c j (us j))
    (hsame : Same sl0 sl1)
    (hsp : ∀ q j, j < L → spanAt sl1 q j =
      if q = us j then (spanAt sl0 q j).map (fun _ => (c - q) + distTo j (sl0.towers.drop (c + 1)))
      else spanAt sl0 q j)
    (lvl' len' : Nat) :
    Spans { sl1 with towers := sl1.towers.eraseIdx c, level := lvl', length := len' } L := by
  have hc1 : c < sl1.towers.length := by
    have := congrArg List.length hsame.hts; simp at this; omega
  have hc1' : c ≤ sl1.towers.length := by omega
  have hT1 := hsame.hts
  have hcounter : ∀ (k : Nat) (t : Tower), sl1.towers[k]? = some t →
      ∃ t0 : Tower, sl0.towers[k]? = some t0 ∧ t0.ht = t.ht := by
    intro k t hk2
    have := ht_getElem?_of_map hT1 k
    rw [hk2] at this
    cases h0 : sl0.towers[k]? with
    | none => rw [h0] at this; simp at this
    | some t0 => rw [h0] at this; simp at this; exact ⟨t0, rfl, this.symm⟩
  refine ⟨hsame.hdrLen.trans hs.hdrLen, hs.L_le, ?_, ?_, ?_⟩
  · intro j hj
    show sl1.hdr[j]? = some (distTo j (sl1.towers.eraseIdx c))
    have h0 : spanAt sl1 0 j = sl1.hdr[j]? := rfl
    rw [← h0, hsp 0 j hj, eraseIdx_eq]
    have hd := dist_after_delete (q := 0) hT1 hc (hus j hj) (Nat.zero_le _) (Or.inl rfl)
    simp only [List.drop_zero, Nat.sub_zero] at hd
    rw [hd]
    have hold : spanAt sl0 0 j = some (distTo j sl0.towers) := hs.hdr j hj
    rw [hold]
    by_cases hq : 0 = us j
    · rw [if_pos hq, if_pos hq]; rfl
    · rw [if_neg hq, if_neg hq]
  · show TowersOk (sl1.towers.eraseIdx c)
    rw [eraseIdx_eq]
    intro k t hk j hj
    rw [getElem?_cut _ hc1'] at hk
    by_cases hkc : k < c
    · rw [if_pos hkc] at hk
      obtain ⟨t0, ht0, hht⟩ := hcounter k t hk
      rw [← spanAt_succ hk j]
      have hjL : j < L := by have := (hs.hts t0 (List.mem_of_getElem? ht0)).2; omega
      rw [hsp (k + 1) j hjL]
      have hold : spanAt sl0 (k + 1) j = some (distTo j (sl0.towers.drop (k + 1))) := by
        rw [spanAt_succ ht0 j]; exact hs.tw k t0 ht0 j (by omega)
      rw [hold, drop_cut_lt _ hc1' (by omega)]
      have hd := dist_after_delete (q := k + 1) hT1 hc (hus j hjL) (by omega)
        (Or.inr ⟨t0, by simpa using ht0, by omega⟩)
      rw [hd]
      by_cases hq : k + 1 = us j
      · rw [if_pos hq, if_pos hq]; rfl
      · rw [if_neg hq, if_neg hq]
    · rw [if_neg hkc] at hk
      obtain ⟨t0, ht0, hht⟩ := hcounter (k + 1) t hk
      rw [← spanAt_succ hk j]
      have hjL : j < L := by have := (hs.hts t0 (List.mem_of_getElem? ht0)).2; omega
      rw [hsp (k + 1 + 1) j hjL]
      have hne : ¬ k + 1 + 1 = us j := by have := (hus j hjL).1; omega
      rw [if_neg hne, spanAt_succ ht0 j, hs.tw (k + 1) t0 ht0 j (by omega),
        drop_cut_gt _ hc1' (by omega)]
      congr 1
      exact distTo_congr (by rw [List.map_drop, List.map_drop, hT1])
  · intro t ht
    show 1 ≤ t.ht ∧ t.ht ≤ L
    have hm : t ∈ sl1.towers := List.mem_of_mem_eraseIdx ht
    obtain ⟨k, hk⟩ := List.getElem?_of_mem hm
    obtain ⟨t0, ht0, hht⟩ := hcounter k t hk
    have := hs.hts t0 (List.mem_of_getElem? ht0); omega

/-- `self.level` after the `while` of `delete_node` is again `max(1, tallest node)` -/
theorem shrinkLevel_spec (T : List Tower) : ∀ (L : Nat), 1 ≤ L → (∀ t ∈ T, t.ht ≤ L) →
    1 ≤ shrinkLevel T L ∧ shrinkLevel T L ≤ L ∧ (∀ t ∈ T, t.ht ≤ shrinkLevel T L) ∧
    (shrinkLevel T L = 1 ∨ ∃ t ∈ T, t.ht = shrinkLevel T L)
  | 0, h, _ => by omega
  | 1, _, hT => ⟨Nat.le_refl _, Nat.le_refl _, hT, Or.inl rfl⟩
  | l + 2, _, hT => by
    simp only [shrinkLevel]
    split
    · rename_i hany
      obtain ⟨t, ht, hlt⟩ := List.any_eq_true.mp hany
      have hlt' : l + 1 < t.ht := by simpa using hlt
      exact ⟨by omega, Nat.le_refl _, hT, Or.inr ⟨t, ht, by have := hT t ht; omega⟩⟩
    · rename_i hany
      have hsmall : ∀ t ∈ T, t.ht ≤ l + 1 := by
        intro t ht
        rcases Nat.lt_or_ge (l + 1) t.ht with h | h
        · exact absurd (List.any_eq_true.mpr ⟨t, ht, by simpa using h⟩) hany
        · exact h
      have ih := shrinkLevel_spec T (l + 1) (by omega) hsmall
      exact ⟨ih.1, by omega, ih.2.2.1, ih.2.2.2⟩

theorem spans_mono {sl : SL} {L L' : Nat} (h : Spans sl L) (hle : L' ≤ L) (hts : ∀ t ∈ sl.towers, t.ht ≤ L') :
    Spans sl L' :=
  ⟨h.hdrLen, by have := h.L_le; omega, fun j hj => h.hdr j (by omega), h.tw,
   fun t ht => ⟨(h.hts t ht).1, hts t ht⟩⟩


/-- `delete_node` of the tower at index `c` (position `c + 1`), after a search for that tower's own
    key: no panic, the invariant holds again, the list lost exactly that tower -/
theorem deleteNode_spec {sl : SL} (hw : Wf sl) {ur : List (Nat × Nat)} {c : Nat}
    (hc : c < sl.towers.length)
    (hur : ∀ j, j < sl.level → ∃ u, ur[j]? = some (u, u) ∧ IsUpd sl.towers c j u) :
    ∃ sl', deleteNode sl (c + 1) ur = some sl' ∧ Wf sl' ∧
      sl'.towers.map Tower.key = (sl.towers.map Tower.key).eraseIdx c ∧ sl'.rng = sl.rng := by
  have hs := hw.spans
  have hc' : c ≤ sl.towers.length := by omega
  let us : Nat → Nat := fun j => ((ur[j]?).getD (0, 0)).1
  have hus : ∀ j, j < sl.level → ur[j]? = some (us j, us j) ∧ IsUpd sl.towers c j (us j) := by
    intro j hj
    obtain ⟨u, hu, hupd⟩ := hur j hj
    have : us j = u := by simp [us, hu]
    rw [this]; exact ⟨hu, hupd⟩
  obtain ⟨tq, htq⟩ : ∃ tq, sl.towers[c]? = some tq := ⟨sl.towers[c], List.getElem?_eq_getElem hc⟩
  have hdropc : sl.towers.drop c = tq :: sl.towers.drop (c + 1) := by
    rw [List.drop_eq_getElem_cons hc]
    congr 1
    have := List.getElem?_eq_getElem hc
    rw [htq] at this; exact (Option.some.inj this).symm
  -- value written at level `j`
  have hf : ∀ j r, j < sl.level →
      fUnlink (c + 1) sl (us j) r j = some ((c - us j) + distTo j (sl.towers.drop (c + 1))) := by
    intro j r hj
    have hupd := (hus j hj).2
    have hsu := spanAt_isUpd hs hj hupd
    have hd := dist_isUpd hc' hupd
    have hfw : fwdPos j (sl.towers.drop (us j)) (us j + 1) =
        if j < tq.ht then some (c + 1) else fwdPos j (sl.towers.drop (c + 1)) (c + 2) := by
      have eT : sl.towers.drop (us j) = (sl.towers.take c).drop (us j) ++ sl.towers.drop c := by
        conv => lhs; rw [← List.take_append_drop c sl.towers]
        rw [List.drop_append_of_le_length (by simp; have := hupd.1; omega)]
      rw [eT, fwdPos_append_small (all_small_of_isUpd hupd), hdropc]
      have hl : ((sl.towers.take c).drop (us j)).length = c - us j := by simp; omega
      have e : us j + 1 + (c - us j) = c + 1 := by have := hupd.1; omega
      rw [hl, e]
      simp only [fwdPos, Tower.ht]
    simp only [fUnlink, hsu, hfw]
    by_cases hjt : j < tq.ht
    · have hsq : spanAt sl (c + 1) j = some (distTo j (sl.towers.drop (c + 1))) := by
        rw [spanAt_succ htq j]; exact hs.tw c tq htq j hjt
      have hdc : distTo j (sl.towers.drop c) = 1 := by rw [hdropc]; simp [distTo, hjt]
      simp only [hjt, if_true, hsq]
      rw [if_neg (by omega)]
      congr 1; omega
    · have hne : fwdPos j (sl.towers.drop (c + 1)) (c + 2) ≠ some (c + 1) := by
        intro h; have := fwdPos_ge h; omega
      have hdc : distTo j (sl.towers.drop c) = 1 + distTo j (sl.towers.drop (c + 1)) := by
        rw [hdropc]; simp [distTo, hjt]
      simp only [hjt, if_false, hne]
      rw [if_neg (by omega)]
      congr 1; omega
  have hurlen : sl.level ≤ ur.length := by
    have := (hus (sl.level - 1) (by have := hw.level_pos; omega)).1
    have := (List.getElem?_eq_some_iff.mp this).1
    omega
  have hok : ∀ k u r, (ur.take sl.level)[k]? = some (u, r) → (fUnlink (c + 1) sl u r (0 + k)).isSome := by
    intro k u r hk
    rw [List.getElem?_take] at hk
    split at hk
    · rename_i hj
      rw [(hus k hj).1] at hk
      simp only [Option.some.injEq, Prod.mk.injEq] at hk
      obtain ⟨rfl, rfl⟩ := hk
      rw [Nat.zero_add, hf k _ hj]; rfl
    · cases hk
  obtain ⟨sl1, hsl1, hsame, hsp1⟩ :=
    perLevel_spec (fUnlink (c + 1)) (fUnlink_cong (c + 1)) (ur.take sl.level) 0 sl hok
  have hsp : ∀ q j, j < sl.level → spanAt sl1 q j =
      if q = us j then (spanAt sl q j).map (fun _ => (c - q) + distTo j (sl.towers.drop (c + 1)))
      else spanAt sl q j := by
    intro q j hj
    rw [hsp1 q j]
    have he : lvlEntry (ur.take sl.level) 0 j = some (us j, us j) := by
      simp only [lvlEntry, Nat.zero_le, if_true, Nat.sub_zero, List.getElem?_take, hj]
      exact (hus j hj).1
    rw [he]
    simp only [hf j _ hj, Option.getD_some, spanAt_setSpan, and_true]
    by_cases hq : q = us j
    · rw [if_pos hq, if_pos hq, hq]
    · rw [if_neg hq, if_neg hq]
  have hlen1 : sl1.towers.length = sl.towers.length := by
    have := congrArg List.length hsame.hts; simpa using this
  have hspans := spans_after_delete hs hc (fun j hj => (hus j hj).2) hsame hsp
    (shrinkLevel (sl1.towers.eraseIdx c) sl1.level) (sl1.length - 1)
  have hshr := shrinkLevel_spec (sl1.towers.eraseIdx c) sl1.level
    (by rw [hsame.level]; exact hw.level_pos)
    (fun t ht => by rw [hsame.level]; exact (hspans.hts t ht).2)
  refine ⟨{ sl1 with towers := sl1.towers.eraseIdx c,
                     level := shrinkLevel (sl1.towers.eraseIdx c) sl1.level,
                     length := sl1.length - 1 }, ?_, ?_, ?_, hsame.rng⟩
  · have hl0 : ¬ (c + 1 = 0 ∨ sl1.length = 0) := by
      rw [hsame.length, hw.len]; omega
    simp only [deleteNode, unlinkLevels_eq, hsl1, hl0, if_false, Nat.add_sub_cancel]
  · refine ⟨spans_mono hspans (by rw [← hsame.level]; exact hshr.2.1) hshr.2.2.1, hshr.1, hshr.2.2.2, ?_, ?_⟩
    · show sl1.length - 1 = (sl1.towers.eraseIdx c).length
      rw [List.length_eraseIdx, hsame.length, hw.len, hlen1]
      simp [hc]
    · show (sl1.towers.eraseIdx c).Pairwise (fun a b => zLt a.key b.key = true)
      have h1 : sl1.towers.Pairwise (fun a b => zLt a.key b.key = true) := by
        rw [← List.pairwise_map (f := Tower.key) (R := fun a b => zLt a b = true), hsame.keys]
        exact List.pairwise_map.mpr hw.sorted
      exact h1.sublist (List.eraseIdx_sublist _ _)
  · show (sl1.towers.eraseIdx c).map Tower.key = _
    rw [← hsame.keys, eraseIdx_eq, eraseIdx_eq]
    simp [List.map_take, List.map_drop]

end RedisVerif.SkipList
