import RedisVerif.Lemmas.ExecutorSetHash

/-! Refinement of SORT [STORE] and of RPOPLPUSH / LMOVE (two keys, destination check before the pop). -/
set_option linter.unusedSimpArgs false
set_option linter.unusedVariables false

namespace RedisVerif.Executor
open RedisVerif RedisVerif.Redis

/-! ### SORT -/

/-- the second half of M7's `execSort` -/
def sortTailM (s : State) (es : List BS) (st : Option Nat) : State × Reply :=
  if es.any (fun e => (sortNum e).isNone) then (s, .err .notDouble)
  else
    match st with
    | none => (s, .arr ((sortAll es).map Elem.bulk))
    | some d => (putList s d (sortAll es) none, .int (sortAll es).length)

theorem execSort_eq (s : State) (k : Nat) (st : Option Nat) :
    execSort s k st = (match sortSource s k with
      | none => (s, .err .wrongType)
      | some es => sortTailM s es st) := by
  unfold execSort sortTailM
  cases sortSource s k <;> rfl

theorem cSortTail_sim {c : CState} (h : CInv c) (es : List BS) (st : Option Nat) :
    SimF c (fun s => sortTailM s es st) (cSortTail c es st) := by
  have hw := wf_absP h.wfd
  unfold SimF cSortTail sortTailM
  by_cases hany : es.any (fun e => (sortNum e).isNone) = true
  · simp only [hany, if_true]
    exact ⟨by triv, by simp [purge_absP], h, by triv, by triv⟩
  · simp only [hany, Bool.false_eq_true, if_false]
    cases st with
    | none => exact ⟨by triv, by simp [purge_absP], h, by triv, by triv⟩
    | some d =>
      simp only [putList_eq, putEntry, isEmptyColl]
      by_cases he : (sortAll es).isEmpty = true
      · simp only [he, if_true]
        refine ⟨?_, by rw [upd_drop h, purge_erase hw, purge_absP], cinv_drop h, by triv, by triv⟩
        have hnil : sortAll es = [] := by
          cases hh : sortAll es with
          | nil => rfl
          | cons a b => rw [hh] at he; simp at he
        simp [hnil]
      · have he' : (sortAll es).isEmpty = false := by simpa using he
        have hne : sortAll es ≠ [] := by intro hh; rw [hh] at he'; simp at he'
        simp only [he', Bool.false_eq_true, if_false]
        refine ⟨by triv, ?_, cinv_data_clear h hne, by triv, by triv⟩
        rw [upd_data_clear h, purge_insert hw, purge_absP]
        simp [live, setAt]

theorem cSort_sim {cs : CState} (h : CInv cs) (k : Nat) (st : Option Nat) :
    Sim cs (.sort k st) (cSort cs k st) := by
  unfold cSort
  gv h k
  simp only [Sim, SimF, exec, execSort_eq, sortSource]
  rw [glook, gux, ← gsame]
  have conv : ∀ (es : List BS), SimF c (fun s => sortTailM s es st) (cSortTail c es st) →
      (cSortTail c es st).2 = (sortTailM (absP c) es st).2 ∧
      absP (cSortTail c es st).1 = purge (sortTailM (absP c) es st).1 (unix c) ∧
      CInv (cSortTail c es st).1 ∧ (cSortTail c es st).1.now = cs.now ∧
      (cSortTail c es st).1.epoch = cs.epoch := by
    intro es hs
    obtain ⟨a1, a2, a3, a4, a5⟩ := hs
    exact ⟨a1, a2, a3, by rw [a4, gnow], by rw [a5, gep]⟩
  cases o with
  | none => exact conv [] (cSortTail_sim ginv [] st)
  | some w =>
    cases w
    case list l => exact conv l (cSortTail_sim ginv l st)
    case set m => exact conv _ (cSortTail_sim ginv _ st)
    case zset z => exact conv _ (cSortTail_sim ginv _ st)
    all_goals exact ⟨by triv, by simp [purge_absP, sortElems], by simpa [sortElems] using ginv, by simpa [sortElems] using gnow, by simpa [sortElems] using gep⟩

/-! ### RPOPLPUSH / LMOVE -/

theorem isExpired_congr {c c' : CState} {k : Nat} (he : NMap.get c'.exp k = NMap.get c.exp k)
    (hn : c'.now = c.now) : isExpired c' k = isExpired c k := by
  unfold isExpired
  rw [he, hn]

/-- `get_value(k)` leaves every key that is not past its deadline as it was (also `k` itself) -/
theorem getValue_keep {c : CState} (h : CInv c) (k k' : Nat) (hx : isExpired c k' = false) :
    NMap.get (getValue c k).1.data k' = NMap.get c.data k' ∧
    NMap.get (getValue c k).1.exp k' = NMap.get c.exp k' ∧
    isExpired (getValue c k).1 k' = false := by
  unfold getValue
  by_cases he : isExpired c k = true
  · have hne : k' ≠ k := by intro e; subst e; rw [hx] at he; cases he
    simp only [he, if_true, dropKey, NMap.get_erase h.wfd, NMap.get_erase h.wfe, hne, if_false]
    refine ⟨trivial, trivial, ?_⟩
    rw [← hx]
    exact isExpired_congr (by simp [NMap.get_erase h.wfe, hne]) rfl
  · have he' : isExpired c k = false := by simpa using he
    simp only [he', Bool.false_eq_true, if_false]
    exact ⟨trivial, trivial, hx⟩

/-- store-back + clean-up at `k` leaves every other key alone -/
theorem putBack_frame {c : CState} (h : CInv c) (k : Nat) (v : Value) (k' : Nat) (hne : k' ≠ k) :
    NMap.get (putBack c k v).data k' = NMap.get c.data k' ∧
    NMap.get (putBack c k v).exp k' = NMap.get c.exp k' := by
  unfold putBack
  cases isEmptyColl v
  · simp only [Bool.false_eq_true, if_false, NMap.get_insert, hne]
    exact ⟨trivial, trivial⟩
  · simp only [if_true, dropKey, NMap.get_erase (NMap.wf_insert h.wfd), NMap.get_erase h.wfe, NMap.get_insert,
      hne, if_false]
    exact ⟨trivial, trivial⟩

theorem insert_insert_gen {ν : Type} {m : NMap ν} (hw : NMap.WF m) (k : Nat) (v v' : ν) :
    NMap.insert k v (NMap.insert k v' m) = NMap.insert k v m := by
  apply NMap.ext (NMap.wf_insert (NMap.wf_insert hw)) (NMap.wf_insert hw)
  intro k'
  simp only [NMap.get_insert]
  split <;> rfl

theorem purge_insert_purge {s : State} (hw : NMap.WF s) (k : Nat) (e : Entry) (now : Nat) :
    purge (NMap.insert k e (purge s now)) now = purge (NMap.insert k e s) now := by
  rw [purge_insert (wf_purge _ hw), purge_insert hw, purge_idem]

theorem wf_putEntry {s : State} (hw : NMap.WF s) (k : Nat) (v : Value) (dl : Option Nat) :
    NMap.WF (putEntry s k v dl) := by
  unfold putEntry
  split
  · exact NMap.wf_erase hw
  · exact NMap.wf_insert hw

theorem pushOne_ne_nil (to : Side) (l : List BS) (x : BS) : pushOne to l x ≠ [] := by
  cases to <;> simp [pushOne]

theorem notListNorNone_false {o : Option Value} (h : notListNorNone o = false) :
    o = none ∨ ∃ l, o = some (.list l) := by
  cases o with
  | none => exact Or.inl rfl
  | some w => cases w <;> simp_all [notListNorNone]

theorem cLMove_sim {cs : CState} (h : CInv cs) (src dst : Nat) (frm to : Side) :
    SimF cs (fun s => execLMove s src dst frm to) (cLMove cs src dst frm to) := by
  unfold cLMove
  have g := lazyDrop_spec h src
  generalize hc0 : lazyDrop cs src = c0 at g ⊢
  obtain ⟨ginv, gsame, gnow, gep, gnx, gval, glook⟩ := g
  dsimp only at ginv gsame gnow gep gnx gval glook
  have gux := unix_eq gnow gep
  rw [← gep] at glook
  simp only [SimF, execLMove, lookupList]
  rw [glook, gux, ← gsame]
  cases hs : NMap.get c0.data src with
  | none =>
    simp only [isListOpt, Bool.false_eq_true, if_false, Bool.false_and, hs, Option.map_none]
    exact ⟨by triv, by simp [purge_absP], ginv, gnow, gep⟩
  | some w =>
    cases w
    case list l =>
      have hl : l ≠ [] := innerOk_get ginv hs
      obtain ⟨x, rest, hpop⟩ := popSide_some frm hl
      simp only [isListOpt, if_true, Bool.true_and, Option.map_some, hpop]
      -- `get_value(dest)`
      have g2 := getValue_spec ginv dst
      have keep := getValue_keep ginv dst src gnx
      rcases hr : getValue c0 dst with ⟨c1, od⟩
      rw [hr] at g2 keep
      obtain ⟨g2inv, g2same, g2now, g2ep, g2nx, g2val, g2look⟩ := g2
      obtain ⟨k1, k2, k3⟩ := keep
      dsimp only at g2inv g2same g2now g2ep g2nx g2val g2look k1 k2 k3
      rw [hs] at k1
      have hux1 : unix c0 = unix c1 := unix_eq g2now g2ep
      rw [← g2ep] at g2look
      rw [g2look, hux1, ← g2same, ← g2ep, ← k2]
      have fin_now : ∀ {c' : CState}, c'.now = c1.now → c'.now = cs.now := fun e => by rw [e, g2now, gnow]
      have fin_ep : ∀ {c' : CState}, c'.epoch = c1.epoch → c'.epoch = cs.epoch := fun e => by rw [e, g2ep, gep]
      by_cases hwrong : notListNorNone od = true
      · -- the destination holds another type: nothing is popped
        simp only [hwrong, if_true]
        have hne : src ≠ dst := by
          intro e; subst e
          rw [k1] at g2val; rw [← g2val] at hwrong; simp [notListNorNone] at hwrong
        simp only [hne, if_false]
        cases od with
        | none => simp [notListNorNone] at hwrong
        | some w =>
          cases w
          case list l' => simp [notListNorNone] at hwrong
          all_goals exact ⟨by triv, by simp [purge_absP], g2inv, fin_now rfl, fin_ep rfl⟩
      · have hwrong' : notListNorNone od = false := by simpa using hwrong
        simp only [hwrong', Bool.false_eq_true, if_false, k1, hpop]
        by_cases hsd : src = dst
        · -- rotation in place
          subst hsd
          have hbeq : (src == src) = true := by simp
          have hx2 : isExpired { c1 with data := NMap.insert src (.list rest) c1.data } src = false := k3
          simp only [hbeq, Bool.not_true, Bool.and_false, Bool.false_eq_true, if_false, lazyDrop, hx2,
            NMap.get_insert, if_true, insert_insert_gen g2inv.wfd]
          have hne := pushOne_ne_nil to rest x
          obtain ⟨i1, i2⟩ := store_spec g2inv k3 (.list (pushOne to rest x)) hne
          simp only [putList_eq, putEntry, isEmptyColl, isEmpty_false_of_ne hne, Bool.false_eq_true, if_false]
          exact ⟨by triv, i2, i1, fin_now rfl, fin_ep rfl⟩
        · have hbeq : (src == dst) = false := by simpa using hsd
          have hds : dst ≠ src := fun e => hsd e.symm
          simp only [hsd, if_false, hbeq, Bool.not_false, Bool.and_true]
          -- the source after the pop = `putBack`
          obtain ⟨p1, p2, p3, p4⟩ := putBack_spec g2inv k3 (by rw [k1]; rfl) (.list rest) trivial
          obtain ⟨f1, f2⟩ := putBack_frame g2inv src (.list rest) dst hds
          have hc3 : (if rest.isEmpty = true then
              dropKey { c1 with data := NMap.insert src (.list rest) c1.data } src
              else { c1 with data := NMap.insert src (.list rest) c1.data }) = putBack c1 src (.list rest) := rfl
          rw [hc3]
          generalize hc3' : putBack c1 src (.list rest) = c3 at p1 p2 p3 p4 f1 f2 ⊢
          have hx3 : isExpired c3 dst = false := by
            rw [← g2nx]; exact isExpired_congr f2 p3
          have hw1 := wf_absP g2inv.wfd
          simp only [lazyDrop, hx3, Bool.false_eq_true, if_false, f1, g2val, putList_eq]
          have hu3 : unix c3 = unix c1 := by simp [unix, p3, p4]
          rcases notListNorNone_false hwrong' with hod | ⟨l', hod⟩
          · subst hod
            have hne := pushOne_ne_nil to [] x
            obtain ⟨i1, i2⟩ := store_spec p1 hx3 (.list (pushOne to [] x)) hne
            have he3 : NMap.get c3.exp dst = none := by rw [f2]; exact exp_none_of_data_none g2inv g2val
            rw [he3, p2, hu3, purge_insert_purge (wf_putEntry hw1 _ _ _)] at i2
            simp only [Option.map_none]
            have hp1 : pushOne to [] x = [x] := by cases to <;> rfl
            rw [hp1] at i1 i2 ⊢
            simp only [putEntry, isEmptyColl, List.isEmpty, Bool.false_eq_true, if_false] at i2 ⊢
            exact ⟨by triv, i2, i1, fin_now p3, fin_ep p4⟩
          · subst hod
            have hne := pushOne_ne_nil to l' x
            obtain ⟨i1, i2⟩ := store_spec p1 hx3 (.list (pushOne to l' x)) hne
            have hdl : (NMap.get c3.exp dst).map (· + c3.epoch) = (NMap.get c1.exp dst).map (· + c1.epoch) := by
              rw [f2, p4]
            rw [hdl, p2, hu3, purge_insert_purge (wf_putEntry hw1 _ _ _)] at i2
            simp only [Option.map_some]
            have hemp : isEmptyColl (.list (pushOne to l' x)) = false := isEmpty_false_of_ne hne
            have e1 : putEntry (putEntry (absP c1) src (.list rest) ((NMap.get c1.exp src).map (· + c1.epoch))) dst
                (.list (pushOne to l' x)) ((NMap.get c1.exp dst).map (· + c1.epoch)) =
              NMap.insert dst ⟨.list (pushOne to l' x), (NMap.get c1.exp dst).map (· + c1.epoch)⟩
                (putEntry (absP c1) src (.list rest) ((NMap.get c1.exp src).map (· + c1.epoch))) := by
              simp only [putEntry, hemp, Bool.false_eq_true, if_false]
            rw [e1]
            exact ⟨by triv, i2, i1, fin_now p3, fin_ep p4⟩
    all_goals
      simp only [isListOpt, Bool.false_eq_true, if_false, Bool.false_and, hs, Option.map_some]
      exact ⟨by triv, by simp [purge_absP], ginv, gnow, gep⟩

end RedisVerif.Executor
