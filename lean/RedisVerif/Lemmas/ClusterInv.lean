import RedisVerif.Lemmas.LocalOp

/-!
The cluster invariant behind C06: every node's (stripped) value for a key is the merge-fold of
the deltas that node has absorbed for that key, in absorption order.
-/
namespace RedisVerif
namespace Cluster

/-- the deltas for key `k` that node `i` has absorbed (created or received), oldest first -/
def absorbed (c : Cluster) (i k : Nat) : List RV :=
  c.log.filterMap (fun a => if a.node = i ∧ a.key = k then some a.val.strip else none)

/-- merge-fold of a list, `none` for the empty list -/
def foldOpt : List RV → Option RV
  | [] => none
  | a :: l => some (l.foldl RV.merge a)

theorem foldOpt_append (l : List RV) (x : RV) :
    foldOpt (l ++ [x]) = some (match foldOpt l with | none => x | some a => RV.merge a x) := by
  cases l with
  | nil => rfl
  | cons a l => simp [foldOpt, List.foldl_append]

/-- all registers occurring in messages for key `k` -/
def regsOf (U : List Msg) (k : Nat) : List (Nat × Lww) :=
  (U.filter (fun m => m.key = k)).flatMap (fun m => m.val.crdt.slots)

/-- compatibility of the messages for key `k` (decidable): canonical form, one CRDT kind `K`,
    and equal (slot, stamp) ⇒ equal register -/
def Compat (U : List Msg) (k K : Nat) : Prop :=
  RegsConsistent (regsOf U k) ∧ ∀ m ∈ U, m.key = k → m.val.WF ∧ m.val.crdt.kind = K

instance (U : List Msg) (k K : Nat) : Decidable (Compat U k K) := by
  unfold Compat; infer_instance

theorem compat_carrier {U : List Msg} {k K : Nat} (h : Compat U k K) {m : Msg} (hm : m ∈ U)
    (hk : m.key = k) : InCarrier K (regsOf U k) m.val := by
  have := h.2 m hm hk
  refine ⟨this.1, this.2, ?_⟩
  intro p hp
  simp only [regsOf, List.mem_flatMap, List.mem_filter, decide_eq_true_eq]
  exact ⟨m, ⟨hm, hk⟩, hp⟩

structure J (U : List Msg) (k K : Nat) (c : Cluster) : Prop where
  nodes_inv : ∀ s ∈ c.nodes, s.Inv ∧ s.Inv2 ∧ s.NodeWF ∧ s.clock.rid = s.rid
  sent_ok : ∀ m ∈ c.sent, m.val.Dominated ∧ m.val.WF
  value : ∀ i s, c.nodes[i]? = some s →
    (NMap.get s.keys k).map RV.strip = foldOpt (absorbed c i k)
  log_sent : ∀ a ∈ c.log, ∃ m ∈ c.sent, m.key = a.key ∧ m.val = a.val
  sub : ∀ m ∈ c.sent, m ∈ U

theorem absorbed_append (c : Cluster) (a : Absorbed) (i k : Nat) (log' : List Absorbed)
    (h : log' = c.log ++ [a]) :
    ({ c with log := log' } : Cluster).absorbed i k =
      if a.node = i ∧ a.key = k then c.absorbed i k ++ [a.val.strip] else c.absorbed i k := by
  subst h
  simp only [absorbed, List.filterMap_append, List.filterMap_cons, List.filterMap_nil]
  by_cases hcond : a.node = i ∧ a.key = k
  · simp [hcond]
  · simp [hcond]

theorem absorbed_in_carrier {U : List Msg} {k K : Nat} {c : Cluster} (hc : Compat U k K)
    (hj : J U k K c) (i : Nat) : ∀ v ∈ c.absorbed i k, InCarrier K (regsOf U k) v := by
  intro v hv
  simp only [absorbed, List.mem_filterMap] at hv
  obtain ⟨a, ha, hav⟩ := hv
  split at hav
  · rename_i hcond
    simp only [Option.some.injEq] at hav
    subst hav
    obtain ⟨m, hm, hmk, hmv⟩ := hj.log_sent a ha
    rw [← hmv]
    exact strip_carrier (compat_carrier hc (hj.sub m hm) (by rw [hmk]; exact hcond.2))
  · cases hav

theorem foldOpt_carrier {K : Nat} {R : List (Nat × Lww)} (hR : RegsConsistent R) {l : List RV}
    (hl : ∀ a ∈ l, InCarrier K R a) {v : RV} (h : foldOpt l = some v) : InCarrier K R v := by
  cases l with
  | nil => cases h
  | cons a l =>
    simp only [foldOpt, Option.some.injEq] at h
    subst h
    exact (aci_rv K R hR).fold_closed l a (hl a (by simp)) (fun b hb => hl b (by simp [hb]))

theorem foldOpt_eq_of_same_elems {K : Nat} {R : List (Nat × Lww)} (hR : RegsConsistent R)
    {l l' : List RV} (hl : ∀ a ∈ l, InCarrier K R a) (hl' : ∀ a ∈ l', InCarrier K R a)
    (hs : ∀ a, a ∈ l ↔ a ∈ l') : foldOpt l = foldOpt l' := by
  cases l with
  | nil =>
    cases l' with
    | nil => rfl
    | cons b l' => exact absurd ((hs b).mpr (by simp)) (by simp)
  | cons a l =>
    cases l' with
    | nil => exact absurd ((hs a).mp (by simp)) (by simp)
    | cons b l' =>
      simp only [foldOpt, Option.some.injEq]
      exact (aci_rv K R hR).fold_eq_of_same_elems a b l l' (hl a (by simp))
        (fun x hx => hl x (by simp [hx])) (hl' b (by simp)) (fun x hx => hl' x (by simp [hx])) hs

/-! ### the invariant holds initially and is preserved -/

theorem J_init (U : List Msg) (k K n : Nat) (causal : Bool) : J U k K (init n causal) where
  nodes_inv := by
    intro s hs
    simp only [init, List.mem_map, List.mem_range] at hs
    obtain ⟨i, _, rfl⟩ := hs
    refine ⟨Shard.inv_init _ _, ?_, ⟨NMap.wf_nil, ?_⟩, rfl⟩
    · intro p hp; cases hp
    · intro p hp; cases hp
  sent_ok := by intro m hm; cases hm
  value := by
    intro i s hs
    simp only [init, List.getElem?_map] at hs
    cases hr : (List.range n)[i]? with
    | none => simp [hr] at hs
    | some x =>
      simp [hr] at hs
      subst hs
      simp [Shard.init, absorbed, foldOpt, init]
  log_sent := by intro a ha; cases ha
  sub := by intro m hm; cases hm

theorem mem_set {α : Type} {l : List α} {i : Nat} {x y : α} (h : y ∈ l.set i x) :
    y = x ∨ y ∈ l := by
  rcases List.mem_or_eq_of_mem_set h with h | h
  · exact Or.inr h
  · exact Or.inl h

/-- the local step, given that the local write absorbs the value it replaces (`Below`); how that
    is known — one CRDT kind per key (`J_step_loc`) or a fresh greater stamp across a type change
    (`Lemmas/TwoDeltas.lean`) — is the caller's business -/
theorem J_step_loc_gen {U : List Msg} {k K : Nat} {c : Cluster} (hj : J U k K c)
    (i : Nat) (op : LOp) (hsub : ∀ m ∈ (c.step (.loc i op)).sent, m ∈ U)
    (hbelow : ∀ s old d, c.nodes[i]? = some s → NMap.get s.keys k = some old → op.key = k →
      (Shard.step s op.toOp).2 = some d → foldOpt (absorbed c i k) = some old.strip →
      Shard.Below old d) :
    J U k K (c.step (.loc i op)) := by
  cases hs : c.nodes[i]? with
  | none => simp only [step, hs]; exact hj
  | some s =>
    have hsmem : s ∈ c.nodes := List.mem_of_getElem? hs
    have ⟨hinv, hinv2, hnwf, hrid⟩ := hj.nodes_inv s hsmem
    have hinv' : (Shard.step s op.toOp).1.Inv :=
      C08.inv_step s op.toOp hinv (by cases op <;> trivial)
    have hnode' : (Shard.step s op.toOp).1.Inv ∧ (Shard.step s op.toOp).1.Inv2 ∧
        (Shard.step s op.toOp).1.NodeWF ∧
        (Shard.step s op.toOp).1.clock.rid = (Shard.step s op.toOp).1.rid :=
      ⟨hinv', Shard.inv2_step s op hinv hinv2 hrid, Shard.nodewf_step s op hnwf, by
        rw [(C08.clock_monotone s op.toOp).2, Shard.rid_step, hrid]⟩
    cases hd : (Shard.step s op.toOp).2 with
    | none =>
      have hsame := Shard.local_none s op hd
      have hstep : c.step (.loc i op) = { c with nodes := c.nodes.set i s } := by
        simp only [step, hs, hd, hsame]
      rw [hstep]
      refine ⟨?_, hj.sent_ok, ?_, hj.log_sent, hj.sub⟩
      · intro s' hs'
        rcases mem_set hs' with h | h
        · subst h; exact hj.nodes_inv _ hsmem
        · exact hj.nodes_inv _ h
      · intro i' s' hs'
        by_cases hii : i' = i
        · subst hii
          have hlt : i' < c.nodes.length := by
            have := List.getElem?_eq_some_iff.mp hs; exact this.1
          rw [List.getElem?_set_self hlt] at hs'
          cases hs'
          exact hj.value i' s hs
        · rw [List.getElem?_set_ne (Ne.symm hii)] at hs'
          exact hj.value i' s' hs'
    | some d =>
      have hstep : c.step (.loc i op) =
          { nodes := c.nodes.set i (Shard.step s op.toOp).1
            sent := c.sent ++ [⟨i, op.key, d⟩]
            log := c.log ++ [⟨i, op.key, d⟩] } := by
        simp only [step, hs, hd]
      rw [hstep] at hsub ⊢
      have hget := Shard.local_get s op d hd
      have hdmem := NMap.mem_of_get hget
      have hdU : (⟨i, op.key, d⟩ : Msg) ∈ U := hsub _ (by simp)
      refine ⟨?_, ?_, ?_, ?_, hsub⟩
      · intro s' hs'
        rcases mem_set hs' with h | h
        · subst h; exact hnode'
        · exact hj.nodes_inv _ h
      · intro m hm
        rcases List.mem_append.mp hm with h | h
        · exact hj.sent_ok m h
        · simp only [List.mem_singleton] at h
          subst h
          exact ⟨(hinv'.2 _ hdmem).2, hnode'.2.2.1.2 _ hdmem⟩
      · intro i' s' hs'
        have habs := absorbed_append c ⟨i, op.key, d⟩ i' k (c.log ++ [⟨i, op.key, d⟩]) rfl
        have habs' : ({ nodes := c.nodes.set i (Shard.step s op.toOp).1
                        sent := c.sent ++ [⟨i, op.key, d⟩]
                        log := c.log ++ [⟨i, op.key, d⟩] } : Cluster).absorbed i' k =
            if i = i' ∧ op.key = k then c.absorbed i' k ++ [d.strip] else c.absorbed i' k := habs
        rw [habs']
        by_cases hii : i' = i
        · subst hii
          have hlt : i' < c.nodes.length := (List.getElem?_eq_some_iff.mp hs).1
          rw [List.getElem?_set_self hlt] at hs'
          cases hs'
          by_cases hkk : op.key = k
          · simp only [hkk, and_self, if_true]
            rw [foldOpt_append]
            rw [hkk] at hget
            rw [hget]
            have hval := hj.value i' s hs
            cases hgo : NMap.get s.keys k with
            | none =>
              rw [hgo] at hval
              simp only [Option.map_none] at hval
              rw [← hval]; rfl
            | some old =>
              rw [hgo] at hval
              simp only [Option.map_some] at hval
              rw [← hval]
              simp only [Option.map_some, Option.some.injEq]
              exact (hbelow s old d hs hgo hkk hd hval.symm).symm
          · have : ¬ (True ∧ op.key = k) := fun h => hkk h.2
            simp only [this, if_false]
            rw [Shard.keys_step_other s op k (Ne.symm hkk)]
            exact hj.value i' s hs
        · have : ¬ (i = i' ∧ op.key = k) := fun h => hii h.1.symm
          simp only [this, if_false]
          rw [List.getElem?_set_ne (Ne.symm hii)] at hs'
          exact hj.value i' s' hs'
      · intro a ha
        rcases List.mem_append.mp ha with h | h
        · obtain ⟨m, hm, h1, h2⟩ := hj.log_sent a h
          exact ⟨m, List.mem_append_left _ hm, h1, h2⟩
        · simp only [List.mem_singleton] at h
          subst h
          exact ⟨⟨i, op.key, d⟩, by simp, rfl, rfl⟩

theorem J_step_loc {U : List Msg} {k K : Nat} {c : Cluster} (hc : Compat U k K) (hj : J U k K c)
    (i : Nat) (op : LOp) (hsub : ∀ m ∈ (c.step (.loc i op)).sent, m ∈ U) :
    J U k K (c.step (.loc i op)) := by
  apply J_step_loc_gen hj i op hsub
  intro s old d hs hgo hkk hd hval
  have hsmem : s ∈ c.nodes := List.mem_of_getElem? hs
  have ⟨hinv, hinv2, hnwf, _⟩ := hj.nodes_inv s hsmem
  have hdU : (⟨i, op.key, d⟩ : Msg) ∈ U := hsub _ (by simp [step, hs, hd])
  have hold_car : InCarrier K (regsOf U k) old.strip :=
    foldOpt_carrier hc.1 (absorbed_in_carrier hc hj i) hval
  have hd_car := compat_carrier hc hdU hkk
  have hkind : old.crdt.kind = d.crdt.kind := by
    have h1 : old.strip.crdt.kind = K := hold_car.2.1
    have h2 : d.crdt.kind = K := hd_car.2.1
    simp only [RV.strip] at h1
    rw [h1, h2]
  exact Shard.local_below s op old d hinv hinv2 hnwf.2 (by rw [hkk]; exact hgo) hd hkind

theorem J_step_deliver {U : List Msg} {k K : Nat} {c : Cluster} (hj : J U k K c)
    (j idx : Nat) : J U k K (c.step (.deliver j idx)) := by
  cases hs : c.nodes[j]? with
  | none => simp only [step, hs]; exact hj
  | some s =>
    cases hm : c.sent[idx]? with
    | none => simp only [step, hs, hm]; exact hj
    | some m =>
      · have hstep : c.step (.deliver j idx) =
            { c with
              nodes := c.nodes.set j (Shard.applyRemote s m.key m.val)
              log := c.log ++ [⟨j, m.key, m.val⟩] } := by
          simp only [step, hs, hm]
        rw [hstep]
        have hsmem : s ∈ c.nodes := List.mem_of_getElem? hs
        have hmmem : m ∈ c.sent := List.mem_of_getElem? hm
        have ⟨hinv, hinv2, hnwf, hrid⟩ := hj.nodes_inv s hsmem
        have ⟨hmd, hmw⟩ := hj.sent_ok m hmmem
        refine ⟨?_, hj.sent_ok, ?_, ?_, hj.sub⟩
        · intro s' hs'
          rcases mem_set hs' with h | h
          · subst h
            exact ⟨C08.inv_remote s m.key m.val hinv hmd, Shard.inv2_remote s m.key m.val hinv,
              Shard.nodewf_remote s m.key m.val hnwf hmw, by simp [Shard.applyRemote, hrid]⟩
          · exact hj.nodes_inv _ h
        · intro i' s' hs'
          have habs := absorbed_append c ⟨j, m.key, m.val⟩ i' k (c.log ++ [⟨j, m.key, m.val⟩]) rfl
          have habs' : ({ c with
                nodes := c.nodes.set j (Shard.applyRemote s m.key m.val)
                log := c.log ++ [⟨j, m.key, m.val⟩] } : Cluster).absorbed i' k =
              if j = i' ∧ m.key = k then c.absorbed i' k ++ [m.val.strip] else c.absorbed i' k :=
            habs
          rw [habs']
          by_cases hii : i' = j
          · subst hii
            have hlt : i' < c.nodes.length := (List.getElem?_eq_some_iff.mp hs).1
            rw [List.getElem?_set_self hlt] at hs'
            cases hs'
            have hval := hj.value i' s hs
            by_cases hkk : m.key = k
            · simp only [hkk, and_self, if_true]
              rw [foldOpt_append, ← hval]
              simp only [Shard.applyRemote, hkk]
              rw [NMap.get_insert]
              simp only [if_true]
              cases hgo : NMap.get s.keys k with
              | none => rfl
              | some l => simp [strip_merge]
            · have : ¬ (True ∧ m.key = k) := fun h => hkk h.2
              simp only [this, if_false]
              simp only [Shard.applyRemote]
              rw [NMap.get_insert]
              simp only [Ne.symm hkk, if_false]
              exact hval
          · have : ¬ (j = i' ∧ m.key = k) := fun h => hii h.1.symm
            simp only [this, if_false]
            rw [List.getElem?_set_ne (Ne.symm hii)] at hs'
            exact hj.value i' s' hs'
        · intro a ha
          rcases List.mem_append.mp ha with h | h
          · exact hj.log_sent a h
          · simp only [List.mem_singleton] at h
            subst h
            exact ⟨m, hmmem, rfl, rfl⟩

theorem sent_mono_step (c : Cluster) (e : Ev) : ∀ m ∈ c.sent, m ∈ (c.step e).sent := by
  intro m hm
  cases e with
  | loc i op =>
    simp only [step]
    split
    · exact hm
    · split
      · exact List.mem_append_left _ hm
      · exact hm
  | deliver j idx =>
    simp only [step]
    split
    · exact hm
    · exact hm

theorem sent_mono_run (c : Cluster) (evs : List Ev) : ∀ m ∈ c.sent, m ∈ (c.run evs).sent := by
  induction evs generalizing c with
  | nil => intro m hm; exact hm
  | cons e evs ih =>
    intro m hm
    exact ih (c.step e) m (sent_mono_step c e m hm)

theorem J_run {U : List Msg} {k K : Nat} (hc : Compat U k K) (c : Cluster) (evs : List Ev)
    (hj : J U k K c) (hsub : ∀ m ∈ (c.run evs).sent, m ∈ U) : J U k K (c.run evs) := by
  induction evs generalizing c with
  | nil => exact hj
  | cons e evs ih =>
    have hsub' : ∀ m ∈ (c.step e).sent, m ∈ U :=
      fun m hm => hsub m (sent_mono_run (c.step e) evs m hm)
    apply ih (c.step e) _ hsub
    cases e with
    | loc i op => exact J_step_loc hc hj i op hsub'
    | deliver j idx => exact J_step_deliver hj j idx

/-- a node has absorbed every delta it issued itself (true of every restart-free execution; a
    node that restarts with an empty state has to get its own deltas back like anybody else's) -/
def SentLog (c : Cluster) : Prop := ∀ m ∈ c.sent, (⟨m.origin, m.key, m.val⟩ : Absorbed) ∈ c.log

theorem sentLog_step {c : Cluster} (h : SentLog c) (e : Ev) : SentLog (c.step e) := by
  cases e with
  | loc i op =>
    simp only [step]
    split
    · exact h
    · split
      · intro m hm
        rcases List.mem_append.mp hm with hm | hm
        · exact List.mem_append_left _ (h m hm)
        · simp only [List.mem_singleton] at hm
          subst hm; simp
      · exact h
  | deliver j idx =>
    simp only [step]
    split
    · intro m hm; exact List.mem_append_left _ (h m hm)
    · exact h

theorem sentLog_run (c : Cluster) (evs : List Ev) (h : SentLog c) : SentLog (c.run evs) := by
  induction evs generalizing c with
  | nil => exact h
  | cons e evs ih => exact ih (c.step e) (sentLog_step h e)

theorem sentLog_init (n : Nat) (causal : Bool) : SentLog (init n causal) := by
  intro m hm; cases hm

end Cluster
end RedisVerif
