import RedisVerif.Lemmas.Redis

/-! Order lemmas for sorted sets: `Score.lt`, `bsLt`, `zLt` are strict total orders;
    `zInsert` / `zRemove` preserve the canonical form. -/
namespace RedisVerif.Redis
open RedisVerif

/-! ### scores -/

theorem Score.lt_irrefl (a : Score) : a.lt a = false := by
  cases a <;> simp [Score.lt]

theorem Score.lt_trans {a b c : Score} (h1 : a.lt b = true) (h2 : b.lt c = true) : a.lt c = true := by
  cases a <;> cases b <;> cases c <;> simp [Score.lt] at * <;> omega

theorem Score.lt_total (a b : Score) : a.lt b = true ∨ a = b ∨ b.lt a = true := by
  cases a <;> cases b <;> simp [Score.lt] <;> omega

theorem Score.lt_asymm {a b : Score} (h : a.lt b = true) : b.lt a = false := by
  cases a <;> cases b <;> simp [Score.lt] at * <;> omega

/-! ### byte strings -/

theorem bsLt_irrefl : ∀ a : BS, bsLt a a = false
  | [] => rfl
  | x :: xs => by simp [bsLt, bsLt_irrefl xs]

theorem bsLt_trans : ∀ {a b c : BS}, bsLt a b = true → bsLt b c = true → bsLt a c = true
  | [], [], _, h, _ => by simp [bsLt] at h
  | [], _ :: _, [], _, h => by simp [bsLt] at h
  | [], _ :: _, _ :: _, _, _ => rfl
  | _ :: _, [], _, h, _ => by simp [bsLt] at h
  | _ :: _, _ :: _, [], _, h => by simp [bsLt] at h
  | x :: xs, y :: ys, z :: zs, h1, h2 => by
    simp only [bsLt, Bool.or_eq_true, decide_eq_true_eq, Bool.and_eq_true, beq_iff_eq] at *
    rcases h1 with h1 | ⟨e1, h1⟩ <;> rcases h2 with h2 | ⟨e2, h2⟩
    · exact Or.inl (by omega)
    · exact Or.inl (by omega)
    · exact Or.inl (by omega)
    · exact Or.inr ⟨by omega, bsLt_trans h1 h2⟩

theorem bsLt_total : ∀ (a b : BS), bsLt a b = true ∨ a = b ∨ bsLt b a = true
  | [], [] => Or.inr (Or.inl rfl)
  | [], _ :: _ => Or.inl rfl
  | _ :: _, [] => Or.inr (Or.inr rfl)
  | x :: xs, y :: ys => by
    simp only [bsLt, Bool.or_eq_true, decide_eq_true_eq, Bool.and_eq_true, beq_iff_eq,
      List.cons.injEq]
    by_cases h1 : x < y
    · exact Or.inl (Or.inl h1)
    · by_cases h2 : y < x
      · exact Or.inr (Or.inr (Or.inl h2))
      · have e : x = y := by omega
        rcases bsLt_total xs ys with h | h | h
        · exact Or.inl (Or.inr ⟨e, h⟩)
        · exact Or.inr (Or.inl ⟨e, h⟩)
        · exact Or.inr (Or.inr (Or.inr ⟨e.symm, h⟩))

/-! ### the order of a sorted set -/

theorem zLt_trans {a b c : BS × Score} (h1 : zLt a b = true) (h2 : zLt b c = true) :
    zLt a c = true := by
  simp only [zLt, Bool.or_eq_true, Bool.and_eq_true, beq_iff_eq] at *
  rcases h1 with h1 | ⟨e1, h1⟩ <;> rcases h2 with h2 | ⟨e2, h2⟩
  · exact Or.inl (Score.lt_trans h1 h2)
  · exact Or.inl (e2 ▸ h1)
  · exact Or.inl (e1 ▸ h2)
  · exact Or.inr ⟨e1.trans e2, bsLt_trans h1 h2⟩

/-- two entries with different members are comparable one way or the other -/
theorem zLt_total_of_ne {a b : BS × Score} (hne : a.1 ≠ b.1) (h : zLt a b = false) :
    zLt b a = true := by
  simp only [zLt, Bool.or_eq_false_iff, Bool.and_eq_false_iff, Bool.or_eq_true, Bool.and_eq_true,
    beq_iff_eq] at *
  obtain ⟨h1, h2⟩ := h
  rcases Score.lt_total a.2 b.2 with h3 | h3 | h3
  · rw [h3] at h1; cases h1
  · rcases bsLt_total a.1 b.1 with h4 | h4 | h4
    · rcases h2 with h2 | h2
      · simp [h3] at h2
      · rw [h4] at h2; cases h2
    · exact absurd h4 hne
    · exact Or.inr ⟨h3.symm, h4⟩
  · exact Or.inl h3

/-! ### canonical form is preserved -/

theorem mem_zInsert {m : BS} {sc : Score} {z : ZL} {p : BS × Score}
    (h : p ∈ zInsert m sc z) : p = (m, sc) ∨ p ∈ z := by
  induction z with
  | nil => simp [zInsert] at h; exact Or.inl h
  | cons q z ih =>
    simp only [zInsert] at h
    split at h
    · cases h with
      | head => exact Or.inl rfl
      | tail _ h' => exact Or.inr h'
    · cases h with
      | head => exact Or.inr (List.mem_cons_self ..)
      | tail _ h' =>
        cases ih h' with
        | inl e => exact Or.inl e
        | inr e => exact Or.inr (List.mem_cons_of_mem _ e)

theorem zInsert_ne_nil (m : BS) (sc : Score) (z : ZL) : zInsert m sc z ≠ [] := by
  cases z with
  | nil => simp [zInsert]
  | cons q z => simp only [zInsert]; split <;> simp

theorem canon_zInsert {m : BS} {sc : Score} {z : ZL} (hc : ZCanon z)
    (hm : ∀ p ∈ z, p.1 ≠ m) : ZCanon (zInsert m sc z) := by
  induction z with
  | nil => simp [zInsert, ZCanon]
  | cons q z ih =>
    obtain ⟨hs, hn⟩ := hc
    rw [List.pairwise_cons] at hs hn
    have hq : q.1 ≠ m := hm q (List.mem_cons_self ..)
    have hz : ∀ p ∈ z, p.1 ≠ m := fun p hp => hm p (List.mem_cons_of_mem _ hp)
    simp only [zInsert]
    split
    · rename_i hlt
      refine ⟨?_, ?_⟩
      · rw [List.pairwise_cons]
        refine ⟨?_, List.pairwise_cons.mpr hs⟩
        intro p hp
        cases hp with
        | head => exact hlt
        | tail _ hp' => exact zLt_trans hlt (hs.1 p hp')
      · rw [List.pairwise_cons]
        refine ⟨?_, List.pairwise_cons.mpr hn⟩
        intro p hp
        exact fun e => hm p hp e.symm
    · rename_i hnlt
      have hlt : zLt q (m, sc) = true :=
        zLt_total_of_ne (a := (m, sc)) (b := q) (fun e => hq e.symm) (by simpa using hnlt)
      have ih' := ih ⟨hs.2, hn.2⟩ hz
      refine ⟨?_, ?_⟩
      · rw [List.pairwise_cons]
        refine ⟨?_, ih'.1⟩
        intro p hp
        cases mem_zInsert hp with
        | inl e => subst e; exact hlt
        | inr e => exact hs.1 p e
      · rw [List.pairwise_cons]
        refine ⟨?_, ih'.2⟩
        intro p hp
        cases mem_zInsert hp with
        | inl e => subst e; exact hq
        | inr e => exact hn.1 p e

theorem zRemove_sublist (m : BS) (z : ZL) : (zRemove m z).Sublist z := by
  induction z with
  | nil => exact List.Sublist.refl _
  | cons q z ih =>
    obtain ⟨m', sc⟩ := q
    simp only [zRemove]
    split
    · exact List.sublist_cons_self _ _
    · exact List.Sublist.cons_cons _ ih

theorem canon_zRemove {m : BS} {z : ZL} (hc : ZCanon z) : ZCanon (zRemove m z) :=
  ⟨List.Pairwise.sublist (zRemove_sublist m z) hc.1, List.Pairwise.sublist (zRemove_sublist m z) hc.2⟩

theorem not_mem_zRemove {m : BS} {z : ZL} (hc : ZCanon z) : ∀ p ∈ zRemove m z, p.1 ≠ m := by
  induction z with
  | nil => intro p hp; simp [zRemove] at hp
  | cons q z ih =>
    obtain ⟨m', sc⟩ := q
    obtain ⟨hs, hn⟩ := hc
    rw [List.pairwise_cons] at hs hn
    simp only [zRemove]
    split
    · rename_i e
      subst e
      intro p hp
      exact fun e => hn.1 p hp e.symm
    · rename_i hne
      intro p hp
      cases hp with
      | head => exact fun e => hne e.symm
      | tail _ hp' => exact ih ⟨hs.2, hn.2⟩ p hp'

theorem zScore_none {m : BS} {z : ZL} (h : zScore z m = none) : ∀ p ∈ z, p.1 ≠ m := by
  induction z with
  | nil => intro p hp; cases hp
  | cons q z ih =>
    obtain ⟨m', sc⟩ := q
    simp only [zScore] at h
    split at h
    · cases h
    · rename_i hne
      intro p hp
      cases hp with
      | head => exact fun e => hne e.symm
      | tail _ hp' => exact ih h p hp'

theorem canon_nil : ZCanon [] := by simp [ZCanon]

theorem canon_zaddOne {f : ZFlags} {z : ZL} (hc : ZCanon z) (m : BS) (sc : Score) :
    ZCanon (zaddOne f z m sc).1 := by
  unfold zaddOne
  split
  · rename_i hn
    split
    · exact hc
    · exact canon_zInsert hc (zScore_none hn)
  · split
    · exact hc
    · split
      · exact hc
      · split
        · exact hc
        · split
          · exact hc
          · exact canon_zInsert (canon_zRemove hc) (not_mem_zRemove hc)

theorem canon_zaddAll {f : ZFlags} {z : ZL} (hc : ZCanon z) (ps : List (BS × Score)) :
    ZCanon (zaddAll f z ps).1 := by
  induction ps generalizing z with
  | nil => exact hc
  | cons p ps ih =>
    obtain ⟨m, sc⟩ := p
    simp only [zaddAll]
    exact ih (canon_zaddOne hc m sc)

theorem canon_zremAll {z : ZL} (hc : ZCanon z) (ms : List BS) : ZCanon (zremAll z ms).1 := by
  induction ms generalizing z with
  | nil => exact hc
  | cons m ms ih =>
    simp only [zremAll]
    split
    · exact ih hc
    · exact ih (canon_zRemove hc)

end RedisVerif.Redis
