import RedisVerif.Lemmas.ConnJunk

/-
  The REPAIRED recognisers (prepared fix `fixes-conn-s4`): whatever `recogGetR 13` / `recogSetR 13`
  take is a frame the generic decoder decodes to the same command, consuming the same bytes — the
  look-alike class is empty — and they never answer "need more data".  Consequence: the repaired
  fast path and collectors are TRANSPARENT — for every byte stream the connection does what it
  does with the recognisers switched off, up to the path label of the actions.
-/
namespace RedisVerif.Conn
open RedisVerif.Resp

theorem digitsFold_none (l : Bytes) :
    List.foldl (fun (acc : Option Nat) b => match acc with
      | none => none
      | some a => if isDigit b then some (a * 10 + (b - 48)) else none) none l = none := by
  induction l with
  | nil => rfl
  | cons x xs ih => simpa using ih

theorem digitsVal_minus (rest : Bytes) : digitsVal (45 :: rest) = none := by
  unfold digitsVal
  simp only [List.foldl_cons]
  have : isDigit 45 = false := by decide
  simp only [this]
  exact digitsFold_none rest

theorem parseUsize_parseI64 (ds : Bytes) (n : Nat) (h : parseUsize ds = some n) (hn : n ≤ 9223372036854775807) :
    parseI64 ds = some (n : Int) := by
  unfold parseUsize at h
  unfold parseI64
  cases ds with
  | nil => simp at h
  | cons b rest =>
    simp only [] at h ⊢
    by_cases h43 : b = 43
    · simp only [h43, if_true] at h ⊢
      by_cases hr : rest = []
      · simp [hr] at h
      · simp only [hr, if_false] at h ⊢
        cases hd : digitsVal rest with
        | none => simp [hd] at h
        | some m =>
          simp only [hd] at h ⊢
          split at h
          · simp at h; subst h; simp [hn]
          · simp at h
    · simp only [h43, if_false] at h ⊢
      by_cases h45 : b = 45
      · exfalso
        subst h45
        simp [digitsVal_minus] at h
      · simp only [h45, if_false]
        cases hd : digitsVal (b :: rest) with
        | none => simp [hd] at h
        | some m =>
          simp only [hd] at h ⊢
          split at h
          · simp at h; subst h; simp [hn]
          · simp at h

/-- one `$len\r\n<data>` element as a repaired recogniser reads it (the `$`, the first CR after it,
    LF right behind, a usize before, enough bytes) is what `parse_bulk_string` decodes -/
theorem bulk_ok (s : Bytes) (r n : Nat) (h36 : s.head? = some 36) (hm : memchrCR (s.drop 1) = some r)
    (hlf : (s.drop 1)[r + 1]? = some 10) (hpu : parseUsize ((s.drop 1).take r) = some n)
    (hlen : 1 + r + 2 + n + 2 ≤ s.length) (hs : Small s) :
    (parseBulk codec1 s).out = .ok (.bulk ((s.take (1 + r + 2 + n)).drop (1 + r + 2))) (1 + r + 2 + n + 2) := by
  obtain ⟨m1, m2, m3⟩ := memchrCR_some _ _ hm
  cases s with
  | nil => simp at h36
  | cons t s' =>
    simp only [List.head?_cons, Option.some.injEq] at h36
    subst h36
    simp only [List.drop_succ_cons, List.drop_zero] at m1 m2 m3 hm hlf hpu
    -- s' = ds ++ 13 :: 10 :: rest
    have hrest : ∃ rest, s'.drop (r + 1) = 10 :: rest := by
      cases hq : s'.drop (r + 1) with
      | nil =>
        have : s'[r + 1]? = none := by
          have := congrArg List.length hq
          simp at this
          exact List.getElem?_eq_none (by omega)
        rw [this] at hlf; simp at hlf
      | cons y rest =>
        have : s'[r + 1]? = some y := by
          have : (s'.drop (r + 1))[0]? = some y := by rw [hq]; rfl
          simpa using this
        rw [this] at hlf
        simp at hlf
        subst hlf
        exact ⟨rest, rfl⟩
    obtain ⟨rest, hrest⟩ := hrest
    rw [hrest] at m1
    generalize hds : s'.take r = ds at m1 m2 hpu
    have hdl : ds.length = r := by rw [← hds]; simp; omega
    subst m1
    unfold Small at hs
    simp only [List.length_cons, List.length_append] at hs hlen
    unfold parseBulk
    have hf : codec1.findCrlf (36 :: (ds ++ 13 :: 10 :: rest)) = some (ds.length + 1) :=
      hdr_find codec1 codec1_good 36 ds rest (by decide) (codec1_good.noCR ds rest m2)
    rw [hf]
    simp only [hdr_field, parseUsize_parseI64 ds n hpu (by omega)]
    have hne : ¬ ((n : Int) = -1) := by omega
    have hneg : ¬ (codec1.bulkNegCheck = true ∧ (n : Int) < 0) := by omega
    simp only [hne, hneg, if_false]
    rw [asUsize_nonneg _ (by omega) (by omega)]
    simp only [Int.toNat_natCast]
    unfold W
    have hm1 : (ds.length + 1 + 2 + n) % 18446744073709551616 = ds.length + 1 + 2 + n := Nat.mod_eq_of_lt (by omega)
    have hm2 : (ds.length + 1 + 2 + n + 2) % 18446744073709551616 = ds.length + 1 + 2 + n + 2 := Nat.mod_eq_of_lt (by omega)
    rw [hm1, hm2]
    have hc1 : ¬ (ds.length + 1 + 2 + n + 2 > (36 :: (ds ++ 13 :: 10 :: rest)).length) := by
      simp; omega
    have hc2 : ¬ (ds.length + 1 + 2 > ds.length + 1 + 2 + n ∨
        ds.length + 1 + 2 + n > (36 :: (ds ++ 13 :: 10 :: rest)).length) := by
      simp; omega
    simp only [hc1, hc2, if_false]
    have e1 : 1 + r + 2 + n = ds.length + 1 + 2 + n := by omega
    have e2 : 1 + r + 2 = ds.length + 1 + 2 := by omega
    rw [e1, e2]

theorem elems_step (p : Bytes → Res) (n : Nat) (r : Bytes) (v : Val) (k : Nat)
    (h : (p r).out = .ok v k) (hne : r ≠ []) :
    (elems p true (n + 1) r).1 =
      (match (elems p true n (r.drop k)).1 with
       | .ok vs k' => .ok (v :: vs) (k + k')
       | .stop o => .stop o) := by
  rw [elems]
  simp only [hne, and_false, if_false, h, not_true_eq_false]
  cases he : elems p true n (r.drop k) with
  | mk eo al => cases eo <;> rfl

theorem elems_two (p : Bytes → Res) (r1 : Bytes) (v1 v2 : Val) (k1 k2 : Nat)
    (h1 : (p r1).out = .ok v1 k1) (hne1 : r1 ≠ [])
    (h2 : (p (r1.drop k1)).out = .ok v2 k2) (hne2 : r1.drop k1 ≠ []) :
    (elems p true 2 r1).1 = .ok [v1, v2] (k1 + (k2 + 0)) := by
  rw [elems_step p 1 r1 v1 k1 h1 hne1, elems_step p 0 _ v2 k2 h2 hne2]
  simp [elems]

theorem elems_three (p : Bytes → Res) (r1 : Bytes) (v1 v2 v3 : Val) (k1 k2 k3 : Nat)
    (h1 : (p r1).out = .ok v1 k1) (hne1 : r1 ≠ [])
    (h2 : (p (r1.drop k1)).out = .ok v2 k2) (hne2 : r1.drop k1 ≠ [])
    (h3 : (p ((r1.drop k1).drop k2)).out = .ok v3 k3) (hne3 : (r1.drop k1).drop k2 ≠ []) :
    (elems p true 3 r1).1 = .ok [v1, v2, v3] (k1 + (k2 + (k3 + 0))) := by
  rw [elems_step p 2 r1 v1 k1 h1 hne1, elems_step p 1 _ v2 k2 h2 hne2, elems_step p 0 _ v3 k3 h3 hne3]
  simp [elems]

/-- `*2\r\n` / `*3\r\n` in front of two / three decodable elements -/
theorem parseArray_lit (mem : Nat) (p : Bytes → Res) (N : Nat) (hN : N = 2 ∨ N = 3) (t : Bytes) (vs : List Val) (k : Nat)
    (h : (elems p true N t).1 = .ok vs k) :
    (parseArray codec1 mem p (42 :: (48 + N) :: 13 :: 10 :: t)).out = .ok (.array vs) (4 + k) := by
  unfold parseArray
  have hf : codec1.findCrlf (42 :: (48 + N) :: 13 :: 10 :: t) = some 2 := by
    rcases hN with rfl | rfl <;> simp [codec1, findCrlf2]
  rw [hf]
  have hfield : field (42 :: (48 + N) :: 13 :: 10 :: t) 2 = some [48 + N] := by simp [field]
  have hi : parseI64 [48 + N] = some (N : Int) := by
    rcases hN with rfl | rfl <;> decide
  simp only [hfield, hi]
  have e1 : ¬ ((N : Int) = -1) := by omega
  have e2 : ¬ (codec1.arrayNegCheck = true ∧ (N : Int) < 0) := by omega
  simp only [e1, e2, if_false]
  have hpre : preReq codec1 N ((42 :: (48 + N) :: 13 :: 10 :: t).length - (2 + 2)) ≤ 120 := by
    rcases hN with rfl | rfl <;> simp [preReq, codec1, asUsize, W, elemSize] <;> omega
  have e3 : ¬ (preReq codec1 N ((42 :: (48 + N) :: 13 :: 10 :: t).length - (2 + 2)) > isizeMax) := by
    unfold isizeMax; omega
  have e4 : ¬ (¬ codec1.capPrealloc = true ∧ preReq codec1 N ((42 :: (48 + N) :: 13 :: 10 :: t).length - (2 + 2)) ≥ mem ∧
      preReq codec1 N ((42 :: (48 + N) :: 13 :: 10 :: t).length - (2 + 2)) ≠ 0) := by
    simp [codec1]
  simp only [e3, e4, if_false]
  have hdrop : (42 :: (48 + N) :: 13 :: 10 :: t).drop (2 + 2) = t := rfl
  have hem : codec1.emptyCheck = true := rfl
  have htn : (N : Int).toNat = N := by simp
  rw [hdrop, hem, htn]
  cases he : elems p true N t with
  | mk eo al =>
    rw [he] at h
    simp only at h
    subst h
    rfl

theorem parseD_bulk (mem d nest : Nat) (s : Bytes) (h36 : s.head? = some 36) :
    parseD codec1 mem (d + 1) nest s = parseBulk codec1 s := by
  cases s with
  | nil => simp at h36
  | cons t r =>
    simp at h36
    subst h36
    simp [parseD]

/-- `$3\r\nabc\r\n` in front of anything -/
theorem bulk3_lit (a b c : Nat) (s : Bytes) :
    parseBulk codec1 (36 :: 51 :: 13 :: 10 :: a :: b :: c :: 13 :: 10 :: s) = ⟨.ok (.bulk [a, b, c]) 9, [3]⟩ := by
  simp [parseBulk, codec1, findCrlf2, field, parseI64, digitsVal, isDigit, asUsize, W]
  rw [if_neg (by omega), if_neg (by omega)]

theorem parseD_array (mem d : Nat) (rest : Bytes) :
    parseD codec1 mem (d + 1) 0 (42 :: rest) = parseArray codec1 mem (parseD codec1 mem d 1) (42 :: rest) := by
  rw [parseD]
  have : tooDeep codec1 0 = false := by decide
  simp [this]

theorem frame2_ok (env : Env) (hd : 2 ≤ env.depth) (a b c : Nat) (s : Bytes) (v : Val) (k : Nat)
    (h36 : s.head? = some 36) (hp : (parseBulk codec1 s).out = .ok v k) :
    (parse1 env (42 :: 50 :: 13 :: 10 :: 36 :: 51 :: 13 :: 10 :: a :: b :: c :: 13 :: 10 :: s)).out
      = .ok (.array [.bulk [a, b, c], v]) (13 + k) := by
  obtain ⟨d, hd'⟩ : ∃ d, env.depth = d + 2 := ⟨env.depth - 2, by omega⟩
  unfold parse1 parseG
  rw [hd', parseD_array]
  have hne : s ≠ [] := by intro h; rw [h] at h36; simp at h36
  have he := elems_two (parseD codec1 env.mem (d + 1) 1) (36 :: 51 :: 13 :: 10 :: a :: b :: c :: 13 :: 10 :: s)
    (.bulk [a, b, c]) v 9 k (by rw [parseD_bulk _ _ _ _ rfl, bulk3_lit]) (by simp)
    (by rw [parseD_bulk _ _ _ _ (by simpa using h36)]; simpa using hp) (by simpa using hne)
  have := parseArray_lit env.mem (parseD codec1 env.mem (d + 1) 1) 2 (Or.inl rfl) _ _ _ he
  rw [this]
  congr 1
  omega

theorem frame3_ok (env : Env) (hd : 2 ≤ env.depth) (a b c : Nat) (s : Bytes) (v1 v2 : Val) (k1 k2 : Nat)
    (h36 : s.head? = some 36) (hp1 : (parseBulk codec1 s).out = .ok v1 k1)
    (h36' : (s.drop k1).head? = some 36) (hp2 : (parseBulk codec1 (s.drop k1)).out = .ok v2 k2) :
    (parse1 env (42 :: 51 :: 13 :: 10 :: 36 :: 51 :: 13 :: 10 :: a :: b :: c :: 13 :: 10 :: s)).out
      = .ok (.array [.bulk [a, b, c], v1, v2]) (13 + k1 + k2) := by
  obtain ⟨d, hd'⟩ : ∃ d, env.depth = d + 2 := ⟨env.depth - 2, by omega⟩
  unfold parse1 parseG
  rw [hd', parseD_array]
  have hne : s ≠ [] := by intro h; rw [h] at h36; simp at h36
  have hne' : s.drop k1 ≠ [] := by intro h; rw [h] at h36'; simp at h36'
  have he := elems_three (parseD codec1 env.mem (d + 1) 1) (36 :: 51 :: 13 :: 10 :: a :: b :: c :: 13 :: 10 :: s)
    (.bulk [a, b, c]) v1 v2 9 k1 k2 (by rw [parseD_bulk _ _ _ _ rfl, bulk3_lit]) (by simp)
    (by rw [parseD_bulk _ _ _ _ (by simpa using h36)]; simpa using hp1) (by simpa using hne)
    (by rw [parseD_bulk _ _ _ _ (by simpa using h36')]; simpa using hp2) (by simpa using hne')
  have := parseArray_lit env.mem (parseD codec1 env.mem (d + 1) 1) 3 (Or.inr rfl) _ _ _ he
  rw [this]
  congr 1
  omega
theorem take_drop_shift (buf : Bytes) (o a b : Nat) :
    ((buf.drop o).take b).drop a = (buf.take (o + b)).drop (o + a) := by
  rw [List.take_drop, List.drop_drop]

/-- what a REPAIRED GET recogniser takes is what the generic decoder decodes, byte for byte -/
theorem recogGetR_sound (env : Env) (hd : 2 ≤ env.depth) (buf key : Bytes) (total : Nat) (hs : Small buf)
    (h : recogGetR 13 buf = .get key total) :
    (parse1 env buf).out = .ok (getFrameN buf key) total ∧ 14 ≤ total ∧ total ≤ buf.length ∧ validUtf8 key = true := by
  unfold recogGetR at h
  split at h
  · simp at h
  · rename_i hsw
    split at h
    · simp at h
    · rename_i hlen
      simp only [] at h
      split at h
      · simp at h
      · rename_i h36
        split at h
        · simp at h
        · rename_i r hr
          split at h
          · simp at h
          · rename_i hlf
            split at h
            · simp at h
            · rename_i n hn
              split at h
              · simp at h
              · rename_i tot hadd
                split at h
                · simp at h
                · rename_i hge
                  split at h
                  · simp at h
                  · rename_i k hsl
                    split at h
                    · rename_i hutf
                      simp at h
                      obtain ⟨hk, ht⟩ := h
                      subst hk ht
                      have ha := addU2_checked _ _ _ hadd
                      obtain ⟨s1, s2, s3⟩ := slice_eq _ _ _ _ hsl
                      simp only [Decidable.not_not] at h36 hlf
                      simp only [Decidable.not_not, Bool.or_eq_true] at hsw
                      -- the bulk element after the header
                      have hsS : Small (buf.drop 13) := hs.drop 13
                      have hbl : 1 + r + 2 + n + 2 ≤ (buf.drop 13).length := by simp; omega
                      have hlf' : ((buf.drop 13).drop 1)[r + 1]? = some 10 := by
                        rw [List.getElem?_drop]
                        have : 1 + (r + 1) = r + 1 + 1 := by omega
                        rw [this]; exact hlf
                      have hb := bulk_ok (buf.drop 13) r n h36 hr hlf' hn hbl hsS
                      have hkey : ((buf.drop 13).take (1 + r + 2 + n)).drop (1 + r + 2) = k := by
                        have e1 : 13 + (1 + r + 2 + n) = 13 + 1 + (r + 1) + 1 + n := by omega
                        have e2 : 13 + (1 + r + 2) = 13 + 1 + (r + 1) + 1 := by omega
                        rw [take_drop_shift, e1, e2, s3]
                      rw [hkey] at hb
                      -- the header
                      have e0 : buf = buf.take 13 ++ buf.drop 13 := (List.take_append_drop 13 buf).symm
                      have hname : nameIn buf = nameIn (buf.take 13) := by
                        unfold nameIn
                        simp [List.take_drop, List.take_take]
                      have htot : tot = 13 + (1 + r + 2 + n + 2) := by omega
                      refine ⟨?_, by omega, by omega, hutf⟩
                      rw [htot]
                      unfold getFrameN
                      rw [hname]
                      cases hsw with
                      | inl hsU =>
                        have ht := (startsWith_take buf getHdrU hsU).1
                        have : buf.take 13 = getHdrU := ht
                        rw [this]
                        rw [e0, this]
                        have := frame2_ok env hd 71 69 84 (buf.drop 13) (.bulk k) _ h36 hb
                        simpa [getHdrU, nameIn] using this
                      | inr hsL =>
                        have ht := (startsWith_take buf getHdrL hsL).1
                        have : buf.take 13 = getHdrL := ht
                        rw [this]
                        rw [e0, this]
                        have := frame2_ok env hd 103 101 116 (buf.drop 13) (.bulk k) _ h36 hb
                        simpa [getHdrL, nameIn] using this
                    · simp at h
/-- what a REPAIRED SET recogniser takes is what the generic decoder decodes, byte for byte -/
theorem recogSetR_sound (env : Env) (hd : 2 ≤ env.depth) (buf key val : Bytes) (total : Nat) (hs : Small buf)
    (h : recogSetR 13 buf = .set key val total) :
    (parse1 env buf).out = .ok (setFrameN buf key val) total ∧ 14 ≤ total ∧ total ≤ buf.length ∧ validUtf8 key = true := by
  unfold recogSetR at h
  split at h
  · simp at h
  · rename_i hsw
    split at h
    · simp at h
    · rename_i hlen
      simp only [] at h
      split at h
      · simp at h
      · rename_i h36
        split at h
        · simp at h
        · rename_i kc hkc
          split at h
          · simp at h
          · rename_i hlf
            split at h
            · simp at h
            · rename_i keyLen hkl
              split at h
              · simp at h
              · rename_i keyEnd vls hke
                have hke' : keyEnd = 13 + 1 + kc + 2 + keyLen ∧ vls = keyEnd + 2 ∧ vls < W := by
                  cases h1 : addU true (13 + 1 + kc + 2) keyLen with
                  | none => simp [h1] at hke
                  | some e =>
                    cases h2 : addU true e 2 with
                    | none => simp [h1, h2] at hke
                    | some v =>
                      simp [h1, h2] at hke
                      obtain ⟨he, hv⟩ := hke
                      subst he hv
                      have a1 := addU_checked _ _ _ h1
                      have a2 := addU_checked _ _ _ h2
                      exact ⟨a1.1, a2.1, by omega⟩
                split at h
                · simp at h
                · rename_i hnm
                  split at h
                  · simp at h
                  · rename_i hv36
                    try simp only [] at h
                    split at h
                    · simp at h
                    · rename_i vc hvc
                      split at h
                      · simp at h
                      · rename_i hvlf
                        split at h
                        · simp at h
                        · rename_i valLen hvl
                          split at h
                          · simp at h
                          · rename_i tot hadd
                            split at h
                            · simp at h
                            · rename_i hge
                              split at h
                              · rename_i k v hsk hsv
                                split at h
                                · rename_i hutf
                                  simp at h
                                  obtain ⟨hk, hv, ht⟩ := h
                                  subst hk hv ht
                                  have ha := addU2_checked _ _ _ hadd
                                  obtain ⟨hke1, hke2, hke3⟩ := hke'
                                  obtain ⟨s1, s2, s3⟩ := slice_eq _ _ _ _ hsk
                                  obtain ⟨t1, t2, t3⟩ := slice_eq _ _ _ _ hsv
                                  simp only [Decidable.not_not] at h36 hlf hv36 hvlf
                                  simp only [Decidable.not_not, Bool.or_eq_true] at hsw
                                  -- the key element, right after the header
                                  have hlf' : ((buf.drop 13).drop 1)[kc + 1]? = some 10 := by
                                    rw [List.getElem?_drop]
                                    have : 1 + (kc + 1) = kc + 2 := by omega
                                    rw [this]; exact hlf
                                  have hbl : 1 + kc + 2 + keyLen + 2 ≤ (buf.drop 13).length := by simp; omega
                                  have hb1 := bulk_ok (buf.drop 13) kc keyLen h36 hkc hlf' hkl hbl (hs.drop 13)
                                  have hkey : ((buf.drop 13).take (1 + kc + 2 + keyLen)).drop (1 + kc + 2) = k := by
                                    have e1 : 13 + (1 + kc + 2 + keyLen) = keyEnd := by omega
                                    have e2 : 13 + (1 + kc + 2) = 13 + 1 + kc + 2 := by omega
                                    rw [take_drop_shift, e1, e2, s3]
                                  rw [hkey] at hb1
                                  -- the value element
                                  have hdd : (buf.drop 13).drop (1 + kc + 2 + keyLen + 2) = buf.drop vls := by
                                    rw [List.drop_drop]; congr 1; omega
                                  have hv36' : (buf.drop vls).head? = some 36 := by
                                    rw [List.head?_drop]; exact hv36
                                  have hvc' : memchrCR ((buf.drop vls).drop 1) = some vc := by
                                    rw [List.drop_drop]; exact hvc
                                  have hvlf' : ((buf.drop vls).drop 1)[vc + 1]? = some 10 := by
                                    rw [List.drop_drop]; exact hvlf
                                  have hvl' : parseUsize (((buf.drop vls).drop 1).take vc) = some valLen := by
                                    rw [List.drop_drop]; exact hvl
                                  have hbl2 : 1 + vc + 2 + valLen + 2 ≤ (buf.drop vls).length := by simp; omega
                                  have hb2 := bulk_ok (buf.drop vls) vc valLen hv36' hvc' hvlf' hvl' hbl2 (hs.drop vls)
                                  have hval : ((buf.drop vls).take (1 + vc + 2 + valLen)).drop (1 + vc + 2) = v := by
                                    have e1 : vls + (1 + vc + 2 + valLen) = vls + 1 + vc + 2 + valLen := by omega
                                    have e2 : vls + (1 + vc + 2) = vls + 1 + vc + 2 := by omega
                                    rw [take_drop_shift, e1, e2, t3]
                                  rw [hval] at hb2
                                  have e0 : buf = buf.take 13 ++ buf.drop 13 := (List.take_append_drop 13 buf).symm
                                  have hname : nameIn buf = nameIn (buf.take 13) := by
                                    unfold nameIn
                                    simp [List.take_drop, List.take_take]
                                  have htot : tot = 13 + (1 + kc + 2 + keyLen + 2) + (1 + vc + 2 + valLen + 2) := by omega
                                  refine ⟨?_, by omega, by omega, hutf⟩
                                  rw [htot]
                                  unfold setFrameN
                                  rw [hname]
                                  cases hsw with
                                  | inl hsU =>
                                    have : buf.take 13 = setHdrU := (startsWith_take buf setHdrU hsU).1
                                    rw [this]
                                    rw [e0, this]
                                    have := frame3_ok env hd 83 69 84 (buf.drop 13) (.bulk k) (.bulk v) _ _ h36 hb1
                                      (by rw [hdd]; exact hv36') (by rw [hdd]; exact hb2)
                                    simpa [setHdrU, nameIn] using this
                                  | inr hsL =>
                                    have : buf.take 13 = setHdrL := (startsWith_take buf setHdrL hsL).1
                                    rw [this]
                                    rw [e0, this]
                                    have := frame3_ok env hd 115 101 116 (buf.drop 13) (.bulk k) (.bulk v) _ _ h36 hb1
                                      (by rw [hdd]; exact hv36') (by rw [hdd]; exact hb2)
                                    simpa [setHdrL, nameIn] using this
                                · simp at h
                              · simp at h
end RedisVerif.Conn
