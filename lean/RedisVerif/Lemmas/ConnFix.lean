import RedisVerif.Lemmas.ConnJunk

/-
  The REPAIRED recognisers (prepared fix `fixes-conn-s4`): whatever `recogGetR 13` / `recogSetR 13`
  take is a frame the generic decoder decodes to the same command, consuming the same bytes — the
  look-alike class is empty — and they never answer "need more data".  Consequence: the repaired
  fast path and collectors are TRANSPARENT — for every byte stream the connection does what it
  does with the recognisers switched off, up to the path label of the actions.
-/
namespace RedisVerif.Conn
open RedisVerif.Resp

theorem digitsFold_none (l : Bytes) :
    List.foldl (fun (acc : Option Nat) b => match acc with
      | none => none
      | some a => if isDigit b then some (a * 10 + (b - 48)) else none) none l = none := by
  induction l with
  | nil => rfl
  | cons x xs ih => simpa using ih

theorem digitsVal_minus (rest : Bytes) : digitsVal (45 :: rest) = none := by
  unfold digitsVal
  simp only [List.foldl_cons]
  have : isDigit 45 = false := by decide
  simp only [this]
  exact digitsFold_none rest

theorem parseUsize_parseI64 (ds : Bytes) (n : Nat) (h : parseUsize ds = some n) (hn : n ≤ 9223372036854775807) :
    parseI64 ds = some (n : Int) := by
  unfold parseUsize at h
  unfold parseI64
  cases ds with
  | nil => simp at h
  | cons b rest =>
    simp only [] at h ⊢
    by_cases h43 : b = 43
    · simp only [h43, if_true] at h ⊢
      by_cases hr : rest = []
      · simp [hr] at h
      · simp only [hr, if_false] at h ⊢
        cases hd : digitsVal rest with
        | none => simp [hd] at h
        | some m =>
          simp only [hd] at h ⊢
          split at h
          · simp at h; subst h; simp [hn]
          · simp at h
    · simp only [h43, if_false] at h ⊢
      by_cases h45 : b = 45
      · exfalso
        subst h45
        simp [digitsVal_minus] at h
      · simp only [h45, if_false]
        cases hd : digitsVal (b :: rest) with
        | none => simp [hd] at h
        | some m =>
          simp only [hd] at h ⊢
          split at h
          · simp at h; subst h; simp [hn]
          · simp at h

/-- one `$len\r\n<data>` element as a repaired recogniser reads it (the `$`, the first CR after it,
    LF right behind, a usize before, enough bytes) is what `parse_bulk_string` decodes -/
theorem bulk_ok (s : Bytes) (r n : Nat) (h36 : s.head? = some 36) (hm : memchrCR (s.drop 1) = some r)
    (hlf : (s.drop 1)[r + 1]? = some 10) (hpu : parseUsize ((s.drop 1).take r) = some n)
    (hlen : 1 + r + 2 + n + 2 ≤ s.length) (hs : Small s) :
    (parseBulk codec1 s).out = .ok (.bulk ((s.take (1 + r + 2 + n)).drop (1 + r + 2))) (1 + r + 2 + n + 2) := by
  obtain ⟨m1, m2, m3⟩ := memchrCR_some _ _ hm
  cases s with
  | nil => simp at h36
  | cons t s' =>
    simp only [List.head?_cons, Option.some.injEq] at h36
    subst h36
    simp only [List.drop_succ_cons, List.drop_zero] at m1 m2 m3 hm hlf hpu
    -- s' = ds ++ 13 :: 10 :: rest
    have hrest : ∃ rest, s'.drop (r + 1) = 10 :: rest := by
      cases hq : s'.drop (r + 1) with
      | nil =>
        have : s'[r + 1]? = none := by
          have := congrArg List.length hq
          simp at this
          exact List.getElem?_eq_none (by omega)
        rw [this] at hlf; simp at hlf
      | cons y rest =>
        have : s'[r + 1]? = some y := by
          have : (s'.drop (r + 1))[0]? = some y := by rw [hq]; rfl
          simpa using this
        rw [this] at hlf
        simp at hlf
        subst hlf
        exact ⟨rest, rfl⟩
    obtain ⟨rest, hrest⟩ := hrest
    rw [hrest] at m1
    generalize hds : s'.take r = ds at m1 m2 hpu
    have hdl : ds.length = r := by rw [← hds]; simp; omega
    subst m1
    unfold Small at hs
    simp only [List.length_cons, List.length_append] at hs hlen
    unfold parseBulk
    have hf : codec1.findCrlf (36 :: (ds ++ 13 :: 10 :: rest)) = some (ds.length + 1) :=
      hdr_find codec1 codec1_good 36 ds rest (by decide) (codec1_good.noCR ds rest m2)
    rw [hf]
    simp only [hdr_field, parseUsize_parseI64 ds n hpu (by omega)]
    have hne : ¬ ((n : Int) = -1) := by omega
    have hneg : ¬ (codec1.bulkNegCheck = true ∧ (n : Int) < 0) := by omega
    simp only [hne, hneg, if_false]
    rw [asUsize_nonneg _ (by omega) (by omega)]
    simp only [Int.toNat_natCast]
    unfold W
    have hm1 : (ds.length + 1 + 2 + n) % 18446744073709551616 = ds.length + 1 + 2 + n := Nat.mod_eq_of_lt (by omega)
    have hm2 : (ds.length + 1 + 2 + n + 2) % 18446744073709551616 = ds.length + 1 + 2 + n + 2 := Nat.mod_eq_of_lt (by omega)
    rw [hm1, hm2]
    have hc1 : ¬ (ds.length + 1 + 2 + n + 2 > (36 :: (ds ++ 13 :: 10 :: rest)).length) := by
      simp; omega
    have hc2 : ¬ (ds.length + 1 + 2 > ds.length + 1 + 2 + n ∨
        ds.length + 1 + 2 + n > (36 :: (ds ++ 13 :: 10 :: rest)).length) := by
      simp; omega
    simp only [hc1, hc2, if_false]
    have e1 : 1 + r + 2 + n = ds.length + 1 + 2 + n := by omega
    have e2 : 1 + r + 2 = ds.length + 1 + 2 := by omega
    rw [e1, e2]

theorem elems_step (p : Bytes → Res) (n : Nat) (r : Bytes) (v : Val) (k : Nat)
    (h : (p r).out = .ok v k) (hne : r ≠ []) :
    (elems p true (n + 1) r).1 =
      (match (elems p true n (r.drop k)).1 with
       | .ok vs k' => .ok (v :: vs) (k + k')
       | .stop o => .stop o) := by
  rw [elems]
  simp only [hne, and_false, if_false, h, not_true_eq_false]
  cases he : elems p true n (r.drop k) with
  | mk eo al => cases eo <;> rfl

theorem elems_two (p : Bytes → Res) (r1 : Bytes) (v1 v2 : Val) (k1 k2 : Nat)
    (h1 : (p r1).out = .ok v1 k1) (hne1 : r1 ≠ [])
    (h2 : (p (r1.drop k1)).out = .ok v2 k2) (hne2 : r1.drop k1 ≠ []) :
    (elems p true 2 r1).1 = .ok [v1, v2] (k1 + (k2 + 0)) := by
  rw [elems_step p 1 r1 v1 k1 h1 hne1, elems_step p 0 _ v2 k2 h2 hne2]
  simp [elems]

theorem elems_three (p : Bytes → Res) (r1 : Bytes) (v1 v2 v3 : Val) (k1 k2 k3 : Nat)
    (h1 : (p r1).out = .ok v1 k1) (hne1 : r1 ≠ [])
    (h2 : (p (r1.drop k1)).out = .ok v2 k2) (hne2 : r1.drop k1 ≠ [])
    (h3 : (p ((r1.drop k1).drop k2)).out = .ok v3 k3) (hne3 : (r1.drop k1).drop k2 ≠ []) :
    (elems p true 3 r1).1 = .ok [v1, v2, v3] (k1 + (k2 + (k3 + 0))) := by
  rw [elems_step p 2 r1 v1 k1 h1 hne1, elems_step p 1 _ v2 k2 h2 hne2, elems_step p 0 _ v3 k3 h3 hne3]
  simp [elems]

/-- `*2\r\n` / `*3\r\n` in front of two / three decodable elements -/
theorem parseArray_lit (mem : Nat) (p : Bytes → Res) (N : Nat) (hN : N = 2 ∨ N = 3) (t : Bytes) (vs : List Val) (k : Nat)
    (h : (elems p true N t).1 = .ok vs k) :
    (parseArray codec1 mem p (42 :: (48 + N) :: 13 :: 10 :: t)).out = .ok (.array vs) (4 + k) := by
  unfold parseArray
  have hf : codec1.findCrlf (42 :: (48 + N) :: 13 :: 10 :: t) = some 2 := by
    rcases hN with rfl | rfl <;> simp [codec1, findCrlf2]
  rw [hf]
  have hfield : field (42 :: (48 + N) :: 13 :: 10 :: t) 2 = some [48 + N] := by simp [field]
  have hi : parseI64 [48 + N] = some (N : Int) := by
    rcases hN with rfl | rfl <;> decide
  simp only [hfield, hi]
  have e1 : ¬ ((N : Int) = -1) := by omega
  have e2 : ¬ (codec1.arrayNegCheck = true ∧ (N : Int) < 0) := by omega
  simp only [e1, e2, if_false]
  have hpre : preReq codec1 N ((42 :: (48 + N) :: 13 :: 10 :: t).length - (2 + 2)) ≤ 120 := by
    rcases hN with rfl | rfl <;> simp [preReq, codec1, asUsize, W, elemSize] <;> omega
  have e3 : ¬ (preReq codec1 N ((42 :: (48 + N) :: 13 :: 10 :: t).length - (2 + 2)) > isizeMax) := by
    unfold isizeMax; omega
  have e4 : ¬ (¬ codec1.capPrealloc = true ∧ preReq codec1 N ((42 :: (48 + N) :: 13 :: 10 :: t).length - (2 + 2)) ≥ mem ∧
      preReq codec1 N ((42 :: (48 + N) :: 13 :: 10 :: t).length - (2 + 2)) ≠ 0) := by
    simp [codec1]
  simp only [e3, e4, if_false]
  have hdrop : (42 :: (48 + N) :: 13 :: 10 :: t).drop (2 + 2) = t := rfl
  have hem : codec1.emptyCheck = true := rfl
  have htn : (N : Int).toNat = N := by simp
  rw [hdrop, hem, htn]
  cases he : elems p true N t with
  | mk eo al =>
    rw [he] at h
    simp only at h
    subst h
    rfl

theorem parseD_bulk (mem d nest : Nat) (s : Bytes) (h36 : s.head? = some 36) :
    parseD codec1 mem (d + 1) nest s = parseBulk codec1 s := by
  cases s with
  | nil => simp at h36
  | cons t r =>
    simp at h36
    subst h36
    simp [parseD]

/-- `$3\r\nabc\r\n` in front of anything -/
theorem bulk3_lit (a b c : Nat) (s : Bytes) :
    parseBulk codec1 (36 :: 51 :: 13 :: 10 :: a :: b :: c :: 13 :: 10 :: s) = ⟨.ok (.bulk [a, b, c]) 9, [3]⟩ := by
  simp [parseBulk, codec1, findCrlf2, field, parseI64, digitsVal, isDigit, asUsize, W]
  rw [if_neg (by omega), if_neg (by omega)]

theorem parseD_array (mem d : Nat) (rest : Bytes) :
    parseD codec1 mem (d + 1) 0 (42 :: rest) = parseArray codec1 mem (parseD codec1 mem d 1) (42 :: rest) := by
  rw [parseD]
  have : tooDeep codec1 0 = false := by decide
  simp [this]

theorem frame2_ok (env : Env) (hd : 2 ≤ env.depth) (a b c : Nat) (s : Bytes) (v : Val) (k : Nat)
    (h36 : s.head? = some 36) (hp : (parseBulk codec1 s).out = .ok v k) :
    (parse1 env (42 :: 50 :: 13 :: 10 :: 36 :: 51 :: 13 :: 10 :: a :: b :: c :: 13 :: 10 :: s)).out
      = .ok (.array [.bulk [a, b, c], v]) (13 + k) := by
  obtain ⟨d, hd'⟩ : ∃ d, env.depth = d + 2 := ⟨env.depth - 2, by omega⟩
  unfold parse1 parseG
  rw [hd', parseD_array]
  have hne : s ≠ [] := by intro h; rw [h] at h36; simp at h36
  have he := elems_two (parseD codec1 env.mem (d + 1) 1) (36 :: 51 :: 13 :: 10 :: a :: b :: c :: 13 :: 10 :: s)
    (.bulk [a, b, c]) v 9 k (by rw [parseD_bulk _ _ _ _ rfl, bulk3_lit]) (by simp)
    (by rw [parseD_bulk _ _ _ _ (by simpa using h36)]; simpa using hp) (by simpa using hne)
  have := parseArray_lit env.mem (parseD codec1 env.mem (d + 1) 1) 2 (Or.inl rfl) _ _ _ he
  rw [this]
  congr 1
  omega

theorem frame3_ok (env : Env) (hd : 2 ≤ env.depth) (a b c : Nat) (s : Bytes) (v1 v2 : Val) (k1 k2 : Nat)
    (h36 : s.head? = some 36) (hp1 : (parseBulk codec1 s).out = .ok v1 k1)
    (h36' : (s.drop k1).head? = some 36) (hp2 : (parseBulk codec1 (s.drop k1)).out = .ok v2 k2) :
    (parse1 env (42 :: 51 :: 13 :: 10 :: 36 :: 51 :: 13 :: 10 :: a :: b :: c :: 13 :: 10 :: s)).out
      = .ok (.array [.bulk [a, b, c], v1, v2]) (13 + k1 + k2) := by
  obtain ⟨d, hd'⟩ : ∃ d, env.depth = d + 2 := ⟨env.depth - 2, by omega⟩
  unfold parse1 parseG
  rw [hd', parseD_array]
  have hne : s ≠ [] := by intro h; rw [h] at h36; simp at h36
  have hne' : s.drop k1 ≠ [] := by intro h; rw [h] at h36'; simp at h36'
  have he := elems_three (parseD codec1 env.mem (d + 1) 1) (36 :: 51 :: 13 :: 10 :: a :: b :: c :: 13 :: 10 :: s)
    (.bulk [a, b, c]) v1 v2 9 k1 k2 (by rw [parseD_bulk _ _ _ _ rfl, bulk3_lit]) (by simp)
    (by rw [parseD_bulk _ _ _ _ (by simpa using h36)]; simpa using hp1) (by simpa using hne)
    (by rw [parseD_bulk _ _ _ _ (by simpa using h36')]; simpa using hp2) (by simpa using hne')
  have := parseArray_lit env.mem (parseD codec1 env.mem (d + 1) 1) 3 (Or.inr rfl) _ _ _ he
  rw [this]
  congr 1
  omega
theorem take_drop_shift (buf : Bytes) (o a b : Nat) :
    ((buf.drop o).take b).drop a = (buf.take (o + b)).drop (o + a) := by
  rw [List.take_drop, List.drop_drop]

/-- what a REPAIRED GET recogniser takes is what the generic decoder decodes, byte for byte -/
theorem recogGetR_sound (env : Env) (hd : 2 ≤ env.depth) (buf key : Bytes) (total : Nat) (hs : Small buf)
    (h : recogGetR 13 buf = .get key total) :
    (parse1 env buf).out = .ok (getFrameN buf key) total ∧ 14 ≤ total ∧ total ≤ buf.length ∧ validUtf8 key = true := by
  unfold recogGetR at h
  split at h
  · simp at h
  · rename_i hsw
    split at h
    · simp at h
    · rename_i hlen
      simp only [] at h
      split at h
      · simp at h
      · rename_i h36
        split at h
        · simp at h
        · rename_i r hr
          split at h
          · simp at h
          · rename_i hlf
            split at h
            · simp at h
            · rename_i n hn
              split at h
              · simp at h
              · rename_i tot hadd
                split at h
                · simp at h
                · rename_i hge
                  split at h
                  · simp at h
                  · rename_i k hsl
                    split at h
                    · rename_i hutf
                      simp at h
                      obtain ⟨hk, ht⟩ := h
                      subst hk ht
                      have ha := addU2_checked _ _ _ hadd
                      obtain ⟨s1, s2, s3⟩ := slice_eq _ _ _ _ hsl
                      simp only [Decidable.not_not] at h36 hlf
                      simp only [Decidable.not_not, Bool.or_eq_true] at hsw
                      -- the bulk element after the header
                      have hsS : Small (buf.drop 13) := hs.drop 13
                      have hbl : 1 + r + 2 + n + 2 ≤ (buf.drop 13).length := by simp; omega
                      have hlf' : ((buf.drop 13).drop 1)[r + 1]? = some 10 := by
                        rw [List.getElem?_drop]
                        have : 1 + (r + 1) = r + 1 + 1 := by omega
                        rw [this]; exact hlf
                      have hb := bulk_ok (buf.drop 13) r n h36 hr hlf' hn hbl hsS
                      have hkey : ((buf.drop 13).take (1 + r + 2 + n)).drop (1 + r + 2) = k := by
                        have e1 : 13 + (1 + r + 2 + n) = 13 + 1 + (r + 1) + 1 + n := by omega
                        have e2 : 13 + (1 + r + 2) = 13 + 1 + (r + 1) + 1 := by omega
                        rw [take_drop_shift, e1, e2, s3]
                      rw [hkey] at hb
                      -- the header
                      have e0 : buf = buf.take 13 ++ buf.drop 13 := (List.take_append_drop 13 buf).symm
                      have hname : nameIn buf = nameIn (buf.take 13) := by
                        unfold nameIn
                        simp [List.take_drop, List.take_take]
                      have htot : tot = 13 + (1 + r + 2 + n + 2) := by omega
                      refine ⟨?_, by omega, by omega, hutf⟩
                      rw [htot]
                      unfold getFrameN
                      rw [hname]
                      cases hsw with
                      | inl hsU =>
                        have ht := (startsWith_take buf getHdrU hsU).1
                        have : buf.take 13 = getHdrU := ht
                        rw [this]
                        rw [e0, this]
                        have := frame2_ok env hd 71 69 84 (buf.drop 13) (.bulk k) _ h36 hb
                        simpa [getHdrU, nameIn] using this
                      | inr hsL =>
                        have ht := (startsWith_take buf getHdrL hsL).1
                        have : buf.take 13 = getHdrL := ht
                        rw [this]
                        rw [e0, this]
                        have := frame2_ok env hd 103 101 116 (buf.drop 13) (.bulk k) _ h36 hb
                        simpa [getHdrL, nameIn] using this
                    · simp at h
/-- what a REPAIRED SET recogniser takes is what the generic decoder decodes, byte for byte -/
theorem recogSetR_sound (env : Env) (hd : 2 ≤ env.depth) (buf key val : Bytes) (total : Nat) (hs : Small buf)
    (h : recogSetR 13 buf = .set key val total) :
    (parse1 env buf).out = .ok (setFrameN buf key val) total ∧ 14 ≤ total ∧ total ≤ buf.length ∧ validUtf8 key = true := by
  unfold recogSetR at h
  split at h
  · simp at h
  · rename_i hsw
    split at h
    · simp at h
    · rename_i hlen
      simp only [] at h
      split at h
      · simp at h
      · rename_i h36
        split at h
        · simp at h
        · rename_i kc hkc
          split at h
          · simp at h
          · rename_i hlf
            split at h
            · simp at h
            · rename_i keyLen hkl
              split at h
              · simp at h
              · rename_i keyEnd vls hke
                have hke' : keyEnd = 13 + 1 + kc + 2 + keyLen ∧ vls = keyEnd + 2 ∧ vls < W := by
                  cases h1 : addU true (13 + 1 + kc + 2) keyLen with
                  | none => simp [h1] at hke
                  | some e =>
                    cases h2 : addU true e 2 with
                    | none => simp [h1, h2] at hke
                    | some v =>
                      simp [h1, h2] at hke
                      obtain ⟨he, hv⟩ := hke
                      subst he hv
                      have a1 := addU_checked _ _ _ h1
                      have a2 := addU_checked _ _ _ h2
                      exact ⟨a1.1, a2.1, by omega⟩
                split at h
                · simp at h
                · rename_i hnm
                  split at h
                  · simp at h
                  · rename_i hv36
                    try simp only [] at h
                    split at h
                    · simp at h
                    · rename_i vc hvc
                      split at h
                      · simp at h
                      · rename_i hvlf
                        split at h
                        · simp at h
                        · rename_i valLen hvl
                          split at h
                          · simp at h
                          · rename_i tot hadd
                            split at h
                            · simp at h
                            · rename_i hge
                              split at h
                              · rename_i k v hsk hsv
                                split at h
                                · rename_i hutf
                                  simp at h
                                  obtain ⟨hk, hv, ht⟩ := h
                                  subst hk hv ht
                                  have ha := addU2_checked _ _ _ hadd
                                  obtain ⟨hke1, hke2, hke3⟩ := hke'
                                  obtain ⟨s1, s2, s3⟩ := slice_eq _ _ _ _ hsk
                                  obtain ⟨t1, t2, t3⟩ := slice_eq _ _ _ _ hsv
                                  simp only [Decidable.not_not] at h36 hlf hv36 hvlf
                                  simp only [Decidable.not_not, Bool.or_eq_true] at hsw
                                  -- the key element, right after the header
                                  have hlf' : ((buf.drop 13).drop 1)[kc + 1]? = some 10 := by
                                    rw [List.getElem?_drop]
                                    have : 1 + (kc + 1) = kc + 2 := by omega
                                    rw [this]; exact hlf
                                  have hbl : 1 + kc + 2 + keyLen + 2 ≤ (buf.drop 13).length := by simp; omega
                                  have hb1 := bulk_ok (buf.drop 13) kc keyLen h36 hkc hlf' hkl hbl (hs.drop 13)
                                  have hkey : ((buf.drop 13).take (1 + kc + 2 + keyLen)).drop (1 + kc + 2) = k := by
                                    have e1 : 13 + (1 + kc + 2 + keyLen) = keyEnd := by omega
                                    have e2 : 13 + (1 + kc + 2) = 13 + 1 + kc + 2 := by omega
                                    rw [take_drop_shift, e1, e2, s3]
                                  rw [hkey] at hb1
                                  -- the value element
                                  have hdd : (buf.drop 13).drop (1 + kc + 2 + keyLen + 2) = buf.drop vls := by
                                    rw [List.drop_drop]; congr 1; omega
                                  have hv36' : (buf.drop vls).head? = some 36 := by
                                    rw [List.head?_drop]; exact hv36
                                  have hvc' : memchrCR ((buf.drop vls).drop 1) = some vc := by
                                    rw [List.drop_drop]; exact hvc
                                  have hvlf' : ((buf.drop vls).drop 1)[vc + 1]? = some 10 := by
                                    rw [List.drop_drop]; exact hvlf
                                  have hvl' : parseUsize (((buf.drop vls).drop 1).take vc) = some valLen := by
                                    rw [List.drop_drop]; exact hvl
                                  have hbl2 : 1 + vc + 2 + valLen + 2 ≤ (buf.drop vls).length := by simp; omega
                                  have hb2 := bulk_ok (buf.drop vls) vc valLen hv36' hvc' hvlf' hvl' hbl2 (hs.drop vls)
                                  have hval : ((buf.drop vls).take (1 + vc + 2 + valLen)).drop (1 + vc + 2) = v := by
                                    have e1 : vls + (1 + vc + 2 + valLen) = vls + 1 + vc + 2 + valLen := by omega
                                    have e2 : vls + (1 + vc + 2) = vls + 1 + vc + 2 := by omega
                                    rw [take_drop_shift, e1, e2, t3]
                                  rw [hval] at hb2
                                  have e0 : buf = buf.take 13 ++ buf.drop 13 := (List.take_append_drop 13 buf).symm
                                  have hname : nameIn buf = nameIn (buf.take 13) := by
                                    unfold nameIn
                                    simp [List.take_drop, List.take_take]
                                  have htot : tot = 13 + (1 + kc + 2 + keyLen + 2) + (1 + vc + 2 + valLen + 2) := by omega
                                  refine ⟨?_, by omega, by omega, hutf⟩
                                  rw [htot]
                                  unfold setFrameN
                                  rw [hname]
                                  cases hsw with
                                  | inl hsU =>
                                    have : buf.take 13 = setHdrU := (startsWith_take buf setHdrU hsU).1
                                    rw [this]
                                    rw [e0, this]
                                    have := frame3_ok env hd 83 69 84 (buf.drop 13) (.bulk k) (.bulk v) _ _ h36 hb1
                                      (by rw [hdd]; exact hv36') (by rw [hdd]; exact hb2)
                                    simpa [setHdrU, nameIn] using this
                                  | inr hsL =>
                                    have : buf.take 13 = setHdrL := (startsWith_take buf setHdrL hsL).1
                                    rw [this]
                                    rw [e0, this]
                                    have := frame3_ok env hd 115 101 116 (buf.drop 13) (.bulk k) (.bulk v) _ _ h36 hb1
                                      (by rw [hdd]; exact hv36') (by rw [hdd]; exact hb2)
                                    simpa [setHdrL, nameIn] using this
                                · simp at h
                              · simp at h
theorem nameIn_take (buf : Bytes) : nameIn buf = nameIn (buf.take 13) := by
  unfold nameIn
  simp [List.take_drop, List.take_take]

theorem recogGetR_name (h : Nat) (buf key : Bytes) (total : Nat) (hr : recogGetR h buf = .get key total) :
    nameIn buf = [71, 69, 84] ∨ nameIn buf = [103, 101, 116] := by
  unfold recogGetR at hr
  split at hr
  · simp at hr
  · rename_i hsw
    simp only [Decidable.not_not, Bool.or_eq_true] at hsw
    rw [nameIn_take]
    cases hsw with
    | inl hs => left; have e : buf.take 13 = getHdrU := (startsWith_take buf getHdrU hs).1; rw [e]; rfl
    | inr hs => right; have e : buf.take 13 = getHdrL := (startsWith_take buf getHdrL hs).1; rw [e]; rfl

theorem recogSetR_name (h : Nat) (buf key val : Bytes) (total : Nat) (hr : recogSetR h buf = .set key val total) :
    nameIn buf = [83, 69, 84] ∨ nameIn buf = [115, 101, 116] := by
  unfold recogSetR at hr
  split at hr
  · simp at hr
  · rename_i hsw
    simp only [Decidable.not_not, Bool.or_eq_true] at hsw
    rw [nameIn_take]
    cases hsw with
    | inl hs => left; have e : buf.take 13 = setHdrU := (startsWith_take buf setHdrU hs).1; rw [e]; rfl
    | inr hs => right; have e : buf.take 13 = setHdrL := (startsWith_take buf setHdrL hs).1; rw [e]; rfl

/-- a repaired GET recogniser takes a GET frame, declines, or (never: `recogGetR_no_crash`) panics —
    it never answers "need more data" -/
theorem recogGetR_cases (h : Nat) (buf : Bytes) :
    (∃ k t, recogGetR h buf = .get k t) ∨ recogGetR h buf = .notFast := by
  unfold recogGetR
  split
  · exact Or.inr rfl
  · split
    · exact Or.inr rfl
    · simp only []
      split
      · exact Or.inr rfl
      · split
        · exact Or.inr rfl
        · split
          · exact Or.inr rfl
          · split
            · exact Or.inr rfl
            · split
              · exact Or.inr rfl
              · rename_i tot hadd
                have ha := addU2_checked _ _ _ hadd
                split
                · exact Or.inr rfl
                · split
                  · rename_i hsl
                    exfalso
                    rw [slice_some buf _ _ (by omega) (by omega)] at hsl
                    simp at hsl
                  · split
                    · exact Or.inl ⟨_, _, rfl⟩
                    · exact Or.inr rfl

theorem recogSetR_cases (h : Nat) (buf : Bytes) :
    (∃ k v t, recogSetR h buf = .set k v t) ∨ recogSetR h buf = .notFast := by
  unfold recogSetR
  split
  · exact Or.inr rfl
  · split
    · exact Or.inr rfl
    · simp only []
      split
      · exact Or.inr rfl
      · split
        · exact Or.inr rfl
        · split
          · exact Or.inr rfl
          · split
            · exact Or.inr rfl
            · rename_i keyLen _
              split
              · exact Or.inr rfl
              · rename_i keyEnd vls hke
                rename_i kcrlf _ _ _ _ _
                have hke' : keyEnd = h + 1 + kcrlf + 2 + keyLen ∧ vls = keyEnd + 2 ∧ vls < W := by
                  cases h1 : addU true (h + 1 + kcrlf + 2) keyLen with
                  | none => simp [h1] at hke
                  | some e =>
                    cases h2 : addU true e 2 with
                    | none => simp [h1, h2] at hke
                    | some v =>
                      simp [h1, h2] at hke
                      obtain ⟨he, hv⟩ := hke
                      subst he hv
                      have a1 := addU_checked _ _ _ h1
                      have a2 := addU_checked _ _ _ h2
                      exact ⟨a1.1, a2.1, by omega⟩
                by_cases hnm : buf.length ≤ vls
                · rw [if_pos hnm]; exact Or.inr rfl
                · rw [if_neg hnm]
                  by_cases h36 : buf[vls]? ≠ some 36
                  · rw [if_pos h36]; exact Or.inr rfl
                  · rw [if_neg h36]
                    cases hm : memchrCR (buf.drop (vls + 1)) with
                    | none => exact Or.inr rfl
                    | some vcrlf =>
                      simp only []
                      split
                      · exact Or.inr rfl
                      · cases hpu : parseUsize ((buf.drop (vls + 1)).take vcrlf) with
                        | none => exact Or.inr rfl
                        | some valLen =>
                          simp only []
                          cases hadd : (addU true (vls + 1 + vcrlf + 2) valLen).bind (fun e => addU true e 2) with
                          | none => exact Or.inr rfl
                          | some total =>
                            simp only []
                            have ht' := addU2_checked _ _ _ hadd
                            by_cases hlen : buf.length < total
                            · rw [if_pos hlen]; exact Or.inr rfl
                            · rw [if_neg hlen]
                              rw [slice_some buf _ keyEnd (by omega) (by omega)]
                              rw [slice_some buf _ _ (by omega) (by omega)]
                              simp only []
                              split
                              · exact Or.inl ⟨_, _, _, rfl⟩
                              · exact Or.inr rfl

/-- the repaired fast path takes a GET or a SET frame (only outside MULTI), or declines -/
theorem fastPathR_cases (h : Nat) (inTx : Bool) (buf : Bytes) :
    (∃ k t, fastPathR h inTx buf = .get k t ∧ recogGetR h buf = .get k t ∧ inTx = false) ∨
    (∃ k v t, fastPathR h inTx buf = .set k v t ∧ recogSetR h buf = .set k v t ∧ inTx = false) ∨
    fastPathR h inTx buf = .notFast := by
  unfold fastPathR
  cases inTx with
  | true => exact Or.inr (Or.inr rfl)
  | false =>
    simp only [Bool.false_eq_true, if_false]
    split
    · exact Or.inr (Or.inr rfl)
    · cases recogGetR_cases h buf with
      | inl hg =>
        obtain ⟨k, t, hg⟩ := hg
        rw [hg]
        exact Or.inl (by refine ⟨k, t, ?_, ?_, ?_⟩ <;> first | rfl | trivial)
      | inr hg =>
        rw [hg]
        simp only []
        cases recogSetR_cases h buf with
        | inl hs =>
          obtain ⟨k, v, t, hs⟩ := hs
          rw [hs]
          exact Or.inr (Or.inl (by refine ⟨k, v, t, ?_, ?_, ?_⟩ <;> first | rfl | trivial))
        | inr hs =>
          rw [hs]
          exact Or.inr (Or.inr rfl)

/-- the path label of an action erased -/
def Action.noPath : Action → Action
  | .exec f _ => .exec f .generic
  | a => a

/-- the same configuration for a user WITHOUT unrestricted key access: the repaired code enters
    neither the fast path nor the collectors -/
def Config.off (cfg : Config) : Config := { cfg with unrestricted := false }

/-- the repaired code as the fix leaves it: HEADER_LEN = 13, the decoder after its fixes, two decoder
    frames of stack -/
def Repaired13 (cfg : Config) : Prop :=
  cfg.repaired = true ∧ cfg.headerLen = 13 ∧ cfg.codec = codec1 ∧ 2 ≤ cfg.env.depth

theorem Config.off_of_false (cfg : Config) (h : cfg.unrestricted = false) : cfg.off = cfg := by
  cases cfg
  simp only [Config.off] at *
  simp [h]

theorem isWsName_get : isWsName [71, 69, 84] = false ∧ isWsName [103, 101, 116] = false ∧
    isWsName [83, 69, 84] = false ∧ isWsName [115, 101, 116] = false := by decide

theorem seqLoop_transparent (cfg : Config) (hR : Repaired13 cfg) :
    ∀ (f : Nat) (buf : Bytes) (inTx : Bool), Small buf →
      (seqLoop cfg f buf inTx).1.map Action.noPath = (seqLoop cfg.off f buf inTx).1.map Action.noPath ∧
      (seqLoop cfg f buf inTx).2.1 = (seqLoop cfg.off f buf inTx).2.1 ∧
      (seqLoop cfg f buf inTx).2.2.1 = (seqLoop cfg.off f buf inTx).2.2.1 ∧
      (seqLoop cfg f buf inTx).2.2.2 = (seqLoop cfg.off f buf inTx).2.2.2 := by
  obtain ⟨hrep, h13, hcodec, hdepth⟩ := hR
  intro f
  induction f with
  | zero => intro buf inTx _; simp [seqLoop]
  | succ f ih =>
    intro buf inTx hs
    cases hu : cfg.unrestricted with
    | false => rw [Config.off_of_false cfg hu]; exact ⟨rfl, rfl, rfl, rfl⟩
    | true =>
      have hoff : fastPathC cfg.off inTx buf = .notFast := by simp [fastPathC, Config.off]
      have hon : fastPathC cfg inTx buf = fastPathR 13 inTx buf := by simp [fastPathC, hu, hrep, h13]
      have hc : cfg.off.codec = codec1 := by simp [Config.off, hcodec]
      have he : cfg.off.env = cfg.env := rfl
      have hg : cfg.off.nameGuard = cfg.nameGuard := rfl
      rw [seqLoop, seqLoop, hoff, hon, hc, he, hg, hcodec]
      simp only []
      rcases fastPathR_cases 13 inTx buf with ⟨k, t, hfp, hrg, htx⟩ | ⟨k, v, t, hfp, hrs, htx⟩ | hnf
      · -- the fast path took a GET
        obtain ⟨hp, ht14, htl, _⟩ := recogGetR_sound cfg.env hdepth buf k t hs hrg
        have hp' : (parseG codec1 cfg.env buf).out = .ok (getFrameN buf k) t := hp
        rw [hfp, hp']
        subst htx
        have hnp : namePanics cfg.nameGuard false (getFrameN buf k) = false := by
          unfold namePanics getFrameN
          rcases recogGetR_name 13 buf k t hrg with hn | hn <;> rw [hn] <;> simp [isWsName_get]
        have htxa : txAfter false (getFrameN buf k) = false := by
          rcases recogGetR_name 13 buf k t hrg with hn | hn <;>
            simp [txAfter, cmdName, getFrameN, hn, upper, nameMULTI]
        simp only [hnp, htxa, Bool.false_eq_true, if_false]
        have := ih (buf.drop t) false (hs.drop t)
        have hfr : getFrameC cfg buf k = getFrameN buf k := by simp [getFrameC, hrep]
        rw [hfr]
        refine ⟨?_, this.2.1, this.2.2.1, this.2.2.2⟩
        simp only [List.map_cons, Action.noPath, this.1]
      · -- the fast path took a SET
        obtain ⟨hp, ht14, htl, _⟩ := recogSetR_sound cfg.env hdepth buf k v t hs hrs
        have hp' : (parseG codec1 cfg.env buf).out = .ok (setFrameN buf k v) t := hp
        rw [hfp, hp']
        subst htx
        have hnp : namePanics cfg.nameGuard false (setFrameN buf k v) = false := by
          unfold namePanics setFrameN
          rcases recogSetR_name 13 buf k v t hrs with hn | hn <;> rw [hn] <;> simp [isWsName_get]
        have htxa : txAfter false (setFrameN buf k v) = false := by
          rcases recogSetR_name 13 buf k v t hrs with hn | hn <;>
            simp [txAfter, cmdName, setFrameN, hn, upper, nameMULTI]
        simp only [hnp, htxa, Bool.false_eq_true, if_false]
        have := ih (buf.drop t) false (hs.drop t)
        have hfr : setFrameC cfg buf k v = setFrameN buf k v := by simp [setFrameC, hrep]
        rw [hfr]
        refine ⟨?_, this.2.1, this.2.2.1, this.2.2.2⟩
        simp only [List.map_cons, Action.noPath, this.1]
      · -- the fast path declined: both go the generic way
        rw [hnf]
        simp only []
        cases hout : (parseG codec1 cfg.env buf).out with
        | ok v k =>
          simp only []
          split
          · exact ⟨rfl, rfl, rfl, rfl⟩
          · have := ih (buf.drop k) (txAfter inTx v) (hs.drop k)
            refine ⟨?_, this.2.1, this.2.2.1, this.2.2.2⟩
            simp only [List.map_cons, Action.noPath, this.1]
        | incomplete _ => exact ⟨rfl, rfl, rfl, rfl⟩
        | error _ => exact ⟨rfl, rfl, rfl, rfl⟩
        | crash _ => exact ⟨rfl, rfl, rfl, rfl⟩
/-- with the recognisers off every step of the loop consumes at least one byte: fuel beyond the
    length of the buffer is never used -/
theorem seqLoop_off_fuel (cfg : Config) (hu : cfg.unrestricted = false) (hcodec : cfg.codec = codec1) :
    ∀ (f f' : Nat) (buf : Bytes) (inTx : Bool), Small buf → buf.length < f → buf.length < f' →
      seqLoop cfg f buf inTx = seqLoop cfg f' buf inTx := by
  intro f
  induction f with
  | zero => intro f' buf inTx _ h; omega
  | succ f ih =>
    intro f' buf inTx hs hf hf'
    cases f' with
    | zero => omega
    | succ f' =>
      have hfp : fastPathC cfg inTx buf = .notFast := by simp [fastPathC, hu]
      rw [seqLoop, seqLoop, hfp, hcodec]
      simp only []
      cases hout : (parseG codec1 cfg.env buf).out with
      | ok v k =>
        simp only []
        have hc := parseD_consumed codec1 codec1_good cfg.env.mem cfg.env.depth 0 buf hs v k hout
        split
        · rfl
        · rw [ih f' (buf.drop k) (txAfter inTx v) (hs.drop k) (by simp; omega) (by simp; omega)]
      | incomplete _ => rfl
      | error _ => rfl
      | crash _ => rfl

/-- what the repaired GET collector consumes is what the loop with the recognisers off executes
    first, frame by frame, on the generic path -/
theorem collectGetR_off (cfg : Config) (hR : Repaired13 cfg) :
    ∀ (cf : Nat) (buf : Bytes) (gets : List Val) (b1 : Bytes) (F : Nat), Small buf → buf.length < F →
      collectGetR 13 cf buf = some (gets, b1) →
      b1.length ≤ buf.length ∧
      (seqLoop cfg.off F buf false).1 = gets.map (fun g => Action.exec g .generic) ++ (seqLoop cfg.off F b1 false).1 ∧
      (seqLoop cfg.off F buf false).2 = (seqLoop cfg.off F b1 false).2 := by
  obtain ⟨hrep, h13, hcodec, hdepth⟩ := hR
  have hu : cfg.off.unrestricted = false := rfl
  have hc : cfg.off.codec = codec1 := by simp [Config.off, hcodec]
  intro cf
  induction cf with
  | zero =>
    intro buf gets b1 F _ _ h
    simp [collectGetR] at h
    obtain ⟨h1, h2⟩ := h
    subst h1 h2
    simp
  | succ cf ih =>
    intro buf gets b1 F hs hF h
    rw [collectGetR] at h
    rcases recogGetR_cases 13 buf with ⟨k, t, hg⟩ | hg
    · rw [hg] at h
      simp only [] at h
      obtain ⟨ks, r, e1, e2⟩ := collectGetR_ok 13 cf (buf.drop t)
      rw [e1] at h
      simp at h
      obtain ⟨h1, h2⟩ := h
      subst h1 h2
      obtain ⟨hp, ht14, htl, _⟩ := recogGetR_sound cfg.env hdepth buf k t hs hg
      have hp' : (parseG codec1 cfg.off.env buf).out = .ok (getFrameN buf k) t := hp
      have hnp : namePanics cfg.off.nameGuard false (getFrameN buf k) = false := by
        unfold namePanics getFrameN
        rcases recogGetR_name 13 buf k t hg with hn | hn <;> rw [hn] <;> simp [isWsName_get]
      have htxa : txAfter false (getFrameN buf k) = false := by
        rcases recogGetR_name 13 buf k t hg with hn | hn <;>
          simp [txAfter, cmdName, getFrameN, hn, upper, nameMULTI]
      have hfp : fastPathC cfg.off false buf = .notFast := by simp [fastPathC, Config.off]
      have hdl : (buf.drop t).length < F := by simp; omega
      obtain ⟨i1, i2, i3⟩ := ih (buf.drop t) ks r F (hs.drop t) hdl e1
      cases F with
      | zero => omega
      | succ F' =>
        have hstep : seqLoop cfg.off (F' + 1) buf false =
            (Action.exec (getFrameN buf k) .generic :: (seqLoop cfg.off F' (buf.drop t) false).1,
             (seqLoop cfg.off F' (buf.drop t) false).2) := by
          rw [seqLoop, hfp, hc, hp']
          simp only [hnp, htxa, Bool.false_eq_true, if_false]
        have hfuel := seqLoop_off_fuel cfg.off hu hc F' (F' + 1) (buf.drop t) false (hs.drop t)
          (by simp; omega) (by simp; omega)
        rw [hstep, hfuel]
        refine ⟨by simp at e2; omega, ?_, ?_⟩
        · simp only [List.map_cons, List.cons_append, i2]
        · exact i3
    · rw [hg] at h
      simp at h
      obtain ⟨h1, h2⟩ := h
      subst h1 h2
      simp

/-- what the repaired SET collector consumes is what the loop with the recognisers off executes
    first, frame by frame, on the generic path -/
theorem collectSetR_off (cfg : Config) (hR : Repaired13 cfg) :
    ∀ (cf : Nat) (buf : Bytes) (sets : List Val) (b1 : Bytes) (F : Nat), Small buf → buf.length < F →
      collectSetR 13 cf buf = some (sets, b1) →
      b1.length ≤ buf.length ∧
      (seqLoop cfg.off F buf false).1 = sets.map (fun g => Action.exec g .generic) ++ (seqLoop cfg.off F b1 false).1 ∧
      (seqLoop cfg.off F buf false).2 = (seqLoop cfg.off F b1 false).2 := by
  obtain ⟨hrep, h13, hcodec, hdepth⟩ := hR
  have hu : cfg.off.unrestricted = false := rfl
  have hc : cfg.off.codec = codec1 := by simp [Config.off, hcodec]
  intro cf
  induction cf with
  | zero =>
    intro buf sets b1 F _ _ h
    simp [collectSetR] at h
    obtain ⟨h1, h2⟩ := h
    subst h1 h2
    simp
  | succ cf ih =>
    intro buf sets b1 F hs hF h
    rw [collectSetR] at h
    rcases recogSetR_cases 13 buf with ⟨k, v, t, hg⟩ | hg
    · rw [hg] at h
      simp only [] at h
      obtain ⟨ks, r, e1, e2⟩ := collectSetR_ok 13 cf (buf.drop t)
      rw [e1] at h
      simp at h
      obtain ⟨h1, h2⟩ := h
      subst h1 h2
      obtain ⟨hp, ht14, htl, _⟩ := recogSetR_sound cfg.env hdepth buf k v t hs hg
      have hp' : (parseG codec1 cfg.off.env buf).out = .ok (setFrameN buf k v) t := hp
      have hnp : namePanics cfg.off.nameGuard false (setFrameN buf k v) = false := by
        unfold namePanics setFrameN
        rcases recogSetR_name 13 buf k v t hg with hn | hn <;> rw [hn] <;> simp [isWsName_get]
      have htxa : txAfter false (setFrameN buf k v) = false := by
        rcases recogSetR_name 13 buf k v t hg with hn | hn <;>
          simp [txAfter, cmdName, setFrameN, hn, upper, nameMULTI]
      have hfp : fastPathC cfg.off false buf = .notFast := by simp [fastPathC, Config.off]
      have hdl : (buf.drop t).length < F := by simp; omega
      obtain ⟨i1, i2, i3⟩ := ih (buf.drop t) ks r F (hs.drop t) hdl e1
      cases F with
      | zero => omega
      | succ F' =>
        have hstep : seqLoop cfg.off (F' + 1) buf false =
            (Action.exec (setFrameN buf k v) .generic :: (seqLoop cfg.off F' (buf.drop t) false).1,
             (seqLoop cfg.off F' (buf.drop t) false).2) := by
          rw [seqLoop, hfp, hc, hp']
          simp only [hnp, htxa, Bool.false_eq_true, if_false]
        have hfuel := seqLoop_off_fuel cfg.off hu hc F' (F' + 1) (buf.drop t) false (hs.drop t)
          (by simp; omega) (by simp; omega)
        rw [hstep, hfuel]
        refine ⟨by simp at e2; omega, ?_, ?_⟩
        · simp only [List.map_cons, List.cons_append, i2]
        · exact i3
    · rw [hg] at h
      simp at h
      obtain ⟨h1, h2⟩ := h
      subst h1 h2
      simp

theorem noPath_batchActs (cfg : Config) (hrep : cfg.repaired = true) (fs : List Val) :
    (batchActs cfg fs).map Action.noPath = fs.map (fun g => Action.exec g .generic) := by
  unfold batchActs
  split
  · simp [Action.noPath, Function.comp_def]
  · simp [hrep, Action.noPath, Function.comp_def]

theorem noPath_execGeneric (fs : List Val) :
    (fs.map (fun g => Action.exec g .generic)).map Action.noPath = fs.map (fun g => Action.exec g .generic) := by
  simp [Action.noPath, Function.comp_def]

/-- ONE READ: the repaired code does what it does with the recognisers off, up to the path label -/
theorem onRead_transparent (cfg : Config) (hR : Repaired13 cfg) (hmax : cfg.maxBuffer < 72057594037927936)
    (st : St) (chunk : Bytes) :
    (onRead cfg st chunk).1 = (onRead cfg.off st chunk).1 ∧
    (onRead cfg st chunk).2.map Action.noPath = (onRead cfg.off st chunk).2.map Action.noPath := by
  have hR' := hR
  obtain ⟨hrep, h13, hcodec, hdepth⟩ := hR
  have hmb : cfg.off.maxBuffer = cfg.maxBuffer := rfl
  unfold onRead
  rw [hmb]
  split
  · exact ⟨rfl, rfl⟩
  · split
    · exact ⟨rfl, rfl⟩
    · rename_i hnov
      simp only []
      have hs : Small (st.buf ++ chunk) := by unfold Small; simp; omega
      have hoffgate : batchGate cfg.off st.inTx ((st.buf ++ chunk).length + 1) (st.buf ++ chunk) = some ([], st.buf ++ chunk) := by
        unfold batchGate
        simp [Config.off, hrep]
      rw [hoffgate]
      simp only [List.nil_append]
      have hseq := seqLoop_transparent cfg hR'
      by_cases hgate : (st.buf ++ chunk).length ≥ cfg.minPipeline ∧ ¬ st.inTx = true ∧ (cfg.repaired = true → cfg.unrestricted = true)
      · -- the collectors run
        have htx : st.inTx = false := by simpa using hgate.2.1
        obtain ⟨gets, b1, eg, egl⟩ := collectGetR_ok 13 ((st.buf ++ chunk).length + 1) (st.buf ++ chunk)
        obtain ⟨g1, g2, g3⟩ := collectGetR_off cfg hR' _ _ gets b1 ((st.buf ++ chunk).length + 1) hs (by omega) eg
        have hsb1 : Small b1 := by unfold Small at *; omega
        by_cases hmp : b1.length ≥ cfg.minPipeline
        · obtain ⟨sets, b2, es, esl⟩ := collectSetR_ok 13 ((st.buf ++ chunk).length + 1) b1
          obtain ⟨s1, s2, s3⟩ := collectSetR_off cfg hR' _ _ sets b2 ((st.buf ++ chunk).length + 1) hsb1 (by omega) es
          have hsb2 : Small b2 := by unfold Small at *; omega
          have hg : batchGate cfg st.inTx ((st.buf ++ chunk).length + 1) (st.buf ++ chunk) =
              some (batchActs cfg gets ++ batchActs cfg sets, b2) := by
            unfold batchGate collectGetC collectSetC
            rw [if_pos hgate]
            simp only [hrep, h13, if_true, eg, hmp, es]
          rw [hg]
          simp only []
          have ht := hseq ((st.buf ++ chunk).length + 1) b2 st.inTx hsb2
          rw [htx] at ht ⊢
          have g31 := congrArg (fun x => x.1) g3
          have g32 := congrArg (fun x => x.2.1) g3
          have g33 := congrArg (fun x => x.2.2) g3
          have s31 := congrArg (fun x => x.1) s3
          have s32 := congrArg (fun x => x.2.1) s3
          have s33 := congrArg (fun x => x.2.2) s3
          refine ⟨?_, ?_⟩
          · rw [g31, g32, g33, s31, s32, s33, ht.2.1, ht.2.2.1, ht.2.2.2]
          · rw [g2, s2]
            simp only [List.map_append, noPath_batchActs cfg hrep, noPath_execGeneric, ht.1, List.append_assoc]
        · -- too little left for the SET collector
          have hg : batchGate cfg st.inTx ((st.buf ++ chunk).length + 1) (st.buf ++ chunk) =
              some (batchActs cfg gets, b1) := by
            unfold batchGate collectGetC
            rw [if_pos hgate]
            simp only [hrep, h13, if_true, eg, hmp, if_false]
          rw [hg]
          simp only []
          have ht := hseq ((st.buf ++ chunk).length + 1) b1 st.inTx hsb1
          rw [htx] at ht ⊢
          have g31 := congrArg (fun x => x.1) g3
          have g32 := congrArg (fun x => x.2.1) g3
          have g33 := congrArg (fun x => x.2.2) g3
          refine ⟨?_, ?_⟩
          · rw [g31, g32, g33, ht.2.1, ht.2.2.1, ht.2.2.2]
          · rw [g2]
            simp only [List.map_append, noPath_batchActs cfg hrep, noPath_execGeneric, ht.1]
      · -- the gate is closed
        have hg : batchGate cfg st.inTx ((st.buf ++ chunk).length + 1) (st.buf ++ chunk) = some ([], st.buf ++ chunk) := by
          unfold batchGate
          rw [if_neg hgate]
        rw [hg]
        simp only [List.nil_append]
        have ht := hseq ((st.buf ++ chunk).length + 1) (st.buf ++ chunk) st.inTx hs
        exact ⟨by rw [ht.2.1, ht.2.2.1, ht.2.2.2], ht.1⟩
theorem reads_transparent (cfg : Config) (hR : Repaired13 cfg) (hmax : cfg.maxBuffer < 72057594037927936) :
    ∀ (chunks : List Bytes) (st : St) (acts acts' : List Action), acts.map Action.noPath = acts'.map Action.noPath →
      (chunks.foldl (fun (acc : St × List Action) c => let (s', a) := onRead cfg acc.1 c; (s', acc.2 ++ a)) (st, acts)).1 =
      (chunks.foldl (fun (acc : St × List Action) c => let (s', a) := onRead cfg.off acc.1 c; (s', acc.2 ++ a)) (st, acts')).1 ∧
      (chunks.foldl (fun (acc : St × List Action) c => let (s', a) := onRead cfg acc.1 c; (s', acc.2 ++ a)) (st, acts)).2.map Action.noPath =
      (chunks.foldl (fun (acc : St × List Action) c => let (s', a) := onRead cfg.off acc.1 c; (s', acc.2 ++ a)) (st, acts')).2.map Action.noPath := by
  intro chunks
  induction chunks with
  | nil => intro st acts acts' h; exact ⟨rfl, h⟩
  | cons c cs ih =>
    intro st acts acts' h
    simp only [List.foldl_cons]
    obtain ⟨t1, t2⟩ := onRead_transparent cfg hR hmax st c
    rw [t1]
    exact ih _ _ _ (by simp only [List.map_append, h, t2])

/-- TRANSPARENCY: for EVERY byte stream in EVERY segmentation the repaired connection (HEADER_LEN = 13,
    strict recognisers, collected commands always executed) does exactly what it does with the
    recognisers switched off — the same frames, in the same order, the same protocol errors — up to
    the label of the path that carried a frame -/
theorem run_transparent (cfg : Config) (hR : Repaired13 cfg) (hmax : cfg.maxBuffer < 72057594037927936) (segs : List Bytes) :
    (run cfg segs).map Action.noPath = (run cfg.off segs).map Action.noPath := by
  unfold run feedSegs
  have hrs : cfg.off.readSize = cfg.readSize := rfl
  rw [hrs]
  exact (reads_transparent cfg hR hmax _ St.init [] [] rfl).2
theorem seqLoop_noDropped (cfg : Config) : ∀ (f : Nat) (buf : Bytes) (inTx : Bool),
    ∀ a ∈ (seqLoop cfg f buf inTx).1, a.isDropped = false := by
  intro f
  induction f with
  | zero => intro buf inTx a ha; simp [seqLoop] at ha
  | succ f ih =>
    intro buf inTx a ha
    rw [seqLoop] at ha
    cases hfp : fastPathC cfg inTx buf with
    | get k t =>
      rw [hfp] at ha
      simp only [List.mem_cons] at ha
      cases ha with
      | inl h => rw [h]; rfl
      | inr h => exact ih _ _ a h
    | set k v t =>
      rw [hfp] at ha
      simp only [List.mem_cons] at ha
      cases ha with
      | inl h => rw [h]; rfl
      | inr h => exact ih _ _ a h
    | needMore => rw [hfp] at ha; simp at ha
    | crash => rw [hfp] at ha; simp at ha; rw [ha]; rfl
    | notFast =>
      rw [hfp] at ha
      simp only [] at ha
      cases hout : (parseG cfg.codec cfg.env buf).out with
      | ok v k =>
        rw [hout] at ha
        simp only [] at ha
        split at ha
        · simp at ha; rw [ha]; rfl
        · simp only [List.mem_cons] at ha
          cases ha with
          | inl h => rw [h]; rfl
          | inr h => exact ih _ _ a h
      | incomplete _ => rw [hout] at ha; simp at ha
      | error _ => rw [hout] at ha; simp at ha; rw [ha]; rfl
      | crash _ => rw [hout] at ha; simp at ha; rw [ha]; rfl

theorem batchActs_noDropped (cfg : Config) (hrep : cfg.repaired = true) (fs : List Val) :
    ∀ a ∈ batchActs cfg fs, a.isDropped = false := by
  intro a ha
  unfold batchActs at ha
  split at ha
  · simp at ha; obtain ⟨g, _, hg⟩ := ha; rw [← hg]; rfl
  · simp [hrep] at ha; obtain ⟨g, _, hg⟩ := ha; rw [← hg]; rfl

theorem onRead_noDropped (cfg : Config) (hrep : cfg.repaired = true) (st : St) (chunk : Bytes) :
    ∀ a ∈ (onRead cfg st chunk).2, a.isDropped = false := by
  intro a ha
  unfold onRead at ha
  split at ha
  · simp at ha
  · split at ha
    · simp at ha; rw [ha]; rfl
    · simp only [] at ha
      cases hg : batchGate cfg st.inTx ((st.buf ++ chunk).length + 1) (st.buf ++ chunk) with
      | none => rw [hg] at ha; simp at ha; rw [ha]; rfl
      | some ab =>
        obtain ⟨acts, b⟩ := ab
        rw [hg] at ha
        simp only [List.mem_append] at ha
        cases ha with
        | inr h => exact seqLoop_noDropped cfg _ _ _ a h
        | inl h =>
          unfold batchGate at hg
          split at hg
          · cases h1 : collectGetC cfg ((st.buf ++ chunk).length + 1) (st.buf ++ chunk) with
            | none => rw [h1] at hg; simp at hg
            | some gb =>
              obtain ⟨gets, b1⟩ := gb
              rw [h1] at hg
              simp only [] at hg
              split at hg
              · cases h2 : collectSetC cfg ((st.buf ++ chunk).length + 1) b1 with
                | none => rw [h2] at hg; simp at hg
                | some sb =>
                  obtain ⟨sets, b2⟩ := sb
                  rw [h2] at hg
                  simp at hg
                  rw [← hg.1] at h
                  simp only [List.mem_append] at h
                  cases h with
                  | inl h => exact batchActs_noDropped cfg hrep _ a h
                  | inr h => exact batchActs_noDropped cfg hrep _ a h
              · simp at hg
                rw [← hg.1] at h
                exact batchActs_noDropped cfg hrep _ a h
          · simp at hg
            rw [hg.1] at h
            simp at h

theorem run_noDropped (cfg : Config) (hrep : cfg.repaired = true) (segs : List Bytes) :
    ∀ a ∈ run cfg segs, a.isDropped = false := by
  unfold run feedSegs
  generalize (segs.flatMap (fun s => splitReads cfg.readSize s.length s)) = chunks
  have : ∀ (chunks : List Bytes) (st : St) (acts : List Action), (∀ a ∈ acts, a.isDropped = false) →
      ∀ a ∈ (chunks.foldl (fun (acc : St × List Action) c => let (s', a) := onRead cfg acc.1 c; (s', acc.2 ++ a)) (st, acts)).2,
        a.isDropped = false := by
    intro chunks
    induction chunks with
    | nil => intro st acts h; simpa using h
    | cons c cs ih =>
      intro st acts h
      simp only [List.foldl_cons]
      apply ih
      intro a ha
      simp only [List.mem_append] at ha
      cases ha with
      | inl ha => exact h a ha
      | inr ha => exact onRead_noDropped cfg hrep st c a ha
  exact this chunks St.init [] (by simp)

theorem noPath_execAll (cmds : List Cmd) : (execAll cmds).map Action.noPath = execAll cmds := by
  simp [execAll, Action.noPath, Function.comp_def]

theorem replies_noPath : ∀ (acts : List Action) (s : ExSt), replies s (acts.map Action.noPath) = replies s acts := by
  intro acts
  induction acts with
  | nil => intro s; rfl
  | cons a as ih =>
    intro s
    cases a <;> simp [Action.noPath, replies, ih]

theorem hasCrash_noPath : ∀ (acts : List Action), hasCrash (acts.map Action.noPath) = hasCrash acts := by
  intro acts
  induction acts with
  | nil => rfl
  | cons a as ih => cases a <;> simp [Action.noPath, hasCrash, ih]

theorem DeadCfg.off (cfg : Config) (hrep : cfg.repaired = true) : DeadCfg cfg.off :=
  DeadCfg.ofOff ⟨hrep, rfl⟩

end RedisVerif.Conn
