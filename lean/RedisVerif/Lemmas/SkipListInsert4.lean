import RedisVerif.Lemmas.SkipListInsert3
namespace RedisVerif.SkipList
open RedisVerif RedisVerif.Redis

theorem distTo_all_small {j : Nat} {T : List Tower} (h : ∀ t ∈ T, t.ht ≤ j) : distTo j T = T.length := by
  have := distTo_append_small h []
  simpa [distTo] using this

/-- reading `update[j]`'s slot on a list whose spans are right -/
theorem spanAt_isUpd {sl : SL} {L c j u : Nat} (hs : Spans sl L) (hj : j < L)
    (hu : IsUpd sl.towers c j u) : spanAt sl u j = some (distTo j (sl.towers.drop u)) := by
  apply spanAt_ok hs
  rcases hu.2.1 with rfl | ⟨t, ht, hlt⟩
  · exact Or.inl ⟨rfl, hj⟩
  · by_cases h0 : u = 0
    · subst h0; exact Or.inl ⟨rfl, hj⟩
    · exact Or.inr ⟨by omega, t, ht, hlt⟩

theorem dist_isUpd {T : List Tower} {c j u : Nat} (hc : c ≤ T.length) (hu : IsUpd T c j u) :
    distTo j (T.drop u) = (c - u) + distTo j (T.drop c) := by
  have eT : T.drop u = (T.take c).drop u ++ T.drop c := by
    conv => lhs; rw [← List.take_append_drop c T]
    rw [List.drop_append_of_le_length (by simp; have := hu.1; omega)]
  rw [eT, distTo_append_small (all_small_of_isUpd hu)]
  simp; have := hu.1; omega

/-- the part of `insert_internal` after the level was drawn and the header / arrays extended -/
def insertTail (sl : SL) (m : BS) (sc : Score) (h : Nat) (ur : List (Nat × Nat)) : Option SL :=
  match slot ur 0 with
  | none => none
  | some (u0, r0) =>
    match linkLevels r0 (ur.take h) 0 sl with
    | none => none
    | some (sl, sp) =>
      match bumpLevels ((ur.take sl.level).drop h) h sl with
      | none => none
      | some sl =>
        some { sl with towers := insertAt ⟨m, sc, sp⟩ sl.towers u0, length := sl.length + 1 }

theorem insertInternal_eq (lv : LevelGen) (sl : SL) (m : BS) (sc : Score) (ur : List (Nat × Nat)) :
    insertInternal lv sl m sc ur =
      if (lv sl.rng).1 = 0 ∨ (lv sl.rng).1 > maxLevel then none
      else if (lv sl.rng).1 > sl.level then
        insertTail { sl with rng := (lv sl.rng).2,
                             hdr := initHdr sl.hdr sl.length sl.level ((lv sl.rng).1 - sl.level),
                             level := (lv sl.rng).1 } m sc (lv sl.rng).1 (resetSlots ur sl.level (lv sl.rng).1)
      else insertTail { sl with rng := (lv sl.rng).2 } m sc (lv sl.rng).1 ur := by
  unfold insertInternal insertTail
  simp only
  by_cases h1 : (lv sl.rng).1 = 0 ∨ (lv sl.rng).1 > maxLevel
  · rw [if_pos h1, if_pos h1]
  · rw [if_neg h1, if_neg h1]
    by_cases h2 : (lv sl.rng).1 > sl.level
    · simp only [h2, if_true]; rfl
    · simp only [h2, if_false]; rfl

theorem length_insertAt {α : Type} (x : α) (l : List α) (c : Nat) (h : c ≤ l.length) :
    (insertAt x l c).length = l.length + 1 := by
  rw [insertAt_eq x l c h]; simp; omega

theorem map_insertAt {α β : Type} (f : α → β) (x : α) (l : List α) (c : Nat) (h : c ≤ l.length) :
    (insertAt x l c).map f = insertAt (f x) (l.map f) c := by
  rw [insertAt_eq x l c h, insertAt_eq (f x) (l.map f) c (by simpa using h)]
  simp [List.map_take, List.map_drop]

theorem insertTail_spec {sl0 : SL} {m : BS} {sc : Score} {h c : Nat} {ur : List (Nat × Nat)}
    (hs : Spans sl0 sl0.level) (hh1 : 1 ≤ h) (hhL : h ≤ sl0.level)
    (htight : sl0.level = 1 ∨ h = sl0.level ∨ ∃ t ∈ sl0.towers, t.ht = sl0.level)
    (hlen0 : sl0.length = sl0.towers.length)
    (hsorted : sl0.towers.Pairwise (fun a b => zLt a.key b.key = true))
    (hc : c ≤ sl0.towers.length)
    (hur : ∀ j, j < sl0.level → ∃ u, ur[j]? = some (u, u) ∧ IsUpd sl0.towers c j u)
    (hbelow : ∀ k t, sl0.towers[k]? = some t → k < c → zLt t.key (m, sc) = true)
    (habove : ∀ k t, sl0.towers[k]? = some t → c ≤ k → zLt (m, sc) t.key = true) :
    ∃ sl', insertTail sl0 m sc h ur = some sl' ∧ Wf sl' ∧
      sl'.towers.map Tower.key = insertAt (m, sc) (sl0.towers.map Tower.key) c ∧
      sl'.rng = sl0.rng := by
  have hL32 := hs.L_le
  -- the abstract `update[]`
  let us : Nat → Nat := fun j => ((ur[j]?).getD (0, 0)).1
  have hus : ∀ j, j < sl0.level → ur[j]? = some (us j, us j) ∧ IsUpd sl0.towers c j (us j) := by
    intro j hj
    obtain ⟨u, hu, hupd⟩ := hur j hj
    have : us j = u := by simp [us, hu]
    rw [this]; exact ⟨hu, hupd⟩
  have hus0 : us 0 = c :=
    isUpd_zero hc (fun t ht => (hs.hts t ht).1) (hus 0 (by omega)).2
  have hslot : slot ur 0 = some (c, c) := by
    have := (hus 0 (by omega)).1; rw [hus0] at this; exact this
  -- first loop
  have hok1 : ∀ k u r, (ur.take h)[k]? = some (u, r) → (fLink c sl0 u r (0 + k)).isSome := by
    intro k u r hk
    rw [List.getElem?_take] at hk
    split at hk
    · rename_i hkh
      have hj : k < sl0.level := by omega
      have := (hus k hj).1
      rw [this] at hk
      simp only [Option.some.injEq, Prod.mk.injEq] at hk
      obtain ⟨rfl, rfl⟩ := hk
      have hupd := (hus k hj).2
      simp only [fLink, Nat.zero_add, spanAt_isUpd hs hj hupd]
      rw [if_neg (by have := hupd.1; have := dist_isUpd hc hupd; omega)]
      rfl
    · cases hk
  obtain ⟨sl1, hsl1, hsame1, hsp1⟩ := perLevel_spec (fLink c) (fLink_cong c) (ur.take h) 0 sl0 hok1
  have hlvl1 : sl1.level = sl0.level := hsame1.level
  -- level `j` of the state after the first loop
  have hsp1' : ∀ q j, spanAt sl1 q j =
      if j < h then (if q = us j then (spanAt sl0 q j).map (fun _ => c - q + 1) else spanAt sl0 q j)
      else spanAt sl0 q j := by
    intro q j
    rw [hsp1 q j]
    by_cases hjh : j < h
    · have hj : j < sl0.level := by omega
      have he : lvlEntry (ur.take h) 0 j = some (us j, us j) := by
        simp only [lvlEntry, Nat.zero_le, if_true, Nat.sub_zero, List.getElem?_take, hjh]
        exact (hus j hj).1
      have hupd := (hus j hj).2
      have hf : fLink c sl0 (us j) (us j) j = some (c - us j + 1) := by
        simp only [fLink, spanAt_isUpd hs hj hupd]
        rw [if_neg (by have := hupd.1; have := dist_isUpd hc hupd; omega)]
      rw [he, if_pos hjh]
      simp only [hf, Option.getD_some, spanAt_setSpan, and_true]
      by_cases hq : q = us j
      · rw [if_pos hq, if_pos hq, hq]
      · rw [if_neg hq, if_neg hq]
    · have he : lvlEntry (ur.take h) 0 j = none := by
        simp only [lvlEntry, Nat.zero_le, if_true, Nat.sub_zero, List.getElem?_take, hjh, if_false]
      rw [he, if_neg hjh]
  -- second loop
  have hok2 : ∀ k u r, ((ur.take sl1.level).drop h)[k]? = some (u, r) → (fBump sl1 u r (h + k)).isSome := by
    intro k u r hk
    rw [List.getElem?_drop, List.getElem?_take, hlvl1] at hk
    split at hk
    · rename_i hj
      have := (hus (h + k) hj).1
      rw [this] at hk
      simp only [Option.some.injEq, Prod.mk.injEq] at hk
      obtain ⟨rfl, rfl⟩ := hk
      simp only [fBump, hsp1' (us (h + k)) (h + k)]
      rw [if_neg (by omega), spanAt_isUpd hs hj (hus (h + k) hj).2]
      rfl
    · cases hk
  obtain ⟨sl2, hsl2, hsame2, hsp2⟩ :=
    perLevel_spec fBump fBump_cong ((ur.take sl1.level).drop h) h sl1 hok2
  have hsame := hsame1.trans hsame2
  -- level `j` of the state after both loops
  have hsp : ∀ q j, j < sl0.level → spanAt sl2 q j =
      if q = us j then (spanAt sl0 q j).map (fun _ => if j < h then c - q + 1 else distTo j (sl0.towers.drop q) + 1)
      else spanAt sl0 q j := by
    intro q j hj
    rw [hsp2 q j]
    by_cases hjh : j < h
    · have he : lvlEntry ((ur.take sl1.level).drop h) h j = none := by
        simp only [lvlEntry]; rw [if_neg (by omega)]
      rw [he, hsp1' q j, if_pos hjh]
      by_cases hq : q = us j
      · rw [if_pos hq, if_pos hq]; simp only [hjh, if_true]
      · rw [if_neg hq, if_neg hq]
    · have he : lvlEntry ((ur.take sl1.level).drop h) h j = some (us j, us j) := by
        simp only [lvlEntry]
        rw [if_pos (by omega), List.getElem?_drop, List.getElem?_take, hlvl1]
        have : h + (j - h) = j := by omega
        rw [this, if_pos hj]
        exact (hus j hj).1
      have hupd := (hus j hj).2
      have hf : fBump sl1 (us j) (us j) j = some (distTo j (sl0.towers.drop (us j)) + 1) := by
        simp only [fBump, hsp1' (us j) j]
        rw [if_neg hjh, spanAt_isUpd hs hj hupd]; rfl
      rw [he]
      simp only [hf, Option.getD_some, spanAt_setSpan, and_true, hsp1' q j, hjh, if_false]
      by_cases hq : q = us j
      · rw [if_pos hq, if_pos hq, hq]
      · rw [if_neg hq, if_neg hq]
  -- the new node's spans
  have hnewsp : ∀ j, j < h → (linkSpans c (ur.take h) 0 sl0)[j]? = some (distTo j (sl0.towers.drop c)) := by
    intro j hjh
    have hj : j < sl0.level := by omega
    have hupd := (hus j hj).2
    rw [getElem?_linkSpans c (ur.take h) 0 sl0 j (us j) (us j)
      (by rw [List.getElem?_take, if_pos hjh]; exact (hus j hj).1)]
    simp only [Nat.zero_add, spanAt_isUpd hs hj hupd, Option.getD_some]
    congr 1
    have := dist_isUpd hc hupd; have := hupd.1; omega
  have hurlen : sl0.level ≤ ur.length := by
    have := (hus (sl0.level - 1) (by omega)).1
    have := (List.getElem?_eq_some_iff.mp this).1
    omega
  have hnewlen : (linkSpans c (ur.take h) 0 sl0).length = h := by
    rw [length_linkSpans]; simp; omega
  have hc2 : c ≤ sl2.towers.length := by
    have := congrArg List.length hsame.hts; simp at this; omega
  -- assemble
  refine ⟨{ sl2 with towers := insertAt ⟨m, sc, linkSpans c (ur.take h) 0 sl0⟩ sl2.towers c,
                     length := sl2.length + 1 }, ?_, ?_, ?_, ?_⟩
  · simp only [insertTail, hslot, linkLevels_eq, hsl1, Option.map_some, bumpLevels_eq, hsl2]
  · have hsp' := spans_after_insert (new := ⟨m, sc, linkSpans c (ur.take h) 0 sl0⟩) hs hc
      (fun j hj => (hus j hj).2) hh1 hhL hsame hsp ⟨hnewlen, hnewsp⟩ (sl2.length + 1)
    have hlvl2 : sl2.level = sl0.level := hsame.level
    refine ⟨by simpa [hlvl2] using hsp', by simp only [hlvl2]; omega, ?_, ?_, ?_⟩
    · -- the level is attained
      show sl2.level = 1 ∨ ∃ t ∈ insertAt _ sl2.towers c, t.ht = sl2.level
      rw [hlvl2, insertAt_eq _ _ c hc2]
      rcases htight with h1 | h1 | ⟨t, ht, hht⟩
      · exact Or.inl h1
      · exact Or.inr ⟨⟨m, sc, linkSpans c (ur.take h) 0 sl0⟩,
          List.mem_append_right _ (List.mem_cons_self ..), by show (linkSpans c (ur.take h) 0 sl0).length = _; rw [hnewlen, h1]⟩
      · right
        obtain ⟨k, hk⟩ := List.getElem?_of_mem ht
        have := ht_getElem?_of_map hsame.hts k
        rw [hk] at this
        cases h2 : sl2.towers[k]? with
        | none => rw [h2] at this; simp at this
        | some t2 =>
          rw [h2] at this; simp at this
          have hm : t2 ∈ sl2.towers := List.mem_of_getElem? h2
          rw [← List.take_append_drop c sl2.towers] at hm
          refine ⟨t2, ?_, by omega⟩
          rcases List.mem_append.mp hm with h3 | h3
          · exact List.mem_append_left _ h3
          · exact List.mem_append_right _ (List.mem_cons_of_mem _ h3)
    · show sl2.length + 1 = (insertAt _ sl2.towers c).length
      rw [length_insertAt _ _ _ hc2, hsame.length, hlen0]
      have := congrArg List.length hsame.hts; simp at this; omega
    · -- sorted
      show (insertAt _ sl2.towers c).Pairwise (fun a b => zLt a.key b.key = true)
      have hkeys : (insertAt (⟨m, sc, linkSpans c (ur.take h) 0 sl0⟩ : Tower) sl2.towers c).map Tower.key =
          (sl0.towers.map Tower.key).take c ++ (m, sc) :: (sl0.towers.map Tower.key).drop c := by
        rw [map_insertAt _ _ _ _ hc2, hsame.keys, insertAt_eq _ _ _ (by simpa using hc)]; rfl
      rw [← List.pairwise_map (f := Tower.key) (R := fun a b => zLt a b = true), hkeys]
      have hsk : (sl0.towers.map Tower.key).Pairwise (fun a b => zLt a b = true) :=
        List.pairwise_map.mpr hsorted
      rw [List.pairwise_append]
      refine ⟨hsk.sublist (List.take_sublist _ _), ?_, ?_⟩
      · rw [List.pairwise_cons]
        refine ⟨?_, hsk.sublist (List.drop_sublist _ _)⟩
        intro b hb
        obtain ⟨k, hk⟩ := List.getElem?_of_mem hb
        rw [List.getElem?_drop, List.getElem?_map] at hk
        cases h3 : sl0.towers[c + k]? with
        | none => rw [h3] at hk; simp at hk
        | some t => rw [h3] at hk; simp at hk; rw [← hk]; exact habove (c + k) t h3 (by omega)
      · intro a ha b hb
        obtain ⟨k, hk⟩ := List.getElem?_of_mem ha
        rw [List.getElem?_take, List.getElem?_map] at hk
        split at hk
        · rename_i hkc
          cases h3 : sl0.towers[k]? with
          | none => rw [h3] at hk; simp at hk
          | some t =>
            rw [h3] at hk; simp at hk
            have hat : zLt a (m, sc) = true := by rw [← hk]; exact hbelow k t h3 hkc
            rcases List.mem_cons.mp hb with rfl | hb'
            · exact hat
            · obtain ⟨k', hk'⟩ := List.getElem?_of_mem hb'
              rw [List.getElem?_drop, List.getElem?_map] at hk'
              cases h4 : sl0.towers[c + k']? with
              | none => rw [h4] at hk'; simp at hk'
              | some t' =>
                rw [h4] at hk'; simp at hk'
                rw [← hk']; exact zLt_trans hat (habove (c + k') t' h4 (by omega))
        · cases hk
  · show (insertAt _ sl2.towers c).map Tower.key = _
    rw [map_insertAt _ _ _ _ hc2, hsame.keys]; rfl
  · exact hsame.rng

/-- `insert_internal` on a well-formed list, after a search that found the target's place `c` and
    the target is not in the list: no panic, the structure invariant holds again, the new node sits
    at index `c`, one level was drawn -/
theorem insertInternal_spec {lv : LevelGen} {sl : SL} (hw : Wf sl) (m : BS) (sc : Score)
    (hlv : 1 ≤ (lv sl.rng).1 ∧ (lv sl.rng).1 ≤ maxLevel)
    {ur : List (Nat × Nat)} {c : Nat} (hc : c ≤ sl.towers.length)
    (hlen : ur.length = maxLevel)
    (hur : ∀ j, j < sl.level → ∃ u, ur[j]? = some (u, u) ∧ IsUpd sl.towers c j u)
    (hur0 : ∀ j, sl.level ≤ j → j < maxLevel → ur[j]? = some (0, 0))
    (hbelow : ∀ k t, sl.towers[k]? = some t → k < c → zLt t.key (m, sc) = true)
    (habove : ∀ k t, sl.towers[k]? = some t → c ≤ k → zLt (m, sc) t.key = true) :
    ∃ sl', insertInternal lv sl m sc ur = some sl' ∧ Wf sl' ∧
      sl'.towers.map Tower.key = insertAt (m, sc) (sl.towers.map Tower.key) c ∧
      sl'.rng = (lv sl.rng).2 := by
  obtain ⟨hh1, hh32⟩ := hlv
  have hsp := hw.spans
  rw [insertInternal_eq, if_neg (by omega)]
  by_cases hgt : (lv sl.rng).1 > sl.level
  · rw [if_pos hgt]
    have hsmall : ∀ j, sl.level ≤ j → ∀ t ∈ sl.towers, t.ht ≤ j :=
      fun j hj t ht => by have := (hsp.hts t ht).2; omega
    refine insertTail_spec (sl0 := ⟨initHdr sl.hdr sl.length sl.level ((lv sl.rng).1 - sl.level), sl.towers, (lv sl.rng).1,
        sl.length, (lv sl.rng).2⟩)
      ?_ hh1 (Nat.le_refl _) (Or.inr (Or.inl rfl)) hw.len hw.sorted hc ?_ hbelow habove
    · refine ⟨by simp only [length_initHdr]; exact hsp.hdrLen, hh32, ?_, hsp.tw, ?_⟩
      · intro j hj
        have hj' : j < (lv sl.rng).1 := hj
        show (initHdr sl.hdr sl.length sl.level ((lv sl.rng).1 - sl.level))[j]? = some (distTo j sl.towers)
        rw [getElem?_initHdr]
        by_cases hjl : j < sl.level
        · rw [if_neg (by omega)]; exact hsp.hdr j hjl
        · rw [if_pos ⟨by omega, by omega, by rw [hsp.hdrLen]; omega⟩,
            distTo_all_small (hsmall j (by omega)), hw.len]
      · intro t ht
        have := hsp.hts t ht
        exact ⟨this.1, by show t.ht ≤ (lv sl.rng).1; omega⟩
    · intro j hj
      have hj' : j < (lv sl.rng).1 := hj
      rw [getElem?_resetSlots ur sl.level (lv sl.rng).1 j (by omega) (by omega)]
      by_cases hjl : j < sl.level
      · rw [if_neg (by omega)]; exact hur j hjl
      · rw [if_pos ⟨by omega, hj'⟩]
        exact ⟨0, rfl, Nat.zero_le _, Or.inl rfl, fun q t _ _ hq =>
          hsmall j (by omega) t (List.mem_of_getElem? hq)⟩
  · rw [if_neg hgt]
    refine insertTail_spec (sl0 := ⟨sl.hdr, sl.towers, sl.level, sl.length, (lv sl.rng).2⟩)
      ⟨hsp.hdrLen, hsp.L_le, hsp.hdr, hsp.tw, hsp.hts⟩ hh1 (by show (lv sl.rng).1 ≤ sl.level; omega) ?_
      hw.len hw.sorted hc hur hbelow habove
    rcases hw.tight with h1 | h1
    · exact Or.inl h1
    · exact Or.inr (Or.inr h1)

end RedisVerif.SkipList
