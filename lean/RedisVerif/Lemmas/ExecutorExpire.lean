import RedisVerif.Lemmas.ExecutorKeys

/-! Refinement of EXPIRE / PEXPIRE / EXPIREAT / PEXPIREAT / TTL / PTTL / EXPIRETIME / PEXPIRETIME /
    PERSIST of `Model.Executor` (key_ops.rs) to M7: flag order, deadline arithmetic, rounding. -/
set_option linter.unusedSimpArgs false
set_option linter.unusedVariables false

namespace RedisVerif.Executor
open RedisVerif RedisVerif.Redis

def noFlags : ExpFlags := ⟨false, false, false, false⟩

/-- the flag tests of `execute_expire` / `execute_pexpire` = ¬ M7's `flagsPass`, deadlines shifted by the epoch -/
theorem expireFlagsFail_eq {c : CState} (h : CInv c) (f : ExpFlags) (k : Nat) (newMs : Int) :
    expireFlagsFail f (NMap.get c.exp k) newMs =
      !flagsPass f ((NMap.get c.exp k).map (· + c.epoch)) (newMs + (c.epoch : Int)) := by
  unfold expireFlagsFail flagsPass
  cases hc : NMap.get c.exp k with
  | none => cases f.nx <;> cases f.xx <;> cases f.gt <;> cases f.lt <;> rfl
  | some d =>
    have := h.dlOk k d hc
    have ha : asI64 d = (d : Int) := asI64_small (by omega)
    simp only [Option.map_some, Option.isSome_some, Bool.not_true, Bool.and_false, Bool.or_false,
      Bool.and_true, ha]
    push_cast
    have e1 : decide (newMs ≤ (d : Int)) = decide (newMs + (c.epoch : Int) ≤ (d : Int) + (c.epoch : Int)) := by
      apply decide_eq_decide.mpr; omega
    have e2 : decide (newMs ≥ (d : Int)) = decide (newMs + (c.epoch : Int) ≥ (d : Int) + (c.epoch : Int)) := by
      apply decide_eq_decide.mpr; omega
    rw [e1, e2]
    cases f.nx <;> cases f.gt <;> cases f.lt <;> simp

/-- common tail: flags pass, the signed deadline `whenV` (virtual ms) is known -/
theorem expire_tail {c : CState} (h : CInv c) {k : Nat} {v : Value}
    (hv : NMap.get c.data k = some v) (hx : isExpired c k = false)
    (hg : NMap.get (absP c) k = some ⟨v, (NMap.get c.exp k).map (· + c.epoch)⟩)
    (f : ExpFlags) (whenV : Int)
    (hpass : flagsPass f ((NMap.get c.exp k).map (· + c.epoch)) (whenV + (c.epoch : Int)) = true) :
    (whenV ≤ (c.now : Int) →
      absP (dropKey c k) = purge (expireAt (absP c) (unix c) k (whenV + (c.epoch : Int)) f).1 (unix c) ∧
      (expireAt (absP c) (unix c) k (whenV + (c.epoch : Int)) f).2 = .int 1) ∧
    (¬ whenV ≤ (c.now : Int) →
      absP { c with exp := NMap.insert k whenV.toNat c.exp } =
        purge (expireAt (absP c) (unix c) k (whenV + (c.epoch : Int)) f).1 (unix c) ∧
      (expireAt (absP c) (unix c) k (whenV + (c.epoch : Int)) f).2 = .int 1) := by
  have hu : ((unix c : Nat) : Int) = (c.epoch : Int) + (c.now : Int) := by simp [unix]
  constructor
  · intro hle
    have hle' : whenV + (c.epoch : Int) ≤ ((unix c : Nat) : Int) := by omega
    simp only [expireAt, hg, hpass, Bool.not_true, Bool.false_eq_true, if_false, hle', if_true]
    exact ⟨by rw [upd_drop h, purge_erase (wf_absP h.wfd), purge_absP], by triv⟩
  · intro hgt
    have hgt' : ¬ whenV + (c.epoch : Int) ≤ ((unix c : Nat) : Int) := by omega
    simp only [expireAt, hg, hpass, Bool.not_true, Bool.false_eq_true, if_false, hgt']
    refine ⟨?_, by triv⟩
    have := dl_set h hv whenV.toNat
    have e : whenV.toNat + c.epoch = (whenV + (c.epoch : Int)).toNat := by omega
    rw [e] at this
    exact this

/-- `execute_expire` refines M7's EXPIRE (the parser has refused incompatible flags) -/
theorem cExpire_sim {cs : CState} (h : CInv cs) (k : Nat) (secs : Int) (f : ExpFlags)
    (hs : I64 secs) (hf : flagsCompatible f = true) :
    ∃ res, cExpire cs k secs f = some res ∧ Sim cs (.expire k secs f) res := by
  have hb := basetime_eq h
  have ht := h.timeOk
  have hu : ((unix cs : Nat) : Int) = (cs.epoch : Int) + (cs.now : Int) := by simp [unix]
  have hdv := div_eq
  have hdm := divMin_eq
  have hmx := i64Max_eq
  unfold cExpire
  simp only [Sim, SimF, exec, execExpire, hf, Bool.not_true, Bool.false_eq_true, if_false]
  by_cases h1 : secs > i64MaxDiv1000 ∨ secs < i64MinDiv1000
  · rw [if_pos h1, if_pos h1]
    exact ⟨_, rfl, rfl, by rw [purge_absP], h, rfl, rfl⟩
  · rw [if_neg h1, if_neg h1]
    have hsat : sat (secs * 1000) = secs * 1000 := sat_id (by omega) (by omega)
    rw [hsat, hb]
    by_cases h2 : secs * 1000 > i64Max - ((unix cs : Nat) : Int)
    · rw [if_pos ⟨by omega, h2⟩, if_pos h2]
      exact ⟨_, rfl, rfl, by rw [purge_absP], h, rfl, rfl⟩
    · rw [if_neg (fun hh => h2 hh.2), if_neg h2]
      by_cases hl : liveKey cs k = true
      · obtain ⟨v, hv, hx, hg⟩ := liveKey_true h hl
        have hnow : asI64 cs.now = (cs.now : Int) := asI64_small (by omega)
        have hsat2 : sat (asI64 cs.now + secs * 1000) = (cs.now : Int) + secs * 1000 := by
          rw [hnow]; exact sat_id (by omega) (by omega)
        simp only [hl, Bool.not_true, Bool.false_eq_true, if_false]
        rw [hsat2, expireFlagsFail_eq h]
        have hw : (cs.now : Int) + secs * 1000 + (cs.epoch : Int) = secs * 1000 + ((unix cs : Nat) : Int) := by omega
        rw [hw]
        by_cases hp : flagsPass f ((NMap.get cs.exp k).map (· + cs.epoch)) (secs * 1000 + ((unix cs : Nat) : Int)) = true
        · have tail := expire_tail h hv hx hg f ((cs.now : Int) + secs * 1000) (by rw [hw]; exact hp)
          rw [hw] at tail
          simp only [hp, Bool.not_true, Bool.false_eq_true, if_false]
          by_cases h3 : secs ≤ 0
          · obtain ⟨t1, t2⟩ := tail.1 (by omega)
            rw [if_pos h3]
            exact ⟨_, rfl, t2.symm, t1, cinv_drop h, rfl, rfl⟩
          · obtain ⟨t1, t2⟩ := tail.2 (by omega)
            rw [if_neg h3]
            have hmul : u64Mul1000 (asU64 secs) = some (secs.toNat * 1000) := by
              rw [asU64_nonneg (by omega)]; exact u64Mul1000_eq (by omega)
            have hadd : u64Add cs.now (secs.toNat * 1000) = some (cs.now + secs.toNat * 1000) :=
              u64Add_eq (by omega)
            have e : ((cs.now : Int) + secs * 1000).toNat = cs.now + secs.toNat * 1000 := by omega
            rw [e] at t1
            refine ⟨({ cs with exp := NMap.insert k (cs.now + secs.toNat * 1000) cs.exp }, .int 1),
              by simp [hmul, hadd], t2.symm, t1,
              cinv_exp h (by rw [hv]; rfl) (by show cs.epoch + (cs.now + secs.toNat * 1000) ≤ _; omega), rfl, rfl⟩
        · have hp' : flagsPass f ((NMap.get cs.exp k).map (· + cs.epoch)) (secs * 1000 + ((unix cs : Nat) : Int)) = false := by
            simpa using hp
          simp only [hp', Bool.not_false, if_true, expireAt, hg]
          exact ⟨_, rfl, rfl, by rw [purge_absP], h, rfl, rfl⟩
      · have hl' : liveKey cs k = false := by simpa using hl
        have hg := liveKey_false h hl'
        simp only [hl', Bool.not_false, if_true, expireAt, hg]
        exact ⟨_, rfl, rfl, by rw [purge_absP], h, rfl, rfl⟩

/-- `execute_pexpire` refines M7's PEXPIRE -/
theorem cPExpire_sim {cs : CState} (h : CInv cs) (k : Nat) (ms : Int) (f : ExpFlags)
    (hs : I64 ms) (hf : flagsCompatible f = true) :
    ∃ res, cPExpire cs k ms f = some res ∧ Sim cs (.pexpire k ms f) res := by
  have hb := basetime_eq h
  have ht := h.timeOk
  have hu : ((unix cs : Nat) : Int) = (cs.epoch : Int) + (cs.now : Int) := by simp [unix]
  have hmx := i64Max_eq
  have hs1 := hs.1
  have hs2 := hs.2
  unfold cPExpire
  simp only [Sim, SimF, exec, execPExpire, hf, Bool.not_true, Bool.false_eq_true, if_false]
  rw [hb]
  by_cases h2 : ms > i64Max - ((unix cs : Nat) : Int)
  · rw [if_pos ⟨by omega, h2⟩, if_pos h2]
    exact ⟨_, rfl, rfl, by rw [purge_absP], h, rfl, rfl⟩
  · rw [if_neg (fun hh => h2 hh.2), if_neg h2]
    by_cases hl : liveKey cs k = true
    · obtain ⟨v, hv, hx, hg⟩ := liveKey_true h hl
      have hnow : asI64 cs.now = (cs.now : Int) := asI64_small (by omega)
      have hsat2 : sat (asI64 cs.now + ms) = (cs.now : Int) + ms := by
        rw [hnow]; exact sat_id (by omega) (by omega)
      simp only [hl, Bool.not_true, Bool.false_eq_true, if_false]
      rw [hsat2, expireFlagsFail_eq h]
      have hw : (cs.now : Int) + ms + (cs.epoch : Int) = ms + ((unix cs : Nat) : Int) := by omega
      rw [hw]
      by_cases hp : flagsPass f ((NMap.get cs.exp k).map (· + cs.epoch)) (ms + ((unix cs : Nat) : Int)) = true
      · have tail := expire_tail h hv hx hg f ((cs.now : Int) + ms) (by rw [hw]; exact hp)
        rw [hw] at tail
        simp only [hp, Bool.not_true, Bool.false_eq_true, if_false]
        by_cases h3 : ms ≤ 0
        · obtain ⟨t1, t2⟩ := tail.1 (by omega)
          rw [if_pos h3]
          exact ⟨_, rfl, t2.symm, t1, cinv_drop h, rfl, rfl⟩
        · obtain ⟨t1, t2⟩ := tail.2 (by omega)
          rw [if_neg h3]
          have hadd : u64Add cs.now (asU64 ms) = some (cs.now + ms.toNat) := by
            rw [asU64_nonneg (by omega)]; exact u64Add_eq (by omega)
          have e : ((cs.now : Int) + ms).toNat = cs.now + ms.toNat := by omega
          rw [e] at t1
          refine ⟨({ cs with exp := NMap.insert k (cs.now + ms.toNat) cs.exp }, .int 1),
            by simp [hadd], t2.symm, t1,
            cinv_exp h (by rw [hv]; rfl) (by show cs.epoch + (cs.now + ms.toNat) ≤ _; omega), rfl, rfl⟩
      · have hp' : flagsPass f ((NMap.get cs.exp k).map (· + cs.epoch)) (ms + ((unix cs : Nat) : Int)) = false := by
          simpa using hp
        simp only [hp', Bool.not_false, if_true, expireAt, hg]
        exact ⟨_, rfl, rfl, by rw [purge_absP], h, rfl, rfl⟩
    · have hl' : liveKey cs k = false := by simpa using hl
      have hg := liveKey_false h hl'
      simp only [hl', Bool.not_false, if_true, expireAt, hg]
      exact ⟨_, rfl, rfl, by rw [purge_absP], h, rfl, rfl⟩

theorem flagsPass_noFlags (cur : Option Nat) (w : Int) : flagsPass noFlags cur w = true := by
  cases cur <;> rfl

/-- the common tail of `execute_expireat` / `execute_pexpireat` on a live key (`saturating_sub` may clamp
    a very negative timestamp: the key is deleted either way) -/
theorem expireAtRel_spec {cs : CState} (h : CInv cs) {k : Nat} (hl : liveKey cs k = true) (whenMs : Int)
    (hlo : -9223372036854775808 ≤ whenMs) (hhi : whenMs ≤ 9223372036854775807) :
    SimF cs (fun s => expireAt s (unix cs) k whenMs noFlags)
      (expireAtRel cs k (sat (whenMs - (cs.epoch : Int)))) := by
  obtain ⟨v, hv, hx, hg⟩ := liveKey_true h hl
  have ht := h.timeOk
  have hu : ((unix cs : Nat) : Int) = (cs.epoch : Int) + (cs.now : Int) := by simp [unix]
  have tail := expire_tail h hv hx hg noFlags (whenMs - (cs.epoch : Int)) (flagsPass_noFlags _ _)
  have hw : whenMs - (cs.epoch : Int) + (cs.epoch : Int) = whenMs := by omega
  rw [hw] at tail
  unfold expireAtRel SimF
  by_cases hlow : -9223372036854775808 ≤ whenMs - (cs.epoch : Int)
  · have hrel : sat (whenMs - (cs.epoch : Int)) = whenMs - (cs.epoch : Int) := sat_id hlow (by omega)
    rw [hrel]
    by_cases h1 : whenMs - (cs.epoch : Int) ≤ 0
    · obtain ⟨t1, t2⟩ := tail.1 (by omega)
      rw [if_pos h1]
      exact ⟨t2.symm, t1, cinv_drop h, rfl, rfl⟩
    · rw [if_neg h1, asU64_nonneg (by omega)]
      by_cases h2 : (whenMs - (cs.epoch : Int)).toNat ≤ cs.now
      · obtain ⟨t1, t2⟩ := tail.1 (by omega)
        rw [if_pos h2]
        exact ⟨t2.symm, t1, cinv_drop h, rfl, rfl⟩
      · obtain ⟨t1, t2⟩ := tail.2 (by omega)
        rw [if_neg h2]
        exact ⟨t2.symm, t1,
          cinv_exp h (by rw [hv]; rfl) (by show cs.epoch + (whenMs - (cs.epoch : Int)).toNat ≤ _; omega),
          rfl, rfl⟩
  · have hrel : sat (whenMs - (cs.epoch : Int)) = -9223372036854775808 := by
      unfold sat
      have e := i64Max_eq
      have e' := i64Min_eq
      rw [if_neg (by omega), if_pos (by omega), e']
    rw [hrel]
    obtain ⟨t1, t2⟩ := tail.1 (by omega)
    rw [if_pos (by omega)]
    exact ⟨t2.symm, t1, cinv_drop h, rfl, rfl⟩

/-- `execute_pexpireat` refines M7's PEXPIREAT (the variant carries no flags) -/
theorem cPExpireAt_sim {cs : CState} (h : CInv cs) (k : Nat) (t : Int) (hs : I64 t) :
    Sim cs (.pexpireat k t noFlags) (cPExpireAt cs k t) := by
  unfold cPExpireAt
  simp only [Sim, exec, execPExpireAt, show flagsCompatible noFlags = true from rfl, Bool.not_true,
    Bool.false_eq_true, if_false]
  by_cases hl : liveKey cs k = true
  · simp only [hl, Bool.not_true, Bool.false_eq_true, if_false]
    exact expireAtRel_spec h hl t hs.1 hs.2
  · have hl' : liveKey cs k = false := by simpa using hl
    have hg := liveKey_false h hl'
    simp only [hl', Bool.not_false, if_true, SimF, expireAt, hg]
    exact ⟨by triv, by rw [purge_absP], h, by triv, by triv⟩

/-- `execute_expireat` refines M7's EXPIREAT -/
theorem cExpireAt_sim {cs : CState} (h : CInv cs) (k : Nat) (t : Int) (hs : I64 t) :
    Sim cs (.expireat k t noFlags) (cExpireAt cs k t) := by
  have hdv := div_eq
  have hdm := divMin_eq
  unfold cExpireAt
  simp only [Sim, exec, execExpireAt, show flagsCompatible noFlags = true from rfl, Bool.not_true,
    Bool.false_eq_true, if_false]
  by_cases h1 : t > i64MaxDiv1000 ∨ t < i64MinDiv1000
  · simp only [h1, if_true, SimF]
    exact ⟨by triv, by rw [purge_absP], h, by triv, by triv⟩
  · simp only [h1, if_false]
    have hsat : sat (t * 1000) = t * 1000 := sat_id (by omega) (by omega)
    rw [hsat]
    by_cases hl : liveKey cs k = true
    · simp only [hl, Bool.not_true, Bool.false_eq_true, if_false]
      exact expireAtRel_spec h hl (t * 1000) (by omega) (by omega)
    · have hl' : liveKey cs k = false := by simpa using hl
      have hg := liveKey_false h hl'
      simp only [hl', Bool.not_false, if_true, SimF, expireAt, hg]
      exact ⟨by triv, by rw [purge_absP], h, by triv, by triv⟩

/-! ### TTL / PTTL / EXPIRETIME / PEXPIRETIME / PERSIST -/

theorem notExp_lt {cs : CState} {k d : Nat} (hx : isExpired cs k = false) (hc : NMap.get cs.exp k = some d) :
    cs.now < d := by
  unfold isExpired at hx
  rw [hc] at hx
  simp only [decide_eq_false_iff_not] at hx
  omega

/-- the shape shared by the four read commands: −2 / −1 / a function of the deadline -/
theorem ttl_shape {cs : CState} (h : CInv cs) (k : Nat) (fc : Nat → Int) (fm : Nat → Nat)
    (hf : ∀ d, NMap.get cs.exp k = some d → cs.now < d → fc d = ((fm (d + cs.epoch) : Nat) : Int)) :
    SimF cs (fun s => (s, ttlReply s k fm)) (ttlShape cs k fc) := by
  unfold ttlShape SimF
  by_cases hl : liveKey cs k = true
  · obtain ⟨v, hv, hx, hg⟩ := liveKey_true h hl
    simp only [hl, Bool.not_true, Bool.false_eq_true, if_false, ttlReply, hg]
    cases hc : NMap.get cs.exp k with
    | none => exact ⟨by triv, by rw [purge_absP], h, by triv, by triv⟩
    | some d =>
      simp only [Option.map_some]
      exact ⟨by rw [hf d hc (notExp_lt hx hc)], by rw [purge_absP], h, by triv, by triv⟩
  · have hl' : liveKey cs k = false := by simpa using hl
    have hg := liveKey_false h hl'
    simp only [hl', Bool.not_false, if_true, ttlReply, hg]
    exact ⟨by triv, by rw [purge_absP], h, by triv, by triv⟩

theorem cTtl_sim {cs : CState} (h : CInv cs) (k : Nat) : Sim cs (.ttl k) (cTtl cs k) := by
  have ht := h.timeOk
  exact ttl_shape h k _ (fun d => roundSecs (d - unix cs)) (by
      intro d hc hlt
      have := h.dlOk k d hc
      simp only [roundSecs, unix]
      rw [asI64_small (by omega), asI64_small (by omega)]
      omega)

theorem cPTtl_sim {cs : CState} (h : CInv cs) (k : Nat) : Sim cs (.pttl k) (cPTtl cs k) := by
  have ht := h.timeOk
  exact ttl_shape h k _ (fun d => d - unix cs) (by
      intro d hc hlt
      have := h.dlOk k d hc
      simp only [unix]
      rw [asI64_small (by omega), asI64_small (by omega)]
      omega)

/-- EXPIRETIME: `(deadline + 500) / 1000`; the `saturating_add(500)` cannot clamp inside the invariant's
    range except within 500 ms of i64::MAX, which the hypothesis excludes -/
theorem cExpireTime_sim {cs : CState} (h : CInv cs) (k : Nat)
    (hroom : ∀ d, NMap.get cs.exp k = some d → cs.epoch + d + 500 ≤ 9223372036854775807) :
    Sim cs (.expiretime k) (cExpireTime cs k) := by
  have ht := h.timeOk
  exact ttl_shape h k _ roundSecs (by
      intro d hc hlt
      have := hroom d hc
      simp only [roundSecs]
      rw [asI64_small (by omega)]
      have h1 : sat ((cs.epoch : Int) + (d : Int)) = (cs.epoch : Int) + (d : Int) := sat_id (by omega) (by omega)
      rw [h1, sat_id (by omega) (by omega)]
      omega)

theorem cPExpireTime_sim {cs : CState} (h : CInv cs) (k : Nat) :
    Sim cs (.pexpiretime k) (cPExpireTime cs k) := by
  have ht := h.timeOk
  exact ttl_shape h k _ id (by
      intro d hc hlt
      have := h.dlOk k d hc
      rw [asI64_small (by omega), sat_id (by omega) (by omega)]
      simp only [id]
      omega)

theorem cPersist_sim {cs : CState} (h : CInv cs) (k : Nat) : Sim cs (.persist k) (cPersist cs k) := by
  unfold cPersist
  simp only [Sim, SimF, exec, execPersist]
  by_cases hl : liveKey cs k = true
  · obtain ⟨v, hv, hx, hg⟩ := liveKey_true h hl
    simp only [hl, Bool.not_true, Bool.false_eq_true, if_false, hg]
    cases hc : NMap.get cs.exp k with
    | none =>
      simp only [Option.map_none, Option.isSome_none, Bool.false_eq_true, if_false]
      exact ⟨by triv, by rw [purge_absP], h, by triv, by triv⟩
    | some d =>
      simp only [Option.map_some, Option.isSome_some, if_true]
      exact ⟨by triv, dl_clear h hv, cinv_persist h, by triv, by triv⟩
  · have hl' : liveKey cs k = false := by simpa using hl
    have hg := liveKey_false h hl'
    simp only [hl', Bool.not_false, if_true, hg]
    exact ⟨by triv, by rw [purge_absP], h, by triv, by triv⟩

end RedisVerif.Executor
