import RedisVerif.Model.Redis
import RedisVerif.Lemmas.NMap

/-! Helper lemmas about the reference Redis model: purge / view, invariant preservation of the
    map primitives, per-command invariant and no-op lemmas. -/
namespace RedisVerif.Redis
open RedisVerif

/-! ### generic NMap facts used here -/

theorem mem_insert {ν : Type} {k : Nat} {v : ν} {m : NMap ν} {p : Nat × ν}
    (h : p ∈ NMap.insert k v m) : p = (k, v) ∨ p ∈ m := by
  induction m with
  | nil => simp [NMap.insert] at h; exact Or.inl h
  | cons q m ih =>
    obtain ⟨kq, vq⟩ := q
    simp only [NMap.insert] at h
    split at h
    · cases h with
      | head => exact Or.inl rfl
      | tail _ h' => exact Or.inr h'
    · split at h
      · cases h with
        | head => exact Or.inl rfl
        | tail _ h' => exact Or.inr (List.mem_cons_of_mem _ h')
      · cases h with
        | head => exact Or.inr (List.mem_cons_self ..)
        | tail _ h' =>
          cases ih h' with
          | inl e => exact Or.inl e
          | inr e => exact Or.inr (List.mem_cons_of_mem _ e)

theorem mem_erase {ν : Type} {k : Nat} {m : NMap ν} {p : Nat × ν}
    (h : p ∈ NMap.erase k m) : p ∈ m := by
  induction m with
  | nil => simp [NMap.erase] at h
  | cons q m ih =>
    obtain ⟨kq, vq⟩ := q
    simp only [NMap.erase] at h
    split at h
    · exact List.mem_cons_of_mem _ h
    · cases h with
      | head => exact List.mem_cons_self ..
      | tail _ h' => exact List.mem_cons_of_mem _ (ih h')

theorem get_mem {ν : Type} {k : Nat} {v : ν} {m : NMap ν} (h : NMap.get m k = some v) :
    (k, v) ∈ m := by
  induction m with
  | nil => simp at h
  | cons q m ih =>
    obtain ⟨kq, vq⟩ := q
    simp only [NMap.get] at h
    split at h
    · rename_i heq
      subst heq
      cases h
      exact List.mem_cons_self ..
    · exact List.mem_cons_of_mem _ (ih h)

theorem get_map_val {ν μ : Type} (g : ν → μ) (m : NMap ν) (k : Nat) :
    NMap.get (m.map (fun p => (p.1, g p.2))) k = (NMap.get m k).map g := by
  induction m with
  | nil => rfl
  | cons q m ih =>
    obtain ⟨kq, vq⟩ := q
    simp only [List.map, NMap.get]
    split
    · rfl
    · exact ih

theorem LB_filter {ν : Type} {k : Nat} {m : NMap ν} (f : Nat × ν → Bool) (h : NMap.LB k m) :
    NMap.LB k (m.filter f) := fun p hp => h p (List.mem_filter.mp hp).1

theorem wf_filter {ν : Type} {m : NMap ν} (f : Nat × ν → Bool) (h : NMap.WF m) :
    NMap.WF (m.filter f) := by
  unfold NMap.WF at *
  exact List.Pairwise.sublist List.filter_sublist h

theorem get_filter {ν : Type} {m : NMap ν} (f : ν → Bool) (h : NMap.WF m) (k : Nat) :
    NMap.get (m.filter (fun p => f p.2)) k = (NMap.get m k).filter f := by
  induction m with
  | nil => rfl
  | cons q m ih =>
    obtain ⟨kq, vq⟩ := q
    have ⟨hlb, hw⟩ := NMap.wf_cons.mp h
    simp only [List.filter]
    by_cases hk : k = kq
    · subst hk
      cases hf : f vq
      · simp only [NMap.get, if_true, Option.filter, hf]
        have := NMap.get_eq_none_of_LB (LB_filter (fun p => f p.2) hlb) (Nat.le_refl k)
        simpa using this
      · simp [NMap.get, Option.filter, hf]
    · cases hf : f vq
      · simp only [NMap.get, if_neg hk]
        exact ih hw
      · simp only [NMap.get, if_neg hk]
        exact ih hw

/-! ### purge and view -/

theorem wf_purge {s : State} (now : Nat) (h : NMap.WF s) : NMap.WF (purge s now) :=
  wf_filter _ h

theorem purge_idem (s : State) (now : Nat) : purge (purge s now) now = purge s now := by
  simp [purge, List.filter_filter]

theorem mem_purge {s : State} {now : Nat} {p : Nat × Entry} :
    p ∈ purge s now ↔ p ∈ s ∧ live now p.2 = true := by
  simp [purge, List.mem_filter]

theorem get_purge {s : State} (h : NMap.WF s) (now k : Nat) :
    NMap.get (purge s now) k = (NMap.get s k).filter (live now) :=
  get_filter (live now) h k

theorem view_purge (s : State) (now : Nat) : view (purge s now) now = view s now := by
  simp [view, purge_idem]

/-- what a client sees of an entry -/
def toV (now : Nat) (e : Entry) : VEntry := { val := e.val, ttl := e.dl.map (· - now) }

theorem view_eq (s : State) (now : Nat) :
    view s now = (purge s now).map (fun p => (p.1, toV now p.2)) := rfl

theorem get_view (s : State) (now k : Nat) :
    NMap.get (view s now) k = (NMap.get (purge s now) k).map (toV now) := by
  rw [view_eq]; exact get_map_val (toV now) (purge s now) k

theorem toV_inj {now : Nat} {e e' : Entry} (h : toV now e = toV now e')
    (hl : live now e = true) (hl' : live now e' = true) : e = e' := by
  obtain ⟨v, dl⟩ := e
  obtain ⟨v', dl'⟩ := e'
  simp only [toV, VEntry.mk.injEq] at h
  obtain ⟨hv, hd⟩ := h
  subst hv
  cases dl <;> cases dl' <;> simp [live] at hl hl' hd ⊢
  omega

theorem map_toV_inj {now : Nat} : ∀ (a b : State),
    (∀ p ∈ a, live now p.2 = true) → (∀ p ∈ b, live now p.2 = true) →
    a.map (fun p => (p.1, toV now p.2)) = b.map (fun p => (p.1, toV now p.2)) → a = b
  | [], [], _, _, _ => rfl
  | [], _ :: _, _, _, h => by simp at h
  | _ :: _, [], _, _, h => by simp at h
  | p :: a, q :: b, hl, hl', h => by
    simp only [List.map_cons, List.cons.injEq, Prod.mk.injEq] at h
    obtain ⟨⟨hk, hv⟩, ht⟩ := h
    have e1 : p.2 = q.2 := toV_inj hv (hl p (List.mem_cons_self ..)) (hl' q (List.mem_cons_self ..))
    have : p = q := Prod.ext hk e1
    subst this
    congr 1
    exact map_toV_inj a b (fun x hx => hl x (List.mem_cons_of_mem _ hx))
      (fun x hx => hl' x (List.mem_cons_of_mem _ hx)) ht

/-- the purged state is determined by the visible keyspace -/
theorem purge_of_view {s s' : State} {now : Nat} (h : view s now = view s' now) :
    purge s now = purge s' now := by
  rw [view_eq, view_eq] at h
  exact map_toV_inj _ _ (fun p hp => (mem_purge.mp hp).2) (fun p hp => (mem_purge.mp hp).2) h

/-! ### invariant: primitives -/

theorem inv_nil : Inv ([] : State) := ⟨NMap.wf_nil, fun _ h => by cases h⟩

theorem inv_insert {s : State} {k : Nat} {v : Value} {dl : Option Nat}
    (h : Inv s) (hv : ValueOk v) : Inv (NMap.insert k ⟨v, dl⟩ s) := by
  refine ⟨NMap.wf_insert h.1, fun p hp => ?_⟩
  cases mem_insert hp with
  | inl e => subst e; exact hv
  | inr e => exact h.2 p e

theorem inv_insert_entry {s : State} {k : Nat} {e : Entry}
    (h : Inv s) (hv : ValueOk e.val) : Inv (NMap.insert k e s) := by
  obtain ⟨v, dl⟩ := e
  exact inv_insert h hv

theorem inv_erase {s : State} {k : Nat} (h : Inv s) : Inv (NMap.erase k s) :=
  ⟨NMap.wf_erase h.1, fun p hp => h.2 p (mem_erase hp)⟩

theorem inv_purge {s : State} (now : Nat) (h : Inv s) : Inv (purge s now) :=
  ⟨wf_purge now h.1, fun p hp => h.2 p (mem_purge.mp hp).1⟩

theorem inv_get {s : State} {k : Nat} {e : Entry} (h : Inv s) (hg : NMap.get s k = some e) :
    ValueOk e.val := h.2 (k, e) (get_mem hg)

theorem valueOk_str (b : BS) : ValueOk (.str b) := trivial

/-! ### index normalisation -/

theorem normIdx_nonneg (len : Nat) (i : Int) : 0 ≤ normIdx len i := by
  unfold normIdx; split
  · split <;> omega
  · omega

theorem clampEnd_le (len : Nat) (e : Int) : len = 0 ∨ clampEnd len e < len := by
  unfold clampEnd; split <;> omega

theorem clampEnd_ge (len : Nat) (e : Int) (h : 0 ≤ e) : len = 0 ∨ 0 ≤ clampEnd len e := by
  unfold clampEnd; split <;> omega

end RedisVerif.Redis
