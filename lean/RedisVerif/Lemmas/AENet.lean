import RedisVerif.Model.AENet
import RedisVerif.Lemmas.AntiEntropy
import RedisVerif.Lemmas.Lub

/-! Lemmas for the session-level anti-entropy theorems (`Props/C18Net.lean`): the merge lifted to
    optional values is ACI, merging deltas only grows a store and keeps it below any bound the
    deltas are below, the join of all stores of a network. -/
namespace RedisVerif
namespace AE

/-- the carrier lifted to optional values (`none` = the key is absent = the identity) -/
def OC (C : Nat → RV → Prop) (k : Nat) (o : Option RV) : Prop := ∀ v, o = some v → C k v

/-- `x ≤ y` in the order induced by the merge: merging `x` into `y` changes nothing -/
abbrev ole (x y : Option RV) : Prop := ACI.le (optMerge RV.merge) x y

theorem aci_opt {C : Nat → RV → Prop} {k : Nat} (h : ACI RV.merge (C k)) :
    ACI (optMerge RV.merge) (OC C k) where
  closed := by
    intro a b ha hb v hv
    cases a <;> cases b <;> simp only [optMerge] at hv
    · cases hv
    · exact hb v hv
    · exact ha v hv
    · rename_i x y
      injection hv with hv; subst hv
      exact h.closed x y (ha x rfl) (hb y rfl)
  comm := by
    intro a b ha hb
    cases a <;> cases b <;> simp only [optMerge]
    rename_i x y
    rw [h.comm x y (ha x rfl) (hb y rfl)]
  assoc := by
    intro a b c ha hb hc
    cases a <;> cases b <;> cases c <;> simp only [optMerge]
    rename_i x y z
    rw [h.assoc x y z (ha x rfl) (hb y rfl) (hc z rfl)]
  idem := by
    intro a ha
    cases a <;> simp only [optMerge]
    rename_i x
    rw [h.idem x (ha x rfl)]

theorem oc_none (C : Nat → RV → Prop) (k : Nat) : OC C k none := by intro v hv; cases hv

theorem oc_some {C : Nat → RV → Prop} {k : Nat} {v : RV} (h : C k v) : OC C k (some v) := by
  intro w hw; injection hw with hw; subst hw; exact h

theorem ole_none (y : Option RV) : ole none y := by cases y <;> rfl

/-- a store whose values are in the carrier of their key -/
def StoreOK (C : Nat → RV → Prop) (s : NMap RV) : Prop :=
  NMap.WF s ∧ ∀ k v, NMap.get s k = some v → C k v

theorem StoreOK.oc {C : Nat → RV → Prop} {s : NMap RV} (h : StoreOK C s) (k : Nat) : OC C k (NMap.get s k) :=
  fun v hv => h.2 k v hv

/-- `s ≤ t` key by key -/
def StLe (s t : NMap RV) : Prop := ∀ k, ole (NMap.get s k) (NMap.get t k)

theorem get_applyDelta_opt (s : NMap RV) (d : Nat × RV) (k : Nat) :
    NMap.get (applyDelta s d) k = if k = d.1 then optMerge RV.merge (NMap.get s k) (some d.2) else NMap.get s k := by
  rw [get_applyDelta]
  by_cases hk : k = d.1
  · subst hk
    simp only [if_true]
    cases NMap.get s d.1 <;> rfl
  · simp only [hk, if_false]

section
variable {C : Nat → RV → Prop} (hC : ∀ k, ACI RV.merge (C k))
include hC

theorem storeOK_applyDelta {s : NMap RV} {d : Nat × RV} (hs : StoreOK C s) (hd : C d.1 d.2) :
    StoreOK C (applyDelta s d) := by
  refine ⟨wf_applyDelta d hs.1, ?_⟩
  intro k v hv
  rw [get_applyDelta_opt] at hv
  by_cases hk : k = d.1
  · simp only [hk, if_true] at hv
    have := (aci_opt (hC d.1)).closed _ _ (hs.oc d.1) (oc_some hd) v hv
    rw [hk]; exact this
  · simp only [hk, if_false] at hv
    exact hs.2 k v hv

theorem stLe_refl {s : NMap RV} (hs : StoreOK C s) : StLe s s :=
  fun k => (aci_opt (hC k)).le_refl (hs.oc k)

theorem stLe_trans {s t u : NMap RV} (hs : StoreOK C s) (ht : StoreOK C t) (hu : StoreOK C u)
    (h1 : StLe s t) (h2 : StLe t u) : StLe s u :=
  fun k => (aci_opt (hC k)).le_trans (hs.oc k) (ht.oc k) (hu.oc k) (h1 k) (h2 k)

theorem stLe_applyDelta {s : NMap RV} {d : Nat × RV} (hs : StoreOK C s) (hd : C d.1 d.2) :
    StLe s (applyDelta s d) := by
  intro k
  rw [get_applyDelta_opt]
  by_cases hk : k = d.1
  · simp only [hk, if_true]
    exact (aci_opt (hC d.1)).le_merge_left (hs.oc d.1) (oc_some hd)
  · simp only [hk, if_false]
    exact (aci_opt (hC k)).le_refl (hs.oc k)

/-- merging a delta that is below `U` into a store below `U` leaves it below `U` -/
theorem applyDelta_below {s : NMap RV} {d : Nat × RV} (hs : StoreOK C s) (hd : C d.1 d.2)
    {U : Nat → Option RV} (hU : ∀ k, OC C k (U k)) (hsU : ∀ k, ole (NMap.get s k) (U k))
    (hdU : ole (some d.2) (U d.1)) : ∀ k, ole (NMap.get (applyDelta s d) k) (U k) := by
  intro k
  rw [get_applyDelta_opt]
  by_cases hk : k = d.1
  · simp only [hk, if_true]
    exact (aci_opt (hC d.1)).merge_le (hs.oc d.1) (oc_some hd) (hU d.1) (hsU d.1) hdU
  · simp only [hk, if_false]
    exact hsU k

theorem applyDeltas_ok {s : NMap RV} {ds : List (Nat × RV)} (hs : StoreOK C s) (hd : ∀ d ∈ ds, C d.1 d.2) :
    StoreOK C (applyDeltas s ds) ∧ StLe s (applyDeltas s ds) := by
  induction ds generalizing s with
  | nil => exact ⟨hs, stLe_refl hC hs⟩
  | cons d ds ih =>
    have hd0 : C d.1 d.2 := hd d (by simp)
    have h1 := storeOK_applyDelta hC hs hd0
    have ⟨h2, h3⟩ := ih h1 (fun e he => hd e (by simp [he]))
    have hstep : applyDeltas s (d :: ds) = applyDeltas (applyDelta s d) ds := rfl
    rw [hstep]
    exact ⟨h2, stLe_trans hC hs h1 h2 (stLe_applyDelta hC hs hd0) h3⟩

theorem applyDeltas_below {s : NMap RV} {ds : List (Nat × RV)} (hs : StoreOK C s) (hd : ∀ d ∈ ds, C d.1 d.2)
    {U : Nat → Option RV} (hU : ∀ k, OC C k (U k)) (hsU : ∀ k, ole (NMap.get s k) (U k))
    (hdU : ∀ d ∈ ds, ole (some d.2) (U d.1)) : ∀ k, ole (NMap.get (applyDeltas s ds) k) (U k) := by
  induction ds generalizing s with
  | nil => exact hsU
  | cons d ds ih =>
    have hd0 : C d.1 d.2 := hd d (by simp)
    have hstep : applyDeltas s (d :: ds) = applyDeltas (applyDelta s d) ds := rfl
    rw [hstep]
    exact ih (storeOK_applyDelta hC hs hd0) (fun e he => hd e (by simp [he]))
      (applyDelta_below hC hs hd0 hU hsU (hdU d (by simp))) (fun e he => hdU e (by simp [he]))

/-! ## the join of all stores -/

theorem joinAt_oc {nodes : List NetNode} (hn : ∀ nd ∈ nodes, StoreOK C nd.st) (k : Nat) :
    OC C k ((nodes.map fun nd => NMap.get nd.st k).foldl (optMerge RV.merge) none) := by
  apply (aci_opt (hC k)).fold_closed _ _ (oc_none C k)
  intro a ha
  obtain ⟨nd, hnd, rfl⟩ := List.mem_map.mp ha
  exact (hn nd hnd).oc k

theorem joinAt_upper {nodes : List NetNode} (hn : ∀ nd ∈ nodes, StoreOK C nd.st) (k : Nat) :
    ∀ nd ∈ nodes, ole (NMap.get nd.st k) ((nodes.map fun nd => NMap.get nd.st k).foldl (optMerge RV.merge) none) := by
  intro nd hnd
  have := ((aci_opt (hC k)).fold_upper (nodes.map fun nd => NMap.get nd.st k) none (oc_none C k)
    (by intro a ha; obtain ⟨nd, hnd, rfl⟩ := List.mem_map.mp ha; exact (hn nd hnd).oc k)).2
  exact this _ (List.mem_map.mpr ⟨nd, hnd, rfl⟩)

theorem joinAt_least {nodes : List NetNode} (hn : ∀ nd ∈ nodes, StoreOK C nd.st) (k : Nat)
    {u : Option RV} (hu : OC C k u) (h : ∀ nd ∈ nodes, ole (NMap.get nd.st k) u) :
    ole ((nodes.map fun nd => NMap.get nd.st k).foldl (optMerge RV.merge) none) u := by
  apply (aci_opt (hC k)).fold_least _ _ _ (oc_none C k) _ hu (ole_none u)
  · intro a ha; obtain ⟨nd, hnd, rfl⟩ := List.mem_map.mp ha; exact h nd hnd
  · intro a ha; obtain ⟨nd, hnd, rfl⟩ := List.mem_map.mp ha; exact (hn nd hnd).oc k

end

/-! ## replacing one node -/

theorem mem_set_cases {α : Type} {l : List α} {n : Nat} {a x : α} (h : x ∈ l.set n a) : x = a ∨ x ∈ l := by
  rcases List.mem_or_eq_of_mem_set h with h | h
  · exact Or.inr h
  · exact Or.inl h

/-- every element of `l` is still in `l.set n b`, except the one at index `n`, which became `b` -/
theorem mem_set_of_mem {α : Type} {l : List α} {n : Nat} {a b x : α} (hn : l[n]? = some a) (h : x ∈ l) :
    x ∈ l.set n b ∨ x = a := by
  obtain ⟨i, hi, rfl⟩ := List.getElem_of_mem h
  by_cases hin : i = n
  · right
    subst hin
    have : l[i]? = some l[i] := List.getElem?_eq_getElem hi
    rw [this] at hn; injection hn
  · left
    have hi' : i < (l.set n b).length := by rw [List.length_set]; exact hi
    have : (l.set n b)[i] = l[i] := by
      rw [List.getElem_set]; simp [Ne.symm hin]
    rw [← this]; exact List.getElem_mem hi'

theorem mem_set_self {α : Type} {l : List α} {n : Nat} {a b : α} (hn : l[n]? = some a) : b ∈ l.set n b := by
  have hlt : n < l.length := by
    rcases Nat.lt_or_ge n l.length with h | h
    · exact h
    · rw [List.getElem?_eq_none h] at hn; cases hn
  have hlt' : n < (l.set n b).length := by rw [List.length_set]; exact hlt
  have hm : (l.set n b)[n] ∈ l.set n b := List.getElem_mem hlt'
  have he : (l.set n b)[n] = b := by simp
  rw [he] at hm
  exact hm

theorem map_set_same {α β : Type} (f : α → β) {l : List α} {n : Nat} {a b : α} (hn : l[n]? = some a)
    (hf : f b = f a) : (l.set n b).map f = l.map f := by
  induction l generalizing n with
  | nil => rfl
  | cons x xs ih =>
    cases n with
    | zero =>
      simp only [List.getElem?_cons_zero, Option.some.injEq] at hn
      subst hn
      simp [hf]
    | succ n =>
      simp only [List.getElem?_cons_succ] at hn
      simp only [List.set_cons_succ, List.map_cons, ih hn]

theorem mem_of_getElem? {α : Type} {l : List α} {n : Nat} {a : α} (h : l[n]? = some a) : a ∈ l :=
  List.mem_of_getElem? h

theorem lookup_mem {α : Type} {l : List (Nat × α)} {k : Nat} {v : α} (h : l.lookup k = some v) : (k, v) ∈ l := by
  induction l with
  | nil => cases h
  | cons p ps ih =>
    obtain ⟨a, b⟩ := p
    simp only [List.lookup_cons] at h
    by_cases hk : k = a
    · subst hk; simp at h; subst h; simp
    · have : (k == a) = false := by simpa using hk
      rw [this] at h
      exact List.mem_cons_of_mem _ (ih h)

theorem mem_putReg {α : Type} {l : List (Nat × α)} {k : Nat} {v : α} {p : Nat × α} (h : p ∈ putReg l k v) :
    p = (k, v) ∨ p ∈ l := by
  unfold putReg at h
  rcases List.mem_cons.mp h with h | h
  · exact Or.inl h
  · exact Or.inr (List.mem_filter.mp h).1

end AE
end RedisVerif
