import RedisVerif.Model.Codec
import RedisVerif.Lemmas.Wal
import RedisVerif.Driver.Crc32

/-! Helper lemmas about the segment / checkpoint framing model. -/
namespace RedisVerif.Codec
open Wal

/-- re-encoding a parsed little-endian field gives the bytes back (byte-valued lists):
    why the model may use the raw header bytes where the Rust code re-serialises the
    parsed fields before hashing them -/
theorem le_leVal (bs : Bytes) (hb : ∀ b ∈ bs, b < 256) : le bs.length (leVal bs) = bs := by
  induction bs with
  | nil => rfl
  | cons b bs ih =>
    have hb0 := hb b (by simp)
    simp only [List.length_cons, le, leVal]
    rw [show (b + 256 * leVal bs) % 256 = b by omega,
      show (b + 256 * leVal bs) / 256 = leVal bs by omega, ih (fun x hx => hb x (by simp [hx]))]

theorem segCovered_length (n a b : Nat) : (segCovered n a b).length = 26 := by
  simp [segCovered, segMagic, le_length]

/-- a segment header with ARBITRARY bytes in the 10 padding positions 30..40 -/
def segHeaderG (crc : Bytes → Nat) (n a b : Nat) (pad : Bytes) : Bytes :=
  segCovered n a b ++ (le 4 (crc (segCovered n a b)) ++ pad)

/-- a segment footer with ARBITRARY bytes in the two size fields (positions 4..20) -/
def segFooterG (crc : Bytes → Nat) (recs sizes : Bytes) : Bytes :=
  le 4 (crc recs) ++ (sizes ++ footMagic)

theorem segHeader_eq (crc : Bytes → Nat) (n a b : Nat) :
    segHeader crc n a b = segHeaderG crc n a b (List.replicate 10 0) := rfl

theorem segFooter_eq (crc : Bytes → Nat) (recs : Bytes) :
    segFooter crc recs = segFooterG crc recs (le 8 recs.length ++ le 8 recs.length) := by
  simp [segFooter, segFooterG]

/-- the parsed view of a written header -/
theorem segHeader_fields (crc : Bytes → Nat) (n a b : Nat) (pad : Bytes) :
    let h := (segHeaderG crc n a b pad).take 30
    h.take 4 = segMagic ∧ (h.drop 4).take 1 = [1] ∧ h.take 26 = segCovered n a b ∧
    (h.drop 26).take 4 = le 4 (crc (segCovered n a b)) ∧ (h.drop 5).take 1 = [0] ∧
    (h.drop 6).take 4 = le 4 n := by
  intro h
  have hh : h = segCovered n a b ++ le 4 (crc (segCovered n a b)) := by
    show (segHeaderG crc n a b pad).take 30 = _
    unfold segHeaderG
    rw [← List.append_assoc]
    exact List.take_left' (by rw [List.length_append, segCovered_length, le_length])
  have hc : segCovered n a b = segMagic ++ ([1, 0] ++ (le 4 n ++ (le 8 a ++ le 8 b))) := rfl
  refine ⟨?_, ?_, ?_, ?_, ?_, ?_⟩
  · rw [hh, hc, List.append_assoc]; exact List.take_left' rfl
  · rw [hh, hc, List.append_assoc, List.drop_left' (by rfl)]; rfl
  · rw [hh]; exact List.take_left' (segCovered_length _ _ _)
  · rw [hh, List.drop_left' (segCovered_length _ _ _)]; exact List.take_left' (le_length _ _)
  · rw [hh, hc]; rfl
  · rw [hh, hc]
    have : segMagic ++ ([1, 0] ++ (le 4 n ++ (le 8 a ++ le 8 b))) ++ le 4 (crc (segMagic ++ ([1, 0] ++ (le 4 n ++ (le 8 a ++ le 8 b)))))
        = (segMagic ++ [1, 0]) ++ (le 4 n ++ ((le 8 a ++ le 8 b) ++ le 4 (crc (segMagic ++ ([1, 0] ++ (le 4 n ++ (le 8 a ++ le 8 b))))))) := by
      simp
    rw [this, List.drop_left' (by rfl)]
    exact List.take_left' (le_length _ _)

theorem segFooter_fields (crc : Bytes → Nat) (recs sizes : Bytes) (hs : sizes.length = 16) :
    (segFooterG crc recs sizes).take 4 = le 4 (crc recs) ∧
    ((segFooterG crc recs sizes).drop 20).take 4 = footMagic ∧
    (segFooterG crc recs sizes).length = 24 := by
  unfold segFooterG
  refine ⟨List.take_left' (le_length _ _), ?_, ?_⟩
  · have : le 4 (crc recs) ++ (sizes ++ footMagic) = (le 4 (crc recs) ++ sizes) ++ footMagic := by simp
    rw [this, List.drop_left' (by simp [le_length, hs])]
    rfl
  · simp [le_length, footMagic, hs]

theorem record_length (p : Bytes) : (record p).length = 4 + p.length := by
  simp [record, le_length]

/-- reading back the records of a writer: `count` = number of records (or, for the lax
    iterator, any larger count) -/
theorem readRecords_records {δ : Type} (strict : Bool) (ser : δ → Bytes) (de : Bytes → Option δ)
    (ds : List δ) (hde : ∀ d ∈ ds, de (ser d) = some d) (hfit : ∀ d ∈ ds, (ser d).length < 2 ^ 32)
    (k : Nat) (hk : strict = false ∨ k = 0) :
    readRecords strict de (ds.length + k) (records (ds.map ser)) = .ok ds := by
  induction ds with
  | nil =>
    cases k with
    | zero => rfl
    | succ k =>
      rcases hk with hk | hk
      · subst hk; simp [readRecords, records]
      · cases hk
  | cons d ds ih =>
    have hd := hde d (by simp)
    have hf := hfit d (by simp)
    have hlen : (d :: ds).length + k = (ds.length + k) + 1 := by simp; omega
    rw [hlen]
    simp only [List.map_cons, records, List.flatMap_cons, readRecords]
    have h0 : (record (ser d) ++ List.flatMap record (List.map ser ds)).length ≠ 0 := by
      rw [List.length_append, record_length]; omega
    have h4 : ¬ (record (ser d) ++ List.flatMap record (List.map ser ds)).length < 4 := by
      rw [List.length_append, record_length]; omega
    rw [if_neg h0, if_neg h4]
    have e1 : (record (ser d) ++ List.flatMap record (List.map ser ds)).take 4 = le 4 (ser d).length := by
      unfold record; rw [List.append_assoc]; exact List.take_left' (le_length _ _)
    have e2 : (record (ser d) ++ List.flatMap record (List.map ser ds)).drop 4
        = ser d ++ List.flatMap record (List.map ser ds) := by
      unfold record; rw [List.append_assoc]; exact List.drop_left' (le_length _ _)
    simp only [e1, e2]
    rw [leVal_le 4 _ (by simpa using hf), if_neg (by rw [List.length_append]; omega),
      List.take_left' rfl, hd, List.drop_left' rfl]
    simp only
    have := ih (fun x hx => hde x (by simp [hx])) (fun x hx => hfit x (by simp [hx]))
    unfold records at this
    rw [this]

/-- the three parts of an image `hdr ++ (recs ++ foot)` -/
theorem seg_parts (hdr recs foot : Bytes) (hh : hdr.length = 40) (hf : foot.length = 24) :
    let data := hdr ++ (recs ++ foot)
    data.length = 64 + recs.length ∧ data.take 40 = hdr ∧
    (data.drop 40).take (data.length - 64) = recs ∧ data.drop (data.length - 24) = foot := by
  intro data
  have hl : data.length = 64 + recs.length := by
    simp only [data, List.length_append, hh, hf]; omega
  refine ⟨hl, List.take_left' hh, ?_, ?_⟩
  · rw [List.drop_left' hh, hl]
    exact List.take_left' (by omega)
  · have : data = (hdr ++ recs) ++ foot := by simp [data]
    rw [this]
    exact List.drop_left' (by rw [← this, hl, List.length_append, hh]; omega)

theorem segHeader_length (crc : Bytes → Nat) (n a b : Nat) (pad : Bytes) (hp : pad.length = 10) :
    (segHeaderG crc n a b pad).length = 40 := by
  simp [segHeaderG, segCovered_length, le_length, hp]

instance {ε α : Type} [DecidableEq ε] [DecidableEq α] : DecidableEq (Except ε α)
  | .ok a, .ok b => if h : a = b then isTrue (by rw [h]) else isFalse (by intro h'; cases h'; exact h rfl)
  | .error a, .error b => if h : a = b then isTrue (by rw [h]) else isFalse (by intro h'; cases h'; exact h rfl)
  | .ok _, .error _ => isFalse (by intro h; cases h)
  | .error _, .ok _ => isFalse (by intro h; cases h)

/-- an error of one of the integrity checks is an error of the whole read -/
def IsErr {α : Type} (r : Res α) : Prop := ∃ e, r = .error e

theorem isErr_error {α : Type} (e : Err) : IsErr (.error e : Res α) := ⟨e, rfl⟩

/-! ### checkpoint -/

/-- a checkpoint header with ARBITRARY bytes in the padding (6..8) and reserved (32..44)
    positions -/
def chkHeaderG (crc : Bytes → Nat) (k t l : Nat) (pad res : Bytes) : Bytes :=
  chkCoveredA ++ (pad ++ (chkCoveredB k t l ++ (res ++ le 4 (crc (chkCoveredA ++ chkCoveredB k t l)))))

theorem chkHeader_eq (crc : Bytes → Nat) (k t l : Nat) :
    chkHeader crc k t l = chkHeaderG crc k t l [0, 0] (List.replicate 12 0) := rfl

theorem chkCoveredB_length (k t l : Nat) : (chkCoveredB k t l).length = 24 := by
  simp [chkCoveredB, le_length]

theorem chkHeader_length (crc : Bytes → Nat) (k t l : Nat) (pad res : Bytes)
    (hp : pad.length = 2) (hr : res.length = 12) : (chkHeaderG crc k t l pad res).length = 48 := by
  simp [chkHeaderG, chkCoveredA, chkCoveredB_length, chkMagic, le_length, hp, hr]

theorem chkFooter_length (crc : Bytes → Nat) (p : Bytes) : (chkFooter crc p).length = 16 := by
  simp [chkFooter, le_length]

theorem chkHeader_fields (crc : Bytes → Nat) (k t l : Nat) (pad res : Bytes)
    (hp : pad.length = 2) (hr : res.length = 12) :
    let h := chkHeaderG crc k t l pad res
    h.take 4 = chkMagic ∧ (h.drop 4).take 1 = [1] ∧ (h.drop 5).take 1 = [0] ∧
    h.take 6 ++ (h.drop 8).take 24 = chkCoveredA ++ chkCoveredB k t l ∧
    (h.drop 44).take 4 = le 4 (crc (chkCoveredA ++ chkCoveredB k t l)) := by
  intro h
  have e1 : h.take 6 = chkCoveredA := List.take_left' rfl
  have e2 : h.drop 8 = chkCoveredB k t l ++ (res ++ le 4 (crc (chkCoveredA ++ chkCoveredB k t l))) := by
    have : h = (chkCoveredA ++ pad) ++ (chkCoveredB k t l ++ (res ++ le 4 (crc (chkCoveredA ++ chkCoveredB k t l)))) := by
      simp [h, chkHeaderG]
    rw [this]
    exact List.drop_left' (by simp [chkCoveredA, chkMagic, hp])
  have e3 : h.drop 44 = le 4 (crc (chkCoveredA ++ chkCoveredB k t l)) := by
    have : h.drop 44 = (h.drop 8).drop 36 := by rw [List.drop_drop]
    rw [this, e2, ← List.append_assoc]
    exact List.drop_left' (by simp [chkCoveredB_length, hr])
  refine ⟨?_, ?_, ?_, ?_, ?_⟩
  · show (chkCoveredA ++ _).take 4 = _
    unfold chkCoveredA; rw [List.append_assoc]; exact List.take_left' rfl
  · show ((chkCoveredA ++ _).drop 4).take 1 = _
    unfold chkCoveredA; rw [List.append_assoc, List.drop_left' (by rfl)]; rfl
  · show ((chkCoveredA ++ _).drop 5).take 1 = _
    unfold chkCoveredA chkMagic; rfl
  · rw [e1, e2, List.take_left' (chkCoveredB_length _ _ _)]
  · rw [e3]; exact List.take_of_length_le (by rw [le_length]; omega)

theorem chkFooter_fields (crc : Bytes → Nat) (p : Bytes) :
    let f := chkFooter crc p
    f.take 12 = le 4 (crc p) ++ le 8 p.length ∧
    (f.drop 12).take 4 = le 4 (crc (le 4 (crc p) ++ le 8 p.length)) ∧
    f.take 4 = le 4 (crc p) ∧ (f.drop 4).take 8 = le 8 p.length := by
  intro f
  have hl : (le 4 (crc p) ++ le 8 p.length).length = 12 := by simp [le_length]
  refine ⟨List.take_left' hl, ?_, ?_, ?_⟩
  · show (((le 4 (crc p) ++ le 8 p.length) ++ _).drop 12).take 4 = _
    rw [List.drop_left' hl]; exact List.take_of_length_le (by rw [le_length]; omega)
  · show ((le 4 (crc p) ++ le 8 p.length) ++ _).take 4 = _
    rw [List.append_assoc]; exact List.take_left' (le_length _ _)
  · show (((le 4 (crc p) ++ le 8 p.length) ++ _).drop 4).take 8 = _
    rw [List.append_assoc, List.drop_left' (le_length _ _)]; exact List.take_left' (le_length _ _)

/-- the parts of a checkpoint image `hdr ++ (len4 ++ (payload ++ (foot ++ trailing)))` -/
theorem chk_parts (hdr len4 payload foot trailing : Bytes)
    (hh : hdr.length = 48) (hl : len4.length = 4) (hf : foot.length = 16) :
    let data := hdr ++ (len4 ++ (payload ++ (foot ++ trailing)))
    data.length = 68 + payload.length + trailing.length ∧ data.take 48 = hdr ∧
    (data.drop 48).take 4 = len4 ∧ (data.drop 52).take payload.length = payload ∧
    (data.drop (52 + payload.length)).take 16 = foot := by
  intro data
  refine ⟨?_, List.take_left' hh, ?_, ?_, ?_⟩
  · simp only [data, List.length_append, hh, hl, hf]; omega
  · rw [List.drop_left' hh]; exact List.take_left' hl
  · have : data = (hdr ++ len4) ++ (payload ++ (foot ++ trailing)) := by simp [data]
    rw [this, List.drop_left' (by simp [hh, hl])]
    exact List.take_left' rfl
  · have : data = (hdr ++ (len4 ++ payload)) ++ (foot ++ trailing) := by simp [data]
    rw [this, List.drop_left' (by simp [hh, hl]; omega)]
    exact List.take_left' hf

/-! ### reading what the writers wrote; error lemmas (moved here from Props/C14) -/

/-- everything the writer puts into width-limited fields fits -/
def SegFits (crc : Bytes → Nat) (ps : List Bytes) (ts : List Nat) : Prop :=
  ps.length < 2 ^ 32 ∧ (∀ p ∈ ps, p.length < 2 ^ 32) ∧
  crc (segCovered ps.length (minOf ts) (maxOf ts)) < 2 ^ 32 ∧ crc (records ps) < 2 ^ 32

instance (crc : Bytes → Nat) (ps : List Bytes) (ts : List Nat) : Decidable (SegFits crc ps ts) := by
  unfold SegFits; infer_instance

/-- what the reader makes of a written header + arbitrary records + written footer, with
    ARBITRARY bytes in the positions no checksum covers (`pad` = header bytes 30..40, `sizes` =
    footer bytes 4..20) -/
theorem readSegParts_written {δ : Type} (strict : Bool) (crc : Bytes → Nat) (de : Bytes → Option δ)
    (n a b : Nat) (recs pad sizes : Bytes) (hs : sizes.length = 16) (hn : n < 2 ^ 32)
    (hc : crc (segCovered n a b) < 2 ^ 32) (hr : crc recs < 2 ^ 32) :
    readSegParts strict crc de (segHeaderG crc n a b pad) recs (segFooterG crc recs sizes)
      = readRecords strict de n recs := by
  obtain ⟨h1, h2, h3, h4, h5, h6⟩ := segHeader_fields crc n a b pad
  obtain ⟨f1, f2, _⟩ := segFooter_fields crc recs sizes hs
  unfold readSegParts
  simp only [h1, h2, h3, h4, h5, h6, f1, f2]
  rw [leVal_le 4 _ (by simpa using hc), leVal_le 4 _ (by simpa using hr), leVal_le 4 _ (by simpa using hn)]
  simp

theorem readSegment_written {δ : Type} (strict : Bool) (crc : Bytes → Nat) (de : Bytes → Option δ)
    (n a b : Nat) (recs pad sizes : Bytes) (hp : pad.length = 10) (hs : sizes.length = 16)
    (hn : n < 2 ^ 32) (hc : crc (segCovered n a b) < 2 ^ 32) (hr : crc recs < 2 ^ 32) :
    readSegment strict crc de (segHeaderG crc n a b pad ++ (recs ++ segFooterG crc recs sizes))
      = readRecords strict de n recs := by
  obtain ⟨_, _, f3⟩ := segFooter_fields crc recs sizes hs
  obtain ⟨p1, p2, p3, p4⟩ := seg_parts (segHeaderG crc n a b pad) recs (segFooterG crc recs sizes)
    (segHeader_length _ _ _ _ _ hp) f3
  unfold readSegment
  rw [if_neg (by rw [p1]; omega), p2, p3, p4, readSegParts_written strict crc de n a b recs pad sizes hs hn hc hr]

/-- the reader looks at nothing but header bytes 0..30, the record bytes, and footer bytes
    0..4 and 20..24 -/
theorem readSegParts_congr {δ : Type} (strict : Bool) (crc : Bytes → Nat) (de : Bytes → Option δ)
    (hdr hdr' recs foot foot' : Bytes) (hh : hdr'.take 30 = hdr.take 30)
    (hf : foot'.take 4 = foot.take 4) (hm : (foot'.drop 20).take 4 = (foot.drop 20).take 4) :
    readSegParts strict crc de hdr' recs foot' = readSegParts strict crc de hdr recs foot := by
  unfold readSegParts
  simp only [hh, hf, hm]

theorem readSegParts_err_of_header_crc {δ : Type} (strict : Bool) (crc : Bytes → Nat) (de : Bytes → Option δ)
    (hdr recs foot : Bytes)
    (h : crc ((hdr.take 30).take 26) ≠ leVal (((hdr.take 30).drop 26).take 4)) :
    IsErr (readSegParts strict crc de hdr recs foot) := by
  unfold readSegParts
  simp only
  repeat' split
  all_goals first | exact isErr_error _ | (exfalso; omega) | (exfalso; contradiction)

theorem readSegParts_err_of_magic {δ : Type} (strict : Bool) (crc : Bytes → Nat) (de : Bytes → Option δ)
    (hdr recs foot : Bytes) (h : (foot.drop 20).take 4 ≠ footMagic) :
    IsErr (readSegParts strict crc de hdr recs foot) := by
  unfold readSegParts
  simp only
  repeat' split
  all_goals first | exact isErr_error _ | (exfalso; omega) | (exfalso; contradiction)

theorem readSegParts_err_of_data_crc {δ : Type} (strict : Bool) (crc : Bytes → Nat) (de : Bytes → Option δ)
    (hdr recs foot : Bytes) (h : crc recs ≠ leVal (foot.take 4)) :
    IsErr (readSegParts strict crc de hdr recs foot) := by
  unfold readSegParts
  simp only
  repeat' split
  all_goals first | exact isErr_error _ | (exfalso; omega) | (exfalso; contradiction)

/-- the parts view is what `readSegment` computes -/
theorem readSegment_parts {δ : Type} (strict : Bool) (crc : Bytes → Nat) (de : Bytes → Option δ) (data : Bytes)
    (h : 64 ≤ data.length) :
    readSegment strict crc de data = readSegParts strict crc de (data.take 40)
      ((data.drop 40).take (data.length - 64)) (data.drop (data.length - 24)) := by
  unfold readSegment; rw [if_neg (by omega)]

/-- the last four bytes are the footer magic -/
def EndsInFooterMagic (p : Bytes) : Prop := ((p.drop (p.length - 24)).drop 20).take 4 = footMagic

instance (p : Bytes) : Decidable (EndsInFooterMagic p) := by unfold EndsInFooterMagic; infer_instance

def ChkFits (crc : Bytes → Nat) (k t l : Nat) (payload : Bytes) : Prop :=
  payload.length < 2 ^ 32 ∧ crc (chkCoveredA ++ chkCoveredB k t l) < 2 ^ 32 ∧
  crc payload < 2 ^ 32 ∧ crc (le 4 (crc payload) ++ le 8 payload.length) < 2 ^ 32

instance (crc : Bytes → Nat) (k t l : Nat) (p : Bytes) : Decidable (ChkFits crc k t l p) := by
  unfold ChkFits; infer_instance

/-- reading a written checkpoint whose uncovered bytes (header padding 6..8, reserved 32..44,
    anything after the footer) are ARBITRARY -/
theorem readCheckpoint_written {σ : Type} (crc : Bytes → Nat) (de : Bytes → Option σ)
    (k t l : Nat) (payload pad res trailing : Bytes) (hp : pad.length = 2) (hr : res.length = 12)
    (hfit : ChkFits crc k t l payload) :
    readCheckpoint crc de (chkHeaderG crc k t l pad res ++
        (le 4 payload.length ++ (payload ++ (chkFooter crc payload ++ trailing))))
      = match de payload with
        | none => .error .ser
        | some s => .ok s := by
  obtain ⟨hl, hc, hd, hf⟩ := hfit
  obtain ⟨h1, h2, h3, h4, h5⟩ := chkHeader_fields crc k t l pad res hp hr
  obtain ⟨f1, f2, f3, f4⟩ := chkFooter_fields crc payload
  obtain ⟨p1, p2, p3, p4, p5⟩ := chk_parts (chkHeaderG crc k t l pad res) (le 4 payload.length)
    payload (chkFooter crc payload) trailing (chkHeader_length _ _ _ _ _ _ hp hr) (le_length _ _)
    (chkFooter_length _ _)
  unfold readCheckpoint
  rw [if_neg (by rw [p1]; omega)]
  simp only [p2, p3, h1, h2, h3, h4, h5]
  rw [leVal_le 4 _ (by simpa using hc), leVal_le 4 _ (by simpa using hl)]
  simp only [p4, p5, f1, f2, f3, f4]
  rw [leVal_le 4 _ (by simpa using hf), leVal_le 4 _ (by simpa using hd),
    leVal_le 8 _ (by have : payload.length < 2 ^ 64 := by omega
                     simpa using this)]
  rw [if_neg (by decide), if_neg (by decide), if_neg (by simp), if_neg (by rw [p1]; omega),
    if_neg (by rw [p1]; omega), if_neg (by simp), if_neg (by decide), if_neg (by simp),
    if_neg (by simp)]
  rfl

/-- any image too short for the footer its own length field announces is rejected -/
theorem chk_err_of_short {σ : Type} (crc : Bytes → Nat) (de : Bytes → Option σ) (data : Bytes)
    (h : data.length < 52 ∨ data.length < 52 + leVal ((data.drop 48).take 4) + 16) :
    IsErr (readCheckpoint crc de data) := by
  unfold readCheckpoint
  simp only
  repeat' split
  all_goals first | exact isErr_error _ | (exfalso; omega) | (exfalso; contradiction)

theorem chk_err_of_header_crc {σ : Type} (crc : Bytes → Nat) (de : Bytes → Option σ) (data : Bytes)
    (h : crc ((data.take 48).take 6 ++ ((data.take 48).drop 8).take 24)
          ≠ leVal (((data.take 48).drop 44).take 4)) :
    IsErr (readCheckpoint crc de data) := by
  unfold readCheckpoint
  simp only
  repeat' split
  all_goals first | exact isErr_error _ | (exfalso; omega) | (exfalso; contradiction)

theorem chk_err_of_footer_crc {σ : Type} (crc : Bytes → Nat) (de : Bytes → Option σ) (data : Bytes)
    (h : let foot := (data.drop (52 + leVal ((data.drop 48).take 4))).take 16
         crc (foot.take 12) ≠ leVal ((foot.drop 12).take 4)) :
    IsErr (readCheckpoint crc de data) := by
  unfold readCheckpoint
  simp only at h ⊢
  repeat' split
  all_goals first | exact isErr_error _ | (exfalso; omega) | (exfalso; contradiction)

theorem chk_err_of_data_crc {σ : Type} (crc : Bytes → Nat) (de : Bytes → Option σ) (data : Bytes)
    (h : let dlen := leVal ((data.drop 48).take 4)
         crc ((data.drop 52).take dlen) ≠ leVal (((data.drop (52 + dlen)).take 16).take 4)) :
    IsErr (readCheckpoint crc de data) := by
  unfold readCheckpoint
  simp only at h ⊢
  repeat' split
  all_goals first | exact isErr_error _ | (exfalso; omega) | (exfalso; contradiction)

/-- an error while iterating the records is an error of the whole read -/
theorem readSegParts_isErr_of_records {δ : Type} (strict : Bool) (crc : Bytes → Nat)
    (de : Bytes → Option δ) (hdr recs foot : Bytes)
    (h : IsErr (readRecords strict de (leVal (((hdr.take 30).drop 6).take 4)) recs)) :
    IsErr (readSegParts strict crc de hdr recs foot) := by
  unfold readSegParts
  simp only
  repeat' split
  all_goals first | exact isErr_error _ | exact h

/-- the strict iterator never accepts a proper prefix of the records it was told to expect -/
theorem readRecords_strict_prefix_err {δ : Type} (de : Bytes → Option δ) (ps : List Bytes)
    (hfit : ∀ p ∈ ps, p.length < 2 ^ 32) (m : Nat) (hm : m < (records ps).length) :
    IsErr (readRecords true de ps.length ((records ps).take m)) := by
  induction ps generalizing m with
  | nil => simp [records] at hm
  | cons p ps ih =>
    have hp := hfit p (by simp)
    simp only [records, List.flatMap_cons, List.length_cons] at hm ⊢
    rw [List.take_append]
    by_cases hlt : m < (record p).length
    · have h0 : m - (record p).length = 0 := by omega
      rw [h0, List.take_zero, List.append_nil]
      rw [record_length] at hlt
      unfold readRecords
      simp only [List.length_take, record_length]
      by_cases hz : m = 0
      · subst hz; simp; exact isErr_error _
      · rw [if_neg (by omega)]
        by_cases h4 : m < 4
        · rw [if_pos (by omega)]; exact isErr_error _
        · rw [if_neg (by omega)]
          have e1 : ((record p).take m).take 4 = le 4 p.length := by
            rw [List.take_take, Nat.min_eq_left (by omega)]
            unfold record; exact List.take_left' (le_length _ _)
          have e2 : ((record p).take m).drop 4 = p.take (m - 4) := by
            unfold record
            rw [List.take_append, List.take_of_length_le (by rw [le_length]; omega), le_length,
              List.drop_left' (le_length _ _)]
          simp only [e1, e2]
          rw [leVal_le 4 _ (by simpa using hp), if_pos (by rw [List.length_take]; omega)]
          exact isErr_error _
    · rw [List.take_of_length_le (by omega)]
      have hm' : m - (record p).length < (List.flatMap record ps).length := by
        rw [List.length_append] at hm; omega
      have hrec := ih (fun q hq => hfit q (by simp [hq])) (m - (record p).length) hm'
      unfold readRecords
      have hl : (record p ++ List.take (m - (record p).length) (List.flatMap record ps)).length
          = 4 + p.length + (List.take (m - (record p).length) (List.flatMap record ps)).length := by
        rw [List.length_append, record_length]
      rw [if_neg (by rw [hl]; omega), if_neg (by rw [hl]; omega)]
      have e1 : (record p ++ List.take (m - (record p).length) (List.flatMap record ps)).take 4
          = le 4 p.length := by
        unfold record; rw [List.append_assoc]; exact List.take_left' (le_length _ _)
      have e2 : (record p ++ List.take (m - (record p).length) (List.flatMap record ps)).drop 4
          = p ++ List.take (m - (record p).length) (List.flatMap record ps) := by
        unfold record; rw [List.append_assoc]; exact List.drop_left' (le_length _ _)
      simp only [e1, e2]
      rw [leVal_le 4 _ (by simpa using hp), if_neg (by rw [List.length_append]; omega),
        List.take_left' rfl, List.drop_left' rfl]
      cases de p with
      | none => exact isErr_error _
      | some d =>
        simp only
        unfold records at hrec
        obtain ⟨e, he⟩ := hrec
        rw [he]
        exact isErr_error _

end RedisVerif.Codec
