import RedisVerif.Model.Codec
import RedisVerif.Lemmas.Wal

/-! Helper lemmas about the segment / checkpoint framing model. -/
namespace RedisVerif.Codec
open Wal

/-- re-encoding a parsed little-endian field gives the bytes back (byte-valued lists):
    why the model may use the raw header bytes where the Rust code re-serialises the
    parsed fields before hashing them -/
theorem le_leVal (bs : Bytes) (hb : ∀ b ∈ bs, b < 256) : le bs.length (leVal bs) = bs := by
  induction bs with
  | nil => rfl
  | cons b bs ih =>
    have hb0 := hb b (by simp)
    simp only [List.length_cons, le, leVal]
    rw [show (b + 256 * leVal bs) % 256 = b by omega,
      show (b + 256 * leVal bs) / 256 = leVal bs by omega, ih (fun x hx => hb x (by simp [hx]))]

theorem segCovered_length (n a b : Nat) : (segCovered n a b).length = 26 := by
  simp [segCovered, segMagic, le_length]

/-- a segment header with ARBITRARY bytes in the 10 padding positions 30..40 -/
def segHeaderG (crc : Bytes → Nat) (n a b : Nat) (pad : Bytes) : Bytes :=
  segCovered n a b ++ (le 4 (crc (segCovered n a b)) ++ pad)

/-- a segment footer with ARBITRARY bytes in the two size fields (positions 4..20) -/
def segFooterG (crc : Bytes → Nat) (recs sizes : Bytes) : Bytes :=
  le 4 (crc recs) ++ (sizes ++ footMagic)

theorem segHeader_eq (crc : Bytes → Nat) (n a b : Nat) :
    segHeader crc n a b = segHeaderG crc n a b (List.replicate 10 0) := rfl

theorem segFooter_eq (crc : Bytes → Nat) (recs : Bytes) :
    segFooter crc recs = segFooterG crc recs (le 8 recs.length ++ le 8 recs.length) := by
  simp [segFooter, segFooterG]

/-- the parsed view of a written header -/
theorem segHeader_fields (crc : Bytes → Nat) (n a b : Nat) (pad : Bytes) :
    let h := (segHeaderG crc n a b pad).take 30
    h.take 4 = segMagic ∧ (h.drop 4).take 1 = [1] ∧ h.take 26 = segCovered n a b ∧
    (h.drop 26).take 4 = le 4 (crc (segCovered n a b)) ∧ (h.drop 5).take 1 = [0] ∧
    (h.drop 6).take 4 = le 4 n := by
  intro h
  have hh : h = segCovered n a b ++ le 4 (crc (segCovered n a b)) := by
    show (segHeaderG crc n a b pad).take 30 = _
    unfold segHeaderG
    rw [← List.append_assoc]
    exact List.take_left' (by rw [List.length_append, segCovered_length, le_length])
  have hc : segCovered n a b = segMagic ++ ([1, 0] ++ (le 4 n ++ (le 8 a ++ le 8 b))) := rfl
  refine ⟨?_, ?_, ?_, ?_, ?_, ?_⟩
  · rw [hh, hc, List.append_assoc]; exact List.take_left' rfl
  · rw [hh, hc, List.append_assoc, List.drop_left' (by rfl)]; rfl
  · rw [hh]; exact List.take_left' (segCovered_length _ _ _)
  · rw [hh, List.drop_left' (segCovered_length _ _ _)]; exact List.take_left' (le_length _ _)
  · rw [hh, hc]; rfl
  · rw [hh, hc]
    have : segMagic ++ ([1, 0] ++ (le 4 n ++ (le 8 a ++ le 8 b))) ++ le 4 (crc (segMagic ++ ([1, 0] ++ (le 4 n ++ (le 8 a ++ le 8 b)))))
        = (segMagic ++ [1, 0]) ++ (le 4 n ++ ((le 8 a ++ le 8 b) ++ le 4 (crc (segMagic ++ ([1, 0] ++ (le 4 n ++ (le 8 a ++ le 8 b))))))) := by
      simp
    rw [this, List.drop_left' (by rfl)]
    exact List.take_left' (le_length _ _)

theorem segFooter_fields (crc : Bytes → Nat) (recs sizes : Bytes) (hs : sizes.length = 16) :
    (segFooterG crc recs sizes).take 4 = le 4 (crc recs) ∧
    ((segFooterG crc recs sizes).drop 20).take 4 = footMagic ∧
    (segFooterG crc recs sizes).length = 24 := by
  unfold segFooterG
  refine ⟨List.take_left' (le_length _ _), ?_, ?_⟩
  · have : le 4 (crc recs) ++ (sizes ++ footMagic) = (le 4 (crc recs) ++ sizes) ++ footMagic := by simp
    rw [this, List.drop_left' (by simp [le_length, hs])]
    rfl
  · simp [le_length, footMagic, hs]

theorem record_length (p : Bytes) : (record p).length = 4 + p.length := by
  simp [record, le_length]

/-- reading back the records of a writer: `count` ≥ number of records, trailing `[]` -/
theorem readRecords_records {δ : Type} (ser : δ → Bytes) (de : Bytes → Option δ) (ds : List δ)
    (hde : ∀ d ∈ ds, de (ser d) = some d) (hfit : ∀ d ∈ ds, (ser d).length < 2 ^ 32) (k : Nat) :
    readRecords de (ds.length + k) (records (ds.map ser)) = .ok ds := by
  induction ds with
  | nil =>
    cases k with
    | zero => rfl
    | succ k => simp [readRecords, records]
  | cons d ds ih =>
    have hd := hde d (by simp)
    have hf := hfit d (by simp)
    have hlen : (d :: ds).length + k = (ds.length + k) + 1 := by simp; omega
    rw [hlen]
    simp only [List.map_cons, records, List.flatMap_cons, readRecords]
    have h0 : (record (ser d) ++ List.flatMap record (List.map ser ds)).length ≠ 0 := by
      rw [List.length_append, record_length]; omega
    have h4 : ¬ (record (ser d) ++ List.flatMap record (List.map ser ds)).length < 4 := by
      rw [List.length_append, record_length]; omega
    rw [if_neg h0, if_neg h4]
    have e1 : (record (ser d) ++ List.flatMap record (List.map ser ds)).take 4 = le 4 (ser d).length := by
      unfold record; rw [List.append_assoc]; exact List.take_left' (le_length _ _)
    have e2 : (record (ser d) ++ List.flatMap record (List.map ser ds)).drop 4
        = ser d ++ List.flatMap record (List.map ser ds) := by
      unfold record; rw [List.append_assoc]; exact List.drop_left' (le_length _ _)
    simp only [e1, e2]
    rw [leVal_le 4 _ (by simpa using hf), if_neg (by rw [List.length_append]; omega),
      List.take_left' rfl, hd, List.drop_left' rfl]
    simp only
    have := ih (fun x hx => hde x (by simp [hx])) (fun x hx => hfit x (by simp [hx]))
    unfold records at this
    rw [this]

/-- the three parts of an image `hdr ++ (recs ++ foot)` -/
theorem seg_parts (hdr recs foot : Bytes) (hh : hdr.length = 40) (hf : foot.length = 24) :
    let data := hdr ++ (recs ++ foot)
    data.length = 64 + recs.length ∧ data.take 40 = hdr ∧
    (data.drop 40).take (data.length - 64) = recs ∧ data.drop (data.length - 24) = foot := by
  intro data
  have hl : data.length = 64 + recs.length := by
    simp only [data, List.length_append, hh, hf]; omega
  refine ⟨hl, List.take_left' hh, ?_, ?_⟩
  · rw [List.drop_left' hh, hl]
    exact List.take_left' (by omega)
  · have : data = (hdr ++ recs) ++ foot := by simp [data]
    rw [this]
    exact List.drop_left' (by rw [← this, hl, List.length_append, hh]; omega)

theorem segHeader_length (crc : Bytes → Nat) (n a b : Nat) (pad : Bytes) (hp : pad.length = 10) :
    (segHeaderG crc n a b pad).length = 40 := by
  simp [segHeaderG, segCovered_length, le_length, hp]

instance {ε α : Type} [DecidableEq ε] [DecidableEq α] : DecidableEq (Except ε α)
  | .ok a, .ok b => if h : a = b then isTrue (by rw [h]) else isFalse (by intro h'; cases h'; exact h rfl)
  | .error a, .error b => if h : a = b then isTrue (by rw [h]) else isFalse (by intro h'; cases h'; exact h rfl)
  | .ok _, .error _ => isFalse (by intro h; cases h)
  | .error _, .ok _ => isFalse (by intro h; cases h)

/-- an error of one of the integrity checks is an error of the whole read -/
def IsErr {α : Type} (r : Res α) : Prop := ∃ e, r = .error e

theorem isErr_error {α : Type} (e : Err) : IsErr (.error e : Res α) := ⟨e, rfl⟩

/-! ### checkpoint -/

/-- a checkpoint header with ARBITRARY bytes in the padding (6..8) and reserved (32..44)
    positions -/
def chkHeaderG (crc : Bytes → Nat) (k t l : Nat) (pad res : Bytes) : Bytes :=
  chkCoveredA ++ (pad ++ (chkCoveredB k t l ++ (res ++ le 4 (crc (chkCoveredA ++ chkCoveredB k t l)))))

theorem chkHeader_eq (crc : Bytes → Nat) (k t l : Nat) :
    chkHeader crc k t l = chkHeaderG crc k t l [0, 0] (List.replicate 12 0) := rfl

theorem chkCoveredB_length (k t l : Nat) : (chkCoveredB k t l).length = 24 := by
  simp [chkCoveredB, le_length]

theorem chkHeader_length (crc : Bytes → Nat) (k t l : Nat) (pad res : Bytes)
    (hp : pad.length = 2) (hr : res.length = 12) : (chkHeaderG crc k t l pad res).length = 48 := by
  simp [chkHeaderG, chkCoveredA, chkCoveredB_length, chkMagic, le_length, hp, hr]

theorem chkFooter_length (crc : Bytes → Nat) (p : Bytes) : (chkFooter crc p).length = 16 := by
  simp [chkFooter, le_length]

theorem chkHeader_fields (crc : Bytes → Nat) (k t l : Nat) (pad res : Bytes)
    (hp : pad.length = 2) (hr : res.length = 12) :
    let h := chkHeaderG crc k t l pad res
    h.take 4 = chkMagic ∧ (h.drop 4).take 1 = [1] ∧ (h.drop 5).take 1 = [0] ∧
    h.take 6 ++ (h.drop 8).take 24 = chkCoveredA ++ chkCoveredB k t l ∧
    (h.drop 44).take 4 = le 4 (crc (chkCoveredA ++ chkCoveredB k t l)) := by
  intro h
  have e1 : h.take 6 = chkCoveredA := List.take_left' rfl
  have e2 : h.drop 8 = chkCoveredB k t l ++ (res ++ le 4 (crc (chkCoveredA ++ chkCoveredB k t l))) := by
    have : h = (chkCoveredA ++ pad) ++ (chkCoveredB k t l ++ (res ++ le 4 (crc (chkCoveredA ++ chkCoveredB k t l)))) := by
      simp [h, chkHeaderG]
    rw [this]
    exact List.drop_left' (by simp [chkCoveredA, chkMagic, hp])
  have e3 : h.drop 44 = le 4 (crc (chkCoveredA ++ chkCoveredB k t l)) := by
    have : h.drop 44 = (h.drop 8).drop 36 := by rw [List.drop_drop]
    rw [this, e2, ← List.append_assoc]
    exact List.drop_left' (by simp [chkCoveredB_length, hr])
  refine ⟨?_, ?_, ?_, ?_, ?_⟩
  · show (chkCoveredA ++ _).take 4 = _
    unfold chkCoveredA; rw [List.append_assoc]; exact List.take_left' rfl
  · show ((chkCoveredA ++ _).drop 4).take 1 = _
    unfold chkCoveredA; rw [List.append_assoc, List.drop_left' (by rfl)]; rfl
  · show ((chkCoveredA ++ _).drop 5).take 1 = _
    unfold chkCoveredA chkMagic; rfl
  · rw [e1, e2, List.take_left' (chkCoveredB_length _ _ _)]
  · rw [e3]; exact List.take_of_length_le (by rw [le_length]; omega)

theorem chkFooter_fields (crc : Bytes → Nat) (p : Bytes) :
    let f := chkFooter crc p
    f.take 12 = le 4 (crc p) ++ le 8 p.length ∧
    (f.drop 12).take 4 = le 4 (crc (le 4 (crc p) ++ le 8 p.length)) ∧
    f.take 4 = le 4 (crc p) ∧ (f.drop 4).take 8 = le 8 p.length := by
  intro f
  have hl : (le 4 (crc p) ++ le 8 p.length).length = 12 := by simp [le_length]
  refine ⟨List.take_left' hl, ?_, ?_, ?_⟩
  · show (((le 4 (crc p) ++ le 8 p.length) ++ _).drop 12).take 4 = _
    rw [List.drop_left' hl]; exact List.take_of_length_le (by rw [le_length]; omega)
  · show ((le 4 (crc p) ++ le 8 p.length) ++ _).take 4 = _
    rw [List.append_assoc]; exact List.take_left' (le_length _ _)
  · show (((le 4 (crc p) ++ le 8 p.length) ++ _).drop 4).take 8 = _
    rw [List.append_assoc, List.drop_left' (le_length _ _)]; exact List.take_left' (le_length _ _)

/-- the parts of a checkpoint image `hdr ++ (len4 ++ (payload ++ (foot ++ trailing)))` -/
theorem chk_parts (hdr len4 payload foot trailing : Bytes)
    (hh : hdr.length = 48) (hl : len4.length = 4) (hf : foot.length = 16) :
    let data := hdr ++ (len4 ++ (payload ++ (foot ++ trailing)))
    data.length = 68 + payload.length + trailing.length ∧ data.take 48 = hdr ∧
    (data.drop 48).take 4 = len4 ∧ (data.drop 52).take payload.length = payload ∧
    (data.drop (52 + payload.length)).take 16 = foot := by
  intro data
  refine ⟨?_, List.take_left' hh, ?_, ?_, ?_⟩
  · simp only [data, List.length_append, hh, hl, hf]; omega
  · rw [List.drop_left' hh]; exact List.take_left' hl
  · have : data = (hdr ++ len4) ++ (payload ++ (foot ++ trailing)) := by simp [data]
    rw [this, List.drop_left' (by simp [hh, hl])]
    exact List.take_left' rfl
  · have : data = (hdr ++ (len4 ++ payload)) ++ (foot ++ trailing) := by simp [data]
    rw [this, List.drop_left' (by simp [hh, hl]; omega)]
    exact List.take_left' hf

end RedisVerif.Codec
