import RedisVerif.Lemmas.SkipListInsert
namespace RedisVerif.SkipList
open RedisVerif RedisVerif.Redis

/-! ## the loops of `insert_internal` as instances of `perLevel` -/

def fBump : SL → Nat → Nat → Nat → Option Nat := fun sl u _ j => (spanAt sl u j).map (· + 1)

theorem bumpLevels_eq : ∀ (l : List (Nat × Nat)) (i : Nat) (sl : SL), bumpLevels l i sl = perLevel fBump l i sl
  | [], _, _ => rfl
  | (u, r) :: rest, i, sl => by
    simp only [bumpLevels, perLevel, fBump]
    cases spanAt sl u i with
    | none => rfl
    | some s => simp only [Option.map_some]; exact bumpLevels_eq rest (i + 1) _

theorem fBump_cong : ∀ a b u r j, Agree j a b → fBump a u r j = fBump b u r j := by
  intro a b u r j h; simp only [fBump, h.1 u]

def fLink (r0 : Nat) : SL → Nat → Nat → Nat → Option Nat := fun sl u r j =>
  match spanAt sl u j with
  | none => none
  | some old => if r0 < r ∨ old < r0 - r then none else some (r0 - r + 1)

theorem fLink_cong (r0 : Nat) : ∀ a b u r j, Agree j a b → fLink r0 a u r j = fLink r0 b u r j := by
  intro a b u r j h; simp only [fLink, h.1 u]

/-- the spans the new node receives -/
def linkSpans (r0 : Nat) : List (Nat × Nat) → Nat → SL → List Nat
  | [], _, _ => []
  | (u, r) :: rest, i, sl => ((spanAt sl u i).getD 0 - (r0 - r)) :: linkSpans r0 rest (i + 1) sl

theorem linkSpans_congr (r0 : Nat) : ∀ (l : List (Nat × Nat)) (i : Nat) (a b : SL),
    (∀ j q, i ≤ j → spanAt a q j = spanAt b q j) → linkSpans r0 l i a = linkSpans r0 l i b
  | [], _, _, _, _ => rfl
  | (u, r) :: rest, i, a, b, h => by
    simp only [linkSpans, h i u (Nat.le_refl _)]
    rw [linkSpans_congr r0 rest (i + 1) a b (fun j q hj => h j q (by omega))]

theorem linkLevels_eq (r0 : Nat) : ∀ (l : List (Nat × Nat)) (i : Nat) (sl : SL),
    linkLevels r0 l i sl = (perLevel (fLink r0) l i sl).map (fun s => (s, linkSpans r0 l i sl))
  | [], _, _ => rfl
  | (u, r) :: rest, i, sl => by
    simp only [linkLevels, perLevel, fLink, linkSpans]
    cases hs : spanAt sl u i with
    | none => rfl
    | some old =>
      simp only
      split
      · rfl
      · rw [linkLevels_eq r0 rest (i + 1)]
        rw [linkSpans_congr r0 rest (i + 1) (setSpan sl u i (r0 - r + 1)) sl
          (fun j q hj => by rw [spanAt_setSpan]; simp; omega)]
        cases hp : perLevel (fLink r0) rest (i + 1) (setSpan sl u i (r0 - r + 1)) with
        | none => simp [hp]
        | some s => simp [hp]

theorem length_linkSpans (r0 : Nat) : ∀ (l : List (Nat × Nat)) (i : Nat) (sl : SL),
    (linkSpans r0 l i sl).length = l.length
  | [], _, _ => rfl
  | (_, _) :: rest, i, sl => by simp [linkSpans, length_linkSpans r0 rest (i + 1) sl]

theorem getElem?_linkSpans (r0 : Nat) : ∀ (l : List (Nat × Nat)) (i : Nat) (sl : SL) (k u r : Nat),
    l[k]? = some (u, r) → (linkSpans r0 l i sl)[k]? = some ((spanAt sl u (i + k)).getD 0 - (r0 - r))
  | [], _, _, _, _, _, h => by simp at h
  | (u', r') :: rest, i, sl, k, u, r, h => by
    cases k with
    | zero => simp at h; obtain ⟨rfl, rfl⟩ := h; simp [linkSpans]
    | succ k =>
      simp only [linkSpans, List.getElem?_cons_succ]
      rw [getElem?_linkSpans r0 rest (i + 1) sl k u r (by simpa using h)]
      have : i + 1 + k = i + (k + 1) := by omega
      rw [this]

/-! ## the arrays -/

theorem getElem?_initHdr : ∀ (n : Nat) (hdr : List Nat) (len i j : Nat),
    (initHdr hdr len i n)[j]? = if i ≤ j ∧ j < i + n ∧ j < hdr.length then some len else hdr[j]?
  | 0, hdr, len, i, j => by simp [initHdr]; omega
  | n + 1, hdr, len, i, j => by
    simp only [initHdr]
    rw [getElem?_initHdr n (hdr.set i len) len (i + 1) j]
    simp only [List.length_set, List.getElem?_set]
    by_cases h1 : i + 1 ≤ j ∧ j < i + 1 + n ∧ j < hdr.length
    · rw [if_pos h1, if_pos (by omega)]
    · rw [if_neg h1]
      by_cases h2 : i = j
      · subst h2
        by_cases h3 : i < hdr.length
        · simp [h3]
        · simp [h3]
      · simp only [h2, if_false]
        rw [if_neg (by omega)]

theorem length_initHdr : ∀ (n : Nat) (hdr : List Nat) (len i : Nat), (initHdr hdr len i n).length = hdr.length
  | 0, _, _, _ => rfl
  | n + 1, hdr, len, i => by simp [initHdr, length_initHdr n]

theorem getElem?_resetSlots (ur : List (Nat × Nat)) (lo hi j : Nat) (hlo : lo ≤ hi) (hhi : hi ≤ ur.length) :
    (resetSlots ur lo hi)[j]? = if lo ≤ j ∧ j < hi then some (0, 0) else ur[j]? := by
  unfold resetSlots
  by_cases h1 : j < lo
  · rw [List.append_assoc, List.getElem?_append_left (by simp; omega)]
    simp [h1]; omega
  · by_cases h2 : j < hi
    · rw [List.append_assoc, List.getElem?_append_right (by simp; omega)]
      rw [List.getElem?_append_left (by simp; omega)]
      have hlen : (List.take lo ur).length = lo := by simp; omega
      rw [hlen, if_pos (by omega)]
      simp [List.getElem?_replicate]; omega
    · rw [List.getElem?_append_right (by simp; omega)]
      simp only [List.length_append, List.length_take, List.length_replicate, List.getElem?_drop]
      have : hi + (j - (min lo ur.length + (hi - lo))) = j := by omega
      rw [this, if_neg (by omega)]

theorem length_resetSlots (ur : List (Nat × Nat)) (lo hi : Nat) (hlo : lo ≤ hi) (hhi : hi ≤ ur.length) :
    (resetSlots ur lo hi).length = ur.length := by
  simp [resetSlots]; omega

end RedisVerif.SkipList
