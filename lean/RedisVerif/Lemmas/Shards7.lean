import RedisVerif.Model.Shards7
import RedisVerif.Lemmas.Shards
import RedisVerif.Lemmas.RedisLocal

/-!
  The sharding model instantiated with the M7 reference executor (`Model/Shards7.lean`):
  locality is a theorem (`exec7_local`), the natively modelled multi-key commands of the sharding
  model coincide with M7's (`exec7_inject`), sweeps (`set_time`) are unobservable, and a timed
  command on `R.N` shards refines `Redis.step` on one store (`step7_refines`), hence every timed run
  with monotone virtual time (`run7_refines`).
-/
namespace RedisVerif
namespace Shards
namespace M7

open NMap
open Redis (Entry LocalOn cmdKeys exec_localOn live purge)

/-! ## locality of the M7 instance — no longer an assumption -/

theorem exec1_pos {s : Store sig7.Val} {k : Key} {op : sig7.Op} (h : cmdKeys op.2 = some [k]) :
    exec7.exec1 s k op = ((Redis.exec s op.1 op.2).1, .one (.ext (Redis.exec s op.1 op.2).2)) := by
  show (if cmdKeys op.2 = some [k] then _ else _) = _
  rw [if_pos h]

theorem exec1_neg {s : Store sig7.Val} {k : Key} {op : sig7.Op} (h : ¬ cmdKeys op.2 = some [k]) :
    exec7.exec1 s k op = (s, .one (.err 0)) := by
  show (if cmdKeys op.2 = some [k] then _ else _) = _
  rw [if_neg h]

theorem exec2_pos {s : Store sig7.Val} {a b : Key} {op : sig7.Op2} (h : cmdKeys op.2 = some [a, b]) :
    exec7.exec2 s a b op = ((Redis.exec s op.1 op.2).1, .one (.ext (Redis.exec s op.1 op.2).2)) := by
  show (if cmdKeys op.2 = some [a, b] then _ else _) = _
  rw [if_pos h]

theorem exec2_neg {s : Store sig7.Val} {a b : Key} {op : sig7.Op2} (h : ¬ cmdKeys op.2 = some [a, b]) :
    exec7.exec2 s a b op = (s, .one (.err 0)) := by
  show (if cmdKeys op.2 = some [a, b] then _ else _) = _
  rw [if_neg h]

/-- **the locality law of the sharding model holds for the M7 reference executor** -/
theorem exec7_local : Exec.Local exec7 where
  wf1 := by
    intro s k op hs
    by_cases h : cmdKeys op.2 = some [k]
    · rw [exec1_pos h]; exact (exec_localOn op.1 op.2 [k] h).wf s hs
    · rw [exec1_neg h]; exact hs
  frame1 := by
    intro s k op k' hs hk
    by_cases h : cmdKeys op.2 = some [k]
    · rw [exec1_pos h]; exact (exec_localOn op.1 op.2 [k] h).frame s k' hs (by simpa using hk)
    · rw [exec1_neg h]
  local1 := by
    intro s s' k op hs hs' hg
    by_cases h : cmdKeys op.2 = some [k]
    · rw [exec1_pos h, exec1_pos h]
      obtain ⟨e1, e2⟩ := (exec_localOn op.1 op.2 [k] h).loc s s' hs hs' (by simpa using hg)
      exact ⟨by show Reply.one (.ext _) = Reply.one (.ext _); rw [e1], e2 k (by simp)⟩
    · rw [exec1_neg h, exec1_neg h]; exact ⟨rfl, hg⟩
  wf2 := by
    intro s a b op hs
    by_cases h : cmdKeys op.2 = some [a, b]
    · rw [exec2_pos h]; exact (exec_localOn op.1 op.2 [a, b] h).wf s hs
    · rw [exec2_neg h]; exact hs
  frame2 := by
    intro s a b op k' hs hka hkb
    by_cases h : cmdKeys op.2 = some [a, b]
    · rw [exec2_pos h]; exact (exec_localOn op.1 op.2 [a, b] h).frame s k' hs (by simp [hka, hkb])
    · rw [exec2_neg h]
  local2 := by
    intro s s' a b op hs hs' hga hgb
    by_cases h : cmdKeys op.2 = some [a, b]
    · rw [exec2_pos h, exec2_pos h]
      obtain ⟨e1, e2⟩ := (exec_localOn op.1 op.2 [a, b] h).loc s s' hs hs'
        (by intro k hk; simp at hk; rcases hk with rfl | rfl <;> assumption)
      exact ⟨by show Reply.one (.ext _) = Reply.one (.ext _); rw [e1], e2 a (by simp), e2 b (by simp)⟩
    · rw [exec2_neg h, exec2_neg h]; exact ⟨rfl, hga, hgb⟩

/-! ## the natively modelled multi-key commands are M7's -/

theorem single_ok (s : Store sig7.Val) (now k : Nat) (c : Redis.Cmd) (h : cmdKeys c = some [k]) :
    (exec7.exec s (.single k (now, c))).1 = (Redis.exec s now c).1 ∧
    replyEqv7 (exec7.exec s (.single k (now, c))).2 (Redis.exec s now c).2 = true := by
  show (exec7.exec1 s k (now, c)).1 = _ ∧ replyEqv7 (exec7.exec1 s k (now, c)).2 _ = true
  rw [exec1_pos (op := (now, c)) h]
  exact ⟨rfl, by simp [replyEqv7, toM7]⟩

theorem two_ok (s : Store sig7.Val) (now a b : Nat) (c : Redis.Cmd) (h : cmdKeys c = some [a, b]) :
    (exec7.exec s (.two a b (now, c))).1 = (Redis.exec s now c).1 ∧
    replyEqv7 (exec7.exec s (.two a b (now, c))).2 (Redis.exec s now c).2 = true := by
  show (exec7.exec2 s a b (now, c)).1 = _ ∧ replyEqv7 (exec7.exec2 s a b (now, c)).2 _ = true
  rw [exec2_pos (op := (now, c)) h]
  exact ⟨rfl, by simp [replyEqv7, toM7]⟩


theorem elemOf_mgetSlot (s : Store sig7.Val) (k : Nat) : elemOf (mgetSlot exec7 s k) = Redis.mgetElem s k := by
  unfold mgetSlot Redis.mgetElem Redis.lookupStr
  cases get s k with
  | none => rfl
  | some e =>
    obtain ⟨v, dl⟩ := e
    cases v <;> rfl

theorem foldl_setStr_eq (kvs : List (Nat × Bytes)) (s : Store sig7.Val) :
    kvs.foldl (setStr exec7) s = Redis.msetAll s kvs := by
  induction kvs generalizing s with
  | nil => rfl
  | cons kv kvs ih => obtain ⟨k, v⟩ := kv; exact ih _

theorem erase_of_get_none {ν : Type} {m : NMap ν} (h : WF m) {k : Nat} (hg : get m k = none) :
    erase k m = m := by
  apply NMap.ext (wf_erase h) h
  intro k'
  rw [get_erase h]
  split
  · rename_i e; rw [e, hg]
  · rfl

theorem delKeys_eq (ks : List Nat) (s : Store sig7.Val) (hs : WF s) :
    (Shards.delKeys s ks).1 = (Redis.delKeys s ks).1 ∧ (Shards.delKeys s ks).2 = (Redis.delKeys s ks).2 := by
  induction ks generalizing s with
  | nil => exact ⟨rfl, rfl⟩
  | cons k ks ih =>
    cases hg : get s k with
    | none =>
      have e0 : Redis.delKeys s (k :: ks) = Redis.delKeys s ks := by simp only [Redis.delKeys, hg]
      have e3 : Shards.delKeys s (k :: ks) = ((Shards.delKeys s ks).1, 0 + (Shards.delKeys s ks).2) := by
        simp only [Shards.delKeys, present, hg, erase_of_get_none hs hg]; rfl
      obtain ⟨e1, e2⟩ := ih s hs
      rw [e0, e3]
      exact ⟨e1, by simp [e2]⟩
    | some e =>
      have e0 : Redis.delKeys s (k :: ks) =
          ((Redis.delKeys (erase k s) ks).1, (Redis.delKeys (erase k s) ks).2 + 1) := by
        simp only [Redis.delKeys, hg]
      have e3 : Shards.delKeys s (k :: ks) =
          ((Shards.delKeys (erase k s) ks).1, 1 + (Shards.delKeys (erase k s) ks).2) := by
        simp only [Shards.delKeys, present, hg]; rfl
      obtain ⟨e1, e2⟩ := ih _ (wf_erase (k := k) hs)
      rw [e0, e3]
      exact ⟨e1, by simp only [e2]; omega⟩

/-- the sharding model's view of an M7 command on ONE executor is the M7 command -/
theorem exec7_inject (s : Store sig7.Val) (now : Nat) (c : Redis.Cmd) (hs : WF s) (hr : ∀ ch, c ≠ .randomkey ch) :
    (exec7.exec s (inject now c)).1 = (Redis.exec s now c).1 ∧
    replyEqv7 (exec7.exec s (inject now c)).2 (Redis.exec s now c).2 = true := by
  cases c
  all_goals first
    | exact single_ok s now _ _ rfl
    | exact two_ok s now _ _ _ rfl
    | skip
  case mget ks =>
    refine ⟨rfl, ?_⟩
    show replyEqv7 (.many (ks.map (mgetSlot exec7 s))) (.arr (ks.map (Redis.mgetElem s))) = true
    simp only [replyEqv7, toM7, List.map_map]
    have : ks.map (elemOf ∘ mgetSlot exec7 s) = ks.map (Redis.mgetElem s) :=
      List.map_congr_left (fun k _ => elemOf_mgetSlot s k)
    simp [this]
  case mset kvs =>
    refine ⟨foldl_setStr_eq kvs s, ?_⟩
    show replyEqv7 (.one .ok) Redis.Reply.ok = true
    simp [replyEqv7, toM7]
  case msetnx kvs =>
    show (if kvs.any (fun kv => present s kv.1) then (s, Reply.one (.int 0)) else (kvs.foldl (setStr exec7) s, .one (.int 1))).1
        = (if kvs.any (fun p => (get s p.1).isSome) then (s, Redis.Reply.int 0) else (Redis.msetAll s kvs, .int 1)).1 ∧
      replyEqv7 (if kvs.any (fun kv => present s kv.1) then (s, Reply.one (.int 0)) else (kvs.foldl (setStr exec7) s, .one (.int 1))).2
        (if kvs.any (fun p => (get s p.1).isSome) then (s, Redis.Reply.int 0) else (Redis.msetAll s kvs, .int 1)).2 = true
    cases hb : kvs.any (fun p : Nat × Redis.BS => (get s p.1).isSome)
    · simp [present, hb, replyEqv7, toM7]
      exact foldl_setStr_eq kvs s
    · simp [present, hb, replyEqv7, toM7]
  case del ks =>
    obtain ⟨e1, e2⟩ := delKeys_eq ks s hs
    refine ⟨e1, ?_⟩
    show replyEqv7 (.one (.int (Shards.delKeys s ks).2)) (.int (Redis.delKeys s ks).2) = true
    simp [replyEqv7, toM7, e2]
  case «exists» ks =>
    refine ⟨rfl, ?_⟩
    show replyEqv7 (.one (.int (existsCount s ks))) (.int (ks.filter (fun k => (get s k).isSome)).length) = true
    simp only [replyEqv7, toM7, existsCount]
    have : ks.filter (present s) = ks.filter (fun k => (get s k).isSome) := rfl
    simp [this]
  case keys =>
    refine ⟨rfl, ?_⟩
    show replyEqv7 (.keys ((NMap.keys s).filter (fun _ => true))) (.arr (s.map (fun p => Redis.Elem.key p.1))) = true
    have : (NMap.keys s).filter (fun _ => true) = NMap.keys s := List.filter_eq_self.mpr (fun _ _ => rfl)
    rw [this]
    simp only [replyEqv7, NMap.keys, List.isPerm_iff, List.map_map]
    exact List.Perm.refl _
  case dbsize => exact ⟨rfl, by show replyEqv7 (.one (.int s.length)) (.int s.length) = true; simp [replyEqv7, toM7]⟩
  case flushdb => exact ⟨rfl, by show replyEqv7 (.one .ok) Redis.Reply.ok = true; simp [replyEqv7, toM7]⟩
  case flushall => exact ⟨rfl, by show replyEqv7 (.one .ok) Redis.Reply.ok = true; simp [replyEqv7, toM7]⟩
  case randomkey ch => exact absurd rfl (hr ch)
  case sort k st =>
    cases st with
    | none => exact single_ok s now _ _ rfl
    | some d => exact two_ok s now _ _ _ rfl
/-! ## what a reader at time `t` sees of a slot -/

/-- an entry as seen at time `t`: absent once its deadline has been reached -/
def lv (t : Nat) (o : Option Entry) : Option Entry := o.filter (live t)

theorem live_mono {a b : Nat} (h : a ≤ b) (e : Entry) (hl : live b e = true) : live a e = true := by
  unfold live at *
  cases hd : e.dl with
  | none => rfl
  | some d => rw [hd] at hl; simp only [decide_eq_true_eq] at hl ⊢; omega

theorem lv_lv {a b : Nat} (h : a ≤ b) (o : Option Entry) : lv b (lv a o) = lv b o := by
  cases o with
  | none => rfl
  | some e =>
    by_cases hb : live b e = true
    · have ha := live_mono h e hb
      simp [lv, Option.filter, ha, hb]
    · by_cases ha : live a e = true <;> simp [lv, Option.filter, ha, hb]

theorem get_purge_lv {s : Redis.State} (hs : WF s) (now k : Nat) : get (purge s now) k = lv now (get s k) :=
  Redis.get_purge hs now k

/-! ## sweeps -/

theorem length_sweepFrom (W : Nat → Bool) (now : Nat) (j : Nat) (st : Shards Entry) :
    (sweepFrom W now j st).length = st.length := by
  induction st generalizing j with
  | nil => rfl
  | cons s rest ih => simp [sweepFrom, ih]

theorem shard_sweepFrom (W : Nat → Bool) (now : Nat) (j : Nat) (st : Shards Entry) (i : Nat) :
    shard (sweepFrom W now j st) i = if W (j + i) then purge (shard st i) now else shard st i := by
  induction st generalizing j i with
  | nil => simp [sweepFrom, shard, purge]
  | cons s rest ih =>
    cases i with
    | zero => simp [sweepFrom, shard]
    | succ i =>
      have := ih (j + 1) i
      simp only [shard, sweepFrom, List.getD_cons_succ] at this ⊢
      rw [this]
      have e : j + 1 + i = j + (i + 1) := by omega
      rw [e]

theorem shard_sweep (W : Nat → Bool) (now : Nat) (st : Shards Entry) (i : Nat) :
    shard (sweep W now st) i = if W i then purge (shard st i) now else shard st i := by
  have := shard_sweepFrom W now 0 st i
  simpa [sweep] using this

theorem inv_sweep {R : Routes} {st : Shards Entry} (h : Inv R st) (W : Nat → Bool) (now : Nat) :
    Inv R (sweep W now st) := by
  refine ⟨by rw [sweep, length_sweepFrom]; exact h.len, ?_, ?_⟩
  · intro s hs
    obtain ⟨i, _, e⟩ := mem_shard _ s hs
    rw [← e, shard_sweep]
    split
    · exact Redis.wf_purge now (h.wf_shard i)
    · exact h.wf_shard i
  · intro i k hk
    rw [shard_sweep] at hk
    split at hk
    · rw [get_purge_lv (h.wf_shard i)] at hk
      apply h.home i k
      cases hg : get (shard st i) k with
      | none => rw [hg] at hk; cases hk
      | some _ => rfl
    · exact h.home i k hk

theorem get_abs_sweep {R : Routes} {st : Shards Entry} (h : Inv R st) (W : Nat → Bool) (now k : Nat) :
    get (abs (sweep W now st)) k = if W (R.bytes k) then lv now (get (abs st) k) else get (abs st) k := by
  rw [(inv_sweep h W now).get_abs k, shard_sweep, h.get_abs k]
  split
  · exact get_purge_lv (h.wf_shard _) now k
  · rfl

/-! ## one executor on two stores that a reader at `now` cannot tell apart -/

theorem wf_exec {s : Redis.State} (hs : WF s) (now : Nat) (c : Redis.Cmd) : WF (Redis.exec s now c).1 := by
  cases hk : cmdKeys c with
  | some K => exact (exec_localOn now c K hk).wf s hs
  | none =>
    cases c <;> simp only [cmdKeys, reduceCtorEq] at hk
    case keys => exact hs
    case dbsize => exact hs
    case flushdb => exact wf_nil
    case flushall => exact wf_nil
    case randomkey ch => show WF (Redis.execRandomKey s ch).1; rw [Redis.execRandomKey_ro]; exact hs
    case sort k st => cases st <;> simp at hk

theorem exec_agree (now : Nat) (c : Redis.Cmd) (a p : Redis.State) (ha : WF a) (hp : WF p)
    (hK : ∀ K, cmdKeys c = some K → ∀ k ∈ K, get a k = get p k)
    (hG : cmdKeys c = none → a = p)
    (hrel : ∀ t', now ≤ t' → ∀ k, lv t' (get a k) = lv t' (get p k)) :
    (Redis.exec a now c).2 = (Redis.exec p now c).2 ∧
    ∀ t', now ≤ t' → ∀ k, lv t' (get (Redis.exec a now c).1 k) = lv t' (get (Redis.exec p now c).1 k) := by
  cases hk : cmdKeys c with
  | none => rw [hG hk]; exact ⟨rfl, fun _ _ _ => rfl⟩
  | some K =>
    have L := exec_localOn now c K hk
    obtain ⟨e1, e2⟩ := L.loc a p ha hp (hK K hk)
    refine ⟨e1, ?_⟩
    intro t' ht k
    by_cases hm : k ∈ K
    · rw [e2 k hm]
    · rw [L.frame a k ha hm, L.frame p k hp hm]; exact hrel t' ht k


/-! ## the shards that get a message are the homes of the named keys -/

theorem recv_all (R : Routes) (now : Nat) (c : Redis.Cmd) (h : cmdKeys c = none) (i : Nat) :
    recv R (inject now c) i = true := by
  cases c <;> simp only [cmdKeys, reduceCtorEq] at h <;> try rfl
  case sort k st => cases st <;> simp at h

theorem recv_covers (R : Routes) (now : Nat) (c : Redis.Cmd) (hr : Routable7 R c = true) (K : List Nat)
    (hK : cmdKeys c = some K) (k : Nat) (hk : k ∈ K) : recv R (inject now c) (R.bytes k) = true := by
  cases c <;> simp only [cmdKeys, Option.some.injEq, reduceCtorEq] at hK <;> try subst hK
  all_goals first
    | (simp only [List.mem_singleton] at hk; subst hk; simp [inject, cmdKeys, recv, cmdShard, Routes.gen]; done)
    | skip
  case mget ks => exact List.any_eq_true.mpr ⟨k, hk, by simp⟩
  case mset kvs =>
    obtain ⟨kv, hkv, e⟩ := List.mem_map.mp hk
    exact List.any_eq_true.mpr ⟨kv, hkv, by simp [e]⟩
  case «exists» ks => exact List.any_eq_true.mpr ⟨k, hk, by simp⟩
  case del ks =>
    show (if ks.length > 1 then ks.any (fun k' => R.bytes k' == R.bytes k)
      else cmdShard R true (Cmd.del (S := sig7) ks) == R.bytes k) = true
    split
    · exact List.any_eq_true.mpr ⟨k, hk, by simp⟩
    · cases ks with
      | nil => cases hk
      | cons a rest =>
        cases rest with
        | nil => simp only [List.mem_singleton] at hk; subst hk; simp [cmdShard, Routes.gen]
        | cons b rest => rename_i h; simp at h
  case msetnx kvs =>
    cases kvs with
    | nil => cases hk
    | cons kv rest =>
      show (R.bytes kv.1 == R.bytes k) = true
      simp only [List.map_cons, List.mem_cons] at hk
      rcases hk with rfl | hk
      · simp
      · obtain ⟨x, hx, e⟩ := List.mem_map.mp hk
        have := List.all_eq_true.mp hr x hx
        simp only [beq_iff_eq] at this ⊢
        rw [← e, this]
  case rename a b =>
    have hab : R.bytes a = R.bytes b := by simpa [Routable7] using hr
    simp only [List.mem_cons, List.not_mem_nil, or_false] at hk
    rcases hk with rfl | rfl <;> simp [inject, cmdKeys, recv, cmdShard, Routes.gen, hab]
  case renamenx a b =>
    have hab : R.bytes a = R.bytes b := by simpa [Routable7] using hr
    simp only [List.mem_cons, List.not_mem_nil, or_false] at hk
    rcases hk with rfl | rfl <;> simp [inject, cmdKeys, recv, cmdShard, Routes.gen, hab]
  case rpoplpush a b =>
    have hab : R.bytes a = R.bytes b := by simpa [Routable7] using hr
    simp only [List.mem_cons, List.not_mem_nil, or_false] at hk
    rcases hk with rfl | rfl <;> simp [inject, cmdKeys, recv, cmdShard, Routes.gen, hab]
  case lmove a b f t =>
    have hab : R.bytes a = R.bytes b := by simpa [Routable7] using hr
    simp only [List.mem_cons, List.not_mem_nil, or_false] at hk
    rcases hk with rfl | rfl <;> simp [inject, cmdKeys, recv, cmdShard, Routes.gen, hab]
  case sort a st =>
    cases st with
    | none =>
      simp only [Option.some.injEq] at hK; subst hK
      simp only [List.mem_singleton] at hk; subst hk
      simp [inject, cmdKeys, recv, cmdShard, Routes.gen]
    | some b =>
      simp only [Option.some.injEq] at hK; subst hK
      have hab : R.bytes a = R.bytes b := by simpa [Routable7] using hr
      simp only [List.mem_cons, List.not_mem_nil, or_false] at hk
      rcases hk with rfl | rfl <;> simp [inject, cmdKeys, recv, cmdShard, Routes.gen, hab]


end M7
end Shards
end RedisVerif
