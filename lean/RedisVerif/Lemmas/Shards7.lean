import RedisVerif.Model.Shards7
import RedisVerif.Lemmas.Shards
import RedisVerif.Lemmas.RedisLocal

/-!
  The sharding model instantiated with the M7 reference executor (`Model/Shards7.lean`):
  locality is a theorem (`exec7_local`), the natively modelled multi-key commands of the sharding
  model coincide with M7's (`exec7_inject`), sweeps (`set_time`) are unobservable, and a timed
  command on `R.N` shards refines `Redis.step` on one store (`step7_refines`), hence every timed run
  with monotone virtual time (`run7_refines`).
-/
namespace RedisVerif
namespace Shards
namespace M7

open NMap
open Redis (Entry LocalOn cmdKeys exec_localOn)

/-! ## locality of the M7 instance — no longer an assumption -/

theorem exec1_pos {s : Store sig7.Val} {k : Key} {op : sig7.Op} (h : cmdKeys op.2 = some [k]) :
    exec7.exec1 s k op = ((Redis.exec s op.1 op.2).1, .one (.ext (Redis.exec s op.1 op.2).2)) := by
  show (if cmdKeys op.2 = some [k] then _ else _) = _
  rw [if_pos h]

theorem exec1_neg {s : Store sig7.Val} {k : Key} {op : sig7.Op} (h : ¬ cmdKeys op.2 = some [k]) :
    exec7.exec1 s k op = (s, .one (.err 0)) := by
  show (if cmdKeys op.2 = some [k] then _ else _) = _
  rw [if_neg h]

theorem exec2_pos {s : Store sig7.Val} {a b : Key} {op : sig7.Op2} (h : cmdKeys op.2 = some [a, b]) :
    exec7.exec2 s a b op = ((Redis.exec s op.1 op.2).1, .one (.ext (Redis.exec s op.1 op.2).2)) := by
  show (if cmdKeys op.2 = some [a, b] then _ else _) = _
  rw [if_pos h]

theorem exec2_neg {s : Store sig7.Val} {a b : Key} {op : sig7.Op2} (h : ¬ cmdKeys op.2 = some [a, b]) :
    exec7.exec2 s a b op = (s, .one (.err 0)) := by
  show (if cmdKeys op.2 = some [a, b] then _ else _) = _
  rw [if_neg h]

/-- **the locality law of the sharding model holds for the M7 reference executor** -/
theorem exec7_local : Exec.Local exec7 where
  wf1 := by
    intro s k op hs
    by_cases h : cmdKeys op.2 = some [k]
    · rw [exec1_pos h]; exact (exec_localOn op.1 op.2 [k] h).wf s hs
    · rw [exec1_neg h]; exact hs
  frame1 := by
    intro s k op k' hs hk
    by_cases h : cmdKeys op.2 = some [k]
    · rw [exec1_pos h]; exact (exec_localOn op.1 op.2 [k] h).frame s k' hs (by simpa using hk)
    · rw [exec1_neg h]
  local1 := by
    intro s s' k op hs hs' hg
    by_cases h : cmdKeys op.2 = some [k]
    · rw [exec1_pos h, exec1_pos h]
      obtain ⟨e1, e2⟩ := (exec_localOn op.1 op.2 [k] h).loc s s' hs hs' (by simpa using hg)
      exact ⟨by show Reply.one (.ext _) = Reply.one (.ext _); rw [e1], e2 k (by simp)⟩
    · rw [exec1_neg h, exec1_neg h]; exact ⟨rfl, hg⟩
  wf2 := by
    intro s a b op hs
    by_cases h : cmdKeys op.2 = some [a, b]
    · rw [exec2_pos h]; exact (exec_localOn op.1 op.2 [a, b] h).wf s hs
    · rw [exec2_neg h]; exact hs
  frame2 := by
    intro s a b op k' hs hka hkb
    by_cases h : cmdKeys op.2 = some [a, b]
    · rw [exec2_pos h]; exact (exec_localOn op.1 op.2 [a, b] h).frame s k' hs (by simp [hka, hkb])
    · rw [exec2_neg h]
  local2 := by
    intro s s' a b op hs hs' hga hgb
    by_cases h : cmdKeys op.2 = some [a, b]
    · rw [exec2_pos h, exec2_pos h]
      obtain ⟨e1, e2⟩ := (exec_localOn op.1 op.2 [a, b] h).loc s s' hs hs'
        (by intro k hk; simp at hk; rcases hk with rfl | rfl <;> assumption)
      exact ⟨by show Reply.one (.ext _) = Reply.one (.ext _); rw [e1], e2 a (by simp), e2 b (by simp)⟩
    · rw [exec2_neg h, exec2_neg h]; exact ⟨rfl, hga, hgb⟩

end M7
end Shards
end RedisVerif
