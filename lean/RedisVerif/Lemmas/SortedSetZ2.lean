import RedisVerif.Lemmas.SortedSetZ
namespace RedisVerif.SkipList
open RedisVerif RedisVerif.Redis

/-- a level generator whose levels lie in `1..=SKIPLIST_MAXLEVEL` -/
def LevelOk (lv : LevelGen) : Prop := ∀ s, 1 ≤ (lv s).1 ∧ (lv s).1 ≤ maxLevel

/-- invariant of `RedisSortedSet`: the skip list is well formed, `members` and the list hold the
    same (member, score) pairs, no member twice -/
structure ZInv (z : ZS) : Prop where
  wf : Wf z.sl
  canon : ZCanon (keys z.sl)
  nodup : (z.members.map Prod.fst).Nodup
  agree : ∀ m, mmGet z.members m = zScore (keys z.sl) m
  lenEq : z.members.length = (keys z.sl).length

theorem zinv_new : ZInv ZS.new :=
  ⟨wf_new, by simp [keys, ZS.new, SL.new, ZCanon], by simp [ZS.new], fun m => by simp [ZS.new, SL.new, keys, mmGet, zScore],
   by simp [ZS.new, SL.new, keys]⟩

theorem length_zRemove_present {m : BS} {s : Score} {z : ZL} (h : zScore z m = some s) :
    (zRemove m z).length + 1 = z.length := by
  induction z with
  | nil => simp [zScore] at h
  | cons q z ih =>
    obtain ⟨k, v⟩ := q
    simp only [zRemove]
    by_cases hk : m = k
    · simp [hk]
    · simp only [hk, if_false, List.length_cons]
      simp only [zScore, hk, if_false] at h
      rw [ih h]

theorem fresh_of_zScore_none {sl : SL} {m : BS} (h : zScore (keys sl) m = none) :
    ∀ t ∈ sl.towers, t.member ≠ m := by
  intro t ht
  exact zScore_none h t.key (List.mem_map_of_mem ht)

/-- inserting a fresh member into the list = `zInsert` on what `iter()` yields -/
theorem insert_fresh {lv : LevelGen} (hlv : LevelOk lv) {sl : SL} (hw : Wf sl) (m : BS) (sc : Score)
    (hfresh : ∀ p ∈ keys sl, p.1 ≠ m) :
    ∃ sl', insert lv sl m sc = some (sl', true) ∧ Wf sl' ∧ keys sl' = zInsert m sc (keys sl) ∧
      sl'.rng = (lv sl.rng).2 := by
  have hf : ∀ t ∈ sl.towers, t.member ≠ m := fun t ht => hfresh t.key (List.mem_map_of_mem ht)
  obtain ⟨sl', h1, h2, h3, h4⟩ := insert_spec (lv := lv) hw m sc (hlv sl.rng) hf
  refine ⟨sl', h1, h2, ?_, h4⟩
  rw [h3, zInsert_eq_insertAt hfresh, cntLt_eq_takeWhile]

/-- removing an entry that is in the list = `zRemove` -/
theorem remove_present {sl : SL} (hw : Wf sl) (hd : (keys sl).Pairwise (fun a b => a.1 ≠ b.1))
    {m : BS} {sc : Score} (h : zScore (keys sl) m = some sc) :
    ∃ sl', removeWithScore sl m sc = some (sl', true) ∧ Wf sl' ∧ keys sl' = zRemove m (keys sl) ∧
      sl'.rng = sl.rng := by
  obtain ⟨i, hi⟩ := zScore_some_mem h
  obtain ⟨sl', b, h1, h2, h3, h4⟩ := removeWithScore_spec hw m sc
  rcases h4 with ⟨i', t, ht, hk, rfl, hkeys⟩ | ⟨habs, _, _⟩
  · refine ⟨sl', h1, h2, ?_, h3⟩
    have hi' : (keys sl)[i']? = some (m, sc) := by
      simp only [keys, List.getElem?_map, ht, Option.map_some, hk]
    rw [hkeys, (zfacts_of_getElem hd hi').2.1]
  · exfalso
    simp only [keys, List.getElem?_map] at hi
    cases ht : sl.towers[i]? with
    | none => rw [ht] at hi; simp at hi
    | some t => rw [ht] at hi; simp at hi; exact habs t (List.mem_of_getElem? ht) hi

theorem add_spec {lv : LevelGen} (hlv : LevelOk lv) {z : ZS} (hz : ZInv z) (m : BS) (sc : Score) :
    ∃ z' b, add lv z m sc = some (z', b) ∧ ZInv z' ∧
      keys z'.sl = (match zScore (keys z.sl) m with
        | none => zInsert m sc (keys z.sl)
        | some old => if sc = old then keys z.sl else zInsert m sc (zRemove m (keys z.sl))) ∧
      b = (zScore (keys z.sl) m).isNone := by
  unfold add
  rw [hz.agree m]
  cases hsc : zScore (keys z.sl) m with
  | none =>
    have hfresh := zScore_none hsc
    obtain ⟨sl', h1, h2, h3, _⟩ := insert_fresh hlv hz.wf m sc hfresh
    refine ⟨⟨mmSet z.members m sc, sl'⟩, true, by simp [h1], ?_, h3, rfl⟩
    refine ⟨h2, ?_, mmSet_nodup hz.nodup m sc, ?_, ?_⟩
    · show ZCanon (keys sl'); rw [h3]; exact canon_zInsert hz.canon hfresh
    · intro m'
      show mmGet (mmSet z.members m sc) m' = zScore (keys sl') m'
      rw [mmGet_mmSet, h3]
      by_cases h' : m' = m
      · subst h'; rw [if_pos rfl, zScore_zInsert_self hfresh]
      · rw [if_neg h', zScore_zInsert_ne h', hz.agree]
    · show (mmSet z.members m sc).length = (keys sl').length
      have hnone : mmGet z.members m = none := by rw [hz.agree, hsc]
      rw [mmSet_length, hnone, h3]
      simp only [Option.isSome_none, Bool.false_eq_true, if_false, hz.lenEq]
      have : (zInsert m sc (keys z.sl)).length = (keys z.sl).length + 1 := by
        rw [zInsert_eq_insertAt hfresh, length_insertAt]
        exact (List.takeWhile_sublist _).length_le
      omega
  | some old =>
    by_cases heq : old = sc
    · subst heq
      exact ⟨z, false, by simp, hz, by simp, rfl⟩
    · obtain ⟨sl1, h1, hw1, hk1, hr1⟩ := remove_present hz.wf hz.canon.2 hsc
      have hc1 : ZCanon (keys sl1) := by rw [hk1]; exact canon_zRemove hz.canon
      have hfresh : ∀ p ∈ keys sl1, p.1 ≠ m := by rw [hk1]; exact not_mem_zRemove hz.canon
      obtain ⟨sl2, h2, hw2, hk2, _⟩ := insert_fresh hlv hw1 m sc hfresh
      have hne : ¬ sc = old := fun e => heq e.symm
      refine ⟨⟨mmSet z.members m sc, sl2⟩, false, by simp [heq, h1, h2], ?_, by simp [hne, hk2, hk1], rfl⟩
      refine ⟨hw2, ?_, mmSet_nodup hz.nodup m sc, ?_, ?_⟩
      · show ZCanon (keys sl2); rw [hk2]; exact canon_zInsert hc1 hfresh
      · intro m'
        show mmGet (mmSet z.members m sc) m' = zScore (keys sl2) m'
        rw [mmGet_mmSet, hk2]
        by_cases h' : m' = m
        · subst h'; rw [if_pos rfl, zScore_zInsert_self hfresh]
        · rw [if_neg h', zScore_zInsert_ne h', hk1, zScore_zRemove_ne h', hz.agree]
      · show (mmSet z.members m sc).length = (keys sl2).length
        have hsome : mmGet z.members m = some old := by rw [hz.agree, hsc]
        rw [mmSet_length, hsome, hk2]
        simp only [Option.isSome_some, if_true, hz.lenEq]
        have e1 : (zInsert m sc (keys sl1)).length = (keys sl1).length + 1 := by
          rw [zInsert_eq_insertAt hfresh, length_insertAt]
          exact (List.takeWhile_sublist _).length_le
        have e2 : (keys sl1).length + 1 = (keys z.sl).length := by
          rw [hk1]; exact length_zRemove_present hsc
        omega

theorem remove_spec {z : ZS} (hz : ZInv z) (m : BS) :
    ∃ z' b, remove z m = some (z', b) ∧ ZInv z' ∧ keys z'.sl = zRemove m (keys z.sl) ∧
      b = (zScore (keys z.sl) m).isSome := by
  unfold remove
  rw [hz.agree m]
  cases hsc : zScore (keys z.sl) m with
  | none =>
    refine ⟨z, false, rfl, hz, ?_, rfl⟩
    rw [zRemove_of_absent (zScore_none hsc)]
  | some old =>
    obtain ⟨sl1, h1, hw1, hk1, _⟩ := remove_present hz.wf hz.canon.2 hsc
    refine ⟨⟨mmErase z.members m, sl1⟩, true, by simp [h1], ?_, hk1, rfl⟩
    refine ⟨hw1, by show ZCanon (keys sl1); rw [hk1]; exact canon_zRemove hz.canon,
      mmErase_nodup hz.nodup m, ?_, ?_⟩
    · intro m'
      show mmGet (mmErase z.members m) m' = zScore (keys sl1) m'
      rw [mmGet_mmErase hz.nodup, hk1]
      by_cases h' : m' = m
      · subst h'
        rw [if_pos rfl, zScore_eq_none_of_not_mem (not_mem_zRemove hz.canon)]
      · rw [if_neg h', zScore_zRemove_ne h', hz.agree]
    · show (mmErase z.members m).length = (keys sl1).length
      have hsome : mmGet z.members m = some old := by rw [hz.agree, hsc]
      have e1 := mmErase_length hsome
      have e2 : (keys sl1).length + 1 = (keys z.sl).length := by
        rw [hk1]; exact length_zRemove_present hsc
      have := hz.lenEq
      omega

end RedisVerif.SkipList
