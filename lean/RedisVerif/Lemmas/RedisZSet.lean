import RedisVerif.Lemmas.RedisZOrder

/-! Per-command lemmas, sorted sets. -/
namespace RedisVerif.Redis
open RedisVerif

theorem inv_putZ {s : State} (h : Inv s) (k : Nat) {z : ZL} (hz : ZCanon z) (dl : Option Nat) :
    Inv (putZ s k z dl) := by
  unfold putZ
  split
  · exact inv_erase h
  · exact inv_insert h ⟨by simp, hz⟩

theorem lookupZ_canon {s : State} (h : Inv s) {k : Nat} {z : ZL} {dl : Option Nat}
    (hl : lookupZ s k = .found z dl) : ZCanon z := by
  unfold lookupZ at hl
  split at hl
  · cases hl
  · rename_i e he
    have hv := inv_get h he
    obtain ⟨v, d⟩ := e
    cases v <;> simp at hl
    obtain ⟨h1, _⟩ := hl
    subst h1
    exact hv.2

theorem inv_execZAdd {s : State} (h : Inv s) (k : Nat) (f : ZFlags) (ps : List (BS × Score)) :
    Inv (execZAdd s k f ps).1 := by
  unfold execZAdd
  split
  · exact h
  · split
    · exact h
    · split
      · exact h
      · split
        · exact h
        · exact inv_putZ h k (canon_zaddAll canon_nil _) _
      · rename_i hl
        exact inv_putZ h k (canon_zaddAll (lookupZ_canon h hl) _) _

theorem execZAdd_err {s : State} {k : Nat} {f : ZFlags} {ps : List (BS × Score)}
    (he : (execZAdd s k f ps).2.isError = true) : (execZAdd s k f ps).1 = s := by
  unfold execZAdd at *
  split
  · rfl
  · split
    · rfl
    · split
      · rfl
      · split
        · rfl
        · simp_all [Reply.isError, zaddReply]
      · simp_all [Reply.isError, zaddReply]

theorem inv_execZRem {s : State} (h : Inv s) (k : Nat) (ms : List BS) : Inv (execZRem s k ms).1 := by
  unfold execZRem
  split
  · exact h
  · exact h
  · rename_i hl
    exact inv_putZ h k (canon_zremAll (lookupZ_canon h hl) _) _

theorem execZRem_err {s : State} {k : Nat} {ms : List BS}
    (he : (execZRem s k ms).2.isError = true) : (execZRem s k ms).1 = s := by
  unfold execZRem at *
  split <;> simp_all [Reply.isError]

theorem execZRange_ro (s : State) (k : Nat) (a b : Int) (ws rev : Bool) :
    (execZRange s k a b ws rev).1 = s := by
  unfold execZRange; split <;> rfl

theorem execZScore_ro (s : State) (k : Nat) (m : BS) : (execZScore s k m).1 = s := by
  unfold execZScore
  split
  · rfl
  · rfl
  · split <;> rfl

theorem execZRank_ro (s : State) (k : Nat) (m : BS) : (execZRank s k m).1 = s := by
  unfold execZRank
  split
  · rfl
  · rfl
  · split <;> rfl

theorem execZCard_ro (s : State) (k : Nat) : (execZCard s k).1 = s := by
  unfold execZCard; split <;> rfl

theorem execZCount_ro (s : State) (k : Nat) (lo hi : Option Bound) : (execZCount s k lo hi).1 = s := by
  unfold execZCount
  split
  · split <;> rfl
  · rfl

theorem execZRangeByScore_ro (s : State) (k : Nat) (lo hi : Option Bound) (ws : Bool)
    (lim : Option (Int × Nat)) : (execZRangeByScore s k lo hi ws lim).1 = s := by
  unfold execZRangeByScore
  split
  · split <;> rfl
  · rfl

end RedisVerif.Redis
