import RedisVerif.Lemmas.Redis

/-! Per-command lemmas, strings / counters / keys / expiry:
    `inv_execX`  : the command preserves the invariant,
    `execX_err`  : an error reply leaves the state exactly as it was,
    `execX_ro`   : (read commands) the state is returned unchanged. -/
namespace RedisVerif.Redis
open RedisVerif

/-- closes `Inv` goals whose state is `s`, an `insert` of a string, or an `erase` -/
macro "inv_tac" h:ident : tactic =>
  `(tactic| first
    | exact $h
    | exact inv_insert $h (valueOk_str _)
    | exact inv_erase $h
    | exact inv_nil)

/-! ### strings -/

theorem execGet_ro (s : State) (k : Nat) : (execGet s k).1 = s := by
  unfold execGet; split <;> rfl

theorem inv_setCore {s : State} (h : Inv s) (k : Nat) (v : BS) (c : SetCond) (g : Bool) (p : DlPlan) :
    Inv (setCore s k v c g p).1 := by
  unfold setCore; split
  · exact h
  · split
    · exact h
    · exact inv_insert h (valueOk_str _)

theorem oldStrReply_not_err (s : State) (k : Nat) : (oldStrReply s k).isError = false := by
  unfold oldStrReply; split <;> rfl

theorem setCore_err {s : State} {k : Nat} {v : BS} {c : SetCond} {g : Bool} {p : DlPlan}
    (he : (setCore s k v c g p).2.isError = true) : (setCore s k v c g p).1 = s := by
  unfold setCore at *
  split
  · rfl
  · split
    · rfl
    · rename_i h1 h2
      simp only [if_neg h1, if_neg h2] at he
      cases g
      · simp [Reply.isError, Reply.ok] at he
      · have := oldStrReply_not_err s k
        simp [this] at he

theorem inv_execSet {s : State} (h : Inv s) (now k : Nat) (v : BS) (c : SetCond) (e : SetExp) (g : Bool) :
    Inv (execSet s now k v c e g).1 := by
  unfold execSet; split
  · exact h
  · exact inv_setCore h ..

theorem execSet_err {s : State} {now k : Nat} {v : BS} {c : SetCond} {e : SetExp} {g : Bool}
    (he : (execSet s now k v c e g).2.isError = true) : (execSet s now k v c e g).1 = s := by
  unfold execSet at *
  split
  · rfl
  · rename_i h1
    rw [if_neg h1] at he
    exact setCore_err he

theorem inv_execSetNx {s : State} (h : Inv s) (k : Nat) (v : BS) : Inv (execSetNx s k v).1 := by
  unfold execSetNx; split <;> inv_tac h

theorem execSetNx_err {s : State} {k : Nat} {v : BS}
    (he : (execSetNx s k v).2.isError = true) : (execSetNx s k v).1 = s := by
  unfold execSetNx at *; split <;> simp_all [Reply.isError]

theorem inv_execAppend {s : State} (h : Inv s) (k : Nat) (v : BS) : Inv (execAppend s k v).1 := by
  unfold execAppend; split <;> inv_tac h

theorem execAppend_err {s : State} {k : Nat} {v : BS}
    (he : (execAppend s k v).2.isError = true) : (execAppend s k v).1 = s := by
  unfold execAppend at *; split <;> simp_all [Reply.isError]

theorem inv_execGetSet {s : State} (h : Inv s) (k : Nat) (v : BS) : Inv (execGetSet s k v).1 := by
  unfold execGetSet; split <;> inv_tac h

theorem execGetSet_err {s : State} {k : Nat} {v : BS}
    (he : (execGetSet s k v).2.isError = true) : (execGetSet s k v).1 = s := by
  unfold execGetSet at *; split <;> simp_all [Reply.isError]

theorem execStrLen_ro (s : State) (k : Nat) : (execStrLen s k).1 = s := by
  unfold execStrLen; split <;> rfl

theorem execMGet_ro (s : State) (ks : List Nat) : (execMGet s ks).1 = s := rfl

theorem inv_msetAll {s : State} (h : Inv s) (kvs : List (Nat × BS)) : Inv (msetAll s kvs) := by
  induction kvs generalizing s with
  | nil => exact h
  | cons p kvs ih =>
    obtain ⟨k, v⟩ := p
    exact ih (inv_insert h (valueOk_str _))

theorem inv_execMSet {s : State} (h : Inv s) (kvs : List (Nat × BS)) : Inv (execMSet s kvs).1 :=
  inv_msetAll h kvs

theorem execMSet_err {s : State} {kvs : List (Nat × BS)}
    (he : (execMSet s kvs).2.isError = true) : (execMSet s kvs).1 = s := by
  simp [execMSet, Reply.isError, Reply.ok] at he

theorem inv_execMSetNx {s : State} (h : Inv s) (kvs : List (Nat × BS)) : Inv (execMSetNx s kvs).1 := by
  unfold execMSetNx; split
  · exact h
  · exact inv_msetAll h kvs

theorem execMSetNx_err {s : State} {kvs : List (Nat × BS)}
    (he : (execMSetNx s kvs).2.isError = true) : (execMSetNx s kvs).1 = s := by
  unfold execMSetNx at *; split <;> simp_all [Reply.isError]

theorem execGetRange_ro (s : State) (k : Nat) (a b : Int) : (execGetRange s k a b).1 = s := by
  unfold execGetRange; split <;> rfl

theorem inv_execSetRange {s : State} (h : Inv s) (k off : Nat) (v : BS) :
    Inv (execSetRange s k off v).1 := by
  unfold execSetRange
  split
  · exact h
  · split
    · exact h
    · split <;> inv_tac h
  · split
    · exact h
    · split <;> inv_tac h

theorem execSetRange_err {s : State} {k off : Nat} {v : BS}
    (he : (execSetRange s k off v).2.isError = true) : (execSetRange s k off v).1 = s := by
  unfold execSetRange at *
  split
  · rfl
  · split
    · rfl
    · split
      · rfl
      · simp_all [Reply.isError]
  · split
    · rfl
    · split
      · rfl
      · simp_all [Reply.isError]

theorem inv_execGetDel {s : State} (h : Inv s) (k : Nat) : Inv (execGetDel s k).1 := by
  unfold execGetDel; split <;> inv_tac h

theorem execGetDel_err {s : State} {k : Nat}
    (he : (execGetDel s k).2.isError = true) : (execGetDel s k).1 = s := by
  unfold execGetDel at *; split <;> simp_all [Reply.isError]

theorem inv_execGetEx {s : State} (h : Inv s) (now k : Nat) (o : GetExOpt) :
    Inv (execGetEx s now k o).1 := by
  unfold execGetEx
  split
  · exact h
  · exact h
  · split <;> inv_tac h

theorem execGetEx_err {s : State} {now k : Nat} {o : GetExOpt}
    (he : (execGetEx s now k o).2.isError = true) : (execGetEx s now k o).1 = s := by
  unfold execGetEx at *
  split
  · rfl
  · rfl
  · split <;> simp_all [Reply.isError]

theorem inv_execIncrBy {s : State} (h : Inv s) (k : Nat) (d : Int) : Inv (execIncrBy s k d).1 := by
  unfold execIncrBy
  split
  · exact h
  · inv_tac h
  · split
    · exact h
    · split <;> inv_tac h

theorem execIncrBy_err {s : State} {k : Nat} {d : Int}
    (he : (execIncrBy s k d).2.isError = true) : (execIncrBy s k d).1 = s := by
  unfold execIncrBy at *
  split
  · rfl
  · simp_all [Reply.isError]
  · split
    · rfl
    · split
      · simp_all [Reply.isError]
      · rfl

theorem inv_execDecrBy {s : State} (h : Inv s) (k : Nat) (d : Int) : Inv (execDecrBy s k d).1 := by
  unfold execDecrBy; split
  · exact h
  · exact inv_execIncrBy h ..

theorem execDecrBy_err {s : State} {k : Nat} {d : Int}
    (he : (execDecrBy s k d).2.isError = true) : (execDecrBy s k d).1 = s := by
  unfold execDecrBy at *
  split
  · rfl
  · rename_i h1
    rw [if_neg h1] at he
    exact execIncrBy_err he

/-! ### keys -/

theorem inv_delKeys {s : State} (h : Inv s) (ks : List Nat) : Inv (delKeys s ks).1 := by
  induction ks generalizing s with
  | nil => exact h
  | cons k ks ih =>
    simp only [delKeys]
    split
    · exact ih h
    · exact ih (inv_erase h)

theorem inv_execDel {s : State} (h : Inv s) (ks : List Nat) : Inv (execDel s ks).1 :=
  inv_delKeys h ks

theorem execDel_err {s : State} {ks : List Nat}
    (he : (execDel s ks).2.isError = true) : (execDel s ks).1 = s := by
  simp [execDel, Reply.isError] at he

theorem execExists_ro (s : State) (ks : List Nat) : (execExists s ks).1 = s := rfl

theorem execType_ro (s : State) (k : Nat) : (execType s k).1 = s := by
  unfold execType; split <;> rfl

theorem execKeys_ro (s : State) : (execKeys s).1 = s := rfl
theorem execDbSize_ro (s : State) : (execDbSize s).1 = s := rfl

theorem execRandomKey_ro (s : State) (c : Option Nat) : (execRandomKey s c).1 = s := by
  unfold execRandomKey
  split
  · rfl
  · split
    · rfl
    · split <;> rfl

theorem execFlush_err {s : State} (he : (execFlush s).2.isError = true) : (execFlush s).1 = s := by
  simp [execFlush, Reply.isError, Reply.ok] at he

theorem inv_execRename {s : State} (h : Inv s) (a b : Nat) : Inv (execRename s a b).1 := by
  unfold execRename
  split
  · exact h
  · rename_i e hg
    split
    · exact h
    · exact inv_insert_entry (inv_erase h) (inv_get h hg)

theorem execRename_err {s : State} {a b : Nat}
    (he : (execRename s a b).2.isError = true) : (execRename s a b).1 = s := by
  unfold execRename at *
  split
  · rfl
  · split <;> simp_all [Reply.isError, Reply.ok]

theorem inv_execRenameNx {s : State} (h : Inv s) (a b : Nat) : Inv (execRenameNx s a b).1 := by
  unfold execRenameNx
  split
  · exact h
  · rename_i e hg
    split
    · exact h
    · exact inv_insert_entry (inv_erase h) (inv_get h hg)

theorem execRenameNx_err {s : State} {a b : Nat}
    (he : (execRenameNx s a b).2.isError = true) : (execRenameNx s a b).1 = s := by
  unfold execRenameNx at *
  split
  · rfl
  · split <;> simp_all [Reply.isError]

/-! ### expiry -/

theorem inv_expireAt {s : State} (h : Inv s) (now k : Nat) (w : Int) (f : ExpFlags) :
    Inv (expireAt s now k w f).1 := by
  unfold expireAt
  split
  · exact h
  · rename_i e hg
    split
    · exact h
    · split
      · exact inv_erase h
      · exact inv_insert h (inv_get h hg)

theorem expireAt_not_err (s : State) (now k : Nat) (w : Int) (f : ExpFlags) :
    (expireAt s now k w f).2.isError = false := by
  unfold expireAt
  split
  · rfl
  · split
    · rfl
    · split <;> rfl

theorem inv_execExpire {s : State} (h : Inv s) (now k : Nat) (v : Int) (f : ExpFlags) :
    Inv (execExpire s now k v f).1 := by
  unfold execExpire
  split
  · exact h
  · split
    · exact h
    · split
      · exact h
      · exact inv_expireAt h ..

theorem execExpire_err {s : State} {now k : Nat} {v : Int} {f : ExpFlags}
    (he : (execExpire s now k v f).2.isError = true) : (execExpire s now k v f).1 = s := by
  unfold execExpire at *
  split
  · rfl
  · split
    · rfl
    · split
      · rfl
      · rename_i h1 h2 h3
        simp only [if_neg h1, if_neg h2, if_neg h3, expireAt_not_err] at he
        cases he

theorem inv_execPExpire {s : State} (h : Inv s) (now k : Nat) (v : Int) (f : ExpFlags) :
    Inv (execPExpire s now k v f).1 := by
  unfold execPExpire
  split
  · exact h
  · split
    · exact h
    · exact inv_expireAt h ..

theorem execPExpire_err {s : State} {now k : Nat} {v : Int} {f : ExpFlags}
    (he : (execPExpire s now k v f).2.isError = true) : (execPExpire s now k v f).1 = s := by
  unfold execPExpire at *
  split
  · rfl
  · split
    · rfl
    · rename_i h1 h2
      simp only [if_neg h1, if_neg h2, expireAt_not_err] at he
      cases he

theorem inv_execExpireAt {s : State} (h : Inv s) (now k : Nat) (v : Int) (f : ExpFlags) :
    Inv (execExpireAt s now k v f).1 := by
  unfold execExpireAt
  split
  · exact h
  · split
    · exact h
    · exact inv_expireAt h ..

theorem execExpireAt_err {s : State} {now k : Nat} {v : Int} {f : ExpFlags}
    (he : (execExpireAt s now k v f).2.isError = true) : (execExpireAt s now k v f).1 = s := by
  unfold execExpireAt at *
  split
  · rfl
  · split
    · rfl
    · rename_i h1 h2
      simp only [if_neg h1, if_neg h2, expireAt_not_err] at he
      cases he

theorem inv_execPExpireAt {s : State} (h : Inv s) (now k : Nat) (v : Int) (f : ExpFlags) :
    Inv (execPExpireAt s now k v f).1 := by
  unfold execPExpireAt
  split
  · exact h
  · exact inv_expireAt h ..

theorem execPExpireAt_err {s : State} {now k : Nat} {v : Int} {f : ExpFlags}
    (he : (execPExpireAt s now k v f).2.isError = true) : (execPExpireAt s now k v f).1 = s := by
  unfold execPExpireAt at *
  split
  · rfl
  · rename_i h1
    simp only [if_neg h1, expireAt_not_err] at he
    cases he

theorem inv_execPersist {s : State} (h : Inv s) (k : Nat) : Inv (execPersist s k).1 := by
  unfold execPersist
  split
  · exact h
  · rename_i e hg
    split
    · exact h
    · exact inv_insert h (inv_get h hg)

theorem execPersist_err {s : State} {k : Nat}
    (he : (execPersist s k).2.isError = true) : (execPersist s k).1 = s := by
  unfold execPersist at *
  split
  · rfl
  · split <;> simp_all [Reply.isError]

end RedisVerif.Redis
