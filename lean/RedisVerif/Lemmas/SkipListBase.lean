import RedisVerif.Model.SkipList
import RedisVerif.Lemmas.RedisZOrder
namespace RedisVerif.SkipList
open RedisVerif RedisVerif.Redis

/-! ## heights and distances -/

abbrev Tower.ht (t : Tower) : Nat := t.spans.length

/-- distance (in level-0 positions) from a node to its level-`j` forward node, given the towers
    after it; the number of towers after it when there is no such node -/
def distTo (j : Nat) : List Tower → Nat
  | [] => 0
  | t :: ts => if j < t.ht then 1 else 1 + distTo j ts

theorem distTo_le (j : Nat) (l : List Tower) : distTo j l ≤ l.length := by
  induction l with
  | nil => simp [distTo]
  | cons t ts ih => simp only [distTo, List.length_cons]; split <;> omega

theorem distTo_append_small {j : Nat} {xs : List Tower} (h : ∀ t ∈ xs, t.ht ≤ j) (ys : List Tower) :
    distTo j (xs ++ ys) = xs.length + distTo j ys := by
  induction xs with
  | nil => simp
  | cons t ts ih =>
    have h1 : ¬ j < t.ht := by have := h t (List.mem_cons_self ..); omega
    simp only [List.cons_append, distTo, h1, if_false, List.length_cons]
    rw [ih (fun t' ht' => h t' (List.mem_cons_of_mem _ ht'))]; omega

theorem distTo_append_big {j : Nat} {xs : List Tower} (h : ∃ t ∈ xs, j < t.ht) (ys zs : List Tower) :
    distTo j (xs ++ ys) = distTo j (xs ++ zs) := by
  induction xs with
  | nil => simp at h
  | cons t ts ih =>
    simp only [List.cons_append, distTo]
    split
    · rfl
    · rename_i hlt
      obtain ⟨t', ht', hj⟩ := h
      rcases List.mem_cons.mp ht' with rfl | hm
      · exact absurd hj hlt
      · rw [ih ⟨t', hm, hj⟩]

theorem distTo_congr {j : Nat} : ∀ {xs ys : List Tower}, xs.map Tower.ht = ys.map Tower.ht →
    distTo j xs = distTo j ys
  | [], [], _ => rfl
  | [], _ :: _, h => by simp at h
  | _ :: _, [], h => by simp at h
  | x :: xs, y :: ys, h => by
    simp only [List.map_cons, List.cons.injEq] at h
    simp only [distTo, h.1, distTo_congr h.2]

theorem distTo_pos {j : Nat} {l : List Tower} (h : l ≠ []) : 1 ≤ distTo j l := by
  cases l with
  | nil => exact absurd rfl h
  | cons t ts => simp only [distTo]; split <;> omega


theorem getElem?_modifyAt {α : Type} (f : α → α) : ∀ (l : List α) (q k : Nat),
    (modifyAt f l q)[k]? = if k = q then (l[k]?).map f else l[k]?
  | [], q, k => by simp [modifyAt]
  | x :: xs, 0, k => by
    cases k with
    | zero => simp [modifyAt]
    | succ k => simp [modifyAt]
  | x :: xs, q + 1, k => by
    cases k with
    | zero => simp [modifyAt]
    | succ k => simp [modifyAt, getElem?_modifyAt f xs q k]

theorem length_modifyAt {α : Type} (f : α → α) : ∀ (l : List α) (q : Nat), (modifyAt f l q).length = l.length
  | [], _ => rfl
  | _ :: _, 0 => rfl
  | x :: xs, q + 1 => by simp [modifyAt, length_modifyAt f xs q]

theorem map_modifyAt {α β : Type} (f : α → α) (g : α → β) (hg : ∀ a, g (f a) = g a) :
    ∀ (l : List α) (q : Nat), (modifyAt f l q).map g = l.map g
  | [], _ => rfl
  | x :: xs, 0 => by simp [modifyAt, hg]
  | x :: xs, q + 1 => by simp [modifyAt, map_modifyAt f g hg xs q]

/-- what `setSpan` leaves alone: members, scores, heights, level, length, rng -/
theorem setSpan_keys (sl : SL) (p i v : Nat) :
    (setSpan sl p i v).towers.map Tower.key = sl.towers.map Tower.key := by
  cases p with
  | zero => rfl
  | succ q => exact map_modifyAt (fun t => { t with spans := t.spans.set i v }) Tower.key (fun _ => rfl) _ _

theorem setSpan_hts (sl : SL) (p i v : Nat) :
    (setSpan sl p i v).towers.map Tower.ht = sl.towers.map Tower.ht := by
  cases p with
  | zero => rfl
  | succ q => exact map_modifyAt (fun t => { t with spans := t.spans.set i v }) Tower.ht (fun t => by simp [Tower.ht]) _ _

theorem setSpan_hdr_length (sl : SL) (p i v : Nat) : (setSpan sl p i v).hdr.length = sl.hdr.length := by
  cases p <;> simp [setSpan]

@[simp] theorem setSpan_level (sl : SL) (p i v : Nat) : (setSpan sl p i v).level = sl.level := by
  cases p <;> rfl
@[simp] theorem setSpan_length (sl : SL) (p i v : Nat) : (setSpan sl p i v).length = sl.length := by
  cases p <;> rfl
@[simp] theorem setSpan_rng (sl : SL) (p i v : Nat) : (setSpan sl p i v).rng = sl.rng := by
  cases p <;> rfl
theorem setSpan_towers_length (sl : SL) (p i v : Nat) : (setSpan sl p i v).towers.length = sl.towers.length := by
  cases p with
  | zero => rfl
  | succ q => exact length_modifyAt _ _ _

theorem spanAt_setSpan (sl : SL) (p i v q j : Nat) :
    spanAt (setSpan sl p i v) q j =
      if q = p ∧ j = i then (spanAt sl q j).map (fun _ => v) else spanAt sl q j := by
  cases p with
  | zero =>
    cases q with
    | zero =>
      simp only [spanAt, setSpan, true_and]
      by_cases hji : j = i
      · subst hji; simp [List.getElem?_set]
        split <;> simp_all
      · simp [hji, List.getElem?_set]; omega
    | succ q' => simp [spanAt, setSpan]
  | succ p' =>
    cases q with
    | zero => simp [spanAt, setSpan]
    | succ q' =>
      simp only [spanAt, setSpan, getElem?_modifyAt, Nat.add_right_cancel_iff]
      by_cases hq : q' = p'
      · subst hq
        simp only [true_and, if_true]
        cases hT : sl.towers[q']? with
        | none => simp
        | some t =>
          simp only [Option.map_some, List.getElem?_set]
          by_cases hji : j = i
          · subst hji; simp; split <;> simp_all
          · simp [hji]; omega
      · simp [hq]

end RedisVerif.SkipList
