import RedisVerif.Model.GrammarTable
import RedisVerif.Lemmas.GrammarLua

/-
  Error alphabets: which error literals an argument slot, an option scan, a DSL body and the
  translator's custom bodies can answer.  Used to delimit, per command, the error texts of the
  redis.call translator (`Props/C16.lean`, `lua_error_alphabet`).
-/
namespace RedisVerif.Grammar

/-- the error literals a slot can answer -/
def argErrs (a : Arg) : List Lit :=
  match a.kind with
  | .str => []
  | .sds => []
  | .int => [a.onErr.getD .notInt]
  | .u64 => match a.onErr with
    | some l => [l]
    | none => [.u64Empty, .u64Invalid, .u64Overflow]
  | .flt => [a.onErr.getD .notFloat]
  | .usz => [a.onErr.getD .notInt]
  | .kw => []
  | .u32 => [a.onErr.getD .notInt]
  | .pos => [a.onErr.getD .notInt, .syntax]

theorem extract_err {a : Arg} {v : Bytes} {e : BErr} (h : a.extract v = .error e) :
    ∃ l ∈ argErrs a, e = .lit l := by
  unfold Arg.extract at h
  unfold argErrs
  cases hk : a.kind <;> rw [hk] at h <;> simp only at h ⊢
  · simp at h
  · simp at h
  · cases hp : parseI64 v <;> rw [hp] at h <;> simp at h
    exact ⟨_, by simp, h.symm⟩
  · cases hp : parseUnsigned u64Max v with
    | ok n => rw [hp] at h; simp at h
    | error ie =>
      rw [hp] at h
      simp only [Except.error.injEq] at h
      cases ho : a.onErr with
      | some l => rw [ho] at h; simp only [Option.getD_some] at h; exact ⟨l, by simp, h.symm⟩
      | none =>
        rw [ho] at h
        simp only [Option.getD_none] at h
        refine ⟨u64Err ie, ?_, h.symm⟩
        cases ie <;> simp [u64Err]
  · cases hp : parseF64 v <;> rw [hp] at h <;> simp at h
    exact ⟨_, by simp, h.symm⟩
  · cases hp : parseUnsigned u64Max v <;> rw [hp] at h <;> simp at h
    exact ⟨_, by simp, h.symm⟩
  · simp at h
  · cases hp : parseUnsigned u32Max (lossy v) <;> rw [hp] at h <;> simp at h
    exact ⟨_, by simp, h.symm⟩
  · cases hp : parseI64 v with
    | none => rw [hp] at h; simp at h; exact ⟨_, by simp, h.symm⟩
    | some i =>
      rw [hp] at h
      simp only at h
      split at h
      · simp only [Except.error.injEq] at h; exact ⟨.syntax, by simp, h.symm⟩
      · simp at h

theorem extractFixed_err : ∀ (as : List Arg) (vs : List Bytes) (e : BErr), as.length = vs.length →
    extractFixed as vs = .error e → ∃ l ∈ as.flatMap argErrs, e = .lit l := by
  intro as
  induction as with
  | nil => intro vs e hl h; match vs with
    | [] => simp [extractFixed] at h
    | _ :: _ => simp at hl
  | cons a as ih =>
    intro vs e hl h
    match vs with
    | [] => simp at hl
    | v :: vs' =>
      simp only [extractFixed, bind, Except.bind] at h
      cases hx : a.extract v with
      | error e' =>
        rw [hx] at h
        simp only [Except.error.injEq] at h
        subst h
        obtain ⟨l, hl', he⟩ := extract_err hx
        exact ⟨l, by simp [List.flatMap_cons, hl'], he⟩
      | ok t =>
        rw [hx] at h
        simp only at h
        cases hy : extractFixed as vs' with
        | ok us => rw [hy] at h; simp [pure, Except.pure] at h
        | error e' =>
          rw [hy] at h
          simp only [Except.error.injEq] at h
          subst h
          obtain ⟨l, hl', he⟩ := ih vs' e' (by simpa using hl) hy
          exact ⟨l, by simp [List.flatMap_cons, hl'], he⟩

theorem extractAll_err (a : Arg) : ∀ (vs : List Bytes) (e : BErr),
    extractAll a vs = .error e → ∃ l ∈ argErrs a, e = .lit l := by
  intro vs
  induction vs with
  | nil => intro e h; simp [extractAll] at h
  | cons v vs ih =>
    intro e h
    simp only [extractAll, bind, Except.bind] at h
    cases hx : a.extract v with
    | error e' =>
      rw [hx] at h
      simp only [Except.error.injEq] at h
      subst h
      exact extract_err hx
    | ok t =>
      rw [hx] at h
      simp only at h
      cases hy : extractAll a vs with
      | ok us => rw [hy] at h; simp [pure, Except.pure] at h
      | error e' =>
        rw [hy] at h
        simp only [Except.error.injEq] at h
        subst h
        exact ih e' hy

theorem extractPairs_err (a b : Arg) : ∀ (n : Nat) (vs : List Bytes) (e : BErr), vs.length ≤ n →
    vs.length % 2 = 0 → extractPairs a b vs = .error e → ∃ l ∈ argErrs a ++ argErrs b, e = .lit l := by
  intro n
  induction n with
  | zero => intro vs e hl _ h; match vs with
    | [] => simp [extractPairs] at h
    | _ :: _ => simp at hl
  | succ n ih =>
    intro vs e hl hev h
    match vs with
    | [] => simp [extractPairs] at h
    | [_] => simp at hev
    | x :: y :: vs' =>
      simp only [extractPairs, bind, Except.bind] at h
      cases hx : a.extract x with
      | error e' =>
        rw [hx] at h; simp only [Except.error.injEq] at h; subst h
        obtain ⟨l, hl', he⟩ := extract_err hx
        exact ⟨l, by simp [hl'], he⟩
      | ok t =>
        rw [hx] at h
        simp only at h
        cases hy : b.extract y with
        | error e' =>
          rw [hy] at h; simp only [Except.error.injEq] at h; subst h
          obtain ⟨l, hl', he⟩ := extract_err hy
          exact ⟨l, by simp [hl'], he⟩
        | ok u =>
          rw [hy] at h
          simp only at h
          cases hz : extractPairs a b vs' with
          | ok us => rw [hz] at h; simp [pure, Except.pure] at h
          | error e' =>
            rw [hz] at h; simp only [Except.error.injEq] at h; subst h
            exact ih vs' e' (by simp at hl; omega) (by simp at hev; omega) hz

/-- option tables the translator uses: at most two values, a missing value is an explicit error,
    nothing is refused by name -/
def plainOpts (tbl : List OptSpec) : Bool :=
  tbl.all fun o => o.vals.length ≤ 2 && o.reject.isNone &&
    (o.vals.isEmpty || match o.missing with
      | .err _ => true
      | _ => false)

/-- the literals an option scan can answer -/
def optErrs (tbl : List OptSpec) : List Lit :=
  tbl.flatMap fun o => o.vals.flatMap argErrs ++
    match o.missing with
    | .err l => [l]
    | _ => []

theorem findOpt_mem : ∀ (T : List OptSpec) (k : Bytes) (n i : Nat) (o : OptSpec),
    findOpt T k n = some (i, o) → o ∈ T := by
  intro T
  induction T with
  | nil => intro k n i o h; simp [findOpt] at h
  | cons x xs ih =>
    intro k n i o h
    simp only [findOpt] at h
    split at h
    · simp only [Option.some.injEq, Prod.mk.injEq] at h; simp [h.2]
    · simp [ih k (n + 1) i o h]

theorem scan_err (tbl : List OptSpec) (unk : Bytes → Option BErr) (hp : plainOpts tbl = true) :
    ∀ (n : Nat) (opts : List Bytes) (e : BErr), opts.length ≤ n → scanOpts tbl unk opts = .error e →
      (∃ l ∈ optErrs tbl, e = .lit l) ∨ (∃ w, unk w = some e) := by
  intro n
  induction n with
  | zero => intro opts e hl h; match opts with
    | [] => simp [scanOpts] at h
    | _ :: _ => simp at hl
  | succ n ih =>
    intro opts e hl h
    match opts with
    | [] => simp [scanOpts] at h
    | a :: r =>
      have hr : r.length ≤ n := by simp at hl; omega
      rw [scanOpts] at h
      cases hf : findOpt tbl (kw a) 0 with
      | none =>
        rw [hf] at h
        simp only at h
        cases hu : unk (kw a) with
        | some e' => rw [hu] at h; simp only [Except.error.injEq] at h; subst h; exact Or.inr ⟨_, hu⟩
        | none => rw [hu] at h; exact ih r e hr h
      | some io =>
        obtain ⟨idx, o⟩ := io
        rw [hf] at h
        have hom := findOpt_mem tbl (kw a) 0 idx o hf
        have hpo := List.all_eq_true.mp hp o hom
        simp only [Bool.and_eq_true, decide_eq_true_eq] at hpo
        obtain ⟨⟨hlen, hrej⟩, hmiss⟩ := hpo
        have hrej' : o.reject = none := by simpa using hrej
        have hsub : ∀ l, l ∈ (o.vals.flatMap argErrs ++ match o.missing with | .err l => [l] | _ => []) →
            l ∈ optErrs tbl := by
          intro l hl'
          simp only [optErrs, List.mem_flatMap]
          exact ⟨o, hom, hl'⟩
        simp only [hrej'] at h
        match hv : o.vals with
        | [] =>
          rw [hv] at h
          simp only [bind, Except.bind] at h
          cases hs : scanOpts tbl unk r with
          | ok s => rw [hs] at h; simp [pure, Except.pure] at h
          | error e' => rw [hs] at h; simp only [Except.error.injEq] at h; subst h; exact ih r e' hr hs
        | [k1] =>
          rw [hv] at h hsub
          have hmiss : (match o.missing with | .err _ => true | _ => false) = true := by
            rw [hv] at hmiss; simpa using hmiss
          simp only at h
          match r with
          | [] =>
            simp only at h
            cases hm : o.missing with
            | err l =>
              rw [hm] at h hsub
              simp only [Missing.result, Except.error.injEq] at h
              exact Or.inl ⟨l, hsub l (by simp), h.symm⟩
            | crash => rw [hm] at hmiss; simp at hmiss
            | ignore => rw [hm] at hmiss; simp at hmiss
          | v1 :: rest' =>
            simp only [bind, Except.bind] at h
            cases hx : k1.extract v1 with
            | error e' =>
              rw [hx] at h; simp only [Except.error.injEq] at h; subst h
              obtain ⟨l, hl', he⟩ := extract_err hx
              exact Or.inl ⟨l, hsub l (by simp [hl']), he⟩
            | ok t1 =>
              rw [hx] at h
              simp only at h
              cases hs : scanOpts tbl unk rest' with
              | ok s => rw [hs] at h; simp [pure, Except.pure] at h
              | error e' =>
                rw [hs] at h; simp only [Except.error.injEq] at h; subst h
                exact ih rest' e' (by simp at hr; omega) hs
        | [k1, k2] =>
          rw [hv] at h hsub
          have hmiss : (match o.missing with | .err _ => true | _ => false) = true := by
            rw [hv] at hmiss; simpa using hmiss
          simp only at h
          have missCase : o.missing.result = .error e → (∃ l ∈ optErrs tbl, e = .lit l) ∨ (∃ w, unk w = some e) := by
            intro hmr
            cases hm : o.missing with
            | err l =>
              rw [hm] at hmr hsub
              simp only [Missing.result, Except.error.injEq] at hmr
              exact Or.inl ⟨l, hsub l (by simp), hmr.symm⟩
            | crash => rw [hm] at hmiss; simp at hmiss
            | ignore => rw [hm] at hmiss; simp at hmiss
          match r with
          | [] => exact missCase h
          | [_] => exact missCase h
          | v1 :: v2 :: rest' =>
            simp only [bind, Except.bind] at h
            cases hx : k1.extract v1 with
            | error e' =>
              rw [hx] at h; simp only [Except.error.injEq] at h; subst h
              obtain ⟨l, hl', he⟩ := extract_err hx
              exact Or.inl ⟨l, hsub l (by simp [hl']), he⟩
            | ok t1 =>
              rw [hx] at h
              simp only at h
              cases hy : k2.extract v2 with
              | error e' =>
                rw [hy] at h; simp only [Except.error.injEq] at h; subst h
                obtain ⟨l, hl', he⟩ := extract_err hy
                exact Or.inl ⟨l, hsub l (by simp [hl']), he⟩
              | ok t2 =>
                rw [hy] at h
                simp only at h
                cases hs : scanOpts tbl unk rest' with
                | ok s => rw [hs] at h; simp [pure, Except.pure] at h
                | error e' =>
                  rw [hs] at h; simp only [Except.error.injEq] at h; subst h
                  exact ih rest' e' (by simp at hr; omega) hs
        | _ :: _ :: _ :: _ => rw [hv] at hlen; simp at hlen


/-- the literals a DSL body can answer -/
def Body.lits : Body → List Lit
  | .const _ => []
  | .fixed _ sl => sl.flatMap argErrs
  | .many _ p e => p.flatMap argErrs ++ argErrs e
  | .pairs _ p a b => p.flatMap argErrs ++ (argErrs a ++ argErrs b)
  | .custom _ => []

/-- the arity rule of a DSL entry fits its slots (so the body never runs out of arguments) -/
def dslOk (s : Spec) : Bool :=
  match s.body, s.arity with
  | .const _, _ => true
  | .fixed _ sl, .exact n => n == sl.length
  | .many _ p _, .atLeast n => p.length ≤ n
  | .pairs _ p _ _, .evenAtLeast n => p.length ≤ n && p.length % 2 == 0
  | .pairs _ p _ _, .oddAtLeast n => p.length ≤ n && p.length % 2 == 1
  | _, _ => false

theorem dsl_err {s : Spec} (hd : dslOk s = true) {args : List Bytes} (ha : s.arity.ok args.length = true)
    {e : BErr} (h : s.body.run args = .error e) : ∃ l ∈ s.body.lits, e = .lit l := by
  unfold dslOk at hd
  cases hb : s.body with
  | const c => rw [hb] at h; simp [Body.run] at h
  | custom c => rw [hb] at hd; simp at hd
  | fixed c sl =>
    rw [hb] at hd h
    cases har : s.arity <;> rw [har] at hd ha <;> simp only [Bool.false_eq_true] at hd
    rename_i n
    simp only [beq_iff_eq] at hd
    simp only [Arity.ok, beq_iff_eq] at ha
    simp only [Body.run, bind, Except.bind] at h
    cases hx : extractFixed sl args with
    | ok ts => rw [hx] at h; simp [pure, Except.pure] at h
    | error e' =>
      rw [hx] at h; simp only [Except.error.injEq] at h; subst h
      exact extractFixed_err sl args e' (by omega) hx
  | many c p each =>
    rw [hb] at hd h
    cases har : s.arity <;> rw [har] at hd ha <;> simp only [Bool.false_eq_true] at hd
    rename_i n
    simp only [decide_eq_true_eq] at hd
    simp only [Arity.ok, decide_eq_true_eq] at ha
    simp only [Body.run, bind, Except.bind] at h
    cases hx : extractFixed p (args.take p.length) with
    | error e' =>
      rw [hx] at h; simp only [Except.error.injEq] at h; subst h
      obtain ⟨l, hl, he⟩ := extractFixed_err p _ e' (by simp [List.length_take]; omega) hx
      exact ⟨l, by simp [Body.lits, hl], he⟩
    | ok ts =>
      rw [hx] at h
      simp only at h
      cases hy : extractAll each (args.drop p.length) with
      | ok us => rw [hy] at h; simp [pure, Except.pure] at h
      | error e' =>
        rw [hy] at h; simp only [Except.error.injEq] at h; subst h
        obtain ⟨l, hl, he⟩ := extractAll_err each _ e' hy
        exact ⟨l, by simp [Body.lits, hl], he⟩
  | pairs c p a b =>
    rw [hb] at hd h
    have key : p.length ≤ args.length ∧ (args.length - p.length) % 2 = 0 := by
      cases har : s.arity <;> rw [har] at hd ha <;> simp only [Bool.false_eq_true] at hd
      · simp only [Bool.and_eq_true, decide_eq_true_eq, beq_iff_eq] at hd
        simp only [Arity.ok, Bool.and_eq_true, decide_eq_true_eq, beq_iff_eq] at ha
        omega
      · simp only [Bool.and_eq_true, decide_eq_true_eq, beq_iff_eq] at hd
        simp only [Arity.ok, Bool.and_eq_true, decide_eq_true_eq, beq_iff_eq] at ha
        omega
    simp only [Body.run, bind, Except.bind] at h
    cases hx : extractFixed p (args.take p.length) with
    | error e' =>
      rw [hx] at h; simp only [Except.error.injEq] at h; subst h
      obtain ⟨l, hl, he⟩ := extractFixed_err p _ e' (by simp [List.length_take]; omega) hx
      exact ⟨l, by simp [Body.lits, hl], he⟩
    | ok ts =>
      rw [hx] at h
      simp only at h
      cases hy : extractPairs a b (args.drop p.length) with
      | ok us => rw [hy] at h; simp [pure, Except.pure] at h
      | error e' =>
        rw [hy] at h; simp only [Except.error.injEq] at h; subst h
        obtain ⟨l, hl, he⟩ := extractPairs_err a b _ _ e' (Nat.le_refl _) (by simp [List.length_drop]; exact key.2) hy
        refine ⟨l, ?_, he⟩
        simp only [Body.lits, List.mem_append] at hl ⊢
        exact Or.inr hl

/-! ### the translator's custom bodies -/

theorem luaSet_err {args : List Bytes} (hl : 2 ≤ args.length) {e : BErr} (h : Bodies.luaSet args = .error e) :
    (∃ l ∈ [Lit.luaSetExInt, .luaSetEx, .luaSetPxInt, .luaSetPx, .nxxx], e = .lit l) ∨ ∃ w, e = .fmt .luaUnknownSet w := by
  match args, hl with
  | k :: v :: opts, _ =>
    simp only [Bodies.luaSet, bind, Except.bind] at h
    cases hs : scanOpts Bodies.luaSetOpts (fun w => some (.fmt .luaUnknownSet w)) opts with
    | ok s =>
      rw [hs] at h
      simp only at h
      split at h
      · simp only [Except.error.injEq] at h; exact Or.inl ⟨.nxxx, by simp, h.symm⟩
      · simp at h
    | error e' =>
      rw [hs] at h; simp only [Except.error.injEq] at h; subst h
      rcases scan_err Bodies.luaSetOpts _ (by decide) opts.length opts e' (Nat.le_refl _) hs with ⟨l, hl', he⟩ | ⟨w, hw⟩
      · refine Or.inl ⟨l, ?_, he⟩
        have : optErrs Bodies.luaSetOpts = [Lit.luaSetExInt, .luaSetEx, .luaSetPxInt, .luaSetPx] := by decide
        rw [this] at hl'
        simp only [List.mem_cons, List.mem_nil_iff, or_false] at hl' ⊢
        rcases hl' with h | h | h | h <;> simp [h]
      · simp only [Option.some.injEq] at hw
        exact Or.inr ⟨w, hw.symm⟩

theorem luaExpire_err {args : List Bytes} (hl : args.length = 2) {e : BErr} (h : Bodies.luaExpire args = .error e) :
    e = .lit .luaExpireInt := by
  match args, hl with
  | [k, n], _ =>
    simp only [Bodies.luaExpire, bind, Except.bind] at h
    cases hx : (aIntE .luaExpireInt).extract n with
    | ok t => rw [hx] at h; simp at h
    | error e' =>
      rw [hx] at h; simp only [Except.error.injEq] at h; subst h
      obtain ⟨l, hl', he⟩ := extract_err hx
      simp [argErrs, aIntE] at hl'
      rw [he, hl']

theorem lmove_err {args : List Bytes} (hl : args.length = 4) {e : BErr} (h : Bodies.lmove args = .error e) :
    e = .lit .lmoveFrom ∨ e = .lit .lmoveTo := by
  match args, hl with
  | [s, d, f, t], _ =>
    simp only [Bodies.lmove] at h
    split at h
    · simp only [Except.error.injEq] at h; exact Or.inl h.symm
    · split at h
      · simp only [Except.error.injEq] at h; exact Or.inr h.symm
      · simp at h

theorem zadd_err (score : Arg) {args : List Bytes} (hl : 3 ≤ args.length) {e : BErr}
    (h : Bodies.zadd score args = .error e) : e = .lit .zaddPairs ∨ ∃ l ∈ argErrs score, e = .lit l := by
  match args, hl with
  | k :: rest, _ =>
    simp only [Bodies.zadd] at h
    split at h
    · simp only [Except.error.injEq] at h; exact Or.inl h.symm
    · rename_i hc
      simp only [bind, Except.bind] at h
      cases hx : extractPairs score aSds (takeFlags Bodies.zaddFlags rest).2 with
      | ok us => rw [hx] at h; simp at h
      | error e' =>
        rw [hx] at h; simp only [Except.error.injEq] at h; subst h
        have hev : (takeFlags Bodies.zaddFlags rest).2.length % 2 = 0 := by
          simp only [Bool.or_eq_true, bne_iff_ne, ne_eq, beq_iff_eq, not_or, Decidable.not_not] at hc
          exact hc.1
        obtain ⟨l, hl', he⟩ := extractPairs_err score aSds _ _ e' (Nat.le_refl _) hev hx
        refine Or.inr ⟨l, ?_, he⟩
        simpa [argErrs, aSds] using hl'

theorem luaZrange_err {args : List Bytes} (hl : args.length = 3) {e : BErr} (h : Bodies.luaZrange args = .error e) :
    e = .lit .luaZrangeStart ∨ e = .lit .luaZrangeStop := by
  match args, hl with
  | [k, a, b], _ =>
    simp only [Bodies.luaZrange, bind, Except.bind] at h
    cases hx : extractFixed [aIntE .luaZrangeStart, aIntE .luaZrangeStop] [a, b] with
    | ok ts => rw [hx] at h; simp at h
    | error e' =>
      rw [hx] at h; simp only [Except.error.injEq] at h; subst h
      obtain ⟨l, hl', he⟩ := extractFixed_err _ _ e' rfl hx
      simp [argErrs, aIntE] at hl'
      rcases hl' with h | h <;> simp [he, h]

theorem zrbs_err (off cnt : Arg) (m : Lit) (u : Fmt) {args : List Bytes} (hl : 3 ≤ args.length) {e : BErr}
    (h : Bodies.zrangebyscore off cnt m u args = .error e) :
    (∃ l ∈ argErrs off ++ argErrs cnt ++ [m], e = .lit l) ∨ ∃ w, e = .fmt u w := by
  match args, hl with
  | k :: mn :: mx :: opts, _ =>
    simp only [Bodies.zrangebyscore, bind, Except.bind] at h
    cases hs : scanOpts (Bodies.zrbsOpts off cnt m) (fun w => some (.fmt u w)) opts with
    | ok s => rw [hs] at h; simp at h
    | error e' =>
      rw [hs] at h; simp only [Except.error.injEq] at h; subst h
      rcases scan_err (Bodies.zrbsOpts off cnt m) _ (by simp [plainOpts, Bodies.zrbsOpts, List.isEmpty]) opts.length opts e'
          (Nat.le_refl _) hs with ⟨l, hl', he⟩ | ⟨w, hw⟩
      · refine Or.inl ⟨l, ?_, he⟩
        simpa [optErrs, Bodies.zrbsOpts] using hl'
      · simp only [Option.some.injEq] at hw
        exact Or.inr ⟨w, hw.symm⟩

end RedisVerif.Grammar
