import RedisVerif.Model.Ring
import RedisVerif.Lemmas.NMap

/-! Helper lemmas for C19 (`Model/Ring.lean`): stable sort, the clockwise walk as a fold over
    the rotated ring, invariants of `add_node` / `remove_node`, routing-table lookups. -/
namespace RedisVerif
namespace Ring

/-- a ring sorted by position (weakly: equal positions are allowed) -/
def Sorted (l : List Slot) : Prop := l.Pairwise (fun a b => a.pos ≤ b.pos)

instance : DecidablePred Sorted := fun l => by unfold Sorted; infer_instance

/-! ## stable sort -/

/-- sorted by the sort key of `tb` -/
def SortedBy (tb : TieBreak) (l : List Slot) : Prop := l.Pairwise (fun a b => slotLe tb a b = true)

instance (tb : TieBreak) : DecidablePred (SortedBy tb) := fun l => by unfold SortedBy; infer_instance

theorem slotLe_pos {tb : TieBreak} {a b : Slot} (h : slotLe tb a b = true) : a.pos ≤ b.pos := by
  cases tb <;> simp [slotLe] at h <;> omega

theorem slotLe_total {tb : TieBreak} {a b : Slot} (h : slotLe tb a b = false) : slotLe tb b a = true := by
  cases tb <;> simp [slotLe] at h ⊢ <;> omega

theorem slotLe_trans {tb : TieBreak} {a b c : Slot} (h1 : slotLe tb a b = true) (h2 : slotLe tb b c = true) :
    slotLe tb a c = true := by
  cases tb <;> simp [slotLe] at h1 h2 ⊢ <;> omega

/-- the patched sort key is a TOTAL order on slots: two slots that compare both ways are equal -/
theorem slotLe_total_antisymm {a b : Slot} (h1 : slotLe .total a b = true) (h2 : slotLe .total b a = true) :
    a = b := by
  cases a; cases b
  simp [slotLe] at h1 h2 ⊢
  omega

theorem sorted_of_sortedBy {tb : TieBreak} {l : List Slot} (h : SortedBy tb l) : Sorted l :=
  List.Pairwise.imp (fun h => slotLe_pos h) h

theorem sortedBy_joinOrder {l : List Slot} : SortedBy .joinOrder l ↔ Sorted l := by
  unfold SortedBy Sorted
  constructor <;> intro h <;> refine List.Pairwise.imp ?_ h <;> intro a b hab <;> simpa [slotLe] using hab

theorem insertSorted_perm (tb : TieBreak) (e : Slot) (l : List Slot) : (insertSorted tb e l).Perm (e :: l) := by
  induction l with
  | nil => exact List.Perm.refl _
  | cons x xs ih =>
    simp only [insertSorted]
    split
    · exact List.Perm.refl _
    · exact (List.Perm.cons x ih).trans (List.Perm.swap e x xs)

theorem mem_insertSorted {tb : TieBreak} {e s : Slot} {l : List Slot} : s ∈ insertSorted tb e l ↔ s = e ∨ s ∈ l := by
  rw [(insertSorted_perm tb e l).mem_iff]; simp

theorem sortedBy_insertSorted {tb : TieBreak} {e : Slot} {l : List Slot} (h : SortedBy tb l) :
    SortedBy tb (insertSorted tb e l) := by
  induction l with
  | nil => simp [insertSorted, SortedBy]
  | cons x xs ih =>
    unfold SortedBy at h ih ⊢
    simp only [insertSorted]
    split
    · rename_i hle
      rw [List.pairwise_cons] at h ⊢
      refine ⟨?_, List.pairwise_cons.mpr h⟩
      intro b hb
      rcases List.mem_cons.mp hb with rfl | hb
      · exact hle
      · exact slotLe_trans hle (h.1 b hb)
    · rename_i hle
      rw [List.pairwise_cons] at h ⊢
      refine ⟨?_, ih h.2⟩
      intro b hb
      rcases mem_insertSorted.mp hb with rfl | hb
      · exact slotLe_total (by simpa using hle)
      · exact h.1 b hb

theorem stableSort_perm (tb : TieBreak) (l : List Slot) : (stableSort tb l).Perm l := by
  induction l with
  | nil => exact List.Perm.refl _
  | cons x xs ih =>
    simp only [stableSort, List.foldr_cons]
    exact (insertSorted_perm tb x _).trans (List.Perm.cons x ih)

theorem mem_stableSort {tb : TieBreak} {s : Slot} {l : List Slot} : s ∈ stableSort tb l ↔ s ∈ l :=
  (stableSort_perm tb l).mem_iff

theorem sortedBy_stableSort (tb : TieBreak) (l : List Slot) : SortedBy tb (stableSort tb l) := by
  induction l with
  | nil => simp [stableSort, SortedBy]
  | cons x xs ih =>
    simp only [stableSort, List.foldr_cons]
    exact sortedBy_insertSorted ih

theorem sorted_stableSort (tb : TieBreak) (l : List Slot) : Sorted (stableSort tb l) :=
  sorted_of_sortedBy (sortedBy_stableSort tb l)

theorem insertSorted_of_le_all {tb : TieBreak} {e : Slot} {l : List Slot} (h : ∀ b ∈ l, slotLe tb e b = true) :
    insertSorted tb e l = e :: l := by
  cases l with
  | nil => rfl
  | cons x xs => simp [insertSorted, h x List.mem_cons_self]

theorem stableSort_of_sorted {tb : TieBreak} {l : List Slot} (h : SortedBy tb l) : stableSort tb l = l := by
  induction l with
  | nil => rfl
  | cons x xs ih =>
    unfold SortedBy at h ih
    rw [List.pairwise_cons] at h
    simp only [stableSort, List.foldr_cons]
    have := ih h.2
    simp only [stableSort] at this
    rw [this]
    exact insertSorted_of_le_all h.1

theorem filter_insertSorted {tb : TieBreak} (p : Slot → Bool) (e : Slot) {l : List Slot} (hs : SortedBy tb l) :
    (insertSorted tb e l).filter p = if p e then insertSorted tb e (l.filter p) else l.filter p := by
  induction l with
  | nil => cases h : p e <;> simp [insertSorted, h]
  | cons x xs ih =>
    unfold SortedBy at hs ih
    rw [List.pairwise_cons] at hs
    simp only [insertSorted]
    by_cases hle : slotLe tb e x = true
    · simp only [hle, if_true]
      have hall : ∀ b ∈ (x :: xs).filter p, slotLe tb e b = true := by
        intro b hb
        have hb' := (List.mem_filter.mp hb).1
        rcases List.mem_cons.mp hb' with rfl | hb'
        · exact hle
        · exact slotLe_trans hle (hs.1 b hb')
      rw [insertSorted_of_le_all hall]
      cases hpe : p e <;> simp [List.filter_cons, hpe]
    · have hle' : slotLe tb e x = false := by simpa using hle
      simp only [hle', Bool.false_eq_true, if_false]
      rw [List.filter_cons, ih hs.2]
      cases hpe : p e <;> cases hpx : p x <;> simp [hpx, insertSorted, hle']

theorem filter_stableSort (tb : TieBreak) (p : Slot → Bool) (l : List Slot) :
    (stableSort tb l).filter p = stableSort tb (l.filter p) := by
  induction l with
  | nil => rfl
  | cons x xs ih =>
    have h1 : stableSort tb (x :: xs) = insertSorted tb x (stableSort tb xs) := rfl
    rw [h1, filter_insertSorted p x (sortedBy_stableSort tb xs), ih, List.filter_cons]
    cases hpx : p x <;> simp [stableSort]

/-! ## the clockwise walk as a fold -/

/-- one step of the walk on the node of the next slot -/
def collectStep (n : Nat) (acc : List Nat) (x : Nat) : List Nat :=
  if acc.length < n ∧ ¬ x ∈ acc then acc ++ [x] else acc

/-- first `n` distinct elements of `l`, in order of first occurrence, appended to `acc` -/
def collect (n : Nat) (l acc : List Nat) : List Nat := l.foldl (collectStep n) acc

theorem collect_nil (n : Nat) (acc : List Nat) : collect n [] acc = acc := rfl

theorem collect_cons (n x : Nat) (xs acc : List Nat) :
    collect n (x :: xs) acc = collect n xs (collectStep n acc x) := rfl

theorem collect_full {n : Nat} {acc : List Nat} (h : n ≤ acc.length) (l : List Nat) :
    collect n l acc = acc := by
  induction l with
  | nil => rfl
  | cons x xs ih =>
    rw [collect_cons]
    have : collectStep n acc x = acc := by
      unfold collectStep
      rw [if_neg]; omega
    rw [this, ih]

theorem subset_collectStep {n x : Nat} {acc : List Nat} : ∀ a ∈ acc, a ∈ collectStep n acc x := by
  intro a ha
  unfold collectStep
  split
  · exact List.mem_append_left _ ha
  · exact ha

theorem subset_collect {n : Nat} {l acc : List Nat} : ∀ a ∈ acc, a ∈ collect n l acc := by
  induction l generalizing acc with
  | nil => intro a ha; exact ha
  | cons x xs ih =>
    intro a ha
    rw [collect_cons]
    exact ih a (subset_collectStep a ha)

theorem mem_collectStep {n x a : Nat} {acc : List Nat} (h : a ∈ collectStep n acc x) :
    a ∈ acc ∨ a = x := by
  unfold collectStep at h
  split at h
  · rcases List.mem_append.mp h with h | h
    · exact Or.inl h
    · exact Or.inr (by simpa using h)
  · exact Or.inl h

theorem mem_collect {n a : Nat} {l acc : List Nat} (h : a ∈ collect n l acc) : a ∈ acc ∨ a ∈ l := by
  induction l generalizing acc with
  | nil => exact Or.inl h
  | cons x xs ih =>
    rw [collect_cons] at h
    rcases ih h with h | h
    · rcases mem_collectStep h with h | h
      · exact Or.inl h
      · exact Or.inr (h ▸ List.mem_cons_self)
    · exact Or.inr (List.mem_cons_of_mem _ h)

theorem nodup_collectStep {n x : Nat} {acc : List Nat} (h : acc.Nodup) :
    (collectStep n acc x).Nodup := by
  unfold collectStep
  split
  · rename_i hc
    rw [List.nodup_append]
    refine ⟨h, by simp, ?_⟩
    intro a ha b hb
    have : b = x := by simpa using hb
    subst this
    intro hab
    exact hc.2 (hab ▸ ha)
  · exact h

theorem nodup_collect {n : Nat} {l acc : List Nat} (h : acc.Nodup) : (collect n l acc).Nodup := by
  induction l generalizing acc with
  | nil => exact h
  | cons x xs ih => rw [collect_cons]; exact ih (nodup_collectStep h)

theorem length_collectStep_le {n x : Nat} {acc : List Nat} (h : acc.length ≤ n) :
    (collectStep n acc x).length ≤ n := by
  unfold collectStep
  split
  · rename_i hc; simp only [List.length_append, List.length_singleton]; omega
  · exact h

theorem length_collect_le {n : Nat} {l acc : List Nat} (h : acc.length ≤ n) :
    (collect n l acc).length ≤ n := by
  induction l generalizing acc with
  | nil => exact h
  | cons x xs ih => rw [collect_cons]; exact ih (length_collectStep_le h)

/-- if the walk ended with fewer than `n` nodes it has seen (and taken) every node of `l` -/
theorem collect_short_covers {n : Nat} {l acc : List Nat} (h : (collect n l acc).length < n) :
    ∀ a ∈ l, a ∈ collect n l acc := by
  induction l generalizing acc with
  | nil => intro a ha; cases ha
  | cons x xs ih =>
    rw [collect_cons] at h ⊢
    intro a ha
    rcases List.mem_cons.mp ha with rfl | ha
    · apply subset_collect
      unfold collectStep
      split
      · exact List.mem_append_right _ (List.mem_singleton.mpr rfl)
      · rename_i hc
        -- not taken: either already there, or acc was full — but then the result is full too
        by_cases hm : a ∈ acc
        · exact hm
        · exfalso
          have hfull : n ≤ acc.length := by
            by_cases hl : acc.length < n
            · exact absurd ⟨hl, hm⟩ hc
            · omega
          have h2 : collectStep n acc a = acc := by unfold collectStep; rw [if_neg hc]
          rw [h2, collect_full hfull] at h
          omega
    · exact ih h a ha

/-- dropping every occurrence of a node that the walk does not return does not change the walk -/
theorem collect_filter_ne {n x : Nat} {l acc : List Nat} (h : ¬ x ∈ collect n l acc) :
    collect n (l.filter fun y => y != x) acc = collect n l acc := by
  induction l generalizing acc with
  | nil => rfl
  | cons y ys ih =>
    rw [collect_cons] at h ⊢
    by_cases hy : y = x
    · subst hy
      have hstep : collectStep n acc y = acc := by
        unfold collectStep
        split
        · exfalso
          apply h
          apply subset_collect
          unfold collectStep
          rw [if_pos (by assumption)]
          exact List.mem_append_right _ (List.mem_singleton.mpr rfl)
        · rfl
      rw [hstep] at h ⊢
      simp only [List.filter_cons, bne_self_eq_false, Bool.false_eq_true, if_false]
      exact ih h
    · have : (y != x) = true := by simpa using hy
      simp only [List.filter_cons, this, if_true, collect_cons]
      exact ih h

/-! ## rotation of the ring at the start index -/

theorem getElem_rot {α : Type} (l : List α) (s j : Nat) (hs : s < l.length) (hj : j < l.length)
    (h1 : j < (l.drop s ++ l.take s).length) (h2 : (s + j) % l.length < l.length) :
    (l.drop s ++ l.take s)[j] = l[(s + j) % l.length] := by
  rw [List.getElem_append]
  split
  · rename_i h
    rw [List.getElem_drop]
    simp only [List.length_drop] at h
    congr 1
    rw [Nat.mod_eq_of_lt]; omega
  · rename_i h
    rw [List.getElem_take]
    simp only [List.length_drop] at h ⊢
    congr 1
    have : s + j = (j - (l.length - s)) + l.length := by omega
    rw [this, Nat.add_mod_right, Nat.mod_eq_of_lt]; omega

/-- on a sorted list a monotone predicate splits the list at its first hit -/
theorem split_findIdx (p : Slot → Bool) {l : List Slot} (hs : Sorted l)
    (hmono : ∀ a b : Slot, a.pos ≤ b.pos → p a = true → p b = true) :
    l.drop (l.findIdx p) = l.filter p ∧ l.take (l.findIdx p) = l.filter (fun s => !p s) := by
  induction l with
  | nil => simp
  | cons x xs ih =>
    unfold Sorted at hs ih
    rw [List.pairwise_cons] at hs
    rw [List.findIdx_cons]
    cases hpx : p x
    · simp only [cond_false, List.drop_succ_cons, List.take_succ_cons, List.filter_cons, hpx,
        Bool.false_eq_true, if_false, Bool.not_false, if_true]
      exact ⟨(ih hs.2).1, by rw [(ih hs.2).2]⟩
    · have hall : ∀ a ∈ x :: xs, p a = true := by
        intro a ha
        rcases List.mem_cons.mp ha with rfl | ha
        · exact hpx
        · exact hmono x a (hs.1 a ha) hpx
      simp only [cond_true, List.drop_zero, List.take_zero]
      refine ⟨(List.filter_eq_self.mpr hall).symm, ?_⟩
      symm
      rw [List.filter_eq_nil_iff]
      intro a ha
      simp [hall a ha]

/-- nodes of the ring in clockwise order starting at the key position -/
def rotNodes (ring : List Slot) (keyPos : Nat) : List Nat :=
  ((ring.filter fun s => keyPos ≤ s.pos) ++ (ring.filter fun s => !decide (keyPos ≤ s.pos))).map Slot.node

theorem rot_startIdx {ring : List Slot} (hs : Sorted ring) (keyPos : Nat) :
    ring.drop (startIdx ring keyPos) ++ ring.take (startIdx ring keyPos)
      = (ring.filter fun s => keyPos ≤ s.pos) ++ (ring.filter fun s => !decide (keyPos ≤ s.pos)) := by
  have hmono : ∀ a b : Slot, a.pos ≤ b.pos → decide (keyPos ≤ a.pos) = true → decide (keyPos ≤ b.pos) = true := by
    intro a b hab ha
    simp only [decide_eq_true_eq] at ha ⊢
    omega
  have hsp := split_findIdx (fun s => decide (keyPos ≤ s.pos)) hs hmono
  unfold startIdx
  by_cases hlt : (ring.findIdx fun s => decide (keyPos ≤ s.pos)) < ring.length
  · rw [Nat.mod_eq_of_lt hlt, hsp.1, hsp.2]
  · have heq : (ring.findIdx fun s => decide (keyPos ≤ s.pos)) = ring.length := by
      have := @List.findIdx_le_length _ (fun s : Slot => decide (keyPos ≤ s.pos)) ring
      omega
    have hnone := List.findIdx_eq_length.mp heq
    rw [heq, Nat.mod_self, List.drop_zero, List.take_zero, List.append_nil]
    have h1 : (ring.filter fun s => decide (keyPos ≤ s.pos)) = [] := by
      rw [List.filter_eq_nil_iff]; intro a ha; simp [hnone a ha]
    have h2 : (ring.filter fun s => !decide (keyPos ≤ s.pos)) = ring := by
      rw [List.filter_eq_self]; intro a ha; simp [hnone a ha]
    rw [h1, h2, List.nil_append]

/-! ## `seen : HashSet` vs `replicas : Vec` -/

theorem nset_mem_iff {s : NSet} {x : Nat} : s.mem x = true ↔ x ∈ s := by
  unfold NSet.mem; exact List.contains_iff_mem

theorem nset_mem_insert {s : NSet} {k x : Nat} : x ∈ NSet.insert k s ↔ x = k ∨ x ∈ s := by
  induction s with
  | nil => simp [NSet.insert]
  | cons y ys ih =>
    simp only [NSet.insert]
    split
    · simp
    · split
      · rename_i h; subst h; simp
      · rw [List.mem_cons, ih]
        simp only [List.mem_cons]
        constructor
        · rintro (h | h | h) <;> simp [h]
        · rintro (h | h | h) <;> simp [h]

theorem nset_length_insert {s : NSet} {k : Nat} (h : ¬ k ∈ s) :
    (NSet.insert k s).length = s.length + 1 := by
  induction s with
  | nil => simp [NSet.insert]
  | cons y ys ih =>
    simp only [NSet.insert]
    split
    · simp
    · split
      · rename_i hk; subst hk; exact absurd List.mem_cons_self h
      · simp only [List.length_cons]
        rw [ih (fun hm => h (List.mem_cons_of_mem _ hm))]

/-- `seen` and `replicas` always hold the same nodes -/
def SeenInv (seen : NSet) (acc : List Nat) : Prop :=
  seen.length = acc.length ∧ ∀ x, x ∈ seen ↔ x ∈ acc

theorem walk_eq_collect (ring : List Slot) (hne : 0 < ring.length) (n nphys start : Nat)
    (hn : n ≤ nphys) (hs : start < ring.length) :
    ∀ (fuel j : Nat) (acc : List Nat) (seen : NSet), j + fuel = ring.length → SeenInv seen acc →
      walk ring hne n nphys start fuel (start + j) acc seen
        = collect n (((ring.drop start ++ ring.take start).drop j).map Slot.node) acc := by
  have hlen : (ring.drop start ++ ring.take start).length = ring.length := by
    simp only [List.length_append, List.length_drop, List.length_take]; omega
  intro fuel
  induction fuel with
  | zero =>
    intro j acc seen hj _
    have : (ring.drop start ++ ring.take start).drop j = [] := by
      apply List.drop_eq_nil_of_le; omega
    rw [this]; rfl
  | succ fuel ih =>
    intro j acc seen hj hinv
    have hjlt : j < ring.length := by omega
    have hjlt' : j < (ring.drop start ++ ring.take start).length := by omega
    rw [List.drop_eq_getElem_cons hjlt', List.map_cons, collect_cons]
    rw [getElem_rot ring start j hs hjlt hjlt' (Nat.mod_lt _ hne)]
    unfold walk
    by_cases hc : acc.length < n
    · have hcond : acc.length < n ∧ seen.length < nphys := ⟨hc, by rw [hinv.1]; omega⟩
      rw [if_pos hcond]
      simp only []
      generalize hnode : (ring[(start + j) % ring.length]'(Nat.mod_lt _ hne)).node = x
      by_cases hx : x ∈ acc
      · have hseen : seen.mem x = true := nset_mem_iff.mpr ((hinv.2 x).mpr hx)
        have hstep : collectStep n acc x = acc := by
          unfold collectStep; rw [if_neg]; intro h; exact h.2 hx
        simp only [hseen, Bool.not_true, Bool.false_eq_true, if_false, hstep]
        split
        · rename_i hbrk
          have : (ring.drop start ++ ring.take start).drop (j + 1) = [] := by
            apply List.drop_eq_nil_of_le; omega
          rw [this]; rfl
        · rename_i hbrk
          have := ih (j + 1) acc seen (by omega) hinv
          rw [← Nat.add_assoc] at this
          exact this
      · have hseen : seen.mem x = false := by
          cases h : seen.mem x
          · rfl
          · exact absurd ((hinv.2 x).mp (nset_mem_iff.mp h)) hx
        have hstep : collectStep n acc x = acc ++ [x] := by
          unfold collectStep; rw [if_pos ⟨hc, hx⟩]
        have hinv' : SeenInv (NSet.insert x seen) (acc ++ [x]) := by
          refine ⟨?_, ?_⟩
          · rw [nset_length_insert (fun h => hx ((hinv.2 x).mp h)), hinv.1]; simp
          · intro y
            rw [nset_mem_insert, List.mem_append, List.mem_singleton, hinv.2 y]
            constructor
            · rintro (h | h); exact Or.inr h; exact Or.inl h
            · rintro (h | h); exact Or.inr h; exact Or.inl h
        simp only [hseen, Bool.not_false, if_true, hstep]
        split
        · rename_i hbrk
          have : (ring.drop start ++ ring.take start).drop (j + 1) = [] := by
            apply List.drop_eq_nil_of_le; omega
          rw [this]; rfl
        · rename_i hbrk
          have := ih (j + 1) (acc ++ [x]) (NSet.insert x seen) (by omega) hinv'
          rw [← Nat.add_assoc] at this
          exact this
    · have hcond : ¬ (acc.length < n ∧ seen.length < nphys) := fun h => hc h.1
      rw [if_neg hcond]
      have hfull : n ≤ acc.length := by omega
      have hstep : collectStep n acc (ring[(start + j) % ring.length]'(Nat.mod_lt _ hne)).node = acc := by
        unfold collectStep; rw [if_neg]; omega
      rw [hstep, collect_full hfull]

theorem startIdx_lt {ring : List Slot} (hne : 0 < ring.length) (keyPos : Nat) :
    startIdx ring keyPos < ring.length := Nat.mod_lt _ hne

/-- **the walk, characterised**: on a sorted ring `get_replicas_with_rf` returns the first
    `min rf |physical_nodes|` distinct nodes met clockwise from the key position -/
theorem getReplicasWithRf_eq {r : HashRing} (hs : Sorted r.ring) (keyPos rf : Nat) :
    getReplicasWithRf r keyPos rf = collect (min rf r.phys.length) (rotNodes r.ring keyPos) [] := by
  unfold getReplicasWithRf
  split
  · rename_i hne
    simp only []
    have h := walk_eq_collect r.ring hne (min rf r.phys.length) r.phys.length (startIdx r.ring keyPos)
      (Nat.min_le_right _ _) (startIdx_lt hne keyPos) r.ring.length 0 [] []
      (by omega) ⟨rfl, fun x => Iff.rfl⟩
    rw [Nat.add_zero, List.drop_zero, rot_startIdx hs] at h
    exact h
  · rename_i hne
    have : r.ring = [] := by
      cases hr : r.ring with
      | nil => rfl
      | cons a as => rw [hr] at hne; simp at hne
    simp [rotNodes, this, collect]

/-! ## invariants of the ring state -/

/-- what every `HashRing` value built by `new` / `add_node` / `remove_node` satisfies -/
structure WF (r : HashRing) : Prop where
  sorted : Sorted r.ring
  sortedBy : SortedBy r.tb r.ring
  physNodup : r.phys.Nodup
  ringSub : ∀ s ∈ r.ring, s.node ∈ r.phys

/-- every physical node owns at least one slot (holds when `virtual_nodes_per_physical ≥ 1`) -/
def Covered (r : HashRing) : Prop := ∀ n ∈ r.phys, ∃ s ∈ r.ring, s.node = n

theorem wf_emptyTB (tb : TieBreak) (vnodes rf : Nat) : WF (emptyTB tb vnodes rf) :=
  ⟨by simp [emptyTB, Sorted], by simp [emptyTB, SortedBy], by simp [emptyTB], by simp [emptyTB]⟩

theorem wf_empty (vnodes rf : Nat) : WF (empty vnodes rf) := wf_emptyTB _ vnodes rf

theorem covered_emptyTB (tb : TieBreak) (vnodes rf : Nat) : Covered (emptyTB tb vnodes rf) := by
  intro n hn; simp [emptyTB] at hn

theorem covered_empty (vnodes rf : Nat) : Covered (empty vnodes rf) := covered_emptyTB _ vnodes rf

theorem mem_vnodesOf {hashV : Nat → Nat → Nat} {node vnodes : Nat} {s : Slot} :
    s ∈ vnodesOf hashV node vnodes ↔ ∃ i, i < vnodes ∧ s = ⟨hashV node i, node, i⟩ := by
  unfold vnodesOf
  simp only [List.mem_map, List.mem_range]
  constructor
  · rintro ⟨i, hi, rfl⟩; exact ⟨i, hi, rfl⟩
  · rintro ⟨i, hi, rfl⟩; exact ⟨i, hi, rfl⟩

theorem addNode_of_mem {hashV : Nat → Nat → Nat} {r : HashRing} {x : Nat} (h : x ∈ r.phys) :
    addNode hashV r x = r := by
  unfold addNode
  rw [if_pos (List.contains_iff_mem.mpr h)]

theorem addNode_of_not_mem {hashV : Nat → Nat → Nat} {r : HashRing} {x : Nat} (h : ¬ x ∈ r.phys) :
    addNode hashV r x = { r with
      phys := r.phys ++ [x]
      ring := stableSort r.tb (r.ring ++ vnodesOf hashV x r.vnodes) } := by
  unfold addNode
  rw [if_neg (fun hc => h (List.contains_iff_mem.mp hc))]

theorem addNode_vnodes (hashV : Nat → Nat → Nat) (r : HashRing) (x : Nat) :
    (addNode hashV r x).vnodes = r.vnodes ∧ (addNode hashV r x).rf = r.rf := by
  unfold addNode; split <;> simp

theorem addNode_tb (hashV : Nat → Nat → Nat) (r : HashRing) (x : Nat) : (addNode hashV r x).tb = r.tb := by
  unfold addNode; split <;> simp

theorem removeNode_tb (r : HashRing) (x : Nat) : (removeNode r x).tb = r.tb := rfl

theorem mem_phys_addNode {hashV : Nat → Nat → Nat} {r : HashRing} {x y : Nat} :
    y ∈ (addNode hashV r x).phys ↔ y ∈ r.phys ∨ y = x := by
  by_cases h : x ∈ r.phys
  · rw [addNode_of_mem h]
    constructor
    · exact Or.inl
    · rintro (h' | rfl); exact h'; exact h
  · rw [addNode_of_not_mem h]; simp

theorem mem_ring_addNode {hashV : Nat → Nat → Nat} {r : HashRing} {x : Nat} {s : Slot}
    (h : ¬ x ∈ r.phys) :
    s ∈ (addNode hashV r x).ring ↔ s ∈ r.ring ∨ s ∈ vnodesOf hashV x r.vnodes := by
  rw [addNode_of_not_mem h]
  simp only [mem_stableSort, List.mem_append]

theorem wf_addNode (hashV : Nat → Nat → Nat) {r : HashRing} (x : Nat) (h : WF r) :
    WF (addNode hashV r x) := by
  by_cases hx : x ∈ r.phys
  · rw [addNode_of_mem hx]; exact h
  · refine ⟨?_, ?_, ?_, ?_⟩
    · rw [addNode_of_not_mem hx]; exact sorted_stableSort _ _
    · rw [addNode_of_not_mem hx]; exact sortedBy_stableSort _ _
    · rw [addNode_of_not_mem hx]
      simp only [List.nodup_append]
      refine ⟨h.physNodup, by simp, ?_⟩
      intro a ha b hb
      have : b = x := by simpa using hb
      subst this
      intro hab; exact hx (hab ▸ ha)
    · intro s hs
      rw [mem_phys_addNode]
      rcases (mem_ring_addNode hx).mp hs with hs | hs
      · exact Or.inl (h.ringSub s hs)
      · obtain ⟨i, _, rfl⟩ := mem_vnodesOf.mp hs
        exact Or.inr rfl

theorem covered_addNode (hashV : Nat → Nat → Nat) {r : HashRing} (x : Nat) (hv : 1 ≤ r.vnodes)
    (h : Covered r) : Covered (addNode hashV r x) := by
  by_cases hx : x ∈ r.phys
  · rw [addNode_of_mem hx]; exact h
  · intro n hn
    rcases mem_phys_addNode.mp hn with hn | rfl
    · obtain ⟨s, hs, hsn⟩ := h n hn
      exact ⟨s, (mem_ring_addNode hx).mpr (Or.inl hs), hsn⟩
    · exact ⟨⟨hashV n 0, n, 0⟩, (mem_ring_addNode hx).mpr (Or.inr (mem_vnodesOf.mpr ⟨0, by omega, rfl⟩)), rfl⟩

theorem wf_removeNode {r : HashRing} (x : Nat) (h : WF r) : WF (removeNode r x) := by
  refine ⟨?_, ?_, ?_, ?_⟩
  · exact List.Pairwise.filter _ h.sorted
  · exact List.Pairwise.filter _ h.sortedBy
  · exact List.Pairwise.filter _ h.physNodup
  · intro s hs
    simp only [removeNode, List.mem_filter] at hs ⊢
    exact ⟨h.ringSub s hs.1, hs.2⟩

theorem covered_removeNode {r : HashRing} (x : Nat) (h : Covered r) : Covered (removeNode r x) := by
  intro n hn
  simp only [removeNode, List.mem_filter] at hn ⊢
  obtain ⟨s, hs, hsn⟩ := h n hn.1
  exact ⟨s, ⟨hs, by rw [hsn]; exact hn.2⟩, hsn⟩

/-- `remove_node` undoes `add_node` of a new node -/
theorem removeNode_addNode {hashV : Nat → Nat → Nat} {r : HashRing} {x : Nat} (h : WF r)
    (hx : ¬ x ∈ r.phys) : removeNode (addNode hashV r x) x = r := by
  rw [addNode_of_not_mem hx]
  unfold removeNode
  simp only []
  have h1 : (r.phys ++ [x]).filter (fun n => n != x) = r.phys := by
    rw [List.filter_append]
    have : r.phys.filter (fun n => n != x) = r.phys := by
      rw [List.filter_eq_self]; intro a ha; simp; intro hax; exact hx (hax ▸ ha)
    rw [this]; simp
  have h2 : (stableSort r.tb (r.ring ++ vnodesOf hashV x r.vnodes)).filter (fun s => s.node != x) = r.ring := by
    rw [filter_stableSort, List.filter_append]
    have ha : r.ring.filter (fun s => s.node != x) = r.ring := by
      rw [List.filter_eq_self]; intro a ha; simp; intro hax; exact hx (hax ▸ h.ringSub a ha)
    have hb : (vnodesOf hashV x r.vnodes).filter (fun s => s.node != x) = [] := by
      rw [List.filter_eq_nil_iff]; intro a ha
      obtain ⟨i, _, rfl⟩ := mem_vnodesOf.mp ha
      simp
    rw [ha, hb, List.append_nil, stableSort_of_sorted h.sortedBy]
  rw [h1, h2]

/-- states of `HashRing` reachable through its public API -/
inductive Reachable (hashV : Nat → Nat → Nat) : HashRing → Prop where
  | empty (tb : TieBreak) (vnodes rf : Nat) : Reachable hashV (emptyTB tb vnodes rf)
  | add {r : HashRing} (x : Nat) : Reachable hashV r → Reachable hashV (addNode hashV r x)
  | remove {r : HashRing} (x : Nat) : Reachable hashV r → Reachable hashV (removeNode r x)

theorem Reachable.wf {hashV : Nat → Nat → Nat} {r : HashRing} (h : Reachable hashV r) : WF r := by
  induction h with
  | empty t v f => exact wf_emptyTB t v f
  | add x _ ih => exact wf_addNode hashV x ih
  | remove x _ ih => exact wf_removeNode x ih

theorem Reachable.covered {hashV : Nat → Nat → Nat} {r : HashRing} (h : Reachable hashV r)
    (hv : 1 ≤ r.vnodes) : Covered r := by
  induction h with
  | empty t v f => exact covered_emptyTB t v f
  | add x _ ih =>
    rw [(addNode_vnodes hashV _ x).1] at hv
    exact covered_addNode hashV x hv (ih hv)
  | remove x _ ih => exact covered_removeNode x (ih hv)

theorem foldl_addNode_reachable {hashV : Nat → Nat → Nat} (nodes : List Nat) {r : HashRing}
    (h : Reachable hashV r) : Reachable hashV (nodes.foldl (addNode hashV) r) := by
  induction nodes generalizing r with
  | nil => exact h
  | cons x xs ih => exact ih (Reachable.add x h)

theorem newTB_reachable (tb : TieBreak) (hashV : Nat → Nat → Nat) (nodes : List Nat) (vnodes rf : Nat) :
    Reachable hashV (newTB tb hashV nodes vnodes rf) :=
  foldl_addNode_reachable nodes (Reachable.empty tb vnodes rf)

theorem new_reachable (hashV : Nat → Nat → Nat) (nodes : List Nat) (vnodes rf : Nat) :
    Reachable hashV (new hashV nodes vnodes rf) := newTB_reachable _ hashV nodes vnodes rf

theorem foldl_addNode_vnodes (hashV : Nat → Nat → Nat) (nodes : List Nat) (r : HashRing) :
    (nodes.foldl (addNode hashV) r).vnodes = r.vnodes ∧ (nodes.foldl (addNode hashV) r).rf = r.rf := by
  induction nodes generalizing r with
  | nil => exact ⟨rfl, rfl⟩
  | cons x xs ih =>
    simp only [List.foldl_cons]
    rw [(ih _).1, (ih _).2]; exact addNode_vnodes hashV r x

theorem newTB_vnodes (tb : TieBreak) (hashV : Nat → Nat → Nat) (nodes : List Nat) (vnodes rf : Nat) :
    (newTB tb hashV nodes vnodes rf).vnodes = vnodes ∧ (newTB tb hashV nodes vnodes rf).rf = rf :=
  foldl_addNode_vnodes hashV nodes (emptyTB tb vnodes rf)

theorem new_vnodes (hashV : Nat → Nat → Nat) (nodes : List Nat) (vnodes rf : Nat) :
    (new hashV nodes vnodes rf).vnodes = vnodes ∧ (new hashV nodes vnodes rf).rf = rf :=
  newTB_vnodes _ hashV nodes vnodes rf

theorem foldl_addNode_tb (hashV : Nat → Nat → Nat) (nodes : List Nat) (r : HashRing) :
    (nodes.foldl (addNode hashV) r).tb = r.tb := by
  induction nodes generalizing r with
  | nil => rfl
  | cons x xs ih => simp only [List.foldl_cons]; rw [ih, addNode_tb]

theorem newTB_tb (tb : TieBreak) (hashV : Nat → Nat → Nat) (nodes : List Nat) (vnodes rf : Nat) :
    (newTB tb hashV nodes vnodes rf).tb = tb := foldl_addNode_tb hashV nodes (emptyTB tb vnodes rf)

/-! ## counting -/

theorem nodup_subset_length {l₁ l₂ : List Nat} (hn : l₁.Nodup) (hsub : ∀ a ∈ l₁, a ∈ l₂) :
    l₁.length ≤ l₂.length := by
  induction l₁ generalizing l₂ with
  | nil => simp
  | cons a as ih =>
    rw [List.nodup_cons] at hn
    have ha : a ∈ l₂ := hsub a List.mem_cons_self
    have hsub' : ∀ b ∈ as, b ∈ l₂.erase a := by
      intro b hb
      have hne : b ≠ a := fun h => hn.1 (h ▸ hb)
      exact (List.mem_erase_of_ne hne).mpr (hsub b (List.mem_cons_of_mem _ hb))
    have := ih hn.2 hsub'
    rw [List.length_erase_of_mem ha] at this
    have hpos : 0 < l₂.length := List.length_pos_of_mem ha
    simp only [List.length_cons]; omega

theorem mem_rotNodes {ring : List Slot} {keyPos n : Nat} :
    n ∈ rotNodes ring keyPos ↔ ∃ s ∈ ring, s.node = n := by
  unfold rotNodes
  simp only [List.mem_map, List.mem_append, List.mem_filter]
  constructor
  · rintro ⟨s, (⟨hs, _⟩ | ⟨hs, _⟩), rfl⟩ <;> exact ⟨s, hs, rfl⟩
  · rintro ⟨s, hs, rfl⟩
    by_cases h : keyPos ≤ s.pos
    · exact ⟨s, Or.inl ⟨hs, by simpa using h⟩, rfl⟩
    · exact ⟨s, Or.inr ⟨hs, by simpa using h⟩, rfl⟩

theorem replicas_subset_phys {r : HashRing} (h : WF r) (keyPos rf : Nat) :
    ∀ a ∈ getReplicasWithRf r keyPos rf, a ∈ r.phys := by
  intro a ha
  rw [getReplicasWithRf_eq h.sorted] at ha
  rcases mem_collect ha with ha | ha
  · cases ha
  · obtain ⟨s, hs, rfl⟩ := mem_rotNodes.mp ha
    exact h.ringSub s hs

theorem replicas_nodup {r : HashRing} (h : WF r) (keyPos rf : Nat) :
    (getReplicasWithRf r keyPos rf).Nodup := by
  rw [getReplicasWithRf_eq h.sorted]
  exact nodup_collect List.nodup_nil

theorem replicas_length {r : HashRing} (h : WF r) (hc : Covered r) (keyPos rf : Nat) :
    (getReplicasWithRf r keyPos rf).length = min rf r.phys.length := by
  have hle : (getReplicasWithRf r keyPos rf).length ≤ min rf r.phys.length := by
    rw [getReplicasWithRf_eq h.sorted]
    exact length_collect_le (Nat.zero_le _)
  apply Nat.le_antisymm hle
  apply Nat.le_of_not_lt
  intro hlt
  -- fewer than n: the walk has taken every node of the ring, hence every physical node
  have hcov : ∀ a ∈ r.phys, a ∈ getReplicasWithRf r keyPos rf := by
    intro a ha
    obtain ⟨s, hs, hsn⟩ := hc a ha
    rw [getReplicasWithRf_eq h.sorted] at hlt ⊢
    exact collect_short_covers hlt a (mem_rotNodes.mpr ⟨s, hs, hsn⟩)
  have := nodup_subset_length h.physNodup hcov
  have := Nat.min_le_right rf r.phys.length
  omega

/-! ## minimal disruption -/

theorem rotNodes_removeNode (r : HashRing) (x keyPos : Nat) :
    rotNodes (removeNode r x).ring keyPos = (rotNodes r.ring keyPos).filter (fun y => y != x) := by
  unfold rotNodes removeNode
  simp only [List.filter_map, List.filter_append, List.filter_filter]
  congr 2
  · apply List.filter_congr; intro s _; simp [Bool.and_comm]
  · apply List.filter_congr; intro s _; simp [Bool.and_comm]

theorem replicas_removeNode {r : HashRing} (h : WF r) (hc : Covered r) (x keyPos rf : Nat)
    (hx : ¬ x ∈ getReplicasWithRf r keyPos rf) :
    getReplicasWithRf (removeNode r x) keyPos rf = getReplicasWithRf r keyPos rf := by
  have hlen := replicas_length h hc keyPos rf
  -- the replication count is unchanged
  have hsub : ∀ a ∈ getReplicasWithRf r keyPos rf, a ∈ (removeNode r x).phys := by
    intro a ha
    simp only [removeNode, List.mem_filter]
    refine ⟨replicas_subset_phys h keyPos rf a ha, ?_⟩
    simp only [bne_iff_ne, ne_eq]
    intro hax; exact hx (hax ▸ ha)
  have h1 := nodup_subset_length (replicas_nodup h keyPos rf) hsub
  have h2 : (removeNode r x).phys.length ≤ r.phys.length := by
    simp only [removeNode]; exact List.length_filter_le _ _
  have hn : min rf (removeNode r x).phys.length = min rf r.phys.length := by
    rw [hlen] at h1
    omega
  rw [getReplicasWithRf_eq (wf_removeNode x h).sorted, getReplicasWithRf_eq h.sorted, hn,
    rotNodes_removeNode]
  rw [getReplicasWithRf_eq h.sorted] at hx
  exact collect_filter_ne hx

/-! ## the ring holds exactly the virtual nodes of its physical nodes -/

structure Exact (hashV : Nat → Nat → Nat) (r : HashRing) : Prop where
  nodup : r.ring.Nodup
  mem : ∀ s, s ∈ r.ring ↔ ∃ n ∈ r.phys, ∃ i, i < r.vnodes ∧ s = ⟨hashV n i, n, i⟩

theorem exact_empty (hashV : Nat → Nat → Nat) (tb : TieBreak) (vnodes rf : Nat) : Exact hashV (emptyTB tb vnodes rf) :=
  ⟨by simp [emptyTB], by intro s; simp [emptyTB]⟩

theorem nodup_vnodesOf (hashV : Nat → Nat → Nat) (node vnodes : Nat) :
    (vnodesOf hashV node vnodes).Nodup := by
  unfold vnodesOf List.Nodup
  rw [List.pairwise_map]
  apply List.Pairwise.imp _ (List.nodup_range (n := vnodes))
  intro a b hab h
  injection h with _ _ h3
  exact hab h3

theorem exact_addNode {hashV : Nat → Nat → Nat} {r : HashRing} (x : Nat) (hw : WF r)
    (h : Exact hashV r) : Exact hashV (addNode hashV r x) := by
  by_cases hx : x ∈ r.phys
  · rw [addNode_of_mem hx]; exact h
  · refine ⟨?_, ?_⟩
    · rw [addNode_of_not_mem hx]
      simp only []
      rw [(stableSort_perm _ _).nodup_iff, List.nodup_append]
      refine ⟨h.nodup, nodup_vnodesOf _ _ _, ?_⟩
      intro a ha b hb hab
      obtain ⟨i, _, rfl⟩ := mem_vnodesOf.mp hb
      have := hw.ringSub a ha
      rw [hab] at this
      exact hx this
    · intro s
      rw [mem_ring_addNode hx, (addNode_vnodes hashV r x).1, h.mem s, mem_vnodesOf]
      constructor
      · rintro (⟨n, hn, i, hi, rfl⟩ | ⟨i, hi, rfl⟩)
        · exact ⟨n, mem_phys_addNode.mpr (Or.inl hn), i, hi, rfl⟩
        · exact ⟨x, mem_phys_addNode.mpr (Or.inr rfl), i, hi, rfl⟩
      · rintro ⟨n, hn, i, hi, rfl⟩
        rcases mem_phys_addNode.mp hn with hn | rfl
        · exact Or.inl ⟨n, hn, i, hi, rfl⟩
        · exact Or.inr ⟨i, hi, rfl⟩

theorem exact_removeNode {hashV : Nat → Nat → Nat} {r : HashRing} (x : Nat)
    (h : Exact hashV r) : Exact hashV (removeNode r x) := by
  refine ⟨List.Pairwise.filter _ h.nodup, ?_⟩
  intro s
  simp only [removeNode, List.mem_filter, h.mem s]
  constructor
  · rintro ⟨⟨n, hn, i, hi, rfl⟩, hne⟩
    exact ⟨n, ⟨hn, hne⟩, i, hi, rfl⟩
  · rintro ⟨n, ⟨hn, hne⟩, i, hi, rfl⟩
    exact ⟨⟨n, hn, i, hi, rfl⟩, hne⟩

theorem Reachable.exact {hashV : Nat → Nat → Nat} {r : HashRing} (h : Reachable hashV r) :
    Exact hashV r := by
  induction h with
  | empty t v f => exact exact_empty hashV t v f
  | add x hr ih => exact exact_addNode x hr.wf ih
  | remove x _ ih => exact exact_removeNode x ih

theorem mem_phys_foldl_addNode {hashV : Nat → Nat → Nat} (nodes : List Nat) (r : HashRing) (y : Nat) :
    y ∈ (nodes.foldl (addNode hashV) r).phys ↔ y ∈ r.phys ∨ y ∈ nodes := by
  induction nodes generalizing r with
  | nil => simp
  | cons x xs ih =>
    simp only [List.foldl_cons]
    rw [ih, mem_phys_addNode, List.mem_cons]
    constructor
    · rintro ((h | h) | h)
      · exact Or.inl h
      · exact Or.inr (Or.inl h)
      · exact Or.inr (Or.inr h)
    · rintro (h | h | h)
      · exact Or.inl (Or.inl h)
      · exact Or.inl (Or.inr h)
      · exact Or.inr h

theorem mem_phys_newTB {tb : TieBreak} {hashV : Nat → Nat → Nat} {nodes : List Nat} {vnodes rf y : Nat} :
    y ∈ (newTB tb hashV nodes vnodes rf).phys ↔ y ∈ nodes := by
  unfold newTB
  rw [mem_phys_foldl_addNode]
  simp [emptyTB]

theorem mem_phys_new {hashV : Nat → Nat → Nat} {nodes : List Nat} {vnodes rf y : Nat} :
    y ∈ (new hashV nodes vnodes rf).phys ↔ y ∈ nodes := mem_phys_newTB

theorem perm_of_nodup_of_mem_iff {α : Type} [DecidableEq α] {l₁ l₂ : List α} (h1 : l₁.Nodup)
    (h2 : l₂.Nodup) (h : ∀ a, a ∈ l₁ ↔ a ∈ l₂) : l₁.Perm l₂ := by
  rw [List.perm_iff_count]
  intro a
  rw [h1.count, h2.count]
  simp only [h a]

/-- distinct virtual nodes of the listed physical nodes have distinct ring positions -/
def PosInjective (hashV : Nat → Nat → Nat) (nodes : List Nat) (vnodes : Nat) : Prop :=
  ∀ a ∈ nodes, ∀ b ∈ nodes, ∀ i, i < vnodes → ∀ j, j < vnodes →
    hashV a i = hashV b j → a = b ∧ i = j

instance (hashV : Nat → Nat → Nat) (nodes : List Nat) (vnodes : Nat) :
    Decidable (PosInjective hashV nodes vnodes) := by unfold PosInjective; infer_instance

/-- with a collision-free byte hash the positions `hash_virtual_node` computes are pairwise
    distinct for ANY membership: `(u64 id, u32 index)` is a fixed-width, hence injective, stream -/
theorem posInjective_vnodePos {sip : List Nat → Nat} (hs : ∀ a b, sip a = sip b → a = b)
    (nodes : List Nat) (vnodes : Nat) : PosInjective (vnodePos sip) nodes vnodes := by
  intro a _ b _ i _ j _ h
  have h1 := hs _ _ h
  have e8 : ∀ n, (HB.le64 n).length = 8 := fun _ => rfl
  obtain ⟨h2, h3⟩ := List.append_inj h1 (by rw [e8, e8])
  have inj : ∀ w (x y : Nat), HB.leBytes (w + 1) x = HB.leBytes (w + 1) y → x = y := by
    intro w
    induction w with
    | zero => intro x y hxy; simpa [HB.leBytes] using hxy
    | succ w ih =>
      intro x y hxy
      simp only [HB.leBytes, List.cons.injEq] at hxy
      have := ih _ _ hxy.2
      have ex := Nat.div_add_mod x 256
      have ey := Nat.div_add_mod y 256
      omega
  exact ⟨inj 7 a b h2, inj 3 i j h3⟩

theorem ring_eq_of_same_members {hashV : Nat → Nat → Nat} {r₁ r₂ : HashRing}
    (h1 : Reachable hashV r₁) (h2 : Reachable hashV r₂) (hv : r₁.vnodes = r₂.vnodes)
    (hm : ∀ y, y ∈ r₁.phys ↔ y ∈ r₂.phys) (hinj : PosInjective hashV r₁.phys r₁.vnodes) :
    r₁.ring = r₂.ring := by
  have e1 := h1.exact
  have e2 := h2.exact
  have hmem : ∀ s, s ∈ r₁.ring ↔ s ∈ r₂.ring := by
    intro s
    rw [e1.mem, e2.mem, hv]
    constructor
    · rintro ⟨n, hn, rest⟩; exact ⟨n, (hm n).mp hn, rest⟩
    · rintro ⟨n, hn, rest⟩; exact ⟨n, (hm n).mpr hn, rest⟩
  have hperm := perm_of_nodup_of_mem_iff e1.nodup e2.nodup hmem
  refine List.Perm.eq_of_pairwise (le := fun a b : Slot => a.pos ≤ b.pos) ?_ h1.wf.sorted h2.wf.sorted hperm
  intro a b ha hb hab hba
  obtain ⟨n, hn, i, hi, rfl⟩ := (e1.mem a).mp ha
  obtain ⟨m, hm', j, hj, rfl⟩ := (e1.mem b).mp ((hmem b).mpr hb)
  have hpos : hashV n i = hashV m j := Nat.le_antisymm hab hba
  obtain ⟨rfl, rfl⟩ := hinj n hn m hm' i hi j hj hpos
  rfl

/-- with the patched sort key (position, node id, virtual index — a total order on slots) the ring
    is a function of the membership SET, whatever the positions: no hypothesis on the hash -/
theorem ring_eq_of_same_members_total {hashV : Nat → Nat → Nat} {r₁ r₂ : HashRing}
    (h1 : Reachable hashV r₁) (h2 : Reachable hashV r₂) (ht1 : r₁.tb = .total) (ht2 : r₂.tb = .total)
    (hv : r₁.vnodes = r₂.vnodes) (hm : ∀ y, y ∈ r₁.phys ↔ y ∈ r₂.phys) :
    r₁.ring = r₂.ring := by
  have e1 := h1.exact
  have e2 := h2.exact
  have hmem : ∀ s, s ∈ r₁.ring ↔ s ∈ r₂.ring := by
    intro s
    rw [e1.mem, e2.mem, hv]
    constructor
    · rintro ⟨n, hn, rest⟩; exact ⟨n, (hm n).mp hn, rest⟩
    · rintro ⟨n, hn, rest⟩; exact ⟨n, (hm n).mpr hn, rest⟩
  have hperm := perm_of_nodup_of_mem_iff e1.nodup e2.nodup hmem
  have s1 : SortedBy .total r₁.ring := ht1 ▸ h1.wf.sortedBy
  have s2 : SortedBy .total r₂.ring := ht2 ▸ h2.wf.sortedBy
  refine List.Perm.eq_of_pairwise (le := fun a b : Slot => slotLe .total a b = true) ?_ s1 s2 hperm
  intro a b _ _ hab hba
  exact slotLe_total_antisymm hab hba

/-! ## routing table -/

/-- what the router hands to `t` -/
def row (tbl : NMap (List Nat)) (t : Nat) : List Nat := (NMap.get tbl t).getD []

theorem wf_pushDelta {tbl : NMap (List Nat)} (tgt d : Nat) (h : NMap.WF tbl) :
    NMap.WF (pushDelta tbl tgt d) := NMap.wf_insertWith h

theorem row_pushDelta {tbl : NMap (List Nat)} (tgt d t : Nat) (h : NMap.WF tbl) :
    row (pushDelta tbl tgt d) t = if t = tgt then row tbl t ++ [d] else row tbl t := by
  unfold row pushDelta
  rw [NMap.get_insertWith h]
  split
  · rename_i ht; subst ht
    cases NMap.get tbl t <;> simp
  · rfl

theorem route_inner {peers : NMap Nat} {d : Nat} (L : List Nat) :
    ∀ (tbl : NMap (List Nat)), NMap.WF tbl → L.Nodup →
      NMap.WF (L.foldl (fun t target => if (peers.get target).isSome then pushDelta t target d else t) tbl)
      ∧ ∀ t, row (L.foldl (fun t target => if (peers.get target).isSome then pushDelta t target d else t) tbl) t
          = row tbl t ++ (if t ∈ L ∧ (peers.get t).isSome = true then [d] else []) := by
  induction L with
  | nil => intro tbl h _; exact ⟨h, by intro t; simp⟩
  | cons x xs ih =>
    intro tbl h hn
    rw [List.nodup_cons] at hn
    simp only [List.foldl_cons]
    by_cases hp : (peers.get x).isSome = true
    · rw [if_pos hp]
      obtain ⟨hw, hr⟩ := ih (pushDelta tbl x d) (wf_pushDelta x d h) hn.2
      refine ⟨hw, ?_⟩
      intro t
      rw [hr t, row_pushDelta x d t h]
      by_cases htx : t = x
      · subst htx
        simp [hn.1, hp]
      · simp [htx]
    · rw [if_neg hp]
      obtain ⟨hw, hr⟩ := ih tbl h hn.2
      refine ⟨hw, ?_⟩
      intro t
      rw [hr t]
      by_cases htx : t = x
      · subst htx
        simp [hn.1, hp]
      · simp [htx]

theorem route_outer {ring : HashRing} {rt : Router} (hw : WF ring) (deltas : List Nat) :
    ∀ (tbl : NMap (List Nat)), NMap.WF tbl →
      ∀ t, row (deltas.foldl (fun tbl d =>
          (gossipTargets ring d rt.self).foldl (fun t target =>
            if (rt.peers.get target).isSome then pushDelta t target d else t) tbl) tbl) t
        = row tbl t ++ deltas.filter (fun d =>
            decide (t ∈ gossipTargets ring d rt.self) && (rt.peers.get t).isSome) := by
  induction deltas with
  | nil => intro tbl _ t; simp
  | cons d ds ih =>
    intro tbl h t
    simp only [List.foldl_cons]
    have hnd : (gossipTargets ring d rt.self).Nodup := by
      unfold gossipTargets getReplicas
      exact List.Pairwise.filter _ (replicas_nodup hw d ring.rf)
    obtain ⟨hw', hr⟩ := route_inner (peers := rt.peers) (d := d) (gossipTargets ring d rt.self) tbl h hnd
    rw [ih _ hw' t, hr t, List.filter_cons]
    by_cases hc : t ∈ gossipTargets ring d rt.self ∧ (rt.peers.get t).isSome = true
    · rw [if_pos hc]
      have : (decide (t ∈ gossipTargets ring d rt.self) && (rt.peers.get t).isSome) = true := by
        simp [hc.1, hc.2]
      rw [this]; simp
    · rw [if_neg hc]
      have : (decide (t ∈ gossipTargets ring d rt.self) && (rt.peers.get t).isSome) = false := by
        cases h1 : decide (t ∈ gossipTargets ring d rt.self) <;> cases h2 : (rt.peers.get t).isSome <;> simp
        exact hc ⟨by simpa using h1, h2⟩
      rw [this]; simp

/-! ## `from_config` peer ids -/

theorem fromConfigPeers_succ (a : PeerIdArith) (r n : Nat) :
    fromConfigPeers a r (n + 1) = NMap.insert (peerId a r n) n (fromConfigPeers a r n) := by
  unfold fromConfigPeers
  rw [List.range_succ, List.foldl_append]
  rfl

theorem get_fromConfigPeers_fixed (r n id : Nat) :
    NMap.get (fromConfigPeers .fixed r n) id =
      if 1 ≤ id ∧ id < r ∧ id ≤ n then some (id - 1)
      else if r < id ∧ 2 ≤ id ∧ id ≤ n + 1 then some (id - 2) else none := by
  induction n with
  | zero =>
    have : fromConfigPeers .fixed r 0 = [] := rfl
    rw [this]
    simp only [NMap.get]
    split
    · omega
    · split
      · omega
      · rfl
  | succ n ih =>
    rw [fromConfigPeers_succ, NMap.get_insert, ih]
    by_cases hge : n + 1 ≥ r
    · have hp : peerId .fixed r n = n + 2 := by simp [peerId, hge]
      rw [hp]
      by_cases hid : id = n + 2
      · subst hid
        rw [if_pos rfl, if_neg (by omega), if_pos (by omega)]
        simp
      · rw [if_neg hid]
        have hA : (1 ≤ id ∧ id < r ∧ id ≤ n) ↔ (1 ≤ id ∧ id < r ∧ id ≤ n + 1) := by omega
        have hB : (r < id ∧ 2 ≤ id ∧ id ≤ n + 1) ↔ (r < id ∧ 2 ≤ id ∧ id ≤ n + 1 + 1) := by omega
        simp only [hA, hB]
    · have hp : peerId .fixed r n = n + 1 := by simp [peerId, hge]
      rw [hp]
      by_cases hid : id = n + 1
      · subst hid
        rw [if_pos rfl, if_pos (by omega)]
        simp
      · rw [if_neg hid]
        have hA : (1 ≤ id ∧ id < r ∧ id ≤ n) ↔ (1 ≤ id ∧ id < r ∧ id ≤ n + 1) := by omega
        have hB : (r < id ∧ 2 ≤ id ∧ id ≤ n + 1) ↔ (r < id ∧ 2 ≤ id ∧ id ≤ n + 1 + 1) := by omega
        simp only [hA, hB]

theorem get_fromConfigPeers_pinned (r n id : Nat) :
    NMap.get (fromConfigPeers .pinned r n) id =
      if 1 ≤ id ∧ id ≤ r ∧ id ≤ n then some (id - 1)
      else if r + 2 ≤ id ∧ id ≤ n + 1 then some (id - 2) else none := by
  induction n with
  | zero =>
    have : fromConfigPeers .pinned r 0 = [] := rfl
    rw [this]
    simp only [NMap.get]
    split
    · omega
    · split
      · omega
      · rfl
  | succ n ih =>
    rw [fromConfigPeers_succ, NMap.get_insert, ih]
    by_cases hge : n ≥ r
    · have hp : peerId .pinned r n = n + 2 := by simp [peerId, hge]
      rw [hp]
      by_cases hid : id = n + 2
      · subst hid
        rw [if_pos rfl, if_neg (by omega), if_pos (by omega)]
        simp
      · rw [if_neg hid]
        have hA : (1 ≤ id ∧ id ≤ r ∧ id ≤ n) ↔ (1 ≤ id ∧ id ≤ r ∧ id ≤ n + 1) := by omega
        have hB : (r + 2 ≤ id ∧ id ≤ n + 1) ↔ (r + 2 ≤ id ∧ id ≤ n + 1 + 1) := by omega
        simp only [hA, hB]
    · have hp : peerId .pinned r n = n + 1 := by simp [peerId, hge]
      rw [hp]
      by_cases hid : id = n + 1
      · subst hid
        rw [if_pos rfl, if_pos (by omega)]
        simp
      · rw [if_neg hid]
        have hA : (1 ≤ id ∧ id ≤ r ∧ id ≤ n) ↔ (1 ≤ id ∧ id ≤ r ∧ id ≤ n + 1) := by omega
        have hB : (r + 2 ≤ id ∧ id ≤ n + 1) ↔ (r + 2 ≤ id ∧ id ≤ n + 1 + 1) := by omega
        simp only [hA, hB]

/-! ## a larger replication factor extends the replica list (session 3) -/

theorem collectStep_pos {n x : Nat} {acc : List Nat} (h : acc.length < n ∧ ¬ x ∈ acc) :
    collectStep n acc x = acc ++ [x] := if_pos h

theorem collectStep_neg {n x : Nat} {acc : List Nat} (h : ¬ (acc.length < n ∧ ¬ x ∈ acc)) :
    collectStep n acc x = acc := if_neg h

theorem collectStep_take {n m : Nat} (hnm : n ≤ m) {a b : List Nat} (hab : a = b.take n) (x : Nat) :
    collectStep n a x = (collectStep m b x).take n := by
  have hlen : a.length = min n b.length := by rw [hab, List.length_take]
  by_cases hxb : x ∈ b
  · -- b unchanged
    rw [collectStep_neg (acc := b) (fun h => h.2 hxb)]
    by_cases hxa : x ∈ a
    · rw [collectStep_neg (acc := a) (fun h => h.2 hxa)]; exact hab
    · have hn : ¬ a.length < n := by
        intro hlt
        have hbl : b.length = a.length := by omega
        have hab' : a = b := by rw [hab, List.take_of_length_le (by omega)]
        exact hxa (hab' ▸ hxb)
      rw [collectStep_neg (acc := a) (fun h => hn h.1)]; exact hab
  · have hxa : ¬ x ∈ a := fun h => hxb (List.mem_of_mem_take (hab ▸ h))
    by_cases hbm : b.length < m
    · rw [collectStep_pos (acc := b) ⟨hbm, hxb⟩]
      by_cases han : a.length < n
      · rw [collectStep_pos (acc := a) ⟨han, hxa⟩]
        have hbl : b.length = a.length := by omega
        have hab' : a = b := by rw [hab, List.take_of_length_le (by omega)]
        rw [hab', List.take_of_length_le (by simp; omega)]
      · rw [collectStep_neg (acc := a) (fun h => han h.1)]
        have hnb : n ≤ b.length := by omega
        rw [List.take_append_of_le_length hnb]
        exact hab
    · rw [collectStep_neg (acc := b) (fun h => hbm h.1)]
      have hn : ¬ a.length < n := by omega
      rw [collectStep_neg (acc := a) (fun h => hn h.1)]
      exact hab

theorem collect_take {n m : Nat} (hnm : n ≤ m) (l : List Nat) :
    ∀ {a b : List Nat}, a = b.take n → collect n l a = (collect m l b).take n := by
  induction l with
  | nil => intro a b h; exact h
  | cons x xs ih =>
    intro a b h
    rw [collect_cons, collect_cons]
    exact ih (collectStep_take hnm h x)

/-- the replica list for a smaller replication factor is the PREFIX of the list for a larger one:
    raising a key's RF (hot-key promotion) only adds owners, lowering it only drops the last ones -/
theorem replicas_rf_take {r : HashRing} (h : WF r) (keyPos rf₁ rf₂ : Nat) (hle : rf₁ ≤ rf₂) :
    getReplicasWithRf r keyPos rf₁ = (getReplicasWithRf r keyPos rf₂).take (min rf₁ r.phys.length) := by
  rw [getReplicasWithRf_eq h.sorted, getReplicasWithRf_eq h.sorted]
  apply collect_take
  · have := Nat.min_le_right rf₁ r.phys.length
    have := Nat.min_le_left rf₁ r.phys.length
    exact Nat.le_min.mpr ⟨by omega, by omega⟩
  · simp

end Ring
end RedisVerif
