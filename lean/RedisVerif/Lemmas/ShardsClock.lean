import RedisVerif.Model.ShardsClock
import RedisVerif.Lemmas.Shards

/-!
  The timed sharding model (`Model/ShardsClock.lean`): when every message kind carries the
  virtual time, N shards answer like one shard — also across TTLs and the passage of time.
-/
namespace RedisVerif
namespace Shards
namespace Clock

open NMap

/-! ## filtering a canonical map -/

theorem wf_filter {ν : Type} {m : NMap ν} (p : Nat × ν → Bool) (h : WF m) : WF (m.filter p) :=
  List.Pairwise.filter p h

theorem get_filter {ν : Type} {m : NMap ν} (p : ν → Bool) (h : WF m) (k : Nat) :
    NMap.get (m.filter (fun e => p e.2)) k = (NMap.get m k).filter p := by
  induction m with
  | nil => rfl
  | cons q m ih =>
    obtain ⟨hlb, hwf⟩ := wf_cons.mp h
    have ih' := ih hwf
    rw [List.filter_cons, get_cons]
    by_cases hp : p q.2 = true
    · rw [if_pos hp, get_cons]
      by_cases hk : k = q.1
      · simp [hk, Option.filter, hp]
      · rw [if_neg hk, if_neg hk]; exact ih'
    · rw [if_neg hp]
      by_cases hk : k = q.1
      · have hlb' : LB q.1 (m.filter (fun e => p e.2)) := fun x hx => hlb x (List.mem_filter.mp hx).1
        rw [if_pos hk, hk, get_eq_none_of_LB hlb' (Nat.le_refl _)]
        simp [Option.filter, hp]
      · rw [if_neg hk]; exact ih'

/-! ## expiry is monotone in time -/

theorem expired_mono {a b : Nat} (h : a ≤ b) (e : Entry) (he : expired a e = true) : expired b e = true := by
  unfold expired at *
  cases hd : e.2 with
  | none => rw [hd] at he; cases he
  | some d => rw [hd] at he; simp only [decide_eq_true_eq] at he ⊢; omega

/-- a reader at `b ≥ a` cannot tell whether the entries expired at `a` were evicted -/
theorem liveE_filter {a b : Nat} (h : a ≤ b) (o : Option Entry) :
    liveE b (o.filter (fun e => !expired a e)) = liveE b o := by
  cases o with
  | none => rfl
  | some e =>
    by_cases he : expired a e = true
    · have hb := expired_mono h e he
      simp [Option.filter, he, liveE, hb]
    · simp [Option.filter, he]

theorem liveE_setTime {a b : Nat} (h : a ≤ b) (sh : TShard) (hw : WF sh.data) (k : Nat) :
    liveE b (get (setTime sh a).data k) = liveE b (get sh.data k) := by
  show liveE b (get (sh.data.filter (fun p => !expired a p.2)) k) = _
  rw [get_filter (fun e => !expired a e) hw, liveE_filter h]

theorem wf_setTime (sh : TShard) (a : Nat) (hw : WF sh.data) : WF (setTime sh a).data :=
  wf_filter _ hw

theorem get_setTime_some (sh : TShard) (a : Nat) (hw : WF sh.data) (k : Nat)
    (h : (get (setTime sh a).data k).isSome) : (get sh.data k).isSome := by
  have : get (setTime sh a).data k = (get sh.data k).filter (fun e => !expired a e) :=
    get_filter (fun e => !expired a e) hw k
  rw [this] at h
  cases hg : get sh.data k with
  | none => rw [hg] at h; cases h
  | some _ => rfl

/-- after `set_time a` nothing in the store is expired at `a` -/
theorem liveE_self_setTime (sh : TShard) (a : Nat) (hw : WF sh.data) (k : Nat) :
    liveE a (get (setTime sh a).data k) = get (setTime sh a).data k := by
  have : get (setTime sh a).data k = (get sh.data k).filter (fun e => !expired a e) :=
    get_filter (fun e => !expired a e) hw k
  rw [this]
  cases get sh.data k with
  | none => rfl
  | some e =>
    by_cases he : expired a e = true
    · simp [Option.filter, he, liveE]
    · simp [Option.filter, he, liveE]

/-! ## lists of shards -/

theorem tshard_set (st : List TShard) (i j : Nat) (s : TShard) :
    tshard (st.set i s) j = if i = j ∧ i < st.length then s else tshard st j := by
  unfold tshard
  simp only [List.getD_eq_getElem?_getD, List.getElem?_set]
  by_cases h : i = j
  · subst h
    by_cases h2 : i < st.length
    · simp [h2]
    · simp [h2]
  · simp [h]

theorem tshard_of_ge (st : List TShard) (i : Nat) (h : st.length ≤ i) :
    tshard st i = { data := [], clock := 0 } := by
  unfold tshard
  simp [List.getD_eq_getElem?_getD, h]

theorem tshard_mem (st : List TShard) (i : Nat) (h : i < st.length) : tshard st i ∈ st := by
  unfold tshard
  simp [List.getD_eq_getElem?_getD, h]

theorem mem_tshard (st : List TShard) (s : TShard) (h : s ∈ st) : ∃ i, i < st.length ∧ tshard st i = s := by
  obtain ⟨i, hi, he⟩ := List.getElem_of_mem h
  exact ⟨i, hi, by simp [tshard, List.getD_eq_getElem?_getD, hi, he]⟩

/-! ## the relation between N shards and one shard -/

/-- from time `t` on, no reader can tell the N shards from the one store -/
structure TRel (R : Routes) (st : List TShard) (s1 : TShard) (t : Nat) : Prop where
  len : st.length = R.N
  wf : ∀ i, WF (tshard st i).data
  wf1 : WF s1.data
  home : ∀ i k, (get (tshard st i).data k).isSome → R.bytes k = i
  view : ∀ now, t ≤ now → ∀ k,
    liveE now (get (tshard st (R.bytes k)).data k) = liveE now (get s1.data k)

theorem trel_init (R : Routes) : TRel R (tinit R.N) { data := [], clock := 0 } 0 := by
  have hsh : ∀ i, tshard (tinit R.N) i = { data := [], clock := 0 } := by
    intro i
    unfold tshard tinit
    rw [List.getD_eq_getElem?_getD]
    cases h : (List.replicate R.N ({ data := [], clock := 0 } : TShard))[i]? with
    | none => rfl
    | some x => exact List.eq_of_mem_replicate (List.mem_of_getElem? h)
  refine ⟨by simp [tinit], ?_, wf_nil, ?_, ?_⟩
  · intro i; rw [hsh]; exact wf_nil
  · intro i k h; rw [hsh] at h; cases h
  · intro now _ k; rw [hsh]

/-- some shards (and maybe the one store) adopt a time `now ≥ t`: still indistinguishable, from
    `now` on -/
theorem trel_adopt {R : Routes} {st st' : List TShard} {s1 s1' : TShard} {t now : Nat}
    (h : TRel R st s1 t) (ht : t ≤ now) (hlen : st'.length = st.length)
    (hst : ∀ j, tshard st' j = tshard st j ∨ tshard st' j = setTime (tshard st j) now)
    (hs1 : s1' = s1 ∨ s1' = setTime s1 now) : TRel R st' s1' now := by
  refine ⟨by rw [hlen, h.len], ?_, ?_, ?_, ?_⟩
  · intro i
    rcases hst i with e | e <;> rw [e]
    · exact h.wf i
    · exact wf_setTime _ _ (h.wf i)
  · rcases hs1 with e | e <;> rw [e]
    · exact h.wf1
    · exact wf_setTime _ _ h.wf1
  · intro i k hk
    rcases hst i with e | e <;> rw [e] at hk
    · exact h.home i k hk
    · exact h.home i k (get_setTime_some _ _ (h.wf i) k hk)
  · intro now' hn k
    have e1 : liveE now' (get (tshard st' (R.bytes k)).data k) =
        liveE now' (get (tshard st (R.bytes k)).data k) := by
      rcases hst (R.bytes k) with e | e <;> rw [e]
      exact liveE_setTime hn _ (h.wf _) k
    have e2 : liveE now' (get s1'.data k) = liveE now' (get s1.data k) := by
      rcases hs1 with e | e <;> rw [e]
      exact liveE_setTime hn _ h.wf1 k
    rw [e1, e2]
    exact h.view now' (Nat.le_trans ht hn) k

/-! ## one per-key operation -/

theorem wf_put (d : NMap Entry) (k : Key) (o : Option Entry) (h : WF d) : WF (put d k o) := by
  cases o with
  | none => exact wf_erase h
  | some e => exact wf_insert h

theorem get_put (d : NMap Entry) (k : Key) (o : Option Entry) (h : WF d) (k' : Nat) :
    get (put d k o) k' = if k' = k then o else get d k' := by
  cases o with
  | none => exact get_erase h k'
  | some e => exact get_insert k'

/-- a per-key operation at time `c` sees its slot only through `liveE c` -/
theorem slotT_congr (op : KOp) (c : Nat) (o o' : Option Entry) (h : liveE c o = liveE c o') :
    slotT op c o = slotT op c o' := by
  cases op <;> simp [slotT, h]

/-- the same per-key operation on the key's home shard and on the one store, both at time `now` -/
theorem key_step {R : Routes} {st : List TShard} {s1 : TShard} {now : Nat} (h : TRel R st s1 now)
    (hv : R.Valid) (k : Key) (op : KOp) (hc : (tshard st (R.bytes k)).clock = now)
    (hc1 : s1.clock = now) :
    (keyExecAt st (R.bytes k) k op).2 = (keyExec s1 k op).2 ∧
    TRel R (keyExecAt st (R.bytes k) k op).1 (keyExec s1 k op).1 now ∧
    (∀ j, (tshard (keyExecAt st (R.bytes k) k op).1 j).clock = (tshard st j).clock) ∧
    (keyExec s1 k op).1.clock = s1.clock := by
  have hslot : slotT op (tshard st (R.bytes k)).clock (get (tshard st (R.bytes k)).data k) =
      slotT op s1.clock (get s1.data k) := by
    rw [hc, hc1]
    exact slotT_congr op now _ _ (h.view now (Nat.le_refl _) k)
  have hi : R.bytes k < st.length := by rw [h.len]; exact (hv k).2
  -- the shard after the operation
  have hsh : ∀ j, tshard (keyExecAt st (R.bytes k) k op).1 j =
      if R.bytes k = j then (keyExec (tshard st (R.bytes k)) k op).1 else tshard st j := by
    intro j
    show tshard (st.set (R.bytes k) _) j = _
    rw [tshard_set]
    by_cases e : R.bytes k = j
    · rw [if_pos ⟨e, hi⟩, if_pos e]
    · rw [if_neg (fun x => e x.1), if_neg e]
  refine ⟨?_, ?_, ?_, rfl⟩
  · show (slotT op _ _).2 = (slotT op _ _).2
    rw [hslot]
  · refine ⟨by show (st.set _ _).length = _; rw [List.length_set]; exact h.len, ?_, ?_, ?_, ?_⟩
    · intro j
      rw [hsh j]
      split
      · exact wf_put _ _ _ (h.wf _)
      · exact h.wf j
    · exact wf_put _ _ _ h.wf1
    · intro j k' hk'
      rw [hsh j] at hk'
      split at hk'
      · rename_i e
        have hk2 : (get (put (tshard st (R.bytes k)).data k _) k').isSome := hk'
        rw [get_put _ _ _ (h.wf _)] at hk2
        by_cases e2 : k' = k
        · rw [e2]; exact e
        · rw [if_neg e2] at hk2
          rw [← e]; exact h.home _ k' hk2
      · exact h.home j k' hk'
    · intro now' hn k'
      rw [hsh (R.bytes k')]
      show _ = liveE now' (get (put s1.data k (slotT op s1.clock (get s1.data k)).1) k')
      rw [get_put _ _ _ h.wf1]
      by_cases e : R.bytes k = R.bytes k'
      · rw [if_pos e]
        show liveE now' (get (put (tshard st (R.bytes k)).data k
          (slotT op (tshard st (R.bytes k)).clock (get (tshard st (R.bytes k)).data k)).1) k') = _
        rw [get_put _ _ _ (h.wf _), hslot]
        by_cases e2 : k' = k
        · rw [if_pos e2, if_pos e2]
        · rw [if_neg e2, if_neg e2, e]; exact h.view now' hn k'
      · rw [if_neg e]
        have e2 : k' ≠ k := fun x => e (by rw [x])
        rw [if_neg e2]; exact h.view now' hn k'
  · intro j
    rw [hsh j]
    split
    · rename_i e; rw [← e]; rfl
    · rfl

/-! ## the one-shard server -/

def one : Routes := { N := 1, str := fun _ => 0, bytes := fun _ => 0 }

theorem tshard_one (s1 : TShard) : tshard [s1] 0 = s1 := rfl

theorem keyExecAt_one (s1 : TShard) (k : Key) (op : KOp) :
    keyExecAt [s1] 0 k op = ([(keyExec s1 k op).1], (keyExec s1 k op).2) := rfl

/-! ## a batch: the items run in order, each on its key's shard -/

theorem batch_fold {R : Routes} (hv : R.Valid) {now : Nat} (items : List (Key × KOp))
    (st : List TShard) (s1 : TShard) (acc : List R1) (h : TRel R st s1 now)
    (hc : ∀ it ∈ items, (tshard st (R.bytes it.1)).clock = now) (hc1 : items ≠ [] → s1.clock = now) :
    (items.foldl (fun (a : List TShard × List R1) it =>
        let r := keyExecAt a.1 (R.bytes it.1) it.1 it.2; (r.1, a.2 ++ [r.2])) (st, acc)).2 =
    (items.foldl (fun (a : List TShard × List R1) it =>
        let r := keyExecAt a.1 (one.bytes it.1) it.1 it.2; (r.1, a.2 ++ [r.2])) ([s1], acc)).2 ∧
    ∃ s1', (items.foldl (fun (a : List TShard × List R1) it =>
        let r := keyExecAt a.1 (one.bytes it.1) it.1 it.2; (r.1, a.2 ++ [r.2])) ([s1], acc)).1 = [s1'] ∧
      TRel R (items.foldl (fun (a : List TShard × List R1) it =>
        let r := keyExecAt a.1 (R.bytes it.1) it.1 it.2; (r.1, a.2 ++ [r.2])) (st, acc)).1 s1' now := by
  induction items generalizing st s1 acc with
  | nil => exact ⟨rfl, s1, rfl, h⟩
  | cons it items ih =>
    have hs1 : s1.clock = now := hc1 (by simp)
    obtain ⟨e1, e2, e3, e4⟩ := key_step h hv it.1 it.2 (hc it (by simp)) hs1
    simp only [List.foldl_cons]
    have hone : keyExecAt [s1] (one.bytes it.1) it.1 it.2 =
        ([(keyExec s1 it.1 it.2).1], (keyExec s1 it.1 it.2).2) := keyExecAt_one s1 it.1 it.2
    rw [hone, e1]
    apply ih _ _ _ e2
    · intro x hx
      rw [e3]; exact hc x (by simp [hx])
    · intro _; rw [e4]; exact hs1

/-! ## DBSIZE: the live keys of the shards are the live keys of the one store -/

theorem liveE_eq_filter (c : Nat) (o : Option Entry) :
    liveE c o = o.filter (fun e => !expired c e) := by
  cases o with
  | none => rfl
  | some e => by_cases he : expired c e = true <;> simp [liveE, Option.filter, he]

def liveData (c : Nat) (d : NMap Entry) : NMap Entry := d.filter (fun p => !expired c p.2)

theorem wf_liveData (c : Nat) (d : NMap Entry) (hw : WF d) : WF (liveData c d) := wf_filter _ hw

theorem mem_liveKeys (c : Nat) (d : NMap Entry) (hw : WF d) (k : Nat) :
    k ∈ NMap.keys (liveData c d) ↔ (liveE c (get d k)).isSome := by
  rw [mem_keys_iff (wf_liveData c d hw), liveE_eq_filter]
  unfold liveData
  rw [get_filter (fun e => !expired c e) hw]

theorem dbsize_count {R : Routes} {st : List TShard} {s1 : TShard} {now : Nat} (h : TRel R st s1 now) :
    (st.map (fun sh => (liveData now sh.data).length)).sum = (liveData now s1.data).length := by
  have hperm : (st.flatMap (fun sh => NMap.keys (liveData now sh.data))).Perm
      (NMap.keys (liveData now s1.data)) := by
    have hwf : ∀ sh ∈ st, WF sh.data := by
      intro sh hs
      obtain ⟨i, _, e⟩ := mem_tshard st sh hs
      rw [← e]; exact h.wf i
    have hnd : (st.flatMap (fun sh => NMap.keys (liveData now sh.data))).Nodup := by
      have := nodup_flatMap_keys (st.map (fun sh => liveData now sh.data))
        (by intro d hd
            obtain ⟨sh, hs, rfl⟩ := List.mem_map.mp hd
            exact wf_liveData _ _ (hwf sh hs))
        (by rw [List.pairwise_map, List.pairwise_iff_getElem]
            intro i j hi hj hij k hki hkj
            have e1 : tshard st i = st[i] := by simp [tshard, List.getD_eq_getElem?_getD, hi]
            have e2 : tshard st j = st[j] := by simp [tshard, List.getD_eq_getElem?_getD, hj]
            have w1 := hwf _ (List.getElem_mem hi)
            have w2 := hwf _ (List.getElem_mem hj)
            have l1 := (mem_liveKeys now _ w1 k).mp hki
            have l2 := (mem_liveKeys now _ w2 k).mp hkj
            have p1 : (get st[i].data k).isSome := by
              cases hg : get st[i].data k with
              | none => rw [hg] at l1; cases l1
              | some _ => rfl
            have p2 : (get st[j].data k).isSome := by
              cases hg : get st[j].data k with
              | none => rw [hg] at l2; cases l2
              | some _ => rfl
            have h1 := h.home i k (by rw [e1]; exact p1)
            have h2 := h.home j k (by rw [e2]; exact p2)
            omega)
      rw [List.flatMap_map] at this
      exact this
    rw [List.perm_ext_iff_of_nodup hnd (nodup_keys (wf_liveData _ _ h.wf1))]
    intro k
    rw [mem_liveKeys now _ h.wf1, ← h.view now (Nat.le_refl _) k, List.mem_flatMap]
    constructor
    · rintro ⟨sh, hs, hk⟩
      obtain ⟨i, _, e⟩ := mem_tshard st sh hs
      have hl := (mem_liveKeys now _ (hwf sh hs) k).mp hk
      have hp : (get (tshard st i).data k).isSome := by
        rw [e]
        cases hg : get sh.data k with
        | none => rw [hg] at hl; cases hl
        | some _ => rfl
      rw [h.home i k hp, e]; exact hl
    · intro hk
      have hlt : R.bytes k < st.length := by
        apply Classical.byContradiction; intro hc
        rw [tshard_of_ge st _ (by omega)] at hk; cases hk
      exact ⟨_, tshard_mem st _ hlt, (mem_liveKeys now _ (hwf _ (tshard_mem st _ hlt)) k).mpr hk⟩
  have := hperm.length_eq
  rw [List.length_flatMap] at this
  unfold NMap.keys at this
  simp only [List.length_map] at this
  exact this

/-! ## every command, then every run -/

theorem adopt_all (kind : Kind) (sh : TShard) (now : Nat) : adopt allCarry kind sh now = setTime sh now := rfl

theorem tshard_map_range (st : List TShard) (f : Nat → TShard) (j : Nat) :
    tshard ((List.range st.length).map f) j = if j < st.length then f j else { data := [], clock := 0 } := by
  unfold tshard
  rw [List.getD_eq_getElem?_getD, List.getElem?_map]
  by_cases hj : j < st.length
  · rw [List.getElem?_range hj, if_pos hj]; rfl
  · rw [if_neg hj, List.getElem?_eq_none (by simp; omega)]; rfl

theorem tshard_map (st : List TShard) (f : TShard → TShard) (j : Nat) :
    tshard (st.map f) j = if j < st.length then f (tshard st j) else { data := [], clock := 0 } := by
  unfold tshard
  rw [List.getD_eq_getElem?_getD, List.getElem?_map, List.getD_eq_getElem?_getD]
  by_cases hj : j < st.length
  · rw [if_pos hj, List.getElem?_eq_getElem hj]; rfl
  · rw [if_neg hj, List.getElem?_eq_none (by omega)]; rfl

theorem sum_cast_map {α : Type} (l : List α) (f : α → Nat) :
    (l.map (fun x => ((f x : Nat) : Int))).sum = (((l.map f).sum : Nat) : Int) := by
  induction l with
  | nil => rfl
  | cons x l ih => simp only [List.map_cons, List.sum_cons, ih]; omega

/-- **one step**: when every message kind carries the time, a command at time `now ≥ t` gets the
    same replies from `R.N` shards and from one shard, and they stay indistinguishable -/
theorem timed_refines {R : Routes} (hv : R.Valid) {st : List TShard} {s1 : TShard} {t now : Nat}
    (h : TRel R st s1 t) (ht : t ≤ now) (c : TCmd) :
    (execNT R allCarry now st c).2 = (execNT one allCarry now [s1] c).2 ∧
    ∃ s1', (execNT one allCarry now [s1] c).1 = [s1'] ∧
      TRel R (execNT R allCarry now st c).1 s1' now := by
  cases c with
  | key kind k op =>
    have hi : R.bytes k < st.length := by rw [h.len]; exact (hv k).2
    have hrel : TRel R (st.set (R.bytes k) (setTime (tshard st (R.bytes k)) now)) (setTime s1 now) now := by
      apply trel_adopt h ht (by rw [List.length_set]) _ (Or.inr rfl)
      intro j
      rw [tshard_set]
      by_cases e : R.bytes k = j
      · rw [if_pos ⟨e, hi⟩, e]; exact Or.inr rfl
      · rw [if_neg (fun x => e x.1)]; exact Or.inl rfl
    have hck : (tshard (st.set (R.bytes k) (setTime (tshard st (R.bytes k)) now)) (R.bytes k)).clock = now := by
      rw [tshard_set, if_pos ⟨rfl, hi⟩]; rfl
    obtain ⟨e1, e2, _, _⟩ := key_step hrel hv k op hck rfl
    refine ⟨?_, (keyExec (setTime s1 now) k op).1, rfl, ?_⟩
    · show [(keyExecAt (st.set (R.bytes k) (setTime (tshard st (R.bytes k)) now)) (R.bytes k) k op).2] =
        [(keyExec (setTime s1 now) k op).2]
      rw [e1]
    · exact e2
  | batch kind items =>
    -- the shards after adopting the time
    let stN := (List.range st.length).map (fun i =>
      if items.any (fun it => R.bytes it.1 == i) then setTime (tshard st i) now else tshard st i)
    let s1a := if items.any (fun it => one.bytes it.1 == 0) then setTime s1 now else s1
    have hshN : ∀ j, tshard stN j = if j < st.length ∧ items.any (fun it => R.bytes it.1 == j) = true
        then setTime (tshard st j) now else tshard st j := by
      intro j
      show tshard ((List.range st.length).map _) j = _
      rw [tshard_map_range]
      by_cases hj : j < st.length
      · rw [if_pos hj]
        by_cases ha : items.any (fun it => R.bytes it.1 == j) = true
        · rw [if_pos ha, if_pos ⟨hj, ha⟩]
        · rw [if_neg ha, if_neg (fun x => ha x.2)]
      · rw [if_neg hj, if_neg (fun x => hj x.1), tshard_of_ge st j (by omega)]
    have hrel : TRel R stN s1a now := by
      apply trel_adopt h ht (by simp [stN])
      · intro j
        rw [hshN j]
        split
        · exact Or.inr rfl
        · exact Or.inl rfl
      · show (if _ then _ else _) = s1 ∨ (if _ then _ else _) = setTime s1 now
        split
        · exact Or.inr rfl
        · exact Or.inl rfl
    have hcN : ∀ it ∈ items, (tshard stN (R.bytes it.1)).clock = now := by
      intro it hit
      have hlt : R.bytes it.1 < st.length := by rw [h.len]; exact (hv it.1).2
      have hany : items.any (fun x => R.bytes x.1 == R.bytes it.1) = true :=
        List.any_eq_true.mpr ⟨it, hit, by simp⟩
      rw [hshN, if_pos ⟨hlt, hany⟩]; rfl
    have hc1 : items ≠ [] → s1a.clock = now := by
      intro hne
      have hany : items.any (fun it => one.bytes it.1 == 0) = true := by
        cases items with
        | nil => exact absurd rfl hne
        | cons it _ => simp [one]
      show (if _ then _ else _ : TShard).clock = now
      rw [if_pos hany]; rfl
    have hf := batch_fold hv items stN s1a [] hrel hcN hc1
    exact hf
  | dbsize =>
    have hrel : TRel R (st.map (fun sh => setTime sh now)) (setTime s1 now) now := by
      apply trel_adopt h ht (by simp) _ (Or.inr rfl)
      intro j
      rw [tshard_map]
      by_cases hj : j < st.length
      · rw [if_pos hj]; exact Or.inr rfl
      · rw [if_neg hj, tshard_of_ge st j (by omega)]; exact Or.inl rfl
    refine ⟨?_, setTime s1 now, rfl, hrel⟩
    have hcount := dbsize_count hrel
    simp only [execNT]
    rw [sum_cast_map, sum_cast_map]
    have e1 : ((st.map (fun sh => adopt allCarry .generic sh now)).map
        (fun sh => (sh.data.filter (fun p => !expired sh.clock p.2)).length)) =
        (st.map (fun sh => setTime sh now)).map (fun sh => (liveData now sh.data).length) := by
      rw [List.map_map, List.map_map]
      apply List.map_congr_left
      intro sh _
      rfl
    rw [e1, hcount]
    simp [adopt_all, liveData, setTime]

/-- **any run**: with monotone virtual time, the replies of `R.N` shards and of one shard agree -/
theorem runNT_refines {R : Routes} (hv : R.Valid) (steps : List (Nat × TCmd)) {st : List TShard}
    {s1 : TShard} {t : Nat} (h : TRel R st s1 t) (hm : Mono t steps) :
    runNT R allCarry st steps = runNT one allCarry [s1] steps := by
  induction steps generalizing st s1 t with
  | nil => rfl
  | cons x xs ih =>
    obtain ⟨now, c⟩ := x
    obtain ⟨e1, s1', e2, e3⟩ := timed_refines hv h hm.1 c
    show (execNT R allCarry now st c).2 :: runNT R allCarry (execNT R allCarry now st c).1 xs =
      (execNT one allCarry now [s1] c).2 :: runNT one allCarry (execNT one allCarry now [s1] c).1 xs
    rw [e1, e2, ih e3 hm.2]

end Clock
end Shards
end RedisVerif
