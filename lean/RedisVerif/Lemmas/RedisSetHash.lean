import RedisVerif.Lemmas.Redis

/-! Per-command lemmas, sets and hashes. -/
namespace RedisVerif.Redis
open RedisVerif

/-! ### sets -/

theorem inv_putSet {s : State} (h : Inv s) (k : Nat) {m : MSet} (hm : NMap.WF m) (dl : Option Nat) :
    Inv (putSet s k m dl) := by
  unfold putSet
  split
  · exact inv_erase h
  · exact inv_insert h ⟨by simp, hm⟩

theorem lookupSet_wf {s : State} (h : Inv s) {k : Nat} {m : MSet} {dl : Option Nat}
    (hl : lookupSet s k = .found m dl) : NMap.WF m := by
  unfold lookupSet at hl
  split at hl
  · cases hl
  · rename_i e he
    have hv := inv_get h he
    obtain ⟨v, d⟩ := e
    cases v <;> simp at hl
    obtain ⟨h1, _⟩ := hl
    subst h1
    exact hv.2

theorem wf_saddAll {m : MSet} (hm : NMap.WF m) (cs : List Nat) : NMap.WF (saddAll m cs).1 := by
  induction cs generalizing m with
  | nil => exact hm
  | cons c cs ih =>
    simp only [saddAll]
    split
    · exact ih hm
    · exact ih (NMap.wf_insert hm)

theorem wf_sremAll {m : MSet} (hm : NMap.WF m) (cs : List Nat) : NMap.WF (sremAll m cs).1 := by
  induction cs generalizing m with
  | nil => exact hm
  | cons c cs ih =>
    simp only [sremAll]
    split
    · exact ih (NMap.wf_erase hm)
    · exact ih hm

theorem wf_removeChosen {m m' : MSet} (hm : NMap.WF m) {cs : List Nat}
    (h : removeChosen m cs = some m') : NMap.WF m' := by
  induction cs generalizing m with
  | nil => simp [removeChosen] at h; subst h; exact hm
  | cons c cs ih =>
    simp only [removeChosen] at h
    split at h
    · exact ih (NMap.wf_erase hm) h
    · cases h

theorem wf_drop {ν : Type} {m : NMap ν} (hm : NMap.WF m) (n : Nat) : NMap.WF (m.drop n) := by
  unfold NMap.WF at *
  exact List.Pairwise.sublist (List.drop_sublist n m) hm

theorem wf_tail {ν : Type} {p : Nat × ν} {m : NMap ν} (hm : NMap.WF (p :: m)) : NMap.WF m :=
  (NMap.wf_cons.mp hm).2

theorem inv_execSAdd {s : State} (h : Inv s) (k : Nat) (ms : List Nat) : Inv (execSAdd s k ms).1 := by
  unfold execSAdd
  split
  · exact h
  · split
    · exact h
    · exact inv_putSet h k (wf_saddAll NMap.wf_nil _) _
    · rename_i hl
      exact inv_putSet h k (wf_saddAll (lookupSet_wf h hl) _) _

theorem execSAdd_err {s : State} {k : Nat} {ms : List Nat}
    (he : (execSAdd s k ms).2.isError = true) : (execSAdd s k ms).1 = s := by
  unfold execSAdd at *
  split
  · rfl
  · split <;> simp_all [Reply.isError]

theorem inv_execSRem {s : State} (h : Inv s) (k : Nat) (ms : List Nat) : Inv (execSRem s k ms).1 := by
  unfold execSRem
  split
  · exact h
  · exact h
  · rename_i hl
    exact inv_putSet h k (wf_sremAll (lookupSet_wf h hl) _) _

theorem execSRem_err {s : State} {k : Nat} {ms : List Nat}
    (he : (execSRem s k ms).2.isError = true) : (execSRem s k ms).1 = s := by
  unfold execSRem at *
  split <;> simp_all [Reply.isError]

theorem execSMembers_ro (s : State) (k : Nat) : (execSMembers s k).1 = s := by
  unfold execSMembers; split <;> rfl

theorem execSIsMember_ro (s : State) (k c : Nat) : (execSIsMember s k c).1 = s := by
  unfold execSIsMember; split <;> rfl

theorem execSCard_ro (s : State) (k : Nat) : (execSCard s k).1 = s := by
  unfold execSCard; split <;> rfl

theorem inv_execSPop1 {s : State} (h : Inv s) (k : Nat) (ch : List Nat) : Inv (execSPop1 s k ch).1 := by
  unfold execSPop1
  split
  · exact h
  · exact h
  · rename_i m dl hl
    have hm := lookupSet_wf h hl
    split
    · exact h
    · split
      · split
        · exact inv_putSet h k (NMap.wf_erase hm) _
        · exact inv_putSet h k (wf_tail hm) _
      · exact inv_putSet h k (wf_tail hm) _

theorem execSPop1_err {s : State} {k : Nat} {ch : List Nat}
    (he : (execSPop1 s k ch).2.isError = true) : (execSPop1 s k ch).1 = s := by
  unfold execSPop1 at *
  split
  · rfl
  · rfl
  · split
    · rfl
    · split
      · split <;> simp_all [Reply.isError]
      · simp_all [Reply.isError]

theorem inv_execSPopN {s : State} (h : Inv s) (k n : Nat) (ch : List Nat) : Inv (execSPopN s k n ch).1 := by
  unfold execSPopN
  split
  · exact h
  · exact h
  · rename_i m dl hl
    have hm := lookupSet_wf h hl
    split
    · split
      · rename_i m' hr
        exact inv_putSet h k (wf_removeChosen hm hr) _
      · exact inv_putSet h k (wf_drop hm _) _
    · exact inv_putSet h k (wf_drop hm _) _

theorem execSPopN_err {s : State} {k n : Nat} {ch : List Nat}
    (he : (execSPopN s k n ch).2.isError = true) : (execSPopN s k n ch).1 = s := by
  unfold execSPopN at *
  split
  · rfl
  · rfl
  · split
    · split <;> simp_all [Reply.isError]
    · simp_all [Reply.isError]

/-! ### hashes -/

theorem inv_putHash {s : State} (h : Inv s) (k : Nat) {m : MHash} (hm : NMap.WF m) (dl : Option Nat) :
    Inv (putHash s k m dl) := by
  unfold putHash
  split
  · exact inv_erase h
  · exact inv_insert h ⟨by simp, hm⟩

theorem lookupHash_wf {s : State} (h : Inv s) {k : Nat} {m : MHash} {dl : Option Nat}
    (hl : lookupHash s k = .found m dl) : NMap.WF m := by
  unfold lookupHash at hl
  split at hl
  · cases hl
  · rename_i e he
    have hv := inv_get h he
    obtain ⟨v, d⟩ := e
    cases v <;> simp at hl
    obtain ⟨h1, _⟩ := hl
    subst h1
    exact hv.2

theorem wf_hsetAll {m : MHash} (hm : NMap.WF m) (fvs : List (Nat × BS)) : NMap.WF (hsetAll m fvs).1 := by
  induction fvs generalizing m with
  | nil => exact hm
  | cons p fvs ih =>
    obtain ⟨f, v⟩ := p
    simp only [hsetAll]
    split
    · exact ih (NMap.wf_insert hm)
    · exact ih (NMap.wf_insert hm)

theorem wf_hdelAll {m : MHash} (hm : NMap.WF m) (fs : List Nat) : NMap.WF (hdelAll m fs).1 := by
  induction fs generalizing m with
  | nil => exact hm
  | cons f fs ih =>
    simp only [hdelAll]
    split
    · exact ih (NMap.wf_erase hm)
    · exact ih hm

theorem inv_execHSet {s : State} (h : Inv s) (k : Nat) (fvs : List (Nat × BS)) : Inv (execHSet s k fvs).1 := by
  unfold execHSet
  split
  · exact h
  · split
    · exact h
    · exact inv_putHash h k (wf_hsetAll NMap.wf_nil _) _
    · rename_i hl
      exact inv_putHash h k (wf_hsetAll (lookupHash_wf h hl) _) _

theorem execHSet_err {s : State} {k : Nat} {fvs : List (Nat × BS)}
    (he : (execHSet s k fvs).2.isError = true) : (execHSet s k fvs).1 = s := by
  unfold execHSet at *
  split
  · rfl
  · split <;> simp_all [Reply.isError]

theorem execHGet_ro (s : State) (k f : Nat) : (execHGet s k f).1 = s := by
  unfold execHGet
  split
  · rfl
  · rfl
  · split <;> rfl

theorem inv_execHDel {s : State} (h : Inv s) (k : Nat) (fs : List Nat) : Inv (execHDel s k fs).1 := by
  unfold execHDel
  split
  · exact h
  · exact h
  · rename_i hl
    exact inv_putHash h k (wf_hdelAll (lookupHash_wf h hl) _) _

theorem execHDel_err {s : State} {k : Nat} {fs : List Nat}
    (he : (execHDel s k fs).2.isError = true) : (execHDel s k fs).1 = s := by
  unfold execHDel at *
  split <;> simp_all [Reply.isError]

theorem execHGetAll_ro (s : State) (k : Nat) : (execHGetAll s k).1 = s := by
  unfold execHGetAll; split <;> rfl
theorem execHKeys_ro (s : State) (k : Nat) : (execHKeys s k).1 = s := by
  unfold execHKeys; split <;> rfl
theorem execHVals_ro (s : State) (k : Nat) : (execHVals s k).1 = s := by
  unfold execHVals; split <;> rfl
theorem execHLen_ro (s : State) (k : Nat) : (execHLen s k).1 = s := by
  unfold execHLen; split <;> rfl
theorem execHExists_ro (s : State) (k f : Nat) : (execHExists s k f).1 = s := by
  unfold execHExists; split <;> rfl

theorem inv_execHIncrBy {s : State} (h : Inv s) (k f : Nat) (d : Int) : Inv (execHIncrBy s k f d).1 := by
  unfold execHIncrBy
  split
  · exact h
  · exact inv_putHash h k (NMap.wf_insert NMap.wf_nil) _
  · rename_i hl
    split
    · exact h
    · split
      · exact inv_putHash h k (NMap.wf_insert (lookupHash_wf h hl)) _
      · exact h

theorem execHIncrBy_err {s : State} {k f : Nat} {d : Int}
    (he : (execHIncrBy s k f d).2.isError = true) : (execHIncrBy s k f d).1 = s := by
  unfold execHIncrBy at *
  split
  · rfl
  · simp_all [Reply.isError]
  · split
    · rfl
    · split
      · simp_all [Reply.isError]
      · rfl

end RedisVerif.Redis
