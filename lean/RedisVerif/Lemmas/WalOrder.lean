import RedisVerif.Lemmas.WalSource

/-!
  ORDER: along every history of the rotator / actor, what recovery returns from any crash image is a
  SUBSEQUENCE of the entries handed to `WalRotator::append`, in the order they were handed over — nothing
  invented, nothing altered, nothing duplicated, nothing reordered (within a file AND across files).

  Ghost state: `E k` = the entries appended (or attempted) to file `k` since it was last created, `L` = all
  entries handed to `append` so far.  Invariant (`OInv`): the store is a canonical map (keys strictly
  increasing = recovery order); every file `k` is a PREFIX of the clean image of `E k`; and the concatenation of
  the `E k` in key order is a sublist of `L`.  A new file always gets a key above every existing one, an append
  always goes to the file with the highest key, deletions and crashes only shorten.
-/
namespace RedisVerif.Wal

structure Ghost where
  E : Nat → List Entry
  L : List Entry

def upd (E : Nat → List Entry) (k : Nat) (v : List Entry) : Nat → List Entry := fun j => if j = k then v else E j

/-- file `p` (key, contents) is a prefix of the clean image of `E key` -/
def FileAt (fmt : Format) (crc : Bytes → Nat) (E : Nat → List Entry) (p : Nat × File) : Prop :=
  AllOk fmt crc (E p.1) ∧ ∃ n, p.2.data = (header fmt p.1 ++ encs (E p.1)).take n

def keysOf (st : Store) : List Nat := st.map (·.1)

structure OInv (fmt : Format) (crc : Bytes → Nat) (g : Ghost) (st : Store) : Prop where
  wf : NMap.WF st
  files : ∀ p ∈ st, FileAt fmt crc g.E p
  sub : List.Sublist ((keysOf st).flatMap g.E) g.L

variable {fmt : Format} {crc : Bytes → Nat}

/-! ## lists -/

theorem flatMap_sublist {α β : Type} (E' E : α → List β) {K' K : List α} (h : List.Sublist K' K)
    (hE : ∀ k ∈ K', List.Sublist (E' k) (E k)) : List.Sublist (K'.flatMap E') (K.flatMap E) := by
  induction h with
  | slnil => exact List.Sublist.slnil
  | cons a _ ih =>
    rw [List.flatMap_cons]
    exact List.Sublist.trans (ih hE) (List.sublist_append_right _ _)
  | cons_cons a _ ih =>
    rw [List.flatMap_cons, List.flatMap_cons]
    exact List.Sublist.append (hE a (by simp)) (ih (fun k hk => hE k (List.mem_cons_of_mem _ hk)))

theorem flatMap_upd_notin (E : Nat → List Entry) (k : Nat) (v : List Entry) (K : List Nat) (hk : k ∉ K) :
    K.flatMap (upd E k v) = K.flatMap E := by
  induction K with
  | nil => rfl
  | cons a K ih =>
    rw [List.flatMap_cons, List.flatMap_cons, ih (fun h => hk (List.mem_cons_of_mem _ h))]
    have : a ≠ k := fun h => hk (by rw [h]; simp)
    simp [upd, this]

theorem upd_same (E : Nat → List Entry) (k : Nat) (v : List Entry) : upd E k v k = v := by simp [upd]
theorem upd_other (E : Nat → List Entry) (k j : Nat) (v : List Entry) (h : j ≠ k) : upd E k v j = E j := by simp [upd, h]

/-! ## canonical maps: where `insert` puts things -/

theorem keys_insert_above {ν : Type} (st : NMap ν) (k : Nat) (v : ν) (h : ∀ p ∈ st, p.1 < k) :
    (NMap.insert k v st).map (·.1) = st.map (·.1) ++ [k] := by
  induction st with
  | nil => rfl
  | cons q st ih =>
    obtain ⟨kq, vq⟩ := q
    have hq : kq < k := h (kq, vq) (by simp)
    simp only [NMap.insert]
    rw [if_neg (by omega), if_neg (by omega)]
    simp only [List.map_cons, List.cons_append]
    rw [ih (fun p hp => h p (List.mem_cons_of_mem _ hp))]

theorem keys_insert_present {ν : Type} (st : NMap ν) (k : Nat) (v : ν) (hwf : NMap.WF st)
    (h : k ∈ st.map (·.1)) : (NMap.insert k v st).map (·.1) = st.map (·.1) := by
  induction st with
  | nil => cases h
  | cons q st ih =>
    obtain ⟨kq, vq⟩ := q
    have ⟨hlb, hw⟩ := NMap.wf_cons.mp hwf
    simp only [NMap.insert]
    by_cases h1 : k < kq
    · -- impossible: k is a key, all keys are ≥ kq
      exfalso
      simp only [List.map_cons, List.mem_cons] at h
      rcases h with h | h
      · omega
      · obtain ⟨p, hp, hpk⟩ := List.mem_map.mp h
        have := hlb p hp
        simp only at this
        omega
    · rw [if_neg h1]
      by_cases h2 : k = kq
      · rw [if_pos h2]; simp [h2]
      · rw [if_neg h2]
        simp only [List.map_cons]
        simp only [List.map_cons, List.mem_cons] at h
        rcases h with h | h
        · exact absurd h h2
        · rw [ih hw h]

theorem mem_insert_wf {ν : Type} {st : NMap ν} {k : Nat} {v : ν} {p : Nat × ν} (hwf : NMap.WF st)
    (h : p ∈ NMap.insert k v st) : p = (k, v) ∨ (p ∈ st ∧ p.1 ≠ k) := by
  induction st with
  | nil => simp [NMap.insert] at h; exact Or.inl h
  | cons q st ih =>
    obtain ⟨kq, vq⟩ := q
    have ⟨hlb, hw⟩ := NMap.wf_cons.mp hwf
    simp only [NMap.insert] at h
    split at h
    · rename_i h1
      rcases List.mem_cons.mp h with h | h
      · exact Or.inl h
      · right
        refine ⟨h, ?_⟩
        rcases List.mem_cons.mp h with h | h
        · rw [h]; simp only; omega
        · have := hlb p h; simp only at this; omega
    · split at h
      · rename_i h1 h2
        rcases List.mem_cons.mp h with h | h
        · exact Or.inl h
        · right
          refine ⟨List.mem_cons_of_mem _ h, ?_⟩
          have := hlb p h; simp only at this; omega
      · rename_i h1 h2
        rcases List.mem_cons.mp h with h | h
        · right; rw [h]; exact ⟨by simp, fun hc => h2 hc.symm⟩
        · rcases ih hw h with h' | ⟨h', hne⟩
          · exact Or.inl h'
          · exact Or.inr ⟨List.mem_cons_of_mem _ h', hne⟩

/-- the highest key comes last -/
theorem keys_last {ν : Type} (st : NMap ν) (c : Nat) (hwf : NMap.WF st) (hc : c ∈ st.map (·.1))
    (hmax : ∀ p ∈ st, p.1 ≤ c) : ∃ K0, st.map (·.1) = K0 ++ [c] ∧ c ∉ K0 := by
  induction st with
  | nil => cases hc
  | cons q st ih =>
    obtain ⟨kq, vq⟩ := q
    have ⟨hlb, hw⟩ := NMap.wf_cons.mp hwf
    cases st with
    | nil =>
      simp only [List.map_cons, List.map_nil, List.mem_singleton] at hc
      exact ⟨[], by simp [hc], by simp⟩
    | cons q2 st2 =>
      have hc' : c ∈ (q2 :: st2).map (·.1) := by
        simp only [List.map_cons, List.mem_cons] at hc ⊢
        rcases hc with h | h
        · -- c = kq is not the maximum: q2.1 > kq
          exfalso
          have h1 := hlb q2 (by simp)
          have h2 := hmax q2 (by simp)
          simp only at h1
          omega
        · exact h
      obtain ⟨K0, hK, hn⟩ := ih hw hc' (fun p hp => hmax p (List.mem_cons_of_mem _ hp))
      refine ⟨kq :: K0, by simp only [List.map_cons] at hK ⊢; rw [hK]; rfl, ?_⟩
      intro hm
      rcases List.mem_cons.mp hm with h | h
      · -- c = kq < q2.1 ≤ c
        have h1 := hlb q2 (by simp)
        have h2 := hmax q2 (by simp)
        simp only at h1
        omega
      · exact hn h

/-! ## store operations -/

theorem oinv_empty (L : List Entry) (E : Nat → List Entry) : OInv fmt crc ⟨E, L⟩ ([] : Store) :=
  ⟨NMap.wf_nil, (fun p hp => by cases hp), List.nil_sublist _⟩

/-- a longer log keeps the invariant -/
theorem OInv.mono_L {g : Ghost} {st : Store} (h : OInv fmt crc g st) (L' : List Entry) (hL : List.Sublist g.L L') :
    OInv fmt crc ⟨g.E, L'⟩ st := ⟨h.wf, h.files, List.Sublist.trans h.sub hL⟩

/-- create a file with a key above every existing one: it starts empty -/
theorem oinv_create {g : Ghost} {st : Store} (h : OInv fmt crc g st) (k : Nat) (hk : ∀ p ∈ st, p.1 < k) :
    OInv fmt crc ⟨upd g.E k [], g.L⟩ (NMap.insert k ⟨[], 0⟩ st) := by
  have hnotin : k ∉ keysOf st := by
    intro hm
    obtain ⟨p, hp, hpk⟩ := List.mem_map.mp hm
    have := hk p hp
    omega
  refine ⟨NMap.wf_insert h.wf, ?_, ?_⟩
  · intro p hp
    rcases mem_insert_wf h.wf hp with rfl | ⟨hp', hne⟩
    · show AllOk fmt crc (upd g.E k [] k) ∧ ∃ n, ([] : Bytes) = (header fmt k ++ encs (upd g.E k [] k)).take n
      rw [upd_same]
      exact ⟨(fun x hx => by cases hx), 0, by simp⟩
    · obtain ⟨hok, n, hn⟩ := h.files p hp'
      show AllOk fmt crc (upd g.E k [] p.1) ∧ ∃ n, p.2.data = (header fmt p.1 ++ encs (upd g.E k [] p.1)).take n
      rw [upd_other _ _ _ _ hne]
      exact ⟨hok, n, hn⟩
  · show List.Sublist ((keysOf (NMap.insert k ⟨[], 0⟩ st)).flatMap (upd g.E k [])) g.L
    unfold keysOf at hnotin ⊢
    rw [keys_insert_above st k _ hk, List.flatMap_append, flatMap_upd_notin _ _ _ _ hnotin]
    simp only [List.flatMap_cons, List.flatMap_nil, upd_same, List.append_nil]
    exact h.sub

/-- the contents of file `k` replaced by another prefix of the image of the SAME entries -/
theorem oinv_replace {g : Ghost} {st : Store} (h : OInv fmt crc g st) (k : Nat) (f' : File)
    (hk : k ∈ keysOf st) (hf : ∃ n, f'.data = (header fmt k ++ encs (g.E k)).take n) :
    OInv fmt crc g (NMap.insert k f' st) := by
  refine ⟨NMap.wf_insert h.wf, ?_, ?_⟩
  · intro p hp
    rcases mem_insert_wf h.wf hp with rfl | ⟨hp', _⟩
    · obtain ⟨q, hq, hqk⟩ := List.mem_map.mp hk
      have := (h.files q hq).1
      rw [hqk] at this
      exact ⟨this, hf⟩
    · exact h.files p hp'
  · show List.Sublist ((keysOf (NMap.insert k f' st)).flatMap g.E) g.L
    unfold keysOf
    rw [keys_insert_present st k f' h.wf hk]
    exact h.sub

theorem get_mem_keys {st : Store} {k : Nat} {f : File} (h : NMap.get st k = some f) : k ∈ keysOf st :=
  List.mem_map.mpr ⟨(k, f), mem_of_get h, rfl⟩

theorem oinv_syncFile {g : Ghost} {st : Store} (h : OInv fmt crc g st) (k : Nat) : OInv fmt crc g (syncFile st k) := by
  unfold syncFile
  cases hg : NMap.get st k with
  | none => exact h
  | some f => exact oinv_replace h k _ (get_mem_keys hg) (h.files (k, f) (mem_of_get hg)).2

theorem oinv_deleteFile {g : Ghost} {st : Store} (h : OInv fmt crc g st) (k : Nat) : OInv fmt crc g (deleteFile st k) := by
  unfold deleteFile
  refine ⟨List.Pairwise.filter _ h.wf, fun p hp => h.files p (List.mem_filter.mp hp).1, ?_⟩
  refine List.Sublist.trans (flatMap_sublist g.E g.E ?_ (fun _ _ => List.Sublist.refl _)) h.sub
  unfold keysOf
  exact List.Sublist.map _ List.filter_sublist

theorem keys_crashStore (st : Store) : keysOf (crashStore st) = keysOf st := by
  unfold keysOf crashStore
  rw [List.map_map]
  rfl

theorem oinv_crashStore {g : Ghost} {st : Store} (h : OInv fmt crc g st) : OInv fmt crc g (crashStore st) := by
  refine ⟨?_, ?_, by rw [keys_crashStore]; exact h.sub⟩
  · unfold crashStore NMap.WF
    rw [List.pairwise_map]
    exact h.wf
  · intro p hp
    unfold crashStore at hp
    obtain ⟨q, hq, rfl⟩ := List.mem_map.mp hp
    obtain ⟨hok, n, hn⟩ := h.files q hq
    exact ⟨hok, min q.2.synced n, by simp only; rw [hn, List.take_take]⟩

/-- one more entry handed to `append` for the file with the HIGHEST key `c`, whose contents were the
    full image: whatever reaches the file (`j` bytes of the encoding, possibly none) -/
theorem oinv_append {g : Ghost} {st : Store} (h : OInv fmt crc g st) (c : Nat) (f : File) (e : Entry)
    (hg : NMap.get st c = some f) (hfull : f.data = header fmt c ++ encs (g.E c)) (hmax : ∀ p ∈ st, p.1 ≤ c)
    (he : e.Good fmt crc) (j : Nat) :
    OInv fmt crc ⟨upd g.E c (g.E c ++ [e]), g.L ++ [e]⟩
      (NMap.insert c { f with data := f.data ++ e.encode.take j } st) := by
  have hck := get_mem_keys hg
  obtain ⟨K0, hK, hnotin⟩ := keys_last st c h.wf hck hmax
  have hokc : AllOk fmt crc (g.E c) := (h.files (c, f) (mem_of_get hg)).1
  refine ⟨NMap.wf_insert h.wf, ?_, ?_⟩
  · intro p hp
    rcases mem_insert_wf h.wf hp with rfl | ⟨hp', hne⟩
    · show AllOk fmt crc (upd g.E c (g.E c ++ [e]) c) ∧
        ∃ n, f.data ++ e.encode.take j = (header fmt c ++ encs (upd g.E c (g.E c ++ [e]) c)).take n
      rw [upd_same]
      refine ⟨?_, (header fmt c ++ encs (g.E c)).length + j, ?_⟩
      · intro x hx
        rcases List.mem_append.mp hx with hx | hx
        · exact hokc x hx
        · simp only [List.mem_singleton] at hx; subst hx; exact he
      · have : header fmt c ++ encs (g.E c ++ [e]) = (header fmt c ++ encs (g.E c)) ++ e.encode := by
          rw [encs_append, List.append_assoc]; simp [encs]
        rw [this, List.take_length_add_append, hfull]
    · obtain ⟨hok, n, hn⟩ := h.files p hp'
      show AllOk fmt crc (upd g.E c (g.E c ++ [e]) p.1) ∧
        ∃ n, p.2.data = (header fmt p.1 ++ encs (upd g.E c (g.E c ++ [e]) p.1)).take n
      rw [upd_other _ _ _ _ hne]
      exact ⟨hok, n, hn⟩
  · show List.Sublist ((keysOf (NMap.insert c _ st)).flatMap (upd g.E c (g.E c ++ [e]))) (g.L ++ [e])
    unfold keysOf
    rw [keys_insert_present st c _ h.wf hck]
    have hsub := h.sub
    unfold keysOf at hsub
    rw [hK] at hsub ⊢
    rw [List.flatMap_append] at hsub ⊢
    rw [flatMap_upd_notin _ _ _ _ hnotin]
    simp only [List.flatMap_cons, List.flatMap_nil, upd_same, List.append_nil] at hsub ⊢
    rw [← List.append_assoc]
    exact List.Sublist.append hsub (List.Sublist.refl _)

/-- an entry handed to `append` that never reaches any file (the rotation before it failed) -/
theorem oinv_log_only {g : Ghost} {st : Store} (h : OInv fmt crc g st) (e : Entry) :
    OInv fmt crc ⟨g.E, g.L ++ [e]⟩ st := h.mono_L _ (List.sublist_append_left _ _)

/-- the header written into a freshly created (empty) file -/
theorem oinv_header {g : Ghost} {st : Store} (h : OInv fmt crc g st) (k : Nat) (f : File) (j : Nat)
    (hg : NMap.get st k = some f) (hf : f.data = []) :
    OInv fmt crc g (NMap.insert k { f with data := f.data ++ (header fmt k).take j } st) := by
  refine oinv_replace h k _ (get_mem_keys hg) ⟨min j (header fmt k).length, ?_⟩
  simp only [hf, List.nil_append]
  rw [List.take_append_of_le_length (Nat.min_le_right _ _)]
  rw [List.take_eq_take_iff]
  simp [Nat.min_assoc]

/-! ## what recovery reads -/

/-- recovery of the crash image (and of the store as it stands) is a sublist of the log -/
theorem oinv_recovered {g : Ghost} {st : Store} (h : OInv fmt crc g st) :
    List.Sublist (durable fmt crc st) g.L ∧ List.Sublist (recoverAll fmt crc (fullImage st)) g.L := by
  have key : ∀ (sel : File → Bytes), (∀ f, ∃ m, sel f = f.data.take m) →
      List.Sublist (recoverAll fmt crc (st.map (fun p => (p.1, sel p.2)))) g.L := by
    intro sel hsel
    refine List.Sublist.trans ?_ h.sub
    unfold recoverAll keysOf
    rw [List.flatMap_map]
    -- file by file: a prefix of the entries of that file
    have hfile : ∀ p ∈ st, List.Sublist (fileEntries fmt crc (sel p.2)) (g.E p.1) := by
      intro p hp
      obtain ⟨hok, n, hn⟩ := h.files p hp
      obtain ⟨m, hm⟩ := hsel p.2
      rw [hm, hn, List.take_take]
      obtain ⟨j, hj⟩ := fileEntries_take_image fmt crc p.1 (g.E p.1) hok (min m n)
      rw [hj]
      exact List.take_sublist _ _
    clear hsel
    have hwf := h.wf
    clear h
    induction st with
    | nil => exact List.Sublist.slnil
    | cons p st ih =>
      simp only [List.flatMap_cons, List.map_cons]
      exact List.Sublist.append (hfile p (by simp)) (ih (fun q hq => hfile q (List.mem_cons_of_mem _ hq)) (NMap.wf_cons.mp hwf).2)
  constructor
  · unfold durable crashImage
    exact key (fun f => f.data.take f.synced) (fun f => ⟨f.synced, rfl⟩)
  · unfold fullImage
    exact key (fun f => f.data) (fun f => ⟨f.data.length, (List.take_length).symm⟩)

/-! ## world and rotator -/

/-- every store of the history satisfies the invariant for SOME earlier ghost whose log is a prefix of the
    current one -/
def HistOK (fmt : Format) (crc : Bytes → Nat) (L : List Entry) (w : World) : Prop :=
  ∀ st ∈ w.hist, ∃ E' L', OInv fmt crc ⟨E', L'⟩ st ∧ L' <+: L

structure ORot (fmt : Format) (crc : Bytes → Nat) (g : Ghost) (r : Rot) : Prop where
  cur : OInv fmt crc g r.w.store
  hist : HistOK fmt crc g.L r.w
  keys : ∀ p ∈ r.w.store, p.1 ≤ r.seq
  writer : ∀ c, r.cur = some c → c = r.seq ∧ ∃ f, NMap.get r.w.store c = some f ∧ f.data = header fmt c ++ encs (g.E c)

theorem histOK_push {L : List Entry} {w : World} (h : HistOK fmt crc L w) (st : Store) (c : Call) (E : Nat → List Entry)
    (hs : OInv fmt crc ⟨E, L⟩ st) : HistOK fmt crc L (w.push st c) := by
  intro st' hst'
  simp only [World.push] at hst'
  rcases List.mem_cons.mp hst' with rfl | h'
  · exact ⟨E, L, hs, List.prefix_refl _⟩
  · exact h st' h'

theorem histOK_mono {L L' : List Entry} {w : World} (h : HistOK fmt crc L w) (hL : L <+: L') : HistOK fmt crc L' w := by
  intro st hst
  obtain ⟨E', L0, ho, hp⟩ := h st hst
  exact ⟨E', L0, ho, List.IsPrefix.trans hp hL⟩

theorem orot_init (maxSize : Nat) (E : Nat → List Entry) : ORot fmt crc ⟨E, []⟩ (Rot.init maxSize) := by
  refine ⟨oinv_empty [] E, ?_, (fun p hp => by cases hp), (fun c hc => by cases hc)⟩
  intro st hst
  simp only [Rot.init, World.init, List.mem_singleton] at hst
  subst hst
  exact ⟨E, [], oinv_empty [] E, List.prefix_refl _⟩

/-- an I/O call that leaves the ghost alone: the new store satisfies the invariant for the same ghost -/
theorem orot_push {g : Ghost} {r : Rot} (h : ORot fmt crc g r) (st : Store) (c : Call) (hs : OInv fmt crc g st)
    (hk : ∀ p ∈ st, p.1 ≤ r.seq) :
    OInv fmt crc g (r.w.push st c).store ∧ HistOK fmt crc g.L (r.w.push st c) ∧ (∀ p ∈ (r.w.push st c).store, p.1 ≤ r.seq) :=
  ⟨hs, histOK_push h.hist st c g.E hs, hk⟩

theorem keys_le_of_sync {st : Store} {n : Nat} (h : ∀ p ∈ st, p.1 ≤ n) (k : Nat) : ∀ p ∈ syncFile st k, p.1 ≤ n := by
  unfold syncFile
  cases hg : NMap.get st k with
  | none => exact h
  | some f =>
    intro p hp
    rcases NMap.mem_insert hp with rfl | hp
    · exact h (k, f) (mem_of_get hg)
    · exact h p hp

theorem get_syncFile_data {st : Store} {c k : Nat} {f : File} (hg : NMap.get st c = some f) :
    ∃ f', NMap.get (syncFile st k) c = some f' ∧ f'.data = f.data := by
  unfold syncFile
  cases hk : NMap.get st k with
  | none => exact ⟨f, hg, rfl⟩
  | some fk =>
    simp only
    by_cases hck : c = k
    · subst hck
      rw [hg] at hk; cases hk
      exact ⟨{ f with synced := f.data.length }, by rw [NMap.get_insert, if_pos rfl], rfl⟩
    · exact ⟨f, by rw [NMap.get_insert, if_neg hck]; exact hg, rfl⟩

theorem orot_ioSync {g : Ghost} {r : Rot} (φ : Nat → Outcome) (h : ORot fmt crc g r) (k : Nat) (cur' : Option Nat)
    (hcur : cur' = r.cur ∨ cur' = none) :
    ORot fmt crc g { r with w := (ioSync φ r.w k).1, cur := cur' } := by
  have hw : ∀ c, cur' = some c → c = r.seq ∧ ∃ f, NMap.get r.w.store c = some f ∧ f.data = header fmt c ++ encs (g.E c) := by
    intro c hc
    rcases hcur with h1 | h1
    · exact h.writer c (by rw [← h1]; exact hc)
    · rw [h1] at hc; cases hc
  unfold ioSync
  cases hφ : φ r.w.io with
  | ok =>
    simp only
    obtain ⟨a, b, c⟩ := orot_push h (syncFile r.w.store k) (.sync k true) (oinv_syncFile h.cur k) (keys_le_of_sync h.keys k)
    refine ⟨a, b, c, fun c' hc' => ?_⟩
    obtain ⟨hs, f, hg, hd⟩ := hw c' hc'
    obtain ⟨f', hg', hd'⟩ := get_syncFile_data (k := k) hg
    exact ⟨hs, f', hg', by rw [hd', hd]⟩
  | fail | torn _ | diskFull =>
    simp only
    obtain ⟨a, b, c⟩ := orot_push h r.w.store (.sync k false) h.cur h.keys
    exact ⟨a, b, c, hw⟩

theorem orot_close {g : Ghost} {r : Rot} (fix : Bool) (φ : Nat → Outcome) (h : ORot fmt crc g r) :
    ORot fmt crc g (Rot.close fix φ r) ∧ (Rot.close fix φ r).cur = none ∧ (Rot.close fix φ r).seq = r.seq := by
  unfold Rot.close
  cases hc : r.cur with
  | none => exact ⟨h, hc, rfl⟩
  | some c =>
    cases fix with
    | true =>
      refine ⟨?_, rfl, rfl⟩
      have := orot_ioSync φ h c none (Or.inr rfl)
      exact ⟨this.cur, this.hist, this.keys, fun c' hc' => by cases hc'⟩
    | false => exact ⟨⟨h.cur, h.hist, h.keys, fun c' hc' => by cases hc'⟩, rfl, rfl⟩

theorem keys_lt_succ {st : Store} {n : Nat} (h : ∀ p ∈ st, p.1 ≤ n) : ∀ p ∈ st, p.1 < n + 1 :=
  fun p hp => Nat.lt_succ_of_le (h p hp)

theorem orot_rotate {g : Ghost} {r : Rot} (fix : Bool) (φ : Nat → Outcome) (h : ORot fmt crc g r) :
    ∃ g', ORot fmt crc g' (Rot.rotate fix fmt φ r).1 ∧ g'.L = g.L ∧
      ((Rot.rotate fix fmt φ r).2 = none → ∃ c, (Rot.rotate fix fmt φ r).1.cur = some c) := by
  obtain ⟨h1, hc1, hs1⟩ := orot_close fix φ h
  unfold Rot.rotate
  simp only
  generalize Rot.close fix φ r = r1 at h1 hc1 hs1
  unfold ioCreate
  cases hφ : φ r1.w.io with
  | ok =>
    simp only
    -- the file is created: its ghost list starts empty
    let g1 : Ghost := ⟨upd g.E (r1.seq + 1) [], g.L⟩
    have ho1 : OInv fmt crc g1 (NMap.insert (r1.seq + 1) ⟨[], 0⟩ r1.w.store) := oinv_create h1.cur (r1.seq + 1) (keys_lt_succ h1.keys)
    have hk1 : ∀ p ∈ NMap.insert (r1.seq + 1) (⟨[], 0⟩ : File) r1.w.store, p.1 ≤ r1.seq + 1 := by
      intro p hp
      rcases NMap.mem_insert hp with rfl | hp
      · exact Nat.le_refl _
      · exact Nat.le_succ_of_le (h1.keys p hp)
    have hh1 : HistOK fmt crc g.L (r1.w.push (NMap.insert (r1.seq + 1) ⟨[], 0⟩ r1.w.store) (.create (r1.seq + 1) true (NMap.get r1.w.store (r1.seq + 1)).isSome)) :=
      histOK_push h1.hist _ _ g1.E ho1
    have hget : NMap.get (NMap.insert (r1.seq + 1) (⟨[], 0⟩ : File) r1.w.store) (r1.seq + 1) = some ⟨[], 0⟩ := by
      rw [NMap.get_insert, if_pos rfl]
    generalize hw1 : r1.w.push (NMap.insert (r1.seq + 1) ⟨[], 0⟩ r1.w.store) (.create (r1.seq + 1) true (NMap.get r1.w.store (r1.seq + 1)).isSome) = w1 at hh1
    have hst1 : w1.store = NMap.insert (r1.seq + 1) ⟨[], 0⟩ r1.w.store := by rw [← hw1]; rfl
    -- the header append
    unfold ioAppend
    cases hφ2 : φ w1.io with
    | ok =>
      simp only
      unfold appendData
      rw [hst1, hget]
      simp only
      have ho2 := oinv_header ho1 (r1.seq + 1) ⟨[], 0⟩ (header fmt (r1.seq + 1)).length hget rfl
      rw [List.take_length] at ho2
      refine ⟨g1, ⟨ho2, ?_, ?_, ?_⟩, rfl, fun _ => ⟨_, rfl⟩⟩
      · exact histOK_push hh1 _ _ g1.E ho2
      · intro p hp
        rcases NMap.mem_insert hp with rfl | hp
        · exact Nat.le_refl _
        · exact hk1 p hp
      · intro c hc
        simp only [Option.some.injEq] at hc
        subst hc
        refine ⟨rfl, _, by show NMap.get (NMap.insert _ _ _) _ = _; rw [NMap.get_insert, if_pos rfl], ?_⟩
        simp [g1, upd_same, encs]
    | torn j =>
      simp only
      unfold appendData
      rw [hst1, hget]
      simp only
      have ho2 := oinv_header ho1 (r1.seq + 1) ⟨[], 0⟩ j hget rfl
      refine ⟨g1, ⟨ho2, histOK_push hh1 _ _ g1.E ho2, ?_, fun c hc => by simp only [hc1] at hc; cases hc⟩, rfl, fun hx => by cases hx⟩
      intro p hp
      rcases NMap.mem_insert hp with rfl | hp
      · exact Nat.le_refl _
      · exact hk1 p hp
    | fail | diskFull =>
      simp only
      rw [hst1]
      exact ⟨g1, ⟨ho1, histOK_push hh1 _ _ g1.E ho1, hk1, fun c hc => by simp only [hc1] at hc; cases hc⟩, rfl, fun hx => by cases hx⟩
  | fail | torn _ | diskFull =>
    simp only
    refine ⟨g, ⟨h1.cur, histOK_push h1.hist _ _ g.E h1.cur, fun p hp => Nat.le_succ_of_le (h1.keys p hp),
      fun c hc => by simp only [hc1] at hc; cases hc⟩, rfl, fun hx => by cases hx⟩

theorem orot_appendTo {g : Ghost} {r : Rot} (φ : Nat → Outcome) (h : ORot fmt crc g r) (e : Entry) (he : e.Good fmt crc) :
    ∃ g', ORot fmt crc g' (Rot.appendTo φ r e).1 ∧ g'.L = g.L ++ [e] := by
  unfold Rot.appendTo
  cases hc : r.cur with
  | none =>
    exact ⟨⟨g.E, g.L ++ [e]⟩, ⟨oinv_log_only h.cur e, histOK_mono h.hist (List.prefix_append _ _), h.keys,
      fun c hc' => by rw [hc] at hc'; cases hc'⟩, rfl⟩
  | some c =>
    simp only
    obtain ⟨hcs, f, hg, hfull⟩ := h.writer c hc
    have hmax : ∀ p ∈ r.w.store, p.1 ≤ c := by rw [hcs]; exact h.keys
    let g' : Ghost := ⟨upd g.E c (g.E c ++ [e]), g.L ++ [e]⟩
    have hhist : HistOK fmt crc g'.L r.w := histOK_mono h.hist (List.prefix_append _ _)
    have hkeys : ∀ j, ∀ p ∈ NMap.insert c ({ f with data := f.data ++ e.encode.take j } : File) r.w.store, p.1 ≤ r.seq := by
      intro j p hp
      rcases NMap.mem_insert hp with rfl | hp
      · exact h.keys (c, f) (mem_of_get hg)
      · exact h.keys p hp
    unfold ioAppend
    cases hφ : φ r.w.io with
    | ok =>
      simp only
      unfold appendData
      rw [hg]
      simp only
      have ho := oinv_append h.cur c f e hg hfull hmax he e.encode.length
      rw [List.take_length] at ho
      refine ⟨g', ⟨ho, histOK_push hhist _ _ g'.E ho, ?_, ?_⟩, rfl⟩
      · have := hkeys e.encode.length
        rw [List.take_length] at this
        exact this
      · intro c' hc'
        simp only [Option.some.injEq] at hc'
        subst hc'
        refine ⟨hcs, _, by show NMap.get (NMap.insert _ _ _) _ = _; rw [NMap.get_insert, if_pos rfl], ?_⟩
        simp only [g', upd_same]
        rw [hfull, encs_append, List.append_assoc]
        simp [encs]
    | torn j =>
      simp only
      unfold appendData
      rw [hg]
      simp only
      have ho := oinv_append h.cur c f e hg hfull hmax he j
      exact ⟨g', ⟨ho, histOK_push hhist _ _ g'.E ho, hkeys j, fun c' hc' => by cases hc'⟩, rfl⟩
    | fail | diskFull =>
      simp only
      -- nothing reaches the file: the same bytes are a prefix of the longer image as well
      have ho := oinv_append h.cur c f e hg hfull hmax he 0
      have hsame : NMap.insert c ({ f with data := f.data ++ e.encode.take 0 } : File) r.w.store = NMap.insert c f r.w.store := by
        simp
      have hins : NMap.insert c f r.w.store = r.w.store := by
        apply NMap.ext (NMap.wf_insert h.cur.wf) h.cur.wf
        intro k
        rw [NMap.get_insert]
        split
        · rename_i hk; rw [hk, hg]
        · rfl
      rw [hsame, hins] at ho
      exact ⟨g', ⟨ho, histOK_push hhist _ _ g'.E ho, h.keys, fun c' hc' => by cases hc'⟩, rfl⟩

theorem orot_append {g : Ghost} {r : Rot} (fix : Bool) (φ : Nat → Outcome) (h : ORot fmt crc g r) (e : Entry)
    (he : e.Good fmt crc) : ∃ g', ORot fmt crc g' (Rot.append fix fmt φ r e).1 ∧ g'.L = g.L ++ [e] := by
  unfold Rot.append
  cases hn : r.needsNew with
  | false =>
    simp only [Bool.false_eq_true, if_false]
    exact orot_appendTo φ h e he
  | true =>
    simp only [if_true]
    obtain ⟨g1, h1, hL1, _⟩ := orot_rotate (fmt := fmt) fix φ h
    cases hr : Rot.rotate fix fmt φ r with
    | mk r1 oe =>
      rw [hr] at h1
      cases oe with
      | some x =>
        simp only
        exact ⟨⟨g1.E, g1.L ++ [e]⟩, ⟨oinv_log_only h1.cur e, histOK_mono h1.hist (List.prefix_append _ _), h1.keys,
          h1.writer⟩, by simp only; rw [hL1]⟩
      | none =>
        simp only
        obtain ⟨g2, h2, hL2⟩ := orot_appendTo φ h1 e he
        exact ⟨g2, h2, by rw [hL2, hL1]⟩

theorem orot_sync {g : Ghost} {r : Rot} (fix : Bool) (φ : Nat → Outcome) (h : ORot fmt crc g r) :
    ORot fmt crc g (Rot.sync fix φ r).1 := by
  unfold Rot.sync
  split
  · exact ⟨h.cur, h.hist, h.keys, h.writer⟩
  · cases hc : r.cur with
    | none => exact ⟨h.cur, h.hist, h.keys, fun c hc' => by cases hc'⟩
    | some c =>
      simp only
      have := orot_ioSync φ h c (some c) (Or.inl hc.symm)
      exact ⟨this.cur, this.hist, this.keys, this.writer⟩

theorem orot_truncLoop {g : Ghost} (φ : Nat → Outcome) (r : Rot) (victims : List Nat) (w : World)
    (h : ORot fmt crc g { r with w := w }) (hv : ∀ k ∈ victims, r.cur ≠ some k) :
    ORot fmt crc g { r with w := truncLoop φ victims w } := by
  induction victims generalizing w with
  | nil => exact h
  | cons k rest ih =>
    simp only [truncLoop]
    have hk : r.cur ≠ some k := hv k (by simp)
    have hstep : ORot fmt crc g { r with w := (ioDelete φ w k).1 } := by
      unfold ioDelete
      cases hφ : φ w.io with
      | ok =>
        simp only
        have ho := oinv_deleteFile h.cur k
        refine ⟨ho, histOK_push h.hist _ _ g.E ho, fun p hp => h.keys p (List.mem_filter.mp hp).1, ?_⟩
        intro c hc
        obtain ⟨hs, f, hg, hd⟩ := h.writer c hc
        refine ⟨hs, f, ?_, hd⟩
        show NMap.get (deleteFile w.store k) c = some f
        rw [get_deleteFile, if_neg (fun hck => hk (by rw [← hck]; exact hc))]
        exact hg
      | fail | torn _ | diskFull =>
        simp only
        exact ⟨h.cur, histOK_push h.hist _ _ g.E h.cur, h.keys, h.writer⟩
    cases hd : ioDelete φ w k with
    | mk w' ok =>
      rw [hd] at hstep
      cases ok with
      | true => exact ih w' hstep (fun k' hk' => hv k' (List.mem_cons_of_mem _ hk'))
      | false => exact hstep

theorem orot_truncate {g : Ghost} {r : Rot} (φ : Nat → Outcome) (T : Nat) (h : ORot fmt crc g r) :
    ORot fmt crc g (Rot.truncate fmt crc φ T r) := by
  unfold Rot.truncate
  simp only
  apply orot_truncLoop φ r _ r.w h
  intro k hk
  rw [List.mem_filter] at hk
  have := hk.2
  simp only [Bool.and_eq_true, bne_iff_ne, ne_eq] at this
  exact this.1

theorem maxKey_ge {st : Store} : ∀ p ∈ st, p.1 ≤ maxKey st := by
  induction st with
  | nil => intro p hp; cases hp
  | cons q st ih =>
    intro p hp
    simp only [maxKey, List.foldr_cons]
    rcases List.mem_cons.mp hp with rfl | hp
    · exact Nat.le_max_left _ _
    · exact Nat.le_trans (ih p hp) (Nat.le_max_right _ _)

/-- a new rotator over the store (current code: `reuse = false`) -/
theorem orot_reopen {g : Ghost} {r : Rot} (h : OInv fmt crc g r.w.store) (hh : HistOK fmt crc g.L r.w) :
    ORot fmt crc g (Rot.reopen false r) :=
  ⟨h, hh, fun p hp => by simp only [Rot.reopen, Bool.false_eq_true, if_false]; exact maxKey_ge p hp,
    fun c hc => by cases hc⟩

/-! ## actor -/

/-- the entries the events hand to `WalRotator::append`, in order -/
def entriesOf (fmt : Format) (crc : Bytes → Nat) : List Ev → List Entry
  | [] => []
  | .write w :: r => Entry.mk' fmt crc w.data w.ts :: entriesOf fmt crc r
  | .forget w :: r => Entry.mk' fmt crc w.data w.ts :: entriesOf fmt crc r
  | _ :: r => entriesOf fmt crc r

theorem entriesOf_append (a b : List Ev) : entriesOf fmt crc (a ++ b) = entriesOf fmt crc a ++ entriesOf fmt crc b := by
  induction a with
  | nil => rfl
  | cons ev a ih => cases ev <;> simp [entriesOf, ih]

theorem orot_flush {g : Ghost} {a : Actor} (fix : Bool) (φ : Nat → Outcome) (h : ORot fmt crc g a.rot) :
    ORot fmt crc g (Actor.flush fix φ a).rot := by
  unfold Actor.flush
  split
  · exact h
  · exact orot_sync fix φ h

theorem orot_step {g : Ghost} {a : Actor} (fix tk : Bool) (φ : Nat → Outcome) (h : ORot fmt crc g a.rot) (ev : Ev)
    (hev : ev.Ok fmt crc) :
    ∃ g', ORot fmt crc g' (Actor.step fix tk φ fmt crc a ev).rot ∧ g'.L = g.L ++ entriesOf fmt crc [ev] := by
  have good : ∀ w : Write, w.Ok fmt crc → (Entry.mk' fmt crc w.data w.ts).Good fmt crc :=
    fun w hw => ⟨hw.1, rfl, hw.2⟩
  cases ev with
  | write w =>
    simp only [Actor.step, Actor.handleWrite, entriesOf]
    obtain ⟨g', h', hL⟩ := orot_append (fmt := fmt) fix φ h _ (good w hev)
    cases hr : Rot.append fix fmt φ a.rot (Entry.mk' fmt crc w.data w.ts) with
    | mk r oe => rw [hr] at h'; cases oe <;> exact ⟨g', h', hL⟩
  | forget w =>
    simp only [Actor.step, Actor.handleForget, entriesOf]
    obtain ⟨g', h', hL⟩ := orot_append (fmt := fmt) fix φ h _ (good w hev)
    cases hr : Rot.append fix fmt φ a.rot (Entry.mk' fmt crc w.data w.ts) with
    | mk r oe => rw [hr] at h'; cases oe <;> exact ⟨g', h', hL⟩
  | tick =>
    simp only [Actor.step, Actor.handleTick, entriesOf, List.append_nil]
    split
    · exact ⟨g, orot_sync fix φ h, rfl⟩
    · exact ⟨g, h, rfl⟩
  | truncate T => exact ⟨g, orot_truncate φ T h, by simp [entriesOf]⟩
  | flush => exact ⟨g, orot_flush fix φ h, by simp [entriesOf]⟩
  | reopen crash reuse =>
    simp only [Ev.Ok] at hev
    subst hev
    simp only [Actor.step, Actor.reopen, entriesOf, List.append_nil]
    cases crash with
    | true =>
      simp only [if_true]
      have ho := oinv_crashStore h.cur
      exact ⟨g, orot_reopen (r := { a.rot with w := a.rot.w.push (crashStore a.rot.w.store) .crash }) ho
        (histOK_push h.hist _ _ g.E ho), rfl⟩
    | false =>
      simp only [Bool.false_eq_true, if_false]
      have h1 := orot_flush fix φ h
      exact ⟨g, orot_reopen h1.cur h1.hist, rfl⟩

theorem orot_run (fix tk : Bool) (φ : Nat → Outcome) (maxSize : Nat) (evs : List Ev) (hev : ∀ ev ∈ evs, ev.Ok fmt crc) :
    ∃ g, ORot fmt crc g (Actor.run fix tk φ fmt crc maxSize evs).rot ∧ g.L = entriesOf fmt crc evs := by
  unfold Actor.run
  suffices hs : ∀ (evs : List Ev) (a : Actor) (g : Ghost), (∀ ev ∈ evs, ev.Ok fmt crc) → ORot fmt crc g a.rot →
      ∃ g', ORot fmt crc g' (evs.foldl (Actor.step fix tk φ fmt crc) a).rot ∧ g'.L = g.L ++ entriesOf fmt crc evs by
    obtain ⟨g', h', hL⟩ := hs evs (Actor.init maxSize) ⟨fun _ => [], []⟩ hev (orot_init maxSize _)
    exact ⟨g', h', by rw [hL]; rfl⟩
  intro evs
  induction evs with
  | nil => intro a g _ h; exact ⟨g, h, by simp [entriesOf]⟩
  | cons ev evs ih =>
    intro a g hev h
    simp only [List.foldl_cons]
    obtain ⟨g1, h1, hL1⟩ := orot_step fix tk φ h ev (hev ev (by simp))
    obtain ⟨g2, h2, hL2⟩ := ih _ g1 (fun e he => hev e (List.mem_cons_of_mem _ he)) h1
    refine ⟨g2, h2, ?_⟩
    rw [hL2, hL1, List.append_assoc]
    congr 1
    exact (entriesOf_append [ev] evs).symm

/-- at every instant of the history: recovery of the crash image is a sublist of the log -/
theorem orot_recovered {g : Ghost} {r : Rot} (h : ORot fmt crc g r) (t : Nat) (st : Store)
    (hst : r.w.storeAt t = some st) : List.Sublist (durable fmt crc st) g.L := by
  have hmem : st ∈ r.w.hist := by
    unfold World.storeAt at hst
    exact List.mem_reverse.mp (List.mem_of_getElem? hst)
  obtain ⟨E', L', ho, hp⟩ := h.hist st hmem
  exact List.Sublist.trans (oinv_recovered ho).1 hp.sublist

end RedisVerif.Wal
