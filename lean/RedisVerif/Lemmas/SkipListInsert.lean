import RedisVerif.Lemmas.SkipListWf
namespace RedisVerif.SkipList
open RedisVerif RedisVerif.Redis

theorem insertAt_eq {α : Type} (x : α) : ∀ (l : List α) (c : Nat), c ≤ l.length →
    insertAt x l c = l.take c ++ x :: l.drop c
  | l, 0, _ => by simp [insertAt]
  | [], c + 1, h => by simp at h
  | y :: ys, c + 1, h => by
    simp only [insertAt, List.take_succ_cons, List.drop_succ_cons, List.cons_append]
    rw [insertAt_eq x ys c (by simpa using h)]

theorem ht_getElem?_of_map {T1 T : List Tower} (h : T1.map Tower.ht = T.map Tower.ht) (k : Nat) :
    (T1[k]?).map Tower.ht = (T[k]?).map Tower.ht := by
  rw [← List.getElem?_map, ← List.getElem?_map, h]

theorem all_small_of_isUpd {T : List Tower} {c j u : Nat} (h : IsUpd T c j u) :
    ∀ t ∈ (T.take c).drop u, t.ht ≤ j := by
  intro t ht
  obtain ⟨k, hk⟩ := List.getElem?_of_mem ht
  rw [List.getElem?_drop, List.getElem?_take] at hk
  split at hk
  · exact h.2.2 (u + k) t (by omega) (by assumption) hk
  · cases hk

/-- the distance from a position `q ≤ c` that is on level `j`, after a tower with `h` levels has
    been linked in at index `c` -/
theorem dist_after_insert {T T1 : List Tower} {c j u q h : Nat} {new : Tower}
    (hT1 : T1.map Tower.ht = T.map Tower.ht) (hc : c ≤ T.length) (hupd : IsUpd T c j u)
    (hq : q ≤ c) (hqj : q = 0 ∨ ∃ t, T[q - 1]? = some t ∧ j < t.ht) (hnew : new.ht = h) :
    distTo j ((T1.take c).drop q ++ new :: T1.drop c) =
      if q = u then (if j < h then c - q + 1 else distTo j (T.drop q) + 1) else distTo j (T.drop q) := by
  have hc1 : c ≤ T1.length := by
    have := congrArg List.length hT1; simp at this; omega
  have eT : T.drop q = (T.take c).drop q ++ T.drop c := by
    conv => lhs; rw [← List.take_append_drop c T]
    rw [List.drop_append_of_le_length (by simp; omega)]
  have hB : distTo j (T1.drop c) = distTo j (T.drop c) :=
    distTo_congr (by rw [List.map_drop, List.map_drop, hT1])
  have hmapA : ((T1.take c).drop q).map Tower.ht = ((T.take c).drop q).map Tower.ht := by
    rw [List.map_drop, List.map_drop, List.map_take, List.map_take, hT1]
  by_cases hqu : q = u
  · subst hqu
    simp only [if_true]
    have hsmallT := all_small_of_isUpd hupd
    have hsmall1 : ∀ t ∈ (T1.take c).drop q, t.ht ≤ j := by
      intro t ht
      have : t.ht ∈ ((T1.take c).drop q).map Tower.ht := List.mem_map_of_mem ht
      rw [hmapA] at this
      obtain ⟨t', ht', e⟩ := List.mem_map.mp this
      rw [← e]; exact hsmallT t' ht'
    have hlen : ((T1.take c).drop q).length = c - q := by simp; omega
    have hlenT : ((T.take c).drop q).length = c - q := by simp; omega
    rw [distTo_append_small hsmall1, hlen]
    simp only [distTo, hnew]
    split
    · omega
    · rw [eT, distTo_append_small hsmallT, hlenT, hB]; omega
  · simp only [hqu, if_false]
    -- `q` is on level `j` and is not the last such position before `c`: that one lies in between
    have hlt : q < u := by
      rcases hqj with rfl | ⟨t, ht, hj⟩
      · omega
      · by_cases hq0 : q = 0
        · omega
        · rcases Nat.lt_or_ge q u with h | hge
          · exact h
          · have := hupd.2.2 (q - 1) t (by omega) (by omega) ht
            omega
    obtain ⟨t', ht', hj'⟩ : ∃ t, T[u - 1]? = some t ∧ j < t.ht := by
      rcases hupd.2.1 with h0 | h1
      · omega
      · exact h1
    have hbigT : ∃ t ∈ (T.take c).drop q, j < t.ht := by
      refine ⟨t', ?_, hj'⟩
      apply List.mem_of_getElem? (i := u - 1 - q)
      rw [List.getElem?_drop, List.getElem?_take]
      have : q + (u - 1 - q) = u - 1 := by omega
      rw [this, if_pos (by have := hupd.1; omega)]; exact ht'
    have hbig1 : ∃ t ∈ (T1.take c).drop q, j < t.ht := by
      obtain ⟨t, ht, hj⟩ := hbigT
      have : t.ht ∈ ((T.take c).drop q).map Tower.ht := List.mem_map_of_mem ht
      rw [← hmapA] at this
      obtain ⟨t1, ht1, e⟩ := List.mem_map.mp this
      exact ⟨t1, ht1, by omega⟩
    rw [distTo_append_big hbig1 _ (T1.drop c)]
    have e1 : (T1.take c).drop q ++ T1.drop c = T1.drop q := by
      conv => rhs; rw [← List.take_append_drop c T1]
      rw [List.drop_append_of_le_length (by simp; omega)]
    rw [e1]
    exact distTo_congr (by rw [List.map_drop, List.map_drop, hT1])


/-! ## the per-level loops (`for i in a..b { nodes[update[i]].levels[i].span = … }`) -/

/-- common shape of the three loops: at level `j` the slot of `update[j]` gets `f … j` -/
def perLevel (f : SL → Nat → Nat → Nat → Option Nat) : List (Nat × Nat) → Nat → SL → Option SL
  | [], _, sl => some sl
  | (u, r) :: rest, j, sl =>
    match f sl u r j with
    | none => none
    | some v => perLevel f rest (j + 1) (setSpan sl u j v)

/-- two lists agree on level `j` (and on the shape) -/
def Agree (j : Nat) (a b : SL) : Prop :=
  (∀ q, spanAt a q j = spanAt b q j) ∧ a.towers.map Tower.ht = b.towers.map Tower.ht

/-- everything but the spans is the same -/
structure Same (a b : SL) : Prop where
  keys : b.towers.map Tower.key = a.towers.map Tower.key
  hts : b.towers.map Tower.ht = a.towers.map Tower.ht
  hdrLen : b.hdr.length = a.hdr.length
  level : b.level = a.level
  length : b.length = a.length
  rng : b.rng = a.rng

theorem Same.refl (a : SL) : Same a a := ⟨rfl, rfl, rfl, rfl, rfl, rfl⟩

theorem Same.trans {a b c : SL} (h1 : Same a b) (h2 : Same b c) : Same a c :=
  ⟨h2.keys.trans h1.keys, h2.hts.trans h1.hts, h2.hdrLen.trans h1.hdrLen, h2.level.trans h1.level,
   h2.length.trans h1.length, h2.rng.trans h1.rng⟩

theorem same_setSpan (sl : SL) (p i v : Nat) : Same sl (setSpan sl p i v) :=
  ⟨setSpan_keys sl p i v, setSpan_hts sl p i v, setSpan_hdr_length sl p i v, by simp, by simp, by simp⟩

theorem agree_setSpan {sl : SL} {p i v j : Nat} (h : j ≠ i) : Agree j sl (setSpan sl p i v) :=
  ⟨fun q => by rw [spanAt_setSpan]; simp [h], (setSpan_hts sl p i v).symm⟩

/-- entry of level `j` in a loop that starts at level `i` -/
def lvlEntry (l : List (Nat × Nat)) (i j : Nat) : Option (Nat × Nat) := if i ≤ j then l[j - i]? else none

theorem perLevel_spec (f : SL → Nat → Nat → Nat → Option Nat)
    (hcong : ∀ a b u r j, Agree j a b → f a u r j = f b u r j) :
    ∀ (l : List (Nat × Nat)) (i : Nat) (sl : SL),
      (∀ k u r, l[k]? = some (u, r) → (f sl u r (i + k)).isSome) →
      ∃ sl', perLevel f l i sl = some sl' ∧ Same sl sl' ∧
        ∀ q j, spanAt sl' q j =
          match lvlEntry l i j with
          | some (u, r) => spanAt (setSpan sl u j ((f sl u r j).getD 0)) q j
          | none => spanAt sl q j
  | [], i, sl, _ => ⟨sl, rfl, Same.refl sl, fun q j => by simp [lvlEntry]⟩
  | (u, r) :: rest, i, sl, hok => by
    obtain ⟨v, hv⟩ := Option.isSome_iff_exists.mp (hok 0 u r rfl)
    simp only [Nat.add_zero] at hv
    have hok' : ∀ k u' r', rest[k]? = some (u', r') → (f (setSpan sl u i v) u' r' (i + 1 + k)).isSome := by
      intro k u' r' hk
      have := hok (k + 1) u' r' (by simpa using hk)
      rw [← hcong sl (setSpan sl u i v) u' r' (i + 1 + k) (agree_setSpan (by omega))]
      have e : i + (k + 1) = i + 1 + k := by omega
      rwa [e] at this
    obtain ⟨sl', hsl', hsame, hsp⟩ := perLevel_spec f hcong rest (i + 1) (setSpan sl u i v) hok'
    refine ⟨sl', by simp [perLevel, hv, hsl'], (same_setSpan sl u i v).trans hsame, ?_⟩
    intro q j
    rw [hsp q j]
    by_cases hji : j = i
    · subst hji
      have h1 : lvlEntry rest (j + 1) j = none := by simp only [lvlEntry]; rw [if_neg (by omega)]
      have h2 : lvlEntry ((u, r) :: rest) j j = some (u, r) := by simp [lvlEntry]
      rw [h1, h2]
      simp [hv]
    · by_cases hlt : j < i
      · have h1 : lvlEntry rest (i + 1) j = none := by simp [lvlEntry]; omega
        have h2 : lvlEntry ((u, r) :: rest) i j = none := by simp [lvlEntry]; omega
        rw [h1, h2]
        simp only [spanAt_setSpan, hji, and_false, if_false]
      · have h1 : lvlEntry ((u, r) :: rest) i j = lvlEntry rest (i + 1) j := by
          simp only [lvlEntry]
          have e : j - i = (j - (i + 1)) + 1 := by omega
          rw [e]
          simp only [List.getElem?_cons_succ]
          have : i ≤ j := by omega
          have : i + 1 ≤ j := by omega
          simp [*]
        rw [h1]
        cases he : lvlEntry rest (i + 1) j with
        | none => simp only [spanAt_setSpan, hji, and_false, if_false]
        | some e =>
          obtain ⟨u', r'⟩ := e
          simp only
          rw [← hcong sl (setSpan sl u i v) u' r' j (agree_setSpan hji)]
          simp only [spanAt_setSpan, hji, and_false, if_false]

end RedisVerif.SkipList
