import RedisVerif.Model.Bincode
import RedisVerif.Lemmas.Wal
import RedisVerif.Lemmas.Codec

/-
  Laws of the bincode codecs (`Model/Bincode.lean`), proved combinator by combinator:
  `rt`     — decoding an encoded representable value followed by ANY bytes gives the value back
             and leaves exactly those bytes;
  `exact`  — whatever the decoder accepts is, byte for byte, the encoding of the value it returns
             followed by the rest it returns (so the decoder never over-reads, accepts no second
             spelling of a value, and the returned value is representable);
  `cells_lt` — the heap cells of a value are fewer than the bytes of its encoding (so what a
             decoder materialises is bounded by the bytes it consumes).
-/
namespace RedisVerif
namespace Bincode

open Wal (le leVal le_length leVal_le leVal_lt)

structure Lawful {α : Type} (c : Codec α) : Prop where
  rt : ∀ a rest, c.ok a → c.dec (c.enc a ++ rest) = some (a, rest)
  exact : ∀ bs a rest, c.dec bs = some (a, rest) → bs = c.enc a ++ rest ∧ c.ok a
  cells_lt : ∀ a, c.cells a < (c.enc a).length
  enc_bytes : ∀ a, c.ok a → allBytes (c.enc a) = true

theorem allBytes_iff (bs : Bytes) : allBytes bs = true ↔ ∀ b ∈ bs, b < 256 := by
  simp [allBytes, List.all_eq_true]

theorem allBytes_le (k v : Nat) : allBytes (le k v) = true := by
  rw [allBytes_iff]
  induction k generalizing v with
  | zero => intro b hb; cases hb
  | succ k ih =>
    intro b hb
    simp only [le, List.mem_cons] at hb
    rcases hb with h | h
    · omega
    · exact ih _ b h

theorem allBytes_append (a b : Bytes) : allBytes (a ++ b) = (allBytes a && allBytes b) := by
  simp [allBytes, List.all_append]

theorem lawful_uN (k : Nat) (hk : 0 < k) : Lawful (uN k) where
  rt := by
    intro v rest hv
    simp only [uN]
    rw [if_neg (by simp [le_length]), List.take_left' (le_length k v), if_pos (allBytes_le k v),
      leVal_le k v hv, List.drop_left' (le_length k v)]
  exact := by
    intro bs a rest h
    simp only [uN] at h
    split at h
    · cases h
    · rename_i hl
      split at h
      · rename_i hb
        simp only [Option.some.injEq, Prod.mk.injEq] at h
        obtain ⟨ha, hr⟩ := h
        have hlen : (bs.take k).length = k := by simp; omega
        have hby := (allBytes_iff _).mp hb
        constructor
        · have h1 := _root_.RedisVerif.Codec.le_leVal (bs.take k) hby
          rw [hlen] at h1
          show bs = le k a ++ rest
          rw [← ha, ← hr, h1, List.take_append_drop]
        · show a < 256 ^ k
          rw [← ha]
          have := leVal_lt (bs.take k) hby
          rwa [hlen] at this
      · cases h
  cells_lt := by
    intro a
    simp [uN, le_length]; exact hk
  enc_bytes := fun a _ => allBytes_le k a

theorem lawful_bool : Lawful bool where
  rt := by
    intro b rest _
    cases b <;> rfl
  exact := by
    intro bs a rest h
    match bs, h with
    | 0 :: r, h =>
      simp only [bool, Option.some.injEq, Prod.mk.injEq] at h
      obtain ⟨ha, hr⟩ := h
      subst ha; subst hr
      exact ⟨rfl, trivial⟩
    | 1 :: r, h =>
      simp only [bool, Option.some.injEq, Prod.mk.injEq] at h
      obtain ⟨ha, hr⟩ := h
      subst ha; subst hr
      exact ⟨rfl, trivial⟩
    | [], h => simp [bool] at h
    | (n + 2) :: r, h => simp [bool] at h
  cells_lt := by
    intro a; simp [bool]
  enc_bytes := by
    intro a _
    cases a <;> rfl

theorem lawful_opt {α : Type} {c : Codec α} (hc : Lawful c) : Lawful (opt c) where
  rt := by
    intro a rest ha
    cases a with
    | none => rfl
    | some a =>
      show (opt c).dec (1 :: (c.enc a ++ rest)) = _
      simp only [opt]
      rw [hc.rt a rest ha]
  exact := by
    intro bs a rest h
    match bs, h with
    | 0 :: r, h =>
      simp only [opt, Option.some.injEq, Prod.mk.injEq] at h
      obtain ⟨ha, hr⟩ := h
      subst ha; subst hr
      exact ⟨rfl, trivial⟩
    | 1 :: r, h =>
      simp only [opt] at h
      split at h
      · rename_i a' r' hd
        simp only [Option.some.injEq, Prod.mk.injEq] at h
        obtain ⟨ha, hr⟩ := h
        subst ha; subst hr
        obtain ⟨h1, h2⟩ := hc.exact r a' r' hd
        refine ⟨?_, h2⟩
        show 1 :: r = 1 :: c.enc a' ++ r'
        rw [h1]; rfl
      · cases h
    | [], h => simp [opt] at h
    | (n + 2) :: r, h => simp [opt] at h
  cells_lt := by
    intro a
    cases a with
    | none => simp [opt]
    | some a => have := hc.cells_lt a; simp [opt]; omega
  enc_bytes := by
    intro a ha
    cases a with
    | none => rfl
    | some a =>
      have := hc.enc_bytes a ha
      show allBytes (1 :: c.enc a) = true
      simp only [allBytes, List.all_cons] at this ⊢
      simp [this]

theorem lawful_pair {α β : Type} {c : Codec α} {d : Codec β} (hc : Lawful c) (hd : Lawful d) :
    Lawful (pair c d) where
  rt := by
    intro p rest hp
    simp only [pair]
    rw [List.append_assoc, hc.rt p.1 _ hp.1]
    simp only
    rw [hd.rt p.2 rest hp.2]
  exact := by
    intro bs p rest h
    simp only [pair] at h
    split at h
    · cases h
    · rename_i a r h1
      split at h
      · cases h
      · rename_i b r' h2
        simp only [Option.some.injEq, Prod.mk.injEq] at h
        obtain ⟨hp, hr⟩ := h
        subst hp; subst hr
        obtain ⟨e1, o1⟩ := hc.exact bs a r h1
        obtain ⟨e2, o2⟩ := hd.exact r b r' h2
        refine ⟨?_, o1, o2⟩
        show bs = (c.enc a ++ d.enc b) ++ r'
        rw [e1, e2, List.append_assoc]
  cells_lt := by
    intro p
    have h1 := hc.cells_lt p.1
    have h2 := hd.cells_lt p.2
    simp [pair]; omega
  enc_bytes := by
    intro p hp
    show allBytes (c.enc p.1 ++ d.enc p.2) = true
    rw [allBytes_append, hc.enc_bytes p.1 hp.1, hd.enc_bytes p.2 hp.2]; rfl

theorem lawful_u64 : Lawful u64 := lawful_uN 8 (by decide)
theorem lawful_u32 : Lawful u32 := lawful_uN 4 (by decide)
theorem lawful_u8 : Lawful u8 := lawful_uN 1 (by decide)

theorem u64_rt (v : Nat) (rest : Bytes) (hv : v < 2 ^ 64) : u64.dec (le 8 v ++ rest) = some (v, rest) :=
  lawful_u64.rt v rest (by simpa [uN] using hv)

theorem u64_exact (bs : Bytes) (n : Nat) (r : Bytes) (h : u64.dec bs = some (n, r)) :
    bs = le 8 n ++ r ∧ n < 2 ^ 64 := by
  obtain ⟨e, o⟩ := lawful_u64.exact bs n r h
  exact ⟨e, by simpa [uN] using o⟩

theorem lawful_blob : Lawful blob where
  rt := by
    intro b rest hb
    simp only [blob]
    rw [List.append_assoc, u64_rt b.length _ hb.1]
    simp only
    rw [if_neg (by simp), List.take_left' rfl, if_pos hb.2, List.drop_left' rfl]
  exact := by
    intro bs a rest h
    simp only [blob] at h
    split at h
    · cases h
    · rename_i n r h1
      split at h
      · cases h
      · rename_i hl
        split at h
        · rename_i hb
          simp only [Option.some.injEq, Prod.mk.injEq] at h
          obtain ⟨ha, hr⟩ := h
          obtain ⟨e1, o1⟩ := u64_exact bs n r h1
          have hlen : a.length = n := by rw [← ha]; simp; omega
          refine ⟨?_, ?_, by rw [← ha]; exact hb⟩
          · show bs = (le 8 a.length ++ a) ++ rest
            rw [e1, hlen, ← ha, ← hr, List.append_assoc, List.take_append_drop]
          · rw [hlen]; exact o1
        · cases h
  cells_lt := by
    intro a; simp [blob, le_length]
  enc_bytes := by
    intro a ha
    show allBytes (le 8 a.length ++ a) = true
    rw [allBytes_append, allBytes_le, ha.2]; rfl

theorem lawful_str : Lawful str where
  rt := by
    intro b rest hb
    simp only [str]
    rw [lawful_blob.rt b rest hb.1]
    simp only
    rw [if_pos hb.2]
  exact := by
    intro bs a rest h
    simp only [str] at h
    split at h
    · cases h
    · rename_i b r h1
      split at h
      · rename_i hu
        simp only [Option.some.injEq, Prod.mk.injEq] at h
        obtain ⟨ha, hr⟩ := h
        subst ha; subst hr
        obtain ⟨e1, o1⟩ := lawful_blob.exact bs b r h1
        exact ⟨e1, o1, hu⟩
      · cases h
  cells_lt := by
    intro a; simp [str, blob, le_length]
  enc_bytes := fun a ha => lawful_blob.enc_bytes a ha.1

theorem decN_rt {α : Type} {c : Codec α} (hc : Lawful c) (l : List α) (rest : Bytes)
    (hl : ∀ a ∈ l, c.ok a) : decN c.dec l.length (l.flatMap c.enc ++ rest) = some (l, rest) := by
  induction l with
  | nil => rfl
  | cons a l ih =>
    simp only [List.length_cons, decN, List.flatMap_cons, List.append_assoc]
    rw [hc.rt a _ (hl a (by simp))]
    simp only
    rw [ih (fun x hx => hl x (by simp [hx]))]

theorem decN_exact {α : Type} {c : Codec α} (hc : Lawful c) (n : Nat) (bs : Bytes) (l : List α)
    (rest : Bytes) (h : decN c.dec n bs = some (l, rest)) :
    bs = l.flatMap c.enc ++ rest ∧ l.length = n ∧ ∀ a ∈ l, c.ok a := by
  induction n generalizing bs l with
  | zero =>
    simp only [decN, Option.some.injEq, Prod.mk.injEq] at h
    obtain ⟨h1, h2⟩ := h
    subst h1; subst h2
    exact ⟨rfl, rfl, fun a ha => by cases ha⟩
  | succ n ih =>
    simp only [decN] at h
    split at h
    · cases h
    · rename_i a r h1
      split at h
      · cases h
      · rename_i as r' h2
        simp only [Option.some.injEq, Prod.mk.injEq] at h
        obtain ⟨hl, hr⟩ := h
        subst hl; subst hr
        obtain ⟨e1, o1⟩ := hc.exact bs a r h1
        obtain ⟨e2, l2, o2⟩ := ih r as h2
        refine ⟨by rw [e1, e2]; simp, by simp [l2], ?_⟩
        intro x hx
        rcases List.mem_cons.mp hx with hx | hx
        · subst hx; exact o1
        · exact o2 x hx

theorem sum_cells_lt {α : Type} {c : Codec α} (hc : Lawful c) (l : List α) :
    l.length + (l.map c.cells).sum ≤ (l.flatMap c.enc).length := by
  induction l with
  | nil => simp
  | cons a l ih =>
    have := hc.cells_lt a
    simp only [List.length_cons, List.map_cons, List.sum_cons, List.flatMap_cons, List.length_append]
    omega

theorem allBytes_flatMap {α : Type} (f : α → Bytes) (l : List α) (h : ∀ a ∈ l, allBytes (f a) = true) :
    allBytes (l.flatMap f) = true := by
  induction l with
  | nil => rfl
  | cons a l ih =>
    rw [List.flatMap_cons, allBytes_append, h a (by simp), ih (fun x hx => h x (by simp [hx]))]; rfl

theorem lawful_vec {α : Type} {c : Codec α} (hc : Lawful c) : Lawful (vec c) where
  rt := by
    intro l rest hl
    simp only [vec]
    rw [List.append_assoc, u64_rt l.length _ hl.1]
    simp only
    exact decN_rt hc l rest hl.2
  exact := by
    intro bs l rest h
    simp only [vec] at h
    split at h
    · cases h
    · rename_i n r h1
      obtain ⟨e1, o1⟩ := u64_exact bs n r h1
      obtain ⟨e2, l2, o2⟩ := decN_exact hc n r l rest h
      refine ⟨?_, ?_, o2⟩
      · show bs = (le 8 l.length ++ l.flatMap c.enc) ++ rest
        rw [e1, e2, l2, List.append_assoc]
      · rw [l2]; exact o1
  cells_lt := by
    intro l
    have := sum_cells_lt hc l
    simp only [vec, List.length_append, le_length]
    omega
  enc_bytes := by
    intro l hl
    show allBytes (le 8 l.length ++ l.flatMap c.enc) = true
    rw [allBytes_append, allBytes_le, allBytes_flatMap c.enc l (fun a ha => hc.enc_bytes a (hl.2 a ha))]; rfl

theorem lawful_xmap {α β : Type} {c : Codec α} (hc : Lawful c) (f : α → β) (g : β → α)
    (hfg : ∀ b, f (g b) = b) (hgf : ∀ a, g (f a) = a) : Lawful (xmap c f g) where
  rt := by
    intro b rest hb
    simp only [xmap]
    rw [hc.rt (g b) rest hb]
    simp only [hfg]
  exact := by
    intro bs b rest h
    simp only [xmap] at h
    split at h
    · cases h
    · rename_i a r h1
      simp only [Option.some.injEq, Prod.mk.injEq] at h
      obtain ⟨hb, hr⟩ := h
      subst hb; subst hr
      obtain ⟨e1, o1⟩ := hc.exact bs a r h1
      refine ⟨?_, ?_⟩
      · show bs = c.enc (g (f a)) ++ r
        rw [hgf]; exact e1
      · show c.ok (g (f a))
        rw [hgf]; exact o1
  cells_lt := by
    intro b
    exact hc.cells_lt (g b)
  enc_bytes := fun b hb => hc.enc_bytes (g b) hb

/-! ## the concrete codecs -/

theorem lawful_stamp : Lawful stamp := lawful_pair lawful_u64 lawful_u64
theorem lawful_umap : Lawful umap := lawful_vec lawful_stamp
theorem lawful_tags : Lawful tags := lawful_vec lawful_stamp

theorem lawful_lww : Lawful lww :=
  lawful_xmap (lawful_pair (lawful_opt lawful_blob) (lawful_pair lawful_stamp lawful_bool)) _ _
    (fun _ => rfl) (fun _ => rfl)

theorem lawful_orElems : Lawful orElems := lawful_vec (lawful_pair lawful_str lawful_tags)
theorem lawful_hashFields : Lawful hashFields := lawful_vec (lawful_pair lawful_str lawful_lww)
theorem lawful_gsetElems : Lawful (vec str) := lawful_vec lawful_str


theorem u32_rt (v : Nat) (rest : Bytes) (hv : v < 2 ^ 32) : u32.dec (le 4 v ++ rest) = some (v, rest) :=
  lawful_u32.rt v rest (by simpa [uN] using hv)

theorem u32_exact (bs : Bytes) (n : Nat) (r : Bytes) (h : u32.dec bs = some (n, r)) :
    bs = le 4 n ++ r ∧ n < 2 ^ 32 := by
  obtain ⟨e, o⟩ := lawful_u32.exact bs n r h
  exact ⟨e, by simpa [uN] using o⟩

theorem lawful_crdt : Lawful crdt where
  rt := by
    intro a rest ha
    cases a with
    | lww r =>
      show crdt.dec (le 4 0 ++ lww.enc r ++ rest) = _
      simp only [crdt]
      rw [List.append_assoc, u32_rt 0 _ (by decide)]
      simp only [if_true]
      rw [lawful_lww.rt r rest ha]
    | gcounter c =>
      show crdt.dec (le 4 1 ++ umap.enc c ++ rest) = _
      simp only [crdt]
      rw [List.append_assoc, u32_rt 1 _ (by decide)]
      simp only [Nat.succ_ne_zero, if_false, if_true]
      rw [lawful_umap.rt c rest ha]
    | pncounter p n =>
      show crdt.dec (le 4 2 ++ (umap.enc p ++ umap.enc n) ++ rest) = _
      simp only [crdt]
      rw [List.append_assoc, u32_rt 2 _ (by decide)]
      simp only [Nat.succ_ne_zero, if_false, if_true, Nat.reduceEqDiff]
      have := (lawful_pair lawful_umap lawful_umap).rt (p, n) rest ha
      simp only [pair] at this ⊢
      rw [this]
    | gset s =>
      show crdt.dec (le 4 3 ++ (vec str).enc s ++ rest) = _
      simp only [crdt]
      rw [List.append_assoc, u32_rt 3 _ (by decide)]
      simp only [Nat.succ_ne_zero, if_false, if_true, Nat.reduceEqDiff]
      rw [lawful_gsetElems.rt s rest ha]
    | orset e nx =>
      show crdt.dec (le 4 4 ++ (orElems.enc e ++ umap.enc nx) ++ rest) = _
      simp only [crdt]
      rw [List.append_assoc, u32_rt 4 _ (by decide)]
      simp only [Nat.succ_ne_zero, if_false, if_true, Nat.reduceEqDiff]
      have := (lawful_pair lawful_orElems lawful_umap).rt (e, nx) rest ha
      simp only [pair] at this ⊢
      rw [this]
    | hash h =>
      show crdt.dec (le 4 5 ++ hashFields.enc h ++ rest) = _
      simp only [crdt]
      rw [List.append_assoc, u32_rt 5 _ (by decide)]
      simp only [Nat.succ_ne_zero, if_false, if_true, Nat.reduceEqDiff]
      rw [lawful_hashFields.rt h rest ha]
  exact := by
    intro bs a rest h
    simp only [crdt] at h
    split at h
    · cases h
    · rename_i t r h1
      obtain ⟨e1, _⟩ := u32_exact bs t r h1
      split at h
      · rename_i ht
        split at h
        · cases h
        · rename_i x r' h2
          simp only [Option.some.injEq, Prod.mk.injEq] at h
          obtain ⟨ha, hr⟩ := h
          subst ha; subst hr
          obtain ⟨e2, o2⟩ := lawful_lww.exact r x r' h2
          refine ⟨?_, o2⟩
          show bs = le 4 0 ++ lww.enc x ++ r'
          rw [e1, e2, ht, List.append_assoc]
      · split at h
        · rename_i ht
          split at h
          · cases h
          · rename_i x r' h2
            simp only [Option.some.injEq, Prod.mk.injEq] at h
            obtain ⟨ha, hr⟩ := h
            subst ha; subst hr
            obtain ⟨e2, o2⟩ := lawful_umap.exact r x r' h2
            refine ⟨?_, o2⟩
            show bs = le 4 1 ++ umap.enc x ++ r'
            rw [e1, e2, ht, List.append_assoc]
        · split at h
          · rename_i ht
            split at h
            · cases h
            · rename_i x r' h2
              simp only [Option.some.injEq, Prod.mk.injEq] at h
              obtain ⟨ha, hr⟩ := h
              subst ha; subst hr
              obtain ⟨e2, o2⟩ := (lawful_pair lawful_umap lawful_umap).exact r x r' h2
              refine ⟨?_, o2⟩
              show bs = le 4 2 ++ (umap.enc x.1 ++ umap.enc x.2) ++ r'
              rw [e1, e2, ht, List.append_assoc]; rfl
          · split at h
            · rename_i ht
              split at h
              · cases h
              · rename_i x r' h2
                simp only [Option.some.injEq, Prod.mk.injEq] at h
                obtain ⟨ha, hr⟩ := h
                subst ha; subst hr
                obtain ⟨e2, o2⟩ := lawful_gsetElems.exact r x r' h2
                refine ⟨?_, o2⟩
                show bs = le 4 3 ++ (vec str).enc x ++ r'
                rw [e1, e2, ht, List.append_assoc]
            · split at h
              · rename_i ht
                split at h
                · cases h
                · rename_i x r' h2
                  simp only [Option.some.injEq, Prod.mk.injEq] at h
                  obtain ⟨ha, hr⟩ := h
                  subst ha; subst hr
                  obtain ⟨e2, o2⟩ := (lawful_pair lawful_orElems lawful_umap).exact r x r' h2
                  refine ⟨?_, o2⟩
                  show bs = le 4 4 ++ (orElems.enc x.1 ++ umap.enc x.2) ++ r'
                  rw [e1, e2, ht, List.append_assoc]; rfl
              · split at h
                · rename_i ht
                  split at h
                  · cases h
                  · rename_i x r' h2
                    simp only [Option.some.injEq, Prod.mk.injEq] at h
                    obtain ⟨ha, hr⟩ := h
                    subst ha; subst hr
                    obtain ⟨e2, o2⟩ := lawful_hashFields.exact r x r' h2
                    refine ⟨?_, o2⟩
                    show bs = le 4 5 ++ hashFields.enc x ++ r'
                    rw [e1, e2, ht, List.append_assoc]
                · cases h
  cells_lt := by
    intro a
    cases a with
    | lww r => have := lawful_lww.cells_lt r; simp only [crdt, List.length_append, le_length]; omega
    | gcounter c => have := lawful_umap.cells_lt c; simp only [crdt, List.length_append, le_length]; omega
    | pncounter p n =>
      have := lawful_umap.cells_lt p; have := lawful_umap.cells_lt n
      simp only [crdt, List.length_append, le_length]; omega
    | gset s => have := lawful_gsetElems.cells_lt s; simp only [crdt, List.length_append, le_length]; omega
    | orset e nx =>
      have := lawful_orElems.cells_lt e; have := lawful_umap.cells_lt nx
      simp only [crdt, List.length_append, le_length]; omega
    | hash h => have := lawful_hashFields.cells_lt h; simp only [crdt, List.length_append, le_length]; omega
  enc_bytes := by
    intro a ha
    cases a with
    | lww r =>
      show allBytes (le 4 0 ++ lww.enc r) = true
      rw [allBytes_append, allBytes_le, lawful_lww.enc_bytes r ha]; rfl
    | gcounter c =>
      show allBytes (le 4 1 ++ umap.enc c) = true
      rw [allBytes_append, allBytes_le, lawful_umap.enc_bytes c ha]; rfl
    | pncounter p n =>
      show allBytes (le 4 2 ++ (umap.enc p ++ umap.enc n)) = true
      rw [allBytes_append, allBytes_append, allBytes_le, lawful_umap.enc_bytes p ha.1, lawful_umap.enc_bytes n ha.2]; rfl
    | gset s =>
      show allBytes (le 4 3 ++ (vec str).enc s) = true
      rw [allBytes_append, allBytes_le, lawful_gsetElems.enc_bytes s ha]; rfl
    | orset e nx =>
      show allBytes (le 4 4 ++ (orElems.enc e ++ umap.enc nx)) = true
      rw [allBytes_append, allBytes_append, allBytes_le, lawful_orElems.enc_bytes e ha.1, lawful_umap.enc_bytes nx ha.2]; rfl
    | hash h =>
      show allBytes (le 4 5 ++ hashFields.enc h) = true
      rw [allBytes_append, allBytes_le, lawful_hashFields.enc_bytes h ha]; rfl

theorem lawful_rv : Lawful rv :=
  lawful_xmap (lawful_pair lawful_crdt (lawful_pair (lawful_opt lawful_umap)
    (lawful_pair (lawful_opt lawful_u64) (lawful_pair lawful_stamp (lawful_opt lawful_u8))))) _ _
    (fun _ => rfl) (fun _ => rfl)

theorem lawful_delta : Lawful delta :=
  lawful_xmap (lawful_pair lawful_str (lawful_pair lawful_rv lawful_u64)) _ _ (fun _ => rfl) (fun _ => rfl)

theorem lawful_state : Lawful state := lawful_vec (lawful_pair lawful_str lawful_rv)

/-! ## consequences used by the property theorems -/

/-- a decoder that satisfies the laws accepts no proper prefix of an encoding: a truncated
    payload is never decoded (into the same or into different data) -/
theorem Lawful.truncated_none {α : Type} {c : Codec α} (hc : Lawful c) (a : α) (ha : c.ok a) (n : Nat)
    (hn : n < (c.enc a).length) : c.dec ((c.enc a).take n) = none := by
  cases hd : c.dec ((c.enc a).take n) with
  | none => rfl
  | some p =>
    obtain ⟨b, r⟩ := p
    obtain ⟨e, ob⟩ := hc.exact _ b r hd
    -- the full encoding = enc b ++ (r ++ dropped tail): decoding it gives b, hence b = a and r ++ tail = []
    have hfull : c.enc a = c.enc b ++ (r ++ (c.enc a).drop n) := by
      conv => lhs; rw [← List.take_append_drop n (c.enc a), e, List.append_assoc]
    have h1 := hc.rt b (r ++ (c.enc a).drop n) ob
    rw [← hfull] at h1
    have h2 := hc.rt a [] ha
    rw [List.append_nil] at h2
    rw [h2] at h1
    simp only [Option.some.injEq, Prod.mk.injEq] at h1
    obtain ⟨hab, hnil⟩ := h1
    have hlen : ((c.enc a).take n).length = (c.enc b ++ r).length := by rw [e]
    have hr : r ++ (c.enc a).drop n = [] := hnil.symm
    have : (c.enc a).drop n = [] := (List.append_eq_nil_iff.mp hr).2
    have : (c.enc a).length ≤ n := by
      have := congrArg List.length this
      simp at this; omega
    omega

/-- the decoder consumes exactly the encoding of what it returns: it never reads past it -/
theorem Lawful.consumed {α : Type} {c : Codec α} (hc : Lawful c) (bs : Bytes) (a : α) (rest : Bytes)
    (h : c.dec bs = some (a, rest)) : bs.length = (c.enc a).length + rest.length ∧ rest = bs.drop (c.enc a).length := by
  obtain ⟨e, _⟩ := hc.exact bs a rest h
  constructor
  · rw [e]; simp
  · rw [e]; simp

/-- what the decoder materialises is bounded by the bytes it consumed -/
theorem Lawful.cells_bounded {α : Type} {c : Codec α} (hc : Lawful c) (bs : Bytes) (a : α) (rest : Bytes)
    (h : c.dec bs = some (a, rest)) : c.cells a < bs.length - rest.length := by
  have := (hc.consumed bs a rest h).1
  have := hc.cells_lt a
  omega

/-- two representable values with the same encoding are equal (the encoding is injective) -/
theorem Lawful.enc_injective {α : Type} {c : Codec α} (hc : Lawful c) (a b : α) (ha : c.ok a) (hb : c.ok b)
    (h : c.enc a = c.enc b) : a = b := by
  have h1 := hc.rt a [] ha
  have h2 := hc.rt b [] hb
  rw [h, h2] at h1
  simp only [Option.some.injEq, Prod.mk.injEq, and_true] at h1
  exact h1.symm

end Bincode
end RedisVerif
