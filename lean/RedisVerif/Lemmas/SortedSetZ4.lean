import RedisVerif.Lemmas.SortedSetZ3
namespace RedisVerif.SkipList
open RedisVerif RedisVerif.Redis

theorem Score.le_iff_not_lt (a b : Score) : a.le b = !(b.lt a) := by
  cases a <;> cases b <;> simp [Score.le, Score.lt]
  rename_i x y
  by_cases h1 : x < y
  · simp [h1]; omega
  · by_cases h2 : x = y
    · subst h2; simp
    · have : y < x := by omega
      simp [h1, h2, this]

/-- one pair of `execute_zadd`'s loop = `zaddOne` of the reference model -/
theorem zaddPair_spec {lv : LevelGen} (hlv : LevelOk lv) (f : ZFlags) {z : ZS} (hz : ZInv z) (m : BS) (sc : Score) :
    ∃ z' a c, zaddPair lv f z m sc = some (z', a, c) ∧ ZInv z' ∧
      keys z'.sl = (zaddOne f (keys z.sl) m sc).1 ∧
      a = (zaddOne f (keys z.sl) m sc).2.1 ∧
      c = (zaddOne f (keys z.sl) m sc).2.1 + (zaddOne f (keys z.sl) m sc).2.2 := by
  unfold zaddPair score
  rw [hz.agree m]
  obtain ⟨z', b, hadd, hz', hk, hb⟩ := add_spec hlv hz m sc
  cases hs : zScore (keys z.sl) m with
  | none =>
    rw [hs] at hk hb
    simp only [zaddOne, hs]
    by_cases hx : f.xx = true
    · exact ⟨z, 0, 0, by simp [hx], hz, by simp [hx], by simp [hx], by simp [hx]⟩
    · simp only [hx, Bool.false_eq_true, if_false, hadd]
      simp only [Option.isNone_none] at hb
      subst hb
      exact ⟨z', 1, 1, rfl, hz', hk, rfl, rfl⟩
  | some old =>
    rw [hs] at hk hb
    simp only [zaddOne, hs]
    by_cases hn : f.nx = true
    · exact ⟨z, 0, 0, by simp [hn], hz, by simp [hn], by simp [hn], by simp [hn]⟩
    · simp only [hn, Bool.false_eq_true, if_false]
      rw [Score.le_iff_not_lt sc old, Score.le_iff_not_lt old sc]
      by_cases hg : (f.gt && !old.lt sc) = true
      · exact ⟨z, 0, 0, by simp [hg], hz, by simp [hg], by simp [hg], by simp [hg]⟩
      · simp only [hg, Bool.false_eq_true, if_false]
        by_cases hl : (f.lt && !sc.lt old) = true
        · exact ⟨z, 0, 0, by simp [hl], hz, by simp [hl], by simp [hl], by simp [hl]⟩
        · simp only [hl, Bool.false_eq_true, if_false, hadd]
          simp only [Option.isNone_some] at hb
          subst hb
          by_cases he : sc = old
          · subst he
            exact ⟨z', 0, 0, by simp, hz', by simpa using hk, by simp, by simp⟩
          · have hne : old ≠ sc := fun e => he e.symm
            exact ⟨z', 0, 1, by simp [hne], hz', by simpa [he] using hk, by simp [he], by simp [he]⟩

theorem zaddLoop_spec {lv : LevelGen} (hlv : LevelOk lv) (f : ZFlags) :
    ∀ (ps : List (BS × Score)) {z : ZS}, ZInv z →
      ∃ z' a c, zaddLoop lv f z ps = some (z', a, c) ∧ ZInv z' ∧
        keys z'.sl = (zaddAll f (keys z.sl) ps).1 ∧
        a = (zaddAll f (keys z.sl) ps).2.1 ∧
        c = (zaddAll f (keys z.sl) ps).2.1 + (zaddAll f (keys z.sl) ps).2.2
  | [], z, hz => ⟨z, 0, 0, rfl, hz, rfl, rfl, rfl⟩
  | (m, sc) :: ps, z, hz => by
    obtain ⟨z1, a1, c1, h1, hz1, hk1, ha1, hc1⟩ := zaddPair_spec hlv f hz m sc
    obtain ⟨z2, a2, c2, h2, hz2, hk2, ha2, hc2⟩ := zaddLoop_spec hlv f ps hz1
    refine ⟨z2, a2 + a1, c2 + c1, by simp [zaddLoop, h1, h2], hz2, ?_, ?_, ?_⟩
    · rw [hk2, hk1]; simp [zaddAll]
    · rw [ha2, ha1, hk1]; simp [zaddAll]
    · rw [hc2, hc1, hk1]; simp only [zaddAll]; omega

theorem zremLoop_spec : ∀ (ms : List BS) {z : ZS}, ZInv z →
    ∃ z' n, zremLoop z ms = some (z', n) ∧ ZInv z' ∧
      keys z'.sl = (zremAll (keys z.sl) ms).1 ∧ n = (zremAll (keys z.sl) ms).2
  | [], z, hz => ⟨z, 0, rfl, hz, rfl, rfl⟩
  | m :: ms, z, hz => by
    obtain ⟨z1, b, h1, hz1, hk1, hb⟩ := remove_spec hz m
    obtain ⟨z2, n, h2, hz2, hk2, hn⟩ := zremLoop_spec ms hz1
    refine ⟨z2, n + (if b then 1 else 0), by simp [zremLoop, h1, h2], hz2, ?_, ?_⟩
    · rw [hk2, hk1]
      simp only [zremAll]
      cases hs : zScore (keys z.sl) m with
      | none => simp [zRemove_of_absent (zScore_none hs)]
      | some old => simp
    · rw [hn, hk1, hb]
      simp only [zremAll]
      cases hs : zScore (keys z.sl) m with
      | none => simp [zRemove_of_absent (zScore_none hs)]
      | some old => simp

end RedisVerif.SkipList
