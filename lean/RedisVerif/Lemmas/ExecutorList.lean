import RedisVerif.Lemmas.ExecutorColl

/-! Refinement of the list commands of `Model.ExecutorColl` (list_ops.rs) to M7. -/
set_option linter.unusedSimpArgs false
set_option linter.unusedVariables false

namespace RedisVerif.Executor
open RedisVerif RedisVerif.Redis

theorem pushMany_ne_nil (side : Side) (l vs : List BS) (h : l ≠ [] ∨ vs ≠ []) : pushMany side l vs ≠ [] := by
  cases side <;> simp only [pushMany] <;> intro hh <;> simp at hh <;> rcases h with h | h <;> simp_all

theorem isEmpty_false_of_ne {α : Type} {l : List α} (h : l ≠ []) : l.isEmpty = false := by
  cases l <;> simp_all

theorem cPush_sim {cs : CState} (h : CInv cs) (side : Side) (k : Nat) (vs : List BS) (hvs : vs ≠ []) :
    SimF cs (fun s => execPush side s k vs) (cPush side cs k vs) := by
  unfold cPush
  ld h k
  obtain ⟨v0, vs0, rfl⟩ : ∃ a b, vs = a :: b := by cases vs with | nil => exact absurd rfl hvs | cons a b => exact ⟨a, b, rfl⟩
  simp only [SimF, execPush, lookupList]
  rw [glook, gux, ← gsame]
  cases ho : NMap.get c.data k with
  | none =>
    have hne := pushMany_ne_nil side [] (v0 :: vs0) (Or.inr hvs)
    obtain ⟨i1, i2⟩ := store_spec ginv gnx (.list (pushMany side [] (v0 :: vs0))) hne
    simp only [Option.map_none, putList_eq, putEntry, isEmptyColl, isEmpty_false_of_ne hne, Bool.false_eq_true, if_false]
    rw [exp_none_of_data_none ginv ho] at i2
    exact ⟨by triv, i2, i1, gnow, gep⟩
  | some w =>
    cases w
    case list l =>
      have hl : l ≠ [] := innerOk_get ginv ho
      have hne := pushMany_ne_nil side l (v0 :: vs0) (Or.inl hl)
      obtain ⟨i1, i2⟩ := store_spec ginv gnx (.list (pushMany side l (v0 :: vs0))) hne
      simp only [Option.map_some, putList_eq, putEntry, isEmptyColl, isEmpty_false_of_ne hne, Bool.false_eq_true, if_false]
      exact ⟨by triv, i2, i1, gnow, gep⟩
    all_goals exact ⟨by triv, by simp [purge_absP], ginv, gnow, gep⟩

theorem cLLen_sim {cs : CState} (h : CInv cs) (k : Nat) : Sim cs (.llen k) (cLLen cs k) := by
  unfold cLLen
  gv h k
  simp only [Sim, SimF, exec, execLLen, lookupList]
  rw [glook]
  cases o with
  | none => simp [gsame, purge_absP, ginv, gnow, gep]
  | some v => cases v <;> simp [gsame, purge_absP, ginv, gnow, gep, wrongType]

theorem cLRange_sim {cs : CState} (h : CInv cs) (k : Nat) (a b : Int) :
    Sim cs (.lrange k a b) (cLRange cs k a b) := by
  unfold cLRange
  gv h k
  simp only [Sim, SimF, exec, execLRange, lookupList]
  rw [glook]
  cases o with
  | none => simp [gsame, purge_absP, ginv, gnow, gep]
  | some v => cases v <;> simp [gsame, purge_absP, ginv, gnow, gep, wrongType]

theorem lrangeNorm_single (len n : Nat) (hn : n < len) : lrangeNorm len n n = some (n, 1) := by
  unfold lrangeNorm normIdx clampEnd
  have h1 : ¬ ((n : Int) < 0) := by omega
  rw [if_neg h1, if_neg h1]
  rw [if_neg (by omega)]
  rw [if_neg (by omega)]
  have h4 : ((n : Int) - (n : Int) + 1).toNat = 1 := by omega
  have h5 : (n : Int).toNat = n := by omega
  rw [h4, h5]

/-- `range(n, n).first()` is the n-th element -/
theorem listAt_eq (l : List BS) (n : Nat) (hn : n < l.length) :
    listAt l n = (match l[n]? with | none => Reply.nil | some x => Reply.bulk x) := by
  unfold listAt
  rw [lrangeNorm_single l.length n hn]
  simp only [slice]
  have hd : l.drop n = l[n] :: l.drop (n + 1) := (List.drop_eq_getElem_cons hn)
  rw [hd, List.getElem?_eq_getElem hn]
  rfl

theorem listIdx_none {len : Nat} {i : Int}
    (h : (i < 0 ∧ (len : Int) + i < 0) ∨ (¬ i < 0 ∧ i ≥ (len : Int))) : listIdx len i = none := by
  unfold listIdx
  rcases h with ⟨hi, h2⟩ | ⟨hi, h2⟩
  · simp only [hi, if_true]; rw [if_pos (by omega)]
  · simp only [hi, if_false, false_or]; rw [if_pos (by omega)]

theorem listIdx_some {len : Nat} {i : Int} (n : Nat)
    (h : (i < 0 ∧ ¬ (len : Int) + i < 0 ∧ n = ((len : Int) + i).toNat) ∨
         (¬ i < 0 ∧ ¬ i ≥ (len : Int) ∧ n = i.toNat)) : listIdx len i = some n := by
  unfold listIdx
  rcases h with ⟨hi, h2, h3⟩ | ⟨hi, h2, h3⟩
  · simp only [hi, if_true]; rw [if_neg (by omega)]; congr 1; omega
  · simp only [hi, if_false, false_or]; rw [if_neg (by omega)]; congr 1; omega

theorem cLIndex_sim {cs : CState} (h : CInv cs) (k : Nat) (i : Int) :
    Sim cs (.lindex k i) (cLIndex cs k i) := by
  unfold cLIndex
  gv h k
  simp only [Sim, SimF, exec, execLIndex, lookupList]
  rw [glook]
  cases o with
  | none => simp [gsame, purge_absP, ginv, gnow, gep]
  | some v =>
    cases v
    case list l =>
      simp only [Option.map_some]
      by_cases hi : i < 0
      · simp only [hi, if_true]
        by_cases h2 : (l.length : Int) + i < 0
        · rw [listIdx_none (Or.inl ⟨hi, h2⟩)]
          simp only [h2, if_true]
          exact ⟨by triv, by simp [gsame, purge_absP], ginv, gnow, gep⟩
        · rw [listIdx_some ((l.length : Int) + i).toNat (Or.inl ⟨hi, h2, rfl⟩)]
          simp only [h2, if_false]
          rw [listAt_eq l _ (by omega)]
          cases l[((l.length : Int) + i).toNat]? <;>
            exact ⟨by triv, by simp [gsame, purge_absP], ginv, gnow, gep⟩
      · simp only [hi, if_false]
        by_cases h2 : i ≥ (l.length : Int)
        · rw [listIdx_none (Or.inr ⟨hi, h2⟩)]
          simp only [h2, if_true]
          exact ⟨by triv, by simp [gsame, purge_absP], ginv, gnow, gep⟩
        · rw [listIdx_some i.toNat (Or.inr ⟨hi, h2, rfl⟩)]
          simp only [h2, if_false]
          rw [listAt_eq l _ (by omega)]
          cases l[i.toNat]? <;>
            exact ⟨by triv, by simp [gsame, purge_absP], ginv, gnow, gep⟩
    all_goals simp [gsame, purge_absP, ginv, gnow, gep, wrongType]

theorem popSide_some (side : Side) {l : List BS} (h : l ≠ []) : ∃ x rest, popSide side l = some (x, rest) := by
  cases side
  · cases l with
    | nil => exact absurd rfl h
    | cons x xs => exact ⟨x, xs, rfl⟩
  · simp only [popSide]
    cases hg : l.getLast? with
    | none => exact absurd (List.getLast?_eq_none_iff.mp hg) h
    | some x => exact ⟨x, l.dropLast, rfl⟩

theorem cPop_sim {cs : CState} (h : CInv cs) (side : Side) (k : Nat) :
    SimF cs (fun s => execPop side s k) (cPop side cs k) := by
  unfold cPop
  gv h k
  simp only [SimF, execPop, lookupList]
  rw [glook, gux, ← gsame]
  cases o with
  | none => exact ⟨by triv, by simp [purge_absP], ginv, gnow, gep⟩
  | some w =>
    cases w
    case list l =>
      have hl : l ≠ [] := innerOk_get ginv gval
      obtain ⟨x, rest, hp⟩ := popSide_some side hl
      simp only [Option.map_some, hp]
      obtain ⟨i1, i2, i3, i4⟩ := putBack_spec ginv gnx (by rw [gval]; rfl) (.list rest) trivial
      rw [putList_eq]
      exact ⟨by triv, i2, i1, by rw [← gnow]; exact i3, by rw [← gep]; exact i4⟩
    all_goals exact ⟨by triv, by simp [purge_absP], ginv, gnow, gep⟩

theorem set_ne_nil {l : List BS} (h : l ≠ []) (n : Nat) (v : BS) : l.set n v ≠ [] := by
  intro hh
  have := congrArg List.length hh
  simp at this
  exact h this

theorem cLSet_sim {cs : CState} (h : CInv cs) (k : Nat) (i : Int) (v : BS) :
    Sim cs (.lset k i v) (cLSet cs k i v) := by
  unfold cLSet
  ld h k
  simp only [Sim, SimF, exec, execLSet, lookupList]
  rw [glook, gux, ← gsame]
  cases ho : NMap.get c.data k with
  | none => exact ⟨by triv, by simp [purge_absP], ginv, gnow, gep⟩
  | some w =>
    cases w
    case list l =>
      have hl : l ≠ [] := innerOk_get ginv ho
      simp only [Option.map_some]
      cases hi : listIdx l.length i with
      | none => exact ⟨by triv, by simp [purge_absP], ginv, gnow, gep⟩
      | some n =>
        have hne := set_ne_nil hl n v
        obtain ⟨i1, i2⟩ := store_spec ginv gnx (.list (l.set n v)) hne
        simp only [putList_eq, putEntry, isEmptyColl, isEmpty_false_of_ne hne, Bool.false_eq_true, if_false]
        exact ⟨by triv, i2, i1, gnow, gep⟩
    all_goals exact ⟨by triv, by simp [purge_absP], ginv, gnow, gep⟩

theorem cLTrim_sim {cs : CState} (h : CInv cs) (k : Nat) (a b : Int) :
    Sim cs (.ltrim k a b) (cLTrim cs k a b) := by
  unfold cLTrim
  ld h k
  simp only [Sim, SimF, exec, execLTrim, lookupList]
  rw [glook, gux, ← gsame]
  cases ho : NMap.get c.data k with
  | none => exact ⟨by triv, by simp [purge_absP], ginv, gnow, gep⟩
  | some w =>
    cases w
    case list l =>
      simp only [Option.map_some]
      obtain ⟨i1, i2, i3, i4⟩ := putBack_spec ginv gnx (by rw [ho]; rfl)
        (.list (slice l (lrangeNorm l.length a b))) trivial
      rw [putList_eq]
      exact ⟨by triv, i2, i1, by rw [← gnow]; exact i3, by rw [← gep]; exact i4⟩
    all_goals exact ⟨by triv, by simp [purge_absP], ginv, gnow, gep⟩

end RedisVerif.Executor
