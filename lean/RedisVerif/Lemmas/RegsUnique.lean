import RedisVerif.Lemmas.ClusterInv

/-!
A (key, slot, stamp) triple identifies one register anywhere in a cluster: the `RegsConsistent`
half of `Compat` is not an assumption about executions but a theorem about them (this is the
cluster-level form of C08's "a stamp identifies one write").
-/
namespace RedisVerif
namespace Cluster

/-- (key, slot, register) triples -/
abbrev Reg3 := Nat × Nat × Lww

def valRegs (k : Nat) (v : RV) : List Reg3 := v.crdt.slots.map (fun q => (k, q.1, q.2))

def shardRegs (s : Shard) : List Reg3 := s.keys.flatMap (fun p => valRegs p.1 p.2)

def sentRegs (c : Cluster) : List Reg3 := c.sent.flatMap (fun m => valRegs m.key m.val)

/-- registers anywhere in the cluster: in a node's state or in an issued delta -/
def InCluster (c : Cluster) (a : Reg3) : Prop :=
  (∃ s ∈ c.nodes, a ∈ shardRegs s) ∨ a ∈ sentRegs c

structure RInv (c : Cluster) : Prop where
  /-- same key, slot and stamp ⇒ same register -/
  uniq : ∀ a b, InCluster c a → InCluster c b → a.1 = b.1 → a.2.1 = b.2.1 →
    a.2.2.ts = b.2.2.ts → a.2.2 = b.2.2
  /-- no register stamped by a node lies in that node's future -/
  own : ∀ (i : Nat) (s : Shard), c.nodes[i]? = some s → ∀ a, InCluster c a →
    a.2.2.ts.rid = s.rid → a.2.2.ts.time ≤ s.clock.time
  rids : ∀ (i : Nat) (s : Shard), c.nodes[i]? = some s → s.rid = i + 1 ∧ s.clock.rid = s.rid
  wf : ∀ s ∈ c.nodes, s.NodeWF ∧ s.Inv
  sent_wf : ∀ m ∈ c.sent, m.val.WF ∧ m.val.Dominated

theorem mem_valRegs {k : Nat} {v : RV} {a : Reg3} :
    a ∈ valRegs k v ↔ a.1 = k ∧ (a.2.1, a.2.2) ∈ v.crdt.slots := by
  simp only [valRegs, List.mem_map]
  constructor
  · rintro ⟨q, hq, rfl⟩; exact ⟨rfl, hq⟩
  · rintro ⟨h1, h2⟩
    exact ⟨(a.2.1, a.2.2), h2, by obtain ⟨a1, a2, a3⟩ := a; simp at h1; simp [h1]⟩

theorem mem_shardRegs {s : Shard} {a : Reg3} :
    a ∈ shardRegs s ↔ ∃ v, (a.1, v) ∈ s.keys ∧ (a.2.1, a.2.2) ∈ v.crdt.slots := by
  simp only [shardRegs, List.mem_flatMap]
  constructor
  · rintro ⟨p, hp, ha⟩
    have := mem_valRegs.mp ha
    refine ⟨p.2, ?_, this.2⟩
    rw [this.1]; exact hp
  · rintro ⟨v, hv, hs⟩
    exact ⟨(a.1, v), hv, mem_valRegs.mpr ⟨rfl, hs⟩⟩

/-- within one canonical value a slot holds one register -/
theorem slots_functional {c : Crdt} (hw : c.WF) {f : Nat} {r r' : Lww}
    (h1 : (f, r) ∈ c.slots) (h2 : (f, r') ∈ c.slots) : r = r' := by
  cases c <;> simp only [Crdt.slots] at h1 h2 <;> try (simp at h1; done)
  · simp at h1 h2
    rw [h1.2, h2.2]
  · simp only [Crdt.WF] at hw
    have g1 := NMap.get_of_mem hw h1
    have g2 := NMap.get_of_mem hw h2
    simp only at g1 g2
    rw [g1] at g2
    exact Option.some.inj g2

/-- within one canonical node state a (key, slot) pair holds one register -/
theorem shardRegs_functional {s : Shard} (hw : s.NodeWF) (hk : NMap.WF s.keys) {a b : Reg3}
    (ha : a ∈ shardRegs s) (hb : b ∈ shardRegs s) (h1 : a.1 = b.1) (h2 : a.2.1 = b.2.1) :
    a.2.2 = b.2.2 := by
  obtain ⟨v, hv, hs⟩ := mem_shardRegs.mp ha
  obtain ⟨v', hv', hs'⟩ := mem_shardRegs.mp hb
  have g1 := NMap.get_of_mem hk hv
  have g2 := NMap.get_of_mem hk hv'
  simp only at g1 g2
  rw [h1, g2] at g1
  have hvv : v' = v := Option.some.inj g1
  subst hvv
  rw [h2] at hs
  exact slots_functional (hw.2 _ hv').1 hs hs'

/-- where the slots of a merge come from (any two kinds) -/
theorem slots_merge {a b : RV} (ha : a.WF) (hb : b.WF) :
    ∀ p ∈ (RV.merge a b).crdt.slots, p ∈ a.crdt.slots ∨ p ∈ b.crdt.slots := by
  simp only [RV.merge, RV.mergeWith, Crdt.mergeWithTimestamps]
  split
  · rename_i m hm; exact slots_tryMerge ha.1 hb.1 hm
  · split
    · intro p hp; exact Or.inr hp
    · intro p hp; exact Or.inl hp

/-! ### registers created by one local step are fresh -/

/-- stamped by this node, after its old clock and not after its new clock -/
def Fresh (c c' : Stamp) (r : Lww) : Prop :=
  r.ts.rid = c.rid ∧ c.time < r.ts.time ∧ r.ts.time ≤ c'.time

theorem hashSet_fold_regs (fs : List (Nat × Bytes)) (c0 c : Stamp) (h0 h : NMap Lww)
    (hc : c0.time ≤ c.time) (hr : c.rid = c0.rid)
    (hh : ∀ p ∈ h, p ∈ h0 ∨ Fresh c0 c p.2) :
    ∀ p ∈ (fs.foldl Shard.hashSetStep (c, h)).2,
      p ∈ h0 ∨ Fresh c0 (fs.foldl Shard.hashSetStep (c, h)).1 p.2 := by
  induction fs generalizing c h with
  | nil => simpa using hh
  | cons f fs ih =>
    simp only [List.foldl_cons, Shard.hashSetStep]
    apply ih
    · simp; omega
    · simp [hr]
    · intro p hp
      rcases NMap.mem_insert hp with hp | hp
      · subst hp
        right
        simp only [Fresh, Lww.set, Stamp.tick_time, Stamp.tick_rid]
        exact ⟨hr, by omega, Nat.le_refl _⟩
      · rcases hh p hp with h1 | h1
        · exact Or.inl h1
        · right
          exact ⟨h1.1, h1.2.1, by have := h1.2.2; simp; omega⟩

theorem hashDel_fold_regs (fs : List Nat) (c0 c : Stamp) (h0 h : NMap Lww)
    (hc : c0.time ≤ c.time) (hr : c.rid = c0.rid)
    (hh : ∀ p ∈ h, p ∈ h0 ∨ Fresh c0 c p.2) :
    ∀ p ∈ (fs.foldl Shard.hashDelStep (c, h)).2,
      p ∈ h0 ∨ Fresh c0 (fs.foldl Shard.hashDelStep (c, h)).1 p.2 := by
  induction fs generalizing c h with
  | nil => simpa using hh
  | cons f fs ih =>
    simp only [List.foldl_cons, Shard.hashDelStep]
    split
    · apply ih
      · simp; omega
      · simp [hr]
      · intro p hp
        rcases NMap.mem_insert hp with hp | hp
        · subst hp
          right
          simp only [Fresh, Lww.delete, Stamp.tick_time, Stamp.tick_rid]
          exact ⟨hr, by omega, Nat.le_refl _⟩
        · rcases hh p hp with h1 | h1
          · exact Or.inl h1
          · right
            exact ⟨h1.1, h1.2.1, by have := h1.2.2; simp; omega⟩
    · exact ih c h hc hr hh

theorem fresh_mono {c c' c'' : Stamp} {r : Lww} (h : Fresh c c' r) (hle : c'.time ≤ c''.time) :
    Fresh c c'' r := ⟨h.1, h.2.1, Nat.le_trans h.2.2 hle⟩

/-- the registers of the value a local step stores/emits are old registers of that key or
    fresh ones -/
theorem local_val_regs (s : Shard) (op : LOp) (d : RV) (hd : (Shard.step s op.toOp).2 = some d) :
    ∀ p ∈ d.crdt.slots,
      (∃ old, NMap.get s.keys op.key = some old ∧ p ∈ old.crdt.slots) ∨
        Fresh s.clock (Shard.step s op.toOp).1.clock p.2 := by
  cases op with
  | write k v e =>
    simp only [LOp.toOp, Shard.step, LOp.key] at hd ⊢
    have hd' := Option.some.inj hd
    subst hd'
    intro p hp
    simp only [Shard.recordWrite, Crdt.slots, List.mem_singleton] at hp
    subst hp
    right
    simp [Fresh, Shard.recordWrite, Lww.set]
  | delete k =>
    simp only [LOp.toOp, Shard.step, LOp.key] at hd ⊢
    cases hg : NMap.get s.keys k with
    | none => rw [Shard.recordDelete_none hg] at hd; simp at hd
    | some rv =>
      by_cases hc0 : rv.crdt.kind = 0
      · obtain ⟨r, hr⟩ := Shard.kind_lww hc0
        rw [Shard.recordDelete_lww hg hr] at hd ⊢
        have hd' := Option.some.inj hd
        subst hd'
        intro p hp
        simp only [Crdt.slots, List.mem_singleton] at hp
        subst hp
        right
        simp [Fresh, Lww.delete]
      · by_cases hc5 : rv.crdt.kind = 5
        · obtain ⟨m, hm⟩ := Shard.kind_hash hc5
          rw [Shard.recordDelete_hash hg hm] at hd ⊢
          have hd' := Option.some.inj hd
          subst hd'
          intro p hp
          simp only [Shard.delHashValue, Crdt.slots] at hp
          obtain ⟨q, _, rfl⟩ := NMap.mem_mapVal hp
          right
          simp [Fresh, Lww.delete]
        · rw [Shard.recordDelete_other hg hc0 hc5] at hd ⊢
          have hd' := Option.some.inj hd
          subst hd'
          intro p hp
          exact Or.inl ⟨rv, rfl, hp⟩
  | hwrite k fs =>
    simp only [LOp.toOp, Shard.step, LOp.key] at hd ⊢
    have hd' := Option.some.inj hd
    subst hd'
    intro p hp
    simp only [Shard.recordHashWrite, Crdt.slots] at hp
    have := hashSet_fold_regs fs s.clock s.clock
      ((NMap.get s.keys k).getD { RV.new s.rid with crdt := .hash [] }).crdt.hashOf
      ((NMap.get s.keys k).getD { RV.new s.rid with crdt := .hash [] }).crdt.hashOf
      (Nat.le_refl _) rfl (fun q hq => Or.inl hq) p hp
    rcases this with h1 | h1
    · left
      cases hg : NMap.get s.keys k with
      | none => rw [hg] at h1; simp [Crdt.hashOf] at h1
      | some old =>
        rw [hg] at h1
        simp only [Option.getD_some] at h1
        refine ⟨old, rfl, ?_⟩
        cases hc : old.crdt <;> rw [hc] at h1 <;> simp only [Crdt.hashOf] at h1 <;>
          first
            | exact absurd h1 List.not_mem_nil
            | (simp only [Crdt.slots]; exact h1)
    · right; exact h1
  | hdelete k fs =>
    simp only [LOp.toOp, Shard.step, LOp.key] at hd ⊢
    cases hg : NMap.get s.keys k with
    | none => rw [Shard.recordHashDelete_none hg] at hd; simp at hd
    | some rv =>
      by_cases hc5 : rv.crdt.kind = 5
      · obtain ⟨m, hm⟩ := Shard.kind_hash hc5
        rw [Shard.recordHashDelete_hash hg hm] at hd ⊢
        have hd' := Option.some.inj hd
        subst hd'
        intro p hp
        simp only [Shard.hdelValue, Crdt.slots] at hp
        have := hashDel_fold_regs fs s.clock s.clock m m (Nat.le_refl _) rfl
          (fun q hq => Or.inl hq) p hp
        rcases this with h1 | h1
        · left; exact ⟨rv, rfl, by rw [hm]; exact h1⟩
        · right; exact h1
      · rw [Shard.recordHashDelete_other hg hc5] at hd; simp at hd

/-- registers of the node state after a local step: old ones or fresh ones -/
theorem local_shard_regs (s : Shard) (op : LOp) (hw : NMap.WF (Shard.step s op.toOp).1.keys) :
    ∀ a ∈ shardRegs (Shard.step s op.toOp).1,
      a ∈ shardRegs s ∨ Fresh s.clock (Shard.step s op.toOp).1.clock a.2.2 := by
  intro a ha
  cases hd : (Shard.step s op.toOp).2 with
  | none =>
    rw [Shard.local_none s op hd] at ha
    exact Or.inl ha
  | some d =>
    obtain ⟨v, hv, hs⟩ := mem_shardRegs.mp ha
    by_cases hk : a.1 = op.key
    · have hg := Shard.local_get s op d hd
      have hg' := NMap.get_of_mem hw hv
      simp only at hg'
      rw [hk, hg] at hg'
      have : v = d := (Option.some.inj hg').symm
      subst this
      rcases local_val_regs s op v hd _ hs with ⟨old, ho, hp⟩ | hf
      · left
        apply mem_shardRegs.mpr
        exact ⟨old, by rw [hk]; exact NMap.mem_of_get ho, hp⟩
      · right; exact hf
    · left
      apply mem_shardRegs.mpr
      have hg' := NMap.get_of_mem hw hv
      simp only at hg'
      rw [Shard.keys_step_other s op a.1 hk] at hg'
      exact ⟨v, NMap.mem_of_get hg', hs⟩

/-- registers after applying a remote delta come from the old state or from the delta -/
theorem remote_shard_regs (s : Shard) (k : Nat) (d : RV) (hwf : s.NodeWF) (hd : d.WF)
    (hk : NMap.WF s.keys) :
    ∀ a ∈ shardRegs (Shard.applyRemote s k d), a ∈ shardRegs s ∨ a ∈ valRegs k d := by
  intro a ha
  obtain ⟨v, hv, hs⟩ := mem_shardRegs.mp ha
  simp only [Shard.applyRemote] at hv
  rcases NMap.mem_insert hv with h1 | h1
  · have hk1 : a.1 = k := by have := congrArg Prod.fst h1; simpa using this
    have hv1 := congrArg Prod.snd h1
    simp only at hv1
    cases hg : NMap.get s.keys k with
    | none =>
      rw [hg] at hv1
      simp only at hv1
      subst hv1
      exact Or.inr (mem_valRegs.mpr ⟨hk1, hs⟩)
    | some l =>
      rw [hg] at hv1
      simp only at hv1
      subst hv1
      have hl : l.WF := hwf.2 _ (NMap.mem_of_get hg)
      rcases slots_merge hl hd _ hs with h2 | h2
      · left
        exact mem_shardRegs.mpr ⟨l, by rw [hk1]; exact NMap.mem_of_get hg, h2⟩
      · exact Or.inr (mem_valRegs.mpr ⟨hk1, h2⟩)
  · exact Or.inl (mem_shardRegs.mpr ⟨v, h1, hs⟩)

/-! ### the invariant -/

theorem RInv_init (n : Nat) (causal : Bool) : RInv (init n causal) where
  uniq := by
    intro a b ha _ _ _ _
    rcases ha with ⟨s, hs, ha⟩ | ha
    · simp only [init, List.mem_map, List.mem_range] at hs
      obtain ⟨i, _, rfl⟩ := hs
      simp [shardRegs, Shard.init] at ha
    · simp [sentRegs, init] at ha
  own := by
    intro i s _ a ha _
    rcases ha with ⟨s', hs', ha⟩ | ha
    · simp only [init, List.mem_map, List.mem_range] at hs'
      obtain ⟨i', _, rfl⟩ := hs'
      simp [shardRegs, Shard.init] at ha
    · simp [sentRegs, init] at ha
  rids := by
    intro i s hs
    simp only [init, List.getElem?_map] at hs
    cases hr : (List.range n)[i]? with
    | none => simp [hr] at hs
    | some x =>
      simp [hr] at hs
      have hx : x = i := by
        have := List.getElem?_eq_some_iff.mp hr
        obtain ⟨hlt, he⟩ := this
        simp at he; exact he.symm
      subst hs hx
      simp [Shard.init]
  wf := by
    intro s hs
    simp only [init, List.mem_map, List.mem_range] at hs
    obtain ⟨i, _, rfl⟩ := hs
    exact ⟨⟨NMap.wf_nil, fun p hp => by cases hp⟩, Shard.inv_init _ _⟩
  sent_wf := by intro m hm; cases hm

theorem RInv_step_deliver {c : Cluster} (h : RInv c) (j idx : Nat) :
    RInv (c.step (.deliver j idx)) := by
  cases hs : c.nodes[j]? with
  | none => simp only [step, hs]; exact h
  | some s =>
    cases hm : c.sent[idx]? with
    | none => simp only [step, hs, hm]; exact h
    | some m =>
      · have hstep : c.step (.deliver j idx) =
            { c with
              nodes := c.nodes.set j (Shard.applyRemote s m.key m.val)
              log := c.log ++ [⟨j, m.key, m.val⟩] } := by
          simp only [step, hs, hm]
        rw [hstep]
        have hsmem : s ∈ c.nodes := List.mem_of_getElem? hs
        have hmmem : m ∈ c.sent := List.mem_of_getElem? hm
        have ⟨hnwf, hinv⟩ := h.wf s hsmem
        have ⟨hmw, hmd⟩ := h.sent_wf m hmmem
        have hjlt : j < c.nodes.length := (List.getElem?_eq_some_iff.mp hs).1
        -- every register of the new cluster was already in the old one
        have hold : ∀ a, InCluster ({ c with
              nodes := c.nodes.set j (Shard.applyRemote s m.key m.val)
              log := c.log ++ [⟨j, m.key, m.val⟩] } : Cluster) a → InCluster c a := by
          intro a ha
          rcases ha with ⟨s', hs', ha⟩ | ha
          · rcases mem_set hs' with h1 | h1
            · subst h1
              rcases remote_shard_regs s m.key m.val hnwf hmw hinv.1 a ha with h2 | h2
              · exact Or.inl ⟨s, hsmem, h2⟩
              · right
                simp only [sentRegs, List.mem_flatMap]
                exact ⟨m, hmmem, h2⟩
            · exact Or.inl ⟨s', h1, ha⟩
          · exact Or.inr ha
        refine ⟨?_, ?_, ?_, ?_, h.sent_wf⟩
        · intro a b ha hb
          exact h.uniq a b (hold a ha) (hold b hb)
        · intro i s' hs' a ha hrid
          by_cases hij : i = j
          · subst hij
            rw [List.getElem?_set_self hjlt] at hs'
            cases hs'
            have := h.own i s hs a (hold a ha) (by simpa [Shard.applyRemote] using hrid)
            simp only [Shard.applyRemote, Stamp.update_time]
            have := Nat.le_max_left s.clock.time m.val.ts.time
            omega
          · rw [List.getElem?_set_ne (Ne.symm hij)] at hs'
            exact h.own i s' hs' a (hold a ha) hrid
        · intro i s' hs'
          by_cases hij : i = j
          · subst hij
            rw [List.getElem?_set_self hjlt] at hs'
            cases hs'
            have := h.rids i s hs
            simp [Shard.applyRemote, this.1, this.2]
          · rw [List.getElem?_set_ne (Ne.symm hij)] at hs'
            exact h.rids i s' hs'
        · intro s' hs'
          rcases mem_set hs' with h1 | h1
          · subst h1
            exact ⟨Shard.nodewf_remote s m.key m.val hnwf hmw, C08.inv_remote s m.key m.val hinv hmd⟩
          · exact h.wf s' h1

theorem RInv_step_loc {c : Cluster} (h : RInv c) (i : Nat) (op : LOp) :
    RInv (c.step (.loc i op)) := by
  cases hs : c.nodes[i]? with
  | none => simp only [step, hs]; exact h
  | some s =>
    have hsmem : s ∈ c.nodes := List.mem_of_getElem? hs
    have ⟨hnwf, hinv⟩ := h.wf s hsmem
    have hilt : i < c.nodes.length := (List.getElem?_eq_some_iff.mp hs).1
    have hrid := h.rids i s hs
    have hinv' : (Shard.step s op.toOp).1.Inv :=
      C08.inv_step s op.toOp hinv (by cases op <;> trivial)
    have hnwf' : (Shard.step s op.toOp).1.NodeWF := Shard.nodewf_step s op hnwf
    have hmono := C08.clock_monotone s op.toOp
    have hfresh := local_shard_regs s op hinv'.1
    -- the new cluster's nodes / sent, uniformly for both delta cases
    have key : ∀ (sent' : List Msg) (log' : List Absorbed),
        (∀ a, a ∈ (sent'.flatMap (fun m => valRegs m.key m.val)) →
          a ∈ sentRegs c ∨ a ∈ shardRegs (Shard.step s op.toOp).1) →
        (∀ m ∈ sent', m.val.WF ∧ m.val.Dominated) →
        RInv (Cluster.mk (c.nodes.set i (Shard.step s op.toOp).1) sent' log') := by
      intro sent' log' hsent hsentwf
      -- classification of every register of the new cluster
      have hcls : ∀ a, InCluster (Cluster.mk (c.nodes.set i (Shard.step s op.toOp).1) sent' log') a →
          InCluster c a ∨ (a ∈ shardRegs (Shard.step s op.toOp).1 ∧
            Fresh s.clock (Shard.step s op.toOp).1.clock a.2.2) := by
        intro a ha
        have hnew : a ∈ shardRegs (Shard.step s op.toOp).1 →
            InCluster c a ∨ (a ∈ shardRegs (Shard.step s op.toOp).1 ∧
              Fresh s.clock (Shard.step s op.toOp).1.clock a.2.2) := by
          intro h1
          rcases hfresh a h1 with h2 | h2
          · exact Or.inl (Or.inl ⟨s, hsmem, h2⟩)
          · exact Or.inr ⟨h1, h2⟩
        rcases ha with ⟨s', hs', ha⟩ | ha
        · rcases mem_set hs' with h1 | h1
          · subst h1; exact hnew ha
          · exact Or.inl (Or.inl ⟨s', h1, ha⟩)
        · rcases hsent a ha with h1 | h1
          · exact Or.inl (Or.inr h1)
          · exact hnew h1
      refine ⟨?_, ?_, ?_, ?_, hsentwf⟩
      · intro a b ha hb hk hsl hts
        rcases hcls a ha with ha1 | ⟨ha1, ha2⟩ <;> rcases hcls b hb with hb1 | ⟨hb1, hb2⟩
        · exact h.uniq a b ha1 hb1 hk hsl hts
        · -- a old, b fresh: b's stamp is in node i's future, a's is not
          exfalso
          have := h.own i s hs a ha1 (by rw [hts, hb2.1, hrid.2])
          have h3 := hb2.2.1
          rw [hts] at this; omega
        · exfalso
          have := h.own i s hs b hb1 (by rw [← hts, ha2.1, hrid.2])
          have h3 := ha2.2.1
          rw [← hts] at this; omega
        · exact shardRegs_functional hnwf' hinv'.1 ha1 hb1 hk hsl
      · intro i' s' hs' a ha hridA
        by_cases hii : i' = i
        · subst hii
          rw [List.getElem?_set_self hilt] at hs'
          cases hs'
          rcases hcls a ha with h1 | ⟨_, h2⟩
          · have := h.own i' s hs a h1 (by rw [hridA, Shard.rid_step])
            omega
          · exact h2.2.2
        · rw [List.getElem?_set_ne (Ne.symm hii)] at hs'
          rcases hcls a ha with h1 | ⟨_, h2⟩
          · exact h.own i' s' hs' a h1 hridA
          · exfalso
            have r1 := (h.rids i' s' hs').1
            have r2 := hrid
            have : a.2.2.ts.rid = i + 1 := by rw [h2.1, r2.2, r2.1]
            rw [hridA, r1] at this
            omega
      · intro i' s' hs'
        by_cases hii : i' = i
        · subst hii
          rw [List.getElem?_set_self hilt] at hs'
          cases hs'
          rw [Shard.rid_step, hmono.2]
          exact hrid
        · rw [List.getElem?_set_ne (Ne.symm hii)] at hs'
          exact h.rids i' s' hs'
      · intro s' hs'
        rcases mem_set hs' with h1 | h1
        · subst h1; exact ⟨hnwf', hinv'⟩
        · exact h.wf s' h1
    cases hd : (Shard.step s op.toOp).2 with
    | none =>
      have hstep : c.step (.loc i op) =
          Cluster.mk (c.nodes.set i (Shard.step s op.toOp).1) c.sent c.log := by
        simp only [step, hs, hd]
      rw [hstep]
      exact key c.sent c.log (fun a ha => Or.inl ha) h.sent_wf
    | some d =>
      have hstep : c.step (.loc i op) =
          Cluster.mk (c.nodes.set i (Shard.step s op.toOp).1) (c.sent ++ [⟨i, op.key, d⟩])
            (c.log ++ [⟨i, op.key, d⟩]) := by
        simp only [step, hs, hd]
      rw [hstep]
      have hget := Shard.local_get s op d hd
      have hdmem := NMap.mem_of_get hget
      apply key
      · intro a ha
        simp only [List.flatMap_append, List.mem_append, List.flatMap_cons, List.flatMap_nil,
          List.append_nil] at ha
        rcases ha with h1 | h1
        · exact Or.inl h1
        · right
          have := mem_valRegs.mp h1
          apply mem_shardRegs.mpr
          exact ⟨d, by rw [this.1]; exact hdmem, this.2⟩
      · intro m hm
        rcases List.mem_append.mp hm with h1 | h1
        · exact h.sent_wf m h1
        · simp only [List.mem_singleton] at h1
          subst h1
          exact ⟨hnwf'.2 _ hdmem, (hinv'.2 _ hdmem).2⟩

theorem RInv_run (c : Cluster) (evs : List Ev) (h : RInv c) : RInv (c.run evs) := by
  induction evs generalizing c with
  | nil => exact h
  | cons e evs ih =>
    apply ih
    cases e with
    | loc i op => exact RInv_step_loc h i op
    | deliver j idx => exact RInv_step_deliver h j idx

/-- **a (key, slot, stamp) triple identifies one register** in every reachable cluster: the
    `RegsConsistent` half of `Compat` holds of every execution -/
theorem regs_consistent_of_run (n : Nat) (causal : Bool) (evs : List Ev) (k : Nat) :
    RegsConsistent (regsOf ((init n causal).run evs).sent k) := by
  have h := RInv_run _ evs (RInv_init n causal)
  intro p hp q hq hsl hts
  simp only [regsOf, List.mem_flatMap, List.mem_filter, decide_eq_true_eq] at hp hq
  obtain ⟨m1, ⟨hm1, hk1⟩, hs1⟩ := hp
  obtain ⟨m2, ⟨hm2, hk2⟩, hs2⟩ := hq
  have hin : ∀ (m : Msg) (x : Nat × Lww), m ∈ ((init n causal).run evs).sent → m.key = k →
      x ∈ m.val.crdt.slots → InCluster ((init n causal).run evs) (k, x.1, x.2) := by
    intro m x hm hk hx
    right
    simp only [sentRegs, List.mem_flatMap]
    exact ⟨m, hm, mem_valRegs.mpr ⟨hk.symm, hx⟩⟩
  exact h.uniq (k, p.1, p.2) (k, q.1, q.2) (hin m1 p hm1 hk1 hs1) (hin m2 q hm2 hk2 hs2) rfl hsl hts

theorem sent_wf_of_run (n : Nat) (causal : Bool) (evs : List Ev) :
    ∀ m ∈ ((init n causal).run evs).sent, m.val.WF :=
  fun m hm => ((RInv_run _ evs (RInv_init n causal)).sent_wf m hm).1

end Cluster
end RedisVerif
