import RedisVerif.Lemmas.ClusterInv

/-!
A (key, slot, stamp) triple identifies one register anywhere in a cluster: the `RegsConsistent`
half of `Compat` is not an assumption about executions but a theorem about them (this is the
cluster-level form of C08's "a stamp identifies one write").
-/
namespace RedisVerif
namespace Cluster

/-- (key, slot, register) triples -/
abbrev Reg3 := Nat × Nat × Lww

def valRegs (k : Nat) (v : RV) : List Reg3 := v.crdt.slots.map (fun q => (k, q.1, q.2))

def shardRegs (s : Shard) : List Reg3 := s.keys.flatMap (fun p => valRegs p.1 p.2)

def sentRegs (c : Cluster) : List Reg3 := c.sent.flatMap (fun m => valRegs m.key m.val)

/-- registers anywhere in the cluster: in a node's state or in an issued delta -/
def InCluster (c : Cluster) (a : Reg3) : Prop :=
  (∃ s ∈ c.nodes, a ∈ shardRegs s) ∨ a ∈ sentRegs c

structure RInv (c : Cluster) : Prop where
  /-- same key, slot and stamp ⇒ same register -/
  uniq : ∀ a b, InCluster c a → InCluster c b → a.1 = b.1 → a.2.1 = b.2.1 →
    a.2.2.ts = b.2.2.ts → a.2.2 = b.2.2
  /-- no register stamped by a node lies in that node's future -/
  own : ∀ i s, c.nodes[i]? = some s → ∀ a, InCluster c a → a.2.2.ts.rid = s.rid →
    a.2.2.ts.time ≤ s.clock.time
  rids : ∀ i s, c.nodes[i]? = some s → s.rid = i + 1 ∧ s.clock.rid = s.rid
  wf : ∀ s ∈ c.nodes, s.NodeWF ∧ s.Inv
  sent_wf : ∀ m ∈ c.sent, m.val.WF ∧ m.val.Dominated

theorem mem_valRegs {k : Nat} {v : RV} {a : Reg3} :
    a ∈ valRegs k v ↔ a.1 = k ∧ (a.2.1, a.2.2) ∈ v.crdt.slots := by
  simp only [valRegs, List.mem_map]
  constructor
  · rintro ⟨q, hq, rfl⟩; exact ⟨rfl, hq⟩
  · rintro ⟨h1, h2⟩
    exact ⟨(a.2.1, a.2.2), h2, by obtain ⟨a1, a2, a3⟩ := a; simp at h1; simp [h1]⟩

theorem mem_shardRegs {s : Shard} {a : Reg3} :
    a ∈ shardRegs s ↔ ∃ v, (a.1, v) ∈ s.keys ∧ (a.2.1, a.2.2) ∈ v.crdt.slots := by
  simp only [shardRegs, List.mem_flatMap]
  constructor
  · rintro ⟨p, hp, ha⟩
    have := mem_valRegs.mp ha
    refine ⟨p.2, ?_, this.2⟩
    rw [this.1]; exact hp
  · rintro ⟨v, hv, hs⟩
    exact ⟨(a.1, v), hv, mem_valRegs.mpr ⟨rfl, hs⟩⟩

/-- within one canonical value a slot holds one register -/
theorem slots_functional {c : Crdt} (hw : c.WF) {f : Nat} {r r' : Lww}
    (h1 : (f, r) ∈ c.slots) (h2 : (f, r') ∈ c.slots) : r = r' := by
  cases c <;> simp only [Crdt.slots] at h1 h2 <;> try (simp at h1; done)
  · simp at h1 h2
    rw [h1.2, h2.2]
  · simp only [Crdt.WF] at hw
    have g1 := NMap.get_of_mem hw h1
    have g2 := NMap.get_of_mem hw h2
    simp only at g1 g2
    rw [g1] at g2
    exact Option.some.inj g2

/-- within one canonical node state a (key, slot) pair holds one register -/
theorem shardRegs_functional {s : Shard} (hw : s.NodeWF) (hk : NMap.WF s.keys) {a b : Reg3}
    (ha : a ∈ shardRegs s) (hb : b ∈ shardRegs s) (h1 : a.1 = b.1) (h2 : a.2.1 = b.2.1) :
    a.2.2 = b.2.2 := by
  obtain ⟨v, hv, hs⟩ := mem_shardRegs.mp ha
  obtain ⟨v', hv', hs'⟩ := mem_shardRegs.mp hb
  have g1 := NMap.get_of_mem hk hv
  have g2 := NMap.get_of_mem hk hv'
  simp only at g1 g2
  rw [h1, g2] at g1
  have hvv : v' = v := Option.some.inj g1
  subst hvv
  rw [h2] at hs
  exact slots_functional (hw.2 _ hv').1 hs hs'

/-- where the slots of a merge come from (any two kinds) -/
theorem slots_merge {a b : RV} (ha : a.WF) (hb : b.WF) :
    ∀ p ∈ (RV.merge a b).crdt.slots, p ∈ a.crdt.slots ∨ p ∈ b.crdt.slots := by
  simp only [RV.merge, RV.mergeWith, Crdt.mergeWithTimestamps]
  split
  · rename_i m hm; exact slots_tryMerge ha.1 hb.1 hm
  · split
    · intro p hp; exact Or.inr hp
    · intro p hp; exact Or.inl hp

end Cluster
end RedisVerif
