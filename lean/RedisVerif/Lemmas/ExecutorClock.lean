import RedisVerif.Lemmas.ExecutorExpire

/-! The clock of the executor: `set_time` (= `evict_expired_keys` after the assignment; also
    `evict_expired_direct`) and `update_time_readonly`, against M7's `purge`. -/
set_option linter.unusedSimpArgs false
set_option linter.unusedVariables false

namespace RedisVerif.Executor
open RedisVerif RedisVerif.Redis

theorem get_filterK {ν : Type} (f : Nat → Bool) {m : NMap ν} (h : NMap.WF m) (k : Nat) :
    NMap.get (m.filter (fun p => f p.1)) k = if f k then NMap.get m k else none := by
  induction m with
  | nil => simp
  | cons q m ih =>
    obtain ⟨kq, vq⟩ := q
    have ⟨hlb, hw⟩ := NMap.wf_cons.mp h
    simp only [List.filter]
    by_cases hk : k = kq
    · subst hk
      cases hf : f k
      · simp only [Bool.false_eq_true, if_false]
        exact NMap.get_eq_none_of_LB (Redis.LB_filter (fun p => f p.1) hlb) (Nat.le_refl k)
      · simp [NMap.get]
    · cases hf : f kq
      · simp only [NMap.get, if_neg hk]
        exact ih hw
      · simp only [NMap.get, if_neg hk]
        exact ih hw

theorem evict_exp {c : CState} (h : CInv c) (k : Nat) :
    NMap.get (evict c).exp k = if isExpired c k then none else NMap.get c.exp k := by
  unfold evict
  simp only []
  rw [Redis.get_filter (fun d => !decide (d ≤ c.now)) h.wfe]
  unfold isExpired
  cases NMap.get c.exp k with
  | none => simp
  | some d => by_cases hd : d ≤ c.now <;> simp [Option.filter, hd]

theorem evict_data {c : CState} (h : CInv c) (k : Nat) :
    NMap.get (evict c).data k = if isExpired c k then none else NMap.get c.data k := by
  unfold evict
  simp only []
  rw [get_filterK (fun k => !isExpired c k) h.wfd]
  cases isExpired c k <;> simp

theorem evict_isExpired {c : CState} (h : CInv c) (k : Nat) : isExpired (evict c) k = false := by
  have hn : (evict c).now = c.now := rfl
  unfold isExpired
  rw [evict_exp h, hn]
  by_cases hx : isExpired c k = true
  · simp [hx]
  · have hx' : isExpired c k = false := by simpa using hx
    simp only [hx', Bool.false_eq_true, if_false]
    exact hx'

/-- `evict_expired_keys` keeps the invariant and changes nothing visible -/
theorem evict_inv {c : CState} (h : CInv c) : CInv (evict c) where
  wfd := Redis.wf_filter _ h.wfd
  wfe := Redis.wf_filter _ h.wfe
  sub := fun k hk => by
    rw [evict_exp h] at hk
    rw [evict_data h]
    by_cases hx : isExpired c k = true
    · simp [hx] at hk
    · have hx' : isExpired c k = false := by simpa using hx
      simp only [hx', Bool.false_eq_true, if_false] at hk ⊢
      exact h.sub k hk
  ok := fun p hp => h.ok p (List.mem_filter.mp hp).1
  timeOk := h.timeOk
  dlOk := fun k d hd => by
    rw [evict_exp h] at hd
    by_cases hx : isExpired c k = true
    · simp [hx] at hd
    · have hx' : isExpired c k = false := by simpa using hx
      simp only [hx', Bool.false_eq_true, if_false] at hd
      exact h.dlOk k d hd

theorem evict_absP {c : CState} (h : CInv c) : absP (evict c) = absP c := by
  apply absP_congr h.wfd (evict_inv h).wfd
  intro k
  have he : (evict c).epoch = c.epoch := rfl
  unfold entryAt absEntry
  rw [evict_isExpired h, evict_data h, evict_exp h, he]
  by_cases hx : isExpired c k = true
  · simp [hx]
  · have hx' : isExpired c k = false := by simpa using hx
    simp [hx']

/-- every entry `evict` leaves is strictly in the future: invariant 2 of `verify_invariants` -/
theorem evict_all_future {c : CState} (h : CInv c) (k d : Nat) (hd : NMap.get (evict c).exp k = some d) :
    c.now < d := by
  rw [evict_exp h] at hd
  by_cases hx : isExpired c k = true
  · simp [hx] at hd
  · have hx' : isExpired c k = false := by simpa using hx
    simp only [hx', Bool.false_eq_true, if_false] at hd
    exact notExp_lt hx' hd

theorem live_mono {now now' : Nat} (hle : now ≤ now') (e : Entry) (hl : live now' e = true) :
    live now e = true := by
  unfold live at *
  cases hd : e.dl with
  | none => rfl
  | some d =>
    rw [hd] at hl
    simp only [decide_eq_true_eq] at hl ⊢
    omega

theorem purge_purge_le (s : State) {now now' : Nat} (hle : now ≤ now') :
    purge (purge s now) now' = purge s now' := by
  unfold purge
  rw [List.filter_filter]
  apply List.filter_congr
  intro p _
  cases hl : live now' p.2
  · simp
  · simp [live_mono hle p.2 hl]

theorem abs_now (cs : CState) (t : Nat) : abs { cs with now := t } = abs cs := rfl

/-- moving the clock forward without eviction: M7's state purged at the new instant -/
theorem clockRO_absP (cs : CState) {t : Nat} (hle : cs.now ≤ t) :
    absP (updateTimeReadonly cs t) = purge (absP cs) (cs.epoch + t) := by
  unfold updateTimeReadonly absP
  rw [abs_now]
  have : unix { cs with now := t } = cs.epoch + t := rfl
  rw [this, purge_purge_le (abs cs) (by unfold unix; omega)]

theorem clockRO_inv {cs : CState} (h : CInv cs) {t : Nat} (ht : cs.epoch + t ≤ 9223372036854775807) :
    CInv (updateTimeReadonly cs t) where
  wfd := h.wfd
  wfe := h.wfe
  sub := h.sub
  ok := h.ok
  timeOk := ht
  dlOk := h.dlOk

theorem setTime_inv {cs : CState} (h : CInv cs) {t : Nat} (ht : cs.epoch + t ≤ 9223372036854775807) :
    CInv (setTime cs t) := evict_inv (clockRO_inv h ht)

theorem setTime_absP {cs : CState} (h : CInv cs) {t : Nat} (hle : cs.now ≤ t)
    (ht : cs.epoch + t ≤ 9223372036854775807) :
    absP (setTime cs t) = purge (absP cs) (cs.epoch + t) := by
  show absP (evict (updateTimeReadonly cs t)) = _
  rw [evict_absP (clockRO_inv h ht)]
  exact clockRO_absP cs hle

end RedisVerif.Executor
