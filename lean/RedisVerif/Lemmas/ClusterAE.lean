import RedisVerif.Lemmas.RegsUnique
import RedisVerif.Model.ClusterAE

/-!
The invariants of layer 1 with state transfers (`Model/ClusterAE.lean`).

* `AInv`: `RInv` (a (key, slot, stamp) triple names one register; clocks dominate) of the base
  cluster, every register held by a node or travelling in a transfer is a register of an issued
  delta, every transfer is well formed and dominated.  Independent of any key: `Compat`'s
  `RegsConsistent` half is a theorem of every execution with state transfers too.
* `JA`: the value invariant `J` of the base cluster, and every transfer for key `k` is the
  merge-fold of the deltas it carries (all of them issued deltas of `k`).
-/
namespace RedisVerif

namespace ACI
variable {α : Type} {m : α → α → α} {P : α → Prop}

/-- merging into a fold = folding from the merged seed -/
theorem merge_fold (h : ACI m P) (l : List α) (x b : α) (hx : P x) (hb : P b) (hl : ∀ a ∈ l, P a) :
    m x (l.foldl m b) = l.foldl m (m x b) := by
  induction l generalizing b with
  | nil => rfl
  | cons a l ih =>
    simp only [List.foldl_cons]
    rw [ih (m b a) (h.closed b a hb (hl a (by simp))) (fun c hc => hl c (by simp [hc])),
      h.assoc x b a hx hb (hl a (by simp))]

end ACI

namespace Cluster

/-- the fold of a concatenation is the merge of the folds -/
theorem foldOpt_append_list {K : Nat} {R : List (Nat × Lww)} (hR : RegsConsistent R)
    {l l' : List RV} (hl : ∀ a ∈ l, InCarrier K R a) (hl' : ∀ a ∈ l', InCarrier K R a) :
    foldOpt (l ++ l') = optMerge RV.merge (foldOpt l) (foldOpt l') := by
  cases l with
  | nil => cases l' <;> simp [foldOpt, optMerge]
  | cons a l =>
    cases l' with
    | nil => simp [foldOpt, optMerge]
    | cons b l' =>
      simp only [List.cons_append, foldOpt, optMerge, List.foldl_append, List.foldl_cons, Option.some.injEq]
      have hx := (aci_rv K R hR).fold_closed l a (hl a (by simp)) (fun c hc => hl c (by simp [hc]))
      rw [(aci_rv K R hR).merge_fold l' _ b hx (hl' b (by simp)) (fun c hc => hl' c (by simp [hc]))]

end Cluster

namespace ACluster
open Cluster

/-! ### registers: `AInv` -/

structure AInv (c : ACluster) : Prop where
  rinv : RInv c.base
  /-- every register a node holds is a register of an issued delta -/
  node_sub : ∀ s ∈ c.base.nodes, ∀ a ∈ shardRegs s, a ∈ sentRegs c.base
  snap_ok : ∀ sn ∈ c.snaps, sn.val.WF ∧ sn.val.Dominated ∧ ∀ a ∈ valRegs sn.key sn.val, a ∈ sentRegs c.base

theorem AInv_init (n : Nat) (causal : Bool) : AInv (init n causal) where
  rinv := RInv_init n causal
  node_sub := by
    intro s hs a ha
    simp only [init, Cluster.init, List.mem_map, List.mem_range] at hs
    obtain ⟨i, _, rfl⟩ := hs
    simp [shardRegs, Shard.init] at ha
  snap_ok := by intro sn hsn; cases hsn

theorem sentRegs_mono_step (c : Cluster) (e : Ev) : ∀ a ∈ sentRegs c, a ∈ sentRegs (c.step e) := by
  intro a ha
  simp only [sentRegs, List.mem_flatMap] at ha ⊢
  obtain ⟨m, hm, ha⟩ := ha
  exact ⟨m, sent_mono_step c e m hm, ha⟩

/-- applying ANY well-formed dominated value whose registers are registers of the cluster keeps
    `RInv` (the `deliver` case of `Lemmas/RegsUnique.lean`, for a value that need not be an issued
    delta) -/
theorem RInv_apply_value {c : Cluster} (h : RInv c) (j k : Nat) (v : RV) (s : Shard)
    (hs : c.nodes[j]? = some s) (hvw : v.WF) (hvd : v.Dominated)
    (hvr : ∀ a ∈ valRegs k v, InCluster c a) (log' : List Absorbed) :
    RInv { c with nodes := c.nodes.set j (Shard.applyRemote s k v), log := log' } := by
  have hsmem : s ∈ c.nodes := List.mem_of_getElem? hs
  have ⟨hnwf, hinv⟩ := h.wf s hsmem
  have hjlt : j < c.nodes.length := (List.getElem?_eq_some_iff.mp hs).1
  have hold : ∀ a, InCluster ({ c with nodes := c.nodes.set j (Shard.applyRemote s k v), log := log' } : Cluster) a →
      InCluster c a := by
    intro a ha
    rcases ha with ⟨s', hs', ha⟩ | ha
    · rcases mem_set hs' with h1 | h1
      · subst h1
        rcases remote_shard_regs s k v hnwf hvw hinv.1 a ha with h2 | h2
        · exact Or.inl ⟨s, hsmem, h2⟩
        · exact hvr a h2
      · exact Or.inl ⟨s', h1, ha⟩
    · exact Or.inr ha
  refine ⟨?_, ?_, ?_, ?_, h.sent_wf⟩
  · intro a b ha hb
    exact h.uniq a b (hold a ha) (hold b hb)
  · intro i s' hs' a ha hrid
    by_cases hij : i = j
    · subst hij
      rw [List.getElem?_set_self hjlt] at hs'
      cases hs'
      have := h.own i s hs a (hold a ha) (by simpa [Shard.applyRemote] using hrid)
      simp only [Shard.applyRemote, Stamp.update_time]
      have := Nat.le_max_left s.clock.time v.ts.time
      omega
    · rw [List.getElem?_set_ne (Ne.symm hij)] at hs'
      exact h.own i s' hs' a (hold a ha) hrid
  · intro i s' hs'
    by_cases hij : i = j
    · subst hij
      rw [List.getElem?_set_self hjlt] at hs'
      cases hs'
      have := h.rids i s hs
      simp [Shard.applyRemote, this.1, this.2]
    · rw [List.getElem?_set_ne (Ne.symm hij)] at hs'
      exact h.rids i s' hs'
  · intro s' hs'
    rcases mem_set hs' with h1 | h1
    · subst h1
      exact ⟨Shard.nodewf_remote s k v hnwf hvw, C08.inv_remote s k v hinv hvd⟩
    · exact h.wf s' h1

/-- a base step keeps "node registers are registers of issued deltas" -/
theorem node_sub_step {c : Cluster} (h : RInv c)
    (hn : ∀ s ∈ c.nodes, ∀ a ∈ shardRegs s, a ∈ sentRegs c) (e : Ev) :
    ∀ s ∈ (c.step e).nodes, ∀ a ∈ shardRegs s, a ∈ sentRegs (c.step e) := by
  cases e with
  | loc i op =>
    cases hs : c.nodes[i]? with
    | none => simp only [Cluster.step, hs]; exact hn
    | some s =>
      have hsmem : s ∈ c.nodes := List.mem_of_getElem? hs
      have ⟨hnwf, hinv⟩ := h.wf s hsmem
      cases hd : (Shard.step s op.toOp).2 with
      | none =>
        have hsame := Shard.local_none s op hd
        simp only [Cluster.step, hs, hd, hsame]
        intro s' hs' a ha
        rcases mem_set hs' with h1 | h1
        · subst h1; exact hn _ hsmem a ha
        · exact hn _ h1 a ha
      | some d =>
        simp only [Cluster.step, hs, hd]
        intro s' hs' a ha
        simp only [sentRegs, List.flatMap_append, List.mem_append, List.flatMap_cons, List.flatMap_nil,
          List.append_nil]
        rcases mem_set hs' with h1 | h1
        · subst h1
          obtain ⟨v, hv, hsl⟩ := mem_shardRegs.mp ha
          have hinv' : (Shard.step s op.toOp).1.Inv := C08.inv_step s op.toOp hinv (by cases op <;> trivial)
          have hg := NMap.get_of_mem hinv'.1 hv
          simp only at hg
          by_cases hk : a.1 = op.key
          · rw [hk, Shard.local_get s op d hd] at hg
            have hvd : v = d := (Option.some.inj hg).symm
            subst hvd
            exact Or.inr (mem_valRegs.mpr ⟨hk, hsl⟩)
          · rw [Shard.keys_step_other s op a.1 hk] at hg
            exact Or.inl (hn _ hsmem a (mem_shardRegs.mpr ⟨v, NMap.mem_of_get hg, hsl⟩))
        · exact Or.inl (hn _ h1 a ha)
  | deliver j idx =>
    cases hs : c.nodes[j]? with
    | none => simp only [Cluster.step, hs]; exact hn
    | some s =>
      cases hm : c.sent[idx]? with
      | none => simp only [Cluster.step, hs, hm]; exact hn
      | some m =>
        simp only [Cluster.step, hs, hm]
        have hsmem : s ∈ c.nodes := List.mem_of_getElem? hs
        have hmmem : m ∈ c.sent := List.mem_of_getElem? hm
        have ⟨hnwf, hinv⟩ := h.wf s hsmem
        intro s' hs' a ha
        show a ∈ sentRegs c
        rcases mem_set hs' with h1 | h1
        · subst h1
          rcases remote_shard_regs s m.key m.val hnwf (h.sent_wf m hmmem).1 hinv.1 a ha with h2 | h2
          · exact hn _ hsmem a h2
          · simp only [sentRegs, List.mem_flatMap]
            exact ⟨m, hmmem, h2⟩
        · exact hn _ h1 a ha

theorem AInv_step {c : ACluster} (h : AInv c) (e : AEv) : AInv (c.step e) := by
  cases e with
  | ev e =>
    refine ⟨?_, node_sub_step h.rinv h.node_sub e, ?_⟩
    · cases e with
      | loc i op => exact RInv_step_loc h.rinv i op
      | deliver j idx => exact RInv_step_deliver h.rinv j idx
    · intro sn hsn
      obtain ⟨h1, h2, h3⟩ := h.snap_ok sn hsn
      exact ⟨h1, h2, fun a ha => sentRegs_mono_step c.base e a (h3 a ha)⟩
  | snapshot i k =>
    cases hs : c.base.nodes[i]? with
    | none => simp only [step, hs]; exact h
    | some s =>
      cases hg : NMap.get s.keys k with
      | none => simp only [step, hs, hg]; exact h
      | some v =>
        simp only [step, hs, hg]
        have hsmem : s ∈ c.base.nodes := List.mem_of_getElem? hs
        have ⟨hnwf, hinv⟩ := h.rinv.wf s hsmem
        have hvmem := NMap.mem_of_get hg
        refine ⟨h.rinv, h.node_sub, ?_⟩
        intro sn hsn
        rcases List.mem_append.mp hsn with h1 | h1
        · exact h.snap_ok sn h1
        · simp only [List.mem_singleton] at h1
          subst h1
          refine ⟨hnwf.2 _ hvmem, (hinv.2 _ hvmem).2, ?_⟩
          intro a ha
          have := mem_valRegs.mp ha
          exact h.node_sub s hsmem a (mem_shardRegs.mpr ⟨v, by rw [this.1]; exact hvmem, this.2⟩)
  | applySnap j idx =>
    cases hs : c.base.nodes[j]? with
    | none => simp only [step, hs]; exact h
    | some s =>
      cases hn : c.snaps[idx]? with
      | none => simp only [step, hs, hn]; exact h
      | some sn =>
        simp only [step, hs, hn]
        have hsmem : s ∈ c.base.nodes := List.mem_of_getElem? hs
        have ⟨hnwf, hinv⟩ := h.rinv.wf s hsmem
        obtain ⟨hvw, hvd, hvr⟩ := h.snap_ok sn (List.mem_of_getElem? hn)
        refine ⟨RInv_apply_value h.rinv j sn.key sn.val s hs hvw hvd (fun a ha => Or.inr (hvr a ha)) _, ?_, ?_⟩
        · intro s' hs' a ha
          show a ∈ sentRegs c.base
          rcases mem_set hs' with h1 | h1
          · subst h1
            rcases remote_shard_regs s sn.key sn.val hnwf hvw hinv.1 a ha with h2 | h2
            · exact h.node_sub _ hsmem a h2
            · exact hvr a h2
          · exact h.node_sub _ h1 a ha
        · exact h.snap_ok

theorem AInv_run (c : ACluster) (evs : List AEv) (h : AInv c) : AInv (c.run evs) := by
  induction evs generalizing c with
  | nil => exact h
  | cons e evs ih => exact ih (c.step e) (AInv_step h e)

/-- **a (key, slot, stamp) triple identifies one register** in every execution with state
    transfers -/
theorem regs_consistent_of_runA (n : Nat) (causal : Bool) (evs : List AEv) (k : Nat) :
    RegsConsistent (regsOf ((init n causal).run evs).base.sent k) := by
  have h := (AInv_run _ evs (AInv_init n causal)).rinv
  intro p hp q hq hsl hts
  simp only [regsOf, List.mem_flatMap, List.mem_filter, decide_eq_true_eq] at hp hq
  obtain ⟨m1, ⟨hm1, hk1⟩, hs1⟩ := hp
  obtain ⟨m2, ⟨hm2, hk2⟩, hs2⟩ := hq
  have hin : ∀ (m : Msg) (x : Nat × Lww), m ∈ ((init n causal).run evs).base.sent → m.key = k →
      x ∈ m.val.crdt.slots → InCluster ((init n causal).run evs).base (k, x.1, x.2) := by
    intro m x hm hk hx
    right
    simp only [sentRegs, List.mem_flatMap]
    exact ⟨m, hm, mem_valRegs.mpr ⟨hk.symm, hx⟩⟩
  exact h.uniq (k, p.1, p.2) (k, q.1, q.2) (hin m1 p hm1 hk1 hs1) (hin m2 q hm2 hk2 hs2) rfl hsl hts

theorem sent_wf_of_runA (n : Nat) (causal : Bool) (evs : List AEv) :
    ∀ m ∈ ((init n causal).run evs).base.sent, m.val.WF :=
  fun m hm => ((AInv_run _ evs (AInv_init n causal)).rinv.sent_wf m hm).1

/-! ### values: `JA` -/

structure JA (U : List Msg) (k K : Nat) (c : ACluster) : Prop where
  base : J U k K c.base
  snap_ok : ∀ sn ∈ c.snaps, sn.val.Dominated ∧ sn.val.WF ∧
    (∀ v ∈ sn.carried, ∃ m ∈ c.base.sent, m.key = sn.key ∧ m.val = v) ∧
    (sn.key = k → foldOpt (sn.carried.map RV.strip) = some sn.val.strip)

theorem JA_init (U : List Msg) (k K n : Nat) (causal : Bool) : JA U k K (init n causal) :=
  ⟨J_init U k K n causal, by intro sn hsn; cases hsn⟩

theorem absorbed_eq_carried (c : Cluster) (i k : Nat) :
    absorbed c i k = (carriedOf c.log i k).map RV.strip := by
  simp only [absorbed, carriedOf, List.map_map]
  induction c.log with
  | nil => rfl
  | cons a l ih =>
    simp only [List.filterMap_cons, List.filter_cons]
    by_cases hc : a.node = i ∧ a.key = k
    · simp [hc, ih]
    · simp [hc, ih]

theorem absorbed_append_list (c : Cluster) (j k' i k : Nat) (vs : List RV) (nodes' : List Shard) :
    absorbed { c with nodes := nodes', log := c.log ++ vs.map (fun v => ⟨j, k', v⟩) } i k =
      if j = i ∧ k' = k then absorbed c i k ++ vs.map RV.strip else absorbed c i k := by
  simp only [absorbed, List.filterMap_append, List.filterMap_map]
  by_cases hc : j = i ∧ k' = k
  · simp only [hc, and_self, if_true]
    congr 1
    induction vs with
    | nil => rfl
    | cons v vs ih => simp [List.filterMap_cons, hc, ih]
  · simp only [hc, if_false]
    have : List.filterMap ((fun a : Absorbed => if a.node = i ∧ a.key = k then some a.val.strip else none) ∘
        fun v => (⟨j, k', v⟩ : Absorbed)) vs = [] := by
      induction vs with
      | nil => rfl
      | cons v vs ih => simp [List.filterMap_cons, hc, ih]
    rw [this, List.append_nil]

theorem JA_step {U : List Msg} {k K : Nat} {c : ACluster} (hc : Compat U k K) (hj : JA U k K c)
    (e : AEv) (hsub : ∀ m ∈ (c.step e).base.sent, m ∈ U) : JA U k K (c.step e) := by
  cases e with
  | ev e =>
    refine ⟨?_, ?_⟩
    · cases e with
      | loc i op => exact J_step_loc hc hj.base i op hsub
      | deliver j idx => exact J_step_deliver hj.base j idx
    · intro sn hsn
      obtain ⟨h1, h2, h3, h4⟩ := hj.snap_ok sn hsn
      refine ⟨h1, h2, ?_, h4⟩
      intro v hv
      obtain ⟨m, hm, hmk, hmv⟩ := h3 v hv
      exact ⟨m, sent_mono_step c.base e m hm, hmk, hmv⟩
  | snapshot i k' =>
    cases hs : c.base.nodes[i]? with
    | none => simp only [step, hs]; exact hj
    | some s =>
      cases hg : NMap.get s.keys k' with
      | none => simp only [step, hs, hg]; exact hj
      | some v =>
        simp only [step, hs, hg]
        have hsmem : s ∈ c.base.nodes := List.mem_of_getElem? hs
        have ⟨hinv, _, hnwf, _⟩ := hj.base.nodes_inv s hsmem
        have hvmem := NMap.mem_of_get hg
        refine ⟨hj.base, ?_⟩
        intro sn hsn
        rcases List.mem_append.mp hsn with h1 | h1
        · exact hj.snap_ok sn h1
        · simp only [List.mem_singleton] at h1
          subst h1
          refine ⟨(hinv.2 _ hvmem).2, hnwf.2 _ hvmem, ?_, ?_⟩
          · intro w hw
            simp only [carriedOf, List.mem_map, List.mem_filter, decide_eq_true_eq] at hw
            obtain ⟨a, ⟨ha, hcond⟩, rfl⟩ := hw
            obtain ⟨m, hm, hmk, hmv⟩ := hj.base.log_sent a ha
            exact ⟨m, hm, by rw [hmk]; exact hcond.2, hmv⟩
          · intro hk
            simp only at hk
            subst hk
            rw [← absorbed_eq_carried, ← hj.base.value i s hs, hg]
            rfl
  | applySnap j idx =>
    cases hs : c.base.nodes[j]? with
    | none => simp only [step, hs]; exact hj
    | some s =>
      cases hn : c.snaps[idx]? with
      | none => simp only [step, hs, hn]; exact hj
      | some sn =>
        simp only [step, hs, hn]
        have hsmem : s ∈ c.base.nodes := List.mem_of_getElem? hs
        have ⟨hinv, hinv2, hnwf, hrid⟩ := hj.base.nodes_inv s hsmem
        obtain ⟨hvd, hvw, hcar, hfold⟩ := hj.snap_ok sn (List.mem_of_getElem? hn)
        refine ⟨⟨?_, hj.base.sent_ok, ?_, ?_, hj.base.sub⟩, hj.snap_ok⟩
        · intro s' hs'
          rcases mem_set hs' with h | h
          · subst h
            exact ⟨C08.inv_remote s sn.key sn.val hinv hvd, Shard.inv2_remote s sn.key sn.val hinv,
              Shard.nodewf_remote s sn.key sn.val hnwf hvw, by simp [Shard.applyRemote, hrid]⟩
          · exact hj.base.nodes_inv _ h
        · intro i' s' hs'
          rw [absorbed_append_list c.base j sn.key i' k sn.carried]
          by_cases hii : i' = j
          · subst hii
            have hlt : i' < c.base.nodes.length := (List.getElem?_eq_some_iff.mp hs).1
            rw [List.getElem?_set_self hlt] at hs'
            cases hs'
            have hval := hj.base.value i' s hs
            by_cases hkk : sn.key = k
            · simp only [hkk, and_self, if_true]
              have hcarC : ∀ a ∈ sn.carried.map RV.strip, InCarrier K (regsOf U k) a := by
                intro a ha
                simp only [List.mem_map] at ha
                obtain ⟨w, hw, rfl⟩ := ha
                obtain ⟨m, hm, hmk, hmv⟩ := hcar w hw
                rw [← hmv]
                exact strip_carrier (compat_carrier hc (hj.base.sub m hm) (by rw [hmk]; exact hkk))
              rw [foldOpt_append_list hc.1 (absorbed_in_carrier hc hj.base i') hcarC, ← hval, hfold hkk]
              simp only [Shard.applyRemote, hkk]
              rw [NMap.get_insert]
              simp only [if_true]
              cases hgo : NMap.get s.keys k with
              | none => rfl
              | some l => simp [strip_merge, optMerge]
            · have : ¬ (True ∧ sn.key = k) := fun h => hkk h.2
              simp only [this, if_false]
              simp only [Shard.applyRemote]
              rw [NMap.get_insert]
              simp only [Ne.symm hkk, if_false]
              exact hval
          · have : ¬ (j = i' ∧ sn.key = k) := fun h => hii h.1.symm
            simp only [this, if_false]
            rw [List.getElem?_set_ne (Ne.symm hii)] at hs'
            exact hj.base.value i' s' hs'
        · intro a ha
          rcases List.mem_append.mp ha with h | h
          · exact hj.base.log_sent a h
          · simp only [List.mem_map] at h
            obtain ⟨w, hw, rfl⟩ := h
            exact hcar w hw

theorem sent_mono_stepA (c : ACluster) (e : AEv) : ∀ m ∈ c.base.sent, m ∈ (c.step e).base.sent := by
  intro m hm
  cases e with
  | ev e => exact sent_mono_step c.base e m hm
  | snapshot i k =>
    simp only [step]
    split
    · exact hm
    · split <;> exact hm
  | applySnap j idx =>
    simp only [step]
    split <;> exact hm

theorem sent_mono_runA (c : ACluster) (evs : List AEv) : ∀ m ∈ c.base.sent, m ∈ (c.run evs).base.sent := by
  induction evs generalizing c with
  | nil => intro m hm; exact hm
  | cons e evs ih =>
    intro m hm
    exact ih (c.step e) m (sent_mono_stepA c e m hm)

theorem JA_run {U : List Msg} {k K : Nat} (hc : Compat U k K) (c : ACluster) (evs : List AEv)
    (hj : JA U k K c) (hsub : ∀ m ∈ (c.run evs).base.sent, m ∈ U) : JA U k K (c.run evs) := by
  induction evs generalizing c with
  | nil => exact hj
  | cons e evs ih =>
    have hsub' : ∀ m ∈ (c.step e).base.sent, m ∈ U :=
      fun m hm => hsub m (sent_mono_runA (c.step e) evs m hm)
    exact ih (c.step e) (JA_step hc hj e hsub') hsub

/-- a node has absorbed every delta it issued itself -/
theorem sentLog_stepA {c : ACluster} (h : SentLog c.base) (e : AEv) : SentLog (c.step e).base := by
  cases e with
  | ev e => exact sentLog_step h e
  | snapshot i k =>
    simp only [step]
    split
    · exact h
    · split <;> exact h
  | applySnap j idx =>
    simp only [step]
    split
    · intro m hm; exact List.mem_append_left _ (h m hm)
    · exact h

theorem sentLog_runA (c : ACluster) (evs : List AEv) (h : SentLog c.base) : SentLog (c.run evs).base := by
  induction evs generalizing c with
  | nil => exact h
  | cons e evs ih => exact ih (c.step e) (sentLog_stepA h e)

end ACluster
end RedisVerif
