import RedisVerif.Model.NMap

/-! Helper lemmas about canonical Nat-keyed maps and sets. -/
namespace RedisVerif
namespace NMap
variable {ν : Type}

/-- every key of `m` is greater than `k` -/
def LB (k : Nat) (m : NMap ν) : Prop := ∀ p ∈ m, k < p.1

theorem wf_cons {p : Nat × ν} {m : NMap ν} : WF (p :: m) ↔ LB p.1 m ∧ WF m := by
  unfold WF LB; simp [List.pairwise_cons]

theorem wf_nil : WF ([] : NMap ν) := by unfold WF; simp

theorem LB.mono {k k' : Nat} {m : NMap ν} (h : LB k m) (hk : k' ≤ k) : LB k' m :=
  fun p hp => Nat.lt_of_le_of_lt hk (h p hp)

theorem get_eq_none_of_LB {k k' : Nat} {m : NMap ν} (h : LB k m) (hk : k' ≤ k) :
    get m k' = none := by
  induction m with
  | nil => rfl
  | cons p m ih =>
    obtain ⟨kp, vp⟩ := p
    have h1 : k < kp := h (kp, vp) (by simp)
    have h2 : LB k m := fun q hq => h q (by simp [hq])
    simp only [get]
    rw [if_neg (by omega)]
    exact ih h2

theorem LB_of_get {k : Nat} {m : NMap ν} (hwf : WF m)
    (h : ∀ k', k' ≤ k → get m k' = none) : LB k m := by
  induction m with
  | nil => intro p hp; cases hp
  | cons p m ih =>
    obtain ⟨kp, vp⟩ := p
    have ⟨hlb, hwf'⟩ := wf_cons.mp hwf
    have hk : k < kp := by
      apply Decidable.byContradiction
      intro hc
      have := h kp (by omega)
      simp [get] at this
    intro q hq
    cases hq with
    | head => exact hk
    | tail _ hq' => exact Nat.lt_trans hk (hlb q hq')

@[simp] theorem get_nil (k : Nat) : get ([] : NMap ν) k = none := rfl

theorem get_cons (p : Nat × ν) (m : NMap ν) (k : Nat) :
    get (p :: m) k = if k = p.1 then some p.2 else get m k := by
  obtain ⟨kp, vp⟩ := p; rfl

/-- canonical maps are equal iff they agree on every lookup -/
theorem ext {a b : NMap ν} (ha : WF a) (hb : WF b) (h : ∀ k, get a k = get b k) : a = b := by
  induction a generalizing b with
  | nil =>
    cases b with
    | nil => rfl
    | cons q b =>
      have := h q.1
      simp [get_cons] at this
  | cons p a ih =>
    cases b with
    | nil =>
      have := h p.1
      simp [get_cons] at this
    | cons q b =>
      obtain ⟨kp, vp⟩ := p
      obtain ⟨kq, vq⟩ := q
      have ⟨hlba, hwa⟩ := wf_cons.mp ha
      have ⟨hlbb, hwb⟩ := wf_cons.mp hb
      have hkeq : kp = kq := by
        apply Decidable.byContradiction
        intro hne
        rcases Nat.lt_or_gt_of_ne hne with hlt | hgt
        · have h1 := h kp
          rw [get_cons, get_cons] at h1
          simp only [if_true] at h1
          rw [if_neg (by simpa using hne)] at h1
          rw [get_eq_none_of_LB hlbb (Nat.le_of_lt hlt)] at h1
          cases h1
        · have h1 := h kq
          rw [get_cons, get_cons] at h1
          simp only [if_true] at h1
          rw [if_neg (by omega)] at h1
          rw [get_eq_none_of_LB hlba (Nat.le_of_lt hgt)] at h1
          cases h1
      subst hkeq
      have hv : vp = vq := by
        have h1 := h kp
        simp [get_cons] at h1
        exact h1
      subst hv
      congr 1
      apply ih hwa hwb
      intro k
      have h1 := h k
      rw [get_cons, get_cons] at h1
      by_cases hk : k = kp
      · subst hk
        rw [get_eq_none_of_LB hlba (Nat.le_refl _), get_eq_none_of_LB hlbb (Nat.le_refl _)]
      · simpa [hk] using h1

/-! ### insertWith / merge -/

theorem LB_insertWith {f : ν → ν → ν} {k k' : Nat} {v : ν} {m : NMap ν} (h : LB k m)
    (hk : k < k') : LB k (insertWith f k' v m) := by
  induction m with
  | nil => intro p hp; simp [insertWith] at hp; subst hp; exact hk
  | cons q m ih =>
    obtain ⟨kq, vq⟩ := q
    have hq : k < kq := h (kq, vq) (by simp)
    have hm : LB k m := fun p hp => h p (by simp [hp])
    simp only [insertWith]
    split
    · intro p hp
      cases hp with
      | head => exact hk
      | tail _ hp' => exact h p hp'
    · split
      · intro p hp
        cases hp with
        | head => exact hk
        | tail _ hp' => exact hm p hp'
      · intro p hp
        cases hp with
        | head => exact hq
        | tail _ hp' => exact ih hm p hp'

theorem wf_insertWith {f : ν → ν → ν} {k : Nat} {v : ν} {m : NMap ν} (h : WF m) :
    WF (insertWith f k v m) := by
  induction m with
  | nil => simp [insertWith, WF]
  | cons q m ih =>
    obtain ⟨kq, vq⟩ := q
    have ⟨hlb, hw⟩ := wf_cons.mp h
    simp only [insertWith]
    split
    · rename_i hlt
      refine wf_cons.mpr ⟨?_, h⟩
      intro p hp
      cases hp with
      | head => exact hlt
      | tail _ hp' => exact Nat.lt_trans hlt (hlb p hp')
    · split
      · rename_i _ heq
        subst heq
        exact wf_cons.mpr ⟨hlb, hw⟩
      · rename_i hnlt hne
        exact wf_cons.mpr ⟨LB_insertWith hlb (by omega), ih hw⟩

theorem get_insertWith {f : ν → ν → ν} {k : Nat} {v : ν} {m : NMap ν} (h : WF m) (k' : Nat) :
    get (insertWith f k v m) k' =
      if k' = k then some (match get m k with | some o => f v o | none => v) else get m k' := by
  induction m with
  | nil => simp [insertWith, get]
  | cons q m ih =>
    obtain ⟨kq, vq⟩ := q
    have ⟨hlb, hw⟩ := wf_cons.mp h
    simp only [insertWith]
    split
    · rename_i hlt
      have hnone : get ((kq, vq) :: m) k = none :=
        get_eq_none_of_LB (k := k) (by
          intro p hp
          cases hp with
          | head => exact hlt
          | tail _ hp' => exact Nat.lt_trans hlt (hlb p hp')) (Nat.le_refl _)
      rw [hnone]
      simp only [get]
    · split
      · rename_i _ heq
        subst heq
        simp only [get, if_true]
        split <;> rfl
      · rename_i hnlt hne
        simp only [get]
        rw [ih hw, if_neg hne]
        by_cases h1 : k' = kq
        · subst h1
          have : ¬ k' = k := fun h => hne h.symm
          simp [this]
        · simp [h1]

theorem merge_nil_left (f : ν → ν → ν) (b : NMap ν) : merge f [] b = b := rfl

theorem merge_cons (f : ν → ν → ν) (p : Nat × ν) (a b : NMap ν) :
    merge f (p :: a) b = insertWith f p.1 p.2 (merge f a b) := rfl

theorem LB_merge {f : ν → ν → ν} {k : Nat} {a b : NMap ν} (ha : LB k a) (hb : LB k b) :
    LB k (merge f a b) := by
  induction a with
  | nil => exact hb
  | cons p a ih =>
    rw [merge_cons]
    exact LB_insertWith (ih (fun q hq => ha q (by simp [hq]))) (ha p (by simp))

theorem wf_merge' {f : ν → ν → ν} (a : NMap ν) {b : NMap ν} (hb : WF b) :
    WF (merge f a b) := by
  induction a with
  | nil => exact hb
  | cons p a ih => rw [merge_cons]; exact wf_insertWith ih

theorem wf_merge {f : ν → ν → ν} {a b : NMap ν} (_ha : WF a) (hb : WF b) :
    WF (merge f a b) := wf_merge' a hb

theorem get_merge {f : ν → ν → ν} {a b : NMap ν} (ha : WF a) (hb : WF b) (k : Nat) :
    get (merge f a b) k = optMerge f (get a k) (get b k) := by
  induction a with
  | nil => rw [merge_nil_left]; simp [optMerge]; cases get b k <;> rfl
  | cons p a ih =>
    obtain ⟨k1, v1⟩ := p
    have ⟨hlba, hwa⟩ := wf_cons.mp ha
    have ih1 := ih hwa
    have hn : get a k1 = none := get_eq_none_of_LB hlba (Nat.le_refl _)
    have ih2 : get (merge f a b) k1 = optMerge f (get a k1) (get b k1) := by
      clear ih1 ih
      induction a with
      | nil => simp [merge_nil_left, optMerge]; cases get b k1 <;> rfl
      | cons q a iha =>
        obtain ⟨kq, vq⟩ := q
        have ⟨hlbq, hwq⟩ := wf_cons.mp hwa
        have hkq : k1 < kq := hlba (kq, vq) (by simp)
        have hlba' : LB k1 a := fun r hr => hlba r (by simp [hr])
        rw [merge_cons, get_insertWith (wf_merge' a hb), get_cons]
        have : ¬ k1 = kq := by omega
        simp only [this, if_false]
        have hn' : get a k1 = none := get_eq_none_of_LB hlba' (Nat.le_refl _)
        have := iha (wf_cons.mpr ⟨hlba', hwq⟩) hlba' hwq hn'
        rw [this, hn']
    rw [merge_cons, get_insertWith (wf_merge' a hb), ih1, ih2, get_cons]
    by_cases hk : k = k1
    · subst hk
      simp only [if_true, hn]
      cases get b k <;> simp [optMerge]
    · simp [hk]

theorem merge_nil_right (f : ν → ν → ν) {a : NMap ν} (ha : WF a) : merge f a [] = a := by
  apply ext (wf_merge ha wf_nil) ha
  intro k
  rw [get_merge ha wf_nil]
  cases get a k <;> rfl

/-- a predicate on values closed under `f` holds of every value of a merge -/
theorem merge_forall {f : ν → ν → ν} {P : ν → Prop} {a b : NMap ν}
    (hf : ∀ x y, P x → P y → P (f x y))
    (ha : ∀ p ∈ a, P p.2) (hb : ∀ p ∈ b, P p.2) : ∀ p ∈ merge f a b, P p.2 := by
  induction a with
  | nil => exact hb
  | cons q a ih =>
    rw [merge_cons]
    have hq : P q.2 := ha q (by simp)
    have hm := ih (fun p hp => ha p (by simp [hp]))
    generalize merge f a b = m at hm
    induction m with
    | nil => intro p hp; simp [insertWith] at hp; subst hp; exact hq
    | cons r m ihm =>
      obtain ⟨kr, vr⟩ := r
      simp only [insertWith]
      split
      · intro p hp
        cases hp with
        | head => exact hq
        | tail _ hp' => exact hm p hp'
      · split
        · intro p hp
          cases hp with
          | head => exact hf _ _ hq (hm (kr, vr) (by simp))
          | tail _ hp' => exact hm p (List.mem_cons_of_mem _ hp')
        · intro p hp
          cases hp with
          | head => exact hm (kr, vr) (by simp)
          | tail _ hp' => exact ihm (fun p hp => hm p (by simp [hp])) p hp'

/-! ### algebraic laws of `merge`, pointwise in the value laws -/

theorem optMerge_comm {f : ν → ν → ν} {x y : Option ν}
    (h : ∀ u v, x = some u → y = some v → f u v = f v u) :
    optMerge f x y = optMerge f y x := by
  cases x <;> cases y <;> simp [optMerge]
  exact h _ _ rfl rfl

theorem optMerge_idem {f : ν → ν → ν} {x : Option ν}
    (h : ∀ u, x = some u → f u u = u) : optMerge f x x = x := by
  cases x <;> simp [optMerge]
  exact h _ rfl

theorem optMerge_assoc {f : ν → ν → ν} {x y z : Option ν}
    (h : ∀ u v w, x = some u → y = some v → z = some w → f u (f v w) = f (f u v) w) :
    optMerge f x (optMerge f y z) = optMerge f (optMerge f x y) z := by
  cases x <;> cases y <;> cases z <;> simp [optMerge]
  exact h _ _ _ rfl rfl rfl

theorem merge_comm {f : ν → ν → ν} {a b : NMap ν} (ha : WF a) (hb : WF b)
    (h : ∀ k u v, get a k = some u → get b k = some v → f u v = f v u) :
    merge f a b = merge f b a := by
  apply ext (wf_merge ha hb) (wf_merge hb ha)
  intro k
  rw [get_merge ha hb, get_merge hb ha]
  exact optMerge_comm (h k)

theorem merge_idem {f : ν → ν → ν} {a : NMap ν} (ha : WF a)
    (h : ∀ k u, get a k = some u → f u u = u) : merge f a a = a := by
  apply ext (wf_merge ha ha) ha
  intro k
  rw [get_merge ha ha]
  exact optMerge_idem (h k)

theorem merge_assoc {f : ν → ν → ν} {a b c : NMap ν} (ha : WF a) (hb : WF b) (hc : WF c)
    (h : ∀ k u v w, get a k = some u → get b k = some v → get c k = some w →
      f u (f v w) = f (f u v) w) :
    merge f a (merge f b c) = merge f (merge f a b) c := by
  apply ext (wf_merge ha (wf_merge hb hc)) (wf_merge (wf_merge ha hb) hc)
  intro k
  rw [get_merge ha (wf_merge hb hc), get_merge hb hc, get_merge (wf_merge ha hb) hc,
    get_merge ha hb]
  exact optMerge_assoc (h k)

/-! ### insert / erase -/

theorem LB_insert {k k' : Nat} {v : ν} {m : NMap ν} (h : LB k m) (hk : k < k') :
    LB k (insert k' v m) := by
  induction m with
  | nil => intro p hp; simp [insert] at hp; subst hp; exact hk
  | cons q m ih =>
    obtain ⟨kq, vq⟩ := q
    have hq : k < kq := h (kq, vq) (by simp)
    have hm : LB k m := fun p hp => h p (by simp [hp])
    simp only [insert]
    split
    · intro p hp
      cases hp with
      | head => exact hk
      | tail _ hp' => exact h p hp'
    · split
      · intro p hp
        cases hp with
        | head => exact hk
        | tail _ hp' => exact hm p hp'
      · intro p hp
        cases hp with
        | head => exact hq
        | tail _ hp' => exact ih hm p hp'

theorem wf_insert {k : Nat} {v : ν} {m : NMap ν} (h : WF m) : WF (insert k v m) := by
  induction m with
  | nil => simp [insert, WF]
  | cons q m ih =>
    obtain ⟨kq, vq⟩ := q
    have ⟨hlb, hw⟩ := wf_cons.mp h
    simp only [insert]
    split
    · rename_i hlt
      refine wf_cons.mpr ⟨?_, h⟩
      intro p hp
      cases hp with
      | head => exact hlt
      | tail _ hp' => exact Nat.lt_trans hlt (hlb p hp')
    · split
      · rename_i _ heq
        subst heq
        exact wf_cons.mpr ⟨hlb, hw⟩
      · rename_i hnlt hne
        exact wf_cons.mpr ⟨LB_insert hlb (by omega), ih hw⟩

theorem get_insert {k : Nat} {v : ν} {m : NMap ν} (k' : Nat) :
    get (insert k v m) k' = if k' = k then some v else get m k' := by
  induction m with
  | nil => simp [insert, get]
  | cons q m ih =>
    obtain ⟨kq, vq⟩ := q
    simp only [insert]
    split
    · simp [get]
    · split
      · rename_i _ heq
        subst heq
        simp only [get]
        split <;> rfl
      · rename_i hnlt hne
        simp only [get]
        rw [ih]
        by_cases h1 : k' = kq
        · subst h1
          have : ¬ k' = k := fun h => hne h.symm
          simp [this]
        · simp [h1]

theorem mem_insert {k : Nat} {v : ν} {m : NMap ν} {p : Nat × ν} (h : p ∈ insert k v m) :
    p = (k, v) ∨ p ∈ m := by
  induction m with
  | nil => simp [insert] at h; exact Or.inl h
  | cons q m ih =>
    obtain ⟨kq, vq⟩ := q
    simp only [insert] at h
    split at h
    · cases h with
      | head => exact Or.inl rfl
      | tail _ h' => exact Or.inr h'
    · split at h
      · cases h with
        | head => exact Or.inl rfl
        | tail _ h' => exact Or.inr (List.mem_cons_of_mem _ h')
      · cases h with
        | head => exact Or.inr (by simp)
        | tail _ h' =>
          rcases ih h' with h1 | h1
          · exact Or.inl h1
          · exact Or.inr (List.mem_cons_of_mem _ h1)

theorem get_of_mem {m : NMap ν} (hwf : WF m) {p : Nat × ν} (hp : p ∈ m) :
    get m p.1 = some p.2 := by
  induction m with
  | nil => cases hp
  | cons q m ih =>
    have ⟨hlb, hw⟩ := wf_cons.mp hwf
    rw [get_cons]
    cases hp with
    | head => simp
    | tail _ hp' =>
      have : q.1 < p.1 := hlb p hp'
      rw [if_neg (by omega)]
      exact ih hw hp'

theorem mem_of_get {m : NMap ν} {k : Nat} {v : ν} (h : get m k = some v) : (k, v) ∈ m := by
  induction m with
  | nil => simp at h
  | cons q m ih =>
    rw [get_cons] at h
    split at h
    · rename_i hk
      cases h
      obtain ⟨kq, vq⟩ := q
      simp at hk
      subst hk
      simp
    · exact List.mem_cons_of_mem _ (ih h)

/-- where the entries of a merge come from -/
theorem mem_merge {f : ν → ν → ν} {a b : NMap ν} (ha : WF a) (hb : WF b) {p : Nat × ν}
    (hp : p ∈ merge f a b) :
    (p ∈ a ∧ get b p.1 = none) ∨ (p ∈ b ∧ get a p.1 = none) ∨
      ∃ x y, (p.1, x) ∈ a ∧ (p.1, y) ∈ b ∧ p.2 = f x y := by
  have hg := get_of_mem (wf_merge ha hb) hp
  rw [get_merge ha hb] at hg
  cases hga : get a p.1 <;> cases hgb : get b p.1 <;> simp [hga, hgb, optMerge] at hg
  · right; left
    refine ⟨?_, rfl⟩
    have := mem_of_get hgb
    rw [hg] at this; exact this
  · left
    refine ⟨?_, rfl⟩
    have := mem_of_get hga
    rw [hg] at this; exact this
  · right; right
    exact ⟨_, _, mem_of_get hga, mem_of_get hgb, hg.symm⟩

theorem LB_erase {k k' : Nat} {m : NMap ν} (h : LB k m) : LB k (erase k' m) := by
  induction m with
  | nil => simpa [erase] using h
  | cons q m ih =>
    obtain ⟨kq, vq⟩ := q
    have hm : LB k m := fun p hp => h p (by simp [hp])
    simp only [erase]
    split
    · exact hm
    · intro p hp
      cases hp with
      | head => exact h (kq, vq) (by simp)
      | tail _ hp' => exact ih hm p hp'

theorem wf_erase {k : Nat} {m : NMap ν} (h : WF m) : WF (erase k m) := by
  induction m with
  | nil => simpa [erase] using h
  | cons q m ih =>
    obtain ⟨kq, vq⟩ := q
    have ⟨hlb, hw⟩ := wf_cons.mp h
    simp only [erase]
    split
    · exact hw
    · exact wf_cons.mpr ⟨LB_erase hlb, ih hw⟩

theorem get_erase {k : Nat} {m : NMap ν} (h : WF m) (k' : Nat) :
    get (erase k m) k' = if k' = k then none else get m k' := by
  induction m with
  | nil => simp [erase]
  | cons q m ih =>
    obtain ⟨kq, vq⟩ := q
    have ⟨hlb, hw⟩ := wf_cons.mp h
    simp only [erase]
    split
    · rename_i heq
      subst heq
      by_cases h1 : k' = k
      · subst h1
        simp [get_eq_none_of_LB hlb (Nat.le_refl _)]
      · simp [get, h1]
    · rename_i hne
      simp only [get]
      rw [ih hw]
      by_cases h1 : k' = kq
      · subst h1
        have : ¬ k' = k := fun h => hne h.symm
        simp [this]
      · simp [h1]

theorem wf_mapVal {μ : Type} (f : ν → μ) {m : NMap ν} (h : WF m) : WF (mapVal f m) := by
  unfold WF mapVal at *
  rw [List.pairwise_map]
  exact h

theorem get_mapVal {μ : Type} (f : ν → μ) (m : NMap ν) (k : Nat) :
    get (mapVal f m) k = (get m k).map f := by
  induction m with
  | nil => rfl
  | cons p m ih =>
    simp only [mapVal, List.map_cons, get_cons]
    split
    · rfl
    · exact ih

theorem mem_mapVal {μ : Type} {f : ν → μ} {m : NMap ν} {q : Nat × μ} (h : q ∈ mapVal f m) :
    ∃ p ∈ m, q = (p.1, f p.2) := by
  simp only [mapVal, List.mem_map] at h
  obtain ⟨p, hp, rfl⟩ := h
  exact ⟨p, hp, rfl⟩

theorem wf_ofList (l : List (Nat × ν)) : WF (ofList l) := by
  unfold ofList
  suffices ∀ (m : NMap ν), WF m → WF (l.foldl (fun m p => insert p.1 p.2 m) m) from this [] wf_nil
  induction l with
  | nil => intro m hm; exact hm
  | cons p l ih => intro m hm; exact ih _ (wf_insert hm)

end NMap

/-! ### sets: an `NSet` is treated as an `NMap Unit` for the proofs -/
namespace NSet

def toMap (s : NSet) : NMap Unit := s.map (fun k => (k, ()))

theorem toMap_inj {a b : NSet} (h : toMap a = toMap b) : a = b := by
  induction a generalizing b with
  | nil => cases b <;> simp_all [toMap]
  | cons x a ih =>
    cases b with
    | nil => simp [toMap] at h
    | cons y b =>
      simp [toMap] at h
      have := ih (b := b) (by simpa [toMap] using h.2)
      rw [h.1, this]

theorem wf_toMap {s : NSet} : NMap.WF (toMap s) ↔ WF s := by
  unfold NMap.WF WF toMap
  rw [List.pairwise_map]

theorem toMap_insert (k : Nat) (s : NSet) :
    toMap (insert k s) = NMap.insertWith (fun _ _ => ()) k () (toMap s) := by
  induction s with
  | nil => rfl
  | cons x s ih =>
    simp only [insert, toMap, List.map_cons, NMap.insertWith]
    split
    · rfl
    · split
      · rename_i _ h; subst h; rfl
      · simp only [toMap] at ih; rw [← ih]; rfl

theorem toMap_union (a b : NSet) :
    toMap (union a b) = NMap.merge (fun _ _ => ()) (toMap a) (toMap b) := by
  induction a with
  | nil => rfl
  | cons x a ih =>
    show toMap (insert x (union a b)) = _
    rw [toMap_insert, ih]
    rfl

theorem wf_union {a b : NSet} (ha : WF a) (hb : WF b) : WF (union a b) := by
  rw [← wf_toMap, toMap_union]
  exact NMap.wf_merge (wf_toMap.mpr ha) (wf_toMap.mpr hb)

theorem union_comm {a b : NSet} (ha : WF a) (hb : WF b) : union a b = union b a := by
  apply toMap_inj
  rw [toMap_union, toMap_union]
  exact NMap.merge_comm (wf_toMap.mpr ha) (wf_toMap.mpr hb) (fun _ _ _ _ _ => rfl)

theorem union_idem {a : NSet} (ha : WF a) : union a a = a := by
  apply toMap_inj
  rw [toMap_union]
  exact NMap.merge_idem (wf_toMap.mpr ha) (fun _ _ _ => rfl)

theorem union_assoc {a b c : NSet} (ha : WF a) (hb : WF b) (hc : WF c) :
    union a (union b c) = union (union a b) c := by
  apply toMap_inj
  rw [toMap_union, toMap_union, toMap_union, toMap_union]
  exact NMap.merge_assoc (wf_toMap.mpr ha) (wf_toMap.mpr hb) (wf_toMap.mpr hc)
    (fun _ _ _ _ _ _ _ => rfl)

theorem insert_ne_nil (k : Nat) (s : NSet) : insert k s ≠ [] := by
  cases s with
  | nil => simp [insert]
  | cons x s =>
    simp only [insert]
    split
    · simp
    · split <;> simp

theorem union_ne_nil_left {a b : NSet} (h : a ≠ []) : union a b ≠ [] := by
  cases a with
  | nil => exact absurd rfl h
  | cons x a => exact insert_ne_nil _ _

end NSet
end RedisVerif
