import RedisVerif.Lemmas.SimCluster

/-!
  Layer 2 of the simulator cluster: a `SimulatedNode` serves what its replication state says.
  For every string key, `GET` on the node's executor = the live value of `replicated_keys`
  (`ReplicatedValue::get`, `None` for a tombstone) — after every client `SET[EX]` / `DEL`, every
  gossip delivery and every anti-entropy transfer (`apply_remote_deltas` writes the MERGED value
  through).
-/
namespace RedisVerif
namespace SimC
open Gossip Cluster

/-- an LWW register as `set` / `delete` leave it: a value, or a tombstone -/
def GoodReg (v : RV) : Prop := ∃ r, v.crdt = .lww r ∧ (r.tomb = true ∨ r.value.isSome = true)

/-- the node-local invariant -/
structure NodeOK (keys : NMap RV) (kv : NMap Bytes) : Prop where
  wf : NMap.WF kv
  served : ∀ k, NMap.get kv k = (NMap.get keys k).bind RV.get
  good : ∀ k v, NMap.get keys k = some v → GoodReg v

theorem merge_good {a b : RV} (ha : GoodReg a) (hb : GoodReg b) : GoodReg (RV.merge a b) := by
  obtain ⟨ra, hra, ga⟩ := ha
  obtain ⟨rb, hrb, gb⟩ := hb
  have hc : (RV.merge a b).crdt = .lww (Lww.merge ra rb) := by
    simp [RV.merge, RV.mergeWith, Crdt.mergeWithTimestamps, Crdt.tryMerge, hra, hrb]
  refine ⟨_, hc, ?_⟩
  have hmm : Lww.merge ra rb = ra ∨ Lww.merge ra rb = rb := by
    unfold Lww.merge; split
    · exact Or.inr rfl
    · exact Or.inl rfl
  rcases hmm with h | h <;> rw [h]
  · exact ga
  · exact gb

/-- one delta of `apply_remote_deltas` -/
theorem nodeOK_applyOne (nd : SNode) (d : Msg) (h : NodeOK nd.ps.sh.keys nd.kv) (hd : GoodReg d.val) :
    NodeOK (nd.applyOne d).ps.sh.keys (nd.applyOne d).kv := by
  -- the merged value
  have hm : ∃ mv, NMap.get (nd.ps.sh.applyRemote d.key d.val).keys d.key = some mv ∧ GoodReg mv ∧
      (nd.ps.sh.applyRemote d.key d.val).keys = NMap.insert d.key mv nd.ps.sh.keys := by
    simp only [Shard.applyRemote]
    cases hg : NMap.get nd.ps.sh.keys d.key with
    | none => exact ⟨d.val, by rw [NMap.get_insert]; simp, hd, rfl⟩
    | some l => exact ⟨RV.merge l d.val, by rw [NMap.get_insert]; simp, merge_good (h.good _ l hg) hd, rfl⟩
  obtain ⟨mv, hmv, hgood, hkeys⟩ := hm
  obtain ⟨r, hr, hrg⟩ := hgood
  have hget : mv.get = r.get := by simp [RV.get, hr]
  have htomb : mv.isTombstone = r.tomb := by simp [RV.isTombstone, hr]
  simp only [SNode.applyOne, hmv]
  rw [hkeys]
  by_cases ht : r.tomb = true
  · -- tombstone: DEL
    simp only [htomb, ht, Bool.not_true, Bool.false_eq_true, if_false]
    refine ⟨NMap.wf_erase h.wf, ?_, ?_⟩
    · intro k
      rw [NMap.get_erase h.wf, NMap.get_insert]
      by_cases hk : k = d.key
      · simp [hk, hget, Lww.get, ht]
      · simp only [hk, if_false]; exact h.served k
    · intro k v hg
      rw [NMap.get_insert] at hg
      split at hg
      · rw [← Option.some.inj hg]; exact ⟨r, hr, hrg⟩
      · exact h.good k v hg
  · -- live: SET
    have hval : r.value.isSome = true := by
      rcases hrg with h1 | h1
      · exact absurd h1 ht
      · exact h1
    obtain ⟨b, hb⟩ := Option.isSome_iff_exists.mp hval
    have hrget : r.get = some b := by simp [Lww.get, ht, hb]
    have ht' : r.tomb = false := by simpa using ht
    simp only [htomb, ht', Bool.not_false, if_true, hget, hrget]
    refine ⟨NMap.wf_insert h.wf, ?_, ?_⟩
    · intro k
      rw [NMap.get_insert, NMap.get_insert]
      by_cases hk : k = d.key
      · simp [hk, hget, hrget]
      · simp only [hk, if_false]; exact h.served k
    · intro k v hg
      rw [NMap.get_insert] at hg
      split at hg
      · rw [← Option.some.inj hg]; exact ⟨r, hr, hrg⟩
      · exact h.good k v hg

theorem nodeOK_applyAll (ds : List Msg) : ∀ (nd : SNode), NodeOK nd.ps.sh.keys nd.kv → (∀ d ∈ ds, GoodReg d.val) →
    NodeOK (nd.applyAll ds).ps.sh.keys (nd.applyAll ds).kv := by
  induction ds with
  | nil => intro nd h _; exact h
  | cons d ds ih =>
    intro nd h hd
    simp only [SNode.applyAll, List.foldl_cons] at ih ⊢
    exact ih _ (nodeOK_applyOne nd d h (hd d (by simp))) (fun x hx => hd x (List.mem_cons_of_mem _ hx))

/-- `SET k v [EX s]` -/
theorem nodeOK_set (cap me : Nat) (ps : PShard) (kv : NMap Bytes) (k : Nat) (v : Bytes) (e : Option Nat)
    (h : NodeOK ps.sh.keys kv) :
    NodeOK (SNode.record cap me ps [.write k v e]).1.sh.keys (NMap.insert k v kv) ∧
    ∀ m ∈ (SNode.record cap me ps [.write k v e]).2, GoodReg m.val := by
  have hrec : SNode.record cap me ps [.write k v e] =
      ({ sh := (Shard.recordWrite ps.sh k v e).1, pending := enforceCap cap (ps.pending ++ [⟨me, k, (Shard.recordWrite ps.sh k v e).2⟩]) },
        [⟨me, k, (Shard.recordWrite ps.sh k v e).2⟩]) := by
    simp [SNode.record, PShard.localOp, LOp.toOp, Shard.step, LOp.key]
  rw [hrec]
  have hgood : GoodReg (Shard.recordWrite ps.sh k v e).2 :=
    ⟨Lww.set v ps.sh.clock.tick, rfl, Or.inr rfl⟩
  refine ⟨⟨NMap.wf_insert h.wf, ?_, ?_⟩, ?_⟩
  · intro k'
    simp only [Shard.recordWrite]
    rw [NMap.get_insert, NMap.get_insert]
    by_cases hk : k' = k
    · simp [hk, RV.get, Lww.get, Lww.set]
    · simp only [hk, if_false]; exact h.served k'
  · intro k' v' hg
    simp only [Shard.recordWrite] at hg
    rw [NMap.get_insert] at hg
    split at hg
    · rw [← Option.some.inj hg]; exact hgood
    · exact h.good k' v' hg
  · intro m hm
    simp only [List.mem_singleton] at hm
    rw [hm]; exact hgood

/-- one `record_delete` + the executor's `DEL` of that key -/
theorem nodeOK_del1 (cap me : Nat) (ps : PShard) (kv : NMap Bytes) (k : Nat) (acc : List Msg)
    (h : NodeOK ps.sh.keys kv) :
    NodeOK (recF cap me (ps, acc) (.delete k)).1.sh.keys (NMap.erase k kv) ∧
    ∀ m ∈ (recF cap me (ps, acc) (.delete k)).2, m ∈ acc ∨ GoodReg m.val := by
  simp only [recF, PShard.localOp, LOp.toOp, Shard.step, LOp.key, Shard.recordDelete]
  cases hg : NMap.get ps.sh.keys k with
  | none =>
    simp only []
    refine ⟨⟨NMap.wf_erase h.wf, ?_, h.good⟩, fun m hm => Or.inl hm⟩
    intro k'
    rw [NMap.get_erase h.wf]
    by_cases hk : k' = k
    · simp [hk, hg]
    · simp only [hk, if_false]; exact h.served k'
  | some rv =>
    obtain ⟨r, hr, _⟩ := h.good k rv hg
    simp only [hr]
    have hgood : GoodReg { rv with crdt := .lww (Lww.delete ps.sh.clock.tick), ts := ps.sh.clock.tick } :=
      ⟨Lww.delete ps.sh.clock.tick, rfl, Or.inl rfl⟩
    refine ⟨⟨NMap.wf_erase h.wf, ?_, ?_⟩, ?_⟩
    · intro k'
      rw [NMap.get_erase h.wf, NMap.get_insert]
      by_cases hk : k' = k
      · simp [hk, RV.get, Lww.get, Lww.delete]
      · simp only [hk, if_false]; exact h.served k'
    · intro k' v' hg'
      rw [NMap.get_insert] at hg'
      split at hg'
      · rw [← Option.some.inj hg']; exact hgood
      · exact h.good k' v' hg'
    · intro m hm
      simp only [List.mem_append, List.mem_singleton] at hm
      rcases hm with h1 | h1
      · exact Or.inl h1
      · rw [h1]; exact Or.inr hgood

theorem nodeOK_del (cap me : Nat) (ks : List Nat) : ∀ (ps : PShard) (kv : NMap Bytes) (acc : List Msg),
    NodeOK ps.sh.keys kv →
    NodeOK ((ks.map LOp.delete).foldl (recF cap me) (ps, acc)).1.sh.keys (ks.foldl (fun m k => NMap.erase k m) kv) ∧
    ∀ m ∈ ((ks.map LOp.delete).foldl (recF cap me) (ps, acc)).2, m ∈ acc ∨ GoodReg m.val := by
  induction ks with
  | nil => intro ps kv acc h; exact ⟨h, fun m hm => Or.inl hm⟩
  | cons k ks ih =>
    intro ps kv acc h
    simp only [List.map_cons, List.foldl_cons]
    obtain ⟨h1, h2⟩ := nodeOK_del1 cap me ps kv k acc h
    obtain ⟨h3, h4⟩ := ih (recF cap me (ps, acc) (.delete k)).1 (NMap.erase k kv) (recF cap me (ps, acc) (.delete k)).2 h1
    refine ⟨h3, ?_⟩
    intro m hm
    rcases h4 m hm with h5 | h5
    · exact h2 m h5
    · exact Or.inr h5

/-! ## the cluster invariant -/

structure ServedInv (c : Sim) : Prop where
  sinv : SInv c
  node : ∀ nd ∈ c.nodes, NodeOK nd.ps.sh.keys nd.kv
  issued : ∀ m ∈ c.issued, GoodReg m.val

theorem servedInv_init (n : Nat) (causal : Bool) (routers : List (Option Router)) (autoAE : Bool) :
    ServedInv (Sim.init n causal routers autoAE) := by
  refine ⟨sinv_init n causal routers autoAE, ?_, by intro m hm; simp [Sim.init] at hm⟩
  intro nd hnd
  simp only [Sim.init, List.mem_map, List.mem_range] at hnd
  obtain ⟨i, _, rfl⟩ := hnd
  exact ⟨NMap.wf_nil, fun k => by simp [SNode.init, PShard.init, Shard.init], fun k v hg => by simp [SNode.init, PShard.init, Shard.init] at hg⟩

theorem servedInv_deliverFlight (c : Sim) (f : Flight) (h : ∀ nd ∈ c.nodes, NodeOK nd.ps.sh.keys nd.kv)
    (hf : ∀ m ∈ f.deltas, GoodReg m.val) : ∀ nd ∈ (Sim.deliverFlight c f).nodes, NodeOK nd.ps.sh.keys nd.kv := by
  unfold Sim.deliverFlight
  split
  · exact h
  · rename_i nd0 hn
    intro nd hnd
    rcases mem_set hnd with h1 | h1
    · rw [h1]; exact nodeOK_applyAll f.deltas nd0 (h nd0 (List.mem_of_getElem? hn)) hf
    · exact h nd h1

theorem servedInv_deliverFlights (fs : List Flight) : ∀ (c : Sim), (∀ nd ∈ c.nodes, NodeOK nd.ps.sh.keys nd.kv) →
    (∀ f ∈ fs, ∀ m ∈ f.deltas, GoodReg m.val) →
    ∀ nd ∈ (fs.foldl Sim.deliverFlight c).nodes, NodeOK nd.ps.sh.keys nd.kv := by
  induction fs with
  | nil => intro c h _; exact h
  | cons f fs ih =>
    intro c h hf
    exact ih _ (servedInv_deliverFlight c f h (hf f (by simp))) (fun g hg => hf g (List.mem_cons_of_mem _ hg))

theorem servedInv_syncStep (H : AE.Hasher) (cfg : Cfg) (c : Sim) (h : ServedInv c) (a b : Nat) :
    ServedInv (Sim.syncStep H cfg c a b) := by
  obtain ⟨_, _, _, hs⟩ := syncStep_sim H cfg c h.sinv a b
  cases hna : c.nodes[a]? with
  | none =>
    have : Sim.syncStep H cfg c a b = c := by simp only [Sim.syncStep, hna]
    rw [this]; exact h
  | some na =>
    cases hnb : c.nodes[b]? with
    | none =>
      have : Sim.syncStep H cfg c a b = c := by simp only [Sim.syncStep, hna, hnb]
      rw [this]; exact h
    | some nb =>
      cases hsd : Sim.syncDeltas H cfg na.ps.sh.keys nb.ps.sh.keys with
      | none =>
        have : Sim.syncStep H cfg c a b = c := by simp only [Sim.syncStep, hna, hnb, hsd]
        rw [this]; exact h
      | some dd =>
        obtain ⟨da, db⟩ := dd
        obtain ⟨hma, hmb⟩ := syncDeltas_mem H cfg _ _ da db hsd
        have hoka := h.node na (List.mem_of_getElem? hna)
        have hokb := h.node nb (List.mem_of_getElem? hnb)
        refine ⟨hs, ?_, ?_⟩
        · have hst : (Sim.syncStep H cfg c a b).nodes =
              (c.nodes.set b (nb.applyAll (Sim.toMsgs a da))).set a (na.applyAll (Sim.toMsgs b db)) := by
            simp only [Sim.syncStep, hna, hnb, hsd]
          rw [hst]
          intro nd hnd
          rcases mem_set hnd with h1 | h1
          · rw [h1]
            apply nodeOK_applyAll _ na hoka
            intro d hd
            simp only [Sim.toMsgs, List.mem_map] at hd
            obtain ⟨p, hp, rfl⟩ := hd
            exact hokb.good p.1 p.2 (hmb p hp)
          · rcases mem_set h1 with h2 | h2
            · rw [h2]
              apply nodeOK_applyAll _ nb hokb
              intro d hd
              simp only [Sim.toMsgs, List.mem_map] at hd
              obtain ⟨p, hp, rfl⟩ := hd
              exact hoka.good p.1 p.2 (hma p hp)
            · exact h.node nd h2
        · have : (Sim.syncStep H cfg c a b).issued = c.issued := by
            simp only [Sim.syncStep, hna, hnb, hsd]
          rw [this]; exact h.issued

theorem servedInv_syncFold (H : AE.Hasher) (cfg : Cfg) (ps : List (Nat × Nat)) : ∀ (c : Sim), ServedInv c →
    ServedInv (ps.foldl (fun c p => if Sim.canComm c.parts p.1 p.2 then Sim.syncStep H cfg c p.1 p.2 else c) c) := by
  induction ps with
  | nil => intro c h; exact h
  | cons p ps ih =>
    intro c h
    simp only [List.foldl_cons]
    split
    · exact ih _ (servedInv_syncStep H cfg c h p.1 p.2)
    · exact ih c h

theorem servedInv_step (H : AE.Hasher) (cfg : Cfg) (c : Sim) (h : ServedInv c) (e : SEv) :
    ServedInv (c.step H cfg e) := by
  have hs := (step_sim H cfg c h.sinv e).1
  cases e with
  | exec i op =>
    cases hn : c.nodes[i]? with
    | none =>
      have : c.step H cfg (.exec i op) = c := by simp only [Sim.step, hn]
      rw [this]; exact h
    | some nd =>
      have hok := h.node nd (List.mem_of_getElem? hn)
      have hst : c.step H cfg (.exec i op) =
          { c with
            nodes := c.nodes.set i { ps := (SNode.record cfg.pendingCap i nd.ps op.lops).1, kv := SNode.kvExec nd.kv op }
            issued := c.issued ++ (SNode.record cfg.pendingCap i nd.ps op.lops).2
            log := c.log ++ (SNode.record cfg.pendingCap i nd.ps op.lops).2.map (fun m => ⟨i, m.key, m.val⟩) } := by
        simp only [Sim.step, hn]
      have key : NodeOK (SNode.record cfg.pendingCap i nd.ps op.lops).1.sh.keys (SNode.kvExec nd.kv op) ∧
          ∀ m ∈ (SNode.record cfg.pendingCap i nd.ps op.lops).2, GoodReg m.val := by
        cases op with
        | set k v ex => exact nodeOK_set cfg.pendingCap i nd.ps nd.kv k v _ hok
        | del ks =>
          have := nodeOK_del cfg.pendingCap i ks nd.ps nd.kv [] hok
          simp only [SOp.lops, SNode.kvExec, record_eq]
          exact ⟨this.1, fun m hm => (this.2 m hm).elim (fun h => by cases h) id⟩
      refine ⟨hs, ?_, ?_⟩
      · rw [hst]
        intro nd' hnd'
        rcases mem_set hnd' with h1 | h1
        · rw [h1]; exact key.1
        · exact h.node nd' h1
      · rw [hst]
        intro m hm
        rcases List.mem_append.mp hm with h1 | h1
        · exact h.issued m h1
        · exact key.2 m h1
  | gossip oracle =>
    refine ⟨hs, ?_, ?_⟩
    · simp only [Sim.step]
      generalize hq : ((((List.range c.nodes.length).flatMap fun src =>
          (Sim.sendsOf c.routers c.nodes.length src ((c.nodes.map fun nd => nd.ps.pending)[src]?.getD [])).map
            fun p => (src, p)).foldl (fun acc sp => Sim.sendOne c.parts c.now acc sp.1 sp.2) (c.queue, oracle)).1) = q
      have hqmem : ∀ f ∈ q, ∀ m ∈ f.deltas, m ∈ c.issued := by
        intro f hf m hm
        rw [← hq] at hf
        rcases sendFold_mem c.parts c.now _ (c.queue, oracle) f hf with h1 | ⟨sp, hsp, hd⟩
        · exact h.sinv.queue f h1 m hm
        · simp only [List.mem_flatMap, List.mem_map, List.mem_range] at hsp
          obtain ⟨src, _, p, hp, rfl⟩ := hsp
          rw [hd] at hm
          have hm' := sendsOf_mem _ _ _ _ p hp m hm
          simp only [List.getElem?_map] at hm'
          cases hsrc : c.nodes[src]? with
          | none => rw [hsrc] at hm'; simp at hm'
          | some nd =>
            rw [hsrc] at hm'
            simp only [Option.map_some, Option.getD_some] at hm'
            exact h.sinv.pend nd (List.mem_of_getElem? hsrc) m hm'
      have hsplit := popReady_split c.parts c.now q
      apply servedInv_deliverFlights
      · intro nd hnd
        simp only [List.mem_map] at hnd
        obtain ⟨x, hx, rfl⟩ := hnd
        exact h.node x hx
      · intro f hf m hm
        exact h.issued m (hqmem f (by rw [← hsplit]; exact List.mem_append_left _ hf) m hm)
    · have : (c.step H cfg (.gossip oracle)).issued = c.issued := by
        simp only [Sim.step]
        generalize ((((List.range c.nodes.length).flatMap fun src =>
          (Sim.sendsOf c.routers c.nodes.length src ((c.nodes.map fun nd => nd.ps.pending)[src]?.getD [])).map
            fun p => (src, p)).foldl (fun acc sp => Sim.sendOne c.parts c.now acc sp.1 sp.2) (c.queue, oracle)).1) = q
        -- deliveries do not issue anything
        have : ∀ (fs : List Flight) (c0 : Sim), (fs.foldl Sim.deliverFlight c0).issued = c0.issued := by
          intro fs
          induction fs with
          | nil => intro c0; rfl
          | cons f fs ih =>
            intro c0
            rw [List.foldl_cons, ih]
            unfold Sim.deliverFlight
            split <;> rfl
        rw [this]
      rw [this]; exact h.issued
  | advance ms => exact ⟨hs, h.node, h.issued⟩
  | partition a b => exact ⟨hs, h.node, h.issued⟩
  | heal a b =>
    simp only [Sim.step]
    have h1 : ServedInv { c with parts := c.parts.filter (· ≠ Sim.norm a b) } :=
      ⟨⟨h.sinv.pend, h.sinv.queue⟩, h.node, h.issued⟩
    split
    · exact servedInv_syncStep H cfg _ h1 a b
    · exact h1
  | sync a b => exact servedInv_syncStep H cfg c h a b
  | fullSync => exact servedInv_syncFold H cfg _ c h

theorem servedInv_run (H : AE.Hasher) (cfg : Cfg) (evs : List SEv) : ∀ (c : Sim), ServedInv c →
    ServedInv (c.run H cfg evs) := by
  induction evs with
  | nil => intro c h; exact h
  | cons e evs ih => intro c h; exact ih _ (servedInv_step H cfg c h e)

end SimC
end RedisVerif
