import RedisVerif.Model.Txn7
import RedisVerif.Lemmas.RedisLocal

/-!
  Lemmas for the M7 instance of the transaction machines (`Model/Txn7.lean`):

  * the node invariant `NodeOk` (canonical, nothing dead at the node's instant) is kept by every
    command and every tick (`exec7_ok`);
  * on such nodes a data command is `exec` followed by `purge` (`exec7_data`), and the locality of
    the reference executor (`Redis.exec_localOn`: every command that names its keys reads and writes
    only those keys) lifts to nodes: frame (`exec7_frame`), dependence on the named keys only
    (`exec7_loc`);
  * hence two commands that name DISJOINT key sets COMMUTE on nodes — same node, same replies
    (`exec7_commute`), for every command of the reference model of every value type, multi-key and
    expiry commands included.
-/
namespace RedisVerif
namespace Txn7
open Redis (State Cmd Reply Value Entry purge live LocalOn cmdKeys exec_localOn)
open NMap

theorem filter_filter_self {α : Type} (p : α → Bool) (o : Option α) :
    (o.filter p).filter p = o.filter p := by
  cases o with
  | none => rfl
  | some a => by_cases h : p a = true <;> simp [Option.filter, h]

theorem get_of_purged {s : State} {now : Nat} (hw : WF s) (hp : purge s now = s) (k : Nat) :
    (get s k).filter (live now) = get s k := by
  have := Redis.get_purge hw now k
  rw [hp] at this
  exact this.symm

theorem nodeOk_init (now : Nat) : NodeOk (Node.init now) := ⟨wf_nil, rfl⟩

/-- on a node that holds nothing dead, a data command is `exec` then `purge` -/
theorem exec7_data {n : Node} (h : NodeOk n) (c : Cmd) :
    exec7 n (.data c) =
      ({ s := purge (Redis.exec n.s n.now c).1 n.now, now := n.now }, .data (Redis.exec n.s n.now c).2) := by
  simp only [exec7, Redis.step, h.2]

theorem exec7_now_data (n : Node) (c : Cmd) : (exec7 n (.data c)).1.now = n.now := rfl

theorem wf_exec (now : Nat) (c : Cmd) {s : State} (hs : WF s) : WF (Redis.exec s now c).1 := by
  cases hk : cmdKeys c with
  | some K => exact (exec_localOn now c K hk).wf s hs
  | none =>
    cases c
    case sort k st => cases st <;> simp [cmdKeys] at hk
    case keys => exact hs
    case dbsize => exact hs
    case flushdb => exact wf_nil
    case flushall => exact wf_nil
    case randomkey ch =>
      simp only [Redis.exec, Redis.execRandomKey]
      repeat' split
      all_goals exact hs
    all_goals simp [cmdKeys] at hk

/-- the invariant is kept by everything a node can be asked to do -/
theorem exec7_ok {n : Node} (h : NodeOk n) (c : Cmd7) : NodeOk (exec7 n c).1 := by
  cases c with
  | data c =>
    rw [exec7_data h]
    exact ⟨Redis.wf_purge _ (wf_exec _ _ h.1), Redis.purge_idem _ _⟩
  | tick t => exact ⟨Redis.wf_purge _ h.1, Redis.purge_idem _ _⟩
  | ping => exact h
  | unwatch => exact h
  | unknown => exact h
  | loc l => exact h

/-- a command of the connection itself, PING, UNWATCH, an unknown command: the node is untouched -/
theorem exec7_keyless (n : Node) (c : Cmd7) (hk : keysOf c = some []) (hd : ∀ d, c ≠ .data d) :
    (exec7 n c).1 = n := by
  cases c with
  | data d => exact absurd rfl (hd d)
  | tick t => simp [keysOf] at hk
  | ping => rfl
  | unwatch => rfl
  | unknown => rfl
  | loc l => rfl

theorem exec7_keyless_reply (n n' : Node) (c : Cmd7) (hd : ∀ d, c ≠ .data d) (ht : ∀ t, c ≠ .tick t) :
    (exec7 n c).2 = (exec7 n' c).2 := by
  cases c with
  | data d => exact absurd rfl (hd d)
  | tick t => exact absurd rfl (ht t)
  | ping => rfl
  | unwatch => rfl
  | unknown => rfl
  | loc l => rfl

/-- **frame**: a data command that names its keys leaves every other key's entry alone -/
theorem exec7_frame {n : Node} (h : NodeOk n) (c : Cmd) (K : List Nat) (hK : cmdKeys c = some K)
    (k : Nat) (hk : k ∉ K) : get (exec7 n (.data c)).1.s k = get n.s k := by
  have L := exec_localOn n.now c K hK
  rw [exec7_data h]
  show get (purge (Redis.exec n.s n.now c).1 n.now) k = get n.s k
  rw [Redis.get_purge (L.wf n.s h.1), L.frame n.s k h.1 hk, get_of_purged h.1 h.2]

/-- **locality**: the reply and the new entries of the named keys depend only on the old entries of
    the named keys (same instant) -/
theorem exec7_loc {n n' : Node} (h : NodeOk n) (h' : NodeOk n') (hnow : n.now = n'.now) (c : Cmd)
    (K : List Nat) (hK : cmdKeys c = some K) (hg : ∀ k ∈ K, get n.s k = get n'.s k) :
    (exec7 n (.data c)).2 = (exec7 n' (.data c)).2 ∧
      ∀ k ∈ K, get (exec7 n (.data c)).1.s k = get (exec7 n' (.data c)).1.s k := by
  have L := exec_localOn n.now c K hK
  obtain ⟨e1, e2⟩ := L.loc n.s n'.s h.1 h'.1 hg
  rw [exec7_data h, exec7_data h', ← hnow]
  refine ⟨by rw [e1], ?_⟩
  intro k hk
  show get (purge (Redis.exec n.s n.now c).1 n.now) k = get (purge (Redis.exec n'.s n.now c).1 n.now) k
  rw [Redis.get_purge (L.wf n.s h.1), Redis.get_purge (L.wf n'.s h'.1), e2 k hk]

theorem node_ext {a b : Node} (ha : NodeOk a) (hb : NodeOk b) (hnow : a.now = b.now)
    (h : ∀ k, get a.s k = get b.s k) : a = b := by
  obtain ⟨sa, na⟩ := a
  obtain ⟨sb, nb⟩ := b
  simp only at hnow h
  subst hnow
  have e : sa = sb := NMap.ext ha.1 hb.1 h
  subst e
  rfl

/-- **two data commands that name disjoint key sets commute**: same node, and each answers what it
    answers without the other -/
theorem exec7_commute {n : Node} (h : NodeOk n) (f c : Cmd) (Kf Kc : List Nat)
    (hf : cmdKeys f = some Kf) (hc : cmdKeys c = some Kc) (hd : ∀ k ∈ Kf, k ∉ Kc) :
    (exec7 (exec7 n (.data f)).1 (.data c)).1 = (exec7 (exec7 n (.data c)).1 (.data f)).1 ∧
    (exec7 (exec7 n (.data f)).1 (.data c)).2 = (exec7 n (.data c)).2 ∧
    (exec7 (exec7 n (.data c)).1 (.data f)).2 = (exec7 n (.data f)).2 := by
  have hd' : ∀ k ∈ Kc, k ∉ Kf := fun k hk hk' => hd k hk' hk
  have of := exec7_ok h (.data f)
  have oc := exec7_ok h (.data c)
  have agree_c : ∀ k ∈ Kc, get (exec7 n (.data f)).1.s k = get n.s k :=
    fun k hk => exec7_frame h f Kf hf k (hd' k hk)
  have agree_f : ∀ k ∈ Kf, get (exec7 n (.data c)).1.s k = get n.s k :=
    fun k hk => exec7_frame h c Kc hc k (hd k hk)
  obtain ⟨rc, sc⟩ := exec7_loc of h rfl c Kc hc agree_c
  obtain ⟨rf, sf⟩ := exec7_loc oc h rfl f Kf hf agree_f
  refine ⟨?_, rc, rf⟩
  apply node_ext (exec7_ok of _) (exec7_ok oc _) rfl
  intro k
  by_cases h1 : k ∈ Kc
  · rw [sc k h1, exec7_frame oc f Kf hf k (hd' k h1)]
  · by_cases h2 : k ∈ Kf
    · rw [exec7_frame of c Kc hc k h1, sf k h2]
    · rw [exec7_frame of c Kc hc k h1, exec7_frame h f Kf hf k h2,
        exec7_frame oc f Kf hf k h2, exec7_frame h c Kc hc k h1]

/-- the GET reply of key `k` is a function of `k`'s entry -/
theorem getReply7_congr {n n' : Node} (h : NodeOk n) (h' : NodeOk n') (hnow : n.now = n'.now) (k : Nat)
    (hg : get n.s k = get n'.s k) : backend7.getReply n k = backend7.getReply n' k :=
  (exec7_loc h h' hnow (.get k) [k] rfl (by simpa using hg)).1

/-- consecutive data commands at one instant on a node = `Redis.run` at that instant: the replies
    are M7's, the node's keyspace is M7's keyspace with the dead entries dropped -/
theorem runSeq7_eq_run (cs : List Cmd) : ∀ (n : Node), NodeOk n →
    (Txn.runSeq backend7 n (cs.map .data)).2 = (Redis.run n.s (cs.map (fun c => (n.now, c)))).2.map .data ∧
    (Txn.runSeq backend7 n (cs.map .data)).1 =
      { s := purge (Redis.run n.s (cs.map (fun c => (n.now, c)))).1 n.now, now := n.now } := by
  induction cs with
  | nil =>
    intro n h
    refine ⟨rfl, ?_⟩
    show n = { s := purge n.s n.now, now := n.now }
    rw [h.2]
  | cons c rest ih =>
    intro n h
    obtain ⟨i1, i2⟩ := ih (exec7 n (.data c)).1 (exec7_ok h _)
    have hrun : ∀ (l : List Cmd) (s : State),
        (Redis.run (purge s n.now) (l.map (fun c => (n.now, c)))).2 =
          (Redis.run s (l.map (fun c => (n.now, c)))).2 ∧
        purge (Redis.run (purge s n.now) (l.map (fun c => (n.now, c)))).1 n.now =
          purge (Redis.run s (l.map (fun c => (n.now, c)))).1 n.now := by
      intro l
      cases l with
      | nil => intro s; exact ⟨rfl, Redis.purge_idem _ _⟩
      | cons d l' =>
        intro s
        simp only [List.map_cons, Redis.run, Redis.step, Redis.purge_idem, and_self]
    obtain ⟨hr1, hr2⟩ := hrun rest (Redis.step n.s n.now c).1
    have e1 : (exec7 n (.data c)).1.s = purge (Redis.step n.s n.now c).1 n.now := rfl
    have e2 : (exec7 n (.data c)).1.now = n.now := rfl
    rw [e1, e2] at i1 i2
    simp only [List.map_cons, Txn.runSeq, Redis.run]
    refine ⟨?_, ?_⟩
    · show (exec7 n (.data c)).2 :: (Txn.runSeq backend7 (exec7 n (.data c)).1 (rest.map .data)).2 = _
      rw [i1, hr1]
      rfl
    · show (Txn.runSeq backend7 (exec7 n (.data c)).1 (rest.map .data)).1 = _
      rw [i2, hr2]

end Txn7
end RedisVerif
