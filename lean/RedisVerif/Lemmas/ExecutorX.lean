import RedisVerif.Lemmas.ExecutorMove
import RedisVerif.Model.ExecutorX
import RedisVerif.Lemmas.RedisX

/-! Refinement of SETBIT / GETBIT / BatchSet / BatchGet / KEYS <pattern> of the executor to `Model.RedisX`,
    and the no-op lemma of the stubs. -/
set_option linter.unusedSimpArgs false
set_option linter.unusedVariables false

namespace RedisVerif.Executor
open RedisVerif RedisVerif.Redis RedisVerif.RedisX

theorem cSetBit_sim {cs : CState} (h : CInv cs) (k off bit : Nat) :
    SimF cs (fun s => execSetBit s k off bit) (cSetBit cs k off bit) := by
  unfold cSetBit
  by_cases ho : off ≥ maxBitOffset
  · simp only [ho, if_true, SimF, execSetBit]
    exact ⟨by triv, by rw [purge_absP], h, by triv, by triv⟩
  · simp only [ho, if_false]
    gv h k
    simp only [SimF, execSetBit, ho, if_false, lookupStr]
    rw [glook, gux, ← gsame]
    cases o with
    | none =>
      obtain ⟨i1, i2⟩ := store_spec ginv gnx
        (.str ((growFor [] off).set (off / 8) (withBit 0 (off % 8) bit))) (valueOk_str _)
      rw [exp_none_of_data_none ginv gval] at i2
      exact ⟨by triv, i2, i1, gnow, gep⟩
    | some w =>
      cases w
      case str b =>
        obtain ⟨i1, i2⟩ := store_spec ginv gnx
          (.str ((growFor b off).set (off / 8) (withBit ((growFor b off).getD (off / 8) 0) (off % 8) bit)))
          (valueOk_str _)
        exact ⟨by triv, i2, i1, gnow, gep⟩
      all_goals exact ⟨by triv, by simp [purge_absP], ginv, gnow, gep⟩

theorem cGetBit_sim {cs : CState} (h : CInv cs) (k off : Nat) :
    SimF cs (fun s => execGetBit s k off) (cGetBit cs k off) := by
  unfold cGetBit
  by_cases ho : off ≥ maxBitOffset
  · simp only [ho, if_true, SimF, execGetBit]
    exact ⟨by triv, by rw [purge_absP], h, by triv, by triv⟩
  · simp only [ho, if_false]
    gv h k
    simp only [SimF, execGetBit, ho, if_false, lookupStr]
    rw [glook]
    cases o with
    | none => simp [gsame, purge_absP, ginv, gnow, gep]
    | some w =>
      cases w
      case str b =>
        simp only [Option.map_some]
        cases b[off / 8]? <;> simp [gsame, purge_absP, ginv, gnow, gep]
      all_goals simp [gsame, purge_absP, ginv, gnow, gep, wrongType]

/-- the live keys of `data` that match = the matching keys of `absP` -/
theorem liveKeysPat_eq (cs : CState) (f : Nat → Bool) :
    (cs.data.filter (fun p => !isExpired cs p.1 && f p.1)).map (fun p => p.1) =
      ((absP cs).filter (fun p => f p.1)).map (fun p => p.1) := by
  unfold absP abs purge
  generalize cs.data = d
  induction d with
  | nil => rfl
  | cons q d ih =>
    obtain ⟨kq, vq⟩ := q
    simp only [List.filter, List.map, live_absEntry]
    cases isExpired cs kq
    · simp only [Bool.not_false, Bool.true_and, List.filter]
      cases f kq
      · simp only []; exact ih
      · simp only [List.map]; rw [ih]
    · simp only [Bool.not_true, Bool.false_and]
      exact ih

theorem cKeysPat_sim {cs : CState} (h : CInv cs) (pat : BS) :
    SimF cs (fun s => execKeysPat s pat) (cKeysPat cs pat) := by
  unfold cKeysPat
  simp only [SimF, execKeysPat]
  refine ⟨?_, by rw [purge_absP], h, by triv, by triv⟩
  have := congrArg (List.map Elem.key) (liveKeysPat_eq cs (fun k => globMatch pat (codeBytes k)))
  simp only [List.map_map] at this
  exact congrArg Reply.arr this

/-- **the commands of `Model.RedisX` on the executor as it is** -/
theorem execXC_sim {cs : CState} (h : CInv cs) (c : XCmd) :
    SimF cs (fun s => execX s c) (execXC cs c) := by
  cases c
  case setbit k off bit => exact cSetBit_sim h k off bit
  case getbit k off => exact cGetBit_sim h k off
  case batchset kvs => exact cMSet_sim h kvs
  case batchget ks => exact cMGet_sim h ks
  case keys pat => exact cKeysPat_sim h pat

/-- **the stubs** (OBJECT …, DEBUG OBJECT, and every arm that does not mention the keyspace): whatever
    they answer, the visible keyspace and the invariant stay -/
theorem execStub_noop {cs : CState} (h : CInv cs) (c : StubCmd) :
    absP (execStub cs c).1 = absP cs ∧ CInv (execStub cs c).1 ∧
    (execStub cs c).1.now = cs.now ∧ (execStub cs c).1.epoch = cs.epoch := by
  cases c
  case const n => exact ⟨rfl, h, rfl, rfl⟩
  all_goals
    rename_i k
    simp only [execStub]
    gv h k
    cases o <;> exact ⟨gsame, ginv, gnow, gep⟩

/-- SCAN (`cScan`) returns the state it was given -/
theorem cScan_noop (cs : CState) (cursor : Nat) (pat : Option BS) (count : Option Nat)
    (cs' : CState) (r : Nat × List Nat) (h : cScan cs cursor pat count = some (cs', r)) : cs' = cs := by
  unfold cScan at h
  cases hp : scanPage (scanKeys cs pat) cursor (count.getD 10) with
  | none => rw [hp] at h; cases h
  | some q => rw [hp] at h; cases h; rfl

end RedisVerif.Executor
