import RedisVerif.Model.DataStructs
import RedisVerif.Lemmas.Redis

/-! Lemmas about the transcriptions of `RedisList` and `SDS` (`Model/DataStructs.lean`). -/
namespace RedisVerif.DataStructs
open RedisVerif RedisVerif.Redis

theorem lrangeNorm_eq (n : Nat) (a b : Int) :
    lrangeNorm n a b =
      if normStart n a > normStop n b ∨ normStart n a ≥ n then none
      else some ((normStart n a).toNat, (normStop n b - normStart n a + 1).toNat) := by
  unfold lrangeNorm normStart normStop normIdx clampEnd
  by_cases ha : a < 0 <;> by_cases hb : b < 0 <;> simp only [ha, hb, if_true, if_false]
  all_goals (repeat' split)
  all_goals first
    | rfl
    | omega
    | (simp only [Option.some.injEq, Prod.mk.injEq]; constructor <;> omega)
    | (exfalso; omega)

theorem rlist_range_refines (l : RList) (a b : Int) :
    l.range a b = slice l (lrangeNorm l.length a b) := by
  rw [lrangeNorm_eq]
  unfold RList.range slice
  split <;> rfl

theorem rlist_trim_refines (l : RList) (a b : Int) :
    l.trim a b = slice l (lrangeNorm l.length a b) := by
  rw [lrangeNorm_eq]
  unfold RList.trim slice
  split
  · rename_i h
    have : l = [] := List.eq_nil_of_length_eq_zero h
    subst this
    split <;> simp
  · split <;> rfl

theorem rlist_get_refines (l : RList) (i : Int) :
    l.get i = match listIdx l.length i with | none => none | some n => l[n]? := by
  unfold RList.get listIdx
  simp only
  by_cases hi : i < 0 <;> simp only [hi, if_true, if_false, Int.add_comm] <;> split <;> simp_all

theorem rlist_set_refines (l : RList) (i : Int) (v : BS) :
    l.set i v = (listIdx l.length i).map (fun n => List.set l n v) := by
  unfold RList.set listIdx
  simp only
  by_cases hi : i < 0 <;> simp only [hi, if_true, if_false, Int.add_comm] <;> split <;> simp_all

theorem zeros_length (n : Nat) : (zeros n).length = n := by simp [zeros]

theorem Sds.wf_new (b : List Nat) : (Sds.new b).Wf := by
  unfold Sds.new
  split
  · simp only [Sds.Wf, List.length_append, zeros_length]; omega
  · trivial

theorem Sds.asBytes_new (b : List Nat) : (Sds.new b).asBytes = b := by
  unfold Sds.new
  split
  · simp [Sds.asBytes]
  · rfl

theorem Sds.len_eq {s : Sds} (h : s.Wf) : s.len = s.asBytes.length := by
  cases s with
  | inline len d => simp only [Sds.Wf] at h; simp [Sds.len, Sds.asBytes]; omega
  | heap d => rfl

theorem Sds.wf_append {s o : Sds} (hs : s.Wf) (ho : o.Wf) : (s.append o).Wf := by
  unfold Sds.append
  split
  · cases s with
    | inline len d =>
      rename_i h
      have h' : len + o.len ≤ ssoMax := h
      have hl := Sds.len_eq ho
      refine ⟨h', ?_⟩
      have hd : d.length = ssoMax := hs.2
      simp only [List.length_append, List.length_take, List.length_drop]
      omega
    | heap d => trivial
  · trivial

theorem Sds.asBytes_append {s o : Sds} (hs : s.Wf) (ho : o.Wf) :
    (s.append o).asBytes = s.asBytes ++ o.asBytes := by
  unfold Sds.append
  split
  · cases s with
    | inline len d =>
      rename_i h
      have h' : len + o.len ≤ ssoMax := h
      have hl := Sds.len_eq ho
      have hd : d.length = ssoMax := hs.2
      show List.take (len + o.len) (List.take len d ++ o.asBytes ++ List.drop (len + o.len) d) = List.take len d ++ o.asBytes
      apply List.take_left'
      simp only [List.length_append, List.length_take]
      omega
    | heap d => rfl
  · rfl

theorem Sds.len_append {s o : Sds} (hs : s.Wf) (ho : o.Wf) : (s.append o).len = s.len + o.len := by
  rw [Sds.len_eq (Sds.wf_append hs ho), Sds.asBytes_append hs ho, List.length_append, ← Sds.len_eq hs, ← Sds.len_eq ho]

/-- the representation boundary of `append`: the result is inline exactly when the receiver was
    inline and the total fits in `SSO_MAX_LEN` bytes -/
theorem Sds.isInline_append (s o : Sds) :
    (s.append o).isInline = (s.isInline && decide (s.len + o.len ≤ ssoMax)) := by
  unfold Sds.append
  split <;> cases s <;> simp_all [Sds.isInline]

theorem Sds.isInline_new (b : List Nat) : (Sds.new b).isInline = decide (b.length ≤ ssoMax) := by
  unfold Sds.new; split <;> simp_all [Sds.isInline]

theorem Sds.wf_resize {s : Sds} (hs : s.Wf) (n : Nat) : (s.resize n).Wf := by
  unfold Sds.resize
  split
  · exact hs
  · split
    · cases s with
      | inline len d =>
        simp only [Sds.Wf] at hs
        simp only [Sds.len] at *
        simp only [Sds.Wf, List.length_append, List.length_take, List.length_drop, zeros_length]
        omega
      | heap d => trivial
    · cases s <;> trivial

theorem Sds.asBytes_resize {s : Sds} (hs : s.Wf) (n : Nat) :
    (s.resize n).asBytes = s.asBytes ++ zeros (n - s.len) := by
  unfold Sds.resize
  split
  · rename_i h
    have : n - s.len = 0 := by omega
    simp [this, zeros]
  · split
    · cases s with
      | inline len d =>
        simp only [Sds.Wf] at hs
        simp only [Sds.len] at *
        simp only [Sds.asBytes]
        show List.take n (List.take len d ++ zeros (n - len) ++ List.drop n d) = List.take len d ++ zeros (n - len)
        apply List.take_left'
        simp only [List.length_append, List.length_take, zeros_length]
        omega
      | heap d => rfl
    · cases s <;> rfl

theorem Sds.isInline_resize {s : Sds} (hs : s.Wf) (n : Nat) :
    (s.resize n).isInline = (s.isInline && decide (n ≤ ssoMax)) := by
  unfold Sds.resize
  split
  · cases s with
    | inline len d => simp only [Sds.Wf] at hs; simp only [Sds.len] at *; simp [Sds.isInline]; omega
    | heap d => simp [Sds.isInline]
  · split <;> cases s <;> simp_all [Sds.isInline]

end RedisVerif.DataStructs
