import RedisVerif.Lemmas.RedisStr
import RedisVerif.Lemmas.RedisList
import RedisVerif.Lemmas.RedisSetHash
import RedisVerif.Lemmas.RedisZSet

/-! Dispatcher lemmas: the per-command lemmas lifted to `exec` / `step`. -/
namespace RedisVerif.Redis
open RedisVerif

theorem inv_exec {s : State} (h : Inv s) (now : Nat) (c : Cmd) : Inv (exec s now c).1 := by
  cases c <;> simp only [exec]
  case get k => rw [execGet_ro]; exact h
  case set k v c e g => exact inv_execSet h ..
  case setnx k v => exact inv_execSetNx h ..
  case append k v => exact inv_execAppend h ..
  case getset k v => exact inv_execGetSet h ..
  case strlen k => rw [execStrLen_ro]; exact h
  case mget ks => exact h
  case mset kvs => exact inv_execMSet h ..
  case msetnx kvs => exact inv_execMSetNx h ..
  case getrange k a b => rw [execGetRange_ro]; exact h
  case setrange k o v => exact inv_execSetRange h ..
  case getex k o => exact inv_execGetEx h ..
  case getdel k => exact inv_execGetDel h ..
  case incr k => exact inv_execIncrBy h ..
  case decr k => exact inv_execIncrBy h ..
  case incrby k d => exact inv_execIncrBy h ..
  case decrby k d => exact inv_execDecrBy h ..
  case del ks => exact inv_execDel h ..
  case «exists» ks => exact h
  case type k => rw [execType_ro]; exact h
  case keys => exact h
  case dbsize => exact h
  case flushdb => exact inv_nil
  case flushall => exact inv_nil
  case randomkey ch => rw [execRandomKey_ro]; exact h
  case rename a b => exact inv_execRename h ..
  case renamenx a b => exact inv_execRenameNx h ..
  case expire k v f => exact inv_execExpire h ..
  case pexpire k v f => exact inv_execPExpire h ..
  case expireat k v f => exact inv_execExpireAt h ..
  case pexpireat k v f => exact inv_execPExpireAt h ..
  case ttl k => exact h
  case pttl k => exact h
  case expiretime k => exact h
  case pexpiretime k => exact h
  case persist k => exact inv_execPersist h ..
  case lpush k vs => exact inv_execPush h ..
  case rpush k vs => exact inv_execPush h ..
  case lpop k => exact inv_execPop h ..
  case rpop k => exact inv_execPop h ..
  case llen k => rw [execLLen_ro]; exact h
  case lindex k i => rw [execLIndex_ro]; exact h
  case lrange k a b => rw [execLRange_ro]; exact h
  case lset k i v => exact inv_execLSet h ..
  case ltrim k a b => exact inv_execLTrim h ..
  case rpoplpush a b => exact inv_execLMove h ..
  case lmove a b f t => exact inv_execLMove h ..
  case sadd k ms => exact inv_execSAdd h ..
  case srem k ms => exact inv_execSRem h ..
  case smembers k => rw [execSMembers_ro]; exact h
  case sismember k m => rw [execSIsMember_ro]; exact h
  case scard k => rw [execSCard_ro]; exact h
  case spop k n ch => cases n <;> first | exact inv_execSPop1 h .. | exact inv_execSPopN h ..
  case hset k fvs => exact inv_execHSet h ..
  case hget k f => rw [execHGet_ro]; exact h
  case hdel k fs => exact inv_execHDel h ..
  case hgetall k => rw [execHGetAll_ro]; exact h
  case hkeys k => rw [execHKeys_ro]; exact h
  case hvals k => rw [execHVals_ro]; exact h
  case hlen k => rw [execHLen_ro]; exact h
  case hexists k f => rw [execHExists_ro]; exact h
  case hincrby k f d => exact inv_execHIncrBy h ..
  case zadd k f ps => exact inv_execZAdd h ..
  case zrem k ms => exact inv_execZRem h ..
  case zrange k a b ws => rw [execZRange_ro]; exact h
  case zrevrange k a b ws => rw [execZRange_ro]; exact h
  case zscore k m => rw [execZScore_ro]; exact h
  case zrank k m => rw [execZRank_ro]; exact h
  case zcard k => rw [execZCard_ro]; exact h
  case zcount k lo hi => rw [execZCount_ro]; exact h
  case zrangebyscore k lo hi ws lim => rw [execZRangeByScore_ro]; exact h
  case sort k st => exact inv_execSort h ..

theorem ttlReply_not_err (s : State) (k : Nat) (f : Nat → Nat) : (ttlReply s k f).isError = false := by
  unfold ttlReply
  split
  · rfl
  · split <;> rfl

/-- a command that replies with an error returns the state it was given -/
theorem exec_err {s : State} {now : Nat} {c : Cmd} (he : (exec s now c).2.isError = true) :
    (exec s now c).1 = s := by
  cases c <;> simp only [exec] at he ⊢
  case get k => exact execGet_ro ..
  case set k v c e g => exact execSet_err he
  case setnx k v => exact execSetNx_err he
  case append k v => exact execAppend_err he
  case getset k v => exact execGetSet_err he
  case strlen k => exact execStrLen_ro ..
  case mget ks => rfl
  case mset kvs => exact execMSet_err he
  case msetnx kvs => exact execMSetNx_err he
  case getrange k a b => exact execGetRange_ro ..
  case setrange k o v => exact execSetRange_err he
  case getex k o => exact execGetEx_err he
  case getdel k => exact execGetDel_err he
  case incr k => exact execIncrBy_err he
  case decr k => exact execIncrBy_err he
  case incrby k d => exact execIncrBy_err he
  case decrby k d => exact execDecrBy_err he
  case del ks => exact execDel_err he
  case «exists» ks => rfl
  case type k => exact execType_ro ..
  case keys => rfl
  case dbsize => rfl
  case flushdb => exact execFlush_err he
  case flushall => exact execFlush_err he
  case randomkey ch => exact execRandomKey_ro ..
  case rename a b => exact execRename_err he
  case renamenx a b => exact execRenameNx_err he
  case expire k v f => exact execExpire_err he
  case pexpire k v f => exact execPExpire_err he
  case expireat k v f => exact execExpireAt_err he
  case pexpireat k v f => exact execPExpireAt_err he
  case ttl k => rfl
  case pttl k => rfl
  case expiretime k => rfl
  case pexpiretime k => rfl
  case persist k => exact execPersist_err he
  case lpush k vs => exact execPush_err he
  case rpush k vs => exact execPush_err he
  case lpop k => exact execPop_err he
  case rpop k => exact execPop_err he
  case llen k => exact execLLen_ro ..
  case lindex k i => exact execLIndex_ro ..
  case lrange k a b => exact execLRange_ro ..
  case lset k i v => exact execLSet_err he
  case ltrim k a b => exact execLTrim_err he
  case rpoplpush a b => exact execLMove_err he
  case lmove a b f t => exact execLMove_err he
  case sadd k ms => exact execSAdd_err he
  case srem k ms => exact execSRem_err he
  case smembers k => exact execSMembers_ro ..
  case sismember k m => exact execSIsMember_ro ..
  case scard k => exact execSCard_ro ..
  case spop k n ch =>
    cases n
    · exact execSPop1_err he
    · exact execSPopN_err he
  case hset k fvs => exact execHSet_err he
  case hget k f => exact execHGet_ro ..
  case hdel k fs => exact execHDel_err he
  case hgetall k => exact execHGetAll_ro ..
  case hkeys k => exact execHKeys_ro ..
  case hvals k => exact execHVals_ro ..
  case hlen k => exact execHLen_ro ..
  case hexists k f => exact execHExists_ro ..
  case hincrby k f d => exact execHIncrBy_err he
  case zadd k f ps => exact execZAdd_err he
  case zrem k ms => exact execZRem_err he
  case zrange k a b ws => exact execZRange_ro ..
  case zrevrange k a b ws => exact execZRange_ro ..
  case zscore k m => exact execZScore_ro ..
  case zrank k m => exact execZRank_ro ..
  case zcard k => exact execZCard_ro ..
  case zcount k lo hi => exact execZCount_ro ..
  case zrangebyscore k lo hi ws lim => exact execZRangeByScore_ro ..
  case sort k st => exact execSort_err he

/-- a command classified read-only returns the state it was given -/
theorem exec_ro {s : State} {now : Nat} {c : Cmd} (hr : isReadOnly c = true) :
    (exec s now c).1 = s := by
  cases c <;> simp only [isReadOnly] at hr <;> simp only [exec]
  case get k => exact execGet_ro ..
  case strlen k => exact execStrLen_ro ..
  case mget ks => rfl
  case getrange k a b => exact execGetRange_ro ..
  case «exists» ks => rfl
  case type k => exact execType_ro ..
  case keys => rfl
  case dbsize => rfl
  case randomkey ch => exact execRandomKey_ro ..
  case ttl k => rfl
  case pttl k => rfl
  case expiretime k => rfl
  case pexpiretime k => rfl
  case llen k => exact execLLen_ro ..
  case lindex k i => exact execLIndex_ro ..
  case lrange k a b => exact execLRange_ro ..
  case smembers k => exact execSMembers_ro ..
  case sismember k m => exact execSIsMember_ro ..
  case scard k => exact execSCard_ro ..
  case hget k f => exact execHGet_ro ..
  case hgetall k => exact execHGetAll_ro ..
  case hkeys k => exact execHKeys_ro ..
  case hvals k => exact execHVals_ro ..
  case hlen k => exact execHLen_ro ..
  case hexists k f => exact execHExists_ro ..
  case zrange k a b ws => exact execZRange_ro ..
  case zrevrange k a b ws => exact execZRange_ro ..
  case zscore k m => exact execZScore_ro ..
  case zrank k m => exact execZRank_ro ..
  case zcard k => exact execZCard_ro ..
  case zcount k lo hi => exact execZCount_ro ..
  case zrangebyscore k lo hi ws lim => exact execZRangeByScore_ro ..
  all_goals cases hr

theorem purge_purge_le (s : State) {now t : Nat} (h : now ≤ t) :
    purge (purge s now) t = purge s t := by
  simp only [purge, List.filter_filter]
  congr 1
  funext p
  obtain ⟨k, v, dl⟩ := p
  cases dl with
  | none => simp [live]
  | some d =>
    simp only [live]
    by_cases h1 : t < d
    · have : now < d := by omega
      simp [h1, this]
    · simp [h1]

theorem view_purge_le (s : State) {now t : Nat} (h : now ≤ t) :
    view (purge s now) t = view s t := by
  simp [view, purge_purge_le s h]

end RedisVerif.Redis
