import RedisVerif.Lemmas.SkipListSearch
namespace RedisVerif.SkipList
open RedisVerif RedisVerif.Redis

/-- the structure invariant of `SkipList` -/
structure Wf (sl : SL) : Prop where
  spans : Spans sl sl.level
  level_pos : 1 ≤ sl.level
  tight : sl.level = 1 ∨ ∃ t ∈ sl.towers, t.ht = sl.level
  len : sl.length = sl.towers.length
  sorted : sl.towers.Pairwise (fun a b => zLt a.key b.key = true)

/-- number of towers whose key is below the target -/
def cntLt (tgt : BS × Score) (T : List Tower) : Nat := (T.takeWhile (fun t => zLt t.key tgt)).length

theorem cntLt_le (tgt : BS × Score) (T : List Tower) : cntLt tgt T ≤ T.length := by
  unfold cntLt
  exact (List.takeWhile_sublist _).length_le

theorem cntLt_spec (tgt : BS × Score) : ∀ {T : List Tower},
    T.Pairwise (fun a b => zLt a.key b.key = true) →
    ∀ k t, T[k]? = some t → zLt t.key tgt = decide (k < cntLt tgt T)
  | [], _, k, t, h => by simp at h
  | x :: xs, hs, k, t, h => by
    rw [List.pairwise_cons] at hs
    by_cases hx : zLt x.key tgt = true
    · have e : cntLt tgt (x :: xs) = cntLt tgt xs + 1 := by simp [cntLt, hx]
      cases k with
      | zero => simp at h; subst h; simp [e, hx]
      | succ k =>
        have := cntLt_spec tgt hs.2 k t (by simpa using h)
        simp [e, this]
    · have e : cntLt tgt (x :: xs) = 0 := by simp [cntLt, hx]
      rw [e]
      simp only [Nat.not_lt_zero, decide_false]
      cases k with
      | zero => simp at h; subst h; simpa using hx
      | succ k =>
        have hm : t ∈ xs := List.mem_of_getElem? (by simpa using h)
        have hxt := hs.1 t hm
        cases hz : zLt t.key tgt with
        | false => rfl
        | true => exact absurd (zLt_trans hxt hz) hx

theorem isUpd_zero {T : List Tower} {c u : Nat} (hc : c ≤ T.length) (hts : ∀ t ∈ T, 1 ≤ t.ht)
    (h : IsUpd T c 0 u) : u = c := by
  obtain ⟨h1, _, h3⟩ := h
  by_cases hlt : u < c
  · have hu : u < T.length := by omega
    have := h3 u T[u] (Nat.le_refl _) hlt (List.getElem?_eq_getElem hu)
    have := hts T[u] (List.getElem_mem hu)
    omega
  · omega

theorem length_pad {ur : List (Nat × Nat)} (h : ur.length ≤ maxLevel) : (pad ur).length = maxLevel := by
  simp [pad]; omega

/-- the search of `insert` / `remove_with_score` on a well-formed list: it cannot panic and fills
    `update[j] = rank[j] =` the last position before the target's place that has a level `j` -/
theorem search_spec {sl : SL} (hw : Wf sl) (m : BS) (sc : Score) :
    ∃ ur, search sl m sc = some ur ∧ ur.length = maxLevel ∧
      (∀ j, j < sl.level → ∃ u, ur[j]? = some (u, u) ∧ IsUpd sl.towers (cntLt (m, sc) sl.towers) j u) ∧
      (∀ j, sl.level ≤ j → j < maxLevel → ur[j]? = some (0, 0)) := by
  have hgo : ∀ k t, sl.towers[k]? = some t →
      goLess m sc t (k + 1) = decide (k + 1 ≤ cntLt (m, sc) sl.towers) := by
    intro k t hk
    have := cntLt_spec (m, sc) hw.sorted k t hk
    simp only [goLess, this]
    by_cases h : k < cntLt (m, sc) sl.towers <;> simp [h] <;> omega
  obtain ⟨l, hl, hlen, hall⟩ := descend_spec hw.spans (goLess m sc) (cntLt (m, sc) sl.towers) hgo
    sl.level 0 (Nat.le_refl _) (Nat.zero_le _) (Or.inl rfl)
    (fun q t _ _ hq => (hw.spans.hts t (List.mem_of_getElem? hq)).2)
  have hL := hw.spans.L_le
  refine ⟨pad l, by simp [search, hl], length_pad (by omega), ?_, ?_⟩
  · intro j hj
    obtain ⟨u, hu, hupd, _⟩ := hall j hj
    refine ⟨u, ?_, hupd⟩
    simp only [pad]
    rw [List.getElem?_append_left (by omega)]; exact hu
  · intro j hj hj'
    simp only [pad]
    rw [List.getElem?_append_right (by omega)]
    simp [List.getElem?_replicate]; omega

end RedisVerif.SkipList
