import RedisVerif.Lemmas.Lub

/-!
# Pairwise exchanges in a join-semilattice

`n` parties each hold an element of a carrier on which `m` is ACI.  An *exchange* between `a` and
`b` leaves both with `m (v a) (v b)` (what one round of anti-entropy with a limit that covers the
difference does, key by key).  Facts:

* every value only grows, and stays below every upper bound of the initial values;
* after the pairs of `allPairs n` — `for i in 0..n { for j in i+1..n { exchange(i, j) } }`, the
  order of `run_full_anti_entropy` — every party holds the join of all initial values, for every
  `n` (`allPairs_agree`): ONE pass suffices.  (Row 0 gathers everything at party 0 and, with its
  last pair, at party `n-1`; every later row `r` ends with the pair `(r, n-1)`.)
* for an arbitrary list of pairs the same holds when the knowledge flow it induces is complete
  (`flow_agree`; `knows` is computable, so the hypothesis is decidable for a concrete list).
-/
namespace RedisVerif
namespace Flow

variable {α : Type}

/-- one exchange -/
def xch (m : α → α → α) (v : Nat → α) (a b : Nat) : Nat → α :=
  fun i => if i = a ∨ i = b then m (v a) (v b) else v i

def pass (m : α → α → α) (v : Nat → α) (ps : List (Nat × Nat)) : Nat → α :=
  ps.foldl (fun v p => xch m v p.1 p.2) v

/-- `for j in (i+1)..n` -/
def rowPairs (i n : Nat) : List (Nat × Nat) := (List.range' (i + 1) (n - (i + 1))).map (fun j => (i, j))

/-- `for i in 0..n { for j in (i+1)..n }` -/
def allPairs (n : Nat) : List (Nat × Nat) := (List.range n).flatMap (fun i => rowPairs i n)

variable {m : α → α → α} {P : α → Prop}

/-- what every reachable vector satisfies relative to the initial vector `v0` -/
structure Inv (m : α → α → α) (P : α → Prop) (n : Nat) (v0 v : Nat → α) : Prop where
  car : ∀ i, i < n → P (v i)
  /-- values only grow -/
  grow : ∀ i, i < n → ACI.le m (v0 i) (v i)
  /-- … and stay below every upper bound of the initial values -/
  bound : ∀ u, P u → (∀ s, s < n → ACI.le m (v0 s) u) → ∀ i, i < n → ACI.le m (v i) u

theorem inv_init (h : ACI m P) (n : Nat) (v0 : Nat → α) (hv : ∀ i, i < n → P (v0 i)) : Inv m P n v0 v0 :=
  ⟨hv, fun i hi => h.le_refl (hv i hi), fun _ _ hu i hi => hu i hi⟩

theorem inv_xch (h : ACI m P) {n : Nat} {v0 v : Nat → α} (hv0 : ∀ i, i < n → P (v0 i)) (hi : Inv m P n v0 v)
    {a b : Nat} (ha : a < n) (hb : b < n) : Inv m P n v0 (xch m v a b) := by
  have hca := hi.car a ha
  have hcb := hi.car b hb
  have hcm := h.closed _ _ hca hcb
  refine ⟨?_, ?_, ?_⟩
  · intro i hin
    simp only [xch]; split
    · exact hcm
    · exact hi.car i hin
  · intro i hin
    simp only [xch]; split
    · rename_i hc
      rcases hc with rfl | rfl
      · exact h.le_trans (hv0 i hin) hca hcm (hi.grow i hin) (h.le_merge_left hca hcb)
      · exact h.le_trans (hv0 i hin) hcb hcm (hi.grow i hin) (h.le_merge_right hca hcb)
    · exact hi.grow i hin
  · intro u hu hub i hin
    simp only [xch]; split
    · exact h.merge_le hca hcb hu (hi.bound u hu hub a ha) (hi.bound u hu hub b hb)
    · exact hi.bound u hu hub i hin

/-- `s`'s initial value is below `i`'s current value -/
def Has (m : α → α → α) (v0 v : Nat → α) (s i : Nat) : Prop := ACI.le m (v0 s) (v i)

theorem has_mono (h : ACI m P) {n : Nat} {v0 v : Nat → α} (hv0 : ∀ i, i < n → P (v0 i)) (hi : Inv m P n v0 v)
    {a b : Nat} (ha : a < n) (hb : b < n) {s i : Nat} (hs : s < n) (hin : i < n) (hh : Has m v0 v s i) :
    Has m v0 (xch m v a b) s i := by
  unfold Has at *
  simp only [xch]; split
  · rename_i hc
    have hca := hi.car a ha
    have hcb := hi.car b hb
    rcases hc with rfl | rfl
    · exact h.le_trans (hv0 s hs) hca (h.closed _ _ hca hcb) hh (h.le_merge_left hca hcb)
    · exact h.le_trans (hv0 s hs) hcb (h.closed _ _ hca hcb) hh (h.le_merge_right hca hcb)
  · exact hh

/-- after an exchange both parties have what either had -/
theorem has_xch (h : ACI m P) {n : Nat} {v0 v : Nat → α} (hv0 : ∀ i, i < n → P (v0 i)) (hi : Inv m P n v0 v)
    {a b : Nat} (ha : a < n) (hb : b < n) {s : Nat} (hs : s < n) (hh : Has m v0 v s a ∨ Has m v0 v s b) :
    Has m v0 (xch m v a b) s a ∧ Has m v0 (xch m v a b) s b := by
  have hca := hi.car a ha
  have hcb := hi.car b hb
  have : ACI.le m (v0 s) (m (v a) (v b)) := by
    rcases hh with hh | hh
    · exact h.le_trans (hv0 s hs) hca (h.closed _ _ hca hcb) hh (h.le_merge_left hca hcb)
    · exact h.le_trans (hv0 s hs) hcb (h.closed _ _ hca hcb) hh (h.le_merge_right hca hcb)
  unfold Has
  simp only [xch, true_or, or_true, if_true]
  exact ⟨this, this⟩

/-- two parties that have everybody's initial value hold the same element -/
theorem eq_of_complete (h : ACI m P) {n : Nat} {v0 v : Nat → α} (hi : Inv m P n v0 v) {i j : Nat}
    (hin : i < n) (hjn : j < n) (ci : ∀ s, s < n → Has m v0 v s i) (cj : ∀ s, s < n → Has m v0 v s j) :
    v i = v j :=
  h.le_antisymm (hi.car i hin) (hi.car j hjn) (hi.bound _ (hi.car j hjn) cj i hin)
    (hi.bound _ (hi.car i hin) ci j hjn)

/-! ### an arbitrary list of pairs: computable knowledge flow -/

/-- whose initial value each party is known to have -/
def knowStep (K : Nat → List Nat) (a b : Nat) : Nat → List Nat :=
  fun i => if i = a ∨ i = b then K a ++ K b else K i

def knows (ps : List (Nat × Nat)) : Nat → List Nat :=
  ps.foldl (fun K p => knowStep K p.1 p.2) (fun i => [i])

theorem pass_inv (h : ACI m P) {n : Nat} {v0 : Nat → α} (hv0 : ∀ i, i < n → P (v0 i)) (ps : List (Nat × Nat))
    (hps : ∀ p ∈ ps, p.1 < n ∧ p.2 < n) : ∀ v, Inv m P n v0 v → Inv m P n v0 (pass m v ps) := by
  induction ps with
  | nil => intro v hi; exact hi
  | cons p ps ih =>
    intro v hi
    exact ih (fun q hq => hps q (List.mem_cons_of_mem _ hq)) _
      (inv_xch h hv0 hi (hps p (by simp)).1 (hps p (by simp)).2)

theorem pass_knows (h : ACI m P) {n : Nat} {v0 : Nat → α} (hv0 : ∀ i, i < n → P (v0 i)) (ps : List (Nat × Nat))
    (hps : ∀ p ∈ ps, p.1 < n ∧ p.2 < n) : ∀ (v : Nat → α) (K : Nat → List Nat), Inv m P n v0 v →
    (∀ i, i < n → ∀ s ∈ K i, s < n ∧ Has m v0 v s i) →
    ∀ i, i < n → ∀ s ∈ ps.foldl (fun K p => knowStep K p.1 p.2) K i, s < n ∧ Has m v0 (pass m v ps) s i := by
  induction ps with
  | nil => intro v K _ hK; exact hK
  | cons p ps ih =>
    intro v K hi hK
    have hp := hps p (by simp)
    simp only [List.foldl_cons, pass]
    apply ih (fun q hq => hps q (List.mem_cons_of_mem _ hq)) _ _ (inv_xch h hv0 hi hp.1 hp.2)
    intro i hin s hs
    simp only [knowStep] at hs
    split at hs
    · rename_i hc
      have hsn : s < n ∧ (Has m v0 v s p.1 ∨ Has m v0 v s p.2) := by
        rcases List.mem_append.mp hs with h1 | h1
        · exact ⟨(hK p.1 hp.1 s h1).1, Or.inl (hK p.1 hp.1 s h1).2⟩
        · exact ⟨(hK p.2 hp.2 s h1).1, Or.inr (hK p.2 hp.2 s h1).2⟩
      have := has_xch h hv0 hi hp.1 hp.2 hsn.1 hsn.2
      rcases hc with rfl | rfl
      · exact ⟨hsn.1, this.1⟩
      · exact ⟨hsn.1, this.2⟩
    · exact ⟨(hK i hin s hs).1, has_mono h hv0 hi hp.1 hp.2 (hK i hin s hs).1 hin (hK i hin s hs).2⟩

/-- the flow of `ps` among `n` parties is complete: in the end everybody is known to have
    everybody's initial value (decidable) -/
def FlowComplete (n : Nat) (ps : List (Nat × Nat)) : Prop :=
  (∀ p ∈ ps, p.1 < n ∧ p.2 < n) ∧ ∀ i, i < n → ∀ s, s < n → s ∈ knows ps i

instance (n : Nat) (ps : List (Nat × Nat)) : Decidable (FlowComplete n ps) := by
  unfold FlowComplete; infer_instance

/-- **complete flow ⇒ agreement** -/
theorem flow_agree (h : ACI m P) (n : Nat) (v0 : Nat → α) (hv0 : ∀ i, i < n → P (v0 i)) (ps : List (Nat × Nat))
    (hf : FlowComplete n ps) (i j : Nat) (hin : i < n) (hjn : j < n) : pass m v0 ps i = pass m v0 ps j := by
  have hinv := pass_inv h hv0 ps hf.1 v0 (inv_init h n v0 hv0)
  have hk := pass_knows h hv0 ps hf.1 v0 (fun i => [i]) (inv_init h n v0 hv0)
    (by
      intro i hin s hs
      simp only [List.mem_singleton] at hs
      subst hs
      exact ⟨hin, h.le_refl (hv0 s hin)⟩)
  exact eq_of_complete h hinv hin hjn (fun s hs => (hk i hin s (hf.2 i hin s hs)).2)
    (fun s hs => (hk j hjn s (hf.2 j hjn s hs)).2)

/-! ### the order of `run_full_anti_entropy` -/

theorem pass_append (v : Nat → α) (ps qs : List (Nat × Nat)) : pass m v (ps ++ qs) = pass m (pass m v ps) qs := by
  simp [pass, List.foldl_append]

/-- a row keeps what everybody has -/
theorem row_mono (h : ACI m P) {n : Nat} {v0 : Nat → α} (hv0 : ∀ i, i < n → P (v0 i)) (ps : List (Nat × Nat))
    (hps : ∀ p ∈ ps, p.1 < n ∧ p.2 < n) : ∀ v, Inv m P n v0 v → ∀ s i, s < n → i < n → Has m v0 v s i →
    Has m v0 (pass m v ps) s i := by
  induction ps with
  | nil => intro v _ s i _ _ hh; exact hh
  | cons p ps ih =>
    intro v hi s i hs hin hh
    have hp := hps p (by simp)
    exact ih (fun q hq => hps q (List.mem_cons_of_mem _ hq)) _ (inv_xch h hv0 hi hp.1 hp.2) s i hs hin
      (has_mono h hv0 hi hp.1 hp.2 hs hin hh)

/-- row 0, first `t` pairs `(0,1) … (0,t)`: party 0 has the initial values of `0 … t` -/
theorem row0_gathers (h : ACI m P) {n : Nat} {v0 : Nat → α} (hv0 : ∀ i, i < n → P (v0 i)) (hn : 0 < n) :
    ∀ t, t < n → Inv m P n v0 (pass m v0 ((List.range' 1 t).map (fun j => (0, j)))) ∧
      ∀ s, s ≤ t → Has m v0 (pass m v0 ((List.range' 1 t).map (fun j => (0, j)))) s 0 := by
  intro t
  induction t with
  | zero =>
    intro _
    refine ⟨inv_init h n v0 hv0, ?_⟩
    intro s hs
    have : s = 0 := by omega
    subst this
    exact h.le_refl (hv0 0 hn)
  | succ t ih =>
    intro ht
    obtain ⟨hinv, hhas⟩ := ih (by omega)
    have hrange : List.range' 1 (t + 1) = List.range' 1 t ++ [t + 1] := by
      rw [List.range'_concat]; simp [Nat.add_comm]
    rw [hrange, List.map_append, pass_append]
    simp only [List.map_cons, List.map_nil, pass, List.foldl_cons, List.foldl_nil]
    refine ⟨inv_xch h hv0 hinv hn ht, ?_⟩
    intro s hs
    by_cases hst : s ≤ t
    · exact (has_xch h hv0 hinv hn ht (by omega) (Or.inl (hhas s hst))).1
    · have : s = t + 1 := by omega
      subst this
      exact (has_xch h hv0 hinv hn ht ht (Or.inr (hinv.grow _ ht))).1

theorem rowPairs_lt {i n : Nat} : ∀ p ∈ rowPairs i n, p.1 < n ∧ p.2 < n := by
  intro p hp
  simp only [rowPairs, List.mem_map, List.mem_range'_1] at hp
  obtain ⟨j, hj, rfl⟩ := hp
  simp only
  omega

/-- **one pass of all pairs in the order of `run_full_anti_entropy` makes everybody agree** -/
theorem allPairs_agree (h : ACI m P) (n : Nat) (v0 : Nat → α) (hv0 : ∀ i, i < n → P (v0 i)) (i j : Nat)
    (hin : i < n) (hjn : j < n) : pass m v0 (allPairs n) i = pass m v0 (allPairs n) j := by
  have hn : 0 < n := by omega
  -- after the rows `0 … r-1` (`1 ≤ r ≤ n`): the parties `< r` and the party `n-1` are complete
  have key : ∀ r, 1 ≤ r → r ≤ n →
      Inv m P n v0 (pass m v0 ((List.range r).flatMap (fun i => rowPairs i n))) ∧
      ∀ x, (x < r ∨ x = n - 1) → ∀ s, s < n →
        Has m v0 (pass m v0 ((List.range r).flatMap (fun i => rowPairs i n))) s x := by
    intro r hr1
    induction r with
    | zero => omega
    | succ r ih =>
      intro hrn
      by_cases hr0 : r = 0
      · -- row 0
        subst hr0
        simp only [List.range_one, List.flatMap_cons, List.flatMap_nil, List.append_nil, rowPairs, Nat.zero_add]
        obtain ⟨hinv, hhas⟩ := row0_gathers h hv0 hn (n - 1) (by omega)
        refine ⟨hinv, ?_⟩
        intro x hx s hs
        rcases hx with hx | hx
        · have : x = 0 := by omega
          subst this
          exact hhas s (by omega)
        · subst hx
          by_cases hn1 : n = 1
          · subst hn1
            exact hhas s (by omega)
          · -- the last pair of row 0 is (0, n-1)
            have hsplit : List.range' 1 (n - 1) = List.range' 1 (n - 2) ++ [n - 1] := by
              have : n - 1 = (n - 2) + 1 := by omega
              rw [this, List.range'_concat]; simp; omega
            obtain ⟨hinv', hhas'⟩ := row0_gathers h hv0 hn (n - 2) (by omega)
            rw [hsplit, List.map_append, pass_append]
            simp only [List.map_cons, List.map_nil, pass, List.foldl_cons, List.foldl_nil]
            by_cases hsn : s ≤ n - 2
            · exact (has_xch h hv0 hinv' hn (by omega) hs (Or.inl (hhas' s hsn))).2
            · have : s = n - 1 := by omega
              subst this
              exact (has_xch h hv0 hinv' hn (by omega) hs (Or.inr (hinv'.grow _ (by omega)))).2
      · obtain ⟨hinv, hhas⟩ := ih (by omega) (by omega)
        rw [List.range_succ, List.flatMap_append, pass_append]
        simp only [List.flatMap_cons, List.flatMap_nil, List.append_nil]
        have hinv' := pass_inv h hv0 (rowPairs r n) rowPairs_lt _ hinv
        refine ⟨hinv', ?_⟩
        intro x hx s hs
        by_cases hxr : x = r
        · subst hxr
          by_cases hlast : x = n - 1
          · exact row_mono h hv0 _ rowPairs_lt _ hinv s x hs (by omega) (hhas x (Or.inr hlast) s hs)
          · -- the last pair of row x is (x, n-1), and n-1 is complete
            have hsplit : rowPairs x n = (List.range' (x + 1) (n - (x + 1) - 1)).map (fun j => (x, j)) ++ [(x, n - 1)] := by
              unfold rowPairs
              have : n - (x + 1) = (n - (x + 1) - 1) + 1 := by omega
              rw [this, List.range'_concat, List.map_append]
              simp only [List.map_cons, List.map_nil, Nat.add_sub_cancel]
              congr 3
              omega
            rw [hsplit, pass_append]
            have hpre : ∀ p ∈ (List.range' (x + 1) (n - (x + 1) - 1)).map (fun j => (x, j)), p.1 < n ∧ p.2 < n := by
              intro p hp
              simp only [List.mem_map, List.mem_range'_1] at hp
              obtain ⟨j, hj, rfl⟩ := hp
              simp only; omega
            have hinv1 := pass_inv h hv0 _ hpre _ hinv
            have hc := row_mono h hv0 _ hpre _ hinv s (n - 1) hs (by omega) (hhas (n - 1) (Or.inr rfl) s hs)
            simp only [pass, List.foldl_cons, List.foldl_nil]
            exact (has_xch h hv0 hinv1 (by omega) (by omega) hs (Or.inr hc)).1
        · have hx' : x < r ∨ x = n - 1 := by
            rcases hx with hx | hx
            · left; omega
            · right; exact hx
          have hxn : x < n := by rcases hx' with h1 | h1 <;> omega
          exact row_mono h hv0 _ rowPairs_lt _ hinv s x hs hxn (hhas x hx' s hs)
  obtain ⟨hinv, hhas⟩ := key n (by omega) (Nat.le_refl n)
  exact eq_of_complete h hinv hin hjn (fun s hs => hhas i (Or.inl hin) s hs) (fun s hs => hhas j (Or.inl hjn) s hs)

end Flow
end RedisVerif
