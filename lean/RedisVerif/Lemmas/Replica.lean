import RedisVerif.Model.Replica
import RedisVerif.Lemmas.NMap
import RedisVerif.Lemmas.Crdt

/-! Helper lemmas for M2 (shard replication state): clock domination invariant. -/
namespace RedisVerif

namespace Stamp

theorem lt_of_time_lt {a b : Stamp} (h : a.time < b.time) : a.lt b = true := by
  rw [lt_iff]; exact Or.inl h

theorem max_time (a b : Stamp) : (max a b).time = Max.max a.time b.time := by
  unfold max
  cases h : a.lt b
  · have := (not_lt_iff a b).mp h
    show a.time = Max.max a.time b.time
    omega
  · have := (lt_iff a b).mp h
    show b.time = Max.max a.time b.time
    omega

@[simp] theorem tick_time (c : Stamp) : c.tick.time = c.time + 1 := rfl
@[simp] theorem tick_rid (c : Stamp) : c.tick.rid = c.rid := rfl
@[simp] theorem update_time (c o : Stamp) : (c.update o).time = Max.max c.time o.time + 1 := rfl
@[simp] theorem update_rid (c o : Stamp) : (c.update o).rid = c.rid := rfl

end Stamp

/-- stamps carried inside a CRDT (register stamp / per-field stamps) -/
def Crdt.innerStamps : Crdt → List Stamp
  | .lww r => [r.ts]
  | .hash h => h.map (·.2.ts)
  | _ => []

/-- stamps carried inside a value -/
def RV.innerStamps (rv : RV) : List Stamp := rv.crdt.innerStamps

/-- every stamp carried by a value -/
def RV.allStamps (rv : RV) : List Stamp := rv.ts :: rv.innerStamps

/-- the outer stamp of a value dominates (in time) every stamp inside it -/
def RV.Dominated (rv : RV) : Prop := ∀ t ∈ rv.innerStamps, t.time ≤ rv.ts.time

instance (rv : RV) : Decidable rv.Dominated := by unfold RV.Dominated; infer_instance

namespace Shard

/-- clock domination: the shard's Lamport clock is at least the time of every stamp it stores -/
def Inv (s : Shard) : Prop :=
  NMap.WF s.keys ∧ ∀ p ∈ s.keys, p.2.ts.time ≤ s.clock.time ∧ p.2.Dominated

instance (s : Shard) : Decidable s.Inv := by unfold Inv; infer_instance

/-- what is assumed of values that come from outside (peers, disk) -/
def OpOk : Op → Prop
  | .remote _ d => d.Dominated
  | .recovered _ v => v.Dominated
  | _ => True

instance (o : Op) : Decidable (OpOk o) := by cases o <;> simp only [OpOk] <;> infer_instance

theorem inv_init (rid : Nat) (c : Bool) : (init rid c).Inv := by
  refine ⟨NMap.wf_nil, ?_⟩
  intro p hp; cases hp

/-- generic: inserting a dominated value whose stamp the new clock covers keeps the invariant,
    provided the clock did not go back -/
theorem inv_insert {s : Shard} {k : Nat} {rv : RV} {c : Stamp} {vc : NMap Nat}
    (h : s.Inv) (hc : s.clock.time ≤ c.time) (h1 : rv.ts.time ≤ c.time) (h2 : rv.Dominated) :
    ({ s with clock := c, vclock := vc, keys := NMap.insert k rv s.keys } : Shard).Inv := by
  refine ⟨NMap.wf_insert h.1, ?_⟩
  intro p hp
  rcases NMap.mem_insert hp with hp | hp
  · subst hp; exact ⟨h1, h2⟩
  · have := h.2 p hp
    exact ⟨Nat.le_trans this.1 hc, this.2⟩

/-! ### the hash folds -/

theorem hashSet_fold_clock (fs : List (Nat × Bytes)) (c : Stamp) (h : NMap Lww) :
    (fs.foldl hashSetStep (c, h)).1.time = c.time + fs.length ∧
    (fs.foldl hashSetStep (c, h)).1.rid = c.rid := by
  induction fs generalizing c h with
  | nil => simp
  | cons f fs ih =>
    simp only [List.foldl_cons, hashSetStep]
    have := ih c.tick (NMap.insert f.1 (Lww.set f.2 c.tick) h)
    simp at this ⊢
    omega

theorem hashSet_fold_dom (fs : List (Nat × Bytes)) (c : Stamp) (h : NMap Lww) (T : Nat)
    (hh : ∀ p ∈ h, p.2.ts.time ≤ T) (hT : c.time + fs.length ≤ T) :
    ∀ p ∈ (fs.foldl hashSetStep (c, h)).2, p.2.ts.time ≤ T := by
  induction fs generalizing c h with
  | nil => simpa using hh
  | cons f fs ih =>
    simp only [List.foldl_cons, hashSetStep]
    apply ih
    · intro p hp
      rcases NMap.mem_insert hp with hp | hp
      · subst hp; simp [Lww.set]; simp at hT; omega
      · exact hh p hp
    · simp at hT ⊢; omega

theorem hashDel_fold_clock (fs : List Nat) (c : Stamp) (h : NMap Lww) :
    c.time ≤ (fs.foldl hashDelStep (c, h)).1.time ∧
    (fs.foldl hashDelStep (c, h)).1.time ≤ c.time + fs.length ∧
    (fs.foldl hashDelStep (c, h)).1.rid = c.rid := by
  induction fs generalizing c h with
  | nil => simp
  | cons f fs ih =>
    simp only [List.foldl_cons, hashDelStep]
    split
    · have := ih c.tick (NMap.insert f (Lww.delete c.tick) h)
      simp at this ⊢
      omega
    · have := ih c h
      simp at this ⊢
      omega

theorem hashDel_fold_dom (fs : List Nat) (c : Stamp) (h : NMap Lww)
    (hh : ∀ p ∈ h, p.2.ts.time ≤ c.time) :
    ∀ p ∈ (fs.foldl hashDelStep (c, h)).2, p.2.ts.time ≤ (fs.foldl hashDelStep (c, h)).1.time := by
  induction fs generalizing c h with
  | nil => simpa using hh
  | cons f fs ih =>
    simp only [List.foldl_cons, hashDelStep]
    split
    · apply ih
      intro p hp
      rcases NMap.mem_insert hp with hp | hp
      · subst hp; simp [Lww.delete]
      · have := hh p hp; simp; omega
    · exact ih c h hh

/-- a delete fold ticks at least once when one of the named fields is stored -/
theorem hashDel_fold_ticks (fs : List Nat) (c : Stamp) (h : NMap Lww)
    (hany : fs.any (fun f => (NMap.get h f).isSome) = true) :
    c.time < (fs.foldl hashDelStep (c, h)).1.time := by
  induction fs generalizing c h with
  | nil => simp at hany
  | cons f fs ih =>
    simp only [List.foldl_cons, hashDelStep]
    cases hg : NMap.get h f with
    | some r =>
      have := (hashDel_fold_clock fs c.tick (NMap.insert f (Lww.delete c.tick) h)).1
      simp at this ⊢
      omega
    | none =>
      simp only [List.any_cons, hg, Option.isSome_none, Bool.false_or] at hany
      exact ih c h hany

/-! ### equations of the record functions by case -/

theorem kind_lww {c : Crdt} (h : c.kind = 0) : ∃ r, c = .lww r := by
  cases c <;> simp [Crdt.kind] at h; exact ⟨_, rfl⟩

theorem kind_hash {c : Crdt} (h : c.kind = 5) : ∃ m, c = .hash m := by
  cases c <;> simp [Crdt.kind] at h; exact ⟨_, rfl⟩

theorem recordDelete_none {s : Shard} {k : Nat} (hg : NMap.get s.keys k = none) :
    recordDelete s k = (s, none) := by simp [recordDelete, hg]

theorem recordDelete_lww {s : Shard} {k : Nat} {rv : RV} {r : Lww}
    (hg : NMap.get s.keys k = some rv) (hc : rv.crdt = .lww r) :
    recordDelete s k =
      ({ s with clock := s.clock.tick,
                keys := NMap.insert k
                  { rv with crdt := .lww (Lww.delete s.clock.tick), ts := s.clock.tick } s.keys },
       some { rv with crdt := .lww (Lww.delete s.clock.tick), ts := s.clock.tick }) := by
  simp [recordDelete, hg, hc]

/-- the value `record_delete` stores and emits for a hash value -/
def delHashValue (s : Shard) (rv : RV) (h : NMap Lww) : RV :=
  { rv with crdt := .hash (NMap.mapVal (fun _ => Lww.delete s.clock.tick) h), ts := s.clock.tick }

theorem recordDelete_hash {s : Shard} {k : Nat} {rv : RV} {h : NMap Lww}
    (hg : NMap.get s.keys k = some rv) (hc : rv.crdt = .hash h) :
    recordDelete s k =
      ({ s with clock := s.clock.tick, keys := NMap.insert k (delHashValue s rv h) s.keys },
       some (delHashValue s rv h)) := by
  simp [recordDelete, hg, hc, delHashValue]

theorem recordDelete_other {s : Shard} {k : Nat} {rv : RV}
    (hg : NMap.get s.keys k = some rv) (hc : rv.crdt.kind ≠ 0) (hc5 : rv.crdt.kind ≠ 5) :
    recordDelete s k = (s, some rv) := by
  simp only [recordDelete, hg]
  cases h : rv.crdt <;> simp_all [Crdt.kind]

theorem recordHashDelete_none {s : Shard} {k : Nat} {fs : List Nat}
    (hg : NMap.get s.keys k = none) : recordHashDelete s k fs = (s, none) := by
  simp [recordHashDelete, hg]

/-- the value `record_hash_delete` stores and emits for a hash value -/
def hdelValue (s : Shard) (rv : RV) (h : NMap Lww) (fs : List Nat) : RV :=
  { rv with
    crdt := .hash (fs.foldl hashDelStep (s.clock, h)).2
    ts := if fs.isEmpty then rv.ts else (fs.foldl hashDelStep (s.clock, h)).1 }

theorem recordHashDelete_hash {s : Shard} {k : Nat} {fs : List Nat} {rv : RV} {h : NMap Lww}
    (hg : NMap.get s.keys k = some rv) (hc : rv.crdt = .hash h) :
    recordHashDelete s k fs =
      ({ s with clock := (fs.foldl hashDelStep (s.clock, h)).1,
                keys := NMap.insert k (hdelValue s rv h fs) s.keys },
       some (hdelValue s rv h fs)) := by
  simp [recordHashDelete, hg, hc, hdelValue]

theorem recordHashDelete_other {s : Shard} {k : Nat} {fs : List Nat} {rv : RV}
    (hg : NMap.get s.keys k = some rv) (hc : rv.crdt.kind ≠ 5) :
    recordHashDelete s k fs = (s, none) := by
  simp only [recordHashDelete, hg]
  cases h : rv.crdt <;> simp_all [Crdt.kind]

/-! ### merge keeps domination: a merge never invents a stamp -/

theorem inner_tryMerge {a b m : Crdt} (h : Crdt.tryMerge a b = some m) :
    ∀ t ∈ m.innerStamps, t ∈ a.innerStamps ∨ t ∈ b.innerStamps := by
  cases a <;> cases b <;> simp [Crdt.tryMerge] at h <;> subst h <;> intro t ht <;>
    simp only [Crdt.innerStamps] at ht ⊢ <;> try (simp at ht)
  · -- lww / lww
    rename_i x y
    simp only [Lww.merge] at ht
    split at ht
    · right; simp [ht]
    · left; simp [ht]
  · -- hash / hash
    rename_i x y
    obtain ⟨k, r, hp, rfl⟩ := ht
    have := NMap.merge_forall (f := Lww.merge)
      (P := fun r => r.ts ∈ x.map (·.2.ts) ∨ r.ts ∈ y.map (·.2.ts)) (a := x) (b := y)
      (by
        intro u v hu hv
        simp only [Lww.merge]
        split <;> assumption)
      (fun q hq => Or.inl (List.mem_map.mpr ⟨q, hq, rfl⟩))
      (fun q hq => Or.inr (List.mem_map.mpr ⟨q, hq, rfl⟩))
    exact this (k, r) hp

theorem inner_mwt (a b : Crdt) (sa sb : Stamp) :
    ∀ t ∈ (Crdt.mergeWithTimestamps a b sa sb).innerStamps,
      t ∈ a.innerStamps ∨ t ∈ b.innerStamps := by
  unfold Crdt.mergeWithTimestamps
  split
  · rename_i m h; exact inner_tryMerge h
  · split
    · intro t ht; exact Or.inr ht
    · intro t ht; exact Or.inl ht

theorem dominated_merge {a b : RV} (ha : a.Dominated) (hb : b.Dominated) :
    (RV.merge a b).Dominated := by
  intro t ht
  have hT : (RV.merge a b).ts.time = Max.max a.ts.time b.ts.time := by
    simp [RV.merge, RV.mergeWith, RV.stampMerge, Stamp.max_time]
  rw [hT]
  have hal : a.ts.time ≤ Max.max a.ts.time b.ts.time := Nat.le_max_left _ _
  have hbl : b.ts.time ≤ Max.max a.ts.time b.ts.time := Nat.le_max_right _ _
  rcases inner_mwt a.crdt b.crdt a.ts b.ts t ht with h | h
  · exact Nat.le_trans (ha t h) hal
  · exact Nat.le_trans (hb t h) hbl

theorem merge_ts_time (a b : RV) : (RV.merge a b).ts.time = Max.max a.ts.time b.ts.time := by
  simp [RV.merge, RV.mergeWith, RV.stampMerge, Stamp.max_time]

end Shard
end RedisVerif
