import RedisVerif.Lemmas.GossipSim

/-!
  Accounting of delta copies at the message level (broadcast gossip): every delta a node issued
  is, for every configured peer, still queued at its origin, or on the wire to that peer, or
  recorded as lost.  Behind `C06.delivered_of_no_loss`.
-/
namespace RedisVerif
namespace Gossip
open MCluster

/-- one destination of one broadcast message: the step of the fold in `sendOne` -/
def bstep (r : Routed) (acc : List Packet × List (Msg × Loss × Option Nat) × List Bool) (addr : Nat) :
    List Packet × List (Msg × Loss × Option Nat) × List Bool :=
  if acc.2.2.headD true then (acc.1 ++ [⟨addr, r.msg⟩], acc.2.1, acc.2.2.tail)
  else (acc.1, acc.2.1 ++ r.msg.payload.map (fun d => (d, Loss.sendFailed, some addr)), acc.2.2.tail)

theorem sendOne_broadcast (cfg : NodeCfg) (r : Routed) (oks : List Bool) (h : r.target = none) :
    sendOne cfg r oks = cfg.peers.foldl (bstep r) ([], [], oks) := by
  unfold sendOne
  rw [h]
  rfl

/-- what a destination got: the frame, or a loss record for each delta of the frame -/
def Got (r : Routed) (a : Nat) (acc : List Packet × List (Msg × Loss × Option Nat) × List Bool) : Prop :=
  (⟨a, r.msg⟩ : Packet) ∈ acc.1 ∨ ∀ d ∈ r.msg.payload, (d, Loss.sendFailed, some a) ∈ acc.2.1

theorem got_mono (r : Routed) (a addr : Nat) (acc) (h : Got r a acc) : Got r a (bstep r acc addr) := by
  unfold bstep
  split
  · rcases h with h | h
    · exact Or.inl (List.mem_append_left _ h)
    · exact Or.inr h
  · rcases h with h | h
    · exact Or.inl h
    · exact Or.inr (fun d hd => List.mem_append_left _ (h d hd))

theorem got_here (r : Routed) (addr : Nat) (acc) : Got r addr (bstep r acc addr) := by
  unfold bstep
  split
  · exact Or.inl (by simp)
  · refine Or.inr (fun d hd => ?_)
    simp only [List.mem_append, List.mem_map]
    exact Or.inr ⟨d, hd, rfl⟩

theorem fold_bstep_got (r : Routed) : ∀ (ps : List Nat) (acc), ∀ a,
    (a ∈ ps ∨ Got r a acc) → Got r a (ps.foldl (bstep r) acc) := by
  intro ps
  induction ps with
  | nil => intro acc a h; rcases h with h | h; cases h; exact h
  | cons p ps ih =>
    intro acc a h
    simp only [List.foldl_cons]
    apply ih
    rcases h with h | h
    · rcases List.mem_cons.mp h with h | h
      · subst h; exact Or.inr (got_here r a acc)
      · exact Or.inl h
    · exact Or.inr (got_mono r a p acc h)

theorem fold_bstep_mono (r : Routed) : ∀ (ps : List Nat) (acc),
    (∀ pk ∈ acc.1, pk ∈ (ps.foldl (bstep r) acc).1) ∧ (∀ l ∈ acc.2.1, l ∈ (ps.foldl (bstep r) acc).2.1) := by
  intro ps
  induction ps with
  | nil => intro acc; exact ⟨fun _ h => h, fun _ h => h⟩
  | cons p ps ih =>
    intro acc
    simp only [List.foldl_cons]
    have := ih (bstep r acc p)
    constructor
    · intro pk hpk
      apply this.1
      unfold bstep; split
      · exact List.mem_append_left _ hpk
      · exact hpk
    · intro l hl
      apply this.2
      unfold bstep; split
      · exact hl
      · exact List.mem_append_left _ hl

/-- every broadcast message of a tick reaches every configured peer or is recorded lost for it -/
theorem sendAll_broadcast_complete (cfg : NodeCfg) (rs : List Routed) (oks : List Bool)
    (hb : ∀ r ∈ rs, r.target = none) :
    ∀ r ∈ rs, ∀ a ∈ cfg.peers,
      (⟨a, r.msg⟩ : Packet) ∈ (sendAll cfg rs oks).1 ∨
      ∀ d ∈ r.msg.payload, (d, Loss.sendFailed, some a) ∈ (sendAll cfg rs oks).2 := by
  have gen : ∀ (l : List Routed) (acc : List Packet × List (Msg × Loss × Option Nat) × List Bool),
      (∀ r ∈ l, r.target = none) →
      let res := l.foldl (fun acc r =>
        let s := sendOne cfg r acc.2.2
        (acc.1 ++ s.1, acc.2.1 ++ s.2.1, s.2.2)) acc
      ((∀ pk ∈ acc.1, pk ∈ res.1) ∧ (∀ x ∈ acc.2.1, x ∈ res.2.1)) ∧
      ∀ r ∈ l, ∀ a ∈ cfg.peers, (⟨a, r.msg⟩ : Packet) ∈ res.1 ∨
        ∀ d ∈ r.msg.payload, (d, Loss.sendFailed, some a) ∈ res.2.1 := by
    intro l
    induction l with
    | nil => intro acc _; exact ⟨⟨fun _ h => h, fun _ h => h⟩, fun r hr => by cases hr⟩
    | cons r l ih =>
      intro acc hl
      simp only [List.foldl_cons]
      have hrn : r.target = none := hl r List.mem_cons_self
      have hrest := ih (acc.1 ++ (sendOne cfg r acc.2.2).1, acc.2.1 ++ (sendOne cfg r acc.2.2).2.1,
        (sendOne cfg r acc.2.2).2.2) (fun x hx => hl x (List.mem_cons_of_mem _ hx))
      simp only at hrest
      refine ⟨⟨fun pk hpk => hrest.1.1 pk (List.mem_append_left _ hpk),
        fun x hx => hrest.1.2 x (List.mem_append_left _ hx)⟩, ?_⟩
      intro r' hr' a ha
      rcases List.mem_cons.mp hr' with h | h
      · subst h
        have hg := fold_bstep_got r' cfg.peers ([], [], acc.2.2) a (Or.inl ha)
        rw [← sendOne_broadcast cfg r' acc.2.2 hrn] at hg
        rcases hg with hg | hg
        · exact Or.inl (hrest.1.1 _ (List.mem_append_right _ hg))
        · exact Or.inr (fun d hd => hrest.1.2 _ (List.mem_append_right _ (hg d hd)))
      · exact hrest.2 r' h a ha
  intro r hr a ha
  have := (gen rs ([], [], oks) hb).2 r hr a ha
  simpa [sendAll] using this

/-- a delta inside a queue is dropped by the capacity or kept -/
theorem mem_deltasOf_split (cap : Nat) (q : List Routed) (m : Msg) (h : m ∈ deltasOf q) :
    m ∈ deltasOf (overflow cap q) ∨ m ∈ deltasOf (enforceCap cap q) := by
  rw [← overflow_append_enforceCap cap q, deltasOf_append, List.mem_append] at h
  exact h

end Gossip
end RedisVerif
